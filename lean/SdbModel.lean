import SdbModel.Model.Enc
import SdbModel.Generated.EncParams
import SdbModel.Lemmas.Enc
import SdbModel.Props.C18
