import SdbModel.Model.Table
import SdbModel.Model.TableWatch
import Driver.Util
/-! driver suite `table` (C01–C04, C06–C09, C19): statedb.DB / tables / queries /
    change iterators / graveyard / initializers vs Model.Table; the watch channels of the
    table queries vs Model.TableWatch, which runs alongside on the same operations
    (product state): the watch variants print, after the result, the canonical name of the
    channel handed out (w1, w2, ... in order of first appearance) and whether it is closed;
    `closed` prints the sorted names of all closed channels handed out so far -/
namespace Drv.TableS
open Sdb Sdb.Tbl

structure S where
  db : DB := newDB
  snaps : Array (List TableS) := #[]
  dones : Array (Nat × String) := #[]      -- registered initializers (table, name)
  kept : Array String := #[]              -- results of queries whose sequence is iterated later
  tw : TW.DB := {}                         -- Model.TableWatch, driven by the same operations
  twSnaps : Array (List TW.View) := #[]    -- what each retained snapshot sees of the index trees
  names : List ((Nat × Nat × Nat) × Nat) := []   -- (table, index, channel) ↦ canonical number
  nextName : Nat := 1
  parkedClose : String := ""               -- iterator whose Close() is held until `ccloseresume`
  deriving Inhabited

def tableIdx : String → Option Nat
  | "m" => some 0
  | "a" => some 1
  | _ => none

def splitComma (s : String) : List String := if s == "-" then [] else s.splitOn ","

def parseTags (s : String) : Option (List Key) := (splitComma s).mapM parseKey

def parsePfx (s : String) : Option (Key × Nat) :=
  match s.splitOn "/" with
  | [d, l] => do
    let d ← parseKey d
    let l ← l.toNat?
    pure (d, l)
  | _ => none

def parsePfxs (s : String) : Option (List (Key × Nat)) := (splitComma s).mapM parsePfx

def parseObj : List String → Option Obj
  | [id, val, uvar, tags, pfxs, up, ord] => do
    let id ← parseKey id
    let val ← val.toNat?
    let uvar ← uvar.toNat?
    let tags ← parseTags tags
    let pfxs ← parsePfxs pfxs
    let ord ← ord.toNat?
    pure { id, val, uvar, tags, pfxs, up := up == "1", ord, rev := 0 }
  | _ => none

def showObj (o : Obj) : String := s!"{showKey o.id}={o.val}@{o.rev}"
def showObjs (os : List Obj) : String := if os.isEmpty then "." else " ".intercalate (os.map showObj)
def showOO : Option Obj → String
  | some o => showObj o
  | none => "-"

/-- the tables a handle reads: (root(), committedRoot()) -/
def handle (s : S) (h : String) : Option (List TableS × List TableS) :=
  if h == "w" then s.db.wtxn.map fun es => (es, s.db.oldRoot)
  else if h == "-" then some (s.db.root, s.db.root)
  else match h.toList with
    | 's' :: rest => ((String.ofList rest).toNat? >>= (s.snaps[·]?)).map fun r => (r, r)
    | _ => none

def getT (ts : List TableS) (i : Nat) : TableS := ts.getD i default

def setW (s : S) (i : Nat) (t : TableS) : S :=
  match s.db.wtxn with
  | some es => { s with db := { s.db with wtxn := some (es.set i t) } }
  | none => s

def resolveRev (t : TableS) (id : Key) (spec : String) : Nat :=
  let cur := match t.primary.get id with | some o => o.rev | none => t.rev
  match spec with
  | "cur" => cur
  | "cur-1" => cur - 1
  | "cur+1" => cur + 1
  | "0" => 0
  | _ => 1000000

def parseIdx : String → Option Idx
  | "id" => some .id | "u" => some .u | "tags" => some .tags
  | "lpm" => some .lpm | "ulpm" => some .ulpm | _ => none

/-- query key: hex key, or data/plen for LPM indexes -/
def parseQKey (ix : Idx) (k : String) : Option (Key × Nat) :=
  match ix with
  | .lpm | .ulpm => parsePfx k
  | _ => (parseKey k).map fun k => (k, 0)

def showChange (c : Change) : String := s!"{if c.deleted then "D" else "U"}:{showObj c.obj}"

def consume (db : DB) (ci : Nat) (it : ChangeIter) (k : Int) : DB × ChangeIter × List Change :=
  match it.pending with
  | none => (db, it, [])
  | some ps =>
    let n := if k < 0 then ps.length else min k.toNat ps.length
    let taken := ps.take n
    let (it, db) := taken.foldl (fun (acc : ChangeIter × DB) c =>
        if c.deleted then ({ acc.1 with deleteRevision := c.rev }, { (acc.2.setTrackerRev acc.1.tracker c.rev) with gcTrig := true })
        else ({ acc.1 with revision := c.rev }, acc.2)) (it, db)
    let exhausted := k < 0 ∨ k.toNat > ps.length
    let it := { it with pending := if exhausted then none else some (ps.drop n) }
    ({ db with iters := db.iters.set! ci it }, it, taken)

/-- the watch variants of the queries observe the same results -/
def stripW (op : String) : String :=
  match op with
  | "getw" => "get" | "listw" => "list" | "prefixw" => "prefix" | "lbw" => "lb" | "allw" => "all"
  | o => o

def stepCore (s : S) (ws0 : List String) : S × String :=
  let ws := match ws0 with | op :: rest => stripW op :: rest | [] => []
  match ws with
  | ["wtxn", tabs] =>
    if s.db.wtxn.isSome then (s, "bad-op") else
    let lm := tabs.toList.contains 'm'
    let la := tabs.toList.contains 'a'
    ({ s with db := s.db.beginW lm la }, "ok")
  | ["commit"] =>
    match s.db.wtxn with
    | some _ =>
      let db := s.db.commit
      ({ s with db, snaps := s.snaps.push db.root }, s!"s{s.snaps.size}")
    | none => (s, "nil")
  | ["abort"] => ({ s with db := s.db.abort }, "ok")
  | ["rtxn"] => ({ s with snaps := s.snaps.push s.db.root }, s!"s{s.snaps.size}")
  | op :: tn :: rest =>
    match tableIdx tn with
    | none =>
      -- ops whose 2nd token is not a table
      match op, tn :: rest with
      | "get", [h, tn, ix, k] | "list", [h, tn, ix, k] | "prefix", [h, tn, ix, k] | "lb", [h, tn, ix, k] =>
        match handle s h, tableIdx tn, parseIdx ix with
        | some (ts, _), some ti, some ix =>
          match parseQKey ix k with
          | some (key, pl) =>
            let t := getT ts ti
            let r := match op with
              | "get" => showObjs (qGet t ix key pl).toList
              | "list" => showObjs (qList t ix key pl)
              | "prefix" => showObjs (qPrefix t ix key pl)
              | _ => showObjs (qLowerBound t ix key pl)
            (s, r)
          | none => (s, "bad-op")
        | _, _, _ => (s, "bad-op")
      | "klist", [h, tn, ix, k] | "kprefix", [h, tn, ix, k] | "klb", [h, tn, ix, k] =>
        -- the query is made now; its (lazily evaluated) sequence is iterated by a later `kdrain`
        match handle s h, tableIdx tn, parseIdx ix with
        | some (ts, _), some ti, some ix =>
          if h == "w" then (s, "bad-op") else
          match parseQKey ix k with
          | some (key, pl) =>
            let t := getT ts ti
            let r := match op with
              | "klist" => showObjs (qList t ix key pl)
              | "kprefix" => showObjs (qPrefix t ix key pl)
              | _ => showObjs (qLowerBound t ix key pl)
            ({ s with kept := s.kept.push r }, s!"k{s.kept.size}")
          | none => (s, "bad-op")
        | _, _, _ => (s, "bad-op")
      | "kdrain", [i] =>
        match i.toNat? >>= (s.kept[·]?) with
        | some r => (s, r)
        | none => (s, "bad-op")
      | "all", [h, tn] =>
        match handle s h, tableIdx tn with
        | some (ts, _), some ti => (s, showObjs (qAll (getT ts ti)))
        | _, _ => (s, "bad-op")
      | "num", [h, tn] =>
        match handle s h, tableIdx tn with
        | some (ts, _), some ti => (s, toString (numObjects (getT ts ti)))
        | _, _ => (s, "bad-op")
      | "rev", [h, tn] =>
        match handle s h, tableIdx tn with
        | some (ts, _), some ti => (s, toString (getT ts ti).rev)
        | _, _ => (s, "bad-op")
      | "glen", [h, tn] =>
        match handle s h, tableIdx tn with
        | some (ts, _), some ti => (s, toString (getT ts ti).grave.length)
        | _, _ => (s, "bad-op")
      | "byrev", [h, tn, n] =>
        match handle s h, tableIdx tn, n.toNat? with
        | some (ts, _), some ti, some n => (s, showObjs (qLowerBound (getT ts ti) .rev (revKey n) 0))
        | _, _, _ => (s, "bad-op")
      | "inited", [h, tn] =>
        match handle s h, tableIdx tn with
        | some (ts, _), some ti =>
          let t := getT ts ti
          let pend := tblPending t
          (s, s!"{tblInitialized t} {if pend.isEmpty then "." else ",".intercalate pend}")
        | _, _ => (s, "bad-op")
      | "next", [c, h, k] =>
        match c.toNat?, handle s h, parseInt k with
        | some ci, some (ts, committed), some k =>
          match s.db.iters[ci]? with
          | some it =>
            let closed := match it.watchGen with
              | none => true
              | some g => (getT s.db.root it.table).gen > g
            if it.pending.isNone ∧ !closed then (s, "open .")
            else if it.stale committed then
              -- Next hands back the stale snapshot's own watch channel and delivers nothing
              let it := it.refresh committed ts true
              let nowClosed := match it.watchGen with
                | none => true
                | some g => (getT s.db.root it.table).gen > g
              ({ s with db := { s.db with iters := s.db.iters.set! ci it } }, if nowClosed then "closed ." else "open .")
            else
              let it := it.refresh committed ts true
              let (db, _, taken) := consume s.db ci it k
              ({ s with db }, "closed " ++ (if taken.isEmpty then "." else " ".intercalate (taken.map showChange)))
          | none => (s, "bad-op")
        | _, _, _ => (s, "bad-op")
      | "ccloserace", [c] =>
        if s.db.wtxn.isSome || s.db.gcPaused then (s, "bad-op") else
        match c.toNat? with
        | some ci =>
          match s.db.iters[ci]? with
          | some it =>
            -- a pending trigger makes the collector scan now, before the tracker is removed
            let db := if s.db.gcTrig then { s.db with gcDead := gcScan s.db, gcPaused := true, gcTrig := false } else s.db
            let root := db.root.mapIdx fun i t => if i = it.table then { t with trackers := t.trackers.filter (· ≠ it.tracker) } else t
            ({ s with db := { db with root, gcTrig := true, iters := db.iters.set! ci { it with closed := true, pending := none } } }, "ok")
          | none => (s, "bad-op")
        | none => (s, "bad-op")
      | "cclose", [c] =>
        if s.db.wtxn.isSome then (s, "bad-op") else
        match c.toNat? with
        | some ci =>
          match s.db.iters[ci]? with
          | some it =>
            let root := s.db.root.mapIdx fun i t => if i = it.table then { t with trackers := t.trackers.filter (· ≠ it.tracker) } else t
            ({ s with db := { s.db with root, gcTrig := true, iters := s.db.iters.set! ci { it with closed := true, pending := none } } }, "ok")
          | none => (s, "bad-op")
        | none => (s, "bad-op")
      | "initdone", [d] =>
        match d.toNat? >>= (s.dones[·]?), s.db.wtxn with
        | some (ti, name), some es =>
          let t := getT es ti
          if !t.locked then (s, "panic") else
          (setW s ti (tblMarkDone t name), "ok")
        | _, _ => (s, "bad-op")
      | _, _ => (s, "bad-op")
    | some ti =>
      match op with
      | "side" =>
        -- another write transaction, on a table the open one does not hold, inserts and commits:
        -- the committed root changes, the open transaction's view (entries, oldRoot) does not
        match s.db.wtxn, parseObj rest with
        | some es, some o =>
          if (getT es ti).locked || s.db.gcPaused then (s, "bad-op") else
          let db1 := ({ s.db with wtxn := none }).beginW (ti == 0) (ti == 1)
          match db1.wtxn with
          | some es1 =>
            let (t, old, err) := modify (getT es1 ti) 0 o false
            let db2 := ({ db1 with wtxn := some (es1.set ti t) }).commit
            ({ s with db := { db2 with wtxn := s.db.wtxn, oldRoot := s.db.oldRoot } }, s!"{showOO old} {err.str}")
          | none => (s, "bad-op")
        | _, _ => (s, "bad-op")
      | "ins" | "insw" | "mod" =>
        match s.db.wtxn, parseObj rest with
        | some es, some o =>
          let (t, old, err) := modify (getT es ti) 0 o (op == "mod")
          (setW s ti t, s!"{showOO old} {err.str}")
        | none, some _ => (s, "- closed")
        | _, _ => (s, "bad-op")
      | "cas" =>
        match rest with
        | spec :: orest =>
          match s.db.wtxn, parseObj orest with
          | some es, some o =>
            let t0 := getT es ti
            let g := resolveRev t0 o.id spec
            let (t, old, err) := modify t0 g o false
            let old := if err == .notFound then none else old
            (setW s ti t, s!"{showOO old} {err.str}")
          | none, some _ => (s, "- closed")
          | _, _ => (s, "bad-op")
        | _ => (s, "bad-op")
      | "del" =>
        match s.db.wtxn, rest with
        | some es, [id] =>
          match parseKey id with
          | some id =>
            let (t, old, err) := delete (getT es ti) 0 id
            (setW s ti t, s!"{showOO old} {err.str}")
          | none => (s, "bad-op")
        | none, [_] => (s, "- closed")
        | _, _ => (s, "bad-op")
      | "cad" =>
        match s.db.wtxn, rest with
        | some es, [spec, id] =>
          match parseKey id with
          | some id =>
            let t0 := getT es ti
            let (t, old, err) := delete t0 (resolveRev t0 id spec) id
            (setW s ti t, s!"{showOO old} {err.str}")
          | none => (s, "bad-op")
        | none, [_, _] => (s, "- closed")
        | _, _ => (s, "bad-op")
      | "delall" =>
        match s.db.wtxn with
        | some es =>
          let (t, err) := deleteAll (getT es ti)
          (setW s ti t, err.str)
        | none => (s, "bad-op")
      | "changes" =>
        match s.db.wtxn with
        | some es =>
          let t := getT es ti
          if !t.locked then (s, "notLocked") else
          let id := s.db.nextTracker
          let it : ChangeIter := { table := ti, revision := 0, deleteRevision := t.rev, tracker := id, pending := none, watchGen := none, base := t.rev }
          let t := { t with trackers := id :: t.trackers }
          let es := es.set ti t
          let it := it.refresh s.db.oldRoot es true
          let db := { s.db with wtxn := some es, nextTracker := id + 1, iters := s.db.iters.push it }
          let db := db.setTrackerRev id t.rev
          ({ s with db }, s!"c{s.db.iters.size}")
        | none => (s, "bad-op")
      | "reginit" =>
        match s.db.wtxn, rest with
        | some es, [name] =>
          let t := getT es ti
          if !t.locked then (s, "panic") else
          let s := setW s ti (tblRegister t name)
          ({ s with dones := s.dones.push (ti, name) }, s!"d{s.dones.size}")
        | _, _ => (s, "bad-op")
      | _ => (s, "bad-op")
  | ["gc"] =>
    if s.db.wtxn.isSome then (s, "bad-op") else
    let db := if s.db.gcPaused then { (gcApply s.db s.db.gcDead) with gcDead := [], gcPaused := false } else s.db
    ({ s with db := { (gcApply db (gcScan db)) with gcTrig := false } }, "ok")
  | ["gcwhile"] =>
    match s.db.wtxn with
    | some es =>
      if (getT es 0).locked || !(getT es 1).locked || s.db.gcPaused then (s, "bad-op") else
      let dead := gcScan s.db
      if dead.any (·.1 = 1) then (s, "bad-op") else
      ({ s with db := { (gcApply s.db dead) with gcTrig := false } }, "ok")
    | none => (s, "bad-op")
  | ["gcidle"] =>
    if s.db.wtxn.isSome then (s, "bad-op") else
    let paused := s.db.gcPaused
    let db := if paused then { (gcApply s.db s.db.gcDead) with gcDead := [], gcPaused := false } else s.db
    if db.gcTrig then ({ s with db := { (gcApply db (gcScan db)) with gcTrig := false } }, "ran")
    else ({ s with db }, if paused then "ran" else "idle")
  | ["gcscan"] =>
    if s.db.gcPaused then (s, "ok")
    else ({ s with db := { s.db with gcDead := gcScan s.db, gcPaused := true, gcTrig := false } }, "ok")
  | ["gcapply"] =>
    if s.db.wtxn.isSome then (s, "bad-op") else
    if s.db.gcPaused then ({ s with db := { (gcApply s.db s.db.gcDead) with gcDead := [], gcPaused := false } }, "ok")
    else (s, "ok")
  | _ => (s, "bad-op")

/-! ### Model.TableWatch alongside -/

def S.name (s : S) (k : Nat × Nat × Nat) : S × String :=
  if k.2.2 = 0 then (s, "nil") else
  match s.names.find? (·.1 = k) with
  | some (_, n) => (s, s!"w{n}")
  | none => ({ s with names := (k, s.nextName) :: s.names, nextName := s.nextName + 1 }, s!"w{s.nextName}")

def S.chanClosed (s : S) (k : Nat × Nat × Nat) : Bool := (s.tw.tab k.1).isClosed k.2.1 k.2.2

/-- name + state of a channel handed out -/
def S.showChan (s : S) (ti : Nat) (c : Nat × Nat) : S × String :=
  let k := (ti, c.1, c.2)
  let (s, n) := s.name k
  (s, if c.2 = 0 then n else s!"{n} {if s.chanClosed k then "closed" else "open"}")

def parseKind : String → Option TW.QKind
  | "get" => some .get | "list" => some .list | "prefix" => some .prefix | "lb" => some .lb | "all" => some .all
  | _ => none

def isWatchOp (op : String) : Bool := op == "getw" || op == "listw" || op == "prefixw" || op == "lbw" || op == "allw"

def twViews (s : S) : List TW.View := s.tw.root.map (·.view)

/-- the view a handle gives of table `ti` (after the reads of the query went through the write txn) -/
def twHandle (s : S) (h : String) (ti : Nat) : Option TW.View :=
  if h == "w" then s.tw.wtxn.map fun ws => (ws.getD ti default).view
  else if h == "-" then some (s.tw.tab ti).view
  else match h.toList with
    | 's' :: rest => ((String.ofList rest).toNat? >>= (s.twSnaps[·]?)).map fun vs => vs.getD ti default
    | _ => none

/-- a query: reads through the write transaction bump the index transaction; the watch variants
    report the channel -/
def twQuery (s : S) (op h tn : String) (ix : Idx) (key : Key) : S × String :=
  match tableIdx tn, parseKind (stripW op) with
  | some ti, some k =>
    let s := if h == "w" then { s with tw := s.tw.write ti (TW.readOps ix k) } else s
    if isWatchOp op then
      match twHandle s h ti with
      | some v =>
        let (s, c) := s.showChan ti (v.chan ix k key)
        (s, " # " ++ c)
      | none => (s, "")
    else (s, "")
  | _, _ => (s, "")

/-- the TableWatch half of one operation, computed on the state BEFORE the operation: new state and
    the text appended to the observation -/
def twStep (s : S) (ws : List String) : S × String :=
  match ws with
  | ["wtxn", tabs] =>
    if s.db.wtxn.isSome then (s, "") else
    ({ s with tw := s.tw.beginW (tabs.toList.contains 'm') (tabs.toList.contains 'a') }, "")
  | ["commit"] =>
    match s.db.wtxn with
    | some _ => let tw := s.tw.commit; ({ s with tw, twSnaps := s.twSnaps.push (tw.root.map (·.view)) }, "")
    | none => (s, "")
  | ["abort"] => ({ s with tw := s.tw.abort }, "")
  | ["rtxn"] => ({ s with twSnaps := s.twSnaps.push (twViews s) }, "")
  | [op, h, tn, ix, k] =>
    match parseKind (stripW op), parseIdx ix with
    | some _, some ix =>
      match parseQKey ix k with
      | some (key, _) => twQuery s op h tn ix key
      | none => (s, "")
    | _, _ => (s, "")
  | [op, h, tn] =>
    if op == "all" || op == "allw" then twQuery s op h tn .id [] else
    match tableIdx h, s.db.wtxn, op with
    | some ti, some es, "del" =>
      match parseKey tn with
      | some id => ({ s with tw := s.tw.write ti (TW.deleteOps (getT es ti) 0 id) }, "")
      | none => (s, "")
    | _, _, _ => (s, "")
  | op :: tn :: rest =>
    match tableIdx tn, s.db.wtxn with
    | some ti, some es =>
      let t := getT es ti
      match op with
      | "side" =>
        match parseObj rest with
        | some o =>
          if t.locked || s.db.gcPaused then (s, "") else
          -- the second transaction starts from the COMMITTED table, not from the open one's view
          ({ s with tw := s.tw.side ti (TW.modifyOps { getT s.db.root ti with locked := true } 0 o false) }, "")
        | none => (s, "")
      | "ins" | "mod" =>
        match parseObj rest with
        | some o => ({ s with tw := s.tw.write ti (TW.modifyOps t 0 o (op == "mod")) }, "")
        | none => (s, "")
      | "insw" =>
        match parseObj rest with
        | some o =>
          let w := ((s.tw.wtxn.getD []).getD ti default).insWatch (s.tw.tab ti) t o
          let s := { s with tw := s.tw.write ti (TW.modifyOps t 0 o false) }
          let (s, c) := s.showChan ti (0, w)
          (s, " # " ++ c)
        | none => (s, "")
      | "cas" =>
        match rest with
        | spec :: orest =>
          match parseObj orest with
          | some o => ({ s with tw := s.tw.write ti (TW.modifyOps t (resolveRev t o.id spec) o false) }, "")
          | none => (s, "")
        | _ => (s, "")
      | "cad" =>
        match rest with
        | [spec, id] =>
          match parseKey id with
          | some id => ({ s with tw := s.tw.write ti (TW.deleteOps t (resolveRev t id spec) id) }, "")
          | none => (s, "")
        | _ => (s, "")
      | _ => (s, "")
    | _, _ => (s, "")
  | _ => (s, "")

def closedNames (s : S) : String :=
  let cl := s.names.filter fun (k, _) => s.chanClosed k
  let ns := (cl.map (·.2)).toArray.qsort (· < ·)
  if ns.isEmpty then "." else " ".intercalate (ns.toList.map fun n => s!"w{n}")

def step (s : S) (ws : List String) : S × String :=
  match ws with
  | ["closed"] => (s, closedNames s)
  -- Close() started while a write transaction on the table is open and finished after it:
  -- serialised after that transaction, i.e. a `cclose` at the point of `ccloseresume`
  -- a second write transaction (holding the OTHER table) attempts a write to a table the open
  -- transaction holds: refused, nothing changes for anybody
  | "sidebad" :: tn :: _ =>
    (match tableIdx tn, s.db.wtxn with
     | some ti, some es =>
       if (getT es ti).locked && !(getT es (1 - ti)).locked && !s.db.gcPaused then (s, "notLocked") else (s, "bad-op")
     | _, _ => (s, "bad-op"))
  | ["cclosepark", c] => ({ s with parkedClose := c }, "ok")
  | ["ccloseresume"] => stepCore { s with parkedClose := "" } ["cclose", s.parkedClose]
  | ["delall", tn] =>
    match tableIdx tn, s.db.wtxn with
    | some ti, some es =>
      let tw := s.tw.write ti (TW.deleteAllOps (getT es ti))
      let (s1, out) := stepCore s ws
      ({ s1 with tw }, out)
    | _, _ => stepCore s ws
  | _ =>
    let (s2, suffix) := twStep s ws
    let (s1, out) := stepCore s ws
    if out == "bad-op" then (s1, out)
    else ({ s1 with tw := s2.tw, twSnaps := s2.twSnaps, names := s2.names, nextName := s2.nextName }, out ++ suffix)

end Drv.TableS
