import Driver.EncSuite
import Driver.PartSuite
import Driver.PMapSuite
import Driver.LpmSuite
import Driver.TableSuite
import Driver.SchedSuite
import Driver.WSSuite
import Driver.RecSuite
import Driver.SSetSuite
/-!
  Model driver.  usage: driver <suite> < ops-file
  Reads lines; `case N` is echoed (and resets suite state), `op ...` produces
  exactly one `obs ...` line from the model; everything else is ignored.
-/
open Drv

partial def loopStateless (h : IO.FS.Stream) (out : IO.FS.Stream) (f : List String → String) : IO Unit := do
  let line ← h.getLine
  if line.isEmpty then return ()
  match words line with
  | "case" :: rest => out.putStrLn ("case " ++ " ".intercalate rest)
  | "op" :: rest => out.putStrLn ("obs " ++ f rest)
  | _ => pure ()
  loopStateless h out f

partial def loopState {σ : Type} [Inhabited σ] (h : IO.FS.Stream) (out : IO.FS.Stream)
    (f : σ → List String → σ × String) (s : σ) : IO Unit := do
  let line ← h.getLine
  if line.isEmpty then return ()
  match words line with
  | "case" :: rest =>
    out.putStrLn ("case " ++ " ".intercalate rest)
    loopState h out f default
  | "op" :: rest =>
    let (s', o) := f s rest
    out.putStrLn ("obs " ++ o)
    loopState h out f s'
  | _ => loopState h out f s

def main (args : List String) : IO UInt32 := do
  let stdin ← IO.getStdin
  let stdout ← IO.getStdout
  match args with
  | ["enc"] => loopStateless stdin stdout Enc.step; return 0
  | ["part"] => loopState stdin stdout Part.step (default : Part.S); return 0
  | ["lpm"] => loopState stdin stdout LpmS.step (default : LpmS.S); return 0
  | ["table"] => loopState stdin stdout TableS.step (default : TableS.S); return 0
  | ["vtab"] => loopState stdin stdout TableS.step (default : TableS.S); return 0
  | ["sched"] => loopState stdin stdout Sched.stepAll (default : Sched.S); return 0
  | ["ws"] => loopState stdin stdout WSS.step (default : WSS.S); return 0
  | ["rec"] => loopState stdin stdout RecS.step (default : RecS.S); return 0
  | ["sset"] => loopState stdin stdout SSetS.step (default : SSetS.S); return 0
  | ["pmap"] => loopState stdin stdout PMapS.step (default : PMapS.S); return 0
  | _ => IO.eprintln "usage: driver <suite>"; return 2
