import SdbModel.Model.PMap
import SdbModel.Generated.ArtParams
import Driver.Util
/-! driver suite `pmap` (C17): part.Map / part.Set vs Model.PMap -/
namespace Drv.PMapS
open Sdb Sdb.Art Sdb.PMap

def P : ArtParams := Gen.artParams

structure S where
  maps : Array Map := #[]
  sets : Array PSet := #[]
  txn : Option Txn := none
  deriving Inhabited

def showEntries (es : List (List Nat × Nat)) : String :=
  if es.isEmpty then "." else " ".intercalate (es.map fun (k, v) => s!"{showKey k}={v}")
def showKeysL (ks : List (List Nat)) : String :=
  if ks.isEmpty then "." else " ".intercalate (ks.map showKey)
def showOpt : Option Nat → String
  | some v => toString v
  | none => "-"

def parsePairs : List String → Option (List (List Nat × Nat))
  | [] => some []
  | k :: v :: rest => do
    let k ← parseKey k
    let v ← v.toNat?
    let r ← parsePairs rest
    pure ((k, v) :: r)
  | _ => none

def pushMap (s : S) (m : Map) : S × String :=
  ({ s with maps := s.maps.push m }, s!"m{s.maps.size} {m.rep} {m.len}")
def pushSet (s : S) (x : PSet) : S × String :=
  ({ s with sets := s.sets.push x }, s!"s{s.sets.size} {x.rep} {x.len}")

def getM (s : S) (i : String) : Option Map := i.toNat? >>= (s.maps[·]?)
def getS (s : S) (i : String) : Option PSet := i.toNat? >>= (s.sets[·]?)

def step (s : S) (ws : List String) : S × String :=
  match ws with
  | ["mnew"] => pushMap s {}
  | ["mset", i, k, v] =>
    match getM s i, parseKey k, v.toNat? with
    | some m, some k, some v => pushMap s (m.set P k v)
    | _, _, _ => (s, "bad-op")
  | ["mdel", i, k] =>
    match getM s i, parseKey k with
    | some m, some k => pushMap s (m.delete P k)
    | _, _ => (s, "bad-op")
  | "mfrom" :: i :: rest =>
    match getM s i, parsePairs rest with
    | some m, some hm => pushMap s (m.fromMap P hm)
    | _, _ => (s, "bad-op")
  | ["mget", i, k] =>
    match getM s i, parseKey k with
    | some m, some k => (s, showOpt (m.get k))
    | _, _ => (s, "bad-op")
  | ["mall", i] => match getM s i with | some m => (s, showEntries m.all) | none => (s, "bad-op")
  | ["mprefix", i, k] =>
    match getM s i, parseKey k with
    | some m, some k => (s, showEntries (m.prefix k))
    | _, _ => (s, "bad-op")
  | ["mlb", i, k] =>
    match getM s i, parseKey k with
    | some m, some k => (s, showEntries (m.lowerBound k))
    | _, _ => (s, "bad-op")
  | ["mlen", i] => match getM s i with | some m => (s, toString m.len) | none => (s, "bad-op")
  | ["meq", i, j] =>
    match getM s i, getM s j with
    | some a, some b =>
      let ek := a.equalKeys b
      let ev := a.slowEqual b
      (s, s!"{ek} {ev}")
    | _, _ => (s, "bad-op")
  | ["mjson", i] => match getM s i with | some m => pushMap s (Map.ofEntries P m.all) | none => (s, "bad-op")
  | ["myaml", i] => match getM s i with | some m => pushMap s (Map.ofEntries P m.all) | none => (s, "bad-op")
  | ["mtxn", i] => match getM s i with | some m => ({ s with txn := some (m.txn P) }, "ok") | none => (s, "bad-op")
  | ["tset", k, v] =>
    match s.txn, parseKey k, v.toNat? with
    | some x, some k, some v => ({ s with txn := some (insT P x k v) }, "ok")
    | _, _, _ => (s, "bad-op")
  | ["tdel", k] =>
    match s.txn, parseKey k with
    | some x, some k => let (x, old) := x.delete P k; ({ s with txn := some x }, toString old.isSome)
    | _, _ => (s, "bad-op")
  | ["tget", k] =>
    match s.txn, parseKey k with
    | some x, some k => (s, showOpt (getRoot x.root 0 k).1)
    | _, _ => (s, "bad-op")
  | ["tall"] => match s.txn with | some x => ({ s with txn := some x.bump }, showEntries (allRoot x.root)) | none => (s, "bad-op")
  | ["tprefix", k] =>
    match s.txn, parseKey k with
    | some x, some k => ({ s with txn := some x.bump }, showEntries (prefixRoot x.root 0 k).1)
    | _, _ => (s, "bad-op")
  | ["tlb", k] =>
    match s.txn, parseKey k with
    | some x, some k => ({ s with txn := some x.bump }, showEntries (lbRoot x.root k))
    | _, _ => (s, "bad-op")
  | ["tlen"] => match s.txn with | some x => (s, toString x.size) | none => (s, "bad-op")
  | ["tcommit"] =>
    match s.txn with
    | some x => let (m, x) := commitMapTxn x; pushMap { s with txn := some x } m
    | none => (s, "bad-op")
  | "snew" :: ks =>
    match ks.mapM parseKey with
    | some ks => pushSet s (PSet.ofList P ks)
    | none => (s, "bad-op")
  | ["sset", i, k] =>
    match getS s i, parseKey k with
    | some x, some k => pushSet s (x.set P k)
    | _, _ => (s, "bad-op")
  | ["sdel", i, k] =>
    match getS s i, parseKey k with
    | some x, some k => pushSet s (x.delete P k)
    | _, _ => (s, "bad-op")
  | ["shas", i, k] =>
    match getS s i, parseKey k with
    | some x, some k => (s, toString (x.has k))
    | _, _ => (s, "bad-op")
  | ["sall", i] => match getS s i with | some x => (s, showKeysL x.all) | none => (s, "bad-op")
  | ["slen", i] => match getS s i with | some x => (s, toString x.len) | none => (s, "bad-op")
  | ["sunion", i, j] =>
    match getS s i, getS s j with
    | some a, some b => pushSet s (a.union P b)
    | _, _ => (s, "bad-op")
  | ["sdiff", i, j] =>
    match getS s i, getS s j with
    | some a, some b => pushSet s (a.difference P b)
    | _, _ => (s, "bad-op")
  | ["seq", i, j] =>
    match getS s i, getS s j with
    | some a, some b => (s, toString (a.equal b))
    | _, _ => (s, "bad-op")
  | ["sjson", i] => match getS s i with | some x => pushSet s (PSet.ofJSON P x.all) | none => (s, "bad-op")
  | ["syaml", i] => match getS s i with | some x => pushSet s (PSet.ofYAML P x.all) | none => (s, "bad-op")
  | _ => (s, "bad-op")

end Drv.PMapS
