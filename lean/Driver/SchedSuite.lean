import SdbModel.Model.Conc
import SdbModel.Model.SerialExec
import SdbModel.Generated.Protocol
import Driver.Util
/-! driver suite `sched` (C02, C05, C10, ordering clauses of C06/C19): the
    transaction protocol under a controlled schedule vs Model.Conc -/
namespace Drv.Sched
open Sdb Sdb.Conc

def P : Protocol := Gen.protocol

instance : Inhabited Serial.State := ⟨{}⟩

/-- besides Model.Conc the driver replays every run on Model.Serial (the model the
    theorems of C02 / C05 / C06 / C10 are about): each scheduler step of a writer is
    translated into the Serial events it amounts to (read off the state change), the
    events must be enabled in `Serial.stepFn`, and the two states must agree on the
    committed counters and the lock owners.  A failure is appended to the
    observation, so it shows up as a broken correspondence. -/
structure S where
  st : State := {}
  names : List (Nat × Nat) := []
  nextName : Nat := 1
  ser : Serial.State := {}
  serIdx : Array (Option Nat) := #[]     -- Conc thread ↦ Serial transaction (none: registration thread)
  serRev : Array Nat := #[]              -- Serial transaction ↦ Conc thread
  serCommit : Array Bool := #[]
  serFinal : Array Bool := #[]           -- store / abort already replayed
  serBroken : Bool := false
  deriving Inhabited

def lockOrder (tabs : List Nat) : List Nat :=
  let tabs' := if P.writeTxn.contains .dedupTables then dedup tabs else tabs
  if P.lockSortsBySeq then sortNat tabs' else tabs'

def serSpawn (s : S) (tabs : List Nat) (commit : Bool) : S × String :=
  if s.serBroken then ({ s with serIdx := s.serIdx.push none, serCommit := s.serCommit.push commit, serFinal := s.serFinal.push false }, "") else
  match Serial.stepFn s.ser (.spawn (lockOrder tabs) commit) with
  | some ser =>
    ({ s with ser, serIdx := s.serIdx.push (some s.serRev.size), serRev := s.serRev.push s.serIdx.size,
              serCommit := s.serCommit.push commit, serFinal := s.serFinal.push false }, "")
  | none =>
    ({ s with serBroken := true, serIdx := s.serIdx.push none, serCommit := s.serCommit.push commit, serFinal := s.serFinal.push false },
     s!" !serial:lock-order-not-ascending {lockOrder tabs}")

def serNoTxn (s : S) : S :=
  { s with serIdx := s.serIdx.push none, serCommit := s.serCommit.push false, serFinal := s.serFinal.push true }

def replay (ser : Serial.State) : List Serial.Ev → Except String Serial.State
  | [] => .ok ser
  | e :: es => match Serial.stepFn ser e with
    | some ser' => replay ser' es
    | none => .error e.str

def serStep (s : S) (k : Nat) (before after : State) : S × String :=
  if s.serBroken then (s, "") else
  match (s.serIdx[k]?).join with
  | none => (s, "")
  | some i =>
    let tabs := List.range (max before.root.length after.root.length)
    let own (st : State) (t : Nat) : Bool := st.lockOwner.getD t none == some k
    let acq := tabs.filter fun t => !own before t && own after t
    let rel := tabs.filter fun t => own before t && !own after t
    let thB := before.threads.getD k default
    let thA := after.threads.getD k default
    let loaded := thB.oldRoot.isEmpty && !thA.oldRoot.isEmpty
    let stored := decide (before.root ≠ after.root)
    let finished := !thB.done && thA.done
    let commit := s.serCommit.getD k true
    let fin := s.serFinal.getD k false
    let endEv : List Serial.Ev := if commit then [.store i] else [.abort i]
    let e1 := acq.map (Serial.Ev.acquire i ·) ++ (if loaded then [Serial.Ev.load i] else [])
    let needEnd := !fin && ((stored && commit) || !rel.isEmpty || finished)
    let e2 := if needEnd then endEv else []
    let e3 := rel.map (Serial.Ev.release i ·) ++ (if finished then [Serial.Ev.finish i] else [])
    let s := if needEnd then { s with serFinal := s.serFinal.set! k true } else s
    match replay s.ser (e1 ++ e2 ++ e3) with
    | .error ev => ({ s with serBroken := true }, s!" !serial:not-enabled {ev}")
    | .ok ser =>
      let bad := tabs.filter fun t =>
        (getT after.root t).cnt != ser.root t ||
        (after.lockOwner.getD t none) != ((ser.owner t).bind fun j => s.serRev[j]?)
      if bad.isEmpty then ({ s with ser }, "")
      else ({ s with ser, serBroken := true }, s!" !serial:state-differs tables {bad}")

def S.name (s : S) (w : Nat) : S × String :=
  match s.names.find? (·.1 = w) with
  | some (_, n) => (s, s!"w{n}")
  | none => ({ s with names := (w, s.nextName) :: s.names, nextName := s.nextName + 1 }, s!"w{s.nextName}")

def showSnap (r : List TableV) : String :=
  if r.isEmpty then "." else " ".intercalate (r.map fun t => s!"{t.cnt}@{t.rev}")

def parseList (s : String) : List Nat :=
  if s == "-" then [] else (s.splitOn ",").filterMap String.toNat?

/-- `storm n`: `n` writers on ONE freshly registered table, all committing, released together.
    Whatever the schedule, the committed counter ends at `n` (`C05_conc_no_lost_update`); the
    model runs them round-robin to completion. -/
def storm (n : Nat) : String :=
  let st0 := (List.range n).foldl (fun st _ => spawnWriter P st [0] true [] []) (initState 1)
  let rec go (fuel : Nat) (st : State) : State :=
    match fuel with
    | 0 => st
    | fuel + 1 =>
      match (List.range st.threads.length).find? (fun i =>
          match st.threads[i]? with | some th => !th.done && th.enabled st | none => false) with
      | some i => go fuel (Conc.step st i).1
      | none => st
  let st := go (n * 64) st0
  let unfinished := (st.threads.filter (!·.done)).length
  s!"cnt={(getT st.root 0).cnt} unfinished={unfinished}"

def step (s : S) (ws : List String) : S × String :=
  match ws with
  | ["storm", n, _] =>
    match n.toNat? with
    | some n => (s, storm n)
    | none => (s, "bad-op")
  | ["init", n] =>
    match n.toNat? with
    | some n => ({ st := initState n }, "ok")  -- fresh Serial state too
    | none => (s, "bad-op")
  | ["writer", tabs, mode, mark, reg] =>
    -- (a "-anon" suffix: the transaction is opened through a handle without a name; no difference)
    let st := spawnWriter P s.st (parseList tabs) (mode.startsWith "commit") (parseList mark) (parseList reg)
    let (s', msg) := serSpawn s (parseList tabs) (mode.startsWith "commit")
    ({ s' with st }, s!"t{s.st.threads.length}{msg}")
  | ["register", "dup"] =>
    ({ serNoTxn s with st := spawnRegisterDup P s.st }, s!"t{s.st.threads.length}")
  | ["register"] =>
    ({ serNoTxn s with st := spawnRegister P s.st }, s!"t{s.st.threads.length}")
  | ["step", k] =>
    match k.toNat? with
    | some k =>
      let (st, label) := Conc.step s.st k
      let (s, msg) := serStep s k s.st st
      let s := { s with st }
      if label == "done" then
        match (st.threads[k]?).bind (·.result) with
        | some r => (s, s!"done {showSnap r}{msg}")
        | none => (s, s!"done{msg}")
      else (s, label ++ msg)
    | none => (s, "bad-op")
  | ["read"] => (s, showSnap (readTxn s.st))
  | ["watches"] =>
    let (s, parts) := (readTxn s.st).foldl (fun (acc : S × List String) t =>
      let (s, a) := acc.1.name t.watch
      let (s, b) := if t.initWatch ≠ 0 ∧ t.initPending then s.name t.initWatch else (s, "inited")
      (s, acc.2 ++ [s!"{a}/{b}"])) (s, [])
    (s, if parts.isEmpty then "." else " ".intercalate parts)
  | ["closed"] =>
    let cl := s.names.filter (fun (w, _) => w ∈ s.st.closed)
    let ns := (cl.map (·.2)).toArray.qsort (· < ·)
    (s, if ns.isEmpty then "." else " ".intercalate (ns.toList.map fun n => s!"w{n}"))
  | ["enabled"] =>
    let en := (List.range s.st.threads.length).filter fun i =>
      match s.st.threads[i]? with | some th => th.enabled s.st | none => false
    (s, if en.isEmpty then "." else " ".intercalate (en.map toString))
  | _ => (s, "bad-op")

/-- `lockstep`: release the enabled threads round-robin, one scheduler step each, until every
    thread has finished or none is enabled -/
def lockstep (fuel : Nat) (s : S) (idx : Nat) (msgs : String) : S × String :=
  match fuel with
  | 0 => (s, "out-of-fuel" ++ msgs)
  | fuel + 1 =>
    let n := s.st.threads.length
    let en := (List.range n).filter fun i =>
      match s.st.threads[i]? with | some th => !th.done && th.enabled s.st | none => false
    match (en.find? (· ≥ idx)).orElse (fun _ => en.head?) with
    | none =>
      let alive := (s.st.threads.filter (!·.done)).length
      (s, (if alive == 0 then "finished" else "deadlock") ++ msgs)
    | some k =>
      let (s', out) := step s ["step", toString k]
      -- keep a broken Serial replay visible
      let msgs := if (out.splitOn " !serial:").length > 1 then msgs ++ " !serial:" ++ ((out.splitOn " !serial:").getD 1 "") else msgs
      lockstep fuel s' (k + 1) msgs

/-- `regrace mode`: two registrations crossing each other (the first stops right after its table's
    mutex exists, the second runs to the end, then the first), then a writer over both new tables
    that commits / aborts, then a committing writer over both: everything finishes.  The model names
    tables by position; the answer compared is only whether every thread finished
    (`C10_conc_no_deadlock`, `C10_conc_can_always_finish`). -/
def regrace (s : S) (mode : String) : S × String :=
  let n := s.st.threads.length
  let nt := s.st.root.length
  let (s, _) := step s ["register"]
  let (s, _) := step s ["register"]
  let (s, _) := step s ["step", toString n]
  let rec run (fuel : Nat) (s : S) (k : Nat) : S :=
    match fuel with
    | 0 => s
    | fuel + 1 =>
      let (s', out) := step s ["step", toString k]
      if out.startsWith "finished" || out.startsWith "done" || out.startsWith "no-thread" || out.startsWith "blocked" then s' else run fuel s' k
  let s := run 64 s (n + 1)
  let s := run 64 s n
  let tabs := s!"{nt},{nt + 1}"
  let (s, _) := step s ["writer", tabs, mode, "-", "-"]
  let (s, _) := lockstep 4000 s 0 ""
  let (s, _) := step s ["writer", s!"{nt + 1},{nt}", "commit", "-", "-"]
  let (s, out) := lockstep 4000 s 0 ""
  (s, (out.splitOn " ").headD "")

def stepAll (s : S) (ws : List String) : S × String :=
  match ws with
  | ["lockstep"] => lockstep 4000 s 0 ""
  | ["regrace", mode] => regrace s mode
  | _ => step s ws

end Drv.Sched
