import SdbModel.Model.Conc
import SdbModel.Generated.Protocol
import Driver.Util
/-! driver suite `sched` (C02, C05, C10, ordering clauses of C06/C19): the
    transaction protocol under a controlled schedule vs Model.Conc -/
namespace Drv.Sched
open Sdb Sdb.Conc

def P : Protocol := Gen.protocol

structure S where
  st : State := {}
  names : List (Nat × Nat) := []
  nextName : Nat := 1
  deriving Inhabited

def S.name (s : S) (w : Nat) : S × String :=
  match s.names.find? (·.1 = w) with
  | some (_, n) => (s, s!"w{n}")
  | none => ({ s with names := (w, s.nextName) :: s.names, nextName := s.nextName + 1 }, s!"w{s.nextName}")

def showSnap (r : List TableV) : String :=
  if r.isEmpty then "." else " ".intercalate (r.map fun t => s!"{t.cnt}@{t.rev}")

def parseList (s : String) : List Nat :=
  if s == "-" then [] else (s.splitOn ",").filterMap String.toNat?

def step (s : S) (ws : List String) : S × String :=
  match ws with
  | ["init", n] =>
    match n.toNat? with
    | some n => ({ st := initState n }, "ok")
    | none => (s, "bad-op")
  | ["writer", tabs, mode, mark, reg] =>
    let st := spawnWriter P s.st (parseList tabs) (mode == "commit") (parseList mark) (parseList reg)
    ({ s with st }, s!"t{s.st.threads.length}")
  | ["register", "dup"] =>
    ({ s with st := spawnRegisterDup P s.st }, s!"t{s.st.threads.length}")
  | ["register"] =>
    ({ s with st := spawnRegister P s.st }, s!"t{s.st.threads.length}")
  | ["step", k] =>
    match k.toNat? with
    | some k =>
      let (st, label) := Conc.step s.st k
      let s := { s with st }
      if label == "done" then
        match (st.threads[k]?).bind (·.result) with
        | some r => (s, s!"done {showSnap r}")
        | none => (s, "done")
      else (s, label)
    | none => (s, "bad-op")
  | ["read"] => (s, showSnap (readTxn s.st))
  | ["watches"] =>
    let (s, parts) := (readTxn s.st).foldl (fun (acc : S × List String) t =>
      let (s, a) := acc.1.name t.watch
      let (s, b) := if t.initWatch ≠ 0 ∧ t.initPending then s.name t.initWatch else (s, "inited")
      (s, acc.2 ++ [s!"{a}/{b}"])) (s, [])
    (s, if parts.isEmpty then "." else " ".intercalate parts)
  | ["closed"] =>
    let cl := s.names.filter (fun (w, _) => w ∈ s.st.closed)
    let ns := (cl.map (·.2)).toArray.qsort (· < ·)
    (s, if ns.isEmpty then "." else " ".intercalate (ns.toList.map fun n => s!"w{n}"))
  | ["enabled"] =>
    let en := (List.range s.st.threads.length).filter fun i =>
      match s.st.threads[i]? with | some th => th.enabled s.st | none => false
    (s, if en.isEmpty then "." else " ".intercalate (en.map toString))
  | _ => (s, "bad-op")

end Drv.Sched
