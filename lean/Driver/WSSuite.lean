import SdbModel.Model.WatchSet
import Driver.Util
/-! driver suite `ws` (C20): WatchSet.Wait under virtual time vs Model.WatchSet -/
namespace Drv.WSS
open Sdb Sdb.WS

structure S where
  closeAt : List (Nat × Nat) := []
  set : List Nat := []
  now : Nat := 0
  n : Nat := 0
  deriving Inhabited

def parseList (s : String) : List Nat :=
  if s == "-" then [] else (s.splitOn ",").filterMap String.toNat?

def S.env (s : S) (ctx : Option Nat) : Env :=
  { closeAt := fun c => (s.closeAt.find? (·.1 = c)).map (·.2), ctxAt := ctx }

def showList (l : List Nat) : String :=
  if l.isEmpty then "." else ",".intercalate (l.map toString)

def sortNat (l : List Nat) : List Nat := (l.toArray.qsort (· < ·)).toList

def step (s : S) (ws : List String) : S × String :=
  match ws with
  | ["chans", n] => ({ s with n := n.toNat?.getD 0 }, "ok")
  | ["add", l] =>
    let cs := parseList l
    ({ s with set := s.set ++ cs.filter (fun c => !s.set.contains c) }, "ok")
  | ["merge", l] =>
    let cs := parseList l
    ({ s with set := s.set ++ cs.filter (fun c => !s.set.contains c) }, "ok")
  | ["clear"] => ({ s with set := [] }, "ok")
  | ["close", i] =>
    match i.toNat? with
    | some i => (if (s.closeAt.any (·.1 = i)) then s else { s with closeAt := (i, s.now) :: s.closeAt }, "ok")
    | none => (s, "bad-op")
  | ["closeat", i, t] =>
    match i.toNat?, t.toNat? with
    | some i, some t => (if (s.closeAt.any (·.1 = i)) then s else { s with closeAt := (i, t) :: s.closeAt }, "ok")
    | _, _ => (s, "bad-op")
  | ["wait", settle, ctx] =>
    match settle.toNat? with
    | some settle =>
      let env := s.env (if ctx == "-" then none else ctx.toNat?)
      match wait env firstOracle (sortNat s.set) settle s.now with
      | some r => ({ s with set := r.set, now := r.time }, s!"{showList (sortNat r.returned)} err={r.err} t={r.time}")
      | none => (s, "blocks-forever")
    | none => (s, "bad-op")
  | ["twowait", _, _] => (s, "ok")   -- two concurrent waiters (real time): decided by the run's oracle
  | ["hasany", l] =>
    let cs := if l == "-" then [] else parseList l
    (s, toString (cs.any fun c => s.set.contains c))
  | ["hasall"] => (s, showList (sortNat s.set))
  | _ => (s, "bad-op")

end Drv.WSS
