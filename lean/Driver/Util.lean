/-! Line-protocol helpers shared by all driver suites.  Core Lean only. -/
namespace Drv

def hexVal (c : Char) : Option Nat :=
  if '0' ≤ c ∧ c ≤ '9' then some (c.toNat - '0'.toNat)
  else if 'a' ≤ c ∧ c ≤ 'f' then some (c.toNat - 'a'.toNat + 10)
  else none

def parseHexList : List Char → Option (List Nat)
  | [] => some []
  | a :: b :: rest => do
    let x ← hexVal a
    let y ← hexVal b
    let r ← parseHexList rest
    pure ((x * 16 + y) :: r)
  | _ => none

/-- keys are written `x<hex>`; `x` alone is the empty key -/
def parseKey (s : String) : Option (List Nat) :=
  match s.toList with
  | 'x' :: rest => parseHexList rest
  | _ => none

def hexDigit (n : Nat) : Char :=
  if n < 10 then Char.ofNat ('0'.toNat + n) else Char.ofNat ('a'.toNat + n - 10)

def showKey (k : List Nat) : String :=
  String.ofList ('x' :: k.flatMap (fun b => [hexDigit (b / 16 % 16), hexDigit (b % 16)]))

def parseInt (s : String) : Option Int :=
  match s.toList with
  | '-' :: rest => (String.ofList rest).toNat?.map (fun n => -(n : Int))
  | _ => s.toNat?.map (fun n => (n : Int))

def showOrd : Ordering → String
  | .lt => "-1" | .eq => "0" | .gt => "1"

def words (line : String) : List String :=
  (line.trimAscii.toString.splitOn " ").filter (· ≠ "")

def showKeys (ks : List (List Nat)) : String :=
  " ".intercalate (ks.map showKey)

end Drv
