import SdbModel.Model.StatusSet
import Driver.Util
/-! driver suite `sset` (C15): reconciler.StatusSet values vs Model.StatusSet -/
namespace Drv.SSetS
open Sdb Sdb.SSet

structure S where
  vs : Array SS := #[]
  nextId : Nat := 1
  ids : List (Nat × String) := []      -- canonical names by first appearance in the output
  deriving Inhabited

def nameStr (n : Nat) : String := if n < 10 then s!"n0{n}" else s!"n{n}"

def S.cid (s : S) (id : Nat) : S × String :=
  if id = 0 then (s, "i0") else
  match s.ids.find? (·.1 = id) with
  | some p => (s, p.2)
  | none =>
    let nm := s!"i{s.ids.length + 1}"
    ({ s with ids := s.ids ++ [(id, nm)] }, nm)

def render (s : S) (v : SS) : S × String :=
  let (s, idn) := s.cid v.id
  let (s, parts) := v.statuses.foldl (fun (acc : S × List String) p =>
    let (s, c) := acc.1.cid p.2.id
    (s, acc.2 ++ [s!"{nameStr p.1}={p.2.kind.str}:{c}"])) (s, [s!"id={idn}"])
  (s, ",".intercalate parts ++ " " ++ (v.str nameStr).replace " " "_")

def push (s : S) (v : SS) : S × String :=
  let s := { s with vs := s.vs.push v }
  let (s, r) := render s v
  (s, s!"v{s.vs.size - 1} {r}")

def step (s : S) (ws : List String) : S × String :=
  match ws with
  | ["new"] => push { s with nextId := s.nextId + 1 } { id := s.nextId }
  | ["set", src, n, k] =>
    match src.toNat?, n.toNat?, Kind.ofString? k with
    | some src, some n, some k =>
      match s.vs[src]? with
      | some v => push { s with nextId := s.nextId + 1 } (v.set n { kind := k, id := s.nextId })
      | none => (s, "bad-op")
    | _, _, _ => (s, "bad-op")
  | ["pending", src] =>
    match src.toNat? with
    | some src =>
      match s.vs[src]? with
      | some v => push { s with nextId := s.nextId + 1 } (v.pending s.nextId)
      | none => (s, "bad-op")
    | none => (s, "bad-op")
  | ["json", src] =>
    match src.toNat? with
    | some src =>
      match s.vs[src]? with
      | some v => push s { id := 0, statuses := v.statuses }
      | none => (s, "bad-op")
    | none => (s, "bad-op")
  | ["get", src, n] =>
    match src.toNat?, n.toNat? with
    | some src, some n =>
      match s.vs[src]? with
      | some v =>
        let g := v.get n
        let (s, c) := s.cid g.id
        (s, s!"{g.kind.str}:{c}")
      | none => (s, "bad-op")
    | _, _ => (s, "bad-op")
  | [op, src] =>
    if op == "all" || op == "str" then
      match src.toNat? with
      | some src =>
        match s.vs[src]? with
        | some v => render s v
        | none => (s, "bad-op")
      | none => (s, "bad-op")
    else (s, "bad-op")
  | ["check"] =>
    let (s, parts) := s.vs.foldl (fun (acc : S × List String) v =>
      let (s, r) := render acc.1 v
      (s, acc.2 ++ [r])) (s, [])
    (s, " | ".intercalate parts)
  | _ => (s, "bad-op")

end Drv.SSetS
