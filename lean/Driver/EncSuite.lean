import SdbModel.Model.Enc
import SdbModel.Model.KeySet
import SdbModel.Generated.EncParams
import Driver.Util
/-! driver suite `enc` (C18): one op line in, one obs line out -/
namespace Drv.Enc
open Sdb

def P := Gen.encParams

def step (ws : List String) : String :=
  match ws with
  | ["enc", k] =>
    match parseKey k with
    | some k => s!"{showKey (P.enc k)} {P.encodedLength k}"
    | none => "bad-op"
  | ["comp", p, s] =>
    match parseKey p, parseKey s with
    | some p, some s =>
      let c := P.composite p s
      s!"{showKey c} {nukPrimaryLen c} {nukSecondaryLen c} {showKey (nukEncodedPrimary c)} {showKey (nukEncodedSecondary c)}"
    | _, _ => "bad-op"
  | ["cmp", p, s, p', s'] =>
    match parseKey p, parseKey s, parseKey p', parseKey s' with
    | some p, some s, some p', some s' => showOrd (cmpL (P.composite p s) (P.composite p' s'))
    | _, _, _, _ => "bad-op"
  | ["uintp", w, a, b] =>
    match w.toNat?, a.toNat?, b.toNat? with
    | some w, some a, some b => s!"{showKey (encUint w a)} {showOrd (cmpL (encUint w a) (encUint w b))}"
    | _, _, _ => "bad-op"
  | ["intp", w, a, b] =>
    match w.toNat?, parseInt a, parseInt b with
    | some w, some a, some b => s!"{showKey (encInt w a)} {decide (encInt w a = encInt w b)}"
    | _, _, _ => "bad-op"
  | ["pintp", a, b] =>
    match parseInt a, parseInt b with
    | some a, some b =>
      s!"{showKey (encPlatformInt Gen.intParams a)} {decide (encPlatformInt Gen.intParams a = encPlatformInt Gen.intParams b)}"
    | _, _ => "bad-op"
  | "ks" :: ctor :: probe :: rest =>
    -- KeySet constructors: one key per element in order; a set / a map: each distinct element once, sorted
    let elems : Option (List (List Nat)) := match rest with
      | [] => some []
      | [l] => if l == "" then some [] else (l.splitOn ",").mapM parseKey
      | _ => none
    match elems, parseKey probe with
    | some es, some pk =>
      let unordered := ctor == "set" || ctor == "stringmap"
      let es := if unordered then
          let d := es.foldl (fun acc k => if acc.contains k then acc else acc ++ [k]) []
          (d.toArray.qsort (fun a b => cmpL a b == .lt)).toList
        else es
      let ks := KS.ofElems id es
      s!"{",".intercalate (ks.toList.map showKey)} {ks.exists pk}"
    | _, _ => "bad-op"
  | ["bool"] => s!"{showKey (encBool false)} {showKey (encBool true)}"
  | ["lpm", d, l] =>
    match parseKey d, l.toNat? with
    | some d, some l =>
      match encodeLPM d l with
      | some k =>
        match decodeLPM k with
        | some (dd, ll) => s!"{showKey k} {showKey dd} {ll}"
        | none => s!"{showKey k} panic"
      | none => "panic"
    | _, _ => "bad-op"
  | ["netip", a, bits] =>
    -- lpm.NetIPPrefixToIndexKey: the 16-byte form (IPv4 as ::ffff:a.b.c.d, 96 bits more)
    match parseKey a, bits.toNat? with
    | some a, some bits =>
      let (d, l) := if a.length = 4 then (List.replicate 10 0 ++ [255, 255] ++ a, bits + 96) else (a, bits)
      match encodeLPM d l with
      | some k => showKey k
      | none => "panic"
    | _, _ => "bad-op"
  | _ => "bad-op"

end Drv.Enc
