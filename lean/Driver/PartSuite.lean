import SdbModel.Model.Art
import SdbModel.Generated.ArtParams
import Driver.Util
/-! driver suite `part` (C11, C12): part.Tree / Txn / Iterator vs Model.Art -/
namespace Drv.Part
open Sdb Sdb.Art

def P : ArtParams := Gen.artParams

structure S where
  wd : World := {}
  versions : Array Tree := #[]
  txn : Option Txn := none
  iters : Array (List (List Nat × Nat)) := #[]
  names : List (Nat × Nat) := []
  nextName : Nat := 1
  deriving Inhabited

def S.name (s : S) (w : Nat) : S × String :=
  if w = 0 then (s, "nil") else
  match s.names.find? (·.1 = w) with
  | some (_, n) => (s, s!"w{n}")
  | none => ({ s with names := (w, s.nextName) :: s.names, nextName := s.nextName + 1 }, s!"w{s.nextName}")

def showEntries (es : List (List Nat × Nat)) : String :=
  if es.isEmpty then "." else " ".intercalate (es.map fun (k, v) => s!"{showKey k}={v}")

def showOpt : Option Nat → String
  | some v => toString v
  | none => "-"

/-- keep the world's allocator in step with the in-flight txn -/
def S.syncTxn (s : S) (x : Txn) : S :=
  { s with txn := some x, wd := { s.wd with nextW := max s.wd.nextW x.st.nextW } }

def modf : Nat → Nat → Nat := fun old new => old + new

def step (s : S) (ws : List String) : S × String :=
  match ws with
  | ["new", ro] =>
    let (wd, t) := newTree {} (ro == "1")
    ({ wd, versions := #[t] }, "v0")
  | ["txn", v] =>
    match v.toNat? >>= (s.versions[·]?) with
    | some t => ({ s with txn := some (t.txn s.wd) }, "ok")
    | none => (s, "bad-op")
  | ["ins", k, v] =>
    match s.txn, parseKey k, v.toNat? with
    | some x, some k, some v =>
      let (x, old, _, w) := x.insert P k v none
      let s := s.syncTxn x
      let (s, n) := s.name w
      (s, s!"{showOpt old} {n}")
    | _, _, _ => (s, "bad-op")
  | ["mod", k, v] =>
    match s.txn, parseKey k, v.toNat? with
    | some x, some k, some v =>
      let (x, old, nv, w) := x.insert P k v (some modf)
      let s := s.syncTxn x
      let (s, n) := s.name w
      (s, s!"{showOpt old} {nv} {n}")
    | _, _, _ => (s, "bad-op")
  | ["del", k] =>
    match s.txn, parseKey k with
    | some x, some k =>
      let (x, old) := x.delete P k
      (s.syncTxn x, showOpt old)
    | _, _ => (s, "bad-op")
  | ["get", k] =>
    match s.txn, parseKey k with
    | some x, some k =>
      let (v, w) := getRoot x.root x.rootWatch k
      let (s, n) := s.name w
      (s, s!"{showOpt v} {n}")
    | _, _ => (s, "bad-op")
  | ["prefix", k] =>
    match s.txn, parseKey k with
    | some x, some k =>
      let x := x.bump
      let (es, w) := prefixRoot x.root x.rootWatch k
      let s := { s with txn := some x }
      let (s, n) := s.name w
      (s, s!"{n} {showEntries es}")
    | _, _ => (s, "bad-op")
  | ["lb", k] =>
    match s.txn, parseKey k with
    | some x, some k =>
      let x := x.bump
      ({ s with txn := some x }, showEntries (lbRoot x.root k))
    | _, _ => (s, "bad-op")
  | ["iter"] =>
    match s.txn with
    | some x =>
      let x := x.bump
      ({ s with txn := some x }, showEntries (allRoot x.root))
    | none => (s, "bad-op")
  | ["len"] =>
    match s.txn with
    | some x => (s, toString x.size)
    | none => (s, "bad-op")
  | ["rootwatch"] =>
    match s.txn with
    | some x => let (s, n) := s.name x.rootWatch; (s, n)
    | none => (s, "bad-op")
  | ["clone"] =>
    match s.txn with
    | some x =>
      let (x, t) := x.clone
      ({ s with txn := some x, versions := s.versions.push t }, s!"v{s.versions.size}")
    | none => (s, "bad-op")
  | ["commit"] =>
    match s.txn with
    | some x =>
      let (x, t, wd) := x.commit s.wd
      let x := { x with st := { x.st with nextW := wd.nextW } }
      ({ s with txn := some x, wd, versions := s.versions.push t }, s!"v{s.versions.size} {t.size}")
    | none => (s, "bad-op")
  | ["notify"] =>
    match s.txn with
    | some x =>
      let (x, wd) := x.notify s.wd
      ({ s with txn := some x, wd }, "ok")
    | none => (s, "bad-op")
  | ["abandon"] => ({ s with txn := none }, "ok")
  | ["vins", v, k, val] =>
    match v.toNat? >>= (s.versions[·]?), parseKey k, val.toNat? with
    | some t, some k, some val =>
      let x := t.txn s.wd
      let (x, old, _, _) := x.insert P k val none
      let wd := { s.wd with nextW := max s.wd.nextW x.st.nextW }
      let (x, wd) := x.notify wd
      let (_, t', wd) := x.commit wd
      ({ s with wd, versions := s.versions.push t' }, s!"{showOpt old} v{s.versions.size}")
    | _, _, _ => (s, "bad-op")
  | ["vdel", v, k] =>
    match v.toNat? >>= (s.versions[·]?), parseKey k with
    | some t, some k =>
      let x := t.txn s.wd
      let (x, old) := x.delete P k
      let wd := { s.wd with nextW := max s.wd.nextW x.st.nextW }
      let (x, wd) := x.notify wd
      let (_, t', wd) := x.commit wd
      ({ s with wd, versions := s.versions.push t' }, s!"{showOpt old} v{s.versions.size}")
    | _, _ => (s, "bad-op")
  | ["vget", v, k] =>
    match v.toNat? >>= (s.versions[·]?), parseKey k with
    | some t, some k =>
      let (val, w) := getRoot t.root t.rootWatch k
      let (s, n) := s.name w
      (s, s!"{showOpt val} {n}")
    | _, _ => (s, "bad-op")
  | ["vprefix", v, k] =>
    match v.toNat? >>= (s.versions[·]?), parseKey k with
    | some t, some k =>
      let (es, w) := prefixRoot t.root t.rootWatch k
      let (s, n) := s.name w
      (s, s!"{n} {showEntries es}")
    | _, _ => (s, "bad-op")
  | ["vlb", v, k] =>
    match v.toNat? >>= (s.versions[·]?), parseKey k with
    | some t, some k => (s, showEntries (lbRoot t.root k))
    | _, _ => (s, "bad-op")
  | ["viter", v] =>
    match v.toNat? >>= (s.versions[·]?) with
    | some t => (s, showEntries (allRoot t.root))
    | none => (s, "bad-op")
  | ["vlen", v] =>
    match v.toNat? >>= (s.versions[·]?) with
    | some t => (s, toString t.size)
    | none => (s, "bad-op")
  | ["vrootwatch", v] =>
    match v.toNat? >>= (s.versions[·]?) with
    | some t => let (s, n) := s.name t.rootWatch; (s, n)
    | none => (s, "bad-op")
  | ["keepiter", kind, k] =>
    match s.txn, parseKey k with
    | some x, some k =>
      let x := x.bump
      let es := match kind with
        | "lb" => lbRoot x.root k
        | "prefix" => (prefixRoot x.root x.rootWatch k).1
        | _ => allRoot x.root
      ({ s with txn := some x, iters := s.iters.push es }, s!"i{s.iters.size}")
    | _, _ => (s, "bad-op")
  | ["vkeepiter", v, kind, k] =>
    match v.toNat? >>= (s.versions[·]?), parseKey k with
    | some t, some k =>
      let es := match kind with
        | "lb" => lbRoot t.root k
        | "prefix" => (prefixRoot t.root t.rootWatch k).1
        | _ => allRoot t.root
      ({ s with iters := s.iters.push es }, s!"i{s.iters.size}")
    | _, _ => (s, "bad-op")
  | ["iterall", i] =>
    match i.toNat? >>= (s.iters[·]?) with
    | some es => (s, showEntries es)
    | none => (s, "bad-op")
  | ["next", i, n] =>
    match i.toNat?, n.toNat? with
    | some i, some n =>
      match s.iters[i]? with
      | some es => ({ s with iters := s.iters.set! i (es.drop n) }, showEntries (es.take n))
      | none => (s, "bad-op")
    | _, _ => (s, "bad-op")
  | ["closed"] =>
    let cl := s.names.filter (fun (w, _) => w ∈ s.wd.closed)
    let ns := (cl.map (·.2)).toArray.qsort (· < ·)
    (s, if ns.isEmpty then "." else " ".intercalate (ns.toList.map fun n => s!"w{n}"))
  | ["dump"] =>
    match s.txn with
    | some x => (s, match x.root with | some r => dump r | none => "nil")
    | none => (s, "bad-op")
  | ["vdump", v] =>
    match v.toNat? >>= (s.versions[·]?) with
    | some t => (s, match t.root with | some r => dump r | none => "nil")
    | none => (s, "bad-op")
  | _ => (s, "bad-op")

end Drv.Part
