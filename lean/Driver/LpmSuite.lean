import SdbModel.Model.Lpm
import Driver.Util
/-! driver suite `lpm` (C13): lpm.Trie / Txn / Iterator vs Model.Lpm -/
namespace Drv.LpmS
open Sdb Sdb.Lpm

structure V where
  t : Trie Nat := .nil
  size : Nat := 0
  deriving Inhabited

structure S where
  versions : Array V := #[{}]
  txn : Option V := none
  iters : Array (List (Trie Nat)) := #[]     -- retained iterators: their stacks (lpm/iterator.go)
  deriving Inhabited

def showE (es : List (List Nat × Nat × Nat)) : String :=
  if es.isEmpty then "." else " ".intercalate (es.map fun (d, p, v) => s!"{showKey d}/{p}={v}")
def showOpt : Option Nat → String
  | some v => toString v
  | none => "-"

def getV (s : S) (i : String) : Option V := i.toNat? >>= (s.versions[·]?)

/-- keys arrive as raw data + prefix length; the harness encodes them with EncodeLPMKey -/
def parseK (d l : String) : Option (List Nat × Nat) := do
  let d ← parseKey d
  let l ← l.toNat?
  pure (maskData d l, l)

/-- the iterator a query returns: its stack, as the code builds it -/
def queryStack (kind : String) (t : Trie Nat) (d : List Nat) (l : Nat) : List (Trie Nat) :=
  match kind with
  | "prefix" => (Iter.ofStart (prefixNode d l t 0)).stack
  | "lb" => lbStack d l t 0 []
  | _ => (Iter.ofStart t).stack

/-- draining it with the stack machine (`Iterator.All`) -/
def query (kind : String) (t : Trie Nat) (d : List Nat) (l : Nat) : List (List Nat × Nat × Nat) :=
  let st := queryStack kind t d l
  Iter.drain (iterFuel st) st

/-- `n` calls of `Iterator.Next` -/
def nextN : Nat → List (Trie Nat) → List (List Nat × Nat × Nat) × List (Trie Nat)
  | 0, st => ([], st)
  | n + 1, st =>
    match Iter.next (iterFuel st) st with
    | none => ([], [])
    | some (e, st') => let (es, st'') := nextN n st'; (e :: es, st'')

def step (s : S) (ws : List String) : S × String :=
  match ws with
  | ["txn", v] => match getV s v with | some x => ({ s with txn := some x }, "ok") | none => (s, "bad-op")
  | ["reuse", v] => match getV s v with | some x => ({ s with txn := some x }, "ok") | none => (s, "bad-op")
  | ["reuse0", v] => match getV s v with | some x => ({ s with txn := some x }, "ok") | none => (s, "bad-op")
  | ["ins", d, l, v] =>
    match s.txn, parseK d l, v.toNat? with
    | some x, some (d, l), some v =>
      let (t, dl) := insert d l v x.t 0
      ({ s with txn := some { t, size := x.size + dl } }, "ok")
    | _, _, _ => (s, "bad-op")
  | ["del", d, l] =>
    match s.txn, parseK d l with
    | some x, some (d, l) =>
      match deleteRoot d l x.t with
      | some (t, v) => ({ s with txn := some { t, size := x.size - 1 } }, toString v)
      | none => (s, "-")
    | _, _ => (s, "bad-op")
  | ["lookup", d, l] =>
    match s.txn, parseK d l with
    | some x, some (d, l) => (s, showOpt (lookup d l x.t 0 none))
    | _, _ => (s, "bad-op")
  | ["exact", d, l] =>
    match s.txn, parseK d l with
    | some x, some (d, l) => (s, showOpt (lookupExact d l x.t 0))
    | _, _ => (s, "bad-op")
  | ["q", kind, d, l] =>
    match s.txn, parseK d l with
    | some x, some (d, l) => (s, showE (query kind x.t d l))
    | _, _ => (s, "bad-op")
  | ["len"] => match s.txn with | some x => (s, toString x.size) | none => (s, "bad-op")
  | ["dump"] => match s.txn with | some x => (s, dump x.t) | none => (s, "bad-op")
  | ["commit"] =>
    match s.txn with
    | some x => ({ s with versions := s.versions.push x, txn := none }, s!"v{s.versions.size} {x.size}")
    | none => (s, "bad-op")
  | ["commitkeep"] =>
    match s.txn with
    | some x => ({ s with versions := s.versions.push x }, s!"v{s.versions.size} {x.size}")
    | none => (s, "bad-op")
  | ["abandon"] => ({ s with txn := none }, "ok")
  | ["keepiter", kind, d, l] =>
    match s.txn, parseK d l with
    | some x, some (d, l) => ({ s with iters := s.iters.push (queryStack kind x.t d l) }, s!"i{s.iters.size}")
    | _, _ => (s, "bad-op")
  | ["vkeepiter", v, kind, d, l] =>
    match getV s v, parseK d l with
    | some x, some (d, l) => ({ s with iters := s.iters.push (queryStack kind x.t d l) }, s!"i{s.iters.size}")
    | _, _ => (s, "bad-op")
  | ["iterall", i] =>
    match i.toNat? with
    | some i =>
      match s.iters[i]? with
      | some st => (s, showE (Iter.drain (iterFuel st) st))
      | none => (s, "bad-op")
    | none => (s, "bad-op")
  | ["next", i, n] =>
    match i.toNat?, n.toNat? with
    | some i, some n =>
      match s.iters[i]? with
      | some st => let (es, st') := nextN n st; ({ s with iters := s.iters.set! i st' }, showE es)
      | none => (s, "bad-op")
    | _, _ => (s, "bad-op")
  | ["vlookup", v, d, l] =>
    match getV s v, parseK d l with
    | some x, some (d, l) => (s, showOpt (lookup d l x.t 0 none))
    | _, _ => (s, "bad-op")
  | ["vexact", v, d, l] =>
    match getV s v, parseK d l with
    | some x, some (d, l) => (s, showOpt (lookupExact d l x.t 0))
    | _, _ => (s, "bad-op")
  | ["vq", v, kind, d, l] =>
    match getV s v, parseK d l with
    | some x, some (d, l) => (s, showE (query kind x.t d l))
    | _, _ => (s, "bad-op")
  | ["vlen", v] => match getV s v with | some x => (s, toString x.size) | none => (s, "bad-op")
  | ["vdump", v] => match getV s v with | some x => (s, dump x.t) | none => (s, "bad-op")
  | _ => (s, "bad-op")

end Drv.LpmS
