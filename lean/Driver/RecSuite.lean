import SdbModel.Model.Reconciler
import SdbModel.Model.ReconcilerBatch
import SdbModel.Generated.LoopParams
import Driver.Util
/-! driver suite `rec` (C14, C15, C16): the reconciler under virtual time vs Model.Reconciler -/
namespace Drv.RecS
open Sdb Sdb.Rec

structure S where
  r : R := {}
  oracleOnly : Bool := false
  waiters : List Nat := []      -- targets of the goroutines inside WaitUntilReconciled
  /-- cfg …-xprune: the loop variables of reconcileLoop, driven through the TRANSLATED iteration function `Gen.loopStep` -/
  loop : Option RecLoop.LoopState := none
  prunes : Nat := 0
  batch : Bool := false    -- BatchOperations configured: rounds of Model.ReconcilerBatch
  printed : Nat := 0       -- calls already reported
  deriving Inhabited

def showCall (c : Call) : String := s!"{c.op}{c.id}:{c.data}:{if c.ok then "ok" else "fail"}"

def showState (s : S) : S × String :=
  let newCalls := s.r.log.drop s.printed
  let cs := (newCalls.map showCall).toArray.qsort (· < ·)
  let objs := (s.r.objs.toArray.qsort (fun a b => a.id < b.id)).toList.map fun o => s!"{o.id}:{o.data}:{o.other}:{o.kind.str}"
  -- a waiter has returned exactly when the published progress revision has reached its target
  -- (Model.Progress: C16_wait_returns_only_when_reached, C16_wait_no_lost_wakeup)
  let ws := if s.waiters.isEmpty then "" else
    " waiters=" ++ ",".intercalate (s.waiters.map fun t => if t ≤ s.r.progressRev then "ret" else "wait")
  let pr := if s.loop.isSome then s!" prunes={s.prunes}" else ""
  let str := s!"calls=[{" ".intercalate cs.toList}] objs=[{" ".intercalate objs}] lw={if s.r.progressLW = 0 then "0" else "+"}{ws}{pr}{if s.r.tieSeen then " #tie" else ""}"
  ({ s with printed := s.r.log.length }, str)

/-- one iteration of reconcileLoop with the given trigger, on the translated function; periodic pruning is off -/
def loopTrigger (s : S) (t : RecLoop.Trigger) : S :=
  match s.loop with
  | none => s
  | some st =>
    let (st', called) := Gen.loopStep false st t
    { s with loop := some st', prunes := s.prunes + (if called then 1 else 0) }

def after (s : S) (r : R) : S × String :=
  let s := { s with r := if s.batch then r.quiesceB 256 else r.quiesce 256 }
  if s.oracleOnly then (s, "-") else showState s

def step (s : S) (ws : List String) : S × String :=
  match ws with
  | ["cfg", minB, maxB, rs, mode] =>
    match minB.toNat?, maxB.toNat?, rs.toNat? with
    | some a, some b, some c =>
      let xprune := (mode.splitOn "-xprune").length > 1
      let withInit := (mode.splitOn "-init").length > 1
      -- a table without a pending initializer: its init watch is closed from the start, the first iteration is triggered by it
      let lp : Option RecLoop.LoopState := if xprune then some Gen.loopInit else none
      let r0 : R := { cfg := { minB := a, maxB := b, roundSize := c } }
      let oo : Bool := !mode.startsWith "exact"
      let bt : Bool := (mode.splitOn "-batch").length > 1
      let s0 : S := { r := r0, oracleOnly := oo, batch := bt, loop := lp }
      let s0 := if xprune && !withInit then loopTrigger s0 .initClosed else s0
      after s0 { cfg := { minB := a, maxB := b, roundSize := c } }
    | _, _, _ => (s, "bad-op")
  | ["tinybackoff", _, _] => (s, "converged")  -- real-time probe (retry processed in the round that queued it): C14_converged_quiesce
  | ["put", id, data] =>
    match id.toNat?, data.toNat? with
    | some id, some d => after s (s.r.userPut id d)
    | _, _ => (s, "bad-op")
  | ["del", id] =>
    match id.toNat? with
    | some id => after s (s.r.delObj id)
    | none => (s, "bad-op")
  -- writes timed against the refresher (refreshing is not modelled: oracle-only cases)
  | ["putheld", id, data] =>
    match id.toNat?, data.toNat? with
    | some id, some d => if s.oracleOnly then after s (s.r.userPut id d) else (s, "bad-op")
    | _, _ => (s, "bad-op")
  | ["delheld", id] =>
    match id.toNat? with
    | some id => if s.oracleOnly then after s (s.r.delObj id) else (s, "bad-op")
    | none => (s, "bad-op")
  | ["multi", spec] =>
    -- several user writes of ONE transaction: the loop sees them all at once
    let r := (spec.splitOn ",").foldl (fun (r : R) (sp : String) =>
      if sp.startsWith "d" then
        match (sp.drop 1).toString.toNat? with | some id => r.delObj id | none => r
      else if sp.startsWith "p" then
        match (sp.drop 1).toString.splitOn ":" with
        | [a, b] => match a.toNat?, b.toNat? with | some id, some d => r.userPut id d | _, _ => r
        | _ => r
      else r) s.r
    after s r
  | ["putraw", _, _] => if s.oracleOnly then after s s.r else (s, "bad-op")
  | ["touch", id] =>
    match id.toNat? with
    | some id => after s (s.r.touch id)
    | none => (s, "bad-op")
  | ["fail", id, v] =>
    match id.toNat? with
    | some id =>
      let f := s.r.failing.filter (· ≠ id)
      after s { s.r with failing := if v == "1" then id :: f else f }
    | none => (s, "bad-op")
  | ["inject", id, kind, tid, data] =>
    match id.toNat?, tid.toNat?, data.toNat? with
    | some id, some tid, some d =>
      let a := match kind with | "put" => Inject.put tid d | "del" | "gc" => Inject.del tid | _ => Inject.touch tid
      after s { s.r with injects := s.r.injects ++ [(id, a)] }
    | _, _, _ => (s, "bad-op")
  | ["advance", ms] =>
    match ms.toNat? with
    | some ms => after s (if s.batch then s.r.advanceB ms 256 else s.r.advance ms 256)
    | none => (s, "bad-op")
  | ["waiter", k] =>
    match k.toNat? with
    | some k => after { s with waiters := s.waiters ++ [s.r.tableRev + k] } s.r
    | none => (s, "bad-op")
  | ["extprune"] => after (loopTrigger s .extPrune) s.r
  | ["initdone"] =>
    -- the init watch fires once (a nil channel is never selected)
    let s := match s.loop with
      | some st => if st.initWatchArmed then loopTrigger s .initClosed else s
      | none => s
    after s s.r
  | ["obs"] => after s s.r
  | ["final"] => (s, "-")
  | _ => (s, "bad-op")

end Drv.RecS
