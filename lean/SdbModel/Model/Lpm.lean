import SdbModel.Model.Enc
/-!
  Model.Lpm — executable model of the longest-prefix-match trie (lpm/trie.go,
  lpm/iterator.go) at byte level: keys are `data ++ be 2 prefixLen`, nodes keep
  the data bytes and the prefix length, imaginary nodes have `val = none`.
  `longestMatch`, `getBitAt` follow the Go code byte by byte.  Values are
  immutable; transaction stamps are not part of this model (Model.Cow).
-/
namespace Sdb.Lpm

inductive Trie (α : Type) where
  | nil
  | node (data : List Nat) (plen : Nat) (val : Option α) (c0 c1 : Trie α)
  deriving Repr, Inhabited

namespace Trie
variable {α : Type}

def isNil : Trie α → Bool
  | .nil => true
  | _ => false
end Trie

/-- `int(data[index/8]>>(7-(index%8))) & 1`; out-of-range (a Go panic) reads 0 -/
def getBitAt (data : List Nat) (i : Nat) : Nat :=
  (data.getD (i / 8) 0) / 2 ^ (7 - i % 8) % 2

/-- `bits.LeadingZeros8(x)` for x < 256 -/
def lz8 (x : Nat) : Nat :=
  if x ≥ 128 then 0 else if x ≥ 64 then 1 else if x ≥ 32 then 2 else if x ≥ 16 then 3
  else if x ≥ 8 then 4 else if x ≥ 4 then 5 else if x ≥ 2 then 6 else if x ≥ 1 then 7 else 8

/-- the byte loop of `longestMatch` from byte index `i`, `acc` bits matched so far -/
def lmLoop (nodeKey keyData : List Nat) (minPl : Nat) : (fuel i acc : Nat) → Nat
  | 0, _, acc => acc
  | fuel + 1, i, acc =>
    if i < min nodeKey.length keyData.length then
      let m := lz8 (Nat.xor (nodeKey.getD i 0) (keyData.getD i 0))
      let acc := acc + m
      if acc ≥ minPl then minPl
      else if m < 8 then acc
      else lmLoop nodeKey keyData minPl fuel (i + 1) acc
    else acc

/-- `longestMatch(startLen, node, keyData, keyPrefixLen)`; `nodeData`/`nodePl` are the node's key -/
def longestMatch (startLen : Nat) (nodeData : List Nat) (nodePl : Nat) (keyData : List Nat) (keyPl : Nat) : Nat :=
  let nodeKey := nodeData ++ be 2 nodePl
  let sb := startLen / 8
  lmLoop nodeKey keyData (min nodePl keyPl) (nodeKey.length + 1) sb (8 * sb)

/-- data part of `EncodeLPMKey(data, plen)` (caller guarantees enough bytes) -/
def maskData (data : List Nat) (plen : Nat) : List Nat :=
  match encodeLPM data plen with
  | some k => k.take (k.length - 2)
  | none => data

variable {α : Type}

/-- `Txn.Insert`; returns the new trie and the size delta -/
def insert (data : List Nat) (plen : Nat) (v : α) : Trie α → Nat → Trie α × Nat
  | .nil, _ => (.node data plen (some v) .nil .nil, 1)
  | .node nd npl nv c0 c1, matchLen =>
    let ml := longestMatch matchLen nd npl data plen
    if ml = plen ∨ ml ≠ npl then
      -- stop at this node
      if ml = plen then
        if ml = npl then
          (.node data plen (some v) c0 c1, if nv.isNone then 1 else 0)
        else
          -- new node becomes the parent of this one
          let n := Trie.node nd npl nv c0 c1
          if getBitAt (nd ++ be 2 npl) ml = 0 then (.node data plen (some v) n .nil, 1)
          else (.node data plen (some v) .nil n, 1)
      else
        -- fork with an imaginary node
        let n := Trie.node nd npl nv c0 c1
        let nn := Trie.node data plen (some v) .nil .nil
        let idata := maskData (nd ++ be 2 npl) ml
        if getBitAt data ml = 0 then (.node idata ml none nn n, 1)
        else (.node idata ml none n nn, 1)
    else
      if getBitAt data npl = 0 then
        let (c0', d) := insert data plen v c0 ml
        (.node nd npl nv c0' c1, d)
      else
        let (c1', d) := insert data plen v c1 ml
        (.node nd npl nv c0 c1', d)

/-- compress an imaginary node with fewer than two children -/
def compress : Trie α → Trie α
  | .node d p none .nil .nil => .nil
  | .node _ _ none c .nil => c
  | .node _ _ none .nil c => c
  | t => t

/-- `Txn.Delete`; `none` when the key is not stored -/
def delete (data : List Nat) (plen : Nat) : Trie α → Nat → Option (Trie α × α)
  | .nil, _ => none
  | .node nd npl nv c0 c1, matchLen =>
    let ml := longestMatch matchLen nd npl data plen
    if ml = plen ∧ ml = npl then
      match nv with
      | none => none
      | some v => some (.node nd npl none c0 c1, v)
    else if ml < npl then none
    else
      if getBitAt data ml = 0 then
        match delete data plen c0 ml with
        | none => none
        | some (c0', v) => some (.node nd npl nv (compress c0') c1, v)
      else
        match delete data plen c1 ml with
        | none => none
        | some (c1', v) => some (.node nd npl nv c0 (compress c1'), v)

/-- whole-trie delete including the final root compression -/
def deleteRoot (data : List Nat) (plen : Nat) (t : Trie α) : Option (Trie α × α) :=
  match delete data plen t 0 with
  | none => none
  | some (t', v) => some (compress t', v)

/-- `lpmLookup` -/
def lookup (data : List Nat) (plen : Nat) : Trie α → Nat → Option α → Option α
  | .nil, _, closest => closest
  | .node nd npl nv c0 c1, cur, closest =>
    let ml := longestMatch cur nd npl data plen
    if ml = plen then nv            -- `return node.value, !node.imaginary`
    else if ml < npl then closest
    else
      let closest := match nv with | some v => some v | none => closest
      if getBitAt data npl = 0 then lookup data plen c0 npl closest
      else lookup data plen c1 npl closest

/-- `lpmLookupExact` -/
def lookupExact (data : List Nat) (plen : Nat) : Trie α → Nat → Option α
  | .nil, _ => none
  | .node nd npl nv c0 c1, matchLen =>
    let ml := longestMatch matchLen nd npl data plen
    if ml = plen ∧ ml = npl then nv
    else if ml < npl then none
    else if getBitAt data npl = 0 then lookupExact data plen c0 ml
    else lookupExact data plen c1 ml

/-- iteration order of `Iterator.All`: node, then children[0], then children[1] -/
def preorder : Trie α → List (List Nat × Nat × α)
  | .nil => []
  | .node d p v c0 c1 =>
    (match v with | some x => [(d, p, x)] | none => []) ++ preorder c0 ++ preorder c1

/-- `Txn.Prefix`: the subtree the iterator starts from -/
def prefixNode (data : List Nat) (plen : Nat) : Trie α → Nat → Trie α
  | .nil, _ => .nil
  | .node nd npl nv c0 c1, matchLen =>
    let ml := longestMatch matchLen nd npl data plen
    if ml = plen then .node nd npl nv c0 c1
    else if ml < npl then .nil        -- diverges before the query prefix is consumed: nothing covered
    else if getBitAt data npl = 0 then prefixNode data plen c0 ml
    else prefixNode data plen c1 ml

/-- `Txn.LowerBound` as the list the iterator yields; `pend` are the larger
    children pushed on the stack so far (most recent first) -/
def lowerBound (data : List Nat) (plen : Nat) : Trie α → Nat → List (Trie α) → List (List Nat × Nat × α)
  | .nil, _, pend => pend.flatMap preorder
  | .node nd npl nv c0 c1, matchLen, pend =>
    let ml := longestMatch matchLen nd npl data plen
    let this := Trie.node nd npl nv c0 c1
    if ml = plen then preorder this ++ pend.flatMap preorder
    else if ml < npl then
      (if cmpL (nd ++ be 2 npl) data != .lt then preorder this else []) ++ pend.flatMap preorder
    else if getBitAt data npl = 0 then
      lowerBound data plen c0 ml (if c1.isNil then pend else c1 :: pend)
    else lowerBound data plen c1 ml pend

/-! ### the iterator as the code has it: an explicit stack (lpm/iterator.go) -/

/-- `Iterator`: the nodes still to be visited, TOP FIRST (the Go slice is popped from its end) -/
structure Iter (α : Type) where
  stack : List (Trie α)

def Trie.nodes : Trie α → Nat
  | .nil => 0
  | .node _ _ _ c0 c1 => 1 + c0.nodes + c1.nodes

def stackNodes (st : List (Trie α)) : Nat := (st.map Trie.nodes).sum

/-- push the children of a popped node: `children[1]` first, then `children[0]` on top -/
def pushKids (c0 c1 : Trie α) (rest : List (Trie α)) : List (Trie α) :=
  let rest := if c1.isNil then rest else c1 :: rest
  if c0.isNil then rest else c0 :: rest

/-- `Iterator.Next` (the loop of `Iterator.All` is the same machine on a copy of the stack):
    pop, push the children, yield the node unless it is imaginary -/
def Iter.next : (fuel : Nat) → List (Trie α) → Option ((List Nat × Nat × α) × List (Trie α))
  | 0, _ => none
  | _ + 1, [] => none
  | fuel + 1, .nil :: rest => Iter.next fuel rest          -- (never pushed by the code; skipped)
  | fuel + 1, .node d p v c0 c1 :: rest =>
    match v with
    | some x => some ((d, p, x), pushKids c0 c1 rest)
    | none => Iter.next fuel (pushKids c0 c1 rest)

/-- enough fuel for any stack: every step pops a slot, and pushes at most two per node consumed -/
def iterFuel (st : List (Trie α)) : Nat := 2 * stackNodes st + st.length + 1

/-- everything the iterator yields from a stack -/
def Iter.drain : (fuel : Nat) → List (Trie α) → List (List Nat × Nat × α)
  | 0, _ => []
  | fuel + 1, st =>
    match Iter.next (iterFuel st) st with
    | none => []
    | some (e, st') => e :: Iter.drain fuel st'

/-- `Trie.All` / `Txn.All` / `Txn.Prefix`: the iterator starts from one node -/
def Iter.ofStart (t : Trie α) : Iter α := ⟨if t.isNil then [] else [t]⟩

/-- `Txn.LowerBound`: the stack the loop builds (top first) -/
def lbStack (data : List Nat) (plen : Nat) : Trie α → Nat → List (Trie α) → List (Trie α)
  | .nil, _, pend => pend
  | .node nd npl nv c0 c1, matchLen, pend =>
    let ml := longestMatch matchLen nd npl data plen
    let this := Trie.node nd npl nv c0 c1
    if ml = plen then this :: pend
    else if ml < npl then
      (if cmpL (nd ++ be 2 npl) data != .lt then this :: pend else pend)
    else if getBitAt data npl = 0 then
      lbStack data plen c0 ml (if c1.isNil then pend else c1 :: pend)
    else lbStack data plen c1 ml pend

def hexd (n : Nat) : Char :=
  if n < 10 then Char.ofNat (48 + n) else Char.ofNat (87 + n)
def hex (k : List Nat) : String :=
  String.ofList (k.flatMap fun b => [hexd (b / 16 % 16), hexd (b % 16)])

def dump : Trie α → String
  | .nil => "-"
  | .node d p v c0 c1 => s!"({hex d}/{p}{if v.isNone then "*" else ""} {dump c0} {dump c1})"

end Sdb.Lpm
