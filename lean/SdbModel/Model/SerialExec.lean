import SdbModel.Model.Serial
/-!
  Model.SerialExec — an executable version of the step relation of Model.Serial,
  used by the sched driver to CHECK, on every generated schedule, that the run of
  Model.Conc (which is compared step by step with the real goroutines) maps to a
  run of Model.Serial (about which C02 / C05 / C06 / C10 are proved).
  `stepFn` is sound w.r.t. `Serial.Step` (Lemmas/SerialExec.lean).
-/
namespace Sdb.Serial

inductive Ev where
  | acquire (i tb : Nat)
  | load (i : Nat)
  | store (i : Nat)
  | abort (i : Nat)
  | release (i tb : Nat)
  | finish (i : Nat)
  | spawn (tabs : List Nat) (commit : Bool)
  deriving Repr

def Ev.str : Ev → String
  | .acquire i tb => s!"acquire({i},{tb})"
  | .load i => s!"load({i})"
  | .store i => s!"store({i})"
  | .abort i => s!"abort({i})"
  | .release i tb => s!"release({i},{tb})"
  | .finish i => s!"finish({i})"
  | .spawn tabs c => s!"spawn({tabs},{c})"

def ascendingB : List Nat → Bool
  | [] => true
  | [_] => true
  | a :: b :: r => decide (a < b) && ascendingB (b :: r)

def stepFn (s : State) : Ev → Option State
  | .acquire i tb =>
    match s.txns[i]? with
    | some t =>
      match t.phase with
      | .acquiring k =>
        if t.tabs[k]? = some tb ∧ s.owner tb = none then
          some { s with owner := fun x => if x = tb then some i else s.owner x,
                        txns := setTxn s.txns i { t with phase := .acquiring (k + 1) } }
        else none
      | _ => none
    | none => none
  | .load i =>
    match s.txns[i]? with
    | some t =>
      if t.phase = .acquiring t.tabs.length then
        some { s with txns := setTxn s.txns i { t with phase := .loaded, old := s.root } }
      else none
    | none => none
  | .store i =>
    match s.txns[i]? with
    | some t =>
      if t.phase = .loaded ∧ t.commit = true then
        some { s with root := fun x => if x ∈ t.tabs then t.old x + 1 else s.root x,
                      commits := fun x => if x ∈ t.tabs then s.commits x + 1 else s.commits x,
                      txns := setTxn s.txns i { t with phase := .stored } }
      else none
    | none => none
  | .abort i =>
    match s.txns[i]? with
    | some t =>
      if t.phase = .loaded ∧ t.commit = false then
        some { s with txns := setTxn s.txns i { t with phase := .stored } }
      else none
    | none => none
  | .release i tb =>
    match s.txns[i]? with
    | some t =>
      if t.phase = .stored ∧ t.tabs[t.released]? = some tb then
        some { s with owner := fun x => if x = tb then none else s.owner x,
                      txns := setTxn s.txns i { t with released := t.released + 1 } }
      else none
    | none => none
  | .finish i =>
    match s.txns[i]? with
    | some t =>
      if t.phase = .stored ∧ t.released = t.tabs.length then
        some { s with txns := setTxn s.txns i { t with phase := .done } }
      else none
    | none => none
  | .spawn tabs commit =>
    if ascendingB tabs then some { s with txns := s.txns ++ [{ tabs, commit }] } else none

end Sdb.Serial
