/-!
  Model.Cow — the copy-on-write stamp discipline shared by `part` and `lpm`
  (and, through them, by every index of a table).

  `StampFacts` is what tools/extract reads off the source: which Txn methods
  bump the transaction id before handing out a view of the current root, that
  `cloneNode`/`clone` mutates in place only when the node's stamp equals the
  transaction's id, and that a new transaction takes the id published with
  the tree it starts from.  The heap model and the theorem that published
  views stay frozen are in Lemmas/Cow.lean and Props/C01.lean.
-/
namespace Sdb.Cow

structure StampFacts where
  bumpAll : Bool
  bumpClone : Bool
  bumpPrefix : Bool
  bumpLowerBound : Bool
  bumpIterator : Bool
  bumpCommit : Bool
  inPlaceOnlyIfOwned : Bool
  idFromPublished : Bool
  deriving Repr, DecidableEq

/-- every publication bumps, in-place writes are guarded by the stamp -/
def StampFacts.ok (f : StampFacts) : Bool :=
  f.bumpAll && f.bumpClone && f.bumpPrefix && f.bumpLowerBound && f.bumpIterator && f.bumpCommit &&
  f.inPlaceOnlyIfOwned && f.idFromPublished

end Sdb.Cow
