/-!
  Model.KeySet — `index.KeySet` (index/keyset.go): the set of index keys an indexer returns for
  one object, as the code stores it (first key, the rest, a flag telling the empty set from the
  set holding the empty key — the confusion of the two was defect F7), and the constructors
  of index/string.go, map.go, set.go, seq.go, which all end in `NewKeySet(keys...)`.
  Keys are byte lists.  Core Lean only.
-/
namespace Sdb.KS

structure KeySet where
  head : List Nat := []
  tail : List (List Nat) := []
  nonEmpty : Bool := false
  deriving Repr, DecidableEq, Inhabited

/-- `NewKeySet(keys...)` -/
def newKeySet : List (List Nat) → KeySet
  | [] => {}
  | k :: ks => { head := k, tail := ks, nonEmpty := true }

/-- `Foreach`, as the list of keys it visits in order -/
def KeySet.toList (s : KeySet) : List (List Nat) := if s.nonEmpty then s.head :: s.tail else []

/-- `Exists` -/
def KeySet.exists (s : KeySet) (k : List Nat) : Bool :=
  if !s.nonEmpty then false
  else if s.head == k then true
  else s.tail.any (· == k)

/-- `First` (nil for the empty set — and for a set whose first key is empty) -/
def KeySet.first (s : KeySet) : List Nat := s.head

/-- `StringSlice` / `StringerSlice` / `Seq` / `Seq2` / `Set` / `StringMap`: one key per element, in the
    order the collection yields them -/
def ofElems (toKey : α → List Nat) (xs : List α) : KeySet := newKeySet (xs.map toKey)

end Sdb.KS
