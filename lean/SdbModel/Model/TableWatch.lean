import SdbModel.Model.Art
import SdbModel.Model.Table
import SdbModel.Generated.ArtParams
/-!
  Model.TableWatch — the watch channels of statedb TABLE queries (C06 glue).

  Model.Table describes a table as sorted index maps and has no channels;
  Model.Art is the shape- and watch-exact model of `part.Tree`.  This file puts
  the two together the way /repo/table.go, write_txn.go, part_index.go and
  lpm_index.go do:

  * every part-backed index of a table (primary `id`, unique `u`, non-unique
    multi-key `tags`) is an `Art.Tree` over the same byte keys as the index map of
    Model.Table (non-unique: the composite key `enc(secondary) 00 enc(primary) len`);
    the value stored is the object's revision;
  * a write transaction keeps, per index, either the committed tree
    (`partIndex`) or a part transaction created lazily by the first
    `indexWriteTxn` (`partIndexTxn`); a table write operation is translated to the
    exact sequence of tree operations the Go code performs (`modifyOps`,
    `deleteOps`, `deleteAllOps`: speculative insert + revert of a rejected
    CompareAndSwap / CompareAndDelete, `reindex` = inserts of the new keys, then
    deletes of the obsolete old keys); reads through an index that has a
    transaction bump its txn id where the code clones (`Clone`, `Txn.Prefix`);
  * Commit commits every index transaction and then notifies it (the channels
    recorded by the tree operations and, when dirty, the old root watch are
    closed); Abort drops the transactions;
  * a watch query returns the channel part_index.go returns: unique get / list ->
    `Tree.Get` watch, non-unique get / list and every prefix -> `Prefix` watch of the
    (encoded) key, lowerBound / all -> root watch of the index tree;
  * LPM indexes (lpm_index.go) hand out ONE channel per committed version of the
    index for every query; a commit of a transaction that created the index's
    transaction (any successful Insert / Modify / Delete on the table) closes it
    and installs a fresh one.

  Channel identifiers: every index has its own `Art.World` (allocator + closed
  set), so a channel is identified by (table, index, number).  The identifiers
  are abstract: the driver compares identity up to renaming (first appearance)
  and the closed sets.

  Not modelled here: the revision / graveyard indexes (root-only-watch trees
  never queried with a watch by the table API except through change iterators,
  whose open / closed state Model.Table tracks with `gen`), delete trackers,
  initializer channels.  Core Lean only, executable, total.
-/
namespace Sdb.TW
open Sdb.Art Sdb.Tbl

abbrev AP : ArtParams := Gen.artParams

/-! ### the three part-backed indexes -/

inductive PIx where
  | id | u | tags
  deriving DecidableEq, Repr, Inhabited

/-- `partIndex.unique` -/
def PIx.unique : PIx → Bool
  | .tags => false
  | _ => true

/-- one value per part index (explicit fields: evaluated when built) -/
structure Tri (α : Type) where
  id : α
  u : α
  tags : α
  deriving Inhabited

def Tri.get {α : Type} (t : Tri α) : PIx → α
  | .id => t.id
  | .u => t.u
  | .tags => t.tags

def Tri.tab {α : Type} (f : PIx → α) : Tri α := ⟨f .id, f .u, f .tags⟩

@[simp] theorem Tri.get_tab {α : Type} (f : PIx → α) (i : PIx) : (Tri.tab f).get i = f i := by
  cases i <;> rfl

/-! ### one index inside a write transaction -/

/-- a call on the part transaction of one index -/
inductive IOp where
  /-- `indexWriteTxn`: create the index transaction if there is none yet -/
  | open
  /-- `tx.Insert` / `InsertWatch` / `ModifyWatch` of object `o` under `k` (the tree stores `o.rev`) -/
  | ins (k : Key) (o : Obj)
  /-- `tx.Delete k` -/
  | del (k : Key)
  /-- a read that freezes the tree: `tx.Clone()` / `tx.Prefix()` (txn id + 1); only when a transaction exists -/
  | bump
  deriving Repr, Inhabited

/-- `tableEntry.indexes[pos]` inside a write transaction: the committed
    `partIndex` (`txn = none`) or the `partIndexTxn` created from it -/
structure WIdx where
  tree : Tree
  txn : Option Txn := none
  deriving Inhabited

/-- the part transaction, created on demand from the committed tree in the index's world -/
def WIdx.cur (w : WIdx) (wd : World) : Txn := w.txn.getD (w.tree.txn wd)

def IOp.onTxn (x : Txn) : IOp → Txn
  | .open => x
  | .ins k o => (x.insert AP k o.rev none).1
  | .del k => (x.delete AP k).1
  | .bump => x.bump

def WIdx.apply (wd : World) (w : WIdx) (op : IOp) : WIdx :=
  match op, w.txn with
  | .bump, none => w
  | op, _ => { w with txn := some (op.onTxn (w.cur wd)) }

def WIdx.run (wd : World) (w : WIdx) (ops : List IOp) : WIdx := ops.foldl (WIdx.apply wd) w

/-- what a reader sees of an index: root node and root watch -/
structure IdxView where
  root : Option Node
  rw : Nat
  deriving Inhabited

def Tree.view (t : Tree) : IdxView := { root := t.root, rw := t.rootWatch }

def WIdx.view (w : WIdx) : IdxView :=
  match w.txn with
  | some x => { root := x.root, rw := x.rootWatch }
  | none => Tree.view w.tree

/-! ### queries on a part index (part_index.go) -/

inductive QKind where
  | get | list | prefix | lb | all
  deriving DecidableEq, Repr, Inhabited

/-- the channel `partGet` / `partList` / `partPrefix` / `lowerBound` / `all` return -/
def partChan (unique : Bool) (v : IdxView) (k : QKind) (key : Key) : Nat :=
  match k with
  | .get | .list =>
    if unique then (getRoot v.root v.rw key).2 else (prefixRoot v.root v.rw (P.enc key)).2
  | .prefix => (prefixRoot v.root v.rw (if unique then key else P.enc key)).2
  | .lb | .all => v.rw

/-- what such a query does to the index's transaction when it goes through one
    (`partIndexTxn.get` of a unique index searches the transaction's tree in place;
    everything else clones or calls `Txn.Prefix`) -/
def partReadOps (unique : Bool) : QKind → List IOp
  | .get => if unique then [] else [.bump]
  | _ => [.bump]

/-! ### table write operations as tree operations (write_txn.go, part_index.go reindex) -/

/-- tree operations per index; `lpm`: the LPM index transactions were created -/
structure TOps where
  id : List IOp := []
  u : List IOp := []
  tags : List IOp := []
  lpm : Bool := false
  deriving Inhabited

def TOps.get (o : TOps) : PIx → List IOp
  | .id => o.id
  | .u => o.u
  | .tags => o.tags

def TOps.append (a b : TOps) : TOps :=
  { id := a.id ++ b.id, u := a.u ++ b.u, tags := a.tags ++ b.tags, lpm := a.lpm || b.lpm }

/-- `partIndexTxn.reindex`: insert every new key, then delete the old keys that are not new keys -/
def reindexOps (keyOf : Key → Key) (oldKeys newKeys : List Key) (n : Obj) : List IOp :=
  newKeys.map (fun k => IOp.ins (keyOf k) n) ++
    (oldKeys.filter fun k => !newKeys.contains k).map (fun k => IOp.del (keyOf k))

/-- the object version `modify` stores (Model.Table.modify: new revision, merged value) -/
def newObjOf (t : TableS) (o : Obj) (merge : Bool) : Obj :=
  match t.primary.get o.id, merge with
  | some oo, true => { o with rev := t.rev + 1, val := oo.val + o.val }
  | _, _ => { o with rev := t.rev + 1 }

/-- `writeTxnState.modify` (Insert / Modify / CompareAndSwap) on the table state `t` of Model.Table:
    the object goes into the primary index first; a CompareAndSwap that fails its guard reverts that
    (delete, or insert of the old object) and stops; otherwise every secondary index is reindexed -/
def modifyOps (t : TableS) (guard : Nat) (o : Obj) (merge : Bool) : TOps :=
  if !t.locked then {} else
  let n := newObjOf t o merge
  match t.primary.get o.id with
  | none =>
    if guard > 0 then { id := [.open, .ins o.id n, .del o.id] }
    else
      { id := [.open, .ins o.id n]
        tags := .open :: reindexOps (P.composite o.id) [] n.tags n
        u := if t.full then .open :: reindexOps (fun k => k) [] [n.ukey] n else []
        lpm := t.full }
  | some old =>
    if guard > 0 ∧ old.rev ≠ guard then { id := [.open, .ins o.id n, .ins o.id old] }
    else
      { id := [.open, .ins o.id n]
        tags := .open :: reindexOps (P.composite o.id) old.tags n.tags n
        u := if t.full then .open :: reindexOps (fun k => k) [old.ukey] [n.ukey] n else []
        lpm := t.full }

/-- `writeTxnState.delete` (Delete / CompareAndDelete) -/
def deleteOps (t : TableS) (guard : Nat) (id : Key) : TOps :=
  if !t.locked then {} else
  match t.primary.get id with
  | none => { id := [.open, .del id] }
  | some old =>
    if guard > 0 ∧ old.rev ≠ guard then { id := [.open, .del id, .ins id old] }
    else
      { id := [.open, .del id]
        tags := .open :: reindexOps (P.composite id) old.tags [] old
        u := if t.full then .open :: reindexOps (fun k => k) [old.ukey] [] old else []
        lpm := t.full }

/-- `DeleteAll`: `All(txn)` on the primary index (a clone when it has a transaction), then one delete per object -/
def deleteAllOps (t : TableS) : TOps :=
  if !t.locked then {} else
  (t.primary.foldl (fun (acc : TableS × TOps) (e : Key × Obj) =>
      ((delete acc.1 0 e.1).1, acc.2.append (deleteOps acc.1 0 e.1))) (t, { id := [.bump] })).2

/-! ### committed tables, transactions on them -/

/-- a committed part index together with its channel world -/
structure CIdx where
  wd : World
  tree : Tree
  deriving Inhabited

def newCIdx : CIdx := let r := newTree {} false; { wd := r.1, tree := r.2 }

/-- a committed LPM index: its current channel; `wd` allocates and records the closed ones -/
structure LIdx where
  wd : World
  ch : Nat
  deriving Inhabited

def newLIdx : LIdx := { wd := { nextW := 2, closed := [] }, ch := 1 }

structure CTab where
  full : Bool
  part : Tri CIdx
  lpm : LIdx
  ulpm : LIdx
  deriving Inhabited

def newCTab (full : Bool) : CTab := { full, part := Tri.tab fun _ => newCIdx, lpm := newLIdx, ulpm := newLIdx }

/-- an LPM index inside a write transaction: the channel of the version it started from,
    and whether `lpmIndex.txn()` was called -/
structure LW where
  ch : Nat
  opened : Bool := false
  deriving Inhabited

/-- `tableEntry` inside a write transaction -/
structure WTab where
  locked : Bool
  part : Tri WIdx
  lpm : LW
  ulpm : LW
  deriving Inhabited

/-- `WriteTxn`: a copy of the table entry -/
def CTab.begin (c : CTab) (locked : Bool) : WTab :=
  { locked, part := Tri.tab fun i => { tree := (c.part.get i).tree },
    lpm := { ch := c.lpm.ch }, ulpm := { ch := c.ulpm.ch } }

/-- apply the tree operations of one table operation; `c` is the committed table
    the transaction was opened on (it cannot change while the table is locked) -/
def WTab.applyOps (c : CTab) (w : WTab) (ops : TOps) : WTab :=
  { w with
    part := Tri.tab fun i => (w.part.get i).run (c.part.get i).wd (ops.get i)
    lpm := { w.lpm with opened := w.lpm.opened || ops.lpm }
    ulpm := { w.ulpm with opened := w.ulpm.opened || ops.lpm } }

/-- `partIndexTxn.commit` + `notify` (write_txn.go Commit: all commits, root swap, then all notifies);
    an index without a transaction stays as it is -/
def CIdx.commit (c : CIdx) (w : WIdx) : CIdx :=
  match w.txn with
  | none => c
  | some x =>
    let r := x.commit c.wd
    { wd := (r.1.notify r.2.2).2, tree := r.2.1 }

/-- Abort drops the transaction; the channels it allocated are never reused -/
def CIdx.abort (c : CIdx) (w : WIdx) : CIdx :=
  match w.txn with
  | none => c
  | some x => { c with wd := { c.wd with nextW := max c.wd.nextW x.st.nextW } }

/-- `lpmIndexTxn.commit` (fresh channel for the new version) + `notify` (old one closed) -/
def LIdx.commit (l : LIdx) (w : LW) : LIdx :=
  if w.opened then { wd := { nextW := l.wd.nextW + 1, closed := l.ch :: l.wd.closed }, ch := l.wd.nextW } else l

def CTab.commit (c : CTab) (w : WTab) : CTab :=
  if w.locked then
    { c with part := Tri.tab fun i => (c.part.get i).commit (w.part.get i)
             lpm := c.lpm.commit w.lpm, ulpm := c.ulpm.commit w.ulpm }
  else c

def CTab.abort (c : CTab) (w : WTab) : CTab :=
  if w.locked then { c with part := Tri.tab fun i => (c.part.get i).abort (w.part.get i) } else c

/-! ### queries at table level -/

/-- what a reader (snapshot or write transaction) sees of a table -/
structure View where
  part : Tri IdxView
  lpm : Nat
  ulpm : Nat
  deriving Inhabited

def CTab.view (c : CTab) : View :=
  { part := Tri.tab fun i => Tree.view (c.part.get i).tree, lpm := c.lpm.ch, ulpm := c.ulpm.ch }

def WTab.view (w : WTab) : View :=
  { part := Tri.tab fun i => (w.part.get i).view, lpm := w.lpm.ch, ulpm := w.ulpm.ch }

/-- index number used in channel identities: 0 id, 1 u, 2 tags, 3 lpm, 4 ulpm -/
def PIx.num : PIx → Nat
  | .id => 0 | .u => 1 | .tags => 2

def pixOf : Idx → Option PIx
  | .id => some .id
  | .u => some .u
  | .tags => some .tags
  | _ => none

/-- the channel a watch query returns: (index number, channel number); `Idx.rev` is not modelled -/
def View.chan (v : View) (ix : Idx) (k : QKind) (key : Key) : Nat × Nat :=
  match ix with
  | .id => (0, partChan true (v.part.get .id) k key)
  | .u => (1, partChan true (v.part.get .u) k key)
  | .tags => (2, partChan false (v.part.get .tags) k key)
  | .lpm => (3, v.lpm)
  | .ulpm => (4, v.ulpm)
  | .rev => (5, 0)

/-- the reads of a query made through the write transaction itself -/
def readOps (ix : Idx) (k : QKind) : TOps :=
  match ix with
  | .id => { id := partReadOps true k }
  | .u => { u := partReadOps true k }
  | .tags => { tags := partReadOps false k }
  | _ => {}

/-- is channel `(ixn, w)` of this table closed? -/
def CTab.isClosed (c : CTab) (ixn w : Nat) : Bool :=
  match ixn with
  | 0 => c.part.id.wd.closed.contains w
  | 1 => c.part.u.wd.closed.contains w
  | 2 => c.part.tags.wd.closed.contains w
  | 3 => c.lpm.wd.closed.contains w
  | 4 => c.ulpm.wd.closed.contains w
  | _ => false

/-- the channel `InsertWatch` returns: that of the primary-index insert -/
def WTab.insWatch (c : CTab) (w : WTab) (t : TableS) (o : Obj) : Nat :=
  if !t.locked then 0 else
  (((w.part.id.apply c.part.id.wd .open).cur c.part.id.wd).insert AP o.id (t.rev + 1) none).2.2.2

/-! ### one table: Model.Table and the index trees side by side -/

/-- what a write transaction does to one table: the write operations and the queries made
    through the transaction itself -/
inductive TOp where
  | modify (guard : Nat) (o : Obj) (merge : Bool)   -- Insert / InsertWatch / Modify / CompareAndSwap
  | delete (guard : Nat) (id : Key)                 -- Delete / CompareAndDelete
  | deleteAll
  | read (ix : Idx) (k : QKind)                     -- Get / List / Prefix / LowerBound / All on the write txn
  deriving Inhabited

def TOp.ops (t : TableS) : TOp → TOps
  | .modify g o mg => modifyOps t g o mg
  | .delete g id => deleteOps t g id
  | .deleteAll => deleteAllOps t
  | .read ix k => readOps ix k

def TOp.onTable (t : TableS) : TOp → TableS
  | .modify g o mg => (Tbl.modify t g o mg).1
  | .delete g id => (Tbl.delete t g id).1
  | .deleteAll => (Tbl.deleteAll t).1
  | .read _ _ => t

/-- one operation on the product state (Model.Table's table, the index trees of the transaction) -/
def stepT (c : CTab) (s : TableS × WTab) (op : TOp) : TableS × WTab :=
  (op.onTable s.1, s.2.applyOps c (op.ops s.1))

def runT (c : CTab) (s : TableS × WTab) (ops : List TOp) : TableS × WTab := ops.foldl (stepT c) s

/-! ### database: two tables, one open write transaction, `side` transactions -/

structure DB where
  root : List CTab := [newCTab true, newCTab false]
  wtxn : Option (List WTab) := none
  deriving Inhabited

def DB.tab (db : DB) (i : Nat) : CTab := db.root.getD i default

def DB.beginW (db : DB) (lockM lockA : Bool) : DB :=
  { db with wtxn := some (db.root.mapIdx fun i c => c.begin (if i = 0 then lockM else lockA)) }

/-- a table write operation (given as its tree operations) through the open transaction -/
def DB.write (db : DB) (ti : Nat) (ops : TOps) : DB :=
  match db.wtxn with
  | none => db
  | some ws => { db with wtxn := some (ws.set ti ((ws.getD ti default).applyOps (db.tab ti) ops)) }

def DB.commit (db : DB) : DB :=
  match db.wtxn with
  | none => db
  | some ws => { root := (db.root.zip ws).map fun (c, w) => c.commit w, wtxn := none }

def DB.abort (db : DB) : DB :=
  match db.wtxn with
  | none => db
  | some ws => { root := (db.root.zip ws).map fun (c, w) => c.abort w, wtxn := none }

/-- a second write transaction on a table the open one does not hold: begin, one operation, commit -/
def DB.side (db : DB) (ti : Nat) (ops : TOps) : DB :=
  let c := db.tab ti
  { db with root := db.root.set ti (c.commit ((c.begin true).applyOps c ops)) }

end Sdb.TW
