/-!
  Model.Reconciler — executable model of reconciler/retries.go (backoff, the two
  queues, timer re-arming as a state machine over virtual time),
  reconciler/incremental.go (single / batch rounds, processRetries,
  commitStatus) and reconciler/progress.go, against a minimal table with a
  change stream (the change iterator of C07 is abstracted to "everything with
  a revision above the iterator's position").  Time is in milliseconds.
  Rounds are instantaneous (the harness uses an unlimited rate limiter).
  Core Lean only.
-/
namespace Sdb.Rec

inductive SKind where
  | pending | refreshing | done | error
  deriving Repr, DecidableEq, Inhabited

def SKind.str : SKind → String
  | .pending => "P" | .refreshing => "R" | .done => "D" | .error => "E"

structure RObj where
  id : Nat
  data : Nat
  kind : SKind
  sid : Nat          -- Status.ID
  other : Nat        -- a field only foreign writers change (a second reconciler's status)
  rev : Nat
  deriving Repr, DecidableEq, Inhabited

structure Item where
  id : Nat
  obj : RObj
  rev : Nat
  origRev : Nat
  delete : Bool
  retryAt : Nat
  numRetries : Nat
  inQueue : Bool       -- item.index >= 0
  inRevQueue : Bool
  deriving Repr, Inhabited

inductive Timer where
  | none | armed (t : Nat) | fired | stopped
  deriving Repr, DecidableEq, Inhabited

structure Call where
  op : String     -- "U" / "D"
  id : Nat
  data : Nat
  ok : Bool
  deriving Repr, DecidableEq, Inhabited

structure Change where
  obj : RObj
  rev : Nat
  deleted : Bool
  deriving Repr, Inhabited

structure Cfg where
  minB : Nat := 100
  maxB : Nat := 1000
  roundSize : Nat := 1000
  batch : Bool := false
  deriving Repr, Inhabited

/-- an action a test Operations.Update performs on the table while it runs -/
inductive Inject where
  | put (id data : Nat) | del (id : Nat) | touch (id : Nat)
  deriving Repr, Inhabited

structure R where
  cfg : Cfg := {}
  objs : List RObj := []
  tableRev : Nat := 0
  dels : List (RObj × Nat) := []        -- graveyard: (object, deletion revision)
  itRev : Nat := 0
  itDelRev : Nat := 0
  pending : Option (List Change) := some []   -- primed by Changes()
  refreshedAt : Nat := 0                -- table revision seen by the last refresh
  items : List Item := []
  timer : Timer := .none
  now : Nat := 0
  failing : List Nat := []
  injects : List (Nat × Inject) := []
  log : List Call := []
  nextSid : Nat := 1
  progressRev : Nat := 0
  progressLW : Nat := 0
  results : List (RObj × RObj × Nat × Nat × Bool) := []  -- (clone, original, rev, id, failed)
  numReconciled : Nat := 0
  /-- ghost: two queued retries have had the same `retryAt` — container/heap does not
      order equal keys, so from here on the ORDER of retries (observable through the round
      size limit and through writes made from inside an Update) is unspecified -/
  tieSeen : Bool := false
  deriving Inhabited

/-! ### backoff (exponentialBackoff.Duration) -/

def backoff (minB maxB attempt : Nat) : Nat :=
  let d := minB * 2 ^ attempt
  if d > maxB then maxB else d

/-! ### the minimal table -/

def R.get (r : R) (id : Nat) : Option RObj := r.objs.find? (·.id = id)

def R.setObj (r : R) (o : RObj) : R :=
  let rev := r.tableRev + 1
  let o := { o with rev }
  let objs := if r.objs.any (·.id = o.id) then r.objs.map (fun x => if x.id = o.id then o else x) else r.objs ++ [o]
  { r with objs, tableRev := rev, dels := r.dels.filter (·.1.id ≠ o.id) }

def R.delObj (r : R) (id : Nat) : R :=
  match r.get id with
  | none => r
  | some o =>
    let rev := r.tableRev + 1
    { r with objs := r.objs.filter (·.id ≠ id), tableRev := rev, dels := r.dels ++ [({ o with rev }, rev)] }

/-- user write: Insert with StatusPending() -/
def R.userPut (r : R) (id data : Nat) : R :=
  let other := match r.get id with | some o => o.other | none => 0
  let r' := r.setObj { id, data, kind := .pending, sid := r.nextSid, other, rev := 0 }
  { r' with nextSid := r.nextSid + 1 }

/-- a foreign writer changing only its own status: same reconciler status / id -/
def R.touch (r : R) (id : Nat) : R :=
  match r.get id with
  | some o => r.setObj { o with other := o.other + 1 }
  | none => r

def R.applyInject (r : R) : Inject → R
  | .put id data => r.userPut id data
  | .del id => r.delObj id
  | .touch id => r.touch id

/-! ### retries -/

def insertBy (lt : Item → Item → Bool) (x : Item) : List Item → List Item
  | [] => [x]
  | y :: ys => if lt x y then x :: y :: ys else y :: insertBy lt x ys

/-- queue view: items in the time queue ordered by retryAt (ties: as stored) -/
def R.queue (r : R) : List Item :=
  (r.items.filter (·.inQueue)).foldr (insertBy fun a b => a.retryAt ≤ b.retryAt) []

def R.head (r : R) : Option Item := r.queue.head?

/-- the timer after `resetTimer`, given the current timer and the queue head -/
def newTimer (t : Timer) (head : Option Item) : Timer :=
  match t with
  | .none | .fired | .stopped =>
    match head with
    | none => .none
    | some h => .armed h.retryAt
  | .armed _ =>
    match head with
    | some h => .armed h.retryAt
    | none => .stopped

def R.resetTimer (r : R) : R := { r with timer := newTimer r.timer r.head }

/-- retries.Add -/
def R.retryAdd (r : R) (obj : RObj) (rev origRev : Nat) (del : Bool) : R :=
  let old := r.items.find? (·.id = obj.id)
  let n := (match old with | some i => i.numRetries | none => 0) + 1
  -- the revision of the change that failed originally is kept over the retries of an item
  -- (the item is removed by `retryClear` when the object changes)
  let origRev := match old with | some i => i.origRev | none => origRev
  let it : Item := { id := obj.id, obj, rev, origRev, delete := del, retryAt := r.now + backoff r.cfg.minB r.cfg.maxB n,
                     numRetries := n, inQueue := true, inRevQueue := true }
  let tie := (r.items.filter (fun i => i.inQueue ∧ i.id ≠ obj.id)).any (·.retryAt = it.retryAt)
  let r' : R := { r with items := r.items.filter (·.id ≠ obj.id) ++ [it], tieSeen := r.tieSeen || tie }
  { r' with timer := if (r'.head.map (·.id)) = some obj.id then newTimer r'.timer r'.head else r'.timer }

/-- retries.Clear -/
def R.retryClear (r : R) (id : Nat) : R :=
  match r.items.find? (·.id = id) with
  | none => r
  | some it =>
    let wasHead := it.inQueue ∧ (r.head.map (·.id)) = some id
    let r' : R := { r with items := r.items.filter (·.id ≠ id) }
    { r' with timer := if wasHead then newTimer r'.timer r'.head else r'.timer }

/-- retries.Pop: out of the time queue, still in the map -/
def R.retryPop (r : R) : R :=
  match r.head with
  | none => r
  | some h =>
    let r' : R := { r with items := r.items.map fun (i : Item) => if i.id = h.id then { i with inQueue := false } else i }
    { r' with timer := newTimer r'.timer r'.head }

/-- retries.LowWatermark -/
def R.lowWatermark (r : R) : Nat :=
  match (r.items.filter (·.inRevQueue)).map (·.origRev) with
  | [] => 0
  | x :: xs => xs.foldl min x

/-! ### one reconciliation round (incremental.run) -/

def R.isFailing (r : R) (id : Nat) : Bool := r.failing.contains id

/-- processSingle -/
def R.processSingle (r : R) (obj : RObj) (rev : Nat) (del : Bool) : R :=
  let failed := r.isFailing obj.id
  if del then
    let r : R := { r with log := r.log ++ [({ op := "D", id := obj.id, data := obj.data, ok := !failed } : Call)] }
    if failed then r.retryAdd obj rev rev true else r.retryClear obj.id
  else
    let r : R := { r with log := r.log ++ [({ op := "U", id := obj.id, data := obj.data, ok := !failed } : Call)] }
    -- the operation may write to the table while it runs
    let acts := r.injects.filter (fun (a : Nat × Inject) => a.1 = obj.id)
    let rest := r.injects.filter (fun (a : Nat × Inject) => a.1 ≠ obj.id)
    let r : R := acts.foldl (fun (r : R) (a : Nat × Inject) => r.applyInject a.2) { r with injects := rest }
    let r : R := { r with results := r.results ++ [(obj, obj, rev, obj.sid, failed)] }
    if failed then r else r.retryClear obj.id

/-- one entry of commitStatus: `res` = (clone passed to Update, original, revision
    it was read at, pending id it carried, failed?) -/
def R.commitOne (r : R) (res : RObj × RObj × Nat × Nat × Bool) : R :=
  let (obj, orig, rev, sid, failed) := res
  let kind := if failed then SKind.error else SKind.done
  match r.get obj.id with
  | none => r                                   -- ErrObjectNotFound: dropped
  | some cur =>
    if cur.rev = rev then
      let r := { (r.setObj { obj with kind, sid := r.nextSid }) with nextSid := r.nextSid + 1 }
      if failed then r.retryAdd orig r.tableRev rev false else r
    else if cur.kind = .pending ∧ cur.sid = sid then
      -- only the status changed meanwhile: write onto the current object; a retry
      -- starts from the current object too
      let r := { (r.setObj { cur with kind, sid := r.nextSid }) with nextSid := r.nextSid + 1 }
      if failed then r.retryAdd cur r.tableRev rev false else r
    else r

/-- commitStatus (results in the order they were produced) -/
def R.commitStatus (r : R) : R :=
  { (r.results.foldl R.commitOne r) with results := [] }

def mergeCh : List Change → List Change → List Change
  | [], r => r
  | l, [] => l
  | l :: ls, r :: rs => if l.rev ≤ r.rev then l :: mergeCh ls (r :: rs) else r :: mergeCh (l :: ls) rs
termination_by l r => l.length + r.length

def insertCh (c : Change) : List Change → List Change
  | [] => [c]
  | d :: ds => if c.rev ≤ d.rev then c :: d :: ds else d :: insertCh c ds

/-- changeIterator.Next on a fresh snapshot -/
def R.nextChanges (r : R) : R × List Change :=
  if r.pending.isNone ∧ r.refreshedAt = r.tableRev then (r, [])
  else
    let ups := ((r.objs.filter (·.rev > r.itRev)).map fun o => ({ obj := o, rev := o.rev, deleted := false } : Change)).foldr insertCh []
    let dels := ((r.dels.filter (·.2 > r.itDelRev)).map fun (o, dr) => ({ obj := o, rev := dr, deleted := true } : Change)).foldr insertCh []
    ({ r with refreshedAt := r.tableRev }, mergeCh dels ups)

/-- the loop over changes of single()/batch(): consumes changes until the round is full -/
def R.consume (r : R) : List Change → Nat → R × List Change × Nat
  | [], last => (r, [], last)
  | c :: cs, _ =>
    let r := if c.deleted then { r with itDelRev := c.rev } else { r with itRev := c.rev }
    let last := c.rev
    if !c.deleted ∧ !(c.obj.kind = .pending ∨ c.obj.kind = .refreshing) then r.consume cs last
    else
      let r := r.retryClear c.obj.id
      let r := r.processSingle c.obj c.rev c.deleted
      let r := { r with numReconciled := r.numReconciled + 1 }
      if r.numReconciled ≥ r.cfg.roundSize then (r, cs, last) else r.consume cs last

def R.processRetries (r : R) : (fuel : Nat) → R
  | 0 => r
  | fuel + 1 =>
    if r.numReconciled ≥ r.cfg.roundSize then r else
    match r.head with
    | none => r
    | some h =>
      if h.retryAt > r.now then r else
      let r := r.retryPop
      let r := r.processSingle h.obj h.rev h.delete
      R.processRetries { r with numReconciled := r.numReconciled + 1 } fuel

/-- one iteration of reconcileLoop after a trigger -/
def R.round (r : R) : R :=
  let (r, changes) := r.nextChanges
  let (r, rest, last) := r.consume changes 0
  -- the sequence was consumed completely iff the loop ended without `break`
  let exhausted := rest.isEmpty ∧ r.numReconciled < r.cfg.roundSize
  let r := { r with pending := if changes.isEmpty ∧ r.pending.isNone then none else if exhausted then none else some rest }
  let r := r.commitStatus
  let r := r.processRetries (r.items.length + 1)
  let lw := r.lowWatermark
  let r := r.commitStatus
  { r with numReconciled := 0,
           progressRev := if last > r.progressRev then last else r.progressRev,
           progressLW := lw }

/-- does the loop have something to wake up for? -/
def R.triggered (r : R) : Bool :=
  r.pending.isSome || r.refreshedAt != r.tableRev ||
  (match r.timer with | .fired => true | .armed t => decide (t ≤ r.now) | _ => false)

def R.fireTimer (r : R) : R :=
  match r.timer with
  | .armed t => if t ≤ r.now then { r with timer := .fired } else r
  | _ => r

/-- run rounds until nothing triggers (bounded by fuel) -/
def R.quiesce (r : R) : (fuel : Nat) → R
  | 0 => r
  | fuel + 1 =>
    let r := r.fireTimer
    if r.triggered then R.quiesce r.round fuel else r

/-- let virtual time pass, waking the loop whenever the retry timer fires -/
def R.advance (r : R) (ms : Nat) : (fuel : Nat) → R
  | 0 => { r with now := r.now + ms }
  | fuel + 1 =>
    let target := r.now + ms
    match r.timer with
    | .armed t =>
      if t ≤ target then
        let r := ({ r with now := max t r.now }).quiesce 64
        R.advance r (target - r.now) fuel
      else { r with now := target }
    | _ => { r with now := target }

end Sdb.Rec
