/-!
  Model.WatchSet — `WatchSet.Wait(ctx, settleTime)` (watchset.go) over virtual
  time.  Channels are natural numbers; the environment says when each channel
  closes and when the context ends.  Every `reflect.Select` is a blocking wait
  for the first instant at which some case is ready followed by a choice among
  the ready cases made by an ORACLE (Go picks pseudo-randomly), so theorems
  quantify over all oracles.  Core Lean only.
-/
namespace Sdb.WS

structure Env where
  closeAt : Nat → Option Nat     -- channel ↦ time at which it is closed (none = never)
  ctxAt : Option Nat             -- time at which the context ends

def Env.closedBy (e : Env) (c t : Nat) : Bool :=
  match e.closeAt c with
  | some tc => tc ≤ t
  | none => false

def doneBy (d : Option Nat) (t : Nat) : Bool :=
  match d with
  | some td => td ≤ t
  | none => false

inductive Pick where
  | done            -- case 0: ctx.Done() / settleCtx.Done()
  | chan (c : Nat)
  deriving Repr, DecidableEq, Inhabited

/-- the oracle sees the time, whether case 0 is ready and the ready channels -/
abbrev Oracle := Nat → Bool → List Nat → Pick

def Pick.valid (p : Pick) (doneReady : Bool) (ready : List Nat) : Bool :=
  match p with
  | .done => doneReady
  | .chan c => ready.contains c

/-- candidate wake-up times: now, the deadline, every close time -/
def eventTimes (e : Env) (chans : List Nat) (deadline : Option Nat) (t : Nat) : List Nat :=
  let ts := chans.filterMap e.closeAt ++ deadline.toList
  t :: ts.filter (· > t)

def minList : List Nat → Option Nat
  | [] => none
  | x :: xs => match minList xs with
    | some m => some (min x m)
    | none => some x

/-- first instant ≥ t at which a case is ready (none = blocks forever) -/
def wakeTime (e : Env) (chans : List Nat) (deadline : Option Nat) (t : Nat) : Option Nat :=
  minList ((eventTimes e chans deadline t).filter fun u =>
    doneBy deadline u || chans.any (e.closedBy · u))

/-- one `reflect.Select`: (wake time, pick) -/
def select (e : Env) (o : Oracle) (chans : List Nat) (deadline : Option Nat) (t : Nat) : Option (Nat × Pick) :=
  match wakeTime e chans deadline t with
  | none => none
  | some u => some (u, o u (doneBy deadline u) (chans.filter (e.closedBy · u)))

structure Result where
  returned : List Nat
  err : Bool              -- ctx.Err() != nil at return
  time : Nat
  set : List Nat          -- the watch set afterwards
  deriving Repr, DecidableEq, Inhabited

def minOpt (a : Option Nat) (b : Nat) : Nat :=
  match a with
  | some x => min x b
  | none => b

/-- the settle loop: collect until case 0 is picked -/
def settleLoop (e : Env) (o : Oracle) (deadline : Option Nat) : (fuel : Nat) → (cases : List Nat) → (t : Nat) → (acc : List Nat) → List Nat × Nat
  | 0, _, t, acc => (acc, t)
  | fuel + 1, cases, t, acc =>
    match select e o cases deadline t with
    | none => (acc, t)            -- cannot happen: the deadline always fires
    | some (u, .done) => (acc, u)
    | some (u, .chan c) => settleLoop e o deadline fuel (cases.filter (· ≠ c)) u (acc ++ [c])

/-- `ws.Wait(ctx, settle)` started at time `t0` on the set `set` (no duplicates);
    `none` = blocks forever -/
def wait (e : Env) (o : Oracle) (set : List Nat) (settle t0 : Nat) : Option Result :=
  if set.isEmpty then
    match e.ctxAt with
    | some tc => some { returned := [], err := true, time := max tc t0, set }
    | none => none
  else
    match select e o set e.ctxAt t0 with
    | none => none
    | some (u, .done) => some { returned := [], err := true, time := u, set }
    | some (u, .chan c) =>
      if settle = 0 then
        some { returned := [c], err := false, time := u, set := set.filter (· ≠ c) }
      else
        let deadline := some (minOpt e.ctxAt (u + settle))
        let (cl, tEnd) := settleLoop e o deadline (set.length + 1) (set.filter (· ≠ c)) u [c]
        some { returned := cl, err := doneBy e.ctxAt tEnd, time := tEnd, set := set.filter (fun x => !cl.contains x) }

/-- a deterministic oracle (used by the driver; the generator avoids ties so
    that the choice does not matter): channels before case 0, lowest id first -/
def firstOracle : Oracle := fun _ d ready =>
  match ready with
  | c :: _ => .chan c
  | [] => if d then .done else .done

end Sdb.WS
