/-!
  Model.Progress — `reconciler/progress.go`: the progress tracker behind
  `Reconciler.WaitUntilReconciled`.  `update` and the sampling part of `wait` are critical
  sections of one mutex, so each is one atomic step here; the interleaving of any number of
  updates (the reconcile loop) with one waiter and its context is a step relation.
  Watch channels are numbered in the order they are made: `update` closes the current one
  and makes the next whenever it changed something, so channel `w` is closed iff `w < watch`.
  Core Lean only.
-/
namespace Sdb.Progress

structure Tracker where
  revision : Nat := 0
  lw : Nat := 0
  watch : Nat := 0          -- the current (open) channel; every earlier one is closed
  deriving Repr, DecidableEq, Inhabited

/-- `progressTracker.update` -/
def Tracker.update (p : Tracker) (rev lw : Nat) : Tracker :=
  let updated := decide (rev > p.revision) || decide (lw ≠ p.lw)
  { revision := if rev > p.revision then rev else p.revision,
    lw := lw,
    watch := if updated then p.watch + 1 else p.watch }

def Tracker.closed (p : Tracker) (w : Nat) : Bool := decide (w < p.watch)

/-- where a call of `wait(ctx, target)` is -/
inductive Waiter where
  | start                                   -- about to take the lock
  | sampled (cur lw w : Nat)                -- read (revision, lw, watch) under the lock, found cur < target, selecting
  | returned (cur lw : Nat) (err : Bool)
  deriving Repr, DecidableEq, Inhabited

structure St where
  p : Tracker := {}
  target : Nat
  wt : Waiter := .start
  ctxDone : Bool := false
  deriving Repr, DecidableEq

/-- the steps: the reconcile loop publishes progress; the waiter samples; the waiter's select
    fires on its (closed) watch channel or on its context; the context ends -/
inductive Step : St → St → Prop where
  | update (s : St) (rev lw : Nat) : Step s { s with p := s.p.update rev lw }
  | sampleReturn (s : St) (h : s.wt = .start) (hge : s.p.revision ≥ s.target) :
      Step s { s with wt := .returned s.p.revision s.p.lw false }
  | sampleWait (s : St) (h : s.wt = .start) (hlt : s.p.revision < s.target) :
      Step s { s with wt := .sampled s.p.revision s.p.lw s.p.watch }
  | wake (s : St) (cur lw w : Nat) (h : s.wt = .sampled cur lw w) (hc : s.p.closed w = true) :
      Step s { s with wt := .start }
  | ctxReturn (s : St) (cur lw w : Nat) (h : s.wt = .sampled cur lw w) (hd : s.ctxDone = true) :
      Step s { s with wt := .returned cur lw true }
  | cancel (s : St) : Step s { s with ctxDone := true }

inductive Reach (target : Nat) : St → Prop where
  | init : Reach target { target := target }
  | step {s t : St} : Reach target s → Step s t → Reach target t

/-- structural facts about progress.go regenerated from the source -/
structure SourceFacts where
  /-- `update`: the revision only moves forward (`rev > p.revision`) -/
  updateRevisionForwardOnly : Bool
  /-- `update`: the low-watermark is replaced whenever it differs -/
  updateLwWhenDifferent : Bool
  /-- `update`: the channel is closed and replaced exactly when something was updated, inside the lock -/
  updateClosesIffUpdated : Bool
  /-- `wait`: revision, low-watermark and channel are read in ONE critical section -/
  waitSamplesUnderOneLock : Bool
  /-- `wait`: returns `(current, lw, nil)` iff `current >= rev` -/
  waitReturnsWhenReached : Bool
  /-- `wait`: otherwise selects on the context and the sampled channel, and loops -/
  waitSelectsCtxAndWatch : Bool
  deriving Repr, DecidableEq

def expectedFacts : SourceFacts := {
  updateRevisionForwardOnly := true, updateLwWhenDifferent := true, updateClosesIffUpdated := true,
  waitSamplesUnderOneLock := true, waitReturnsWhenReached := true, waitSelectsCtxAndWatch := true }

end Sdb.Progress
