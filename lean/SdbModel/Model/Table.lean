import SdbModel.Model.Enc
import SdbModel.Model.Lpm
import SdbModel.Generated.EncParams
/-!
  Model.Table — executable model of statedb's table layer (layer L2/L3):
  write_txn.go (modify / delete with guard + revert, Commit/Abort at the
  sequential level), table.go wrappers (DeleteAll, initializers), part_index.go
  (unique / non-unique part indexes and their query iterators), lpm_index.go
  (lpmEntry lists, insertKey/removeKey), iterator.go (changeIterator,
  dualIterator), deletetracker.go, graveyard.go (scan and apply as two steps).

  Part indexes are abstract ordered maps (`OMap`: association lists sorted by
  `cmpL`); that part.Tree implements such a map is C11's subject.  LPM indexes
  use Model.Lpm.  Watch channels are not part of this model (C06/C12).
-/
namespace Sdb.Tbl

/-! ### ordered maps as sorted association lists -/

abbrev OMap (α : Type) := List (Key × α)

namespace OMap
variable {α : Type}

def get (m : OMap α) (k : Key) : Option α :=
  match m with
  | [] => none
  | (k', v) :: r => match cmpL k' k with
    | .eq => some v
    | .lt => get r k
    | .gt => none

def insert (m : OMap α) (k : Key) (v : α) : OMap α :=
  match m with
  | [] => [(k, v)]
  | (k', v') :: r => match cmpL k' k with
    | .eq => (k, v) :: r
    | .lt => (k', v') :: insert r k v
    | .gt => (k, v) :: (k', v') :: r

def erase (m : OMap α) (k : Key) : OMap α :=
  match m with
  | [] => []
  | (k', v') :: r => match cmpL k' k with
    | .eq => r
    | .lt => (k', v') :: erase r k
    | .gt => (k', v') :: r

def prefixQ (m : OMap α) (p : Key) : OMap α := m.filter fun (k, _) => hasPrefix k p
def lowerBound (m : OMap α) (k : Key) : OMap α := m.filter fun (k', _) => cmpL k' k != .lt
end OMap

/-! ### objects and schema -/

structure Obj where
  id : Key
  val : Nat
  uvar : Nat               -- variant digit of the unique secondary key
  tags : List Key          -- non-unique multi-key secondary
  pfxs : List (Key × Nat)  -- non-unique LPM index keys (data, prefix length)
  up : Bool                -- has a unique-LPM key (derived from `ord`)
  ord : Nat                -- ordinal of the id (assigned by the generator), for the unique LPM key
  rev : Nat
  deriving Repr, Inhabited, DecidableEq

def hexDigits (k : Key) : Key :=
  k.flatMap fun b =>
    let h (n : Nat) : Nat := if n < 10 then 48 + n else 87 + n
    [h (b / 16 % 16), h (b % 16)]

/-- unique secondary key: hex(id) ++ ":" ++ digit -/
def Obj.ukey (o : Obj) : Key := hexDigits o.id ++ [58, 48 + o.uvar]

def Obj.upKey (o : Obj) : List (Key × Nat) :=
  if o.up then [([o.ord / 256 % 256, o.ord % 256], 16)] else []

abbrev P := Gen.encParams

/-- entry of a (non-unique or unique) LPM index: objects sorted by primary key -/
abbrev LpmEntry := List (Key × Obj)

structure LpmIdx where
  t : Lpm.Trie LpmEntry := .nil
  deriving Inhabited

structure TableS where
  full : Bool := true        -- table "m" has all indexes; table "a" only id + tags
  rev : Nat := 0
  primary : OMap Obj := []
  revIdx : OMap Obj := []
  grave : OMap Obj := []
  graveRev : OMap Obj := []
  uIdx : OMap Obj := []
  tagIdx : OMap Obj := []
  lpm : LpmIdx := {}
  ulpm : LpmIdx := {}
  trackers : List Nat := []          -- ids of registered delete trackers
  init : Option (List String) := none
  gen : Nat := 0                     -- bumped by every commit that changed the revision index
  locked : Bool := false
  revDirty : Bool := false
  deriving Inhabited

def revKey (r : Nat) : Key := be 8 r

/-! ### initializers (table.go: Initialized / PendingInitializers / RegisterInitializer) -/

/-- `Initialized(txn)` and `PendingInitializers(txn)` of the model -/
def tblInitialized (t : TableS) : Bool := (t.init.getD []).isEmpty
def tblPending (t : TableS) : List String := t.init.getD []

/-- register: the name becomes pending -/
def tblRegister (t : TableS) (name : String) : TableS := { t with init := some ((t.init.getD []) ++ [name]) }
/-- mark done (idempotent on the pending list) -/
def tblMarkDone (t : TableS) (name : String) : TableS :=
  match t.init with
  | some p => { t with init := some (p.filter (· ≠ name)) }
  | none => t



/-! ### index maintenance (partIndexTxn.reindex, lpmIndexTxn.reindex) -/

def reindexUnique (idx : OMap Obj) (old new : Option Obj) (keys : Obj → List Key) : OMap Obj :=
  let newKeys := match new with | some n => keys n | none => []
  let idx := match new with
    | some n => newKeys.foldl (fun m k => m.insert k n) idx
    | none => idx
  match old with
  | some o => (keys o).foldl (fun m k => if newKeys.contains k then m else m.erase k) idx
  | none => idx

def reindexNonUnique (idx : OMap Obj) (idKey : Key) (old new : Option Obj) (keys : Obj → List Key) : OMap Obj :=
  let newKeys := match new with | some n => keys n | none => []
  let idx := match new with
    | some n => newKeys.foldl (fun m k => m.insert (P.composite idKey k) n) idx
    | none => idx
  match old with
  | some o => (keys o).foldl (fun m k => if newKeys.contains k then m else m.erase (P.composite idKey k)) idx
  | none => idx

/-- lpmEntry.upsert -/
def entryUpsert (e : LpmEntry) (pk : Key) (o : Obj) : LpmEntry :=
  match e with
  | [] => [(pk, o)]
  | (k, v) :: r => match cmpL pk k with
    | .eq => (pk, o) :: r
    | .lt => (pk, o) :: (k, v) :: r
    | .gt => (k, v) :: entryUpsert r pk o

def entryDelete (e : LpmEntry) (pk : Key) : LpmEntry := e.filter fun (k, _) => k != pk

/-- lpmIndexTxn.insertKey -/
def lpmInsertKey (unique : Bool) (ix : LpmIdx) (pk : Key) (key : Key × Nat) (o : Obj) : LpmIdx :=
  let (d, l) := key
  let d := Lpm.maskData d l
  let cur := (Lpm.lookupExact d l ix.t 0).getD []
  let e := if unique then [(pk, o)] else entryUpsert cur pk o
  { t := (Lpm.insert d l e ix.t 0).1 }

/-- lpmIndexTxn.removeKey -/
def lpmRemoveKey (ix : LpmIdx) (pk : Key) (key : Key × Nat) : LpmIdx :=
  let (d, l) := key
  let d := Lpm.maskData d l
  match Lpm.lookupExact d l ix.t 0 with
  | none => ix
  | some e =>
    if e.length = 1 then
      match e with
      | [(k, _)] => if k == pk then { t := ((Lpm.deleteRoot d l ix.t).map (·.1)).getD ix.t } else ix
      | _ => ix
    else
      let e' := entryDelete e pk
      if e'.length = e.length then ix
      else if e'.isEmpty then { t := ((Lpm.deleteRoot d l ix.t).map (·.1)).getD ix.t }
      else { t := (Lpm.insert d l e' ix.t 0).1 }

def normKey (k : Key × Nat) : Key × Nat := (Lpm.maskData k.1 k.2, k.2)

def reindexLpm (unique : Bool) (ix : LpmIdx) (pk : Key) (old new : Option Obj) (keys : Obj → List (Key × Nat)) : LpmIdx :=
  let newKeys := match new with | some n => (keys n).map normKey | none => []
  let ix := match new with
    | some n => newKeys.foldl (fun ix k => lpmInsertKey unique ix pk k n) ix
    | none => ix
  match old with
  | some o => ((keys o).map normKey).foldl (fun ix k => if newKeys.contains k then ix else lpmRemoveKey ix pk k) ix
  | none => ix

def reindexAll (t : TableS) (old new : Option Obj) (idKey : Key) : TableS :=
  let t := { t with tagIdx := reindexNonUnique t.tagIdx idKey old new (·.tags) }
  if t.full then
    { t with
      uIdx := reindexUnique t.uIdx old new (fun o => [o.ukey])
      lpm := reindexLpm false t.lpm idKey old new (·.pfxs)
      ulpm := reindexLpm true t.ulpm idKey old new (·.upKey) }
  else t

/-! ### writes (writeTxnState.modify / delete) -/

inductive Err where
  | ok | notLocked | closed | notFound | revNotEqual
  deriving Repr, DecidableEq, Inhabited

def Err.str : Err → String
  | .ok => "ok" | .notLocked => "notLocked" | .closed => "closed"
  | .notFound => "notFound" | .revNotEqual => "revNotEqual"

/-- `modify(meta, guard, obj, merge)`: returns the table, the old object, the error -/
def modify (t : TableS) (guard : Nat) (o : Obj) (merge : Bool) : TableS × Option Obj × Err :=
  if !t.locked then (t, none, .notLocked) else
  let rev := t.rev + 1
  let old := t.primary.get o.id
  let newObj : Obj :=
    match old, merge with
    | some oo, true => { o with rev, val := oo.val + o.val }
    | _, _ => { o with rev }
  if guard > 0 ∧ old.isNone then (t, none, .notFound)
  else if guard > 0 ∧ (old.map (·.rev)) ≠ some guard then (t, old, .revNotEqual)
  else
    let t := { t with rev, revDirty := true, primary := t.primary.insert o.id newObj }
    let revIdx := match old with | some oo => t.revIdx.erase (revKey oo.rev) | none => t.revIdx
    let t := { t with revIdx := revIdx.insert (revKey rev) newObj }
    let t := match old with
      | some _ => t
      | none =>
        match t.grave.get o.id with
        | some g => { t with grave := t.grave.erase o.id, graveRev := t.graveRev.erase (revKey g.rev) }
        | none => t
    (reindexAll t old (some newObj) o.id, old, .ok)

/-- `delete(meta, guard, obj)` -/
def delete (t : TableS) (guard : Nat) (id : Key) : TableS × Option Obj × Err :=
  if !t.locked then (t, none, .notLocked) else
  match t.primary.get id with
  | none => (t, none, .ok)
  | some old =>
    if guard > 0 ∧ old.rev ≠ guard then (t, some old, .revNotEqual)
    else
      let rev := t.rev + 1
      let t := { t with rev, revDirty := true, primary := t.primary.erase id, revIdx := t.revIdx.erase (revKey old.rev) }
      let t := reindexAll t (some old) none id
      let t :=
        if t.trackers.isEmpty then t
        else
          let dead := { old with rev }
          { t with grave := t.grave.insert id dead, graveRev := t.graveRev.insert (revKey rev) dead }
      (t, some old, .ok)

/-- `DeleteAll`: iterates the primary index as it was at the start -/
def deleteAll (t : TableS) : TableS × Err :=
  if !t.locked then (t, if t.primary.isEmpty then .ok else .notLocked) else
  (t.primary.foldl (fun t (id, _) => (delete t 0 id).1) t, .ok)

/-! ### queries -/

inductive Idx where
  | id | u | tags | lpm | ulpm | rev
  deriving Repr, DecidableEq, Inhabited

def nukSecLen (k : Key) : Int := nukSecondaryLen k

/-- partGet / lpmIndex.get -/
def qGet (t : TableS) (ix : Idx) (key : Key) (plen : Nat) : Option Obj :=
  match ix with
  | .id => t.primary.get key
  | .u => t.uIdx.get key
  | .rev => t.revIdx.get key
  | .tags =>
    let sk := P.enc key
    ((t.tagIdx.prefixQ sk).find? fun (k, _) => nukSecLen k == (sk.length : Int)).map (·.2)
  | .lpm => (Lpm.lookup (Lpm.maskData key plen) plen t.lpm.t 0 none) >>= fun e => e.head?.map (·.2)
  | .ulpm => (Lpm.lookup (Lpm.maskData key plen) plen t.ulpm.t 0 none) >>= fun e => e.head?.map (·.2)

def dedupPrimary (es : List (Key × Obj)) : List Obj :=
  (es.foldl (fun (acc : List Key × List Obj) (k, o) =>
      let p := nukEncodedPrimary k
      if acc.1.contains p then acc else (p :: acc.1, o :: acc.2)) ([], [])).2.reverse

def lpmObjs (es : List (Key × Nat × LpmEntry)) : List Obj := es.flatMap fun (_, _, e) => e.map (·.2)

def qList (t : TableS) (ix : Idx) (key : Key) (plen : Nat) : List Obj :=
  match ix with
  | .id | .u | .rev => (qGet t ix key plen).toList
  | .tags =>
    let sk := P.enc key
    ((t.tagIdx.prefixQ sk).filter fun (k, _) => nukSecLen k == (sk.length : Int)).map (·.2)
  | .lpm => ((Lpm.lookup (Lpm.maskData key plen) plen t.lpm.t 0 none).getD []).map (·.2)
  | .ulpm => ((Lpm.lookup (Lpm.maskData key plen) plen t.ulpm.t 0 none).getD []).map (·.2)

def qPrefix (t : TableS) (ix : Idx) (key : Key) (plen : Nat) : List Obj :=
  match ix with
  | .id => (t.primary.prefixQ key).map (·.2)
  | .u => (t.uIdx.prefixQ key).map (·.2)
  | .rev => (t.revIdx.prefixQ key).map (·.2)
  | .tags =>
    let sk := P.enc key
    dedupPrimary ((t.tagIdx.prefixQ sk).filter fun (k, _) => decide (nukSecLen k ≥ (sk.length : Int)))
  | .lpm => lpmObjs (Lpm.preorder (Lpm.prefixNode (Lpm.maskData key plen) plen t.lpm.t 0))
  | .ulpm => lpmObjs (Lpm.preorder (Lpm.prefixNode (Lpm.maskData key plen) plen t.ulpm.t 0))

def qLowerBound (t : TableS) (ix : Idx) (key : Key) (plen : Nat) : List Obj :=
  match ix with
  | .id => (t.primary.lowerBound key).map (·.2)
  | .u => (t.uIdx.lowerBound key).map (·.2)
  | .rev => (t.revIdx.lowerBound key).map (·.2)
  | .tags =>
    let sk := P.enc key
    dedupPrimary ((t.tagIdx.lowerBound sk).filter fun (k, _) => cmpL (nukEncodedSecondary k) sk != .lt)
  | .lpm => lpmObjs (Lpm.lowerBound (Lpm.maskData key plen) plen t.lpm.t 0 [])
  | .ulpm => lpmObjs (Lpm.lowerBound (Lpm.maskData key plen) plen t.ulpm.t 0 [])

def qAll (t : TableS) : List Obj := t.primary.map (·.2)
def numObjects (t : TableS) : Nat := t.revIdx.length

/-! ### database, transactions, change iterators, graveyard -/

structure Change where
  obj : Obj
  rev : Nat
  deleted : Bool
  deriving Repr, Inhabited

structure ChangeIter where
  table : Nat
  revision : Nat
  deleteRevision : Nat
  tracker : Nat
  pending : Option (List Change)     -- `it.iter` (none = exhausted)
  watchGen : Option Nat              -- none = the initial closedWatchChannel
  closed : Bool := false
  base : Nat := 0                    -- table revision when the iterator was created (baseRevision)
  deriving Inhabited

structure DB where
  root : List TableS := []
  wtxn : Option (List TableS) := none     -- txn.tableEntries
  oldRoot : List TableS := []             -- txn.oldRoot (committedRoot of the write txn)
  trackerRev : List (Nat × Nat) := []     -- deleteTracker.revision (shared, not versioned)
  nextTracker : Nat := 1
  iters : Array ChangeIter := #[]
  gcDead : List (Nat × List Key) := []    -- result of a paused collector scan
  gcPaused : Bool := false
  gcTrig : Bool := false                  -- a collection trigger is pending (mark / close)
  deriving Inhabited

def DB.trackerRevOf (db : DB) (id : Nat) : Nat := ((db.trackerRev.find? (·.1 = id)).map (·.2)).getD 0
def DB.setTrackerRev (db : DB) (id r : Nat) : DB :=
  { db with trackerRev := (id, r) :: db.trackerRev.filter (·.1 ≠ id) }

def newDB : DB := { root := [{ full := true }, { full := false }] }

/-- `db.WriteTxn(tables...)` -/
def DB.beginW (db : DB) (lockM lockA : Bool) : DB :=
  let es := db.root.mapIdx fun i t => { t with locked := (if i = 0 then lockM else lockA), revDirty := false }
  { db with wtxn := some es, oldRoot := db.root }

/-- Commit: locked tables replace the root's entries; init handling -/
def DB.commit (db : DB) : DB :=
  match db.wtxn with
  | none => db
  | some es =>
    let root := (es.zip db.root).map fun (e, cur) =>
      if e.locked then
        let init := match e.init with | some [] => none | i => i
        { e with locked := false, revDirty := false, init, gen := if e.revDirty then e.gen + 1 else e.gen }
      else cur
    { db with root, wtxn := none }

def DB.abort (db : DB) : DB := { db with wtxn := none }

def mergeChanges : List Change → List Change → List Change
  | [], r => r
  | l, [] => l
  | l :: ls, r :: rs =>
    if l.rev ≤ r.rev then l :: mergeChanges ls (r :: rs) else r :: mergeChanges (l :: ls) rs
termination_by l r => l.length + r.length

/-- the snapshot predates the creation of the iterator (the creating write
    transaction is not committed yet): `refresh` delivers nothing from it -/
def ChangeIter.stale (it : ChangeIter) (committed : List TableS) : Bool :=
  decide ((committed.getD it.table default).rev < it.base)

/-- `changeIterator.refresh(txn)`; `committed`/`current` are committedRoot()/root() of the txn -/
def ChangeIter.refresh (it : ChangeIter) (committed current : List TableS) (fixedF3 : Bool) : ChangeIter :=
  let tc := committed.getD it.table default
  if it.stale committed then { it with pending := none, watchGen := some tc.gen } else
  let td := if fixedF3 then tc else current.getD it.table default
  let ups := (tc.revIdx.lowerBound (revKey (it.revision + 1))).map fun (_, o) => ({ obj := o, rev := o.rev, deleted := false } : Change)
  let dels := (td.graveRev.lowerBound (revKey (it.deleteRevision + 1))).map fun (_, o) => ({ obj := o, rev := o.rev, deleted := true } : Change)
  { it with pending := some (mergeChanges dels ups), watchGen := some tc.gen }

/-- lock-free scan of the collector on the committed root -/
def gcScan (db : DB) : List (Nat × List Key) :=
  (db.root.mapIdx fun i t =>
    let lw := t.trackers.foldl (fun lw id => min lw (db.trackerRevOf id)) t.rev
    (i, (t.graveRev.takeWhile fun (_, o) => o.rev ≤ lw).map (·.1))).filter fun (_, ks) => !ks.isEmpty

/-- the collector's write transaction -/
def gcApply (db : DB) (dead : List (Nat × List Key)) : DB :=
  let root := db.root.mapIdx fun i t =>
    match dead.find? (·.1 = i) with
    | none => t
    | some (_, ks) =>
      ks.foldl (fun t k =>
        match t.graveRev.get k with
        | some o => { t with graveRev := t.graveRev.erase k, grave := t.grave.erase o.id }
        | none => t) t
  { db with root }

end Sdb.Tbl
