/-
  Model.Enc — byte-level model of statedb's key encodings (layer L1a).

  Source modelled:
    part_index.go   appendEncode / encodedLength / encodeNonUniqueBytes /
                    encodeNonUniqueKey / nonUniqueKey.{primaryLen,secondaryLen,
                    encodedPrimary,encodedSecondary}
    index/int.go    Uint16/32/64, Int16/32/64, Int
    index/bool.go   Bool
    lpm/key.go      EncodeLPMKey / DecodeLPMKey

  Bytes are `Nat` (well-formedness `< 256` is an explicit hypothesis where
  arithmetic needs it); keys are `List Nat`.  Core Lean only.
-/
namespace Sdb

abbrev Key := List Nat

/-- `bytes.Compare`. -/
def cmpL : List Nat → List Nat → Ordering
  | [], [] => .eq
  | [], _ :: _ => .lt
  | _ :: _, [] => .gt
  | a :: as, b :: bs => if a < b then .lt else if b < a then .gt else cmpL as bs

/-- `bytes.HasPrefix k p`. -/
def hasPrefix : List Nat → List Nat → Bool
  | _, [] => true
  | [], _ :: _ => false
  | a :: as, b :: bs => a == b && hasPrefix as bs

/-- The constants of the escape scheme, regenerated from part_index.go by
    tools/extract (Generated/EncParams.lean). -/
structure EncParams where
  sep : Nat      -- nonUniqueSeparator
  sub : Nat      -- nonUniqueSubstitute
  escSep : List Nat   -- bytes appended for `case nonUniqueSeparator`
  escSub : List Nat   -- bytes appended for `case nonUniqueSubstitute`
  deriving Repr, DecidableEq

/-- What the proofs need from the constants (decidable; discharged by `decide`
    on the generated instance). -/
def EncParams.WellFormed (P : EncParams) : Prop :=
  P.sep = 0 ∧ P.sub = 1 ∧
  ∃ x y, P.escSep = [P.sub, x] ∧ P.escSub = [P.sub, y] ∧ 0 < x ∧ x < y ∧ y < 256

def EncParams.wf (P : EncParams) : Bool :=
  P.sep == 0 && P.sub == 1 &&
  match P.escSep, P.escSub with
  | [s1, x], [s2, y] => s1 == P.sub && s2 == P.sub && decide (0 < x) && decide (x < y) && decide (y < 256)
  | _, _ => false

namespace EncParams
variable (P : EncParams)

/-- one iteration of the `switch b` in appendEncode -/
def encByte (b : Nat) : List Nat :=
  if b = P.sep then P.escSep else if b = P.sub then P.escSub else [b]

/-- `appendEncode(nil, src)` (second result) -/
def enc : Key → List Nat
  | [] => []
  | b :: bs => P.encByte b ++ enc bs

/-- `encodedLength` -/
def encodedLength : Key → Nat
  | [] => 0
  | b :: bs => (if b = P.sep ∨ b = P.sub then 2 else 1) + encodedLength bs

end EncParams

/-- big-endian `w`-byte encoding of `n` (truncating, like a Go conversion to
    the w-byte unsigned type followed by binary.BigEndian.AppendUintN). -/
def be : (w : Nat) → Nat → List Nat
  | 0, _ => []
  | w + 1, n => be w (n / 256) ++ [n % 256]

/-- decode big-endian bytes -/
def unbe : List Nat → Nat
  | bs => bs.foldl (fun acc b => acc * 256 + b) 0

/-- `encodeNonUniqueKey(primary, secondary)`:
    enc secondary ++ [0x00] ++ enc primary ++ uint16(len(enc primary)) -/
def EncParams.composite (P : EncParams) (primary secondary : Key) : List Nat :=
  P.enc secondary ++ [P.sep] ++ P.enc primary ++ be 2 ((P.enc primary).length)

/-- `nonUniqueKey.primaryLen` -/
def nukPrimaryLen (k : List Nat) : Nat :=
  if k.length ≤ 3 then 0 else unbe (k.drop (k.length - 2))

/-- `nonUniqueKey.secondaryLen` (Go `int`, may be negative on malformed keys;
    modelled on Int) -/
def nukSecondaryLen (k : List Nat) : Int :=
  (k.length : Int) - (nukPrimaryLen k : Int) - 3

/-- `nonUniqueKey.encodedPrimary`: k[len-2-primaryLen : len-2] -/
def nukEncodedPrimary (k : List Nat) : List Nat :=
  let pl := nukPrimaryLen k
  (k.take (k.length - 2)).drop (k.length - 2 - pl)

/-- `nonUniqueKey.encodedSecondary`: k[:secondaryLen] -/
def nukEncodedSecondary (k : List Nat) : List Nat :=
  k.take (nukSecondaryLen k).toNat

/-! ### integer / bool encoders (index/int.go, index/bool.go) -/

/-- two's complement of an `Int` in `w` bytes -/
def twos (w : Nat) (i : Int) : Nat := (i % (256 ^ w : Nat)).toNat

def encUint (w : Nat) (n : Nat) : List Nat := be w n
def encInt (w : Nat) (i : Int) : List Nat := be w (twos w i)

/-- Width (in bytes) of the unsigned encoder that `index.Int` ends up in —
    regenerated from index/int.go (`Int(n) = Int32(int32(n))` gives 4) — and
    the width of Go's `int` on the platform (8). -/
structure IntParams where
  intDelegateBytes : Nat
  platformIntBytes : Nat
  deriving Repr, DecidableEq

def encPlatformInt (I : IntParams) (i : Int) : List Nat := encInt I.intDelegateBytes i

def encBool (b : Bool) : List Nat := if b then [84] else [70]   -- 'T' / 'F'

/-! ### LPM keys (lpm/key.go) -/

/-- 0xff << (8 - rem), truncated to a byte -/
def lpmMask (rem : Nat) : Nat := (255 * 2 ^ (8 - rem)) % 256

/-- EncodeLPMKey(data, prefixLen); `none` models the panic when data is too short. -/
def encodeLPM (data : List Nat) (prefixLen : Nat) : Option (List Nat) :=
  let dataLen := (prefixLen + 7) / 8
  if dataLen > data.length then none else
  let d := data.take dataLen
  let d :=
    if dataLen > 0 ∧ prefixLen % 8 ≠ 0 then
      d.take (dataLen - 1) ++ [Nat.land (d.getD (dataLen - 1) 0) (lpmMask (prefixLen % 8))]
    else d
  some (d ++ be 2 prefixLen)

/-- DecodeLPMKey(key); `none` models the panics. -/
def decodeLPM (key : List Nat) : Option (List Nat × Nat) :=
  if key.length < 2 then none else
  let data := key.take (key.length - 2)
  let pl := unbe (key.drop (key.length - 2))
  if (pl + 7) / 8 > data.length then none else some (data, pl)

end Sdb
