import SdbModel.Model.Enc
/-!
  Model.Art — executable model of `part` (persistent adaptive radix tree):
  part/txn.go (insert/modify/delete/removeChild/cloneNode, Txn API),
  part/node.go (node kinds, promote, search), part/iterator.go (prefixSearch,
  lowerbound, iteration), part/tree.go.

  Representation: children of every inner node kind are one sorted association
  list `Kids` (byte ↦ child); the node kind (4/16/48/256) is kept as a field and
  decides promotion / demotion exactly as in the code.  Watch channels are
  natural numbers (0 = nil) drawn from a counter; `St.pending` is `txn.watches`.
  Go's "mutate in place iff node.txn = txn.txnID" is followed at every write
  site for the `watch` and `txn` fields (values are immutable here, so the
  aliasing half of that decision is the subject of Model.Cow, not of this file).
  Core Lean only; every function is total and structurally recursive.
-/
namespace Sdb.Art

structure LeafD where
  key : List Nat
  val : Nat
  watch : Nat
  deriving Repr, DecidableEq, Inhabited

mutual
inductive Node where
  /-- `leaf[T]` used as a child: header prefix + leaf data (one watch) -/
  | leaf (pfx : List Nat) (d : LeafD)
  /-- node4/16/48/256: kind = capacity -/
  | inner (kind : Nat) (pfx : List Nat) (lf : Option LeafD) (kids : Kids) (watch : Nat) (txn : Nat)
inductive Kids where
  | nil
  | cons (b : Nat) (n : Node) (rest : Kids)
end

instance : Inhabited Node := ⟨.leaf [] default⟩

/-- per-transaction mutable state threaded through the write operations -/
structure St where
  txnID : Nat
  nextW : Nat
  pending : List Nat     -- txn.watches (set; 0 never recorded)
  rootOnly : Bool
  deriving Repr, Inhabited

namespace St
def record (st : St) (w : Nat) : St :=
  if w = 0 ∨ w ∈ st.pending then st else { st with pending := w :: st.pending }
/-- `make(chan struct{})` unless root-only-watch mode -/
def fresh (st : St) : St × Nat :=
  if st.rootOnly then (st, 0) else ({ st with nextW := st.nextW + 1 }, st.nextW)
/-- `if old != nil { make(chan) }` (promote / demote) -/
def freshIf (st : St) (old : Nat) : St × Nat :=
  if old = 0 then (st, 0) else ({ st with nextW := st.nextW + 1 }, st.nextW)
end St

namespace Kids
def size : Kids → Nat
  | .nil => 0
  | .cons _ _ r => r.size + 1

def find (b : Nat) : Kids → Option Node
  | .nil => none
  | .cons c n r => if c = b then some n else if c < b then find b r else none

/-- sorted insert (caller guarantees `b` absent) -/
def insert (b : Nat) (n : Node) : Kids → Kids
  | .nil => .cons b n .nil
  | .cons c m r => if b < c then .cons b n (.cons c m r) else .cons c m (insert b n r)

def set (b : Nat) (n : Node) : Kids → Kids
  | .nil => .nil
  | .cons c m r => if c = b then .cons c n r else .cons c m (set b n r)

def erase (b : Nat) : Kids → Kids
  | .nil => .nil
  | .cons c m r => if c = b then r else .cons c m (erase b r)

def first : Kids → Option Node
  | .nil => none
  | .cons _ n _ => some n
end Kids

namespace Node
def pfx : Node → List Nat
  | .leaf p _ => p
  | .inner _ p _ _ _ _ => p
def isLeaf : Node → Bool
  | .leaf _ _ => true
  | _ => false
def watch : Node → Nat
  | .leaf _ d => d.watch
  | .inner _ _ _ _ w _ => w
def txn : Node → Nat
  | .leaf _ _ => 0          -- header.txnID() of a leaf is 0
  | .inner _ _ _ _ _ t => t
def getLeaf : Node → Option LeafD
  | .leaf _ d => some d
  | .inner _ _ lf _ _ _ => lf
def size : Node → Nat
  | .leaf _ _ => 0
  | .inner _ _ _ k _ _ => k.size
def setPfx (p : List Nat) : Node → Node
  | .leaf _ d => .leaf p d
  | .inner k _ lf kids w t => .inner k p lf kids w t
def setWatch (w : Nat) : Node → Node
  | .leaf p d => .leaf p { d with watch := w }
  | .inner k p lf kids _ t => .inner k p lf kids w t
end Node

/-- thresholds of the node kinds, regenerated from part/node.go + txn.go -/
structure ArtParams where
  caps : List Nat               -- [4, 16, 48, 256]
  demoteAt : List (Nat × Nat)   -- (kind, size ≤ threshold ⇒ demote): [(256,49),(48,17),(16,5)]
  deriving Repr, DecidableEq

def defaultParams : ArtParams := { caps := [4, 16, 48, 256], demoteAt := [(256, 49), (48, 17), (16, 5)] }

def nextKind (P : ArtParams) (k : Nat) : Nat :=
  match P.caps.find? (· > k) with
  | some c => c
  | none => k
def prevKind (P : ArtParams) (k : Nat) : Nat :=
  match (P.caps.filter (· < k)).getLast? with
  | some c => c
  | none => k

/-- `txn.cloneNode(n)` -/
def cloneNode (st : St) (n : Node) : St × Node :=
  if n.txn = st.txnID then (st, n)
  else
    let st := st.record n.watch
    let (st, w) := st.fresh
    match n with
    | .leaf p d => (st, .leaf p { d with watch := w })
    | .inner k p lf kids _ _ => (st, .inner k p lf kids w st.txnID)

/-- `txn.cloneNode(leaf.self()).getLeaf()` for the leaf hanging off an inner node -/
def cloneLeafD (st : St) (d : LeafD) : St × LeafD :=
  if 0 = st.txnID then (st, d)
  else
    let st := st.record d.watch
    let (st, w) := st.fresh
    (st, { d with watch := w })

def newLeafD (st : St) (full : List Nat) (val : Nat) : St × LeafD :=
  let (st, w) := st.fresh
  (st, { key := full, val := val, watch := w })

def commonPrefix : List Nat → List Nat → List Nat
  | a :: as, b :: bs => if a = b then a :: commonPrefix as bs else []
  | _, _ => []

structure InsRes where
  st : St
  node : Node
  old : Option Nat
  newVal : Nat
  watch : Nat

/-- the code after the descent loop of `modify`: `n` is the node where the loop
    stopped (not yet cloned), `key` the remaining key -/
def insAt (P : ArtParams) (st : St) (n : Node) (key full : List Nat) (val : Nat)
    (mod : Option (Nat → Nat → Nat)) : InsRes :=
  let common := commonPrefix key n.pfx
  if key.length = common.length ∧ key.length = n.pfx.length then
    -- exact match
    let (st, n) := cloneNode st n
    match n with
    | .leaf p d =>
      let nv := match mod with | some f => f d.val val | none => val
      { st, node := .leaf p { d with val := nv }, old := some d.val, newVal := nv, watch := d.watch }
    | .inner k p (some d) kids w t =>
      let (st, d) := cloneLeafD st d
      let nv := match mod with | some f => f d.val val | none => val
      { st, node := .inner k p (some { d with val := nv }) kids w t, old := some d.val, newVal := nv, watch := d.watch }
    | .inner k p none kids w t =>
      let (st, d) := newLeafD st full val
      { st, node := .inner k p (some d) kids w t, old := none, newVal := val, watch := d.watch }
  else
    -- partial match: fork with a new node4
    let (st, this) :=
      match n with
      | .leaf p d => (st, Node.leaf p d)           -- shallow copy, keeps its watch
      | _ => cloneNode st n
    let this := this.setPfx (this.pfx.drop common.length)
    let key := key.drop common.length
    let (st, d) := newLeafD st full val
    let (st, w) := st.fresh
    let k4 := P.caps.headD 4
    let node :=
      match this.pfx, key with
      | [], _ =>
        -- target has shorter key than new leaf
        Node.inner k4 common this.getLeaf (.cons (key.headD 0) (.leaf key d) .nil) w st.txnID
      | tb :: _, [] =>
        Node.inner k4 common (some d) (.cons tb this .nil) w st.txnID
      | tb :: _, kb :: _ =>
        if tb < kb then Node.inner k4 common none (.cons tb this (.cons kb (.leaf key d) .nil)) w st.txnID
        else Node.inner k4 common none (.cons kb (.leaf key d) (.cons tb this .nil)) w st.txnID
    { st, node, old := none, newVal := val, watch := d.watch }

mutual
/-- `txn.modify` from node `n` with remaining key `key` -/
def insNode (P : ArtParams) (st : St) (n : Node) (key full : List Nat) (val : Nat)
    (mod : Option (Nat → Nat → Nat)) : InsRes :=
  match n with
  | .leaf _ _ => insAt P st n key full val mod
  | .inner kind pfx lf kids w t =>
    if key ≠ [] ∧ hasPrefix key pfx ∧ key.length ≠ pfx.length then
      let key' := key.drop pfx.length
      let b := key'.headD 0
      match insKids P st kids b key' full val mod with
      | some (r, kids') =>
        -- existing child: parent cloned, child replaced
        let (st, this) := cloneNode r.st (.inner kind pfx lf kids' w t)
        { r with st, node := this }
      | none =>
        -- free slot
        let (st, d) := newLeafD st full val
        let child := Node.leaf key' d
        if kids.size + 1 > kind then
          let st := st.record w
          let (st, w') := st.freshIf w
          { st, node := .inner (nextKind P kind) pfx lf (kids.insert b child) w' st.txnID,
            old := none, newVal := val, watch := d.watch }
        else
          let (st, this) := cloneNode st (.inner kind pfx lf (kids.insert b child) w t)
          { st, node := this, old := none, newVal := val, watch := d.watch }
    else insAt P st n key full val mod
def insKids (P : ArtParams) (st : St) (kids : Kids) (b : Nat) (key full : List Nat) (val : Nat)
    (mod : Option (Nat → Nat → Nat)) : Option (InsRes × Kids) :=
  match kids with
  | .nil => none
  | .cons c n rest =>
    if c = b then
      let r := insNode P st n key full val mod
      some (r, .cons c r.node rest)
    else if c < b then
      match insKids P st rest b key full val mod with
      | some (r, rest') => some (r, .cons c n rest')
      | none => none
    else none
end

/-- what a deletion did to the node it was applied to -/
inductive DelRes where
  | notFound
  | replaced (st : St) (n : Node) (old : Nat)
  | removed (st : St) (old : Nat)

/-- `child.clone(false)` with the watch kept and the parent's prefix prepended -/
def mergeUp (parentPfx : List Nat) (child : Node) : Node :=
  child.setPfx (parentPfx ++ child.pfx)

/-- `txn.removeChild(parent, index)`; `parent` is given by its fields -/
def removeChild (P : ArtParams) (st : St) (kind : Nat) (pfx : List Nat) (lf : Option LeafD) (kids : Kids)
    (w t : Nat) (b : Nat) : St × Node :=
  let size := kids.size
  if size = 2 ∧ lf.isNone then
    let st := st.record w
    match (kids.erase b).first with
    | some child => (st, mergeUp pfx child)
    | none => (st, .inner kind pfx lf (kids.erase b) w t)   -- unreachable
  else if (P.demoteAt.any fun (k, thr) => k = kind ∧ size ≤ thr) then
    let (st, w') := st.freshIf w
    let st := st.record w
    (st, .inner (prevKind P kind) pfx lf (kids.erase b) w' st.txnID)
  else
    let (st, this) := cloneNode st (.inner kind pfx lf (kids.erase b) w t)
    (st, this)

/-- the target node of a delete (key fully consumed at `n`) -/
def delAt (st : St) (n : Node) : DelRes :=
  match n.getLeaf with
  | none => .notFound
  | some d =>
    let st := st.record d.watch
    match n with
    | .leaf _ _ => .removed (st.record n.watch) d.val
    | .inner kind pfx _ kids w t =>
      if kids.size = 1 then
        let st := st.record w
        match kids.first with
        | some child => .replaced st (mergeUp pfx child) d.val
        | none => .notFound
      else if kids.size > 0 then
        let (st, this) := cloneNode st (.inner kind pfx none kids w t)
        .replaced st this d.val
      else .removed (st.record w) d.val

mutual
def delNode (P : ArtParams) (st : St) (n : Node) (key : List Nat) : DelRes :=
  if hasPrefix key n.pfx then
    let key' := key.drop n.pfx.length
    match key' with
    | [] => delAt st n
    | b :: _ =>
      match n with
      | .leaf _ _ => .notFound
      | .inner kind pfx lf kids w t =>
        match delKids P st kids b key' with
        | none => .notFound
        | some (.notFound, _) => .notFound
        | some (.replaced st' _ old, kids') =>
          let (st', this) := cloneNode st' (.inner kind pfx lf kids' w t)
          .replaced st' this old
        | some (.removed st' old, _) =>
          let (st', this) := removeChild P st' kind pfx lf kids w t b
          .replaced st' this old
  else .notFound
/-- returns the child's result and the kids with that child replaced (when replaced) -/
def delKids (P : ArtParams) (st : St) (kids : Kids) (b : Nat) (key : List Nat) : Option (DelRes × Kids) :=
  match kids with
  | .nil => none
  | .cons c n rest =>
    if c = b then
      match delNode P st n key with
      | .replaced st' n' old => some (.replaced st' n' old, .cons c n' rest)
      | r => some (r, .cons c n rest)
    else if c < b then
      match delKids P st rest b key with
      | some (r, rest') => some (r, .cons c n rest')
      | none => none
    else none
end

/-! ### reads -/

mutual
/-- in-order entries of a subtree (leaf of the node first, then children) -/
def entries : Node → List (List Nat × Nat)
  | .leaf _ d => [(d.key, d.val)]
  | .inner _ _ lf kids _ _ =>
    (match lf with | some d => [(d.key, d.val)] | none => []) ++ entriesK kids
def entriesK : Kids → List (List Nat × Nat)
  | .nil => []
  | .cons _ n r => entries n ++ entriesK r
end

mutual
/-- `search(root, rootWatch, key)`; `w` is the closest watch so far -/
def searchNode (n : Node) (w : Nat) (key : List Nat) : Option Nat × Nat :=
  if hasPrefix key n.pfx then
    let key' := key.drop n.pfx.length
    match key' with
    | [] =>
      match n.getLeaf with
      | some d => (some d.val, if d.watch ≠ 0 then d.watch else w)
      | none => (none, w)
    | b :: _ =>
      match n with
      | .leaf _ _ => (none, w)
      | .inner _ _ _ kids nw _ =>
        let w := if nw ≠ 0 then nw else w
        searchK kids b w key'
  else (none, w)
def searchK (kids : Kids) (b : Nat) (w : Nat) (key : List Nat) : Option Nat × Nat :=
  match kids with
  | .nil => (none, w)
  | .cons c n r => if c = b then searchNode n w key else if c < b then searchK r b w key else (none, w)
end

mutual
/-- `prefixSearch(root, rootWatch, prefix)`: entries of the matching subtree and the watch -/
def prefixNode (n : Node) (w : Nat) (p : List Nat) : List (List Nat × Nat) × Nat :=
  let cp := n.pfx.take (min p.length n.pfx.length)
  if !(hasPrefix p cp) then ([], w)
  else
    let w := if !n.isLeaf ∧ n.watch ≠ 0 then n.watch else w
    let p' := p.drop cp.length
    match p' with
    | [] => (entries n, w)
    | b :: _ =>
      match n with
      | .leaf _ _ => ([], w)
      | .inner _ _ _ kids _ _ => prefixK kids b w p'
def prefixK (kids : Kids) (b : Nat) (w : Nat) (p : List Nat) : List (List Nat × Nat) × Nat :=
  match kids with
  | .nil => ([], w)
  | .cons c n r => if c = b then prefixNode n w p else if c < b then prefixK r b w p else ([], w)
end

mutual
/-- `lowerbound(start, key)` as the list the iterator will yield -/
def lbNode (n : Node) (key : List Nat) : List (List Nat × Nat) :=
  match cmpL n.pfx (key.take (min key.length n.pfx.length)) with
  | .lt => []
  | .gt => entries n
  | .eq =>
    if n.pfx.length = key.length then entries n
    else
      let key' := key.drop n.pfx.length
      match n with
      | .leaf _ _ => []
      | .inner _ _ _ kids _ _ => lbK kids (key'.headD 0) key'
def lbK (kids : Kids) (b : Nat) (key : List Nat) : List (List Nat × Nat) :=
  match kids with
  | .nil => []
  | .cons c n r => if c < b then lbK r b key else lbNode n key ++ entriesK r
end

/-! ### structure dump (compared with part.VerifDump of the implementation) -/

def hexd (n : Nat) : Char :=
  if n < 10 then Char.ofNat (48 + n) else Char.ofNat (87 + n)
def hex (k : List Nat) : String :=
  String.ofList (k.flatMap fun b => [hexd (b / 16 % 16), hexd (b % 16)])

mutual
def dump : Node → String
  | .leaf p d => s!"L{hex p}:{hex d.key}"
  | .inner k p lf kids _ _ =>
    let l := match lf with | some d => ":" ++ hex d.key | none => ""
    s!"N{k}/{hex p}{l}({dumpK kids})"
def dumpK : Kids → String
  | .nil => ""
  | .cons _ n .nil => dump n
  | .cons _ n r => dump n ++ " " ++ dumpK r
end

/-! ### Tree and Txn -/

structure Tree where
  root : Option Node
  rootWatch : Nat
  size : Nat
  rootOnly : Bool
  nextTxnID : Nat
  deriving Inhabited

structure Txn where
  root : Option Node
  rootWatch : Nat       -- 0 once closed by Notify (txn.rootWatch = nil)
  size : Nat
  dirty : Bool
  st : St
  deriving Inhabited

/-- global allocator + closed set shared by all trees of one case -/
structure World where
  nextW : Nat := 1
  closed : List Nat := []
  deriving Inhabited

def newTree (wd : World) (rootOnly : Bool) : World × Tree :=
  ({ wd with nextW := wd.nextW + 1 },
   { root := none, rootWatch := wd.nextW, size := 0, rootOnly, nextTxnID := 0 })

def Tree.txn (t : Tree) (wd : World) : Txn :=
  { root := t.root, rootWatch := t.rootWatch, size := t.size, dirty := false,
    st := { txnID := t.nextTxnID, nextW := wd.nextW, pending := [], rootOnly := t.rootOnly } }

def Txn.bump (x : Txn) : Txn := { x with st := { x.st with txnID := x.st.txnID + 1 } }

/-- InsertWatch / ModifyWatch -/
def Txn.insert (P : ArtParams) (x : Txn) (key : List Nat) (val : Nat) (mod : Option (Nat → Nat → Nat)) :
    Txn × Option Nat × Nat × Nat :=
  match x.root with
  | none =>
    let (st, d) := newLeafD x.st key val
    ({ x with root := some (.leaf key d), st, dirty := true, size := x.size + 1 }, none, val,
      if x.st.rootOnly then x.rootWatch else d.watch)
  | some r =>
    let res := insNode P x.st r key key val mod
    ({ x with root := some res.node, st := res.st, dirty := true,
              size := if res.old.isNone then x.size + 1 else x.size },
     res.old, res.newVal, if x.st.rootOnly then x.rootWatch else res.watch)

def Txn.delete (P : ArtParams) (x : Txn) (key : List Nat) : Txn × Option Nat :=
  match x.root with
  | none => (x, none)
  | some r =>
    match delNode P x.st r key with
    | .notFound => (x, none)
    | .replaced st n old => ({ x with root := some n, st, dirty := true, size := x.size - 1 }, some old)
    | .removed st old => ({ x with root := none, st, dirty := true, size := x.size - 1 }, some old)

def getRoot (root : Option Node) (rootWatch : Nat) (key : List Nat) : Option Nat × Nat :=
  match root with
  | none => (none, rootWatch)
  | some r => searchNode r rootWatch key

def prefixRoot (root : Option Node) (rootWatch : Nat) (p : List Nat) : List (List Nat × Nat) × Nat :=
  match root with
  | none => ([], rootWatch)
  | some r => prefixNode r rootWatch p

def lbRoot (root : Option Node) (key : List Nat) : List (List Nat × Nat) :=
  match root with
  | none => []
  | some r => lbNode r key

def allRoot (root : Option Node) : List (List Nat × Nat) :=
  match root with
  | none => []
  | some r => entries r

def Txn.clone (x : Txn) : Txn × Tree :=
  let x := x.bump
  (x, { root := x.root, rootWatch := x.rootWatch, size := x.size, rootOnly := x.st.rootOnly, nextTxnID := x.st.txnID })

/-- Commit (no notification): returns the txn (still holding `pending`), the
    new tree and the world with the allocator advanced -/
def Txn.commit (x : Txn) (wd : World) : Txn × Tree × World :=
  let wd := { wd with nextW := x.st.nextW }
  let (wd, nrw) := if x.dirty then ({ wd with nextW := wd.nextW + 1 }, wd.nextW) else (wd, x.rootWatch)
  let x := x.bump
  (x, { root := x.root, rootWatch := nrw, size := x.size, rootOnly := x.st.rootOnly, nextTxnID := x.st.txnID }, wd)

/-- Notify: close pending watches and (if dirty) the old root watch -/
def Txn.notify (x : Txn) (wd : World) : Txn × World :=
  let cl := x.st.pending ++ (if x.dirty ∧ x.rootWatch ≠ 0 then [x.rootWatch] else [])
  let closed := cl.foldl (fun acc w => if w ∈ acc then acc else w :: acc) wd.closed
  ({ x with st := { x.st with pending := [] }, rootWatch := if x.dirty then 0 else x.rootWatch },
   { wd with closed, nextW := max wd.nextW x.st.nextW })

end Sdb.Art
