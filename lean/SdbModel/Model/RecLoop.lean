/-!
  Model.RecLoop — the trigger / pruning logic of `reconciler.reconcileLoop` and the
  marking logic of `reconciler.refreshLoop` (reconciler/reconciler.go).

  * The body of one iteration of `reconcileLoop` — which of the loop's variables each
    `select` case assigns, and the condition under which `r.prune` is called — is NOT
    written here: `tools/extract` TRANSLATES it from the current source into
    `Generated/LoopParams.lean` (`Gen.loopStep`) on every run.  This file fixes the types
    the translation targets, what a trace of the loop is, and the assumptions on the
    environment (Go's `select` never picks a nil channel; C19: an initializer watch channel
    that is closed implies every later snapshot shows the table initialized).
  * `refreshPass` is a hand-written model of one pass of `refreshLoop`; the structural
    facts it builds in are regenerated (`Gen.loopFacts`) and required by
    `C15_loop_source_facts`.
  Core Lean only.
-/
namespace Sdb.RecLoop

/-- the `select` cases of `reconcileLoop` that start an iteration (`ctx.Done()` ends the loop) -/
inductive Trigger where
  | retry        -- `<-r.retries.Wait()`
  | table        -- `<-tableWatchChan`
  | initClosed   -- `<-tableInitWatch`
  | pruneTick    -- `<-pruneTickerChan`
  | extPrune     -- `<-r.externalPruneTrigger`
  deriving Repr, DecidableEq, Inhabited

def Trigger.str : Trigger → String
  | .retry => "retry" | .table => "table" | .initClosed => "init" | .pruneTick => "tick" | .extPrune => "ext"

def Trigger.ofString? : String → Option Trigger
  | "retry" => some .retry | "table" => some .table | "init" => some .initClosed
  | "tick" => some .pruneTick | "ext" => some .extPrune | _ => none

/-- the variables of `reconcileLoop` that live across iterations -/
structure LoopState where
  tableInitialized : Bool
  externalPrune : Bool
  /-- `tableInitWatch != nil` -/
  initWatchArmed : Bool
  deriving Repr, DecidableEq, Inhabited

/-- facts about the parts of `reconcileLoop` / `prune` / `refreshLoop` around the translated
    decision logic, regenerated from the source -/
structure LoopFacts where
  /-- the snapshot handed to `incremental.run` and `r.prune` is taken AFTER the trigger (`txn = r.DB.ReadTxn()` follows the select) -/
  snapshotAfterTrigger : Bool
  /-- `r.prune(ctx, txn)` gets that snapshot and is called after `incremental.run` -/
  pruneOnRoundSnapshot : Bool
  /-- `prune` hands `Operations.Prune` the sequence `Table.All(txn)` of the same snapshot -/
  pruneGetsAll : Bool
  /-- the prune ticker exists only if `PruneInterval > 0` (else `pruneTickerChan` stays nil) -/
  tickerOnlyIfEnabled : Bool
  /-- `tableInitWatch` is the channel `Table.Initialized` returns for the snapshot of the transaction that created the change iterator -/
  initWatchFromInitialized : Bool
  /-- refreshLoop: objects are visited in revision order from `lastRevision+1` -/
  refreshFromCursor : Bool
  /-- refreshLoop: the pass stops at the first object younger than the interval -/
  refreshStopsAtYoung : Bool
  /-- refreshLoop: the cursor moves over every visited object -/
  refreshCursorMoves : Bool
  /-- refreshLoop: only objects with status Done are marked -/
  refreshOnlyDone : Bool
  /-- refreshLoop: the object is read again under the table lock and written only if it exists with the same revision -/
  refreshRechecksRevision : Bool
  /-- refreshLoop: the write is `Insert(SetObjectStatus(CloneObject(obj), StatusRefreshing()))` of the object just read -/
  refreshWritesStatusOfCurrent : Bool
  /-- refreshLoop: the write transaction is committed on every path -/
  refreshAlwaysCommits : Bool
  deriving Repr, DecidableEq

def expectedLoopFacts : LoopFacts := {
  snapshotAfterTrigger := true, pruneOnRoundSnapshot := true, pruneGetsAll := true, tickerOnlyIfEnabled := true,
  initWatchFromInitialized := true,
  refreshFromCursor := true, refreshStopsAtYoung := true, refreshCursorMoves := true, refreshOnlyDone := true,
  refreshRechecksRevision := true, refreshWritesStatusOfCurrent := true, refreshAlwaysCommits := true }

/-- all variables one iteration reads and writes: the state, the local `prune`, and the ghost
    `called` (was `r.prune` called in this iteration) -/
structure LoopVars where
  tableInitialized : Bool
  externalPrune : Bool
  initWatchArmed : Bool
  prune : Bool
  called : Bool
  deriving Repr, DecidableEq, Inhabited

def LoopVars.ofState (s : LoopState) : LoopVars :=
  { tableInitialized := s.tableInitialized, externalPrune := s.externalPrune, initWatchArmed := s.initWatchArmed,
    prune := false, called := false }

def LoopVars.result (v : LoopVars) : LoopState × Bool :=
  ({ tableInitialized := v.tableInitialized, externalPrune := v.externalPrune, initWatchArmed := v.initWatchArmed }, v.called)

/-- the type of the translated iteration: configuration flag `PruneInterval != 0`, state and
    trigger in; state and "was `r.prune` called" out -/
abbrev StepFn := Bool → LoopState → Trigger → LoopState × Bool

/-- what the environment shows the loop at one iteration: the trigger `select` picked, whether
    the initializer watch channel is closed at that instant, and whether the snapshot taken
    right after shows the table initialized -/
structure Ev where
  trig : Trigger
  initChanClosed : Bool
  snapInitialized : Bool
  deriving Repr, DecidableEq, Inhabited

/-- run a translated step function over a trace; returns the final state and, per
    iteration, whether `Prune` was called -/
def run (f : StepFn) (pe : Bool) : LoopState → List Ev → LoopState × List Bool
  | s, [] => (s, [])
  | s, e :: es =>
    let (s', p) := f pe s e.trig
    let (s'', ps) := run f pe s' es
    (s'', p :: ps)

/-- environment assumptions for a trace, relative to the loop state:
    * `select` never picks a nil channel: `initClosed` only while the watch is armed, `pruneTick`
      only when pruning is enabled (no ticker otherwise);
    * `initClosed` is picked only when the channel is closed;
    * a closed initializer channel stays closed, and once it is closed every later snapshot
      shows the table initialized (C19: `C19_conc_init_channel_closed_after_visible`, and the
      table's users register no further initializer) -/
def wfTrace (f : StepFn) (pe : Bool) : LoopState → Bool → List Ev → Prop
  | _, _, [] => True
  | s, closedBefore, e :: es =>
    (e.trig = .initClosed → s.initWatchArmed = true ∧ e.initChanClosed = true) ∧
    (e.trig = .pruneTick → pe = true) ∧
    (closedBefore = true → e.initChanClosed = true) ∧
    (e.initChanClosed = true → e.snapInitialized = true) ∧
    wfTrace f pe (f pe s e.trig).1 e.initChanClosed es

/-! ### refreshLoop -/

inductive SKind where
  | pending | refreshing | done | error
  deriving Repr, DecidableEq, Inhabited

structure FObj where
  id : Nat
  data : Nat
  kind : SKind
  sid : Nat
  updatedAt : Nat
  rev : Nat
  deriving Repr, DecidableEq, Inhabited

/-- the table as the refresher's write transactions see it -/
structure FTable where
  objs : List FObj := []
  rev : Nat := 0
  nextSid : Nat := 1
  deriving Repr, Inhabited

def FTable.get (t : FTable) (id : Nat) : Option FObj := t.objs.find? (·.id = id)

def FTable.set (t : FTable) (o : FObj) : FTable :=
  let o := { o with rev := t.rev + 1 }
  { t with objs := if t.objs.any (·.id = o.id) then t.objs.map (fun x => if x.id = o.id then o else x) else t.objs ++ [o],
           rev := t.rev + 1 }

/-- what other writers do between two of the refresher's steps -/
inductive EnvWrite where
  | put (id data : Nat)      -- user write (status Pending)
  | del (id : Nat)
  | status (id : Nat) (k : SKind)   -- the reconciler's status write
  deriving Repr, Inhabited

def FTable.applyEnv (t : FTable) (now : Nat) : EnvWrite → FTable
  | .put id data => { (t.set { id, data, kind := .pending, sid := t.nextSid, updatedAt := now, rev := 0 }) with nextSid := t.nextSid + 1 }
  | .del id => { t with objs := t.objs.filter (·.id ≠ id), rev := if (t.get id).isSome then t.rev + 1 else t.rev }
  | .status id k => match t.get id with
      | some o => { (t.set { o with kind := k, sid := t.nextSid, updatedAt := now }) with nextSid := t.nextSid + 1 }
      | none => t

/-- the marking transaction of `refreshLoop` for one object `(id, rev)` read from the snapshot:
    read again under the lock; write `StatusRefreshing()` only onto an unchanged object -/
def FTable.mark (t : FTable) (now : Nat) (id rev : Nat) : FTable :=
  match t.get id with
  | some cur =>
    if cur.rev = rev then
      { (t.set { cur with kind := .refreshing, sid := t.nextSid, updatedAt := now }) with nextSid := t.nextSid + 1 }
    else t
  | none => t

/-- what a query by id shows of an object apart from the bookkeeping the table assigns -/
def FTable.view (t : FTable) (id : Nat) : Option (Nat × SKind) := (t.get id).map fun o => (o.data, o.kind)

def FTable.dataOf (t : FTable) (id : Nat) : Option Nat := (t.get id).map (·.data)

/-- the effect of another writer's commit on what queries show, as a function of what they showed -/
def viewApply (v : Nat → Option (Nat × SKind)) : EnvWrite → Nat → Option (Nat × SKind)
  | .put id data => fun i => if i = id then some (data, .pending) else v i
  | .del id => fun i => if i = id then none else v i
  | .status id k => fun i => if i = id then (v id).map fun p => (p.1, k) else v i

structure Refresher where
  lastRev : Nat := 0
  deriving Repr, Inhabited

/-- one pass over a snapshot (its objects with revision above the cursor, ascending); before
    each visited object other transactions commit the writes of one group of `envs`;
    returns the cursor, the table and the time until the next pass -/
def refreshPass (interval now : Nat) : Refresher → FTable → List FObj → List (List EnvWrite) → Refresher × FTable × Nat
  | r, t, [], _ => (r, t, interval)
  | r, t, o :: os, envs =>
    let age := now - o.updatedAt
    if age < interval then (r, t, interval - age)
    else
      let r := { r with lastRev := o.rev }
      let t := (envs.headD []).foldl (fun t w => t.applyEnv now w) t
      if o.kind = .done then
        refreshPass interval now r (t.mark now o.id o.rev) os envs.tail
      else refreshPass interval now r t os envs.tail

/-- the same pass with the refresher's own writes left out: what the other writers alone do -/
def envPass (interval now : Nat) : FTable → List FObj → List (List EnvWrite) → FTable
  | t, [], _ => t
  | t, o :: os, envs =>
    if now - o.updatedAt < interval then t
    else envPass interval now ((envs.headD []).foldl (fun t w => t.applyEnv now w) t) os envs.tail

/-- the objects of a snapshot that a pass marks: Done, and not behind a young object -/
def markable (interval now : Nat) : List FObj → List FObj
  | [] => []
  | o :: os =>
    if now - o.updatedAt < interval then []
    else if o.kind = .done then o :: markable interval now os else markable interval now os

def insRev (o : FObj) : List FObj → List FObj
  | [] => [o]
  | x :: xs => if o.rev ≤ x.rev then o :: x :: xs else x :: insRev o xs

/-- the snapshot sequence `LowerBound(ByRevision(lastRevision+1))` -/
def snapshotFrom (t : FTable) (r : Refresher) : List FObj :=
  (t.objs.filter (fun o => decide (r.lastRev < o.rev))).foldr insRev []

end Sdb.RecLoop
