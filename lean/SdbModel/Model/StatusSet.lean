/-!
  Model.StatusSet — `reconciler.StatusSet` (reconciler/types.go): the per-object set of named
  reconciliation statuses used when several reconcilers share an object.  Names are
  `Nat` (the harness uses fixed-width names whose string order is the numeric order);
  ids come from the caller (`nextID()` is a global counter in the code).  Values are
  immutable here; that the Go methods do not write through shared slices is checked by the
  run (every earlier value is rendered again after every later operation).  Core Lean only.
-/
namespace Sdb.SSet

inductive Kind where
  | pending | refreshing | done | error
  deriving Repr, DecidableEq, Inhabited

def Kind.str : Kind → String
  | .pending => "P" | .refreshing => "R" | .done => "D" | .error => "E"

def Kind.ofString? : String → Option Kind
  | "P" => some .pending | "R" => some .refreshing | "D" => some .done | "E" => some .error | _ => none

structure Status where
  kind : Kind
  id : Nat
  deriving Repr, DecidableEq, Inhabited

structure SS where
  id : Nat
  statuses : List (Nat × Status) := []
  deriving Repr, DecidableEq, Inhabited

/-- `slices.SortFunc` after appending one entry to a sorted slice = sorted insertion -/
def insertSorted (n : Nat) (st : Status) : List (Nat × Status) → List (Nat × Status)
  | [] => [(n, st)]
  | (m, s) :: rest => if n < m then (n, st) :: (m, s) :: rest else (m, s) :: insertSorted n st rest

/-- `StatusSet.Set` -/
def SS.set (s : SS) (n : Nat) (st : Status) : SS :=
  if s.statuses.any (·.1 = n) then
    { s with statuses := s.statuses.map fun p => if p.1 = n then (n, st) else p }
  else { s with statuses := insertSorted n st s.statuses }

def lookup (n : Nat) : List (Nat × Status) → Option Status
  | [] => none
  | (m, s) :: rest => if m = n then some s else lookup n rest

/-- `StatusSet.Get`: a reconciler that has not reported yet is pending, with the set's id -/
def SS.get (s : SS) (n : Nat) : Status :=
  match lookup n s.statuses with
  | some st => st
  | none => { kind := .pending, id := s.id }

/-- `StatusSet.Pending` with the fresh id `i` -/
def SS.pending (s : SS) (i : Nat) : SS :=
  { id := i, statuses := s.statuses.map fun p => (p.1, { kind := .pending, id := i }) }

def SS.names (s : SS) : List Nat := s.statuses.map (·.1)

/-- `StatusSet.String` without the age suffix -/
def SS.str (s : SS) (nameStr : Nat → String) : String :=
  if s.statuses.isEmpty then "Pending" else
  let done := (s.statuses.filter (·.2.kind = .done)).map (nameStr ·.1)
  let err := (s.statuses.filter (·.2.kind = .error)).map (fun p => nameStr p.1 ++ " (err)")
  let pend := (s.statuses.filter (fun p => p.2.kind ≠ .done ∧ p.2.kind ≠ .error)).map (nameStr ·.1)
  let parts := (if err.isEmpty then [] else ["Errored: " ++ " ".intercalate err]) ++
    (if pend.isEmpty then [] else ["Pending: " ++ " ".intercalate pend]) ++
    (if done.isEmpty then [] else ["Done: " ++ " ".intercalate done])
  ", ".intercalate parts

/-- the operations of the API, for runs -/
inductive Op where
  | set (n : Nat) (st : Status)
  | pending (i : Nat)
  deriving Repr, Inhabited

def SS.apply (s : SS) : Op → SS
  | .set n st => s.set n st
  | .pending i => s.pending i

end Sdb.SSet
