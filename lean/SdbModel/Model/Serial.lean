import SdbModel.Model.Conc
/-!
  Model.Serial — the abstract locking / commit protocol behind Model.Conc, for
  an UNBOUNDED number of threads and tables, in the form the proofs of C02, C05
  and C10 use.

  A thread is a write transaction over a set of tables (a duplicate-free,
  ascending list: what `WriteTxn`'s de-duplication followed by
  `SortableMutexes.Lock`'s sort produces).  It acquires its table mutexes in
  that order, loads the root, later stores a new root in one atomic step (the
  `db.mu` critical section: load current root, take the tables it does not hold
  from it, store) or aborts, and releases its mutexes.  Readers load the root.

  `Protocol.SerialWF` lists the order facts about the real code that make this
  abstraction faithful; they are decided on the protocol REGENERATED from the
  source (Props/C05.lean), and Model.Conc — which interprets that regenerated
  protocol step by step — is compared with the implementation on every run.
-/
namespace Sdb.Serial

/-- where a transaction is -/
inductive Phase where
  | acquiring (next : Nat)   -- has taken the first `next` of its tables
  | loaded                   -- holds all its tables and has loaded the root
  | stored                   -- has stored its new root (or aborted), releasing
  | done
  deriving Repr, DecidableEq, Inhabited

structure Txn where
  tabs : List Nat            -- ascending, duplicate-free
  commit : Bool := true
  phase : Phase := .acquiring 0
  released : Nat := 0        -- number of tables already released
  old : Nat → Nat := fun _ => 0   -- the root it loaded (per-table counter)
  deriving Inhabited

structure State where
  root : Nat → Nat := fun _ => 0        -- committed counter of each table
  owner : Nat → Option Nat := fun _ => none
  txns : List Txn := []
  commits : Nat → Nat := fun _ => 0     -- ghost: number of committed txns that wrote the table

/-- ascending, duplicate-free -/
def Ascending : List Nat → Prop
  | [] => True
  | [_] => True
  | a :: b :: r => a < b ∧ Ascending (b :: r)

def setTxn (l : List Txn) (i : Nat) (t : Txn) : List Txn := l.set i t

/-- one step of thread `i` -/
inductive Step : State → State → Prop where
  /-- lock the next table of the ascending list; blocks while it is held -/
  | acquire (s : State) (i : Nat) (t : Txn) (k tb : Nat)
      (hi : s.txns[i]? = some t) (hp : t.phase = .acquiring k) (hk : t.tabs[k]? = some tb)
      (hfree : s.owner tb = none) :
      Step s { s with owner := fun x => if x = tb then some i else s.owner x,
                      txns := setTxn s.txns i { t with phase := .acquiring (k + 1) } }
  /-- all tables held: load the root -/
  | load (s : State) (i : Nat) (t : Txn)
      (hi : s.txns[i]? = some t) (hp : t.phase = .acquiring t.tabs.length) :
      Step s { s with txns := setTxn s.txns i { t with phase := .loaded, old := s.root } }
  /-- Commit's critical section: every table it holds gets its private value
      (one increment of what it loaded), every other table the current value -/
  | store (s : State) (i : Nat) (t : Txn)
      (hi : s.txns[i]? = some t) (hp : t.phase = .loaded) (hc : t.commit = true) :
      Step s { s with root := fun x => if x ∈ t.tabs then t.old x + 1 else s.root x,
                      commits := fun x => if x ∈ t.tabs then s.commits x + 1 else s.commits x,
                      txns := setTxn s.txns i { t with phase := .stored } }
  /-- Abort: nothing is stored -/
  | abort (s : State) (i : Nat) (t : Txn)
      (hi : s.txns[i]? = some t) (hp : t.phase = .loaded) (hc : t.commit = false) :
      Step s { s with txns := setTxn s.txns i { t with phase := .stored } }
  /-- release the tables (in list order) -/
  | release (s : State) (i : Nat) (t : Txn) (tb : Nat)
      (hi : s.txns[i]? = some t) (hp : t.phase = .stored) (hk : t.tabs[t.released]? = some tb) :
      Step s { s with owner := fun x => if x = tb then none else s.owner x,
                      txns := setTxn s.txns i { t with released := t.released + 1 } }
  | finish (s : State) (i : Nat) (t : Txn)
      (hi : s.txns[i]? = some t) (hp : t.phase = .stored) (hk : t.released = t.tabs.length) :
      Step s { s with txns := setTxn s.txns i { t with phase := .done } }
  /-- a new transaction appears (any time, any tables) -/
  | spawn (s : State) (t : Txn) (ha : Ascending t.tabs) (hp : t.phase = .acquiring 0) (hr : t.released = 0) :
      Step s { s with txns := s.txns ++ [t] }

inductive Reachable : State → Prop where
  | init : Reachable {}
  | step (s s' : State) : Reachable s → Step s s' → Reachable s'

/-- the tables thread `t` currently holds -/
def held (t : Txn) : List Nat :=
  match t.phase with
  | .acquiring k => t.tabs.take k
  | .loaded => t.tabs
  | .stored => t.tabs.drop t.released
  | .done => []

end Sdb.Serial

namespace Sdb.Conc

def idx (l : List Act) (a : Act) : Nat := l.findIdx (· == a)

/-- the order facts about WriteTxn / Commit / Abort / registerTable that make
    Model.Serial a faithful abstraction of the code -/
def Protocol.serialWF (P : Protocol) : Bool :=
  -- WriteTxn: de-duplicate, lock everything (sorted, in order), only then load and copy the root
  P.writeTxn.contains .dedupTables && P.lockSortsBySeq && P.lockInOrder &&
  decide (idx P.writeTxn .dedupTables < idx P.writeTxn .lockTables) &&
  decide (idx P.writeTxn .lockTables < idx P.writeTxn .loadRoot) &&
  decide (idx P.writeTxn .loadRoot < idx P.writeTxn .cloneRoot) &&
  decide (idx P.writeTxn .cloneRoot < idx P.writeTxn .cloneEntries) &&
  decide (idx P.writeTxn .cloneEntries < P.writeTxn.length) &&
  !P.writeTxn.contains .unlockTables && !P.writeTxn.contains .storeRoot &&
  -- Commit: one critical section  lock; load current; merge; store; unlock  — then notify, then release the tables
  decide (idx P.commit .lockRoot < idx P.commit .loadCurrentRoot) &&
  decide (idx P.commit .loadCurrentRoot < idx P.commit .mergeUnlocked) &&
  decide (idx P.commit .mergeUnlocked < idx P.commit .storeRoot) &&
  decide (idx P.commit .storeRoot < idx P.commit .unlockRoot) &&
  decide (idx P.commit .unlockRoot < idx P.commit .notify) &&
  decide (idx P.commit .notify < idx P.commit .unlockTables) &&
  decide (idx P.commit .storeRoot < idx P.commit .closeInit) &&
  decide (idx P.commit .unlockTables < P.commit.length) &&
  decide ((P.commit.filter (· == .storeRoot)).length = 1) &&
  decide ((P.commit.filter (· == .lockRoot)).length = 1) &&
  decide ((P.commit.filter (· == .unlockRoot)).length = 1) &&
  -- Abort: releases the tables and stores / closes nothing
  P.abort.contains .unlockTables && !P.abort.contains .storeRoot && !P.abort.contains .notify &&
  !P.abort.contains .closeInit && !P.abort.contains .lockRoot &&
  -- registerTable: load, append, store inside one critical section
  decide (idx P.register .lockRoot < idx P.register .loadCurrentRoot) &&
  decide (idx P.register .loadCurrentRoot < idx P.register .appendTable) &&
  decide (idx P.register .appendTable < idx P.register .storeRoot) &&
  decide (idx P.register .storeRoot < idx P.register .unlockRoot) &&
  decide (idx P.register .unlockRoot < P.register.length) &&
  -- readers: a single atomic load
  P.readIsSingleLoad

end Sdb.Conc
