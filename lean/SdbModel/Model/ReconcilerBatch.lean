import SdbModel.Model.Reconciler
/-!
  Model.ReconcilerBatch — the batch variant of a reconciliation round
  (reconciler/incremental.go `batch`): the changes of a round are first collected
  into a delete batch and an update batch, `DeleteBatch` runs before `UpdateBatch`
  ("to make room"), failed deletions are queued for a retry afterwards, the
  results of the updates are recorded after the whole batch has run.  Retries
  are processed one by one with the single operations, as in the non-batch mode.
  Everything else (retry queue, timer, status commit, progress) is
  `Model.Reconciler` unchanged.
-/
namespace Sdb.Rec

/-- one collected entry: the change and the revision it was read at -/
abbrev BEntry := RObj × Nat

/-- the loop over changes of `batch()`: consumes changes until the round is full,
    collecting the delete batch and the update batch (in the order read) -/
def R.consumeB (r : R) : List Change → Nat → List BEntry → List BEntry → R × List Change × Nat × List BEntry × List BEntry
  | [], last, ds, us => (r, [], last, ds, us)
  | c :: cs, _, ds, us =>
    let r := if c.deleted then { r with itDelRev := c.rev } else { r with itRev := c.rev }
    let last := c.rev
    if !c.deleted ∧ !(c.obj.kind = .pending ∨ c.obj.kind = .refreshing) then r.consumeB cs last ds us
    else
      let r := r.retryClear c.obj.id
      let ds := if c.deleted then ds ++ [(c.obj, c.rev)] else ds
      let us := if c.deleted then us else us ++ [(c.obj, c.rev)]
      let r := { r with numReconciled := r.numReconciled + 1 }
      if r.numReconciled ≥ r.cfg.roundSize then (r, cs, last, ds, us) else r.consumeB cs last ds us

/-- `DeleteBatch` over the collected deletions, then the loop queueing a retry
    for every failed one (a successful deletion clears nothing: the retry was
    cleared when the change was read) -/
def R.deleteBatch (r : R) (ds : List BEntry) : R :=
  -- the calls, in batch order
  let (r, outcomes) := ds.foldl (fun (acc : R × List (BEntry × Bool)) (e : BEntry) =>
      let r := acc.1
      let failed := r.isFailing e.1.id
      ({ r with log := r.log ++ [({ op := "D", id := e.1.id, data := e.1.data, ok := !failed } : Call)] }, acc.2 ++ [(e, failed)]))
    (r, [])
  outcomes.foldl (fun (r : R) (x : BEntry × Bool) => if x.2 then r.retryAdd x.1.1 x.1.2 x.1.2 true else r) r

/-- `UpdateBatch` over the collected updates (each Update may write to the table
    while it runs), then the loop recording the results and clearing the retry
    of every successful one -/
def R.updateBatch (r : R) (us : List BEntry) : R :=
  let (r, outcomes) := us.foldl (fun (acc : R × List (BEntry × Bool)) (e : BEntry) =>
      let r := acc.1
      let failed := r.isFailing e.1.id
      let r : R := { r with log := r.log ++ [({ op := "U", id := e.1.id, data := e.1.data, ok := !failed } : Call)] }
      let acts := r.injects.filter (fun (a : Nat × Inject) => a.1 = e.1.id)
      let rest := r.injects.filter (fun (a : Nat × Inject) => a.1 ≠ e.1.id)
      let r : R := acts.foldl (fun (r : R) (a : Nat × Inject) => r.applyInject a.2) { r with injects := rest }
      (r, acc.2 ++ [(e, failed)]))
    (r, [])
  outcomes.foldl (fun (r : R) (x : BEntry × Bool) =>
      let r := if x.2 then r else r.retryClear x.1.1.id
      { r with results := r.results ++ [(x.1.1, x.1.1, x.1.2, x.1.1.sid, x.2)] }) r

/-- one iteration of reconcileLoop after a trigger, batch operations configured -/
def R.roundB (r : R) : R :=
  let (r, changes) := r.nextChanges
  let (r, rest, last, ds, us) := r.consumeB changes 0 [] []
  let exhausted := rest.isEmpty ∧ r.numReconciled < r.cfg.roundSize
  let r := { r with pending := if changes.isEmpty ∧ r.pending.isNone then none else if exhausted then none else some rest }
  let r := r.deleteBatch ds
  let r := r.updateBatch us
  let r := r.commitStatus
  let r := r.processRetries (r.items.length + 1)
  let lw := r.lowWatermark
  let r := r.commitStatus
  { r with numReconciled := 0,
           progressRev := if last > r.progressRev then last else r.progressRev,
           progressLW := lw }

def R.quiesceB (r : R) : (fuel : Nat) → R
  | 0 => r
  | fuel + 1 =>
    let r := r.fireTimer
    if r.triggered then R.quiesceB r.roundB fuel else r

def R.advanceB (r : R) (ms : Nat) : (fuel : Nat) → R
  | 0 => { r with now := r.now + ms }
  | fuel + 1 =>
    let target := r.now + ms
    match r.timer with
    | .armed t =>
      if t ≤ target then
        let r := ({ r with now := max t r.now }).quiesceB 64
        R.advanceB r (target - r.now) fuel
      else { r with now := target }
    | _ => { r with now := target }

end Sdb.Rec
