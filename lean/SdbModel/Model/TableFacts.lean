/-!
  Model.TableFacts — the structural facts about write_txn.go (modify / delete),
  graveyard.go (collector), iterator.go and deletetracker.go (change iterator)
  that `Model.Table` builds in: regenerated from the source on every run
  (`Generated/TableParams.lean`) and required to hold by `C03_source_facts`,
  `C07_source_facts`, `C08_source_facts`, `C09_source_facts`.
-/
namespace Sdb.Tbl

structure SourceFacts where
  /-- `modify`: a closed transaction and a table not locked by it are rejected before anything changes -/
  modifyRejectsUnlocked : Bool
  /-- `modify`: the next revision is allocated (`table.revision++`) before the primary index is written -/
  modifyAllocatesRevision : Bool
  /-- `modify`: CompareAndSwap needs an existing object with exactly the guard revision -/
  casNeedsExistingAndEqual : Bool
  /-- `modify`: both rejections restore `table.revision` -/
  rejectedCasRestoresRevision : Bool
  /-- `modify`: a re-inserted key is taken out of the graveyard, after the revision index was written -/
  reinsertClearsGraveyard : Bool
  /-- `modify`: secondary indexes are re-indexed after the primary index -/
  secondaryAfterPrimary : Bool
  deleteRejectsUnlocked : Bool
  /-- `delete`: an absent key changes nothing (no revision is allocated) -/
  deleteAbsentIsNoop : Bool
  /-- `delete`: CompareAndDelete restores the object before any revision is allocated -/
  cadChecksBeforeRevision : Bool
  /-- `delete`: the object goes to the graveyard, with the deletion's revision, only if a delete tracker exists -/
  graveyardOnlyWithTrackers : Bool
  /-- collector: the low watermark starts at the table revision … -/
  watermarkStartsAtTableRevision : Bool
  /-- … and is the minimum over the registered trackers' revisions (as stored) -/
  watermarkIsMinOverTrackers : Bool
  /-- collector: retained deletions up to the watermark (inclusive) are collected -/
  collectsUpToWatermark : Bool
  /-- collector: its write transaction removes only what is still there; nothing to do → no transaction -/
  collectorRechecksExistence : Bool
  /-- change iterator: a snapshot older than the iterator's creation delivers nothing -/
  staleSnapshotDeliversNothing : Bool
  updatesFromCursorPlusOne : Bool
  deletesFromCursorPlusOne : Bool
  /-- change iterator: the cursors (and the tracker's mark) advance exactly with what is yielded -/
  cursorsFollowDelivery : Bool
  /-- change iterator: while its watch channel is open an exhausted iterator delivers nothing and re-queries nothing -/
  openWatchMeansNothingNew : Bool
  deriving DecidableEq, Repr

/-- what the model assumes -/
def expectedFacts : SourceFacts := {
  modifyRejectsUnlocked := true, modifyAllocatesRevision := true, casNeedsExistingAndEqual := true,
  rejectedCasRestoresRevision := true, reinsertClearsGraveyard := true, secondaryAfterPrimary := true,
  deleteRejectsUnlocked := true, deleteAbsentIsNoop := true, cadChecksBeforeRevision := true,
  graveyardOnlyWithTrackers := true, watermarkStartsAtTableRevision := true, watermarkIsMinOverTrackers := true,
  collectsUpToWatermark := true, collectorRechecksExistence := true, staleSnapshotDeliversNothing := true,
  updatesFromCursorPlusOne := true, deletesFromCursorPlusOne := true, cursorsFollowDelivery := true,
  openWatchMeansNothingNew := true }

end Sdb.Tbl
