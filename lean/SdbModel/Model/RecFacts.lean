/-!
  Model.RecFacts — the structural facts about reconciler/incremental.go and
  reconciler/retries.go that `Model.Reconciler` / `Model.ReconcilerBatch` build in:
  regenerated from the source on every run (`Generated/RecParams.lean`) and
  required to hold by `C14_source_facts` / `C15_source_facts` / `C16_source_facts`.
-/
namespace Sdb.Rec

structure SourceFacts where
  /-- `run`: batch()/single(), commitStatus, processRetries, commitStatus — `R.round`, `R.roundB` -/
  roundThenStatusThenRetriesThenStatus : Bool
  /-- `batch`: retries.Clear per change, DeleteBatch (+ retries.Add for failures) before UpdateBatch (+ Clear for successes) -/
  batchClearsThenDeletesThenUpdates : Bool
  /-- `single`: retries.Clear then processSingle per change — `R.consume` -/
  singleClearsThenProcesses : Bool
  /-- a change is processed only if deleted, or pending / refreshing -/
  onlyPendingOrRefreshingOrDeleted : Bool
  /-- the loop over changes ends when numReconciled reaches the round size -/
  roundEndsWhenFull : Bool
  /-- `processSingle`: a failed Delete is queued for a retry; success clears the retry -/
  deleteFailureQueuesRetry : Bool
  /-- `commitStatus`: on a revision mismatch the status is written only onto an object that is still
      pending with the id the operation saw — `R.commitOne` -/
  statusFallbackOnlyForSamePendingId : Bool
  /-- `commitStatus`: a retry is queued only when the failure status was written -/
  retryOnlyAfterStatusWritten : Bool
  /-- `commitStatus`: Done exactly when the operation returned no error -/
  doneIffNoError : Bool
  /-- `processRetries`: while the round is not full … -/
  retriesWhileRoundNotFull : Bool
  /-- … and only items whose retry time has come -/
  retriesOnlyWhenDue : Bool
  /-- `exponentialBackoff.Duration`: min * 2^attempt … -/
  backoffIsMinTimesTwoToAttempt : Bool
  /-- … capped at max — `Rec.backoff` -/
  backoffCappedAtMax : Bool
  /-- `processRetries` has no other condition (no early exit) and every path returns
      `retries.LowWatermark()` computed then and there — `R.round`: `lw := r.lowWatermark` -/
  retriesReturnFreshLowWatermark : Bool
  deriving DecidableEq, Repr

/-- what the model assumes -/
def expectedFacts : SourceFacts := {
  roundThenStatusThenRetriesThenStatus := true, batchClearsThenDeletesThenUpdates := true,
  singleClearsThenProcesses := true, onlyPendingOrRefreshingOrDeleted := true, roundEndsWhenFull := true,
  deleteFailureQueuesRetry := true, statusFallbackOnlyForSamePendingId := true, retryOnlyAfterStatusWritten := true,
  doneIffNoError := true, retriesWhileRoundNotFull := true, retriesOnlyWhenDue := true,
  backoffIsMinTimesTwoToAttempt := true, backoffCappedAtMax := true,
  retriesReturnFreshLowWatermark := true }

end Sdb.Rec
