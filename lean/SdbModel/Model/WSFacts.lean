/-!
  Model.WSFacts — the structural facts about watchset.go that `Model.WatchSet`
  builds in: regenerated from the source on every run (`Generated/WSParams.lean`)
  and required to hold by `C20_source_facts`.
-/
namespace Sdb.WS

structure SourceFacts where
  /-- `Wait` on an empty set waits for the context only -/
  emptySetWaitsForContext : Bool
  /-- the context (then the settle deadline) is select case 0; choosing it ends the wait -/
  contextIsCaseZero : Bool
  /-- settle time 0: the first closed member is returned at once -/
  noSettleReturnsFirst : Bool
  /-- the settle deadline is derived from the caller's context -/
  settleDeadlineFromContext : Bool
  /-- the settle loop goes on while cases are left and stops at the deadline -/
  settleLoopWhileCasesLeft : Bool
  /-- exactly the returned channels are removed from the set, on every return path -/
  removesExactlyReturned : Bool
  /-- every method (Add, Clear, Has, HasAny, Merge, Wait) releases the set's mutex on every path -/
  everyMethodReleasesLock : Bool
  deriving DecidableEq, Repr

def expectedFacts : SourceFacts := {
  emptySetWaitsForContext := true, contextIsCaseZero := true, noSettleReturnsFirst := true,
  settleDeadlineFromContext := true, settleLoopWhileCasesLeft := true, removesExactlyReturned := true,
  everyMethodReleasesLock := true }

end Sdb.WS
