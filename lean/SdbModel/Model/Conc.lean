/-!
  Model.Conc — interleaving model of statedb's transaction protocol (layer L4):
  DB.WriteTxn, writeTxnHandle.Commit / Abort, DB.registerTable, DB.ReadTxn and
  internal.SortableMutexes.Lock/Unlock.

  Each thread runs a program of atomic actions; the ORDER of the actions is not
  written here but regenerated from the source (`Generated/Protocol.lean`,
  read off the top-level statements of those functions by tools/extract).  A
  scheduler step runs one thread from the hook point where it is parked to its
  next hook point; lock acquisitions block.  Tables are abstracted to a counter
  object, a revision, a watch-channel id and an initializer flag — enough to
  state atomic visibility, serialisation, no lost update, wake-up ordering and
  deadlock freedom.  Core Lean only.
-/
namespace Sdb.Conc

inductive Act where
  | dedupTables | lockTables | hook (name : String) | loadRoot | cloneRoot | cloneEntries
  | commitIndexes | lockRoot | loadCurrentRoot | mergeUnlocked | collectInit | storeRoot
  | unlockRoot | notify | unlockTables | closeInit | returnToPool | appendTable
  deriving Repr, DecidableEq, Inhabited

structure Protocol where
  writeTxn : List Act
  commit : List Act
  abort : List Act
  register : List Act
  readIsSingleLoad : Bool
  lockSortsBySeq : Bool
  lockInOrder : Bool
  deriving Repr, DecidableEq

/-- abstract committed state of one table -/
structure TableV where
  cnt : Nat := 0          -- value of the counter object (number of committed increments)
  rev : Nat := 0          -- table revision
  watch : Nat := 0        -- id of the table-wide watch channel of this version
  initPending : Bool := false
  initWatch : Nat := 0    -- 0 = no init record
  deriving Repr, DecidableEq, Inhabited

/-- micro steps after expanding the lock / unlock loops -/
inductive Micro where
  | park (label : String)
  | acquire (t : Nat)
  | release (t : Nat)
  | acquireRoot
  | releaseRoot
  | act (a : Act)
  | userWrites
  deriving Repr, DecidableEq, Inhabited

structure Thread where
  prog : List Micro := []
  tables : List Nat := []        -- as requested (any order, duplicates)
  markInit : List Nat := []      -- tables whose initializer this writer marks done
  regInit : List Nat := []       -- tables on which this writer registers an initializer
  locked : List Nat := []        -- tables held (private copies)
  oldRoot : List TableV := []
  entries : List TableV := []
  curRoot : List TableV := []
  newRoot : List TableV := []
  initToClose : List Nat := []
  toNotify : List Nat := []
  result : Option (List TableV) := none
  done : Bool := false
  deriving Repr, Inhabited

structure State where
  root : List TableV := []
  lockOwner : List (Option Nat) := []   -- per table mutex
  rootMu : Option Nat := none
  threads : List Thread := []
  closed : List Nat := []
  nextChan : Nat := 1
  deriving Repr, Inhabited

def dedup : List Nat → List Nat
  | [] => []
  | x :: xs => x :: (dedup xs).filter (· ≠ x)

def insertSorted (x : Nat) : List Nat → List Nat
  | [] => [x]
  | y :: ys => if x ≤ y then x :: y :: ys else y :: insertSorted x ys

def sortNat (l : List Nat) : List Nat := l.foldr insertSorted []

/-- expansion of one program action into micro steps, for a writer over `tabs`
    (already de-duplicated when the program de-duplicates first) -/
def expand (P : Protocol) (tabs : List Nat) : Act → List Micro
  | .lockTables =>
    let order := if P.lockSortsBySeq then sortNat tabs else tabs
    order.flatMap fun t => [.park s!"before-lock {t}", .acquire t, .park s!"after-lock {t}"]
  | .unlockTables =>
    let order := if P.lockSortsBySeq then sortNat tabs else tabs
    order.flatMap fun t => [.release t, .park s!"after-unlock {t}"]
  | .hook n => [.park n]
  | .lockRoot => [.acquireRoot]
  | .unlockRoot => [.releaseRoot]
  | a => [.act a]

def writerProg (P : Protocol) (tabs : List Nat) (commit : Bool) : List Micro :=
  let tabs' := if P.writeTxn.contains .dedupTables then dedup tabs else tabs
  [.park "start"] ++ P.writeTxn.flatMap (expand P tabs') ++ [.userWrites, .park "ops-done"] ++
  (if commit then P.commit else P.abort).flatMap (expand P tabs')

def registerProg (P : Protocol) : List Micro :=
  [.park "start"] ++ P.register.flatMap (expand P [])

def setT (l : List TableV) (i : Nat) (v : TableV) : List TableV := l.set i v
def getT (l : List TableV) (i : Nat) : TableV := l.getD i default

/-- is the next blocking micro step of the thread possible? -/
def Thread.enabled (st : State) (th : Thread) : Bool :=
  if th.done then false else
  match th.prog with
  | .park _ :: .acquire t :: _ => (st.lockOwner.getD t none).isNone
  | .park _ :: .acquireRoot :: _ => st.rootMu.isNone
  | .acquire t :: _ => (st.lockOwner.getD t none).isNone
  | .acquireRoot :: _ => st.rootMu.isNone
  | [] => false
  | _ => true

/-- effect of one local action of thread `tid` -/
def doAct (st : State) (th : Thread) (a : Act) : State × Thread :=
  match a with
  | .loadRoot => (st, { th with oldRoot := st.root })
  | .cloneRoot => (st, { th with entries := th.oldRoot })
  | .cloneEntries => (st, { th with locked := dedup th.tables })
  | .loadCurrentRoot => (st, { th with curRoot := st.root })
  | .mergeUnlocked =>
    -- locked tables from the private entries, everything else (incl. tables
    -- registered meanwhile) from the current root
    let n := th.curRoot.length
    let root := (List.range n).map fun i =>
      if th.locked.contains i ∧ i < th.entries.length then getT th.entries i else getT th.curRoot i
    (st, { th with newRoot := root })
  | .collectInit =>
    let cl := th.locked.filterMap fun i =>
      let e := getT th.newRoot i
      if e.initWatch ≠ 0 ∧ !e.initPending then some e.initWatch else none
    let root := th.newRoot.mapIdx fun i e =>
      if th.locked.contains i ∧ e.initWatch ≠ 0 ∧ !e.initPending then { e with initWatch := 0 } else e
    (st, { th with initToClose := cl, newRoot := root })
  | .appendTable => (st, { th with newRoot := th.curRoot ++ [{ watch := st.nextChan }] })
  | .storeRoot => ({ st with root := th.newRoot, nextChan := st.nextChan + 1 }, th)
  | .notify => ({ st with closed := st.closed ++ th.toNotify }, th)
  | .closeInit => ({ st with closed := st.closed ++ th.initToClose }, th)
  | .returnToPool => (st, { th with result := if th.newRoot.isEmpty then none else some th.newRoot })
  | _ => (st, th)

/-- the writes of a writer between WriteTxn and Commit: one increment of the
    counter object in every table it holds, initializer registration / marks -/
def doUserWrites (st : State) (th : Thread) : State × Thread :=
  let (st, entries, notify) := th.locked.foldl (fun (acc : State × List TableV × List Nat) i =>
    let (st, es, nt) := acc
    let e := getT es i
    let e' := { e with cnt := e.cnt + 1, rev := e.rev + 1, watch := st.nextChan }
    let st := { st with nextChan := st.nextChan + 1 }
    let (st, e') :=
      if th.regInit.contains i then
        if e'.initWatch = 0 then ({ st with nextChan := st.nextChan + 1 }, { e' with initPending := true, initWatch := st.nextChan })
        else (st, { e' with initPending := true })
      else (st, e')
    let e' := if th.markInit.contains i then { e' with initPending := false } else e'
    (st, setT es i e', e.watch :: nt)) (st, th.entries, [])
  (st, { th with entries, toNotify := notify.reverse })

/-- run thread `tid` until its next park (or the end of its program); the
    first element must be the park it is resting at -/
def runThread (st : State) (tid : Nat) (th : Thread) : (fuel : Nat) → State × Thread × String
  | 0 => (st, th, "fuel")
  | fuel + 1 =>
    match th.prog with
    | [] => (st, { th with done := true }, "done")
    | m :: rest =>
      let th := { th with prog := rest }
      match m with
      | .park l => (st, { th with prog := m :: rest }, l)
      | .acquire t =>
        if (st.lockOwner.getD t none).isSome then (st, { th with prog := m :: rest }, "blocked")
        else runThread { st with lockOwner := st.lockOwner.set t (some tid) } tid th fuel
      | .release t => runThread { st with lockOwner := st.lockOwner.set t none } tid th fuel
      | .acquireRoot =>
        if st.rootMu.isSome then (st, { th with prog := m :: rest }, "blocked")
        else runThread { st with rootMu := some tid } tid th fuel
      | .releaseRoot => runThread { st with rootMu := none } tid th fuel
      | .act a => let (st, th) := doAct st th a; runThread st tid th fuel
      | .userWrites => let (st, th) := doUserWrites st th; runThread st tid th fuel

/-- scheduler step: release thread `tid` from its park -/
def step (st : State) (tid : Nat) : State × String :=
  match st.threads[tid]? with
  | none => (st, "no-thread")
  | some th =>
    if th.done then (st, "finished") else
    if !th.enabled st then (st, "blocked") else
    -- drop the park we are resting at
    let th := match th.prog with | .park _ :: rest => { th with prog := rest } | _ => th
    let (st, th, label) := runThread st tid th (th.prog.length + 2)
    ({ st with threads := st.threads.set tid th }, label)

/-- DB.ReadTxn(): one atomic load -/
def readTxn (st : State) : List TableV := st.root

def initState (ntables : Nat) : State :=
  { root := (List.range ntables).map fun i => { watch := i + 1 },
    lockOwner := List.replicate 64 none, nextChan := ntables + 1 }

def spawnWriter (P : Protocol) (st : State) (tabs : List Nat) (commit : Bool) (markInit regInit : List Nat) : State :=
  { st with threads := st.threads ++ [{ prog := writerProg P tabs commit, tables := tabs, markInit, regInit }] }

def spawnRegister (P : Protocol) (st : State) : State :=
  { st with threads := st.threads ++ [{ prog := registerProg P }] }

/-- a registration rejected for its duplicate name: returns after the name
    check (before appending / storing), running only the deferred unlock -/
def registerDupProg (P : Protocol) : List Micro :=
  let pre := P.register.takeWhile (· ≠ .appendTable)
  let unlock := if P.register.contains .unlockRoot then [Act.unlockRoot] else []
  [.park "start"] ++ (pre ++ unlock).flatMap (expand P [])

def spawnRegisterDup (P : Protocol) (st : State) : State :=
  { st with threads := st.threads ++ [{ prog := registerDupProg P }] }

end Sdb.Conc
