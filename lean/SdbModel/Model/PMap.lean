import SdbModel.Model.Art
/-!
  Model.PMap — part.Map / part.Set (part/map.go, part/set.go) over Model.Art:
  the empty / singleton / tree representations and every transition between
  them.  Trees are created with RootOnlyWatch; watches are not observed here.
  `FromMap` is modelled with the singleton inserted FIRST (so that the new
  entries win), `MapTxn.Commit` leaves the transaction usable.
-/
namespace Sdb.PMap
open Sdb.Art

abbrev KV := List Nat × Nat

structure Map where
  single : Option KV := none
  tree : Option Tree := none      -- hasTree
  deriving Inhabited

def emptyTree : Tree := (newTree {} true).2

def txnOf (t : Tree) : Txn := t.txn {}

def commitT (x : Txn) : Tree := (x.commit {}).2.1

def insT (P : ArtParams) (x : Txn) (k : List Nat) (v : Nat) : Txn := (x.insert P k v none).1

def Map.ensure (m : Map) : Tree := m.tree.getD emptyTree

def Map.set (P : ArtParams) (m : Map) (k : List Nat) (v : Nat) : Map :=
  let same := match m.single with | some (sk, _) => sk == k | none => false
  if (m.tree.isNone && m.single.isNone) || same then { m with single := some (k, v) }
  else
    let x := insT P (txnOf m.ensure) k v
    let x := match m.single with | some (sk, sv) => insT P x sk sv | none => x
    { single := none, tree := some (commitT x) }

def Map.delete (P : ArtParams) (m : Map) (k : List Nat) : Map :=
  match m.single with
  | some (sk, _) => if sk == k then { m with single := none } else m
  | none =>
    match m.tree with
    | none => m
    | some t =>
      let x := ((txnOf t).delete P k).1
      match x.size with
      | 0 => { single := none, tree := none }
      | 1 => { single := (allRoot x.root).head?, tree := none }
      | _ => { single := none, tree := some (commitT x) }

def Map.fromMap (P : ArtParams) (m : Map) (hm : List KV) : Map :=
  match hm with
  | [] => m
  | [(k, v)] => m.set P k v
  | _ =>
    let x := txnOf m.ensure
    let x := match m.single with | some (sk, sv) => insT P x sk sv | none => x
    let x := hm.foldl (fun x (k, v) => insT P x k v) x
    { single := none, tree := some (commitT x) }

def Map.get (m : Map) (k : List Nat) : Option Nat :=
  match m.single with
  | some (sk, sv) => if sk == k then some sv else
      match m.tree with | some t => (getRoot t.root 0 k).1 | none => none
  | none => match m.tree with | some t => (getRoot t.root 0 k).1 | none => none

def Map.all (m : Map) : List KV :=
  match m.single with
  | some e => [e]
  | none => match m.tree with | some t => allRoot t.root | none => []

def Map.prefix (m : Map) (p : List Nat) : List KV :=
  match m.single with
  | some (sk, sv) => if hasPrefix sk p then [(sk, sv)] else
      match m.tree with | some t => (prefixRoot t.root 0 p).1 | none => []
  | none => match m.tree with | some t => (prefixRoot t.root 0 p).1 | none => []

def Map.lowerBound (m : Map) (k : List Nat) : List KV :=
  match m.single with
  | some (sk, sv) => if cmpL sk k != .lt then [(sk, sv)] else
      match m.tree with | some t => lbRoot t.root k | none => []
  | none => match m.tree with | some t => lbRoot t.root k | none => []

def Map.len (m : Map) : Nat :=
  match m.single with
  | some _ => 1
  | none => match m.tree with | some t => t.size | none => 0

/-- the comparison loop of `EqualKeys` / `SlowEqual`: the first iterator drives; when the second is
    exhausted it yields zero values (nil key, zero value) -/
def eqLoop (vals : Bool) : List KV → List KV → Bool
  | [], _ => true
  | (k1, v1) :: r1, [] => (k1 == [] && (!vals || v1 == 0)) && eqLoop vals r1 []
  | (k1, v1) :: r1, (k2, v2) :: r2 => (k1 == k2 && (!vals || v1 == v2)) && eqLoop vals r1 r2

def Map.treeEntries (m : Map) : List KV := match m.tree with | some t => allRoot t.root | none => []

/-- `Map.EqualKeys` (vals = false) / `Map.SlowEqual` (vals = true): the `switch` of part/map.go -/
def Map.equalWith (vals : Bool) (m o : Map) : Bool :=
  if m.len != o.len then false
  else match m.single, o.single with
    | some (k1, v1), some (k2, v2) => k1 == k2 && (!vals || v1 == v2)
    | _, _ =>
      if m.tree.isNone && o.tree.isNone then true
      else eqLoop vals m.treeEntries o.treeEntries

def Map.equalKeys (m o : Map) : Bool := m.equalWith false o
def Map.slowEqual (m o : Map) : Bool := m.equalWith true o

def Map.rep (m : Map) : String :=
  match m.single, m.tree with
  | some _, some _ => "BOTH"
  | some _, none => "single"
  | none, some t => "tree:" ++ (match t.root with | some r => dump r | none => "nil")
  | none, none => "empty"

/-- UnmarshalJSON / UnmarshalYAML of the marshalled entries -/
def Map.ofEntries (P : ArtParams) (es : List KV) : Map :=
  match es with
  | [] => {}
  | [e] => { single := some e }
  | _ => { tree := some (commitT (es.foldl (fun x (k, v) => insT P x k v) (txnOf emptyTree))) }

/-- Map.Txn() -/
def Map.txn (P : ArtParams) (m : Map) : Txn :=
  let x := txnOf m.ensure
  match m.single with | some (sk, sv) => insT P x sk sv | none => x

/-- MapTxn.Commit(): the map and the (still usable) transaction -/
def commitMapTxn (x : Txn) : Map × Txn :=
  match x.size with
  | 0 => ({}, x)
  | 1 => let x := x.bump; ({ single := (allRoot x.root).head? }, x)
  | _ => let (x', t, _) := x.commit {}; ({ tree := some t }, x')

/-! ### Set -/

structure PSet where
  tree : Option Tree := none
  deriving Inhabited

def PSet.ofList (P : ArtParams) (vs : List (List Nat)) : PSet :=
  match vs with
  | [] => {}
  | _ => { tree := some (commitT (vs.foldl (fun x k => insT P x k 0) (txnOf emptyTree))) }

def PSet.set (P : ArtParams) (s : PSet) (k : List Nat) : PSet :=
  { tree := some (commitT (insT P (txnOf (s.tree.getD emptyTree)) k 0)) }

def PSet.delete (P : ArtParams) (s : PSet) (k : List Nat) : PSet :=
  match s.tree with
  | none => s
  | some t =>
    let t' := commitT ((txnOf t).delete P k).1
    if t'.size = 0 then {} else { tree := some t' }

def PSet.all (s : PSet) : List (List Nat) :=
  match s.tree with | some t => (allRoot t.root).map (·.1) | none => []

def PSet.has (s : PSet) (k : List Nat) : Bool :=
  match s.tree with | some t => (getRoot t.root 0 k).1.isSome | none => false

def PSet.len (s : PSet) : Nat := match s.tree with | some t => t.size | none => 0

def PSet.union (P : ArtParams) (s s2 : PSet) : PSet :=
  match s2.tree, s.tree with
  | none, _ => s
  | _, none => s2
  | some t2, some t => { tree := some (commitT ((allRoot t2.root).foldl (fun x (k, _) => insT P x k 0) (txnOf t))) }

def PSet.difference (P : ArtParams) (s s2 : PSet) : PSet :=
  match s.tree, s2.tree with
  | some t, some t2 => { tree := some (commitT ((allRoot t2.root).foldl (fun x (k, _) => (x.delete P k).1) (txnOf t))) }
  | _, _ => s

def PSet.rep (s : PSet) : String :=
  match s.tree with
  | some t => "tree:" ++ (match t.root with | some r => dump r | none => "nil")
  | none => "empty"

def PSet.equal (s o : PSet) : Bool :=
  if s.tree.isNone && o.tree.isNone then true
  else if s.len != o.len then false
  else s.all == o.all

def PSet.ofJSON (P : ArtParams) (vs : List (List Nat)) : PSet :=
  let t := commitT (vs.foldl (fun x k => insT P x k 0) (txnOf emptyTree))
  if t.size = 0 then {} else { tree := some t }

def PSet.ofYAML (P : ArtParams) (vs : List (List Nat)) : PSet :=
  { tree := some (commitT (vs.foldl (fun x k => insT P x k 0) (txnOf emptyTree))) }

end Sdb.PMap
