import Lean
import SdbModel.Props.C18
/-!
  Audit: for every theorem `Sdb.Cxx_*` (the property theorems; helper lemmas
  live elsewhere) print the axioms it depends on.  The list is computed from
  the environment, not written by hand, so `obligations` in the evidence files
  is a measured count.  Run with `lake env lean SdbModel/Audit.lean`.
-/
open Lean Elab Command in
elab "#audit_props" : command => do
  let env ← getEnv
  let mut names : Array Name := #[]
  for (n, ci) in env.constants.toList do
    if let .thmInfo _ := ci then
      match n with
      | .str (.str .anonymous "Sdb") s =>
        if (match s.toList with | 'C' :: a :: b :: '_' :: _ => a.isDigit && b.isDigit | _ => false) then
          names := names.push n
      | _ => pure ()
  let sorted := names.qsort (fun a b => a.toString < b.toString)
  for n in sorted do
    let axs ← Lean.collectAxioms n
    let axs := axs.qsort (fun a b => a.toString < b.toString)
    logInfo m!"AXIOMS {n} : {axs.toList}"

#audit_props
