import Lean
/-!
  `#audit_props "Cxx"`: for every theorem `Sdb.Cxx_*` in the environment print
  the axioms it depends on (what `#print axioms` prints).  The list is computed
  from the environment, so the obligation count in the evidence is measured.
-/
open Lean Elab Command in
elab "#audit_props " pfx:str : command => do
  let env ← getEnv
  let p := pfx.getString ++ "_"
  let mut names : Array Name := #[]
  for (n, ci) in env.constants.toList do
    if let .thmInfo _ := ci then
      match n with
      | .str (.str .anonymous "Sdb") s =>
        if p.isPrefixOf s then names := names.push n
      | _ => pure ()
  let sorted := names.qsort (fun a b => a.toString < b.toString)
  for n in sorted do
    let axs ← Lean.collectAxioms n
    let axs := axs.qsort (fun a b => a.toString < b.toString)
    logInfo m!"AXIOMS {n} : {axs.toList}"
