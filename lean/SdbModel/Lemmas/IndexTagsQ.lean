import SdbModel.Lemmas.IndexTags
/-!
  C04, queries through the non-unique multi-key index: which composite keys pass the filters of
  `qList` / `qGet` / `qPrefix` / `qLowerBound` on `Idx.tags`, the de-duplication `dedupPrimary`,
  and the exactness / order theorems under `TagInv`.  Core Lean only.
-/
namespace Sdb.Tbl
open OMap

/-! ### which composite keys pass the filters -/

theorem comp_eq (id tag : Key) : P.composite id tag = P.enc tag ++ 0 :: (P.enc id ++ be 2 (P.enc id).length) :=
  composite_eq P P_wf id tag

theorem comp_secLen (id tag : Key) (h : (P.enc id).length < 65536) :
    nukSecLen (P.composite id tag) = ((P.enc tag).length : Int) :=
  (composite_split P P_wf id tag h).2.1

theorem comp_encPrimary (id tag : Key) (h : (P.enc id).length < 65536) :
    nukEncodedPrimary (P.composite id tag) = P.enc id :=
  (composite_split P P_wf id tag h).2.2.1

theorem comp_encSecondary (id tag : Key) (h : (P.enc id).length < 65536) :
    nukEncodedSecondary (P.composite id tag) = P.enc tag :=
  (composite_split P P_wf id tag h).2.2.2

theorem enc_prefix_iff (k p : Key) : P.enc p <+: P.enc k ↔ p <+: k := by
  rw [← hasPrefix_iff, ← hasPrefix_iff, enc_hasPrefix P P_wf]

/-- `List` / `Get`: prefix match on the encoded tag and equal secondary length = the tag IS the query -/
theorem comp_list_match (id tag key : Key) (h : (P.enc id).length < 65536) :
    (hasPrefix (P.composite id tag) (P.enc key) = true ∧
      (nukSecLen (P.composite id tag) == ((P.enc key).length : Int)) = true) ↔ tag = key := by
  rw [comp_secLen id tag h, hasPrefix_iff, comp_eq]
  constructor
  · rintro ⟨h1, h2⟩
    have hl : (P.enc key).length = (P.enc tag).length := by
      have := eq_of_beq h2; omega
    have h3 : P.enc key <+: P.enc tag :=
      List.prefix_of_prefix_length_le h1 (List.prefix_append _ _) (by omega)
    have := List.IsPrefix.eq_of_length h3 hl
    exact (enc_injective P P_wf _ _ this).symm
  · rintro rfl
    exact ⟨List.prefix_append _ _, by simp⟩

/-- `Prefix`: prefix match and secondary length at least the query's = the query is a prefix of the tag -/
theorem comp_prefix_match (id tag key : Key) (h : (P.enc id).length < 65536) :
    (hasPrefix (P.composite id tag) (P.enc key) = true ∧
      decide (nukSecLen (P.composite id tag) ≥ ((P.enc key).length : Int)) = true) ↔ key <+: tag := by
  rw [comp_secLen id tag h, hasPrefix_iff, comp_eq]
  constructor
  · rintro ⟨h1, h2⟩
    have hl : (P.enc key).length ≤ (P.enc tag).length := by
      have := of_decide_eq_true h2; omega
    exact (enc_prefix_iff _ _).mp (List.prefix_of_prefix_length_le h1 (List.prefix_append _ _) hl)
  · intro h0
    have h1 := (enc_prefix_iff _ _).mpr h0
    refine ⟨h1.trans (List.prefix_append _ _), ?_⟩
    have := h1.length_le
    simp only [ge_iff_le, decide_eq_true_eq]
    omega

theorem cmpL_append_not_lt (a b s : List Nat) (h : cmpL a s ≠ .lt) : cmpL (a ++ b) s ≠ .lt := by
  induction a generalizing s with
  | nil =>
    cases s with
    | nil => cases b <;> simp
    | cons y ys => simp at h
  | cons x xs ih =>
    cases s with
    | nil => simp
    | cons y ys =>
      rw [List.cons_append, cmpL_cons_cons] at *
      by_cases h1 : x < y
      · simp [h1] at h
      · by_cases h2 : y < x
        · simp [h1, h2]
        · simp only [h1, h2, if_false] at h ⊢
          exact ih ys h

/-- `LowerBound`: composite key and encoded secondary not below the encoded query = the tag is
    not below the query -/
theorem comp_lowerBound_match (id tag key : Key) (h : (P.enc id).length < 65536) :
    ((cmpL (P.composite id tag) (P.enc key) != .lt) = true ∧
      (cmpL (nukEncodedSecondary (P.composite id tag)) (P.enc key) != .lt) = true) ↔ cmpL tag key ≠ .lt := by
  rw [comp_encSecondary id tag h, enc_cmp P P_wf]
  constructor
  · rintro ⟨_, h2⟩; simpa using h2
  · intro h1
    refine ⟨?_, by simpa using h1⟩
    have : cmpL (P.enc tag) (P.enc key) ≠ .lt := by rw [enc_cmp P P_wf]; exact h1
    have := cmpL_append_not_lt (P.enc tag) (0 :: (P.enc id ++ be 2 (P.enc id).length)) (P.enc key) this
    rw [comp_eq]
    simpa using this

/-! ### de-duplication -/

/-- keep the first occurrence of every object id (ids in `seen` count as already met) -/
def firstById : List Obj → List Key → List Obj
  | [], _ => []
  | o :: r, seen => if o.id ∈ seen then firstById r seen else o :: firstById r (o.id :: seen)

theorem firstById_sublist (l : List Obj) (seen : List Key) : List.Sublist (firstById l seen) l := by
  induction l generalizing seen with
  | nil => exact List.Sublist.slnil
  | cons o r ih =>
    unfold firstById
    split
    · exact (ih seen).cons _
    · exact (ih _).cons_cons _

theorem mem_firstById_imp (l : List Obj) (seen : List Key) (x : Obj) (h : x ∈ firstById l seen) :
    x ∈ l ∧ x.id ∉ seen := by
  induction l generalizing seen with
  | nil => simp [firstById] at h
  | cons o r ih =>
    unfold firstById at h
    split at h
    · have := ih seen h; exact ⟨List.mem_cons_of_mem _ this.1, this.2⟩
    · rename_i hs
      rcases List.mem_cons.mp h with h | h
      · subst h; exact ⟨List.mem_cons_self .., hs⟩
      · have := ih _ h
        exact ⟨List.mem_cons_of_mem _ this.1, fun hx => this.2 (List.mem_cons_of_mem _ hx)⟩

/-- if equal ids mean equal objects, every listed object not yet seen survives -/
theorem mem_firstById (l : List Obj) (hl : ∀ a ∈ l, ∀ b ∈ l, a.id = b.id → a = b) (seen : List Key) (x : Obj) :
    x ∈ firstById l seen ↔ x ∈ l ∧ x.id ∉ seen := by
  refine ⟨mem_firstById_imp l seen x, ?_⟩
  induction l generalizing seen with
  | nil => simp
  | cons o r ih =>
    have hr : ∀ a ∈ r, ∀ b ∈ r, a.id = b.id → a = b :=
      fun a ha b hb => hl a (List.mem_cons_of_mem _ ha) b (List.mem_cons_of_mem _ hb)
    rintro ⟨hx, hs⟩
    unfold firstById
    split
    · rename_i ho
      rcases List.mem_cons.mp hx with h | h
      · subst h; exact absurd ho hs
      · exact ih hr seen ⟨h, hs⟩
    · rename_i ho
      by_cases hxo : x = o
      · subst hxo; exact List.mem_cons_self ..
      · rcases List.mem_cons.mp hx with h | h
        · exact absurd h hxo
        · refine List.mem_cons_of_mem _ (ih hr _ ⟨h, ?_⟩)
          intro hm
          rcases List.mem_cons.mp hm with e | e
          · exact hxo (hl x hx o (List.mem_cons_self ..) e)
          · exact hs e

/-- no id twice -/
theorem firstById_ids_nodup (l : List Obj) (seen : List Key) :
    (firstById l seen).Pairwise (fun a b => a.id ≠ b.id) := by
  induction l generalizing seen with
  | nil => exact List.Pairwise.nil
  | cons o r ih =>
    unfold firstById
    split
    · exact ih seen
    · refine List.Pairwise.cons ?_ (ih _)
      intro b hb e
      exact (mem_firstById_imp r _ b hb).2 (e ▸ List.mem_cons_self ..)

/-- a list without repeated ids is its own de-duplication -/
theorem firstById_of_nodup (l : List Obj) (h : l.Pairwise (fun a b => a.id ≠ b.id)) (seen : List Key)
    (hs : ∀ a ∈ l, a.id ∉ seen) : firstById l seen = l := by
  induction l generalizing seen with
  | nil => rfl
  | cons o r ih =>
    have ⟨h1, h2⟩ := List.pairwise_cons.mp h
    unfold firstById
    rw [if_neg (hs o (List.mem_cons_self ..))]
    congr 1
    apply ih h2
    intro a ha hm
    rcases List.mem_cons.mp hm with e | e
    · exact h1 a ha e.symm
    · exact hs a (List.mem_cons_of_mem _ ha) e

theorem dedupPrimary_fold (es : List (Key × Obj)) (hes : ∀ e ∈ es, nukEncodedPrimary e.1 = P.enc e.2.id)
    (ids : List Key) (acc : List Obj) :
    (es.foldl (fun (acc : List Key × List Obj) (x : Key × Obj) =>
        if acc.1.contains (nukEncodedPrimary x.1) then acc else (nukEncodedPrimary x.1 :: acc.1, x.2 :: acc.2))
      (ids.map P.enc, acc)).2.reverse = acc.reverse ++ firstById (es.map (·.2)) ids := by
  induction es generalizing ids acc with
  | nil => simp [firstById]
  | cons e r ih =>
    have hr : ∀ e ∈ r, nukEncodedPrimary e.1 = P.enc e.2.id := fun e he => hes e (List.mem_cons_of_mem _ he)
    have he := hes e (List.mem_cons_self ..)
    have hmem : (ids.map P.enc).contains (P.enc e.2.id) = true ↔ e.2.id ∈ ids := by
      simp only [List.contains_eq_mem, List.mem_map, decide_eq_true_eq]
      constructor
      · rintro ⟨a, ha, hae⟩; exact (enc_injective P P_wf _ _ hae) ▸ ha
      · intro h; exact ⟨_, h, rfl⟩
    rw [List.foldl_cons, List.map_cons]
    unfold firstById
    simp only [he]
    by_cases hin : e.2.id ∈ ids
    · rw [if_pos (hmem.mpr hin), if_pos hin]
      exact ih hr ids acc
    · rw [if_neg (fun h => hin (hmem.mp h)), if_neg hin]
      have := ih hr (e.2.id :: ids) (e.2 :: acc)
      simp only [List.map_cons] at this
      rw [this]
      simp

/-- **`dedupPrimary` keeps the first entry of every object** (for entries whose key decodes to
    the object's encoded id) -/
theorem dedupPrimary_eq (es : List (Key × Obj)) (hes : ∀ e ∈ es, nukEncodedPrimary e.1 = P.enc e.2.id) :
    dedupPrimary es = firstById (es.map (·.2)) [] := by
  have := dedupPrimary_fold es hes [] []
  simpa [dedupPrimary] using this

/-! ### the index as the sorted list of (tag, id, object) triples -/

/-- bound on the encoded length of the live primary keys (K2: the composite key stores the
    length in a uint16 and compares it bytewise) -/
def IdLen (B : Nat) (primary : OMap Obj) : Prop := ∀ k o, primary.get k = some o → (P.enc k).length < B

theorem IdLen.nil (B : Nat) : IdLen B [] := fun k o h => by simp at h

theorem IdLen.mono {B B' : Nat} {primary : OMap Obj} (h : IdLen B primary) (hb : B ≤ B') : IdLen B' primary :=
  fun k o hk => Nat.lt_of_lt_of_le (h k o hk) hb

theorem IdLen.insert {B : Nat} {primary : OMap Obj} (h : IdLen B primary) (n : Obj) (hn : (P.enc n.id).length < B) :
    IdLen B (primary.insert n.id n) := by
  intro k o hk
  rw [get_insert] at hk
  split at hk
  · rename_i e; rw [e]; exact hn
  · exact h k o hk

theorem IdLen.erase {B : Nat} {primary : OMap Obj} (h : IdLen B primary) (hs : Sorted primary) (id : Key) :
    IdLen B (primary.erase id) := by
  intro k o hk
  rw [get_erase _ hs] at hk
  split at hk
  · simp at hk
  · exact h k o hk

/-- the tag under which the entry `(c, x)` is stored, recovered by search in the object's tags -/
def tagOf (c : Key) (x : Obj) : Key := (x.tags.find? (fun tag => P.composite x.id tag == c)).getD []

theorem tagOf_comp (x : Obj) (tag : Key) (h : tag ∈ x.tags) : tagOf (P.composite x.id tag) x = tag := by
  unfold tagOf
  cases hf : x.tags.find? (fun tag' => P.composite x.id tag' == P.composite x.id tag) with
  | none =>
    have := List.find?_eq_none.mp hf tag h
    simp at this
  | some t' =>
    have := List.find?_some hf
    simp only [beq_iff_eq] at this
    simpa using (comp_inj _ _ _ _ this).2

/-- the non-unique index read as a list of (tag, primary key, object) -/
def tagTriples (tg : OMap Obj) : List (Key × Key × Obj) := tg.map fun e => (tagOf e.1 e.2, e.2.id, e.2)

theorem TagInv.entry {primary tg : OMap Obj} (inv : TagInv primary tg) {e : Key × Obj} (he : e ∈ tg) :
    primary.get e.2.id = some e.2 ∧ tagOf e.1 e.2 ∈ e.2.tags ∧ e.1 = P.composite e.2.id (tagOf e.1 e.2) := by
  obtain ⟨c, x⟩ := e
  have ⟨h1, tag, htag, hc⟩ := (inv.char c x).mp (mem_get_some _ inv.sorted c x he)
  simp only
  rw [hc, tagOf_comp x tag htag]
  exact ⟨h1, htag, rfl⟩

/-- **none missing, none stale**: the triples are exactly (tag, id, object) for the live objects and
    their tags -/
theorem TagInv.mem_triples {primary tg : OMap Obj} (inv : TagInv primary tg) (tag id : Key) (x : Obj) :
    (tag, id, x) ∈ tagTriples tg ↔ primary.get x.id = some x ∧ id = x.id ∧ tag ∈ x.tags := by
  unfold tagTriples
  rw [List.mem_map]
  constructor
  · rintro ⟨e, he, heq⟩
    have ⟨h1, h2, _⟩ := inv.entry he
    simp only [Prod.mk.injEq] at heq
    obtain ⟨e1, e2, e3⟩ := heq
    subst e3; subst e2; subst e1
    exact ⟨h1, rfl, h2⟩
  · rintro ⟨h1, rfl, h3⟩
    refine ⟨(P.composite x.id tag, x), ?_, ?_⟩
    · exact get_some_mem _ _ _ ((inv.char _ _).mpr ⟨h1, tag, h3, rfl⟩)
    · simp only [tagOf_comp x tag h3]

/-- **no object twice for one key**: no (tag, id) pair occurs twice -/
theorem TagInv.triples_distinct {primary tg : OMap Obj} (inv : TagInv primary tg) :
    (tagTriples tg).Pairwise (fun a b => ¬ (a.1 = b.1 ∧ a.2.1 = b.2.1)) := by
  unfold tagTriples
  rw [List.pairwise_map]
  have hs : Sorted tg := inv.sorted
  unfold Sorted at hs
  refine List.Pairwise.imp_of_mem ?_ hs
  intro a b ha hb hlt
  rintro ⟨e1, e2⟩
  simp only at e1 e2
  have ⟨_, _, ca⟩ := inv.entry ha
  have ⟨_, _, cb⟩ := inv.entry hb
  rw [ca, cb, e1, e2, cmpL_refl] at hlt
  simp at hlt

/-- **ascending index-key order, ties broken by primary key** (under C18's bound on the encoded
    primary keys, K2) -/
theorem TagInv.triples_sorted {primary tg : OMap Obj} (inv : TagInv primary tg) (hl : IdLen 256 primary) :
    (tagTriples tg).Pairwise (fun a b => Ordering.thenO (cmpL a.1 b.1) (cmpL a.2.1 b.2.1) = .lt) := by
  unfold tagTriples
  rw [List.pairwise_map]
  have hs : Sorted tg := inv.sorted
  unfold Sorted at hs
  refine List.Pairwise.imp_of_mem ?_ hs
  intro a b ha hb hlt
  have ⟨la, _, ca⟩ := inv.entry ha
  have ⟨lb, _, cb⟩ := inv.entry hb
  rw [ca, cb, composite_cmp_partial P P_wf _ _ _ _ (hl _ _ la) (hl _ _ lb)] at hlt
  exact hlt

/-! ### the queries as filters of the triple list -/

theorem filter_triples (tg : OMap Obj) (q : Key × Key × Obj → Bool) :
    ((tagTriples tg).filter q).map (·.2.2) =
      (tg.filter (fun e => q (tagOf e.1 e.2, e.2.id, e.2))).map (·.2) := by
  unfold tagTriples
  rw [List.filter_map, List.map_map]
  rfl

/-- `List` through the non-unique index: the triples whose tag is the query, in index order -/
theorem qList_tags_eq (t : TableS) (inv : TagInv t.primary t.tagIdx) (hl : IdLen 65536 t.primary)
    (key : Key) (plen : Nat) :
    qList t .tags key plen = ((tagTriples t.tagIdx).filter (fun tr => tr.1 == key)).map (·.2.2) := by
  rw [filter_triples]
  simp only [qList, prefixQ, List.filter_filter]
  congr 1
  apply List.filter_congr
  intro e he
  have ⟨h1, _, h3⟩ := inv.entry he
  have hm := comp_list_match e.2.id (tagOf e.1 e.2) key (hl _ _ h1)
  rw [← h3] at hm
  obtain ⟨c, x⟩ := e
  simp only at hm ⊢
  by_cases hk : tagOf c x = key
  · have := hm.mpr hk
    simp [this.1, this.2, hk]
  · have : ¬ (hasPrefix c (P.enc key) = true ∧ (nukSecLen c == ((P.enc key).length : Int)) = true) :=
      fun h => hk (hm.mp h)
    have hk' : (tagOf c x == key) = false := by simpa using hk
    rw [hk']
    simp only [Bool.and_eq_false_iff]
    by_cases hp : hasPrefix c (P.enc key) = true
    · left; simpa using fun h => this ⟨hp, h⟩
    · right; simpa using hp

/-- `Get` through the non-unique index is the first element of `List` -/
theorem qGet_tags_eq (t : TableS) (key : Key) (plen : Nat) :
    qGet t .tags key plen = (qList t .tags key plen).head? := by
  simp only [qGet, qList]
  rw [List.head?_map, List.head?_filter]

/-- `Prefix` through the non-unique index: the triples whose tag has the query as a prefix, in
    index order, every object at its first occurrence only -/
theorem qPrefix_tags_eq (t : TableS) (inv : TagInv t.primary t.tagIdx) (hl : IdLen 65536 t.primary)
    (key : Key) (plen : Nat) :
    qPrefix t .tags key plen =
      firstById (((tagTriples t.tagIdx).filter (fun tr => hasPrefix tr.1 key)).map (·.2.2)) [] := by
  rw [filter_triples]
  simp only [qPrefix]
  rw [dedupPrimary_eq]
  · congr 2
    simp only [prefixQ, List.filter_filter]
    apply List.filter_congr
    intro e he
    have ⟨h1, _, h3⟩ := inv.entry he
    have hm := comp_prefix_match e.2.id (tagOf e.1 e.2) key (hl _ _ h1)
    rw [← h3, ← hasPrefix_iff] at hm
    obtain ⟨c, x⟩ := e
    simp only at hm ⊢
    by_cases hk : hasPrefix (tagOf c x) key = true
    · have := hm.mpr hk
      simp only [this.1, this.2, hk, Bool.and_self]
    · have hk' : hasPrefix (tagOf c x) key = false := by simpa using hk
      rw [hk']
      simp only [Bool.and_eq_false_iff]
      by_cases hp : hasPrefix c (P.enc key) = true
      · left
        have : ¬ decide (nukSecLen c ≥ ((P.enc key).length : Int)) = true := fun h => hk (hm.mp ⟨hp, h⟩)
        simpa using this
      · right; simpa using hp
  · intro e he
    have he' : e ∈ t.tagIdx := (List.mem_filter.mp (List.mem_filter.mp he).1).1
    have ⟨h1, _, h3⟩ := inv.entry he'
    rw [h3]
    exact comp_encPrimary _ _ (hl _ _ h1)

/-- `LowerBound` through the non-unique index: the triples whose tag is not below the query, in
    index order, every object at its first occurrence only -/
theorem qLowerBound_tags_eq (t : TableS) (inv : TagInv t.primary t.tagIdx) (hl : IdLen 65536 t.primary)
    (key : Key) (plen : Nat) :
    qLowerBound t .tags key plen =
      firstById (((tagTriples t.tagIdx).filter (fun tr => cmpL tr.1 key != .lt)).map (·.2.2)) [] := by
  rw [filter_triples]
  simp only [qLowerBound]
  rw [dedupPrimary_eq]
  · congr 2
    simp only [lowerBound, List.filter_filter]
    apply List.filter_congr
    intro e he
    have ⟨h1, _, h3⟩ := inv.entry he
    have hm := comp_lowerBound_match e.2.id (tagOf e.1 e.2) key (hl _ _ h1)
    rw [← h3] at hm
    obtain ⟨c, x⟩ := e
    simp only at hm ⊢
    by_cases hk : cmpL (tagOf c x) key ≠ .lt
    · have := hm.mpr hk
      have hk' : (cmpL (tagOf c x) key != .lt) = true := by simpa using hk
      simp only [this.1, this.2, hk', Bool.and_self]
    · have hk' : (cmpL (tagOf c x) key != .lt) = false := by simpa using hk
      rw [hk']
      simp only [Bool.and_eq_false_iff]
      by_cases hp : (cmpL c (P.enc key) != .lt) = true
      · left
        have : ¬ (cmpL (nukEncodedSecondary c) (P.enc key) != .lt) = true := fun h => hk (hm.mp ⟨hp, h⟩)
        simpa using this
      · right; simpa using hp
  · intro e he
    have he' : e ∈ t.tagIdx := (List.mem_filter.mp (List.mem_filter.mp he).1).1
    have ⟨h1, _, h3⟩ := inv.entry he'
    rw [h3]
    exact comp_encPrimary _ _ (hl _ _ h1)

/-! ### consequences: exact membership, no duplicates, order -/

theorem TagInv.mem_filter_triples {primary tg : OMap Obj} (inv : TagInv primary tg) (q : Key → Bool) (x : Obj) :
    x ∈ ((tagTriples tg).filter (fun tr => q tr.1)).map (·.2.2) ↔
      primary.get x.id = some x ∧ ∃ tag ∈ x.tags, q tag = true := by
  rw [List.mem_map]
  constructor
  · rintro ⟨⟨tag, id, y⟩, hm, rfl⟩
    have ⟨h1, h2⟩ := List.mem_filter.mp hm
    have ⟨a, _, c⟩ := (inv.mem_triples tag id y).mp h1
    exact ⟨a, tag, c, h2⟩
  · rintro ⟨h1, tag, htag, hq⟩
    exact ⟨(tag, x.id, x), List.mem_filter.mpr ⟨(inv.mem_triples _ _ _).mpr ⟨h1, rfl, htag⟩, hq⟩, rfl⟩

theorem TagInv.filter_triples_same_id {primary tg : OMap Obj} (inv : TagInv primary tg) (q : Key → Bool) :
    ∀ a ∈ ((tagTriples tg).filter (fun tr => q tr.1)).map (·.2.2),
    ∀ b ∈ ((tagTriples tg).filter (fun tr => q tr.1)).map (·.2.2), a.id = b.id → a = b := by
  intro a ha b hb e
  have h1 := ((inv.mem_filter_triples q a).mp ha).1
  have h2 := ((inv.mem_filter_triples q b).mp hb).1
  rw [e, h2] at h1
  simpa using h1.symm

/-- **`List`: exactly the live objects having the tag** -/
theorem TagInv.mem_qList {t : TableS} (inv : TagInv t.primary t.tagIdx) (hl : IdLen 65536 t.primary)
    (key : Key) (plen : Nat) (x : Obj) :
    x ∈ qList t .tags key plen ↔ t.primary.get x.id = some x ∧ key ∈ x.tags := by
  rw [qList_tags_eq t inv hl, inv.mem_filter_triples (fun tag => tag == key)]
  constructor
  · rintro ⟨h1, tag, htag, hq⟩; exact ⟨h1, (eq_of_beq hq) ▸ htag⟩
  · rintro ⟨h1, h2⟩; exact ⟨h1, key, h2, by simp⟩

/-- **`List`: each object once, in ascending primary-key order** (K2: encoded primary keys below 256 bytes) -/
theorem TagInv.qList_sorted {t : TableS} (inv : TagInv t.primary t.tagIdx) (hl : IdLen 256 t.primary)
    (key : Key) (plen : Nat) :
    (qList t .tags key plen).Pairwise (fun a b => cmpL a.id b.id = .lt) := by
  rw [qList_tags_eq t inv (hl.mono (by omega)), List.pairwise_map]
  refine List.Pairwise.imp_of_mem ?_ (List.Pairwise.filter _ (inv.triples_sorted hl))
  intro a b ha hb hlt
  have ⟨ha1, ha2⟩ := List.mem_filter.mp ha
  have ⟨hb1, hb2⟩ := List.mem_filter.mp hb
  obtain ⟨ta, ia, xa⟩ := a
  obtain ⟨tb, ib, xb⟩ := b
  have ea := ((inv.mem_triples _ _ _).mp ha1).2.1
  have eb := ((inv.mem_triples _ _ _).mp hb1).2.1
  simp only [beq_iff_eq] at ha2 hb2
  subst ha2; subst hb2; subst ea; subst eb
  simpa [Ordering.thenO, cmpL_refl] using hlt

/-- `List`: no object twice (needs only the uint16 bound) -/
theorem TagInv.qList_nodup {t : TableS} (inv : TagInv t.primary t.tagIdx) (hl : IdLen 65536 t.primary)
    (key : Key) (plen : Nat) :
    (qList t .tags key plen).Pairwise (fun a b => a.id ≠ b.id) := by
  rw [qList_tags_eq t inv hl, List.pairwise_map]
  refine List.Pairwise.imp_of_mem ?_ (List.Pairwise.filter _ inv.triples_distinct)
  intro a b ha hb hne
  have ⟨ha1, ha2⟩ := List.mem_filter.mp ha
  have ⟨hb1, hb2⟩ := List.mem_filter.mp hb
  obtain ⟨ta, ia, xa⟩ := a
  obtain ⟨tb, ib, xb⟩ := b
  have ea := ((inv.mem_triples _ _ _).mp ha1).2.1
  have eb := ((inv.mem_triples _ _ _).mp hb1).2.1
  simp only [beq_iff_eq] at ha2 hb2
  subst ha2; subst hb2; subst ea; subst eb
  intro e
  exact hne ⟨rfl, e⟩

/-- **`Prefix`: exactly the live objects with a tag that has the query as a prefix** -/
theorem TagInv.mem_qPrefix {t : TableS} (inv : TagInv t.primary t.tagIdx) (hl : IdLen 65536 t.primary)
    (key : Key) (plen : Nat) (x : Obj) :
    x ∈ qPrefix t .tags key plen ↔ t.primary.get x.id = some x ∧ ∃ tag ∈ x.tags, key <+: tag := by
  rw [qPrefix_tags_eq t inv hl, mem_firstById _ (inv.filter_triples_same_id (fun tag => hasPrefix tag key)),
    inv.mem_filter_triples (fun tag => hasPrefix tag key)]
  simp only [List.not_mem_nil, not_false_eq_true, and_true, hasPrefix_iff]

/-- **`LowerBound`: exactly the live objects with a tag not below the query** -/
theorem TagInv.mem_qLowerBound {t : TableS} (inv : TagInv t.primary t.tagIdx) (hl : IdLen 65536 t.primary)
    (key : Key) (plen : Nat) (x : Obj) :
    x ∈ qLowerBound t .tags key plen ↔ t.primary.get x.id = some x ∧ ∃ tag ∈ x.tags, cmpL tag key ≠ .lt := by
  rw [qLowerBound_tags_eq t inv hl, mem_firstById _ (inv.filter_triples_same_id (fun tag => cmpL tag key != .lt)),
    inv.mem_filter_triples (fun tag => cmpL tag key != .lt)]
  simp

theorem TagInv.qPrefix_nodup {t : TableS} (inv : TagInv t.primary t.tagIdx) (hl : IdLen 65536 t.primary)
    (key : Key) (plen : Nat) : (qPrefix t .tags key plen).Pairwise (fun a b => a.id ≠ b.id) := by
  rw [qPrefix_tags_eq t inv hl]; exact firstById_ids_nodup _ _

theorem TagInv.qLowerBound_nodup {t : TableS} (inv : TagInv t.primary t.tagIdx) (hl : IdLen 65536 t.primary)
    (key : Key) (plen : Nat) : (qLowerBound t .tags key plen).Pairwise (fun a b => a.id ≠ b.id) := by
  rw [qLowerBound_tags_eq t inv hl]; exact firstById_ids_nodup _ _

end Sdb.Tbl
