import SdbModel.Model.Conc

/-!
  ConcSimMicro — `Conc.step` as a sequence of MICRO steps.

  `Conc.runThread` runs a thread from one park to the next.  Here the run is cut
  into its individual micro steps (`mstep`: pop one `Micro` off the program and
  apply its effect; the end of the program sets `done`), and `Conc.step` is shown
  to be: nothing, or the installation of the thread record reached by a finite
  chain of `mstep`s (`step_cases`).  Everything proved later about a single
  micro step therefore lifts to scheduler steps, WHATEVER the fuel and wherever
  the parks are — which is what makes the simulation insensitive to added hooks.
  Protocol independent.  Core Lean only.
-/
namespace Sdb.Conc

/-- one micro step of thread `tid` whose current record is `th` (the record in
    `st.threads` is stale during a run); `none` = blocked or finished -/
def mstep (st : State) (tid : Nat) (th : Thread) : Option (State × Thread) :=
  match th.prog with
  | [] => if th.done then none else some (st, { th with done := true })
  | m :: rest =>
    let th' := { th with prog := rest }
    match m with
    | .park _ => some (st, th')
    | .acquire t =>
      if (st.lockOwner.getD t none).isSome then none
      else some ({ st with lockOwner := st.lockOwner.set t (some tid) }, th')
    | .release t => some ({ st with lockOwner := st.lockOwner.set t none }, th')
    | .acquireRoot => if st.rootMu.isSome then none else some ({ st with rootMu := some tid }, th')
    | .releaseRoot => some ({ st with rootMu := none }, th')
    | .act a => some (doAct st th' a)
    | .userWrites => some (doUserWrites st th')

/-- reflexive-transitive closure of `mstep` for a fixed thread id -/
inductive MStar (tid : Nat) : State × Thread → State × Thread → Prop where
  | refl (a : State × Thread) : MStar tid a a
  | tail (a b c : State × Thread) : MStar tid a b → mstep b.1 tid b.2 = some c → MStar tid a c

theorem MStar.head {tid : Nat} {a b c : State × Thread} (h1 : mstep a.1 tid a.2 = some b) (h2 : MStar tid b c) :
    MStar tid a c := by
  induction h2 with
  | refl => exact .tail _ _ _ (.refl _) h1
  | tail b' c' _ h ih => exact .tail _ _ _ ih h

/-- an invariant of single micro steps holds along a chain -/
theorem MStar.invariant {tid : Nat} (I : State × Thread → Prop)
    (hstep : ∀ a b, I a → mstep a.1 tid a.2 = some b → I b)
    {a b : State × Thread} (h : MStar tid a b) (ha : I a) : I b := by
  induction h with
  | refl => exact ha
  | tail b c _ hs ih => exact hstep b c ih hs

theorem thread_prog_eta (th : Thread) (p : List Micro) (h : th.prog = p) : { th with prog := p } = th := by
  cases th; simp_all

theorem doAct_done (st : State) (th : Thread) (a : Act) : (doAct st th a).2.done = th.done := by
  cases a <;> rfl

theorem doUserWrites_done (st : State) (th : Thread) : (doUserWrites st th).2.done = th.done := by
  simp only [doUserWrites]

/-! unfolding equations of `runThread` -/

theorem runThread_nil (st : State) (tid : Nat) (th : Thread) (fuel : Nat) (hp : th.prog = []) :
    runThread st tid th (fuel + 1) = (st, { th with done := true }, "done") := by
  rw [runThread]; simp only [hp]

theorem runThread_park (st : State) (tid : Nat) (th : Thread) (fuel : Nat) (l : String) (rest : List Micro)
    (hp : th.prog = .park l :: rest) : runThread st tid th (fuel + 1) = (st, th, l) := by
  rw [runThread]; simp only [hp]
  rw [thread_prog_eta _ _ hp]

theorem runThread_acquire_blocked (st : State) (tid : Nat) (th : Thread) (fuel : Nat) (t : Nat) (rest : List Micro)
    (hp : th.prog = .acquire t :: rest) (hb : (st.lockOwner.getD t none).isSome = true) :
    runThread st tid th (fuel + 1) = (st, th, "blocked") := by
  rw [runThread]; simp only [hp]; rw [if_pos hb]
  rw [thread_prog_eta _ _ hp]

theorem runThread_acquire (st : State) (tid : Nat) (th : Thread) (fuel : Nat) (t : Nat) (rest : List Micro)
    (hp : th.prog = .acquire t :: rest) (hb : ¬ (st.lockOwner.getD t none).isSome = true) :
    runThread st tid th (fuel + 1) =
      runThread { st with lockOwner := st.lockOwner.set t (some tid) } tid { th with prog := rest } fuel := by
  rw [runThread]; simp only [hp]; rw [if_neg hb]

theorem runThread_release (st : State) (tid : Nat) (th : Thread) (fuel : Nat) (t : Nat) (rest : List Micro)
    (hp : th.prog = .release t :: rest) :
    runThread st tid th (fuel + 1) =
      runThread { st with lockOwner := st.lockOwner.set t none } tid { th with prog := rest } fuel := by
  rw [runThread]; simp only [hp]

theorem runThread_acquireRoot_blocked (st : State) (tid : Nat) (th : Thread) (fuel : Nat) (rest : List Micro)
    (hp : th.prog = .acquireRoot :: rest) (hb : st.rootMu.isSome = true) :
    runThread st tid th (fuel + 1) = (st, th, "blocked") := by
  rw [runThread]; simp only [hp]; rw [if_pos hb]
  rw [thread_prog_eta _ _ hp]

theorem runThread_acquireRoot (st : State) (tid : Nat) (th : Thread) (fuel : Nat) (rest : List Micro)
    (hp : th.prog = .acquireRoot :: rest) (hb : ¬ st.rootMu.isSome = true) :
    runThread st tid th (fuel + 1) = runThread { st with rootMu := some tid } tid { th with prog := rest } fuel := by
  rw [runThread]; simp only [hp]; rw [if_neg hb]

theorem runThread_releaseRoot (st : State) (tid : Nat) (th : Thread) (fuel : Nat) (rest : List Micro)
    (hp : th.prog = .releaseRoot :: rest) :
    runThread st tid th (fuel + 1) = runThread { st with rootMu := none } tid { th with prog := rest } fuel := by
  rw [runThread]; simp only [hp]

theorem runThread_act (st : State) (tid : Nat) (th : Thread) (fuel : Nat) (a : Act) (rest : List Micro)
    (hp : th.prog = .act a :: rest) :
    runThread st tid th (fuel + 1) =
      runThread (doAct st { th with prog := rest } a).1 tid (doAct st { th with prog := rest } a).2 fuel := by
  rw [runThread]; simp only [hp]

theorem runThread_userWrites (st : State) (tid : Nat) (th : Thread) (fuel : Nat) (rest : List Micro)
    (hp : th.prog = .userWrites :: rest) :
    runThread st tid th (fuel + 1) =
      runThread (doUserWrites st { th with prog := rest }).1 tid (doUserWrites st { th with prog := rest }).2 fuel := by
  rw [runThread]; simp only [hp]

/-- a run of `runThread` is a chain of micro steps -/
theorem runThread_mstar (tid : Nat) : ∀ (fuel : Nat) (st : State) (th : Thread), th.done = false →
    MStar tid (st, th) ((runThread st tid th fuel).1, (runThread st tid th fuel).2.1) := by
  intro fuel
  induction fuel with
  | zero => intro st th _; exact .refl _
  | succ fuel ih =>
    intro st th hd
    cases hp : th.prog with
    | nil =>
      rw [runThread_nil _ _ _ _ hp]
      refine .tail _ _ _ (.refl _) ?_
      simp [mstep, hp, hd]
    | cons m rest =>
      cases m with
      | park l => rw [runThread_park _ _ _ _ _ _ hp]; exact .refl _
      | acquire t =>
        by_cases hb : (st.lockOwner.getD t none).isSome = true
        · rw [runThread_acquire_blocked _ _ _ _ _ _ hp hb]; exact .refl _
        · rw [runThread_acquire _ _ _ _ _ _ hp hb]
          refine MStar.head (b := (_, _)) ?_ (ih _ _ (by simpa using hd))
          simp only [mstep, hp]; rw [if_neg hb]
      | release t =>
        rw [runThread_release _ _ _ _ _ _ hp]
        refine MStar.head (b := (_, _)) ?_ (ih _ _ (by simpa using hd))
        simp only [mstep, hp]
      | acquireRoot =>
        by_cases hb : st.rootMu.isSome = true
        · rw [runThread_acquireRoot_blocked _ _ _ _ _ hp hb]; exact .refl _
        · rw [runThread_acquireRoot _ _ _ _ _ hp hb]
          refine MStar.head (b := (_, _)) ?_ (ih _ _ (by simpa using hd))
          simp only [mstep, hp]; rw [if_neg hb]
      | releaseRoot =>
        rw [runThread_releaseRoot _ _ _ _ _ hp]
        refine MStar.head (b := (_, _)) ?_ (ih _ _ (by simpa using hd))
        simp only [mstep, hp]
      | act a =>
        rw [runThread_act _ _ _ _ _ _ hp]
        refine MStar.head (b := doAct st { th with prog := rest } a) ?_ (ih _ _ ((doAct_done _ _ _).trans hd))
        simp only [mstep, hp]
      | userWrites =>
        rw [runThread_userWrites _ _ _ _ _ hp]
        refine MStar.head (b := doUserWrites st { th with prog := rest }) ?_
          (ih _ _ ((doUserWrites_done _ _).trans hd))
        simp only [mstep, hp]

/-- the state with the record of thread `tid` replaced -/
def install (st : State) (tid : Nat) (th : Thread) : State := { st with threads := st.threads.set tid th }

/-- a scheduler step does nothing, or installs the result of a chain of micro
    steps of a thread that was not finished -/
theorem step_cases (st : State) (tid : Nat) :
    (step st tid).1 = st ∨
    ∃ (th : Thread) (st' : State) (th' : Thread), st.threads[tid]? = some th ∧ th.done = false ∧
      MStar tid (st, th) (st', th') ∧ (step st tid).1 = install st' tid th' := by
  unfold step
  split
  · exact Or.inl rfl
  · rename_i th hth
    by_cases hd : th.done = true
    · simp [hd]
    · have hd' : th.done = false := by simpa using hd
      rw [if_neg hd]
      by_cases he : (!th.enabled st) = true
      · simp [he]
      · rw [if_neg he]
        right
        refine ⟨th, _, _, hth, hd', ?_, rfl⟩
        cases hp : th.prog with
        | nil => simp only []; exact runThread_mstar tid _ st th hd'
        | cons m rest =>
          cases m with
          | park l =>
            simp only []
            refine MStar.head (b := (st, { th with prog := rest })) ?_ (runThread_mstar tid _ _ _ (by simpa using hd'))
            simp only [mstep, hp]
          | _ => simp only []; exact runThread_mstar tid _ st th hd'

end Sdb.Conc
