import SdbModel.Lemmas.ReconcilerTimer

/-!
  Lemmas.ReconcilerMeasure — once nothing fails any more, every triggered round
  strictly decreases a measure of the outstanding work, so the loop goes idle.
-/
namespace Sdb.Rec


/-! ## sums and counts -/

theorem sum_map_le {α} (l : List α) (f g : α → Nat) (h : ∀ x ∈ l, f x ≤ g x) : (l.map f).sum ≤ (l.map g).sum := by
  induction l with
  | nil => simp
  | cons a as ih =>
    simp only [List.map_cons, List.sum_cons]
    have := h a (List.mem_cons_self ..)
    have := ih (fun x hx => h x (List.mem_cons_of_mem _ hx))
    omega

theorem sum_map_add_le {α} (l : List α) (f g : α → Nat) (h : ∀ x ∈ l, f x ≤ g x) (a : α) (ha : a ∈ l) (k : Nat)
    (hk : f a + k ≤ g a) : (l.map f).sum + k ≤ (l.map g).sum := by
  induction l with
  | nil => cases ha
  | cons b bs ih =>
    simp only [List.map_cons, List.sum_cons]
    rcases List.mem_cons.1 ha with rfl | ha'
    · have := sum_map_le bs f g (fun x hx => h x (List.mem_cons_of_mem _ hx))
      omega
    · have := h b (List.mem_cons_self ..)
      have := ih (fun x hx => h x (List.mem_cons_of_mem _ hx)) ha'
      omega

theorem length_filter_le_of_imp {α} (l : List α) (p q : α → Bool) (h : ∀ x ∈ l, p x = true → q x = true) :
    (l.filter p).length ≤ (l.filter q).length := by
  induction l with
  | nil => simp
  | cons a as ih =>
    have := ih (fun x hx => h x (List.mem_cons_of_mem _ hx))
    have ha := h a (List.mem_cons_self ..)
    simp only [List.filter_cons]
    cases hp : p a <;> cases hq : q a <;> simp_all <;> omega

theorem length_filter_succ_le {α} (l : List α) (p q : α → Bool) (h : ∀ x ∈ l, p x = true → q x = true) (a : α) (ha : a ∈ l)
    (hpa : p a = false) (hqa : q a = true) : (l.filter p).length + 1 ≤ (l.filter q).length := by
  induction l with
  | nil => cases ha
  | cons b bs ih =>
    simp only [List.filter_cons]
    rcases List.mem_cons.1 ha with rfl | ha'
    · have := length_filter_le_of_imp bs p q (fun x hx => h x (List.mem_cons_of_mem _ hx))
      simp [hpa, hqa]; omega
    · have := ih (fun x hx => h x (List.mem_cons_of_mem _ hx)) ha'
      have hb := h b (List.mem_cons_self ..)
      cases hp : p b <;> cases hq : q b <;> simp_all <;> omega

theorem length_filter_succ_le_length {α} (l : List α) (p : α → Bool) (a : α) (ha : a ∈ l) (hpa : p a = false) :
    (l.filter p).length + 1 ≤ l.length := by
  have := length_filter_succ_le l p (fun _ => true) (fun _ _ _ => rfl) a ha hpa rfl
  have e : l.filter (fun _ => true) = l := List.filter_eq_self.2 (fun _ _ => rfl)
  rw [e] at this; exact this

/-! ## the measure -/

/-- weight of a live object: 2 if it is still to be processed, 1 if it merely is to be passed, 0 if the iterator has passed it -/
def wObj (itRev : Nat) (o : RObj) : Nat := if o.rev > itRev then (if needs o.kind then 2 else 1) else 0

theorem wObj_le_two (v : Nat) (o : RObj) : wObj v o ≤ 2 := by
  unfold wObj; split
  · split <;> omega
  · omega

theorem wObj_mono {v v' : Nat} (h : v ≤ v') (o : RObj) : wObj v' o ≤ wObj v o := by
  unfold wObj
  by_cases h1 : o.rev > v' <;> by_cases h2 : o.rev > v <;> simp [h1, h2]
  · split <;> omega

def mObjs (r : R) : Nat := (r.objs.map (wObj r.itRev)).sum
def mDels (r : R) : Nat := (r.dels.filter (·.2 > r.itDelRev)).length

/-- outstanding work, with `k` results waiting to be committed -/
def M1 (r : R) (k : Nat) : Nat := mObjs r + mDels r + 2 * r.items.length + k

/-- the measure of a between-round state -/
def Mz (r : R) : Nat := 3 * M1 r 0 + (if r.pending.isSome then 1 else 0) + (if r.refreshedAt = r.tableRev then 0 else 1)

theorem setObj_objs_of_mem (r : R) (o cur : RObj) (hcur : cur ∈ r.objs) (hid : cur.id = o.id) :
    (r.setObj o).objs = r.objs.map (fun x => if x.id = o.id then { o with rev := r.tableRev + 1 } else x) := by
  unfold R.setObj
  simp only
  have : r.objs.any (fun x => decide (x.id = o.id)) = true := by
    rw [List.any_eq_true]; exact ⟨cur, hcur, by simpa using hid⟩
  rw [if_pos this]

theorem map_repl_of_not_mem (l : List RObj) (id : Nat) (n : RObj) (h : ∀ x ∈ l, x.id ≠ id) :
    l.map (fun x => if x.id = id then n else x) = l := by
  induction l with
  | nil => rfl
  | cons b bs ih =>
    simp only [List.map_cons]
    rw [if_neg (h b (List.mem_cons_self ..)), ih (fun x hx => h x (List.mem_cons_of_mem _ hx))]

theorem sum_map_repl_le (l : List RObj) (w : RObj → Nat) (id : Nat) (n : RObj)
    (hpw : l.Pairwise (fun a b => a.id ≠ b.id ∧ a.rev ≠ b.rev)) :
    ((l.map (fun x => if x.id = id then n else x)).map w).sum ≤ (l.map w).sum + w n := by
  induction l with
  | nil => simp
  | cons b bs ih =>
    rw [List.pairwise_cons] at hpw
    simp only [List.map_cons, List.sum_cons]
    by_cases hb : b.id = id
    · rw [if_pos hb, map_repl_of_not_mem bs id n (fun x hx e => (hpw.1 x hx).1 (hb.trans e.symm))]
      omega
    · rw [if_neg hb]
      have := ih hpw.2
      omega

/-- a status commit adds at most the weight of the rewritten object -/
theorem mObjs_setObj_le {r r' : R} (ht : TInv r) (o cur : RObj) (hcur : cur ∈ r.objs) (hid : cur.id = o.id)
    (h1 : r'.objs = (r.setObj o).objs) (h4 : r'.itRev = r.itRev) (hk : ¬ needs o.kind) : mObjs r' ≤ mObjs r + 1 := by
  unfold mObjs
  rw [h1, h4, setObj_objs_of_mem r o cur hcur hid]
  have := sum_map_repl_le r.objs (wObj r.itRev) o.id { o with rev := r.tableRev + 1 } ht.objs_pw
  have hw : wObj r.itRev { o with rev := r.tableRev + 1 } ≤ 1 := by
    unfold wObj; simp only
    split
    · exact Nat.le_refl _
    · omega
  omega

theorem mDels_filter_le {r r' : R} (p : RObj × Nat → Bool) (h2 : r'.dels = r.dels.filter p) (h5 : r'.itDelRev = r.itDelRev) :
    mDels r' ≤ mDels r := by
  unfold mDels
  rw [h2, h5, List.filter_filter]
  exact length_filter_le_of_imp _ _ _ (fun x _ hx => by simp only [Bool.and_eq_true] at hx; exact hx.1)

theorem isFailing_of_nil {r : R} (h : r.failing = []) (id : Nat) : r.isFailing id = false := by
  unfold R.isFailing; rw [h]; rfl

/-- in-round measure: the results waiting to be committed count 1 each -/
def M1r (r : R) : Nat := M1 r r.results.length

/-- `consume` passes an object that needs no processing -/
theorem m1_skip {r : R} (c : Change) (ho : c.obj ∈ r.objs) (hn : ¬ needs c.obj.kind) (hrev : c.rev = c.obj.rev)
    (hgt : c.rev > r.itRev) : M1r { r with itRev := c.rev } + 1 ≤ M1r r := by
  unfold M1r M1 mObjs mDels
  simp only
  have := sum_map_add_le r.objs (wObj c.rev) (wObj r.itRev) (fun x _ => wObj_mono (by omega) x) c.obj ho 1 (by
    unfold wObj
    rw [if_neg (by omega), if_pos (by omega), if_neg hn]; exact Nat.le_refl _)
  omega

/-- `consume` processes a changed live object (success) -/
theorem m1_consume_upd {r : R} (hf : r.failing = []) (hinj : r.injects = []) (c : Change) (ho : c.obj ∈ r.objs)
    (hn : needs c.obj.kind) (hrev : c.rev = c.obj.rev) (hgt : c.rev > r.itRev) :
    M1r ((R.retryClear { r with itRev := c.rev } c.obj.id).processSingle c.obj c.rev false) + 1 ≤ M1r r := by
  have hinj' : (R.retryClear { r with itRev := c.rev } c.obj.id).injects = [] := by rw [retryClear_injects]; exact hinj
  rw [processSingle_update hinj']
  have hfail : (R.retryClear { r with itRev := c.rev } c.obj.id).isFailing c.obj.id = false :=
    isFailing_of_nil (by rw [retryClear_failing]; exact hf) _
  rw [hfail]
  simp only [Bool.false_eq_true, if_false]
  unfold M1r M1 mObjs mDels
  simp only [retryClear_objs, retryClear_dels, retryClear_itRev, retryClear_itDelRev, retryClear_results, retryClear_items,
    List.length_append, List.length_singleton]
  have h1 := sum_map_add_le r.objs (wObj c.rev) (wObj r.itRev) (fun x _ => wObj_mono (by omega) x) c.obj ho 2 (by
    unfold wObj
    rw [if_neg (by omega), if_pos (by omega), if_pos hn]; exact Nat.le_refl _)
  have h2 : ((r.items.filter (·.id ≠ c.obj.id)).filter (·.id ≠ c.obj.id)).length ≤ r.items.length :=
    Nat.le_trans (List.length_filter_le _ _) (List.length_filter_le _ _)
  omega

/-- `consume` processes a deletion (success) -/
theorem m1_consume_del {r : R} (hf : r.failing = []) (c : Change) (hd : (c.obj, c.rev) ∈ r.dels) (hgt : c.rev > r.itDelRev) :
    M1r ((R.retryClear { r with itDelRev := c.rev } c.obj.id).processSingle c.obj c.rev true) + 1 ≤ M1r r := by
  rw [processSingle_delete]
  have hfail : (R.retryClear { r with itDelRev := c.rev } c.obj.id).isFailing c.obj.id = false :=
    isFailing_of_nil (by rw [retryClear_failing]; exact hf) _
  rw [hfail]
  simp only [Bool.false_eq_true, if_false]
  unfold M1r M1 mObjs mDels
  simp only [retryClear_objs, retryClear_dels, retryClear_itRev, retryClear_itDelRev, retryClear_results, retryClear_items]
  have h1 := length_filter_succ_le r.dels (fun d => decide (d.2 > c.rev)) (fun d => decide (d.2 > r.itDelRev))
    (fun x _ hx => by simp only [decide_eq_true_eq] at hx ⊢; omega) (c.obj, c.rev) hd (by simp) (by simpa using hgt)
  have h2 : ((r.items.filter (·.id ≠ c.obj.id)).filter (·.id ≠ c.obj.id)).length ≤ r.items.length :=
    Nat.le_trans (List.length_filter_le _ _) (List.length_filter_le _ _)
  omega

/-- a due retry is processed (success) -/
theorem m1_retry {r : R} (hf : r.failing = []) (hinj : r.injects = []) (it0 : Item) (hh : r.head = some it0)
    (hobj : it0.obj.id = it0.id) :
    M1r (r.retryPop.processSingle it0.obj it0.rev it0.delete) + 1 ≤ M1r r := by
  have hit0 := (head_spec hh).1
  have hfail : r.retryPop.isFailing it0.obj.id = false := isFailing_of_nil (by rw [retryPop_failing]; exact hf) _
  have hlen : ((r.retryPop.items).filter (·.id ≠ it0.obj.id)).length + 1 ≤ r.items.length := by
    rw [retryPop_items r it0 hh, hobj, filter_map_pop]
    exact length_filter_succ_le_length _ _ it0 hit0 (by simp)
  cases hd : it0.delete with
  | true =>
    rw [processSingle_delete, hfail]
    simp only [Bool.false_eq_true, if_false]
    unfold M1r M1 mObjs mDels
    simp only [retryClear_objs, retryClear_dels, retryClear_itRev, retryClear_itDelRev, retryClear_results, retryClear_items,
      retryPop_objs, retryPop_dels, retryPop_itRev, retryPop_itDelRev, retryPop_results]
    omega
  | false =>
    have hinj' : r.retryPop.injects = [] := by rw [retryPop_injects]; exact hinj
    rw [processSingle_update hinj', hfail]
    simp only [Bool.false_eq_true, if_false]
    unfold M1r M1 mObjs mDels
    simp only [retryClear_objs, retryClear_dels, retryClear_itRev, retryClear_itDelRev, retryClear_results, retryClear_items,
      retryPop_objs, retryPop_dels, retryPop_itRev, retryPop_itDelRev, retryPop_results, List.length_append, List.length_singleton]
    omega

theorem m1_commit_core {r r' : R} (ht : TInv r) (o cur : RObj) (hcur : cur ∈ r.objs) (hid : cur.id = o.id) (hk : ¬ needs o.kind)
    (h1 : r'.objs = (r.setObj o).objs) (h2 : r'.dels = (r.setObj o).dels) (h4 : r'.itRev = r.itRev)
    (h5 : r'.itDelRev = r.itDelRev) (h7 : r'.items = r.items) (k : Nat) : M1 r' k ≤ M1 r (k + 1) := by
  have a := mObjs_setObj_le ht o cur hcur hid h1 h4 hk
  have b := mDels_filter_le (r := r) (r' := r') (fun d => decide (d.1.id ≠ o.id)) h2 h5
  unfold M1
  rw [h7]
  omega

/-- one iteration of `commitStatus` (success) -/
theorem m1_commitOne {r : R} {res : Res} {rs : List Res} (hI : InvL r (res :: rs)) (hfl : res.2.2.2.2 = false) (k : Nat) :
    M1 (r.commitOne res) k ≤ M1 r (k + 1) := by
  obtain ⟨obj, orig, rev, sid, failed⟩ := res
  simp only at hfl
  subst hfl
  obtain ⟨_, _, hlive⟩ := hI.resOK _ (List.mem_cons_self ..)
  simp only at hlive
  unfold R.commitOne
  simp only
  split
  · unfold M1; omega
  · rename_i cur hg
    rw [get_eq_some_iff hI.tinv] at hg
    split
    · simp only [Bool.false_eq_true, if_false]
      exact m1_commit_core hI.tinv { obj with kind := .done, sid := r.nextSid } cur hg.1 hg.2 (by simp [needs]) rfl rfl rfl rfl rfl k
    · rename_i hrev
      split
      · rename_i hk
        rcases hlive cur hg.1 hg.2 with a | a
        · exact absurd a.1 hrev
        · rcases a.2 with e | e <;> rw [hk.1] at e <;> cases e
      · unfold M1; omega

theorem m1_foldl_commitOne (rs : List Res) {r : R} (hI : InvL r rs) (hfl : ∀ res ∈ rs, res.2.2.2.2 = false) :
    M1 (rs.foldl R.commitOne r) 0 ≤ M1 r rs.length := by
  induction rs generalizing r with
  | nil => exact Nat.le_refl _
  | cons x xs ih =>
    have h1 := ih hI.commitOne (fun res hres => hfl res (List.mem_cons_of_mem _ hres))
    have h2 := m1_commitOne hI (hfl x (List.mem_cons_self ..)) xs.length
    simp only [List.foldl_cons, List.length_cons]
    omega

theorem m1_commitStatus {r : R} (hI : InvL r r.results) (hfl : ∀ res ∈ r.results, res.2.2.2.2 = false) :
    M1r r.commitStatus ≤ M1r r := by
  have := m1_foldl_commitOne r.results hI hfl
  unfold M1r
  exact this


theorem results_ok_processSingle {r : R} (hf : r.failing = []) (hinj : r.injects = [])
    (hfl : ∀ res ∈ r.results, res.2.2.2.2 = false) (obj : RObj) (rev : Nat) (del : Bool) :
    ∀ res ∈ (r.processSingle obj rev del).results, res.2.2.2.2 = false := by
  cases del with
  | false =>
    rw [processSingle_update hinj, isFailing_of_nil hf]
    simp only [Bool.false_eq_true, if_false, retryClear_results]
    intro res hres
    rcases List.mem_append.1 hres with a | a
    · exact hfl res a
    · simp only [List.mem_singleton] at a; rw [a]
  | true =>
    rw [processSingle_delete, isFailing_of_nil hf]
    simp only [Bool.false_eq_true, if_false, retryClear_results]
    exact hfl

/-- the loop over the change stream never increases the measure and decreases it when there is a change -/
theorem m1_consume (cs : List Change) {r : R} (last : Nat) (h : InvL r r.results) (hch : ChOK r r.results cs)
    (hf : r.failing = []) (hfl : ∀ res ∈ r.results, res.2.2.2.2 = false) :
    M1r (r.consume cs last).1 ≤ M1r r ∧ (cs ≠ [] → M1r (r.consume cs last).1 + 1 ≤ M1r r) ∧
    (∀ res ∈ (r.consume cs last).1.results, res.2.2.2.2 = false) := by
  induction cs generalizing r last with
  | nil => rw [consume_nil]; exact ⟨Nat.le_refl _, fun e => absurd rfl e, hfl⟩
  | cons c cs ih =>
    unfold R.consume
    simp only
    split
    · -- skipped
      rename_i hskip
      have hc : c.deleted = false := by simpa using hskip.1
      have hnn : ¬ needs c.obj.kind := by simpa [needs] using hskip.2
      simp only [hc, Bool.false_eq_true, if_false]
      obtain ⟨ho, hrev, hgt⟩ := hch.upd c (List.mem_cons_self ..) hc
      have h' : InvL { r with itRev := c.rev } r.results := by
        refine h.step_skip c.obj ho ?_ rfl rfl rfl hrev rfl rfl rfl rfl rfl
        intro x hx hxn hxgt
        rcases hch.lt_upd hc x hx hxgt with a | a
        · rw [a] at hxn; exact absurd hxn hnn
        · omega
      have hch' : ChOK { r with itRev := c.rev } r.results cs :=
        hch.tail_upd hc rfl rfl rfl rfl (fun res hres => Or.inl hres)
      obtain ⟨a, _, c'⟩ := ih c.rev (r := { r with itRev := c.rev }) h' hch' hf hfl
      have hm := m1_skip (r := r) c ho hnn hrev hgt
      exact ⟨by omega, fun _ => by omega, c'⟩
    · rename_i hproc
      have hstep : ∃ r1, r1 = ((if c.deleted = true then { r with itDelRev := c.rev } else { r with itRev := c.rev } : R).retryClear c.obj.id).processSingle c.obj c.rev c.deleted ∧
          InvL r1 r1.results ∧ ChOK r1 r1.results cs ∧ r1.failing = [] ∧ (∀ res ∈ r1.results, res.2.2.2.2 = false) ∧
          M1r r1 + 1 ≤ M1r r := by
        refine ⟨_, rfl, ?_⟩
        cases hc : c.deleted with
        | true =>
          simp only [if_true]
          obtain ⟨a, b, c', _⟩ := h.consume_del hch hc
          obtain ⟨hd, hgt⟩ := hch.del c (List.mem_cons_self ..) hc
          refine ⟨a, b, c'.failing.trans hf, ?_, m1_consume_del hf c hd hgt⟩
          exact results_ok_processSingle (by rw [retryClear_failing]; exact hf) (by rw [retryClear_injects]; exact h.noinj)
            (by rw [retryClear_results]; exact hfl) _ _ _
        | false =>
          have hn : needs c.obj.kind := by
            rw [hc] at hproc
            simp only [Bool.not_false, true_and, Bool.not_eq_eq_eq_not, Bool.not_true, decide_eq_false_iff_not] at hproc
            exact Classical.not_not.1 hproc
          simp only [Bool.false_eq_true, if_false]
          obtain ⟨a, b, c', _⟩ := h.consume_upd hch hc hn
          obtain ⟨ho, hrev, hgt⟩ := hch.upd c (List.mem_cons_self ..) hc
          refine ⟨a, b, c'.failing.trans hf, ?_, m1_consume_upd hf h.noinj c ho hn hrev hgt⟩
          exact results_ok_processSingle (by rw [retryClear_failing]; exact hf) (by rw [retryClear_injects]; exact h.noinj)
            (by rw [retryClear_results]; exact hfl) _ _ _
      obtain ⟨r1, hr1, hI, hC, hF, hFl, hM⟩ := hstep
      rw [← hr1]
      have e1 : M1r { r1 with numReconciled := r1.numReconciled + 1 } = M1r r1 := rfl
      split
      · dsimp only
        exact ⟨by omega, fun _ => by omega, hFl⟩
      · obtain ⟨a, _, c'⟩ := ih c.rev (r := { r1 with numReconciled := r1.numReconciled + 1 })
          (hI.congr rfl rfl rfl rfl rfl rfl rfl rfl rfl) ⟨hC.upd, hC.del, hC.sorted, hC.covO, hC.covD, hC.below⟩ hF hFl
        exact ⟨by omega, fun _ => by omega, c'⟩

/-- one iteration of `processRetries` -/
theorem InvL.retry_step {r : R} (h : InvL r r.results) (hcu : CaughtUp r) (it0 : Item) (hh : r.head = some it0) :
    InvL (r.retryPop.processSingle it0.obj it0.rev it0.delete) (r.retryPop.processSingle it0.obj it0.rev it0.delete).results ∧
    FrameT r (r.retryPop.processSingle it0.obj it0.rev it0.delete) ∧
    (r.retryPop.processSingle it0.obj it0.rev it0.delete).numReconciled = r.numReconciled := by
  have hinj : r.retryPop.injects = [] := by rw [retryPop_injects]; exact h.noinj
  obtain ⟨hfr, hnum⟩ := frameT_processSingle hinj it0.obj it0.rev it0.delete
  refine ⟨?_, (frameT_retryPop r).trans hfr, by rw [hnum, retryPop_numReconciled]⟩
  cases hdel : it0.delete with
  | false => exact h.retry_update hcu it0 hh hdel
  | true =>
    refine InvL.cast_results (A := r.results) ?_ (h.retry_delete hcu it0 hh hdel)
    rw [processSingle_delete]; split <;> simp

theorem m1_processRetries (fuel : Nat) {r : R} (h : InvL r r.results)
    (hc : r.numReconciled < r.cfg.roundSize → CaughtUp r) (hf : r.failing = [])
    (hfl : ∀ res ∈ r.results, res.2.2.2.2 = false) :
    M1r (r.processRetries fuel) ≤ M1r r ∧
    (1 ≤ fuel → r.numReconciled < r.cfg.roundSize → (∃ h0, r.head = some h0 ∧ h0.retryAt ≤ r.now) →
      M1r (r.processRetries fuel) + 1 ≤ M1r r) ∧
    (∀ res ∈ (r.processRetries fuel).results, res.2.2.2.2 = false) := by
  induction fuel generalizing r with
  | zero => exact ⟨Nat.le_refl _, fun e => (by omega), hfl⟩
  | succ n ih =>
    unfold R.processRetries
    split
    · rename_i hge
      exact ⟨Nat.le_refl _, fun _ hlt => (by omega), hfl⟩
    · rename_i hlt
      have hcu := hc (by omega)
      split
      · rename_i hnone
        exact ⟨Nat.le_refl _, fun _ _ ⟨h0, e, _⟩ => (by rw [hnone] at e; cases e), hfl⟩
      · rename_i it0 hh
        split
        · rename_i hnd
          refine ⟨Nat.le_refl _, fun _ _ ⟨h0, e, hle⟩ => ?_, hfl⟩
          rw [hh] at e; cases e; omega
        · obtain ⟨hI, hfr, hnum⟩ := h.retry_step hcu it0 hh
          have hm := m1_retry hf h.noinj it0 hh (h.itemOK it0 (head_spec hh).1).1
          have hfl' := results_ok_processSingle (r := r.retryPop) (by rw [retryPop_failing]; exact hf)
            (by rw [retryPop_injects]; exact h.noinj) (by rw [retryPop_results]; exact hfl) it0.obj it0.rev it0.delete
          dsimp only
          generalize r.retryPop.processSingle it0.obj it0.rev it0.delete = ps at hI hfr hnum hm hfl' ⊢
          obtain ⟨a, _, c⟩ := ih (r := { ps with numReconciled := ps.numReconciled + 1 })
            (hI.congr rfl rfl rfl rfl rfl rfl rfl rfl rfl) (fun _ => (hfr.caughtUp hcu).congr rfl rfl rfl rfl)
            (hfr.failing.trans hf) hfl'
          have e1 : M1r { ps with numReconciled := ps.numReconciled + 1 } = M1r ps := rfl
          exact ⟨by omega, fun _ _ _ => (by omega), c⟩


theorem commitStatus_of_nil {r : R} (h : r.results = []) : r.commitStatus = r := by
  unfold R.commitStatus
  rw [h]
  simp only [List.foldl_nil]
  cases r
  simp_all

theorem processRetries_of_not_due {r : R} (fuel : Nat) (h : ¬ ∃ h0, r.head = some h0 ∧ h0.retryAt ≤ r.now) :
    r.processRetries fuel = r := by
  cases fuel with
  | zero => rfl
  | succ n =>
    unfold R.processRetries
    split
    · rfl
    · split
      · rfl
      · rename_i h0 hh
        split
        · rfl
        · rename_i hnd
          exact absurd ⟨h0, hh, by omega⟩ h

theorem mz_le (r : R) : Mz r ≤ 3 * M1 r 0 + 2 := by
  unfold Mz; split <;> split <;> omega

/-- the tail of a round never increases the measure; it decreases it when a retry is due and the round is not full -/
theorem m1_roundTail {r3 : R} (last : Nat) (hI3 : InvL r3 r3.results)
    (hcu3 : r3.numReconciled < r3.cfg.roundSize → CaughtUp r3) (hf : r3.failing = [])
    (hfl : ∀ res ∈ r3.results, res.2.2.2.2 = false) :
    M1 (roundTail r3 last) 0 ≤ M1r r3 ∧
    (r3.results = [] → r3.numReconciled < r3.cfg.roundSize → (∃ h0, r3.head = some h0 ∧ h0.retryAt ≤ r3.now) →
      M1 (roundTail r3 last) 0 + 1 ≤ M1r r3) := by
  have hstrict : r3.results = [] → r3.numReconciled < r3.cfg.roundSize → (∃ h0, r3.head = some h0 ∧ h0.retryAt ≤ r3.now) →
      M1r ((r3.commitStatus).processRetries (r3.commitStatus.items.length + 1)) + 1 ≤ M1r r3 := by
    intro hres hlt hdue
    rw [commitStatus_of_nil hres]
    exact (m1_processRetries (r3.items.length + 1) hI3 hcu3 hf hfl).2.1 (by omega) hlt hdue
  unfold roundTail
  dsimp only
  have hI4 := hI3.commitStatus
  have hm4 := m1_commitStatus hI3 hfl
  obtain ⟨r4', hR4, hr4⟩ := commitStatus_rel r3
  have hres4 := commitStatus_results r3
  generalize r3.commitStatus = r4 at hI4 hr4 hres4 hm4 hstrict ⊢
  have hcu4 : r4.numReconciled < r4.cfg.roundSize → CaughtUp r4 := by
    intro hlt
    rw [hr4] at hlt ⊢
    simp only at hlt
    rw [hR4.numReconciled, hR4.cfg] at hlt
    exact (hR4.caughtUp (hcu3 hlt)).congr rfl rfl rfl rfl
  have hf4 : r4.failing = [] := by rw [hr4]; exact hR4.failing.trans hf
  rw [← hres4] at hI4
  obtain ⟨hI5, hF5⟩ := hI4.processRetries (r4.items.length + 1) hcu4
  obtain ⟨hm5, _, hfl5⟩ := m1_processRetries (r4.items.length + 1) hI4 hcu4 hf4 (by rw [hres4]; simp)
  generalize r4.processRetries (r4.items.length + 1) = r5 at hI5 hF5 hm5 hfl5 hstrict ⊢
  have hm6 := m1_commitStatus hI5 hfl5
  have hres6 := commitStatus_results r5
  generalize r5.commitStatus = r6 at hm6 hres6 ⊢
  have e6 : M1r r6 = M1 r6 0 := by unfold M1r; rw [hres6]; rfl
  refine ⟨?_, fun a b c => ?_⟩
  · show M1 r6 0 ≤ M1r r3
    omega
  · show M1 r6 0 + 1 ≤ M1r r3
    have := hstrict a b c
    omega

theorem nextChanges_spec (r : R) :
    (r.pending.isNone ∧ r.refreshedAt = r.tableRev ∧ r.nextChanges = (r, [])) ∨
    (¬ (r.pending.isNone ∧ r.refreshedAt = r.tableRev) ∧ r.nextChanges.1 = { r with refreshedAt := r.tableRev }) := by
  unfold R.nextChanges
  split
  · rename_i h; exact Or.inl ⟨h.1, h.2, rfl⟩
  · rename_i h; exact Or.inr ⟨h, rfl⟩

/-- **once nothing fails, every triggered round strictly decreases the measure** -/
theorem mz_round {P : Nat → Prop} {r : R} (hr : RInv r) (hq : QInv P r) (hf : r.failing = [])
    (hrs : 1 ≤ r.cfg.roundSize) (htr : r.triggered = true) : Mz r.round < Mz r := by
  have hM0 : M1r r = M1 r 0 := by unfold M1r; rw [hr.res]; rfl
  -- Next
  have hnc : InvL r.nextChanges.1 r.nextChanges.1.results ∧ r.nextChanges.1.results = [] ∧ M1r r.nextChanges.1 = M1 r 0 ∧
      r.nextChanges.1.failing = [] ∧ r.nextChanges.1.numReconciled = 0 ∧ r.nextChanges.1.cfg = r.cfg ∧
      r.nextChanges.1.items = r.items ∧ r.nextChanges.1.now = r.now ∧ r.nextChanges.1.tableRev = r.tableRev := by
    rcases nextChanges_fst r with e | e <;> rw [e]
    · exact ⟨InvL.cast_results hr.res hr.inv, hr.res, hM0, hf, hr.num, rfl, rfl, rfl, rfl⟩
    · exact ⟨InvL.cast_results hr.res (hr.inv.set_refreshedAt _ (Nat.le_refl _)), hr.res, hM0, hf, hr.num, rfl, rfl, rfl, rfl⟩
  have hch := chOK_nextChanges hr.inv.tinv hr.sync
  have hspec := nextChanges_spec r
  rw [round_eq']
  generalize r.nextChanges = nc at hnc hch hspec ⊢
  obtain ⟨nr, ch⟩ := nc
  simp only at hnc hch hspec ⊢
  obtain ⟨hI1, hres1, hM1, hf1, hnum1, hcfg1, hitems1, hnow1, htr1⟩ := hnc
  rw [← hres1] at hch
  cases ch with
  | cons c cs =>
    -- a change is consumed: the measure drops
    obtain ⟨hI2, hC2, hF2, hfull⟩ := hI1.consume (c :: cs) 0 hch
    obtain ⟨_, hm2, hfl2⟩ := m1_consume (c :: cs) 0 hI1 hch hf1 (by rw [hres1]; simp)
    have hm2 := hm2 (by simp)
    generalize nr.consume (c :: cs) 0 = co at hI2 hC2 hF2 hfull hm2 hfl2 ⊢
    generalize (if (c :: cs).isEmpty ∧ co.1.pending.isNone then none else
        if (co.2.1.isEmpty ∧ co.1.numReconciled < co.1.cfg.roundSize) then none else some co.2.1 : Option (List Change)) = pend
    have hI3 : InvL { co.1 with pending := pend } ({ co.1 with pending := pend } : R).results :=
      hI2.congr rfl rfl rfl rfl rfl rfl rfl rfl rfl
    have hcu3 : ({ co.1 with pending := pend } : R).numReconciled < ({ co.1 with pending := pend } : R).cfg.roundSize →
        CaughtUp { co.1 with pending := pend } := by
      intro hlt
      have hrr := hfull hlt
      refine ⟨fun o ho _ => ?_, fun d hd => ?_⟩
      · rcases hC2.covO o ho with a | ⟨c, hc, _⟩
        · exact a
        · rw [hrr] at hc; cases hc
      · rcases hC2.covD d hd with a | ⟨c, hc, _⟩
        · exact a
        · rw [hrr] at hc; cases hc
    have hf3 : ({ co.1 with pending := pend } : R).failing = [] := hF2.failing.trans hf1
    have hfl3 : ∀ res ∈ ({ co.1 with pending := pend } : R).results, res.2.2.2.2 = false := hfl2
    have e3 : M1r ({ co.1 with pending := pend } : R) = M1r co.1 := rfl
    generalize ({ co.1 with pending := pend } : R) = r3 at hI3 hcu3 hf3 hfl3 e3 ⊢
    have hm3 := (m1_roundTail co.2.2 hI3 hcu3 hf3 hfl3).1
    have := mz_le (roundTail r3 co.2.2)
    have : 3 * M1 r 0 ≤ Mz r := by unfold Mz; omega
    omega
  | nil =>
    simp only [consume_nil]
    have hlt : nr.numReconciled < nr.cfg.roundSize := by rw [hnum1, hcfg1]; omega
    have hp : (if ([] : List Change).isEmpty = true ∧ nr.pending.isNone = true then none
        else if ([] : List Change).isEmpty = true ∧ nr.numReconciled < nr.cfg.roundSize then none else some [] : Option (List Change)) = none := by
      simp [hlt]
    rw [hp]
    have hI3 : InvL { nr with pending := none } ({ nr with pending := none } : R).results :=
      hI1.congr rfl rfl rfl rfl rfl rfl rfl rfl rfl
    have hcu3 : ({ nr with pending := none } : R).numReconciled < ({ nr with pending := none } : R).cfg.roundSize →
        CaughtUp { nr with pending := none } := by
      intro _
      refine ⟨fun o ho _ => ?_, fun d hd => ?_⟩
      · rcases hch.covO o ho with a | ⟨c, hc, _⟩
        · exact a
        · cases hc
      · rcases hch.covD d hd with a | ⟨c, hc, _⟩
        · exact a
        · cases hc
    have hf3 : ({ nr with pending := none } : R).failing = [] := hf1
    have hres3 : ({ nr with pending := none } : R).results = [] := hres1
    have hhead3 : ({ nr with pending := none } : R).head = r.head := by unfold R.head R.queue; rw [show ({ nr with pending := none } : R).items = r.items from hitems1]
    have e3 : M1r ({ nr with pending := none } : R) = M1 r 0 := hM1
    have hnow3 : ({ nr with pending := none } : R).now = r.now := hnow1
    have hlt3 : ({ nr with pending := none } : R).numReconciled < ({ nr with pending := none } : R).cfg.roundSize := hlt
    have hpend3 : ({ nr with pending := none } : R).pending = none := rfl
    have href3 : ({ nr with pending := none } : R).refreshedAt = nr.refreshedAt ∧ ({ nr with pending := none } : R).tableRev = r.tableRev := ⟨rfl, htr1⟩
    generalize ({ nr with pending := none } : R) = r3 at hI3 hcu3 hf3 hres3 hhead3 e3 hnow3 hlt3 hpend3 href3 ⊢
    have hMz : 3 * M1 r 0 ≤ Mz r := by unfold Mz; omega
    by_cases hdue : ∃ h0, r.head = some h0 ∧ h0.retryAt ≤ r.now
    · -- a retry is due: it is processed
      have hm3 := (m1_roundTail 0 hI3 hcu3 hf3 (by rw [hres3]; simp)).2 hres3 hlt3 (by rw [hhead3, hnow3]; exact hdue)
      have := mz_le (roundTail r3 0)
      omega
    · -- nothing to do: the round only refreshes the iterator
      have hdue3 : ¬ ∃ h0, r3.head = some h0 ∧ h0.retryAt ≤ r3.now := by rw [hhead3, hnow3]; exact hdue
      have hrt : roundTail r3 0 = { r3 with numReconciled := 0, progressRev := if 0 > r3.progressRev then 0 else r3.progressRev, progressLW := r3.lowWatermark } := by
        unfold roundTail
        simp only [commitStatus_of_nil hres3, processRetries_of_not_due _ hdue3]
      rw [hrt]
      -- the trigger was not the timer
      have hnt : ¬ (r.pending.isNone ∧ r.refreshedAt = r.tableRev) := by
        rintro ⟨a, b⟩
        apply hdue
        unfold R.triggered at htr
        have hpn : r.pending.isSome = false := by cases hpp : r.pending <;> simp_all
        rw [hpn] at htr
        simp only [Bool.false_or, Bool.or_eq_true, bne_iff_ne, ne_eq, b, not_true_eq_false, false_or] at htr
        cases hh : r.head with
        | none =>
          rcases hq.tmNone hh with t | t <;> rw [t] at htr <;> simp at htr
        | some h0 =>
          refine ⟨h0, rfl, ?_⟩
          rcases hq.tmSome h0 hh with t | t
          · rw [t] at htr; simpa using htr
          · exact t.2
      rcases hspec with ⟨a, b, _⟩ | ⟨_, e⟩
      · exact absurd ⟨a, b⟩ hnt
      · have hrr : r3.refreshedAt = r3.tableRev := by rw [href3.1, href3.2, e]
        have : Mz r = 3 * M1 r 0 + (if r.pending.isSome then 1 else 0) + (if r.refreshedAt = r.tableRev then 0 else 1) := rfl
        have hde : 1 ≤ (if r.pending.isSome then 1 else 0) + (if r.refreshedAt = r.tableRev then 0 else 1) := by
          by_cases hp1 : r.pending.isSome
          · simp [hp1]
          · have : r.pending.isNone := by cases hpp : r.pending <;> simp_all
            have : ¬ r.refreshedAt = r.tableRev := fun e => hnt ⟨this, e⟩
            simp [this]
        have e4 : Mz ({ r3 with numReconciled := 0, progressRev := if 0 > r3.progressRev then 0 else r3.progressRev, progressLW := r3.lowWatermark } : R) = Mz r3 := rfl
        rw [e4]
        have e5 : Mz r3 = 3 * M1 r3 0 := by
          unfold Mz
          rw [hpend3, if_pos hrr]
          simp
        have e6 : M1 r3 0 = M1r r3 := by unfold M1r; rw [hres3]; rfl
        rw [e5, e6, e3]
        omega


theorem fireTimer_mz (r : R) : Mz r.fireTimer = Mz r := by
  unfold R.fireTimer
  split
  · split <;> rfl
  · rfl

theorem SInv.round_cfg {B : Nat} {r : R} (h : SInv B r) : r.round.cfg = r.cfg :=
  (h.q.round h.rinv (fun e => absurd h.nofail e)).2.2.1

theorem SInv.quiesce_cfg {B : Nat} {r : R} (h : SInv B r) (fuel : Nat) : (r.quiesce fuel).cfg = r.cfg := by
  induction fuel generalizing r with
  | zero => rfl
  | succ n ih =>
    unfold R.quiesce
    simp only
    obtain ⟨h1, _⟩ := h.fireTimer
    have hcfg1 : r.fireTimer.cfg = r.cfg := (fireTimer_frame r).2.2.2.2
    split
    · obtain ⟨h2, _⟩ := h1.round
      rw [ih h2, h1.round_cfg, hcfg1]
    · exact hcfg1

/-- **the loop goes idle**: once nothing fails, `quiesce` with fuel beyond the measure ends in an idle state -/
theorem SInv.quiesce_idle {B : Nat} {r : R} (h : SInv B r) (hrs : 1 ≤ r.cfg.roundSize) (fuel : Nat) (hfuel : Mz r < fuel) :
    (r.quiesce fuel).triggered = false ∧ Mz (r.quiesce fuel) ≤ Mz r ∧
    (r.fireTimer.triggered = true → Mz (r.quiesce fuel) < Mz r) := by
  induction fuel generalizing r with
  | zero => omega
  | succ n ih =>
    unfold R.quiesce
    simp only
    obtain ⟨h1, _⟩ := h.fireTimer
    have hcfg1 : r.fireTimer.cfg = r.cfg := (fireTimer_frame r).2.2.2.2
    have hm1 := fireTimer_mz r
    split
    · rename_i htr
      have hlt := mz_round h1.rinv h1.q h1.nofail (by rw [hcfg1]; exact hrs) htr
      obtain ⟨h2, _⟩ := h1.round
      have := ih h2 (by rw [h1.round_cfg, hcfg1]; exact hrs) (by omega)
      exact ⟨this.1, by omega, fun _ => by omega⟩
    · rename_i htr
      exact ⟨by simpa using htr, by omega, fun e => absurd e htr⟩

/-- an upper bound of the measure in terms of the sizes -/
theorem mz_le_sizes (r : R) : Mz r ≤ 3 * (2 * r.objs.length + r.dels.length + 2 * r.items.length) + 2 := by
  have h1 : mObjs r ≤ 2 * r.objs.length := by
    unfold mObjs
    have := sum_map_le r.objs (wObj r.itRev) (fun _ => 2) (fun x _ => wObj_le_two _ x)
    have e : (r.objs.map (fun _ => 2)).sum = 2 * r.objs.length := by
      induction r.objs with
      | nil => rfl
      | cons a as ih => simp only [List.map_cons, List.sum_cons, List.length_cons, ih]; omega
    omega
  have h2 : mDels r ≤ r.dels.length := List.length_filter_le _ _
  have := mz_le r
  unfold M1 at this
  omega

theorem triggered_setNow {r : R} (T : Nat) (h : r.triggered = false) (ht : ∀ t, r.timer = .armed t → T < t) :
    ({ r with now := T } : R).triggered = false := by
  obtain ⟨hp, href, hnf, _⟩ := not_triggered h
  unfold R.triggered
  simp only [hp, href, Option.isSome_none, bne_self_eq_false, Bool.or_self, Bool.false_or]
  cases htm : r.timer with
  | none => rfl
  | stopped => rfl
  | fired => exact absurd htm hnf
  | armed t => have := ht t htm; simp; omega

/-- **`advance` ends idle** when the measure fits the fuels -/
theorem SInv.advance_idle {B : Nat} {r : R} (h : SInv B r) (hrs : 1 ≤ r.cfg.roundSize) (hidle : r.triggered = false)
    (ms fuel : Nat) (h64 : Mz r < 64) (hfuel : Mz r < fuel) : (r.advance ms fuel).triggered = false := by
  induction fuel generalizing r ms with
  | zero => omega
  | succ n ih =>
    obtain ⟨_, _, _, harm⟩ := not_triggered hidle
    unfold R.advance
    simp only
    split
    · rename_i t htm
      have hlt := harm t htm
      split
      · rename_i hle
        have h0 : SInv B { r with now := max t r.now } := h.setNow _ (by omega)
        have hq := h0.quiesce_idle (r := { r with now := max t r.now }) hrs 64 h64
        obtain ⟨h1, e1⟩ := h0.quiesce 64
        have hcfg : (R.quiesce { r with now := max t r.now } 64).cfg = r.cfg := h0.quiesce_cfg 64
        have htrig : (R.fireTimer { r with now := max t r.now }).triggered = true := by
          unfold R.fireTimer R.triggered
          simp only [htm]
          have : t ≤ max t r.now := by omega
          simp [this]
        have hm : Mz (R.quiesce { r with now := max t r.now } 64) < Mz r := hq.2.2 htrig
        exact ih h1 (by rw [hcfg]; exact hrs) hq.1 _ (by omega) (by omega)
      · exact triggered_setNow _ hidle (fun u hu => by rw [htm] at hu; cases hu; omega)
    · rename_i hna
      exact triggered_setNow _ hidle (fun u hu => absurd hu (hna u))

/-- in an idle state only the queued retries are outstanding -/
theorem RInv.mz_idle {r : R} (h : RInv r) (hidle : r.triggered = false) : Mz r = 6 * r.items.length := by
  obtain ⟨c1, c2⟩ := h.idle_caughtUp hidle
  obtain ⟨hp, href, _, _⟩ := not_triggered hidle
  have h1 : mObjs r = 0 := by
    unfold mObjs
    have := sum_map_le r.objs (wObj r.itRev) (fun _ => 0) (fun x hx => by
      unfold wObj; have := c1 x hx; rw [if_neg (by omega)]; exact Nat.le_refl _)
    have e : (r.objs.map (fun _ => 0)).sum = 0 := by
      induction r.objs with
      | nil => rfl
      | cons a as ih => simp only [List.map_cons, List.sum_cons, ih]
    omega
  have h2 : mDels r = 0 := by
    unfold mDels
    rw [List.length_eq_zero_iff, List.filter_eq_nil_iff]
    intro d hd
    have := c2 d hd
    simp; omega
  unfold Mz M1
  rw [h1, h2, hp, if_pos href]
  simp
  omega

end Sdb.Rec
