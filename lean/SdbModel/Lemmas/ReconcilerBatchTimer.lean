import SdbModel.Lemmas.ReconcilerBatch

/-!
  Lemmas.ReconcilerBatchTimer — the retry timer and the retry times through a
  batch round (`QInv`, hence `WInv` and `SInv`, are preserved by `roundB`,
  `quiesceB`, `advanceB`).
-/
namespace Sdb.Rec

/-! ## the collecting loop -/

theorem QR.read_del {P : Nat → Prop} {r : R} (h : QR P r) (c : Change) : QR P (readD r c) ∧ NCF r (readD r c) := by
  unfold readD
  have h1 : QR P { r with itDelRev := c.rev } := h.congr rfl rfl rfl rfl rfl rfl rfl
  refine ⟨(h1.retryClear c.obj.id).congr rfl rfl rfl rfl rfl rfl rfl, ?_⟩
  exact ⟨by simp, by simp, by simp⟩

theorem QR.read_upd {P : Nat → Prop} {r : R} (h : QR P r) (c : Change) : QR P (readU r c) ∧ NCF r (readU r c) := by
  unfold readU
  have h1 : QR P { r with itRev := c.rev } := h.congr rfl rfl rfl rfl rfl rfl rfl
  refine ⟨(h1.retryClear c.obj.id).congr rfl rfl rfl rfl rfl rfl rfl, ?_⟩
  exact ⟨by simp, by simp, by simp⟩

theorem QR.consumeB {P : Nat → Prop} (cs : List Change) {r : R} (last : Nat) (ds us : List BEntry) (h : QR P r) :
    QR P (r.consumeB cs last ds us).1 ∧ NCF r (r.consumeB cs last ds us).1 := by
  induction cs generalizing r last ds us with
  | nil => rw [consumeB_nil]; exact ⟨h, NCF.refl r⟩
  | cons c cs ih =>
    cases hc : c.deleted with
    | true =>
      rw [consumeB_del _ _ _ _ _ _ hc]
      obtain ⟨h1, n1⟩ := h.read_del c
      split
      · exact ⟨h1, n1⟩
      · exact ⟨(ih _ _ _ h1).1, n1.trans (ih _ _ _ h1).2⟩
    | false =>
      by_cases hn : needs c.obj.kind
      · rw [consumeB_upd _ _ _ _ _ _ hc hn]
        obtain ⟨h1, n1⟩ := h.read_upd c
        split
        · exact ⟨h1, n1⟩
        · exact ⟨(ih _ _ _ h1).1, n1.trans (ih _ _ _ h1).2⟩
      · rw [consumeB_skip _ _ _ _ _ _ hc hn]
        have h1 : QR P { r with itRev := c.rev } := h.congr rfl rfl rfl rfl rfl rfl rfl
        have n1 : NCF r { r with itRev := c.rev } := ⟨rfl, rfl, rfl⟩
        exact ⟨(ih _ _ _ h1).1, n1.trans (ih _ _ _ h1).2⟩

/-! ## the batch operations -/

theorem QR.step_del {P : Nat → Prop} {x : R} (h : QR P x) (e : BEntry) (hclr : ∀ it ∈ x.items, it.id ≠ e.1.id) :
    QR P (stepD x.failing x e) := by
  unfold stepD
  split
  · rename_i hf
    have hf' : x.isFailing e.1.id = true := hf
    have h1 : QR P { x with log := x.log ++ [⟨"D", e.1.id, e.1.data, false⟩] } := h.congr rfl rfl rfl rfl rfl rfl rfl
    refine ⟨?_, h.noinj, ?_, h.hres⟩
    · apply QInv.retryAdd h1.q
      · exact (h.hp (failing_ne_nil hf')).congr rfl rfl
      · intro it hit hid
        exact absurd hid (hclr it hit)
    · exact fun ne => (h.hp ne).congr rfl rfl
  · exact h.congr rfl rfl rfl rfl rfl rfl rfl

theorem QR.step_upd {P : Nat → Prop} {x : R} (h : QR P x) (e : BEntry) : QR P (stepU x.failing x e) := by
  unfold stepU
  split
  · rename_i hf
    have hf' : x.isFailing e.1.id = true := hf
    refine ⟨h.q.congr rfl rfl rfl, h.noinj, h.hp, ?_⟩
    intro res hr hfl
    rcases List.mem_append.1 hr with hr | hr
    · exact h.hres res hr hfl
    · exact failing_ne_nil hf'
  · have h1 : QR P { x with log := x.log ++ [⟨"U", e.1.id, e.1.data, true⟩] } := h.congr rfl rfl rfl rfl rfl rfl rfl
    have h2 := h1.retryClear e.1.id
    refine ⟨h2.q.congr rfl rfl rfl, h2.noinj, h2.hp, ?_⟩
    intro res hr hfl
    show (R.retryClear { x with log := x.log ++ [⟨"U", e.1.id, e.1.data, true⟩] } e.1.id).failing ≠ []
    rw [retryClear_failing]
    rcases List.mem_append.1 hr with hr | hr
    · exact h.hres res hr hfl
    · simp only [List.mem_singleton] at hr
      rw [hr] at hfl; cases hfl

theorem QR.foldl_stepD {P : Nat → Prop} (dl : List BEntry) {x : R} (h : QR P x)
    (hids : dl.Pairwise (fun e e' => e.1.id ≠ e'.1.id)) (hclr : ∀ e ∈ dl, ∀ it ∈ x.items, it.id ≠ e.1.id) :
    QR P (dl.foldl (stepD x.failing) x) := by
  induction dl generalizing x with
  | nil => exact h
  | cons e dl ih =>
    rw [List.pairwise_cons] at hids
    have hclre := hclr e (List.mem_cons_self ..)
    obtain ⟨hF, _, _, _, tail, hitems, t1, _⟩ := stepD_spec x.failing x e hclre
    have h1 := h.step_del e hclre
    have := ih h1 hids.2 (fun e' he' it hit => by
      rw [hitems] at hit
      rcases List.mem_append.1 hit with hit | hit
      · exact hclr e' (List.mem_cons_of_mem _ he') it (List.mem_filter.1 hit).1
      · rw [(t1 it hit).1]; exact hids.1 e' he')
    rw [hF.failing] at this
    exact this

theorem foldl_stepU_failing (fl : List Nat) (ul : List BEntry) (x : R) : (ul.foldl (stepU fl) x).failing = x.failing := by
  induction ul generalizing x with
  | nil => rfl
  | cons e ul ih =>
    rw [List.foldl_cons, ih]
    unfold stepU
    split
    · rfl
    · simp

theorem QR.foldl_stepU {P : Nat → Prop} (ul : List BEntry) {x : R} (h : QR P x) : QR P (ul.foldl (stepU x.failing) x) := by
  induction ul generalizing x with
  | nil => exact h
  | cons e ul ih =>
    have h1 := h.step_upd e
    have := ih h1
    have ef : (stepU x.failing x e).failing = x.failing := foldl_stepU_failing x.failing [e] x
    rw [ef] at this
    exact this

theorem CB.ds_ids {n x : R} {cs : List Change} {ds us : List BEntry} (h : CB n x cs ds us) (ht : TInv n) :
    ds.Pairwise (fun e e' => e.1.id ≠ e'.1.id) := by
  refine List.Pairwise.imp_of_mem ?_ h.dsSorted
  intro a b ha hb hlt hid
  have := ht.del_eq (h.dsMem a ha).1 (h.dsMem b hb).1 hid
  rw [this] at hlt; omega

/-- the timer invariant through the batch phase of a round -/
theorem QR.batch_phase {P : Nat → Prop} {n : R} {cs : List Change} (hq : QR P n) (h : InvL n []) (hch : ChOK n [] cs) (last : Nat)
    (pend : Option (List Change)) : QR P (batchOps (n.consumeB cs last [] []) pend) := by
  obtain ⟨hcb, _⟩ := (CB.init h hch).consumeB cs last
  obtain ⟨hq1, _⟩ := hq.consumeB cs last [] []
  have hids := hcb.ds_ids h.tinv
  have hclr := hcb.clrD
  generalize n.consumeB cs last [] [] = co at hcb hq1 hids hclr ⊢
  obtain ⟨b, rest, lst, ds, us⟩ := co
  simp only at hcb hq1 hids hclr
  unfold batchOps
  simp only
  have hq2 : QR P { b with pending := pend } := hq1.congr rfl rfl rfl rfl rfl rfl rfl
  rw [deleteBatch_eq]
  have hq3 := hq2.foldl_stepD ds hids hclr
  rw [updateBatch_eq _ _ hq3.noinj]
  exact hq3.foldl_stepU us

/-- one batch round preserves `QInv` -/
theorem QInv.roundB {P : Nat → Prop} {r : R} (h : QInv P r) (hr : RInv r)
    (hp : r.failing ≠ [] → PAdd P r) : QInv P r.roundB ∧ r.roundB.now = r.now ∧ r.roundB.cfg = r.cfg ∧ r.roundB.failing = r.failing := by
  have h0 : QR P r := ⟨h, hr.inv.noinj, hp, by rw [hr.res]; simp⟩
  have h1 : QR P r.nextChanges.1 ∧ InvL r.nextChanges.1 [] := by
    rcases nextChanges_fst r with e | e <;> rw [e]
    · exact ⟨h0, hr.inv⟩
    · exact ⟨h0.congr rfl rfl rfl rfl rfl rfl rfl, hr.inv.set_refreshedAt _ (Nat.le_refl _)⟩
  have hch := chOK_nextChanges hr.inv.tinv hr.sync
  obtain ⟨hI3, hcu3, _, e1, e2, e3⟩ := hr.roundB_mid
  have h3 := h1.1.batch_phase h1.2 hch 0 (pendAfter r.nextChanges.2 (r.nextChanges.1.consumeB r.nextChanges.2 0 [] []))
  rw [roundB_eq']
  generalize batchOps (r.nextChanges.1.consumeB r.nextChanges.2 0 [] [])
    (pendAfter r.nextChanges.2 (r.nextChanges.1.consumeB r.nextChanges.2 0 [] [])) = x3 at hI3 hcu3 e1 e2 e3 h3
  obtain ⟨hq, n4⟩ := roundTail_q (r.nextChanges.1.consumeB r.nextChanges.2 0 [] []).2.2.1 hI3 hcu3 h3
  exact ⟨hq, n4.1.trans e2, n4.2.1.trans e1, n4.2.2.trans e3⟩

theorem WInv.roundB {r : R} (h : WInv r) : WInv r.roundB := by
  obtain ⟨hq, e1, e2, _⟩ := h.q.roundB h.rinv (fun _ => pAdd_bound r)
  refine ⟨h.rinv.roundB, ?_⟩
  rw [e1, e2]; exact hq

theorem WInv.quiesceB {r : R} (h : WInv r) (fuel : Nat) : WInv (r.quiesceB fuel) := by
  induction fuel generalizing r with
  | zero => exact h
  | succ n ih =>
    unfold R.quiesceB
    simp only
    split
    · exact ih h.fireTimer.roundB
    · exact h.fireTimer

theorem WInv.advanceB {r : R} (h : WInv r) (ms fuel : Nat) : WInv (r.advanceB ms fuel) := by
  induction fuel generalizing r ms with
  | zero => exact h.setNow _ (by omega)
  | succ n ih =>
    unfold R.advanceB
    simp only
    split
    · split
      · exact ih ((h.setNow _ (by omega)).quiesceB 64) _
      · exact h.setNow _ (by omega)
    · exact h.setNow _ (by omega)

theorem SInv.roundB {B : Nat} {r : R} (h : SInv B r) : SInv B r.roundB ∧ r.roundB.now = r.now := by
  obtain ⟨hq, e1, _, e3⟩ := h.q.roundB h.rinv (fun e => absurd h.nofail e)
  exact ⟨⟨h.rinv.roundB, hq, e3.trans h.nofail⟩, e1⟩

theorem SInv.quiesceB {B : Nat} {r : R} (h : SInv B r) (fuel : Nat) : SInv B (r.quiesceB fuel) ∧ (r.quiesceB fuel).now = r.now := by
  induction fuel generalizing r with
  | zero => exact ⟨h, rfl⟩
  | succ n ih =>
    unfold R.quiesceB
    simp only
    obtain ⟨h1, e1⟩ := h.fireTimer
    split
    · obtain ⟨h2, e2⟩ := h1.roundB
      obtain ⟨h3, e3⟩ := ih h2
      exact ⟨h3, by rw [e3, e2, e1]⟩
    · exact ⟨h1, e1⟩

theorem SInv.advanceB {B : Nat} {r : R} (h : SInv B r) (ms fuel : Nat) :
    SInv B (r.advanceB ms fuel) ∧ (r.advanceB ms fuel).now = r.now + ms := by
  induction fuel generalizing r ms with
  | zero => exact ⟨h.setNow _ (by omega), rfl⟩
  | succ n ih =>
    unfold R.advanceB
    simp only
    split
    · rename_i t _
      split
      · rename_i hle
        obtain ⟨h1, e1⟩ := (h.setNow (max t r.now) (by omega)).quiesceB 64
        obtain ⟨h2, e2⟩ := ih h1 (r.now + ms - (R.quiesceB { r with now := max t r.now } 64).now)
        refine ⟨h2, ?_⟩
        rw [e2, e1]
        simp only
        omega
      · exact ⟨h.setNow _ (by omega), rfl⟩
    · exact ⟨h.setNow _ (by omega), rfl⟩

end Sdb.Rec
