import SdbModel.Lemmas.ConcInitStore

/-!
  ConcInitMicro — EVERY micro step of `Model.Conc` preserves the invariant `CI`
  (case analysis over the program position, using the step lemmas of
  `ConcInitStep` / `ConcInitStore`).  Core Lean only.
-/
namespace Sdb.Conc

theorem doAct_irrelevant2 (st : State) (th : Thread) (a : Act) (h : relevantAct2 a = false) :
    ∃ r, doAct st th a = (st, { th with result := r }) := by
  cases a <;> first | (simp [relevantAct2] at h; done) | exact ⟨_, rfl⟩

theorem not_tracked_irrelevant (m : Micro) (h : relevant2 m = false) : ¬ tracked m := by
  rintro (rfl | rfl | rfl | rfl) <;> simp [relevant2, relevantAct2] at h

theorem CI_irrelevant (st : State) (cs : List Bool) (tid : Nat) (th : Thread) (c : Bool) (m : Micro)
    (rest : List Micro) (p : Pos2) (r : Option (List TableV))
    (hCI : CI (install st tid th) cs (some tid)) (htid : tid < st.threads.length) (hc : cs[tid]? = some c)
    (hprog : th.prog = m :: rest) (hm : relevant2 m = false)
    (hstrip : strip2 rest = code2 (lockList th) c p) (hl : Loc st.root st.nextChan th c p) :
    CI (install st tid { th with prog := rest, result := r }) cs (some tid) := by
  refine CI_pop st st cs tid th _ c m rest hCI htid hc hprog (not_tracked_irrelevant m hm) rfl rfl
    (fun _ => ⟨rfl, rfl⟩) (fun _ => ⟨rfl, rfl⟩) rfl rfl rfl rfl ⟨p, hstrip, ?_⟩
  refine Loc_congr _ _ th _ c p rfl rfl rfl rfl rfl rfl rfl rfl rfl rfl ?_ hl
  intro hp
  subst hp
  exfalso
  have hh := hl.2.2.2
  rw [hprog] at hh
  simp only [List.head?_cons, Option.some.injEq] at hh
  subst hh
  simp [relevant2, relevantAct2] at hm

theorem CI_finish (st : State) (cs : List Bool) (tid : Nat) (th : Thread) (c : Bool)
    (hCI : CI (install st tid th) cs (some tid)) (htid : tid < st.threads.length) (hc : cs[tid]? = some c)
    (_hprog : th.prog = []) :
    CI (install st tid { th with done := true }) cs (some tid) := by
  have hown_old : (install st tid th).threads[tid]? = some th := by rw [install_get _ _ _ _ htid]; simp
  obtain ⟨c0, hc0, hb, hadj, p, hp, hl⟩ := own_thread st cs _ tid th hCI htid
  rw [hc] at hc0; simp only [Option.some.injEq] at hc0; subst hc0
  refine CI_quiet st st cs tid th _ c hCI htid hc rfl rfl rfl rfl
    (fun w hw => priv_congr th _ c w (fun _ _ => Iff.rfl) rfl (fun _ => ⟨rfl, rfl⟩) (fun _ => ⟨rfl, rfl⟩) hw)
    (FI_congr th _ c (fun _ _ => Iff.rfl) rfl (fun _ => ⟨rfl, rfl⟩) (hCI.FIc tid th c hown_old hc)) ?_ ?_
  · intro _ hs; exact ⟨hs, fun h => h, fun h => h, rfl, rfl⟩
  · exact ⟨hb, hadj, p, hp, Loc_congr _ _ th _ c p rfl rfl rfl rfl rfl rfl rfl rfl rfl rfl (fun _ => rfl) hl⟩

theorem mem_drop_succ : ∀ (L : List Nat) (k x : Nat), x ∈ L.drop (k + 1) → x ∈ L.drop k
  | [], _, _, h => by simp at h
  | a :: L, 0, x, h => by simp at h ⊢; exact Or.inr h
  | a :: L, k + 1, x, h => by
    simp only [List.drop_succ_cons] at h ⊢
    exact mem_drop_succ L k x h

/-- **every micro step preserves `CI`** -/
theorem CI_mstep (st : State) (cs : List Bool) (tid : Nat) (th : Thread) (st' : State) (th' : Thread)
    (hsim : Sim (install st tid th) cs) (htid : tid < st.threads.length)
    (hCI : CI (install st tid th) cs (some tid)) (h : mstep st tid th = some (st', th')) :
    CI (install st' tid th') cs (some tid) := by
  obtain ⟨c, hc, hb, hadj, p, hp0, hl⟩ := own_thread st cs _ tid th hCI htid
  cases hprog : th.prog with
  | nil =>
    simp only [mstep, hprog] at h
    split at h
    · simp at h
    · simp only [Option.some.injEq, Prod.mk.injEq] at h
      obtain ⟨rfl, rfl⟩ := h
      have := CI_finish st cs tid th c hCI htid hc hprog
      rw [hprog] at this
      exact this
  | cons m rest =>
    have hp := hp0
    rw [hprog] at hp
    rcases pop_code2 _ _ p m rest hp with ⟨hm, hstrip⟩ | ⟨hm, p', hn, hstrip⟩
    · cases m with
      | park l =>
        simp only [mstep, hprog, Option.some.injEq, Prod.mk.injEq] at h
        obtain ⟨rfl, rfl⟩ := h
        exact CI_irrelevant st cs tid th c _ rest p th.result hCI htid hc hprog hm hstrip hl
      | act a =>
        simp only [mstep, hprog, Option.some.injEq] at h
        obtain ⟨r, hr⟩ := doAct_irrelevant2 st { th with prog := rest } a hm
        rw [hr] at h
        simp only [Prod.mk.injEq] at h
        obtain ⟨rfl, rfl⟩ := h
        exact CI_irrelevant st cs tid th c _ rest p r hCI htid hc hprog hm hstrip hl
      | acquire _ => simp [relevant2] at hm
      | release _ => simp [relevant2] at hm
      | acquireRoot => simp [relevant2] at hm
      | releaseRoot => simp [relevant2] at hm
      | userWrites => simp [relevant2] at hm
    · cases p with
      | acq k =>
        simp only [next2] at hn
        cases hk : (lockList th)[k]? with
        | some tb =>
          rw [hk] at hn
          simp only [Option.some.injEq, Prod.mk.injEq] at hn
          obtain ⟨rfl, rfl⟩ := hn
          simp only [mstep, hprog] at h
          split at h
          · simp at h
          · simp only [Option.some.injEq, Prod.mk.injEq] at h
            obtain ⟨rfl, rfl⟩ := h
            exact CI_move st _ cs tid th c _ rest _ _ hCI htid hc hprog (by simp [tracked]) rfl rfl rfl rfl hstrip hl
              (fun _ _ => trivial)
        | none =>
          rw [hk] at hn
          simp only [Option.some.injEq, Prod.mk.injEq] at hn
          obtain ⟨rfl, rfl⟩ := hn
          simp only [mstep, hprog, doAct, Option.some.injEq, Prod.mk.injEq] at h
          obtain ⟨rfl, rfl⟩ := h
          exact CI_loadRoot st cs tid th c rest k hCI htid hc hprog hp0 hb hstrip
      | clR =>
        simp only [next2, Option.some.injEq, Prod.mk.injEq] at hn
        obtain ⟨rfl, rfl⟩ := hn
        simp only [mstep, hprog, doAct, Option.some.injEq, Prod.mk.injEq] at h
        obtain ⟨rfl, rfl⟩ := h
        exact CI_cloneRoot st cs tid th c rest hCI htid hc hprog hp0 hl hstrip
      | clE =>
        simp only [next2, Option.some.injEq, Prod.mk.injEq] at hn
        obtain ⟨rfl, rfl⟩ := hn
        simp only [mstep, hprog, doAct, Option.some.injEq, Prod.mk.injEq] at h
        obtain ⟨rfl, rfl⟩ := h
        exact CI_cloneEntries st cs tid th c rest hCI htid hc hprog hl hstrip
      | uw =>
        simp only [next2, Option.some.injEq, Prod.mk.injEq] at hn
        obtain ⟨rfl, rfl⟩ := hn
        simp only [mstep, hprog, Option.some.injEq] at h
        have := CI_userWrites st cs tid th c rest hCI htid hc hprog hp0 hb hadj hl hstrip
        rw [h] at this
        exact this
      | aR =>
        simp only [next2, Option.some.injEq, Prod.mk.injEq] at hn
        obtain ⟨rfl, rfl⟩ := hn
        simp only [mstep, hprog] at h
        split at h
        · simp at h
        · simp only [Option.some.injEq, Prod.mk.injEq] at h
          obtain ⟨rfl, rfl⟩ := h
          exact CI_move st _ cs tid th c _ rest _ _ hCI htid hc hprog (by simp [tracked]) rfl rfl rfl rfl hstrip hl
            (fun _ h => h)
      | lc =>
        simp only [next2, Option.some.injEq, Prod.mk.injEq] at hn
        obtain ⟨rfl, rfl⟩ := hn
        simp only [mstep, hprog, doAct, Option.some.injEq, Prod.mk.injEq] at h
        obtain ⟨rfl, rfl⟩ := h
        exact CI_loadCurrentRoot st cs tid th c rest .mg hCI htid hc hprog hstrip ⟨hl.1, hl.2.1, hl.2.2, rfl⟩
      | mg =>
        simp only [next2, Option.some.injEq, Prod.mk.injEq] at hn
        obtain ⟨rfl, rfl⟩ := hn
        simp only [mstep, hprog, doAct_mergeUnlocked, Option.some.injEq, Prod.mk.injEq] at h
        obtain ⟨rfl, rfl⟩ := h
        exact CI_mergeUnlocked st cs tid th c rest hCI htid hc hprog hl hstrip
      | ci =>
        simp only [next2, Option.some.injEq, Prod.mk.injEq] at hn
        obtain ⟨rfl, rfl⟩ := hn
        simp only [mstep, hprog, doAct_collectInit, Option.some.injEq, Prod.mk.injEq] at h
        obtain ⟨rfl, rfl⟩ := h
        exact CI_collectInit st cs tid th c rest hCI htid hc hprog hp0 hb hl hstrip
      | sr =>
        simp only [next2, Option.some.injEq, Prod.mk.injEq] at hn
        obtain ⟨rfl, rfl⟩ := hn
        simp only [mstep, hprog, doAct, Option.some.injEq, Prod.mk.injEq] at h
        obtain ⟨rfl, rfl⟩ := h
        exact CI_storeCommit st cs tid th c rest hCI hsim htid hc hprog hp0 hb hadj hl hstrip
      | rR =>
        simp only [next2, Option.some.injEq, Prod.mk.injEq] at hn
        obtain ⟨rfl, rfl⟩ := hn
        simp only [mstep, hprog, Option.some.injEq, Prod.mk.injEq] at h
        obtain ⟨rfl, rfl⟩ := h
        exact CI_move st _ cs tid th c _ rest _ _ hCI htid hc hprog (by simp [tracked]) rfl rfl rfl rfl hstrip hl
          (fun _ h => h)
      | nt =>
        simp only [next2, Option.some.injEq, Prod.mk.injEq] at hn
        obtain ⟨rfl, rfl⟩ := hn
        simp only [mstep, hprog, doAct, Option.some.injEq, Prod.mk.injEq] at h
        obtain ⟨rfl, rfl⟩ := h
        exact CI_notify st cs tid th c rest hCI htid hc hprog hp0 hb hadj hl hstrip
      | rel k =>
        simp only [next2] at hn
        cases hk : (lockList th)[k]? with
        | some tb =>
          rw [hk] at hn
          simp only [Option.some.injEq, Prod.mk.injEq] at hn
          obtain ⟨rfl, rfl⟩ := hn
          simp only [mstep, hprog, Option.some.injEq, Prod.mk.injEq] at h
          obtain ⟨rfl, rfl⟩ := h
          refine CI_move st _ cs tid th c _ rest _ _ hCI htid hc hprog (by simp [tracked]) rfl rfl rfl rfl hstrip hl ?_
          intro th'' hl''
          refine ⟨hl''.1, fun hc' => ⟨(hl''.2 hc').1, fun x hx => (hl''.2 hc').2 x ?_⟩⟩
          exact mem_drop_succ _ _ _ hx
        | none =>
          rw [hk] at hn
          cases c with
          | false => simp at hn
          | true =>
            simp only [if_true, Option.some.injEq, Prod.mk.injEq] at hn
            obtain ⟨rfl, rfl⟩ := hn
            simp only [mstep, hprog, doAct, Option.some.injEq, Prod.mk.injEq] at h
            obtain ⟨rfl, rfl⟩ := h
            exact CI_closeInit st cs tid th true rest k hCI htid hc hprog hp0 rfl hb hadj hl hstrip
      | fin => simp [next2] at hn
      | gA =>
        simp only [next2, Option.some.injEq, Prod.mk.injEq] at hn
        obtain ⟨rfl, rfl⟩ := hn
        simp only [mstep, hprog] at h
        split at h
        · simp at h
        · simp only [Option.some.injEq, Prod.mk.injEq] at h
          obtain ⟨rfl, rfl⟩ := h
          exact CI_move st _ cs tid th c _ rest _ _ hCI htid hc hprog (by simp [tracked]) rfl rfl rfl rfl hstrip hl
            (fun _ h => h)
      | gL =>
        simp only [next2, Option.some.injEq, Prod.mk.injEq] at hn
        obtain ⟨rfl, rfl⟩ := hn
        simp only [mstep, hprog, doAct, Option.some.injEq, Prod.mk.injEq] at h
        obtain ⟨rfl, rfl⟩ := h
        exact CI_loadCurrentRoot st cs tid th c rest .gP hCI htid hc hprog hstrip ⟨hl.1, hl.2, rfl⟩
      | gP =>
        simp only [next2, Option.some.injEq, Prod.mk.injEq] at hn
        obtain ⟨rfl, rfl⟩ := hn
        simp only [mstep, hprog, doAct, Option.some.injEq, Prod.mk.injEq] at h
        obtain ⟨rfl, rfl⟩ := h
        exact CI_appendTable st cs tid th c rest hCI htid hc hprog hadj hl hstrip
      | gS =>
        simp only [next2, Option.some.injEq, Prod.mk.injEq] at hn
        obtain ⟨rfl, rfl⟩ := hn
        simp only [mstep, hprog, doAct, Option.some.injEq, Prod.mk.injEq] at h
        obtain ⟨rfl, rfl⟩ := h
        exact CI_storeReg st cs tid th c rest hCI hsim htid hc hprog hp0 hadj hl hstrip
      | gR =>
        simp only [next2, Option.some.injEq, Prod.mk.injEq] at hn
        obtain ⟨rfl, rfl⟩ := hn
        simp only [mstep, hprog, Option.some.injEq, Prod.mk.injEq] at h
        obtain ⟨rfl, rfl⟩ := h
        exact CI_move st _ cs tid th c _ rest _ _ hCI htid hc hprog (by simp [tracked]) rfl rfl rfl rfl hstrip hl
          (fun _ h => h)
      | gE => simp [next2] at hn
      | dA =>
        simp only [next2, Option.some.injEq, Prod.mk.injEq] at hn
        obtain ⟨rfl, rfl⟩ := hn
        simp only [mstep, hprog] at h
        split at h
        · simp at h
        · simp only [Option.some.injEq, Prod.mk.injEq] at h
          obtain ⟨rfl, rfl⟩ := h
          exact CI_move st _ cs tid th c _ rest _ _ hCI htid hc hprog (by simp [tracked]) rfl rfl rfl rfl hstrip hl
            (fun _ h => h)
      | dL =>
        simp only [next2, Option.some.injEq, Prod.mk.injEq] at hn
        obtain ⟨rfl, rfl⟩ := hn
        simp only [mstep, hprog, doAct, Option.some.injEq, Prod.mk.injEq] at h
        obtain ⟨rfl, rfl⟩ := h
        exact CI_loadCurrentRoot st cs tid th c rest .dR hCI htid hc hprog hstrip hl
      | dR =>
        simp only [next2, Option.some.injEq, Prod.mk.injEq] at hn
        obtain ⟨rfl, rfl⟩ := hn
        simp only [mstep, hprog, Option.some.injEq, Prod.mk.injEq] at h
        obtain ⟨rfl, rfl⟩ := h
        exact CI_move st _ cs tid th c _ rest _ _ hCI htid hc hprog (by simp [tracked]) rfl rfl rfl rfl hstrip hl
          (fun _ h => h)

end Sdb.Conc
