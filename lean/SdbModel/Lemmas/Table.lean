import SdbModel.Lemmas.OMap
/-!
  Lemmas on Model.Table for C03 / C09: case analysis of `modify` / `delete` / `deleteAll`,
  the table invariant `TInv` (primary + revision index), its preservation by every write
  operation, its consequences for the queries, and the lifting to `DB` (write transaction
  handle, commit, abort).  Core Lean only.
-/
namespace Sdb.Tbl
open OMap

theorem pow_256_8 : (256 : Nat) ^ 8 = 2 ^ 64 := by decide

theorem revKey_inj (a b : Nat) (ha : a < 2 ^ 64) (hb : b < 2 ^ 64) (h : revKey a = revKey b) : a = b :=
  be_injective 8 a b (by rw [pow_256_8]; exact ha) (by rw [pow_256_8]; exact hb) h

theorem revKey_cmp (a b : Nat) (ha : a < 2 ^ 64) (hb : b < 2 ^ 64) : cmpL (revKey a) (revKey b) = cmpN a b :=
  be_cmp 8 a b (by rw [pow_256_8]; exact ha) (by rw [pow_256_8]; exact hb)

@[simp] theorem reindexAll_primary (t : TableS) (old new : Option Obj) (id : Key) :
    (reindexAll t old new id).primary = t.primary := by
  unfold reindexAll; simp only; split <;> rfl
@[simp] theorem reindexAll_revIdx (t : TableS) (old new : Option Obj) (id : Key) :
    (reindexAll t old new id).revIdx = t.revIdx := by
  unfold reindexAll; simp only; split <;> rfl
@[simp] theorem reindexAll_rev (t : TableS) (old new : Option Obj) (id : Key) :
    (reindexAll t old new id).rev = t.rev := by
  unfold reindexAll; simp only; split <;> rfl
@[simp] theorem reindexAll_locked (t : TableS) (old new : Option Obj) (id : Key) :
    (reindexAll t old new id).locked = t.locked := by
  unfold reindexAll; simp only; split <;> rfl
@[simp] theorem reindexAll_trackers (t : TableS) (old new : Option Obj) (id : Key) :
    (reindexAll t old new id).trackers = t.trackers := by
  unfold reindexAll; simp only; split <;> rfl
@[simp] theorem reindexAll_grave (t : TableS) (old new : Option Obj) (id : Key) :
    (reindexAll t old new id).grave = t.grave := by
  unfold reindexAll; simp only; split <;> rfl
@[simp] theorem reindexAll_graveRev (t : TableS) (old new : Option Obj) (id : Key) :
    (reindexAll t old new id).graveRev = t.graveRev := by
  unfold reindexAll; simp only; split <;> rfl
@[simp] theorem reindexAll_full (t : TableS) (old new : Option Obj) (id : Key) :
    (reindexAll t old new id).full = t.full := by
  unfold reindexAll; simp only; split <;> rfl
@[simp] theorem reindexAll_init (t : TableS) (old new : Option Obj) (id : Key) :
    (reindexAll t old new id).init = t.init := by
  unfold reindexAll; simp only; split <;> rfl
@[simp] theorem reindexAll_gen (t : TableS) (old new : Option Obj) (id : Key) :
    (reindexAll t old new id).gen = t.gen := by
  unfold reindexAll; simp only; split <;> rfl
@[simp] theorem reindexAll_revDirty (t : TableS) (old new : Option Obj) (id : Key) :
    (reindexAll t old new id).revDirty = t.revDirty := by
  unfold reindexAll; simp only; split <;> rfl

/-- the object version `modify` writes -/
def newObj (t : TableS) (o : Obj) (merge : Bool) : Obj :=
  match t.primary.get o.id, merge with
  | some oo, true => { o with rev := t.rev + 1, val := oo.val + o.val }
  | _, _ => { o with rev := t.rev + 1 }

@[simp] theorem newObj_id (t : TableS) (o : Obj) (merge : Bool) : (newObj t o merge).id = o.id := by
  unfold newObj; split <;> rfl
@[simp] theorem newObj_rev (t : TableS) (o : Obj) (merge : Bool) : (newObj t o merge).rev = t.rev + 1 := by
  unfold newObj; split <;> rfl

/-- the guard of `modify`/`delete` passes: no guard, or the stored revision equals it -/
def GuardOk (guard : Nat) (old : Option Obj) : Prop := guard = 0 ∨ ∃ oo, old = some oo ∧ oo.rev = guard

theorem modify_notLocked (t : TableS) (g : Nat) (o : Obj) (m : Bool) (h : t.locked = false) :
    modify t g o m = (t, none, .notLocked) := by
  unfold modify; simp [h]

theorem modify_notFound (t : TableS) (g : Nat) (o : Obj) (m : Bool) (h : t.locked = true)
    (hg : g > 0) (hn : t.primary.get o.id = none) : modify t g o m = (t, none, .notFound) := by
  unfold modify; simp [h, hg, hn]

theorem modify_revNotEqual (t : TableS) (g : Nat) (o : Obj) (m : Bool) (h : t.locked = true)
    (hg : g > 0) (oo : Obj) (hs : t.primary.get o.id = some oo) (hr : oo.rev ≠ g) :
    modify t g o m = (t, some oo, .revNotEqual) := by
  unfold modify; simp [h, hg, hs, hr]

/-- the table `modify` produces on success (all fields that the table-level properties read) -/
structure ModOk (t : TableS) (o : Obj) (m : Bool) (t' : TableS) : Prop where
  rev : t'.rev = t.rev + 1
  primary : t'.primary = t.primary.insert o.id (newObj t o m)
  revIdx : t'.revIdx = (match t.primary.get o.id with
      | some oo => t.revIdx.erase (revKey oo.rev)
      | none => t.revIdx).insert (revKey (t.rev + 1)) (newObj t o m)
  locked : t'.locked = t.locked
  trackers : t'.trackers = t.trackers
  full : t'.full = t.full
  init : t'.init = t.init
  gen : t'.gen = t.gen
  revDirty : t'.revDirty = true

theorem modify_ok (t : TableS) (g : Nat) (o : Obj) (m : Bool) (h : t.locked = true)
    (hok : GuardOk g (t.primary.get o.id)) :
    ∃ t', modify t g o m = (t', t.primary.get o.id, .ok) ∧ ModOk t o m t' := by
  have h1 : ¬ (g > 0 ∧ (t.primary.get o.id).isNone = true) := by
    rcases hok with h0 | ⟨oo, ho, _⟩
    · omega
    · simp [ho]
  have h2 : ¬ (g > 0 ∧ ((t.primary.get o.id).map (·.rev)) ≠ some g) := by
    rcases hok with h0 | ⟨oo, ho, hr⟩
    · omega
    · simp [ho, hr]
  unfold modify
  simp only [h, Bool.not_true, Bool.false_eq_true, if_false, h1, h2]
  refine ⟨_, rfl, ?_⟩
  cases hold : t.primary.get o.id with
  | some oo =>
    cases m <;> constructor <;> simp [newObj, hold, h]
  | none =>
    cases hg : t.grave.get o.id <;> cases m <;> constructor <;> simp [newObj, hold, h]

theorem delete_notLocked (t : TableS) (g : Nat) (id : Key) (h : t.locked = false) :
    delete t g id = (t, none, .notLocked) := by
  unfold delete; simp [h]

theorem delete_absent (t : TableS) (g : Nat) (id : Key) (h : t.locked = true)
    (hn : t.primary.get id = none) : delete t g id = (t, none, .ok) := by
  unfold delete; simp [h, hn]

theorem delete_revNotEqual (t : TableS) (g : Nat) (id : Key) (h : t.locked = true)
    (old : Obj) (hs : t.primary.get id = some old) (hg : g > 0) (hr : old.rev ≠ g) :
    delete t g id = (t, some old, .revNotEqual) := by
  unfold delete; simp [h, hs, hg, hr]

/-- the table `delete` produces on success -/
structure DelOk (t : TableS) (id : Key) (old : Obj) (t' : TableS) : Prop where
  rev : t'.rev = t.rev + 1
  primary : t'.primary = t.primary.erase id
  revIdx : t'.revIdx = t.revIdx.erase (revKey old.rev)
  locked : t'.locked = t.locked
  trackers : t'.trackers = t.trackers
  full : t'.full = t.full
  init : t'.init = t.init
  gen : t'.gen = t.gen
  revDirty : t'.revDirty = true
  graveNoTracker : t.trackers = [] → t'.grave = t.grave ∧ t'.graveRev = t.graveRev
  graveTracker : t.trackers ≠ [] →
    t'.grave = t.grave.insert id { old with rev := t.rev + 1 } ∧
    t'.graveRev = t.graveRev.insert (revKey (t.rev + 1)) { old with rev := t.rev + 1 }

theorem delete_ok (t : TableS) (g : Nat) (id : Key) (h : t.locked = true)
    (old : Obj) (hs : t.primary.get id = some old) (hg : g = 0 ∨ old.rev = g) :
    ∃ t', delete t g id = (t', some old, .ok) ∧ DelOk t id old t' := by
  have h1 : ¬ (g > 0 ∧ old.rev ≠ g) := by omega
  unfold delete
  simp only [h, Bool.not_true, Bool.false_eq_true, if_false, hs, h1]
  refine ⟨_, rfl, ?_⟩
  by_cases ht : t.trackers = []
  · constructor <;> simp [ht, h]
  · constructor <;> simp [ht, h]

/-! ### the table invariant -/

/-- Invariant of the primary / revision index pair of a table.  It reads only the
    fields `rev`, `primary`, `revIdx`. -/
structure TInv (t : TableS) : Prop where
  /-- primary index strictly ascending in the primary key -/
  sortedP : Sorted t.primary
  /-- revision index strictly ascending in its key -/
  sortedR : Sorted t.revIdx
  /-- an object is stored under its own primary key -/
  idOk : ∀ k o, t.primary.get k = some o → o.id = k
  /-- revisions of live objects are positive … -/
  revPos : ∀ k o, t.primary.get k = some o → 0 < o.rev
  /-- … and at most the table revision -/
  revLe : ∀ k o, t.primary.get k = some o → o.rev ≤ t.rev
  /-- live objects have pairwise distinct revisions -/
  revInj : ∀ k1 o1 k2 o2, t.primary.get k1 = some o1 → t.primary.get k2 = some o2 → o1.rev = o2.rev → k1 = k2
  /-- the revision index holds exactly the live objects, each under `revKey` of its revision -/
  revIdxChar : ∀ k o, t.revIdx.get k = some o ↔ t.primary.get o.id = some o ∧ k = revKey o.rev
  /-- the revision fits the Go type `uint64` -/
  bound : t.rev < 2 ^ 64

theorem TInv.empty (t : TableS) (hp : t.primary = []) (hr : t.revIdx = []) (hb : t.rev < 2 ^ 64) : TInv t := by
  constructor <;> simp [hp, hr, sorted_nil, hb]

/-- the invariant depends on `rev`, `primary`, `revIdx` only -/
theorem TInv.congr {t t' : TableS} (h : TInv t) (h1 : t'.rev = t.rev) (h2 : t'.primary = t.primary)
    (h3 : t'.revIdx = t.revIdx) : TInv t' := by
  obtain ⟨a, b, c, d, e, f, g, i⟩ := h
  constructor
  · rw [h2]; exact a
  · rw [h3]; exact b
  · rw [h2]; exact c
  · rw [h2]; exact d
  · rw [h1, h2]; exact e
  · rw [h2]; exact f
  · rw [h2, h3]; exact g
  · rw [h1]; exact i

theorem TInv.modOk {t t' : TableS} {o : Obj} {m : Bool} (inv : TInv t) (hm : ModOk t o m t')
    (hb : t.rev + 1 < 2 ^ 64) : TInv t' := by
  have hgetP : ∀ k, t'.primary.get k = if k = o.id then some (newObj t o m) else t.primary.get k := by
    intro k; rw [hm.primary, get_insert]
  have hsR0 : Sorted (match t.primary.get o.id with
      | some oo => t.revIdx.erase (revKey oo.rev)
      | none => t.revIdx) := by
    split
    · exact sorted_erase _ inv.sortedR _
    · exact inv.sortedR
  have hgetR : ∀ k, t'.revIdx.get k = if k = revKey (t.rev + 1) then some (newObj t o m) else
      (match t.primary.get o.id with
        | some oo => if k = revKey oo.rev then none else t.revIdx.get k
        | none => t.revIdx.get k) := by
    intro k; rw [hm.revIdx, get_insert]
    split
    · rfl
    · split
      · rw [get_erase _ inv.sortedR]
      · rfl
  constructor
  · rw [hm.primary]; exact sorted_insert _ inv.sortedP _ _
  · rw [hm.revIdx]; exact sorted_insert _ hsR0 _ _
  · intro k x hx
    rw [hgetP] at hx
    split at hx
    · rename_i hk; simp only [Option.some.injEq] at hx; subst hx; simp [hk]
    · exact inv.idOk k x hx
  · intro k x hx
    rw [hgetP] at hx
    split at hx
    · simp only [Option.some.injEq] at hx; subst hx; simp
    · exact inv.revPos k x hx
  · intro k x hx
    rw [hgetP] at hx
    rw [hm.rev]
    split at hx
    · simp only [Option.some.injEq] at hx; subst hx; simp
    · have := inv.revLe k x hx; omega
  · intro k1 o1 k2 o2 h1 h2 he
    rw [hgetP] at h1 h2
    split at h1 <;> split at h2
    · simp_all
    · simp only [Option.some.injEq] at h1; subst h1
      have := inv.revLe k2 o2 h2
      simp at he; omega
    · simp only [Option.some.injEq] at h2; subst h2
      have := inv.revLe k1 o1 h1
      simp at he; omega
    · exact inv.revInj k1 o1 k2 o2 h1 h2 he
  · intro k x
    rw [hgetR, hgetP]
    constructor
    · intro hx
      split at hx
      · rename_i hk
        simp only [Option.some.injEq] at hx; subst hx
        simp [hk]
      · rename_i hk
        have key : t.revIdx.get k = some x ∧ (∀ oo, t.primary.get o.id = some oo → k ≠ revKey oo.rev) := by
          split at hx
          · rename_i oo hoo
            split at hx
            · simp at hx
            · rename_i hne
              refine ⟨hx, ?_⟩
              intro oo' hoo'
              rw [hoo] at hoo'; simp only [Option.some.injEq] at hoo'; subst hoo'; exact hne
          · rename_i hnone
            exact ⟨hx, fun oo hoo => by rw [hnone] at hoo; simp at hoo⟩
        obtain ⟨hx1, hx2⟩ := key
        have ⟨hp, hkk⟩ := (inv.revIdxChar k x).mp hx1
        have hid : x.id ≠ o.id := by
          intro hid
          rw [hid] at hp
          exact hx2 x hp hkk
        simp [hid, hp, hkk]
    · rintro ⟨hp, hk⟩
      split at hp
      · rename_i hid
        simp only [Option.some.injEq] at hp; subst hp
        simp [hk]
      · rename_i hid
        have hxr := inv.revLe _ _ hp
        have hne1 : k ≠ revKey (t.rev + 1) := by
          rw [hk]; intro he
          have := revKey_inj _ _ (by omega) hb he
          omega
        rw [if_neg hne1]
        have hx1 := (inv.revIdxChar k x).mpr ⟨hp, hk⟩
        split
        · rename_i oo hoo
          have : k ≠ revKey oo.rev := by
            rw [hk]; intro he
            have hor := inv.revLe _ _ hoo
            have := revKey_inj _ _ (by omega) (by omega) he
            exact hid (inv.revInj _ _ _ _ hp hoo this)
          rw [if_neg this]; exact hx1
        · exact hx1
  · rw [hm.rev]; exact hb

theorem TInv.delOk {t t' : TableS} {id : Key} {old : Obj} (inv : TInv t) (hs : t.primary.get id = some old)
    (hd : DelOk t id old t') (hb : t.rev + 1 < 2 ^ 64) : TInv t' := by
  have hgetP : ∀ k, t'.primary.get k = if k = id then none else t.primary.get k := by
    intro k; rw [hd.primary, get_erase _ inv.sortedP]
  have hgetR : ∀ k, t'.revIdx.get k = if k = revKey old.rev then none else t.revIdx.get k := by
    intro k; rw [hd.revIdx, get_erase _ inv.sortedR]
  have hoid : old.id = id := inv.idOk _ _ hs
  constructor
  · rw [hd.primary]; exact sorted_erase _ inv.sortedP _
  · rw [hd.revIdx]; exact sorted_erase _ inv.sortedR _
  · intro k x hx
    rw [hgetP] at hx
    split at hx
    · simp at hx
    · exact inv.idOk k x hx
  · intro k x hx
    rw [hgetP] at hx
    split at hx
    · simp at hx
    · exact inv.revPos k x hx
  · intro k x hx
    rw [hgetP] at hx
    rw [hd.rev]
    split at hx
    · simp at hx
    · have := inv.revLe k x hx; omega
  · intro k1 o1 k2 o2 h1 h2 he
    rw [hgetP] at h1 h2
    split at h1
    · simp at h1
    · split at h2
      · simp at h2
      · exact inv.revInj k1 o1 k2 o2 h1 h2 he
  · intro k x
    rw [hgetR, hgetP]
    constructor
    · intro hx
      split at hx
      · simp at hx
      · rename_i hne
        have ⟨hp, hkk⟩ := (inv.revIdxChar k x).mp hx
        have hid : x.id ≠ id := by
          intro hid
          rw [hid, hs] at hp
          simp only [Option.some.injEq] at hp; subst hp
          exact hne hkk
        simp [hid, hp, hkk]
    · rintro ⟨hp, hk⟩
      split at hp
      · simp at hp
      · rename_i hid
        have hx1 := (inv.revIdxChar k x).mpr ⟨hp, hk⟩
        have : k ≠ revKey old.rev := by
          rw [hk]; intro he
          have h1 := inv.revLe _ _ hp
          have h2 := inv.revLe _ _ hs
          have := revKey_inj _ _ (by omega) (by omega) he
          exact hid (inv.revInj _ _ _ _ hp hs this)
        rw [if_neg this]; exact hx1
  · rw [hd.rev]; exact hb

/-! ### results of the write operations, by case -/

/-- every outcome of `modify` -/
theorem modify_cases (t : TableS) (g : Nat) (o : Obj) (m : Bool) :
    (t.locked = false ∧ modify t g o m = (t, none, .notLocked)) ∨
    (t.locked = true ∧ g > 0 ∧ t.primary.get o.id = none ∧ modify t g o m = (t, none, .notFound)) ∨
    (t.locked = true ∧ g > 0 ∧ (∃ oo, t.primary.get o.id = some oo ∧ oo.rev ≠ g ∧
        modify t g o m = (t, some oo, .revNotEqual))) ∨
    (t.locked = true ∧ GuardOk g (t.primary.get o.id) ∧
        ∃ t', modify t g o m = (t', t.primary.get o.id, .ok) ∧ ModOk t o m t') := by
  cases hl : t.locked with
  | false => exact Or.inl ⟨rfl, modify_notLocked t g o m hl⟩
  | true =>
    by_cases hg : g = 0
    · have hok : GuardOk g (t.primary.get o.id) := Or.inl hg
      exact Or.inr (Or.inr (Or.inr ⟨rfl, hok, modify_ok t g o m hl hok⟩))
    · cases ho : t.primary.get o.id with
      | none => exact Or.inr (Or.inl ⟨rfl, by omega, rfl, modify_notFound t g o m hl (by omega) ho⟩)
      | some oo =>
        by_cases hr : oo.rev = g
        · have hok : GuardOk g (t.primary.get o.id) := Or.inr ⟨oo, ho, hr⟩
          have := modify_ok t g o m hl hok
          rw [ho] at this hok
          exact Or.inr (Or.inr (Or.inr ⟨rfl, hok, this⟩))
        · exact Or.inr (Or.inr (Or.inl ⟨rfl, by omega, oo, rfl, hr, modify_revNotEqual t g o m hl (by omega) oo ho hr⟩))

/-- every outcome of `delete` -/
theorem delete_cases (t : TableS) (g : Nat) (id : Key) :
    (t.locked = false ∧ delete t g id = (t, none, .notLocked)) ∨
    (t.locked = true ∧ t.primary.get id = none ∧ delete t g id = (t, none, .ok)) ∨
    (t.locked = true ∧ g > 0 ∧ (∃ old, t.primary.get id = some old ∧ old.rev ≠ g ∧
        delete t g id = (t, some old, .revNotEqual))) ∨
    (t.locked = true ∧ ∃ old, t.primary.get id = some old ∧ (g = 0 ∨ old.rev = g) ∧
        ∃ t', delete t g id = (t', some old, .ok) ∧ DelOk t id old t') := by
  cases hl : t.locked with
  | false => exact Or.inl ⟨rfl, delete_notLocked t g id hl⟩
  | true =>
    cases ho : t.primary.get id with
    | none => exact Or.inr (Or.inl ⟨rfl, rfl, delete_absent t g id hl ho⟩)
    | some old =>
      by_cases hg : g = 0 ∨ old.rev = g
      · exact Or.inr (Or.inr (Or.inr ⟨rfl, old, rfl, hg, delete_ok t g id hl old ho hg⟩))
      · exact Or.inr (Or.inr (Or.inl ⟨rfl, by omega, old, rfl, by omega,
          delete_revNotEqual t g id hl old ho (by omega) (by omega)⟩))

/-- **`modify` preserves the invariant** (for every argument), as long as the revision counter fits -/
theorem TInv.modify_preserves {t : TableS} (inv : TInv t) (g : Nat) (o : Obj) (m : Bool)
    (hb : (modify t g o m).1.rev < 2 ^ 64) : TInv (modify t g o m).1 := by
  rcases modify_cases t g o m with ⟨_, h⟩ | ⟨_, _, _, h⟩ | ⟨_, _, oo, _, _, h⟩ | ⟨_, _, t', h, hm⟩
  · rw [h]; exact inv
  · rw [h]; exact inv
  · rw [h]; exact inv
  · rw [h] at hb ⊢
    simp only at hb ⊢
    rw [hm.rev] at hb
    exact inv.modOk hm hb

/-- **`delete` preserves the invariant** (for every argument) -/
theorem TInv.delete_preserves {t : TableS} (inv : TInv t) (g : Nat) (id : Key)
    (hb : (delete t g id).1.rev < 2 ^ 64) : TInv (delete t g id).1 := by
  rcases delete_cases t g id with ⟨_, h⟩ | ⟨_, _, h⟩ | ⟨_, _, oo, _, _, h⟩ | ⟨_, old, hs, _, t', h, hd⟩
  · rw [h]; exact inv
  · rw [h]; exact inv
  · rw [h]; exact inv
  · rw [h] at hb ⊢
    simp only at hb ⊢
    rw [hd.rev] at hb
    exact inv.delOk hs hd hb

/-! ### revision counter: monotone, +1 exactly on success -/

theorem modify_rev_cases (t : TableS) (g : Nat) (o : Obj) (m : Bool) :
    ((modify t g o m).2.2 = .ok ∧ (modify t g o m).1.rev = t.rev + 1) ∨
    ((modify t g o m).2.2 ≠ .ok ∧ (modify t g o m).1 = t) := by
  rcases modify_cases t g o m with ⟨_, h⟩ | ⟨_, _, _, h⟩ | ⟨_, _, oo, _, _, h⟩ | ⟨_, _, t', h, hm⟩
  · rw [h]; simp
  · rw [h]; simp
  · rw [h]; simp
  · rw [h]; exact Or.inl ⟨rfl, hm.rev⟩

theorem modify_rev_mono (t : TableS) (g : Nat) (o : Obj) (m : Bool) : t.rev ≤ (modify t g o m).1.rev := by
  rcases modify_rev_cases t g o m with ⟨_, h⟩ | ⟨_, h⟩ <;> rw [h] <;> omega

theorem delete_rev_le (t : TableS) (g : Nat) (id : Key) :
    t.rev ≤ (delete t g id).1.rev ∧ (delete t g id).1.rev ≤ t.rev + 1 := by
  rcases delete_cases t g id with ⟨_, h⟩ | ⟨_, _, h⟩ | ⟨_, _, oo, _, _, h⟩ | ⟨_, old, hs, _, t', h, hd⟩
  · rw [h]; simp
  · rw [h]; simp
  · rw [h]; simp
  · rw [h]; simp only; rw [hd.rev]; omega

theorem delete_locked (t : TableS) (g : Nat) (id : Key) : (delete t g id).1.locked = t.locked := by
  rcases delete_cases t g id with ⟨_, h⟩ | ⟨_, _, h⟩ | ⟨_, _, oo, _, _, h⟩ | ⟨_, old, hs, _, t', h, hd⟩
  · rw [h]
  · rw [h]
  · rw [h]
  · rw [h]; exact hd.locked

theorem modify_locked (t : TableS) (g : Nat) (o : Obj) (m : Bool) : (modify t g o m).1.locked = t.locked := by
  rcases modify_cases t g o m with ⟨_, h⟩ | ⟨_, _, _, h⟩ | ⟨_, _, oo, _, _, h⟩ | ⟨_, _, t', h, hm⟩
  · rw [h]
  · rw [h]
  · rw [h]
  · rw [h]; exact hm.locked

/-- unguarded delete on a held table, as a map operation -/
theorem delete0_primary (t : TableS) (id : Key) (hl : t.locked = true) (hs : Sorted t.primary) :
    (delete t 0 id).1.primary = t.primary.erase id := by
  rcases delete_cases t 0 id with ⟨h0, _⟩ | ⟨_, hn, h⟩ | ⟨_, hg, _⟩ | ⟨_, old, _, _, t', h, hd⟩
  · rw [hl] at h0; simp at h0
  · rw [h]; exact (erase_absent _ hs _ hn).symm
  · omega
  · rw [h]; exact hd.primary

/-! ### DeleteAll -/

/-- the loop of `DeleteAll` over a list of entries -/
def delFold (l : List (Key × Obj)) (t : TableS) : TableS :=
  l.foldl (fun t (x : Key × Obj) => (delete t 0 x.1).1) t

theorem deleteAll_eq (t : TableS) :
    deleteAll t = if t.locked then (delFold t.primary t, .ok)
      else (t, if t.primary.isEmpty then .ok else .notLocked) := by
  unfold deleteAll delFold
  cases t.locked <;> rfl

@[simp] theorem delFold_nil (t : TableS) : delFold [] t = t := rfl
@[simp] theorem delFold_cons (x : Key × Obj) (l : List (Key × Obj)) (t : TableS) :
    delFold (x :: l) t = delFold l (delete t 0 x.1).1 := rfl

theorem delFold_rev_mono (l : List (Key × Obj)) (t : TableS) : t.rev ≤ (delFold l t).rev := by
  induction l generalizing t with
  | nil => simp
  | cons x l ih =>
    rw [delFold_cons]
    have := ih (delete t 0 x.1).1
    have := (delete_rev_le t 0 x.1).1
    omega

theorem delFold_locked (l : List (Key × Obj)) (t : TableS) : (delFold l t).locked = t.locked := by
  induction l generalizing t with
  | nil => simp
  | cons x l ih => rw [delFold_cons, ih, delete_locked]

theorem TInv.delFold_preserves {t : TableS} (inv : TInv t) (l : List (Key × Obj))
    (hb : (delFold l t).rev < 2 ^ 64) : TInv (delFold l t) := by
  induction l generalizing t with
  | nil => exact inv
  | cons x l ih =>
    rw [delFold_cons] at hb ⊢
    have := delFold_rev_mono l (delete t 0 x.1).1
    exact ih (inv.delete_preserves 0 x.1 (by omega)) hb

/-- the primary index after the loop: the listed keys are gone, the others untouched -/
theorem delFold_primary_get (l : List (Key × Obj)) (t : TableS) (hl : t.locked = true) (hs : Sorted t.primary) (k : Key) :
    (delFold l t).primary.get k = if k ∈ l.map (·.1) then none else t.primary.get k := by
  induction l generalizing t with
  | nil => simp
  | cons x l ih =>
    have hp := delete0_primary t x.1 hl hs
    have hs' : Sorted (delete t 0 x.1).1.primary := by rw [hp]; exact sorted_erase _ hs _
    rw [delFold_cons, ih _ (by rw [delete_locked]; exact hl) hs', hp, get_erase _ hs]
    simp only [List.map_cons, List.mem_cons]
    by_cases h1 : k = x.1
    · simp [h1]
    · by_cases h2 : k ∈ l.map (·.1) <;> simp [h1, h2]

theorem eq_nil_of_get_none {α : Type} (m : OMap α) (h : ∀ k, OMap.get m k = none) : m = [] := by
  cases m with
  | nil => rfl
  | cons e r =>
    obtain ⟨k, v⟩ := e
    have := h k
    rw [get_cons, cmpL_refl] at this
    simp at this

/-- **DeleteAll empties the primary index** of a held table -/
theorem deleteAll_primary (t : TableS) (hl : t.locked = true) (hs : Sorted t.primary) :
    (deleteAll t).1.primary = [] ∧ (deleteAll t).2 = .ok := by
  rw [deleteAll_eq, hl]
  simp only [if_true, and_true]
  apply eq_nil_of_get_none
  intro k
  rw [delFold_primary_get _ _ hl hs]
  split
  · rfl
  · rename_i hk
    cases hg : t.primary.get k with
    | none => rfl
    | some v =>
      exfalso; apply hk
      have := get_some_mem _ _ _ hg
      exact List.mem_map.mpr ⟨(k, v), this, rfl⟩

theorem deleteAll_notLocked (t : TableS) (hl : t.locked = false) :
    deleteAll t = (t, if t.primary.isEmpty then .ok else .notLocked) := by
  rw [deleteAll_eq, hl]; simp

/-- **`deleteAll` preserves the invariant** -/
theorem TInv.deleteAll_preserves {t : TableS} (inv : TInv t) (hb : (deleteAll t).1.rev < 2 ^ 64) : TInv (deleteAll t).1 := by
  rw [deleteAll_eq] at hb ⊢
  cases hl : t.locked
  · simp [inv]
  · rw [hl] at hb
    simp only [if_true] at hb ⊢
    exact inv.delFold_preserves _ hb

/-- with an empty primary index the revision index is empty too -/
theorem TInv.revIdx_nil {t : TableS} (inv : TInv t) (h : t.primary = []) : t.revIdx = [] := by
  apply eq_nil_of_get_none
  intro k
  cases hg : t.revIdx.get k with
  | none => rfl
  | some o =>
    have := ((inv.revIdxChar k o).mp hg).1
    rw [h] at this; simp at this

/-- DeleteAll assigns one revision per object: the loop over entries that are all present
    (distinct keys) raises the revision by their number -/
theorem delFold_rev (l : List (Key × Obj)) (t : TableS) (hl : t.locked = true) (hs : Sorted t.primary)
    (hl2 : Sorted l) (hpres : ∀ e ∈ l, (t.primary.get e.1).isSome = true) :
    (delFold l t).rev = t.rev + l.length := by
  induction l generalizing t with
  | nil => simp
  | cons x l ih =>
    obtain ⟨xk, xv⟩ := x
    have ⟨ha, hr⟩ := sorted_cons.mp hl2
    have hp := delete0_primary t xk hl hs
    have hs' : Sorted (Tbl.delete t 0 xk).1.primary := by rw [hp]; exact sorted_erase _ hs _
    have hrev : (Tbl.delete t 0 xk).1.rev = t.rev + 1 := by
      rcases delete_cases t 0 xk with ⟨h0, _⟩ | ⟨_, hn, h⟩ | ⟨_, hg, _⟩ | ⟨_, old, _, _, t', h, hd⟩
      · rw [hl] at h0; simp at h0
      · have := hpres (xk, xv) (List.mem_cons_self ..)
        simp only at this
        rw [hn] at this; simp at this
      · omega
      · rw [h]; exact hd.rev
    rw [delFold_cons]
    simp only
    rw [ih _ (by rw [delete_locked]; exact hl) hs' hr, hrev]
    · simp only [List.length_cons]; omega
    · intro e he
      rw [hp, get_erase_other _ hs]
      · exact hpres e (List.mem_cons_of_mem _ he)
      · intro heq
        have := ha e he
        rw [heq, cmpL_refl] at this
        simp at this

theorem deleteAll_rev (t : TableS) (hl : t.locked = true) (hs : Sorted t.primary) :
    (deleteAll t).1.rev = t.rev + t.primary.length := by
  rw [deleteAll_eq, hl]
  simp only [if_true]
  apply delFold_rev _ _ hl hs hs
  intro e he
  rw [mem_get_some _ hs e.1 e.2 he]; rfl

/-! ### consequences of the invariant -/

theorem TInv.mem_primary {t : TableS} (inv : TInv t) (k : Key) (o : Obj) :
    (k, o) ∈ t.primary ↔ t.primary.get k = some o := mem_iff_get _ inv.sortedP k o

theorem TInv.mem_revIdx {t : TableS} (inv : TInv t) (k : Key) (o : Obj) :
    (k, o) ∈ t.revIdx ↔ t.revIdx.get k = some o := mem_iff_get _ inv.sortedR k o

/-- `All()` lists exactly the objects stored under their own key -/
theorem TInv.mem_qAll {t : TableS} (inv : TInv t) (o : Obj) : o ∈ qAll t ↔ t.primary.get o.id = some o := by
  unfold qAll
  rw [List.mem_map]
  constructor
  · rintro ⟨⟨k, v⟩, hm, rfl⟩
    have hg := (inv.mem_primary k v).mp hm
    have := inv.idOk k v hg
    simp only; rw [this]; exact hg
  · intro h
    exact ⟨(o.id, o), (inv.mem_primary _ _).mpr h, rfl⟩

/-- the objects of the revision index are the objects of the primary index -/
theorem TInv.mem_revIdx_objs {t : TableS} (inv : TInv t) (o : Obj) :
    o ∈ t.revIdx.map (·.2) ↔ o ∈ qAll t := by
  rw [inv.mem_qAll, List.mem_map]
  constructor
  · rintro ⟨⟨k, v⟩, hm, rfl⟩
    exact ((inv.revIdxChar k v).mp ((inv.mem_revIdx k v).mp hm)).1
  · intro h
    exact ⟨(revKey o.rev, o), (inv.mem_revIdx _ _).mpr ((inv.revIdxChar _ _).mpr ⟨h, rfl⟩), rfl⟩

theorem TInv.qAll_nodup {t : TableS} (inv : TInv t) : (qAll t).Nodup := by
  unfold qAll List.Nodup
  rw [List.pairwise_map]
  have hs : Sorted t.primary := inv.sortedP
  unfold Sorted at hs
  refine List.Pairwise.imp_of_mem ?_ hs
  intro a b ha hb hlt heq
  have h1 := inv.idOk a.1 a.2 ((inv.mem_primary _ _).mp ha)
  have h2 := inv.idOk b.1 b.2 ((inv.mem_primary _ _).mp hb)
  rw [← h1, ← h2, heq, cmpL_refl] at hlt
  simp at hlt

theorem TInv.revIdx_objs_nodup {t : TableS} (inv : TInv t) : (t.revIdx.map (·.2)).Nodup := by
  unfold List.Nodup
  rw [List.pairwise_map]
  have hs : Sorted t.revIdx := inv.sortedR
  unfold Sorted at hs
  refine List.Pairwise.imp_of_mem ?_ hs
  intro a b ha hb hlt heq
  have h1 := ((inv.revIdxChar a.1 a.2).mp ((inv.mem_revIdx _ _).mp ha)).2
  have h2 := ((inv.revIdxChar b.1 b.2).mp ((inv.mem_revIdx _ _).mp hb)).2
  rw [h1, h2, heq, cmpL_refl] at hlt
  simp at hlt

/-- `NumObjects` (length of the revision index) is the number of entries of the primary index -/
theorem TInv.numObjects {t : TableS} (inv : TInv t) : numObjects t = (qAll t).length := by
  have hp : List.Perm (t.revIdx.map (·.2)) (qAll t) :=
    (List.perm_ext_iff_of_nodup inv.revIdx_objs_nodup inv.qAll_nodup).mpr (fun o => inv.mem_revIdx_objs o)
  have := hp.length_eq
  simpa [Tbl.numObjects] using this

/-- the revision index is strictly ascending in the revision of its objects -/
theorem TInv.revIdx_ascending {t : TableS} (inv : TInv t) :
    (t.revIdx.map (·.2.rev)).Pairwise (· < ·) := by
  rw [List.pairwise_map]
  have hs : Sorted t.revIdx := inv.sortedR
  unfold Sorted at hs
  refine List.Pairwise.imp_of_mem ?_ hs
  intro a b ha hb hlt
  have ⟨p1, h1⟩ := (inv.revIdxChar a.1 a.2).mp ((inv.mem_revIdx _ _).mp ha)
  have ⟨p2, h2⟩ := (inv.revIdxChar b.1 b.2).mp ((inv.mem_revIdx _ _).mp hb)
  have b1 := inv.revLe _ _ p1
  have b2 := inv.revLe _ _ p2
  have bb := inv.bound
  rw [h1, h2, revKey_cmp _ _ (by omega) (by omega)] at hlt
  unfold cmpN at hlt
  split at hlt
  · assumption
  · split at hlt <;> simp at hlt

/-- LowerBound on the revision index = the objects with revision ≥ r, in index order -/
theorem TInv.qLowerBound_rev {t : TableS} (inv : TInv t) (r : Nat) (hr : r < 2 ^ 64) :
    qLowerBound t .rev (revKey r) 0 = (t.revIdx.map (·.2)).filter (fun o => decide (r ≤ o.rev)) := by
  simp only [qLowerBound, lowerBound]
  rw [List.filter_map]
  congr 1
  apply List.filter_congr
  intro a ha
  have ⟨p1, h1⟩ := (inv.revIdxChar a.1 a.2).mp ((inv.mem_revIdx _ _).mp ha)
  have b1 := inv.revLe _ _ p1
  have bb := inv.bound
  simp only [Function.comp]
  rw [h1, revKey_cmp _ _ (by omega) hr]
  unfold cmpN
  by_cases c1 : a.2.rev < r
  · have : ¬ r ≤ a.2.rev := by omega
    simp [c1, this]
  · have : r ≤ a.2.rev := by omega
    by_cases c2 : r < a.2.rev <;> simp [c1, c2, this]


/-! ### table-level operation sequences -/

/-- a write operation on one table (Insert / Modify / CompareAndSwap are `modify`,
    Delete / CompareAndDelete are `delete`; DeleteAll is a sequence of `delete`s, see `deleteAll_as_ops`) -/
inductive Op where
  | modify (guard : Nat) (o : Obj) (merge : Bool)
  | delete (guard : Nat) (id : Key)
  deriving Inhabited

def Op.apply (t : TableS) : Op → TableS × Option Obj × Err
  | .modify g o m => Tbl.modify t g o m
  | .delete g id => Tbl.delete t g id

/-- the revision the operation assigned, read back from the resulting table: for a
    successful `modify` the revision of the object now stored under the id; for a `delete`
    that removed an object the new table revision (= revision of the graveyard copy) -/
def Op.assigned (t : TableS) : Op → Option Nat
  | .modify g o m =>
    let r := Tbl.modify t g o m
    if r.2.2 = .ok then (r.1.primary.get o.id).map (·.rev) else none
  | .delete g id =>
    let r := Tbl.delete t g id
    if r.2.2 = .ok ∧ r.2.1.isSome then some r.1.rev else none

def run (t : TableS) : List Op → TableS
  | [] => t
  | op :: ops => run (op.apply t).1 ops

/-- the revisions assigned along a run, in order -/
def assignedRevs (t : TableS) : List Op → List Nat
  | [] => []
  | op :: ops => (op.assigned t).toList ++ assignedRevs (op.apply t).1 ops

theorem Op.apply_rev_mono (t : TableS) (op : Op) : t.rev ≤ (op.apply t).1.rev := by
  cases op with
  | modify g o m => exact modify_rev_mono t g o m
  | delete g id => exact (delete_rev_le t g id).1

theorem run_rev_mono (t : TableS) (ops : List Op) : t.rev ≤ (run t ops).rev := by
  induction ops generalizing t with
  | nil => exact Nat.le_refl _
  | cons op ops ih =>
    have := ih (op.apply t).1
    have := op.apply_rev_mono t
    simp only [run]; omega

/-- an operation either assigns exactly the next revision, which becomes the table revision,
    or assigns nothing and returns the table unchanged -/
theorem Op.assigned_cases (t : TableS) (op : Op) :
    (op.assigned t = some (t.rev + 1) ∧ (op.apply t).1.rev = t.rev + 1) ∨
    (op.assigned t = none ∧ (op.apply t).1 = t) := by
  cases op with
  | modify g o m =>
    simp only [Op.assigned, Op.apply]
    rcases modify_cases t g o m with ⟨_, h⟩ | ⟨_, _, _, h⟩ | ⟨_, _, oo, _, _, h⟩ | ⟨_, _, t', h, hm⟩
    · rw [h]; simp
    · rw [h]; simp
    · rw [h]; simp
    · rw [h]; left
      simp only [if_true]
      rw [hm.primary, get_insert_self]
      simp [hm.rev]
  | delete g id =>
    simp only [Op.assigned, Op.apply]
    rcases delete_cases t g id with ⟨_, h⟩ | ⟨_, _, h⟩ | ⟨_, _, oo, _, _, h⟩ | ⟨_, old, hs, _, t', h, hd⟩
    · rw [h]; simp
    · rw [h]; simp
    · rw [h]; simp
    · rw [h]; left; simp [hd.rev]

theorem Op.apply_preserves {t : TableS} (inv : TInv t) (op : Op) (hb : (op.apply t).1.rev < 2 ^ 64) :
    TInv (op.apply t).1 := by
  cases op with
  | modify g o m => exact inv.modify_preserves g o m hb
  | delete g id => exact inv.delete_preserves g id hb

/-- **reachability**: the invariant holds after every operation sequence that keeps the
    revision counter inside `uint64` -/
theorem TInv.run {t : TableS} (inv : TInv t) (ops : List Op) (hb : (Tbl.run t ops).rev < 2 ^ 64) :
    TInv (Tbl.run t ops) := by
  induction ops generalizing t with
  | nil => exact inv
  | cons op ops ih =>
    simp only [Tbl.run] at hb ⊢
    have := run_rev_mono (op.apply t).1 ops
    exact ih (Op.apply_preserves inv op (by omega)) hb

/-- the assigned revisions of a run are strictly increasing, all above the starting
    revision and at most the final one -/
theorem assignedRevs_spec (t : TableS) (ops : List Op) :
    (assignedRevs t ops).Pairwise (· < ·) ∧ ∀ r ∈ assignedRevs t ops, t.rev < r ∧ r ≤ (run t ops).rev := by
  induction ops generalizing t with
  | nil => simp [assignedRevs]
  | cons op ops ih =>
    have ⟨ih1, ih2⟩ := ih (op.apply t).1
    have hmono := run_rev_mono (op.apply t).1 ops
    simp only [assignedRevs, run]
    rcases op.assigned_cases t with ⟨ha, hr⟩ | ⟨ha, hr⟩
    · rw [ha]
      simp only [Option.toList_some, List.singleton_append, List.pairwise_cons, List.mem_cons]
      refine ⟨⟨?_, ih1⟩, ?_⟩
      · intro r hr'; have := (ih2 r hr').1; omega
      · rintro r (rfl | hr')
        · omega
        · have := ih2 r hr'; omega
    · rw [ha]
      simp only [Option.toList_none, List.nil_append]
      rw [hr] at ih1 ih2
      rw [hr]
      exact ⟨ih1, ih2⟩

/-- the table revision after a run is the last assigned revision (or the starting one if nothing was written) -/
theorem run_rev_eq_last (t : TableS) (ops : List Op) :
    match (assignedRevs t ops).getLast? with
    | some r => (run t ops).rev = r
    | none => (run t ops).rev = t.rev := by
  induction ops generalizing t with
  | nil => simp [assignedRevs, run]
  | cons op ops ih =>
    have ih' := ih (op.apply t).1
    simp only [assignedRevs, run]
    rcases op.assigned_cases t with ⟨ha, hr⟩ | ⟨ha, hr⟩
    · rw [ha]
      simp only [Option.toList_some, List.singleton_append]
      cases hl : assignedRevs (op.apply t).1 ops with
      | nil =>
        rw [hl] at ih'
        simp only [List.getLast?_nil] at ih'
        simp [ih', hr]
      | cons a l =>
        rw [hl] at ih'
        rw [List.getLast?_cons_cons]
        exact ih'
    · rw [ha, hr]
      rw [hr] at ih'
      simpa using ih'

/-- DeleteAll on a held table is the sequence of unguarded deletes of the ids present at the start -/
theorem deleteAll_as_ops (t : TableS) (hl : t.locked = true) :
    (deleteAll t).1 = run t (t.primary.map fun e => Op.delete 0 e.1) := by
  rw [deleteAll_eq, hl]
  simp only [if_true]
  generalize t.primary = l
  induction l generalizing t with
  | nil => rfl
  | cons x l ih =>
    simp only [delFold_cons, List.map_cons, run, Op.apply]
    exact ih _ (by rw [delete_locked]; exact hl)

/-! ### the database: write-transaction handle, commit, abort -/

/-- the table a write transaction handle operates on (`txn.tableEntries[pos]`); mirrors the
    differential driver (`getT`) -/
def DB.wTable (es : List TableS) (ti : Nat) : TableS := es.getD ti default

/-- `Insert/Modify/CompareAndSwap` through the handle of the database's write transaction;
    a finished transaction (`wtxn = none`, Go: `txn == nil`) reports `closed` -/
def DB.wModify (db : DB) (ti guard : Nat) (o : Obj) (merge : Bool) : DB × Option Obj × Err :=
  match db.wtxn with
  | none => (db, none, .closed)
  | some es =>
    let r := modify (DB.wTable es ti) guard o merge
    ({ db with wtxn := some (es.set ti r.1) }, r.2.1, r.2.2)

/-- `Delete/CompareAndDelete` through the handle -/
def DB.wDelete (db : DB) (ti guard : Nat) (id : Key) : DB × Option Obj × Err :=
  match db.wtxn with
  | none => (db, none, .closed)
  | some es =>
    let r := delete (DB.wTable es ti) guard id
    ({ db with wtxn := some (es.set ti r.1) }, r.2.1, r.2.2)

/-- `DeleteAll` through the handle (Go panics on a finished transaction; here: no effect) -/
def DB.wDeleteAll (db : DB) (ti : Nat) : DB × Err :=
  match db.wtxn with
  | none => (db, .closed)
  | some es =>
    let r := deleteAll (DB.wTable es ti)
    ({ db with wtxn := some (es.set ti r.1) }, r.2)

/-- `Changes()`-style registration of a delete tracker on a held table (makes deletes keep
    graveyard copies) -/
def DB.wTrack (db : DB) (ti id : Nat) : DB :=
  match db.wtxn with
  | none => db
  | some es =>
    let t := DB.wTable es ti
    if t.locked then { db with wtxn := some (es.set ti { t with trackers := id :: t.trackers }) } else db


/-- the collector's per-table loop touches the graveyard indexes only -/
theorem gcFold_fields (ks : List Key) (t : TableS) :
    let t' := ks.foldl (fun t k =>
        match t.graveRev.get k with
        | some o => { t with graveRev := t.graveRev.erase k, grave := t.grave.erase o.id }
        | none => t) t
    t'.rev = t.rev ∧ t'.primary = t.primary ∧ t'.revIdx = t.revIdx := by
  induction ks generalizing t with
  | nil => exact ⟨rfl, rfl, rfl⟩
  | cons k ks ih =>
    simp only [List.foldl_cons]
    split
    · have := ih { t with graveRev := t.graveRev.erase k, grave := t.grave.erase ‹Obj›.id }
      exact this
    · exact ih t

theorem gcApply_root (db : DB) (dead : List (Nat × List Key)) :
    (gcApply db dead).wtxn = db.wtxn ∧ (gcApply db dead).root.length = db.root.length ∧
    ∀ (i : Nat) (r : TableS), db.root[i]? = some r →
      ∃ r', (gcApply db dead).root[i]? = some r' ∧ r'.rev = r.rev ∧ r'.primary = r.primary ∧ r'.revIdx = r.revIdx := by
  refine ⟨rfl, by simp [gcApply], ?_⟩
  intro i r hr
  simp only [gcApply, List.getElem?_mapIdx, hr, Option.map_some]
  refine ⟨_, rfl, ?_⟩
  split
  · exact ⟨rfl, rfl, rfl⟩
  · exact gcFold_fields _ r

inductive DbOp where
  | beginW (lockM lockA : Bool)
  | modify (ti guard : Nat) (o : Obj) (merge : Bool)
  | delete (ti guard : Nat) (id : Key)
  | deleteAll (ti : Nat)
  | track (ti id : Nat)
  | commit
  | abort
  | gc

def DB.step (db : DB) : DbOp → DB
  | .beginW lm la => if db.wtxn.isSome then db else db.beginW lm la
  | .modify ti g o m => (db.wModify ti g o m).1
  | .delete ti g id => (db.wDelete ti g id).1
  | .deleteAll ti => (db.wDeleteAll ti).1
  | .track ti id => db.wTrack ti id
  | .commit => db.commit
  | .abort => db.abort
  | .gc => if db.wtxn.isSome then db else gcApply db (gcScan db)

/-- all revision counters fit `uint64` -/
def DB.Bounded (db : DB) : Prop :=
  (∀ t ∈ db.root, t.rev < 2 ^ 64) ∧ ∀ es, db.wtxn = some es → ∀ t ∈ es, t.rev < 2 ^ 64

/-- executable form of `DB.Bounded` -/
def DB.boundedB (db : DB) : Bool :=
  db.root.all (fun t => decide (t.rev < 2 ^ 64)) &&
  match db.wtxn with
  | some es => es.all (fun t => decide (t.rev < 2 ^ 64))
  | none => true

theorem DB.bounded_of_boundedB (db : DB) (h : db.boundedB = true) : db.Bounded := by
  unfold DB.boundedB at h
  simp only [Bool.and_eq_true, List.all_eq_true, decide_eq_true_eq] at h
  refine ⟨h.1, ?_⟩
  intro es hes t ht
  have h2 := h.2
  rw [hes] at h2
  simp only [List.all_eq_true, decide_eq_true_eq] at h2
  exact h2 t ht

/-- database invariant: every committed table and every table of the open write transaction
    satisfies `TInv`; the transaction's tables are positionally the root's tables, at a revision
    not below the committed one, and an unheld table is at exactly the committed revision -/
structure DInv (db : DB) : Prop where
  root : ∀ t ∈ db.root, TInv t
  txn : ∀ es, db.wtxn = some es → es.length = db.root.length ∧
    ∀ (i : Nat) (e r : TableS), es[i]? = some e → db.root[i]? = some r →
      TInv e ∧ r.rev ≤ e.rev ∧ (e.locked = false → e.rev = r.rev ∧ e.primary = r.primary ∧ e.revIdx = r.revIdx)

theorem DInv.newDB : DInv newDB := by
  constructor
  · intro t ht
    simp only [Tbl.newDB, List.mem_cons, List.not_mem_nil, or_false] at ht
    rcases ht with rfl | rfl <;> exact TInv.empty _ rfl rfl (by decide)
  · intro es h; simp [Tbl.newDB] at h

theorem mem_of_getElem?' {α : Type} {l : List α} {i : Nat} {a : α} (h : l[i]? = some a) : a ∈ l :=
  List.mem_of_getElem? h

/-- generic update of one table of the open transaction -/
theorem DInv.setW {db : DB} (inv : DInv db) (es : List TableS) (hes : db.wtxn = some es) (ti : Nat) (t' : TableS)
    (h : ∀ e r, es[ti]? = some e → db.root[ti]? = some r → TInv e → r.rev ≤ e.rev →
      (e.locked = false → e.rev = r.rev ∧ e.primary = r.primary ∧ e.revIdx = r.revIdx) →
      TInv t' ∧ r.rev ≤ t'.rev ∧ (t'.locked = false → t'.rev = r.rev ∧ t'.primary = r.primary ∧ t'.revIdx = r.revIdx)) :
    DInv { db with wtxn := some (es.set ti t') } := by
  have ⟨hlen, hall⟩ := inv.txn es hes
  constructor
  · exact inv.root
  · intro es' hes'
    simp only [Option.some.injEq] at hes'
    subst hes'
    refine ⟨by simp [hlen], ?_⟩
    intro i e r he hr
    rw [List.getElem?_set] at he
    split at he
    · rename_i hi
      subst hi
      split at he
      · rename_i hlt
        simp only [Option.some.injEq] at he; subst he
        have ⟨a, b, c⟩ := hall ti es[ti] r (List.getElem?_eq_getElem hlt) hr
        exact h es[ti] r (List.getElem?_eq_getElem hlt) hr a b c
      · simp at he
    · exact hall i e r he hr

theorem DB.wTable_of_getElem? {es : List TableS} {ti : Nat} {e : TableS} (h : es[ti]? = some e) :
    DB.wTable es ti = e := by
  simp [DB.wTable, List.getD, h]

theorem mem_set_self {es : List TableS} {ti : Nat} {e t' : TableS} (h : es[ti]? = some e) : t' ∈ es.set ti t' := by
  have hlt : ti < es.length := by
    rcases Nat.lt_or_ge ti es.length with h' | h'
    · exact h'
    · rw [List.getElem?_eq_none h'] at h; simp at h
  apply List.mem_of_getElem? (i := ti)
  rw [List.getElem?_set]; simp [hlt]

theorem deleteAll_rev_mono (t : TableS) : t.rev ≤ (deleteAll t).1.rev := by
  rw [deleteAll_eq]
  split
  · exact delFold_rev_mono _ _
  · exact Nat.le_refl _

theorem deleteAll_locked (t : TableS) : (deleteAll t).1.locked = t.locked := by
  rw [deleteAll_eq]
  split
  · exact delFold_locked _ _
  · rfl

theorem modify_unlocked_eq (t : TableS) (g : Nat) (o : Obj) (m : Bool) (h : t.locked = false) :
    (modify t g o m).1 = t := by rw [modify_notLocked t g o m h]

theorem delete_unlocked_eq (t : TableS) (g : Nat) (id : Key) (h : t.locked = false) :
    (delete t g id).1 = t := by rw [delete_notLocked t g id h]

theorem deleteAll_unlocked_eq (t : TableS) (h : t.locked = false) : (deleteAll t).1 = t := by
  rw [deleteAll_notLocked t h]

/-- **every database operation preserves the invariant** (while the counters fit `uint64`) -/
theorem DInv.step {db : DB} (inv : DInv db) (op : DbOp) (hb : (db.step op).Bounded) : DInv (db.step op) := by
  cases op with
  | beginW lm la =>
    simp only [DB.step] at hb ⊢
    split
    · exact inv
    · constructor
      · exact inv.root
      · intro es hes
        simp only [DB.beginW, Option.some.injEq] at hes
        subst hes
        have hroot : (db.beginW lm la).root = db.root := rfl
        rw [hroot]
        refine ⟨by simp, ?_⟩
        intro i e r he hr
        rw [List.getElem?_mapIdx, hr] at he
        simp only [Option.map_some, Option.some.injEq] at he
        subst he
        exact ⟨(inv.root r (List.mem_of_getElem? hr)).congr rfl rfl rfl, Nat.le_refl _, fun _ => ⟨rfl, rfl, rfl⟩⟩
  | modify ti g o m =>
    simp only [DB.step, DB.wModify] at hb ⊢
    cases hes : db.wtxn with
    | none => exact inv
    | some es =>
      simp only [hes] at hb ⊢
      apply inv.setW es hes
      intro e r he hr a b c
      rw [DB.wTable_of_getElem? he] at hb ⊢
      have hbound := hb.2 _ rfl _ (mem_set_self he)
      refine ⟨a.modify_preserves g o m hbound, ?_, ?_⟩
      · have := modify_rev_mono e g o m; omega
      · intro hl
        rw [modify_locked] at hl
        rw [modify_unlocked_eq e g o m hl]; exact c hl
  | delete ti g id =>
    simp only [DB.step, DB.wDelete] at hb ⊢
    cases hes : db.wtxn with
    | none => exact inv
    | some es =>
      simp only [hes] at hb ⊢
      apply inv.setW es hes
      intro e r he hr a b c
      rw [DB.wTable_of_getElem? he] at hb ⊢
      have hbound := hb.2 _ rfl _ (mem_set_self he)
      refine ⟨a.delete_preserves g id hbound, ?_, ?_⟩
      · have := (delete_rev_le e g id).1; omega
      · intro hl
        rw [delete_locked] at hl
        rw [delete_unlocked_eq e g id hl]; exact c hl
  | deleteAll ti =>
    simp only [DB.step, DB.wDeleteAll] at hb ⊢
    cases hes : db.wtxn with
    | none => exact inv
    | some es =>
      simp only [hes] at hb ⊢
      apply inv.setW es hes
      intro e r he hr a b c
      rw [DB.wTable_of_getElem? he] at hb ⊢
      have hbound := hb.2 _ rfl _ (mem_set_self he)
      refine ⟨a.deleteAll_preserves hbound, ?_, ?_⟩
      · have := deleteAll_rev_mono e; omega
      · intro hl
        rw [deleteAll_locked] at hl
        rw [deleteAll_unlocked_eq e hl]; exact c hl
  | track ti id =>
    simp only [DB.step, DB.wTrack] at hb ⊢
    cases hes : db.wtxn with
    | none => exact inv
    | some es =>
      simp only
      split
      · rename_i hlk
        apply inv.setW es hes
        intro e r he hr a b c
        rw [DB.wTable_of_getElem? he] at hlk ⊢
        exact ⟨a.congr rfl rfl rfl, b, fun hl => by simp [hlk] at hl⟩
      · exact inv
  | commit =>
    simp only [DB.step, DB.commit] at hb ⊢
    cases hes : db.wtxn with
    | none => exact inv
    | some es =>
      simp only
      have ⟨hlen, hall⟩ := inv.txn es hes
      constructor
      · intro t ht
        simp only [List.mem_map] at ht
        obtain ⟨⟨e, cur⟩, hz, rfl⟩ := ht
        obtain ⟨i, hi⟩ := List.mem_iff_getElem?.mp hz
        rw [List.getElem?_zip_eq_some] at hi
        have ⟨a, _, _⟩ := hall i e cur hi.1 hi.2
        simp only
        split
        · exact a.congr rfl rfl rfl
        · exact inv.root cur (List.mem_of_getElem? hi.2)
      · intro es' h; simp at h
  | abort =>
    simp only [DB.step, DB.abort]
    exact ⟨inv.root, fun es h => by simp at h⟩
  | gc =>
    simp only [DB.step] at hb ⊢
    split
    · exact inv
    · rename_i hw
      have ⟨h1, h2, h3⟩ := gcApply_root db (gcScan db)
      constructor
      · intro t ht
        obtain ⟨i, hi⟩ := List.mem_iff_getElem?.mp ht
        have hlt : i < db.root.length := by
          rw [← h2]
          rcases Nat.lt_or_ge i (gcApply db (gcScan db)).root.length with h' | h'
          · exact h'
          · rw [List.getElem?_eq_none h'] at hi; simp at hi
        obtain ⟨r', hr', a, b, c⟩ := h3 i db.root[i] (List.getElem?_eq_getElem hlt)
        rw [hr'] at hi; simp only [Option.some.injEq] at hi; subst hi
        exact (inv.root _ (List.getElem_mem hlt)).congr a b c
      · intro es hes
        rw [h1] at hes
        rw [hes] at hw; simp at hw

/-- states reachable from the fresh database by the operations above, the revision counters
    staying inside `uint64` -/
inductive Reach : DB → Prop where
  | init : Reach newDB
  | step {db : DB} (op : DbOp) : Reach db → (db.step op).Bounded → Reach (db.step op)

/-- **the invariant holds in every reachable state** -/
theorem Reach.inv {db : DB} (h : Reach db) : DInv db := by
  induction h with
  | init => exact DInv.newDB
  | step op _ hb ih => exact ih.step op hb

/-- what Commit publishes for table `i`: the transaction's version if it was held, the
    previous committed one otherwise -/
theorem commit_root (db : DB) (es : List TableS) (hes : db.wtxn = some es) (i : Nat) (e cur : TableS)
    (he : es[i]? = some e) (hc : db.root[i]? = some cur) :
    ∃ r', db.commit.root[i]? = some r' ∧
      (e.locked = true → r'.rev = e.rev ∧ r'.primary = e.primary ∧ r'.revIdx = e.revIdx ∧ r'.locked = false) ∧
      (e.locked = false → r' = cur) := by
  simp only [DB.commit, hes]
  have hz : (es.zip db.root)[i]? = some (e, cur) := List.getElem?_zip_eq_some.mpr ⟨he, hc⟩
  rw [List.getElem?_map, hz]
  simp only [Option.map_some]
  refine ⟨_, rfl, ?_, ?_⟩
  · intro hl; simp [hl]
  · intro hl; simp [hl]

theorem commit_root_length (db : DB) (inv : DInv db) : db.commit.root.length = db.root.length := by
  simp only [DB.commit]
  cases hes : db.wtxn with
  | none => rfl
  | some es =>
    have := (inv.txn es hes).1
    simp [this]

/-- the committed revision of a table never decreases in a step, and the number of tables is fixed -/
theorem step_root_rev_mono {db : DB} (inv : DInv db) (op : DbOp) :
    (db.step op).root.length = db.root.length ∧
    ∀ (i : Nat) (r r' : TableS), db.root[i]? = some r → (db.step op).root[i]? = some r' → r.rev ≤ r'.rev := by
  have same : ∀ db' : DB, db'.root = db.root → db'.root.length = db.root.length ∧
      ∀ (i : Nat) (r r' : TableS), db.root[i]? = some r → db'.root[i]? = some r' → r.rev ≤ r'.rev := by
    intro db' h
    rw [h]
    refine ⟨rfl, ?_⟩
    intro i r r' h1 h2
    rw [h1] at h2; simp only [Option.some.injEq] at h2; subst h2; exact Nat.le_refl _
  cases op with
  | beginW lm la =>
    apply same; simp only [DB.step]; split <;> rfl
  | modify ti g o m =>
    apply same; simp only [DB.step, DB.wModify]; split <;> rfl
  | delete ti g id =>
    apply same; simp only [DB.step, DB.wDelete]; split <;> rfl
  | deleteAll ti =>
    apply same; simp only [DB.step, DB.wDeleteAll]; split <;> rfl
  | track ti id =>
    apply same; simp only [DB.step, DB.wTrack]; split
    · rfl
    · split <;> rfl
  | abort => apply same; rfl
  | gc =>
    simp only [DB.step]
    split
    · exact same db rfl
    · have ⟨_, h2, h3⟩ := gcApply_root db (gcScan db)
      refine ⟨h2, ?_⟩
      intro i r r' hr hr'
      obtain ⟨r'', hr'', a, _, _⟩ := h3 i r hr
      rw [hr''] at hr'; simp only [Option.some.injEq] at hr'; subst hr'
      omega
  | commit =>
    simp only [DB.step]
    refine ⟨commit_root_length db inv, ?_⟩
    intro i r r' h1 h2
    cases hes : db.wtxn with
    | none =>
      have : db.commit = db := by simp [DB.commit, hes]
      rw [this, h1] at h2; simp only [Option.some.injEq] at h2; subst h2; exact Nat.le_refl _
    | some es =>
      have ⟨hlen, hall⟩ := inv.txn es hes
      have hi : i < es.length := by
        rw [hlen]
        rcases Nat.lt_or_ge i db.root.length with h' | h'
        · exact h'
        · rw [List.getElem?_eq_none h'] at h1; simp at h1
      have he : es[i]? = some es[i] := List.getElem?_eq_getElem hi
      obtain ⟨r'', hr'', hl1, hl2⟩ := commit_root db es hes i es[i] r he h1
      rw [hr''] at h2; simp only [Option.some.injEq] at h2; subst h2
      have ⟨_, hle, _⟩ := hall i es[i] r he h1
      cases hlk : es[i].locked with
      | true => rw [(hl1 hlk).1]; exact hle
      | false => rw [hl2 hlk]; exact Nat.le_refl _

end Sdb.Tbl
