import SdbModel.Lemmas.ConcInitStep

/-!
  ConcInitStore — the two `storeRoot` steps (Commit, registerTable) preserve the
  invariant `CI`.  Here the mutual exclusion provided by the simulation
  (`holds_of_between`, `rootMu_of_between`) is used: the storing thread owns the
  root mutex and the mutexes of all its tables, so no other thread relies on the
  versions it replaces.  Core Lean only.
-/
namespace Sdb.Conc

theorem stable_sub (L : List Nat) (p : Pos2) (x : Nat) (h : x ∈ stable L p) : x ∈ L := by
  cases p <;> simp only [stable, List.not_mem_nil] at h <;> first | exact h | exact List.mem_of_mem_drop h

/-- the frame condition for the other threads when thread `tid`, owning the root
    mutex and the mutexes of its tables, replaces the root -/
theorem store_frame (st : State) (cs : List Bool) (tid : Nat) (th : Thread) (root' : List TableV) (nc' : Nat)
    (hsim : Sim (install st tid th) cs) (htid : tid < st.threads.length)
    (hmu : Micro.releaseRoot ∈ th.prog ∧ Micro.acquireRoot ∉ th.prog)
    (hheld : ∀ x ∈ lockList th, Micro.release x ∈ th.prog ∧ Micro.acquire x ∉ th.prog)
    (hroot : ∀ x, x < st.root.length → x ∉ lockList th → getT root' x = getT st.root x)
    (j : Nat) (thj : Thread) (cj : Bool) (p : Pos2) (hj : j ≠ tid) (hthj : st.threads[j]? = some thj)
    (hbj : ∀ x ∈ lockList thj, x < st.root.length)
    (hpj : strip2 thj.prog = code2 (lockList thj) cj p) (hlj : Loc st.root st.nextChan thj cj p) :
    Loc root' nc' thj cj p := by
  have hown : (install st tid th).threads[tid]? = some th := by rw [install_get _ _ _ _ htid]; simp
  have hother : (install st tid th).threads[j]? = some thj := by rw [install_get _ _ _ _ htid, if_neg hj]; exact hthj
  apply Loc_frame st.root root' st.nextChan nc' thj cj p hlj
  · intro x hx
    have hxl := stable_sub _ _ _ hx
    apply hroot x (hbj x hxl)
    intro hxt
    obtain ⟨b1, b2⟩ := stable_between (lockList thj) cj p x hx
    rw [← hpj, mem_strip2 _ _ (by rfl)] at b1 b2
    have o1 := holds_of_between _ cs hsim j thj hother x b1 b2
    have o2 := holds_of_between _ cs hsim tid th hown x (hheld x hxt).1 (hheld x hxt).2
    rw [o1] at o2
    simp only [Option.some.injEq] at o2
    exact hj o2
  · intro hn
    exfalso
    obtain ⟨b1, b2⟩ := needsMu_between (lockList thj) cj p hn
    rw [← hpj, mem_strip2 _ _ (by rfl)] at b1 b2
    have o1 := rootMu_of_between _ cs hsim j thj hother b1 b2
    have o2 := rootMu_of_between _ cs hsim tid th hown hmu.1 hmu.2
    rw [o1] at o2
    simp only [Option.some.injEq] at o2
    exact hj o2

theorem lockList_nil' (th : Thread) (h : th.tables = []) : lockList th = [] := by
  simp [lockList, h, dedup, sortNat]

/-! ### registerTable stores the root with the new table -/

theorem CI_storeReg (st : State) (cs : List Bool) (tid : Nat) (th : Thread) (c : Bool) (rest : List Micro)
    (hCI : CI (install st tid th) cs (some tid)) (hsim : Sim (install st tid th) cs)
    (htid : tid < st.threads.length) (hc : cs[tid]? = some c)
    (hprog : th.prog = .act .storeRoot :: rest) (hp : strip2 th.prog = code2 (lockList th) c .gS)
    (hadj : adjOK th.prog = true)
    (hl : Loc st.root st.nextChan th c .gS)
    (hstrip : strip2 rest = code2 (lockList th) c .gR) :
    CI (install { st with root := th.newRoot, nextChan := st.nextChan + 1 } tid { th with prog := rest })
      cs (some tid) := by
  obtain ⟨hcf, htb, hnew, _⟩ := hl
  have hL : lockList th = [] := lockList_nil' th htb
  obtain ⟨_, r2, r3, r4⟩ := tracked_of_pos { th with prog := rest } _ c _ hstrip
  have hsr : Micro.act .storeRoot ∈ th.prog := by rw [hprog]; simp
  have hnt' : Micro.act .notify ∉ rest := fun h => by have := r3.1 h; simp [ntIn] at this
  have hcl' : Micro.act .closeInit ∉ rest := fun h => by have := r4.1 h; simp [clIn] at this
  have p' : ∀ w, ¬ priv { th with prog := rest } c w := by
    intro w hw
    rcases hw with ⟨_, x, hx, _⟩ | ⟨_, _, h3, _⟩ | ⟨_, _, h3, _⟩
    · rw [show lockList { th with prog := rest } = lockList th from rfl, hL] at hx; simp at hx
    · exact absurd h3 hnt'
    · exact absurd h3 hcl'
  have hncpos : 1 ≤ st.nextChan := hCI.nc
  have cRI : ∀ x y, x < st.root.length → y < st.root.length → x ≠ y →
    ∀ w, chansOf (getT st.root x) w → chansOf (getT st.root y) w → False := hCI.RI
  have cRW : ∀ x, x < st.root.length → (getT st.root x).initWatch ≠ 0 →
    (getT st.root x).watch ≠ (getT st.root x).initWatch := hCI.RW
  have cIP : ∀ x, x < st.root.length → ((getT st.root x).initPending = true ↔ (getT st.root x).initWatch ≠ 0) := hCI.IP
  have cRV : ∀ x, x < st.root.length → (getT st.root x).rev = (getT st.root x).cnt := hCI.RV
  have cbR : ∀ w, rootChan st.root w → w < st.nextChan := hCI.bR
  have cbC : ∀ w, w ∈ st.closed → w < st.nextChan := hCI.bC
  have cRC : ∀ w, rootChan st.root w → w ∉ st.closed := hCI.RC
  -- channels of the new root
  have hget : ∀ x, x < st.root.length → getT th.newRoot x = getT st.root x := by
    intro x hx; rw [hnew]; exact getT_append_left _ _ _ hx
  have hlast : getT th.newRoot st.root.length = { watch := st.nextChan } := by
    rw [hnew]; exact getT_append_length _ _
  have hlen : th.newRoot.length = st.root.length + 1 := by rw [hnew]; simp
  have hchan : ∀ w, rootChan th.newRoot w → rootChan st.root w ∨ w = st.nextChan := by
    intro w ⟨x, hx, hw⟩
    rw [hlen] at hx
    by_cases hxl : x < st.root.length
    · left; exact ⟨x, hxl, by rw [← hget x hxl]; exact hw⟩
    · have : x = st.root.length := by omega
      subst this
      rw [hlast] at hw
      rcases hw with h | ⟨h1, h2⟩
      · right; exact h
      · exact absurd h1 h2
  have hmuB := needsMu_between (lockList th) c .gS rfl
  rw [← hp, mem_strip2 _ _ (by rfl), mem_strip2 _ _ (by rfl)] at hmuB
  refine CI_update st _ cs tid th _ c hCI htid hc rfl (Nat.le_succ _) (by show _ ≤ th.newRoot.length; omega)
    ?_ ?_ ?_ ?_ ?_ ?_ ?_ ?_ ?_ ?_ ?_ ?_ ?_ ?_ ?_
  · intro w hw
    rcases hchan w hw with h | h
    · exact Or.inl h
    · exact Or.inr (Or.inr ⟨by show st.nextChan ≤ w; omega, by show w < st.nextChan + 1; omega⟩)
  · intro w hw; exact Or.inl hw
  · intro w hw; exact absurd hw (p' w)
  · intro w hw hm
    rcases hchan w hw with h | h
    · exact cRC w h hm
    · have := cbC w hm; omega
  · intro w hw; exact absurd hw (p' w)
  · intro w hw; exact absurd hw (p' w)
  · intro x y hx hy hxy w cx cy
    dsimp only at hx hy cx cy
    have hx' : x < st.root.length + 1 := by rw [← hlen]; exact hx
    have hy' : y < st.root.length + 1 := by rw [← hlen]; exact hy
    have newChan : ∀ z, z < st.root.length → chansOf (getT st.root z) w → w < st.nextChan :=
      fun z hz hcz => cbR w ⟨z, hz, hcz⟩
    have lastChan : chansOf (getT th.newRoot st.root.length) w → w = st.nextChan := by
      intro h; rw [hlast] at h
      rcases h with h | ⟨h1, h2⟩
      · exact h
      · exact absurd h1 h2
    by_cases hxl : x < st.root.length
    · by_cases hyl : y < st.root.length
      · exact cRI x y hxl hyl hxy w (by rw [← hget x hxl]; exact cx) (by rw [← hget y hyl]; exact cy)
      · have : y = st.root.length := by omega
        subst this
        have := newChan x hxl (by rw [← hget x hxl]; exact cx)
        have := lastChan cy
        omega
    · have : x = st.root.length := by omega
      subst this
      have hyl : y < st.root.length := by omega
      have := newChan y hyl (by rw [← hget y hyl]; exact cy)
      have := lastChan cx
      omega
  · intro x hx hne
    dsimp only at hx hne ⊢
    have hx' : x < st.root.length + 1 := by rw [← hlen]; exact hx
    by_cases hxl : x < st.root.length
    · rw [hget x hxl] at hne ⊢
      exact cRW x hxl hne
    · have : x = st.root.length := by omega
      subst this
      exfalso; apply hne
      rw [hlast]
  · intro x hx
    have hx' : x < st.root.length + 1 := by rw [← hlen]; exact hx
    show (getT th.newRoot x).initPending = true ↔ (getT th.newRoot x).initWatch ≠ 0
    by_cases hxl : x < st.root.length
    · rw [hget x hxl]; exact cIP x hxl
    · have : x = st.root.length := by omega
      subst this
      rw [hlast]; simp
  · intro x hx
    have hx' : x < st.root.length + 1 := by rw [← hlen]; exact hx
    show (getT th.newRoot x).rev = (getT th.newRoot x).cnt
    by_cases hxl : x < st.root.length
    · rw [hget x hxl]; exact cRV x hxl
    · have : x = st.root.length := by omega
      subst this
      rw [hlast]
  · intro _ x hx
    rw [show lockList { th with prog := rest } = lockList th from rfl, hL] at hx; simp at hx
  · intro w hw hn; exact absurd hw hn
  · intro _ hs; exact absurd hsr hs
  · refine ⟨?_, ?_, .gR, hstrip, hcf, htb⟩
    · intro x hx
      rw [show lockList { th with prog := rest } = lockList th from rfl, hL] at hx; simp at hx
    · rw [hprog] at hadj; exact adjOK_tail _ _ hadj
  · intro j thj cj p hj hthj hcj hpj hlj
    have hold : (install st tid th).threads[j]? = some thj := by rw [install_get _ _ _ _ htid, if_neg hj]; exact hthj
    obtain ⟨cj', hcj', hbj, _⟩ := hCI.TH j thj hold
    exact store_frame st cs tid th _ _ hsim htid hmuB (by rw [hL]; intro x hx; simp at hx)
      (fun x hx _ => hget x hx) j thj cj p hj hthj hbj hpj hlj

/-! ### Commit stores the root -/

/-- what is known when a committing writer is about to store its root -/
structure StoreCtx (root : List TableV) (th : Thread) : Prop where
  seen : Seen root th
  wr : Wr th
  cur : th.curRoot = root
  ci : Ci th
  tc : th.initToClose = toClose th.entries (dedup th.tables)
  bound : ∀ x ∈ lockList th, x < root.length
  RI : ∀ x y, x < root.length → y < root.length → x ≠ y →
    ∀ w, chansOf (getT root x) w → chansOf (getT root y) w → False
  RW : ∀ x, x < root.length → (getT root x).initWatch ≠ 0 → (getT root x).watch ≠ (getT root x).initWatch
  PRf : ∀ w, fresh th w → ¬ rootChan root w
  FIf : ∀ x ∈ lockList th, ∀ y ∈ lockList th, x ≠ y → ∀ w, freshOf th x w → freshOf th y w → False

theorem chansOf_clr (e : TableV) (w : Nat) (h : chansOf (clr e) w) : chansOf e w := by
  unfold clr at h
  split at h
  · rcases h with h | ⟨h1, h2⟩
    · exact Or.inl h
    · exact absurd h1 h2
  · exact h

theorem mem_L_of_D (th : Thread) (x : Nat) (h : x ∈ dedup th.tables) : x ∈ lockList th :=
  (mem_lockList th x).2 ((mem_dedup x _).1 h)

theorem clr_uwEntry_IP (reg mark : Bool) (n : Nat) (e : TableV) (h : e.initPending = true ↔ e.initWatch ≠ 0) :
    (clr (uwEntry reg mark n e)).initPending = true ↔ (clr (uwEntry reg mark n e)).initWatch ≠ 0 := by
  cases reg <;> cases mark <;> cases hp : e.initPending <;> by_cases h0 : e.initWatch = 0 <;>
    simp_all [clr, uwEntry]

theorem clr_uwEntry_rev (reg mark : Bool) (n : Nat) (e : TableV) :
    (clr (uwEntry reg mark n e)).rev = e.rev + 1 ∧ (clr (uwEntry reg mark n e)).cnt = e.cnt + 1 ∧
    (clr (uwEntry reg mark n e)).watch = n := by
  unfold clr
  split <;> simp [uwEntry]

namespace StoreCtx
variable {root : List TableV} {th : Thread} (C : StoreCtx root th)
include C

theorem entry (x : Nat) (hx : x ∈ lockList th) :
    ∃ n, getT th.entries x = uwEntry (th.regInit.contains x) (th.markInit.contains x) n (getT root x) := by
  obtain ⟨n, hn⟩ := (C.wr.2.2.1 x hx).2
  exact ⟨n, by rw [← (C.seen x hx).2]; exact hn⟩

theorem old_eq (x : Nat) (hx : x ∈ lockList th) : getT th.oldRoot x = getT root x := (C.seen x hx).2

/-- a channel of the private entry of `x` is a committed channel of `x` or was
    allocated by this writer for `x` -/
theorem chans_entry (x : Nat) (hx : x ∈ lockList th) (w : Nat) (h : chansOf (getT th.entries x) w) :
    chansOf (getT root x) w ∨ freshOf th x w := by
  rcases h with h | ⟨h1, h2⟩
  · exact Or.inr (Or.inl h)
  · by_cases h0 : (getT th.oldRoot x).initWatch = 0
    · exact Or.inr (Or.inr ⟨h1, h0, h2⟩)
    · left
      obtain ⟨n, hn⟩ := C.entry x hx
      rw [C.old_eq x hx] at h0
      rw [hn] at h1
      simp only [uwEntry, h0, and_false, if_false] at h1
      exact Or.inr ⟨h1, h2⟩

theorem newRoot_len : th.newRoot.length = root.length := by rw [C.ci.1, C.cur]

theorem newRoot_in (x : Nat) (hx : x ∈ lockList th) : getT th.newRoot x = clr (getT th.entries x) :=
  (C.ci.2 x (by rw [C.cur]; exact C.bound x hx)).1 hx

theorem newRoot_out (x : Nat) (hx : x < root.length) (hxl : x ∉ lockList th) : getT th.newRoot x = getT root x := by
  rw [(C.ci.2 x (by rw [C.cur]; exact hx)).2 hxl, C.cur]

/-- channels "of table `x`" before the store: committed ones and freshly allocated ones -/
def allOf (root : List TableV) (th : Thread) (x : Nat) (w : Nat) : Prop :=
  chansOf (getT root x) w ∨ (x ∈ lockList th ∧ freshOf th x w)

theorem newRoot_chans (x : Nat) (hx : x < root.length) (w : Nat) (h : chansOf (getT th.newRoot x) w) :
    allOf root th x w := by
  by_cases hxl : x ∈ lockList th
  · rw [C.newRoot_in x hxl] at h
    rcases C.chans_entry x hxl w (chansOf_clr _ _ h) with h' | h'
    · exact Or.inl h'
    · exact Or.inr ⟨hxl, h'⟩
  · rw [C.newRoot_out x hx hxl] at h
    exact Or.inl h

theorem allOf_disj (x y : Nat) (hx : x < root.length) (hy : y < root.length) (hxy : x ≠ y) (w : Nat)
    (h1 : allOf root th x w) (h2 : allOf root th y w) : False := by
  rcases h1 with h1 | ⟨hxl, h1⟩
  · rcases h2 with h2 | ⟨hyl, h2⟩
    · exact C.RI x y hx hy hxy w h1 h2
    · exact C.PRf w ⟨y, hyl, h2⟩ ⟨x, hx, h1⟩
  · rcases h2 with h2 | ⟨hyl, h2⟩
    · exact C.PRf w ⟨x, hxl, h1⟩ ⟨y, hy, h2⟩
    · exact C.FIf x hxl y hyl hxy w h1 h2

omit C in
theorem allOf_cases (x : Nat) (hx : x < root.length) (w : Nat) (h : allOf root th x w) :
    rootChan root w ∨ fresh th w := by
  rcases h with h | ⟨hxl, h⟩
  · exact Or.inl ⟨x, hx, h⟩
  · exact Or.inr ⟨x, hxl, h⟩


theorem toNotify_mem (w : Nat) (h : w ∈ th.toNotify) : ∃ x ∈ lockList th, w = (getT root x).watch := by
  rw [C.wr.2.2.2, List.mem_map] at h
  obtain ⟨x, hx, rfl⟩ := h
  have hxl := mem_L_of_D th x hx
  exact ⟨x, hxl, by rw [C.old_eq x hxl]⟩

theorem toClose_mem (w : Nat) (h : w ∈ th.initToClose) :
    ∃ x ∈ lockList th, w = (getT th.entries x).initWatch ∧ w ≠ 0 ∧ (getT th.entries x).initPending = false := by
  rw [C.tc] at h
  unfold toClose at h
  rw [List.mem_filterMap] at h
  obtain ⟨x, hx, he⟩ := h
  split at he
  · rename_i hc
    simp only [Option.some.injEq] at he
    refine ⟨x, mem_L_of_D th x hx, he.symm, by rw [← he]; exact hc.1, ?_⟩
    simpa using hc.2
  · simp at he

/-- the watch channel a writer allocates differs from the init channel of the same entry -/
theorem entry_watch_ne_init (x : Nat) (hx : x ∈ lockList th) (hne : (getT th.entries x).initWatch ≠ 0) :
    (getT th.entries x).watch ≠ (getT th.entries x).initWatch := by
  obtain ⟨n, hn⟩ := C.entry x hx
  intro heq
  by_cases hc : (th.regInit.contains x = true ∧ (getT root x).initWatch = 0)
  · rw [hn] at heq
    simp only [uwEntry, hc, and_self, if_true] at heq
    omega
  · have hinit : (getT th.entries x).initWatch = (getT root x).initWatch := by
      rw [hn]; simp only [uwEntry, hc, if_false]
    apply C.PRf (getT th.entries x).watch ⟨x, hx, Or.inl rfl⟩
    refine ⟨x, C.bound x hx, Or.inr ⟨by rw [heq, hinit], ?_⟩⟩
    rw [heq]; exact hne

/-- an init channel in the private entry of `x` belongs to `x` -/
theorem init_allOf (x : Nat) (hx : x ∈ lockList th) (w : Nat) (h1 : w = (getT th.entries x).initWatch) (h2 : w ≠ 0) :
    allOf root th x w := by
  rcases C.chans_entry x hx w (Or.inr ⟨h1, h2⟩) with h | h
  · exact Or.inl h
  · exact Or.inr ⟨hx, h⟩

theorem chans_newRoot_inv (x : Nat) (hx : x ∈ lockList th) (w : Nat) (h : chansOf (getT th.newRoot x) w) :
    w = (getT th.entries x).watch ∨
    (w = (getT th.entries x).initWatch ∧ w ≠ 0 ∧ ¬ ((getT th.entries x).initWatch ≠ 0 ∧ (getT th.entries x).initPending = false)) := by
  rw [C.newRoot_in x hx] at h
  unfold clr at h
  split at h
  · rename_i hc
    rcases h with h | ⟨h1, h2⟩
    · exact Or.inl h
    · exact absurd h1 h2
  · rename_i hc
    rcases h with h | ⟨h1, h2⟩
    · exact Or.inl h
    · refine Or.inr ⟨h1, h2, fun hh => hc ⟨hh.1, by simp [hh.2]⟩⟩

/-- the replaced watch channels are not in the new root -/
theorem toNotify_not_new (w : Nat) (h : w ∈ th.toNotify) : ¬ rootChan th.newRoot w := by
  obtain ⟨x, hxl, hw⟩ := C.toNotify_mem w h
  have hx := C.bound x hxl
  have hax : allOf root th x w := Or.inl (Or.inl hw)
  rintro ⟨y, hy, hcy⟩
  rw [C.newRoot_len] at hy
  by_cases hxy : x = y
  · subst hxy
    rcases C.chans_newRoot_inv x hxl w hcy with h1 | ⟨h1, h2, _⟩
    · exact C.PRf w ⟨x, hxl, Or.inl h1⟩ ⟨x, hx, Or.inl hw⟩
    · -- w is the committed watch channel of x and an init channel of its entry
      rcases C.chans_entry x hxl w (Or.inr ⟨h1, h2⟩) with h' | h'
      · rcases h' with h' | ⟨h', _⟩
        · -- the entry's init channel is the committed watch: then it equals the committed init channel
          obtain ⟨n, hn⟩ := C.entry x hxl
          by_cases hc : (th.regInit.contains x = true ∧ (getT root x).initWatch = 0)
          · exact C.PRf w ⟨x, hxl, Or.inr ⟨h1, by rw [C.old_eq x hxl]; exact hc.2, h2⟩⟩ ⟨x, hx, Or.inl hw⟩
          · have hinit : (getT th.entries x).initWatch = (getT root x).initWatch := by
              rw [hn]; simp only [uwEntry, hc, if_false]
            rw [hinit] at h1
            exact C.RW x hx (by rw [← h1]; exact h2) (by rw [← hw, ← h1])
        · exact C.RW x hx (by rw [← h']; exact h2) (by rw [← hw, ← h'])
      · exact C.PRf w ⟨x, hxl, h'⟩ ⟨x, hx, Or.inl hw⟩
  · exact C.allOf_disj x y hx hy hxy w hax (C.newRoot_chans y hy w hcy)

/-- the collected init channels are not in the new root -/
theorem toClose_not_new (w : Nat) (h : w ∈ th.initToClose) : ¬ rootChan th.newRoot w := by
  obtain ⟨x, hxl, hw, hne, hpend⟩ := C.toClose_mem w h
  have hx := C.bound x hxl
  have hax := C.init_allOf x hxl w hw hne
  rintro ⟨y, hy, hcy⟩
  rw [C.newRoot_len] at hy
  by_cases hxy : x = y
  · subst hxy
    rcases C.chans_newRoot_inv x hxl w hcy with h1 | ⟨_, _, h3⟩
    · exact C.entry_watch_ne_init x hxl (by rw [← hw]; exact hne) (by rw [← h1, ← hw])
    · exact h3 ⟨by rw [← hw]; exact hne, hpend⟩
  · exact C.allOf_disj x y hx hy hxy w hax (C.newRoot_chans y hy w hcy)

/-- a replaced watch channel is not a collected init channel -/
theorem toNotify_not_toClose (w : Nat) (h : w ∈ th.toNotify) : w ∉ th.initToClose := by
  obtain ⟨x, hxl, hw⟩ := C.toNotify_mem w h
  have hx := C.bound x hxl
  intro h2
  obtain ⟨y, hyl, hw2, hne, _⟩ := C.toClose_mem w h2
  have hy := C.bound y hyl
  by_cases hxy : x = y
  · subst hxy
    rcases C.chans_entry x hxl w (Or.inr ⟨hw2, hne⟩) with h' | h'
    · rcases h' with h' | ⟨h', _⟩
      · obtain ⟨n, hn⟩ := C.entry x hxl
        by_cases hc : (th.regInit.contains x = true ∧ (getT root x).initWatch = 0)
        · exact C.PRf w ⟨x, hxl, Or.inr ⟨hw2, by rw [C.old_eq x hxl]; exact hc.2, hne⟩⟩ ⟨x, hx, Or.inl hw⟩
        · have hinit : (getT th.entries x).initWatch = (getT root x).initWatch := by
            rw [hn]; simp only [uwEntry, hc, if_false]
          rw [hinit] at hw2
          exact C.RW x hx (by rw [← hw2]; exact hne) (by rw [← hw, ← hw2])
      · exact C.RW x hx (by rw [← h']; exact hne) (by rw [← hw, ← h'])
    · exact C.PRf w ⟨x, hxl, h'⟩ ⟨x, hx, Or.inl hw⟩
  · exact C.allOf_disj x y hx hy hxy w (Or.inl (Or.inl hw)) (C.init_allOf y hyl w hw2 hne)

end StoreCtx

theorem CI_storeCommit (st : State) (cs : List Bool) (tid : Nat) (th : Thread) (c : Bool) (rest : List Micro)
    (hCI : CI (install st tid th) cs (some tid)) (hsim : Sim (install st tid th) cs)
    (htid : tid < st.threads.length) (hc : cs[tid]? = some c)
    (hprog : th.prog = .act .storeRoot :: rest) (hp : strip2 th.prog = code2 (lockList th) c .sr)
    (hb : ∀ x ∈ lockList th, x < st.root.length) (hadj : adjOK th.prog = true)
    (hl : Loc st.root st.nextChan th c .sr)
    (hstrip : strip2 rest = code2 (lockList th) c .rR) :
    CI (install { st with root := th.newRoot, nextChan := st.nextChan + 1 } tid { th with prog := rest })
      cs (some tid) := by
  obtain ⟨hct, hseen, hwr, hcur, hci, htc⟩ := hl
  subst hct
  have hown_old : (install st tid th).threads[tid]? = some th := by rw [install_get _ _ _ _ htid]; simp
  obtain ⟨t1, t2, _, _⟩ := tracked_of_pos th _ true _ hp
  obtain ⟨_, r2, r3, r4⟩ := tracked_of_pos { th with prog := rest } _ true _ hstrip
  have huw : Micro.userWrites ∉ th.prog := fun h => by have := t1.1 h; simp [uwIn] at this
  have hsr : Micro.act .storeRoot ∈ th.prog := by rw [hprog]; simp
  have hsr' : Micro.act .storeRoot ∉ rest := fun h => by have := r2.1 h; simp [srIn] at this
  have hnt' : Micro.act .notify ∈ rest := r3.2 rfl
  have hcl' : Micro.act .closeInit ∈ rest := r4.2 rfl
  have hfp : freshPhase th true := ⟨huw, Or.inr hsr⟩
  have pf : ∀ w, fresh th w → priv th true w := fun w hw => Or.inl ⟨hfp, hw⟩
  have cRI : ∀ x y, x < st.root.length → y < st.root.length → x ≠ y →
    ∀ w, chansOf (getT st.root x) w → chansOf (getT st.root y) w → False := hCI.RI
  have cRW : ∀ x, x < st.root.length → (getT st.root x).initWatch ≠ 0 →
    (getT st.root x).watch ≠ (getT st.root x).initWatch := hCI.RW
  have cIP : ∀ x, x < st.root.length → ((getT st.root x).initPending = true ↔ (getT st.root x).initWatch ≠ 0) := hCI.IP
  have cRV : ∀ x, x < st.root.length → (getT st.root x).rev = (getT st.root x).cnt := hCI.RV
  have cRC : ∀ w, rootChan st.root w → w ∉ st.closed := hCI.RC
  have cPR : ∀ w, priv th true w → ¬ rootChan st.root w := fun w hw => hCI.PR tid th true w hown_old hc hw
  have cPC : ∀ w, priv th true w → w ∉ st.closed := fun w hw => hCI.PC tid th true w hown_old hc hw
  have C : StoreCtx st.root th :=
    ⟨hseen, hwr, hcur, hci, htc, hb, cRI, cRW, fun w hw => cPR w (pf w hw),
      fun x hx y hy hxy w fx fy => hCI.FIc tid th true hown_old hc hfp x hx y hy hxy w fx fy⟩
  have hlen : th.newRoot.length = st.root.length := C.newRoot_len
  -- the private channels after the store
  have p' : ∀ w, priv { th with prog := rest } true w → w ∈ th.toNotify ∨ w ∈ th.initToClose := by
    intro w hw
    rcases hw with ⟨⟨_, h2⟩, _⟩ | ⟨_, _, _, h4⟩ | ⟨_, _, _, h4⟩
    · rcases h2 with h2 | h2
      · simp at h2
      · exact absurd h2 hsr'
    · exact Or.inl h4
    · exact Or.inr h4
  -- old role of the channels
  have newChan : ∀ w, rootChan th.newRoot w → rootChan st.root w ∨ priv th true w := by
    intro w ⟨x, hx, hw⟩
    rw [hlen] at hx
    rcases StoreCtx.allOf_cases x hx w (C.newRoot_chans x hx w hw) with h | h
    · exact Or.inl h
    · exact Or.inr (pf w h)
  have privOld : ∀ w, w ∈ th.toNotify ∨ w ∈ th.initToClose → rootChan st.root w ∨ priv th true w := by
    intro w hw
    rcases hw with hw | hw
    · obtain ⟨x, hxl, hx⟩ := C.toNotify_mem w hw
      exact Or.inl ⟨x, hb x hxl, Or.inl hx⟩
    · obtain ⟨x, hxl, h1, h2, _⟩ := C.toClose_mem w hw
      rcases StoreCtx.allOf_cases x (hb x hxl) w (C.init_allOf x hxl w h1 h2) with h | h
      · exact Or.inl h
      · exact Or.inr (pf w h)
  have hheld : ∀ x ∈ lockList th, Micro.release x ∈ th.prog ∧ Micro.acquire x ∉ th.prog := by
    intro x hx
    have := stable_between (lockList th) true .sr x hx
    rw [← hp, mem_strip2 _ _ (by rfl), mem_strip2 _ _ (by rfl)] at this
    exact this
  have hmuB := needsMu_between (lockList th) true .sr rfl
  rw [← hp, mem_strip2 _ _ (by rfl), mem_strip2 _ _ (by rfl)] at hmuB
  refine CI_update st _ cs tid th _ true hCI htid hc rfl (Nat.le_succ _) (by show _ ≤ th.newRoot.length; omega)
    ?_ ?_ ?_ ?_ ?_ ?_ ?_ ?_ ?_ ?_ ?_ ?_ ?_ ?_ ?_
  · intro w hw
    rcases newChan w hw with h | h
    · exact Or.inl h
    · exact Or.inr (Or.inl h)
  · intro w hw; exact Or.inl hw
  · intro w hw
    rcases privOld w (p' w hw) with h | h
    · exact Or.inl h
    · exact Or.inr (Or.inl h)
  · intro w hw
    rcases newChan w hw with h | h
    · exact cRC w h
    · exact cPC w h
  · intro w hw
    rcases privOld w (p' w hw) with h | h
    · exact cRC w h
    · exact cPC w h
  · intro w hw
    rcases p' w hw with h | h
    · exact C.toNotify_not_new w h
    · exact C.toClose_not_new w h
  · intro x y hx hy hxy w cx cy
    dsimp only at hx hy cx cy
    rw [hlen] at hx hy
    exact C.allOf_disj x y hx hy hxy w (C.newRoot_chans x hx w cx) (C.newRoot_chans y hy w cy)
  · intro x hx hne
    dsimp only at hx hne ⊢
    rw [hlen] at hx
    by_cases hxl : x ∈ lockList th
    · intro heq
      have hcx : chansOf (getT th.newRoot x) (getT th.newRoot x).initWatch := Or.inr ⟨rfl, hne⟩
      rcases C.chans_newRoot_inv x hxl _ hcx with h1 | ⟨h1, h2, _⟩
      · -- the init channel of the new version equals the entry's watch: then it is its own watch
        have hw : (getT th.newRoot x).watch = (getT th.entries x).watch := by
          rw [C.newRoot_in x hxl]; unfold clr; split <;> rfl
        have hi : (getT th.newRoot x).initWatch = (getT th.entries x).initWatch := by
          rw [C.newRoot_in x hxl]; unfold clr
          split
          · rename_i hc
            exfalso; apply hne
            rw [C.newRoot_in x hxl]; unfold clr; rw [if_pos hc]
          · rfl
        exact C.entry_watch_ne_init x hxl (by rw [← hi]; exact hne) (by rw [← hi, ← h1])
      · have hw : (getT th.newRoot x).watch = (getT th.entries x).watch := by
          rw [C.newRoot_in x hxl]; unfold clr; split <;> rfl
        exact C.entry_watch_ne_init x hxl (by rw [← h1]; exact h2) (by rw [← hw, heq, h1])
    · rw [C.newRoot_out x hx hxl] at hne ⊢
      exact cRW x hx hne
  · intro x hx
    dsimp only at hx ⊢
    rw [hlen] at hx
    by_cases hxl : x ∈ lockList th
    · obtain ⟨n, hn⟩ := C.entry x hxl
      rw [C.newRoot_in x hxl, hn]
      exact clr_uwEntry_IP _ _ _ _ (cIP x hx)
    · rw [C.newRoot_out x hx hxl]; exact cIP x hx
  · intro x hx
    dsimp only at hx ⊢
    rw [hlen] at hx
    by_cases hxl : x ∈ lockList th
    · obtain ⟨n, hn⟩ := C.entry x hxl
      rw [C.newRoot_in x hxl, hn]
      obtain ⟨e1, e2, _⟩ := clr_uwEntry_rev (th.regInit.contains x) (th.markInit.contains x) n (getT st.root x)
      rw [e1, e2, cRV x hx]
    · rw [C.newRoot_out x hx hxl]; exact cRV x hx
  · intro ⟨_, h2⟩
    rcases h2 with h2 | h2
    · simp at h2
    · exact absurd h2 hsr'
  · intro w hw hn; exact absurd hw hn
  · intro _ hs; exact absurd hsr hs
  · refine ⟨?_, ?_, .rR, hstrip, rfl, hwr, ⟨htc, C.toNotify_not_toClose⟩, ?_⟩
    · intro x hx; show x < th.newRoot.length; rw [hlen]; exact hb x hx
    · rw [hprog] at hadj; exact adjOK_tail _ _ hadj
    · intro x hx; exact C.newRoot_in x hx
  · intro j thj cj p hj hthj hcj hpj hlj
    have hold : (install st tid th).threads[j]? = some thj := by rw [install_get _ _ _ _ htid, if_neg hj]; exact hthj
    obtain ⟨cj', hcj', hbj, _⟩ := hCI.TH j thj hold
    exact store_frame st cs tid th _ _ hsim htid hmuB hheld
      (fun x hx hxl => C.newRoot_out x hx hxl) j thj cj p hj hthj hbj hpj hlj

end Sdb.Conc
