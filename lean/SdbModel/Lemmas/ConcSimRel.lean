import SdbModel.Lemmas.ConcSimProg
import SdbModel.Lemmas.ConcSimWrites
import SdbModel.Lemmas.Serial
import SdbModel.Lemmas.LockOrder

/-!
  ConcSimRel — the abstraction relation `R st s` between a state of `Model.Conc`
  and a state of `Model.Serial`, and its frame / update lemmas.

  Thread `tid` of `Model.Conc` corresponds to transaction `tid` of `Model.Serial`
  (a registration thread to a transaction without tables that never moves).
  `R` says: the committed counters agree, the table-mutex owners agree, and every
  thread is at a program position `p` (`strip th.prog = code L c p`) that matches
  the phase of its transaction, with the private copies (`oldRoot`, `entries`,
  `curRoot`, `newRoot`) holding what the transaction loaded / is about to store;
  the root mutex is held exactly by the thread inside its critical section.
  Core Lean only.
-/
namespace Sdb.Conc
open Sdb.Serial (Txn Phase setTxn)

/-- the lock order of a thread: what `WriteTxn` + `SortableMutexes.Lock` derive
    from the requested tables -/
def lockList (th : Thread) : List Nat := sortNat (dedup th.tables)

/-- positions inside a root-mutex critical section -/
def inCS : Pos → Bool
  | .lc | .mg | .ci | .sr | .rR | .gL | .gP | .gS | .gR | .dL | .dR => true
  | _ => false

/-- the private copies hold the loaded counters (`+ d` after the user's writes) -/
def Holds (L : List Nat) (l : List TableV) (old : Nat → Nat) (d : Nat) : Prop :=
  ∀ x ∈ L, x < l.length ∧ (getT l x).cnt = old x + d

/-- what the thread record and its transaction look like at a position -/
def Local (root : List TableV) (th : Thread) (t : Txn) : Pos → Prop
  | .acq k => t.phase = .acquiring k ∧ k ≤ (lockList th).length
  | .clR => t.phase = .loaded ∧ Holds (lockList th) th.oldRoot t.old 0
  | .clE => t.phase = .loaded ∧ Holds (lockList th) th.oldRoot t.old 0 ∧ Holds (lockList th) th.entries t.old 0
  | .uw => t.phase = .loaded ∧ Holds (lockList th) th.oldRoot t.old 0 ∧ th.locked = dedup th.tables ∧
      Holds (lockList th) th.entries t.old 0
  | .aR => t.phase = .loaded ∧ Holds (lockList th) th.oldRoot t.old 0 ∧ t.commit = true ∧
      th.locked = dedup th.tables ∧ Holds (lockList th) th.entries t.old 1
  | .lc => t.phase = .loaded ∧ Holds (lockList th) th.oldRoot t.old 0 ∧ t.commit = true ∧
      th.locked = dedup th.tables ∧ Holds (lockList th) th.entries t.old 1
  | .mg => t.phase = .loaded ∧ Holds (lockList th) th.oldRoot t.old 0 ∧ t.commit = true ∧
      th.locked = dedup th.tables ∧ Holds (lockList th) th.entries t.old 1 ∧
      th.curRoot = root
  | .ci => t.phase = .loaded ∧ Holds (lockList th) th.oldRoot t.old 0 ∧ t.commit = true ∧
      th.locked = dedup th.tables ∧ th.newRoot.length = root.length ∧
      ∀ x, x < root.length → (x ∈ lockList th → (getT th.newRoot x).cnt = t.old x + 1) ∧
        (x ∉ lockList th → getT th.newRoot x = getT root x)
  | .sr => t.phase = .loaded ∧ Holds (lockList th) th.oldRoot t.old 0 ∧ t.commit = true ∧
      th.locked = dedup th.tables ∧ th.newRoot.length = root.length ∧
      ∀ x, x < root.length → (x ∈ lockList th → (getT th.newRoot x).cnt = t.old x + 1) ∧
        (x ∉ lockList th → getT th.newRoot x = getT root x)
  | .rR => t.phase = .stored ∧ t.released = 0 ∧ t.commit = true
  | .rel k => k ≤ (lockList th).length ∧ t.released = k ∧
      t.phase = (if th.done then Phase.done else Phase.stored) ∧ (th.done = true → th.prog = [])
  | .gA => th.tables = [] ∧ t.phase = .acquiring 0
  | .gL => th.tables = [] ∧ t.phase = .acquiring 0
  | .gP => th.tables = [] ∧ t.phase = .acquiring 0 ∧ th.curRoot = root
  | .gS => th.tables = [] ∧ t.phase = .acquiring 0 ∧ ∃ v : TableV, th.newRoot = root ++ [v] ∧ v.cnt = 0
  | .gR => th.tables = [] ∧ t.phase = .acquiring 0
  | .gE => th.tables = [] ∧ t.phase = .acquiring 0
  | .dA => th.tables = [] ∧ t.phase = .acquiring 0
  | .dL => th.tables = [] ∧ t.phase = .acquiring 0
  | .dR => th.tables = [] ∧ t.phase = .acquiring 0

/-- thread `tid` with record `th` corresponds to transaction `t` -/
def TRel (root : List TableV) (mu : Option Nat) (nlock : Nat) (tid : Nat) (th : Thread) (t : Txn) : Prop :=
  t.tabs = lockList th ∧ (∀ x ∈ lockList th, x < root.length ∧ x < nlock) ∧
  ∃ p, strip th.prog = code (lockList th) t.commit p ∧ (mu = some tid ↔ inCS p = true) ∧ Local root th t p

/-- the abstraction relation -/
structure R (st : State) (s : Serial.State) : Prop where
  len : s.txns.length = st.threads.length
  root : ∀ i, i < st.root.length → (getT st.root i).cnt = s.root i
  rootHi : ∀ i, st.root.length ≤ i → s.root i = 0
  owner : ∀ i, st.lockOwner.getD i none = s.owner i
  thr : ∀ tid th, st.threads[tid]? = some th →
    ∃ t, s.txns[tid]? = some t ∧ TRel st.root st.rootMu st.lockOwner.length tid th t
  muLt : ∀ j, st.rootMu = some j → j < st.threads.length

/-! ### list helpers -/

theorem getD_set_opt (l : List (Option Nat)) (t i : Nat) (v : Option Nat) :
    (l.set t v).getD i none = if i = t ∧ t < l.length then v else l.getD i none := by
  simp only [List.getD_eq_getElem?_getD, List.getElem?_set]
  by_cases h : t = i
  · subst h
    by_cases hl : t < l.length
    · simp [hl]
    · simp [hl]
  · have : ¬ i = t := fun e => h e.symm
    simp [h, this]

theorem set_self {α : Type} (l : List α) (i : Nat) (a : α) (h : l[i]? = some a) : l.set i a = l := by
  apply List.ext_getElem?
  intro j
  rw [List.getElem?_set]
  by_cases hij : i = j
  · subst hij
    have hlt : i < l.length := by
      rcases Nat.lt_or_ge i l.length with h' | h'
      · exact h'
      · rw [List.getElem?_eq_none h'] at h; simp at h
    rw [List.getElem?_eq_getElem hlt] at h
    simp only [Option.some.injEq] at h
    simp [hlt, h]
  · simp [hij]

theorem getElem?_set_thread (l : List Thread) (i j : Nat) (a : Thread) (hi : i < l.length) :
    (l.set i a)[j]? = if j = i then some a else l[j]? := by
  rw [List.getElem?_set]
  by_cases h : i = j
  · subst h; simp [hi]
  · have : ¬ j = i := fun e => h e.symm
    simp [h, this]

theorem lt_of_getElem?_some {α : Type} (l : List α) (i : Nat) (a : α) (h : l[i]? = some a) : i < l.length := by
  rcases Nat.lt_or_ge i l.length with h' | h'
  · exact h'
  · rw [List.getElem?_eq_none h'] at h; simp at h

/-! ### frame lemmas of `TRel` -/

/-- a change of the shared state by ANOTHER thread: the root may only change
    while this thread is outside its critical section -/
theorem TRel_frame (root root' : List TableV) (mu mu' : Option Nat) (n tid : Nat) (th : Thread) (t : Txn)
    (h : TRel root mu n tid th t) (hlen : root.length ≤ root'.length)
    (hmu : mu' = some tid ↔ mu = some tid) (hroot : root' = root ∨ mu ≠ some tid) :
    TRel root' mu' n tid th t := by
  obtain ⟨ht, hb, p, hp, hcs, hl⟩ := h
  refine ⟨ht, fun x hx => ⟨Nat.lt_of_lt_of_le (hb x hx).1 hlen, (hb x hx).2⟩, p, hp, hmu.trans hcs, ?_⟩
  rcases hroot with rfl | hne
  · exact hl
  · have hncs : inCS p = false := by
      cases h : inCS p with
      | false => rfl
      | true => exact absurd (hcs.2 h) hne
    cases p <;> first | exact hl | simp [inCS] at hncs

/-- a change of the thread record that keeps everything `TRel` reads -/
theorem TRel_congr (root : List TableV) (mu : Option Nat) (n tid : Nat) (th th' : Thread) (t : Txn)
    (h : TRel root mu n tid th t) (hp : strip th'.prog = strip th.prog) (h1 : th'.tables = th.tables)
    (h2 : th'.done = th.done) (h3 : th'.locked = th.locked) (h4 : th'.oldRoot = th.oldRoot)
    (h5 : th'.entries = th.entries) (h6 : th'.curRoot = th.curRoot) (h7 : th'.newRoot = th.newRoot)
    (h8 : th.prog = [] → th'.prog = []) :
    TRel root mu n tid th' t := by
  obtain ⟨ht, hb, p, hpp, hcs, hl⟩ := h
  have hL : lockList th' = lockList th := by simp only [lockList, h1]
  refine ⟨by rw [hL]; exact ht, by rw [hL]; exact hb, p, by rw [hL, hp]; exact hpp, hcs, ?_⟩
  cases p <;> simp only [Local, hL, h1, h2, h3, h4, h5, h6, h7] at hl ⊢ <;> first
    | exact hl
    | exact ⟨hl.1, hl.2.1, hl.2.2.1, fun hd => h8 (hl.2.2.2 hd)⟩

/-- re-establishing `R` after a micro step of thread `tid`: the other threads
    are covered by the frame lemma, so only the shared-state agreement and the
    stepping thread itself remain -/
theorem R_update (st st' : State) (s s' : Serial.State) (tid : Nat) (th th' : Thread) (t t' : Txn)
    (hR : R (install st tid th) s) (htid : tid < st.threads.length)
    (hthreads : st'.threads = st.threads)
    (ht : s.txns[tid]? = some t) (htx : s'.txns = setTxn s.txns tid t')
    (hroot : ∀ i, i < st'.root.length → (getT st'.root i).cnt = s'.root i)
    (hrootHi : ∀ i, st'.root.length ≤ i → s'.root i = 0)
    (howner : ∀ i, st'.lockOwner.getD i none = s'.owner i)
    (hnl : st'.lockOwner.length = st.lockOwner.length)
    (hrl : st.root.length ≤ st'.root.length)
    (hmu : ∀ j, j ≠ tid → (st'.rootMu = some j ↔ st.rootMu = some j))
    (hfr : st'.root = st.root ∨ st.rootMu = some tid)
    (hown : TRel st'.root st'.rootMu st'.lockOwner.length tid th' t') :
    R (install st' tid th') s' := by
  have hget := fun j => Serial.getElem?_setTxn s.txns tid j t' ⟨t, ht⟩
  constructor
  · have := hR.len
    simp only [install, List.length_set] at this ⊢
    rw [htx, hthreads]; simpa [setTxn] using this
  · exact hroot
  · exact hrootHi
  · exact howner
  · intro j thj hj
    simp only [install] at hj
    rw [hthreads, getElem?_set_thread _ _ _ _ htid] at hj
    by_cases hjt : j = tid
    · subst hjt
      simp only [if_true, Option.some.injEq] at hj; subst hj
      exact ⟨t', by rw [htx, hget]; simp, hown⟩
    · rw [if_neg hjt] at hj
      have hj' : (install st tid th).threads[j]? = some thj := by
        simp only [install]; rw [getElem?_set_thread _ _ _ _ htid, if_neg hjt]; exact hj
      obtain ⟨tj, htj, hrel⟩ := hR.thr j thj hj'
      refine ⟨tj, by rw [htx, hget, if_neg hjt]; exact htj, ?_⟩
      simp only [install] at hrel
      show TRel st'.root st'.rootMu st'.lockOwner.length j thj tj
      rw [hnl]
      refine TRel_frame _ _ _ _ _ _ _ _ hrel hrl (hmu j hjt) ?_
      rcases hfr with h | h
      · exact Or.inl h
      · right; rw [h]; intro e; simp only [Option.some.injEq] at e; exact hjt e.symm
  · intro j hj
    simp only [install, List.length_set]
    rw [hthreads]
    by_cases hjt : j = tid
    · rw [hjt]; exact htid
    · have := hR.muLt j ((hmu j hjt).1 hj)
      simpa [install] using this

/-- the case where the Serial state does not move -/
theorem R_update_same (st st' : State) (s : Serial.State) (tid : Nat) (th th' : Thread) (t : Txn)
    (hR : R (install st tid th) s) (htid : tid < st.threads.length)
    (hthreads : st'.threads = st.threads)
    (ht : s.txns[tid]? = some t)
    (hroot : ∀ i, i < st'.root.length → (getT st'.root i).cnt = s.root i)
    (hrootHi : ∀ i, st'.root.length ≤ i → s.root i = 0)
    (howner : ∀ i, st'.lockOwner.getD i none = s.owner i)
    (hnl : st'.lockOwner.length = st.lockOwner.length)
    (hrl : st.root.length ≤ st'.root.length)
    (hmu : ∀ j, j ≠ tid → (st'.rootMu = some j ↔ st.rootMu = some j))
    (hfr : st'.root = st.root ∨ st.rootMu = some tid)
    (hown : TRel st'.root st'.rootMu st'.lockOwner.length tid th' t) :
    R (install st' tid th') s :=
  R_update st st' s s tid th th' t t hR htid hthreads ht (by unfold setTxn; rw [set_self _ _ _ ht])
    hroot hrootHi howner hnl hrl hmu hfr hown

/-- the stepping thread's own entry of `R` -/
theorem R_own (st : State) (s : Serial.State) (tid : Nat) (th : Thread)
    (hR : R (install st tid th) s) (htid : tid < st.threads.length) :
    ∃ t, s.txns[tid]? = some t ∧ TRel st.root st.rootMu st.lockOwner.length tid th t := by
  have : (install st tid th).threads[tid]? = some th := by
    simp only [install]; rw [getElem?_set_thread _ _ _ _ htid]; simp
  exact hR.thr tid th this

end Sdb.Conc
