import SdbModel.Lemmas.ReconcilerTimer

/-!
  Lemmas.ReconcilerProgress — a view `V` of the reconciler state (the fields the
  progress / pacing invariants of C16 talk about), the atomic steps of a round
  as functions on views, and induction principles over the three loops of a
  round (`consume`, `commitStatus`, `processRetries`) that hand every step the
  bookkeeping invariant `InvL` of C14 together with an exact description of the
  step on views.
-/
namespace Sdb.Rec

/-- the part of the state the C16 run invariants talk about -/
structure V where
  objs : List RObj
  dels : List (RObj × Nat)
  tableRev : Nat
  itRev : Nat
  itDelRev : Nat
  items : List Item
  log : List Call
  now : Nat
  cfg : Cfg
  progressRev : Nat

def R.v (r : R) : V :=
  { objs := r.objs, dels := r.dels, tableRev := r.tableRev, itRev := r.itRev, itDelRev := r.itDelRev,
    items := r.items, log := r.log, now := r.now, cfg := r.cfg, progressRev := r.progressRev }

/-- `numRetries` of the item stored for `id` (0 if none) -/
def prevN (items : List Item) (id : Nat) : Nat :=
  match items.find? (·.id = id) with
  | some i => i.numRetries
  | none => 0

/-- `origRev` of the item stored for `id` (`dflt` if none): `retries.Add` keeps the revision of the
    change that failed originally over the retries of an item -/
def prevO (items : List Item) (id dflt : Nat) : Nat :=
  match items.find? (·.id = id) with
  | some i => i.origRev
  | none => dflt

/-- the item `retries.Add` stores -/
def mkItem (now : Nat) (cfg : Cfg) (o : RObj) (rev origRev : Nat) (del : Bool) (n : Nat) : Item :=
  { id := o.id, obj := o, rev, origRev, delete := del, retryAt := now + backoff cfg.minB cfg.maxB n,
    numRetries := n, inQueue := true, inRevQueue := true }

def popItem (id : Nat) (i : Item) : Item := if i.id = id then { i with inQueue := false } else i

def V.add (v : V) (o : RObj) (rev origRev : Nat) (del : Bool) : V :=
  { v with items := v.items.filter (·.id ≠ o.id) ++ [mkItem v.now v.cfg o rev (prevO v.items o.id origRev) del (prevN v.items o.id + 1)] }

def V.clear (v : V) (id : Nat) : V := { v with items := v.items.filter (·.id ≠ id) }

def V.pop (v : V) (id : Nat) : V := { v with items := v.items.map (popItem id) }

def V.call (v : V) (c : Call) : V := { v with log := v.log ++ [c] }

/-- `processSingle` with the outcome `f` (failed?) on views -/
def V.single (v : V) (o : RObj) (rev : Nat) (del f : Bool) : V :=
  if del then
    (if f then (v.call ⟨"D", o.id, o.data, false⟩).add o rev rev true else (v.call ⟨"D", o.id, o.data, true⟩).clear o.id)
  else
    (if f then v.call ⟨"U", o.id, o.data, false⟩ else (v.call ⟨"U", o.id, o.data, true⟩).clear o.id)

/-- the result an Update leaves for `commitStatus` -/
def resOf (o : RObj) (rev : Nat) (del f : Bool) : List Res := if del then [] else [(o, o, rev, o.sid, f)]

def V.setObj (v : V) (o : RObj) : V :=
  { v with objs := (if v.objs.any (·.id = o.id) then v.objs.map (fun x => if x.id = o.id then { o with rev := v.tableRev + 1 } else x)
                    else v.objs ++ [{ o with rev := v.tableRev + 1 }]),
           tableRev := v.tableRev + 1, dels := v.dels.filter (·.1.id ≠ o.id) }

/-- a status commit of a result whose object is unchanged -/
def V.commit (v : V) (res : Res) (sid : Nat) : V :=
  let v1 := v.setObj { res.1 with kind := if res.2.2.2.2 then SKind.error else SKind.done, sid := sid }
  if res.2.2.2.2 then v1.add res.2.1 v1.tableRev res.2.2.1 false else v1

/-! ## facts about the view primitives -/

@[simp] theorem add_objs (v : V) (o : RObj) (a b : Nat) (d : Bool) : (v.add o a b d).objs = v.objs := rfl
@[simp] theorem add_dels (v : V) (o : RObj) (a b : Nat) (d : Bool) : (v.add o a b d).dels = v.dels := rfl
@[simp] theorem add_tableRev (v : V) (o : RObj) (a b : Nat) (d : Bool) : (v.add o a b d).tableRev = v.tableRev := rfl
@[simp] theorem add_itRev (v : V) (o : RObj) (a b : Nat) (d : Bool) : (v.add o a b d).itRev = v.itRev := rfl
@[simp] theorem add_itDelRev (v : V) (o : RObj) (a b : Nat) (d : Bool) : (v.add o a b d).itDelRev = v.itDelRev := rfl
@[simp] theorem add_log (v : V) (o : RObj) (a b : Nat) (d : Bool) : (v.add o a b d).log = v.log := rfl
@[simp] theorem add_now (v : V) (o : RObj) (a b : Nat) (d : Bool) : (v.add o a b d).now = v.now := rfl
@[simp] theorem add_cfg (v : V) (o : RObj) (a b : Nat) (d : Bool) : (v.add o a b d).cfg = v.cfg := rfl
@[simp] theorem add_progressRev (v : V) (o : RObj) (a b : Nat) (d : Bool) : (v.add o a b d).progressRev = v.progressRev := rfl
@[simp] theorem clear_objs (v : V) (id : Nat) : (v.clear id).objs = v.objs := rfl
@[simp] theorem clear_dels (v : V) (id : Nat) : (v.clear id).dels = v.dels := rfl
@[simp] theorem clear_tableRev (v : V) (id : Nat) : (v.clear id).tableRev = v.tableRev := rfl
@[simp] theorem clear_itRev (v : V) (id : Nat) : (v.clear id).itRev = v.itRev := rfl
@[simp] theorem clear_itDelRev (v : V) (id : Nat) : (v.clear id).itDelRev = v.itDelRev := rfl
@[simp] theorem clear_log (v : V) (id : Nat) : (v.clear id).log = v.log := rfl
@[simp] theorem clear_now (v : V) (id : Nat) : (v.clear id).now = v.now := rfl
@[simp] theorem clear_cfg (v : V) (id : Nat) : (v.clear id).cfg = v.cfg := rfl
@[simp] theorem clear_progressRev (v : V) (id : Nat) : (v.clear id).progressRev = v.progressRev := rfl
@[simp] theorem clear_items (v : V) (id : Nat) : (v.clear id).items = v.items.filter (·.id ≠ id) := rfl
@[simp] theorem pop_objs (v : V) (id : Nat) : (v.pop id).objs = v.objs := rfl
@[simp] theorem pop_dels (v : V) (id : Nat) : (v.pop id).dels = v.dels := rfl
@[simp] theorem pop_tableRev (v : V) (id : Nat) : (v.pop id).tableRev = v.tableRev := rfl
@[simp] theorem pop_itRev (v : V) (id : Nat) : (v.pop id).itRev = v.itRev := rfl
@[simp] theorem pop_itDelRev (v : V) (id : Nat) : (v.pop id).itDelRev = v.itDelRev := rfl
@[simp] theorem pop_log (v : V) (id : Nat) : (v.pop id).log = v.log := rfl
@[simp] theorem pop_now (v : V) (id : Nat) : (v.pop id).now = v.now := rfl
@[simp] theorem pop_cfg (v : V) (id : Nat) : (v.pop id).cfg = v.cfg := rfl
@[simp] theorem pop_progressRev (v : V) (id : Nat) : (v.pop id).progressRev = v.progressRev := rfl
@[simp] theorem pop_items (v : V) (id : Nat) : (v.pop id).items = v.items.map (popItem id) := rfl
@[simp] theorem call_objs (v : V) (c : Call) : (v.call c).objs = v.objs := rfl
@[simp] theorem call_dels (v : V) (c : Call) : (v.call c).dels = v.dels := rfl
@[simp] theorem call_tableRev (v : V) (c : Call) : (v.call c).tableRev = v.tableRev := rfl
@[simp] theorem call_itRev (v : V) (c : Call) : (v.call c).itRev = v.itRev := rfl
@[simp] theorem call_itDelRev (v : V) (c : Call) : (v.call c).itDelRev = v.itDelRev := rfl
@[simp] theorem call_items (v : V) (c : Call) : (v.call c).items = v.items := rfl
@[simp] theorem call_log (v : V) (c : Call) : (v.call c).log = v.log ++ [c] := rfl
@[simp] theorem call_now (v : V) (c : Call) : (v.call c).now = v.now := rfl
@[simp] theorem call_cfg (v : V) (c : Call) : (v.call c).cfg = v.cfg := rfl
@[simp] theorem call_progressRev (v : V) (c : Call) : (v.call c).progressRev = v.progressRev := rfl

@[simp] theorem popItem_id (X : Nat) (i : Item) : (popItem X i).id = i.id := by unfold popItem; split <;> rfl
@[simp] theorem popItem_obj (X : Nat) (i : Item) : (popItem X i).obj = i.obj := by unfold popItem; split <;> rfl
@[simp] theorem popItem_rev (X : Nat) (i : Item) : (popItem X i).rev = i.rev := by unfold popItem; split <;> rfl
@[simp] theorem popItem_origRev (X : Nat) (i : Item) : (popItem X i).origRev = i.origRev := by unfold popItem; split <;> rfl
@[simp] theorem popItem_delete (X : Nat) (i : Item) : (popItem X i).delete = i.delete := by unfold popItem; split <;> rfl
@[simp] theorem popItem_retryAt (X : Nat) (i : Item) : (popItem X i).retryAt = i.retryAt := by unfold popItem; split <;> rfl
@[simp] theorem popItem_numRetries (X : Nat) (i : Item) : (popItem X i).numRetries = i.numRetries := by unfold popItem; split <;> rfl
@[simp] theorem popItem_inRevQueue (X : Nat) (i : Item) : (popItem X i).inRevQueue = i.inRevQueue := by unfold popItem; split <;> rfl
theorem popItem_of_ne {X : Nat} {i : Item} (h : i.id ≠ X) : popItem X i = i := by unfold popItem; rw [if_neg h]
theorem popItem_of_eq {X : Nat} {i : Item} (h : i.id = X) : popItem X i = { i with inQueue := false } := by unfold popItem; rw [if_pos h]

theorem mem_add_items (v : V) (o : RObj) (a b : Nat) (d : Bool) (x : Item) :
    x ∈ (v.add o a b d).items ↔ (x ∈ v.items ∧ x.id ≠ o.id) ∨ x = mkItem v.now v.cfg o a (prevO v.items o.id b) d (prevN v.items o.id + 1) := by
  unfold V.add
  simp only [List.mem_append, List.mem_filter, List.mem_singleton]
  simp

theorem mem_clear_items (v : V) (id : Nat) (x : Item) : x ∈ (v.clear id).items ↔ x ∈ v.items ∧ x.id ≠ id := by
  simp [List.mem_filter]

theorem prevN_of_mem {items : List Item} (hpw : items.Pairwise (fun a b => a.id ≠ b.id)) {it : Item} (hit : it ∈ items) :
    prevN items it.id = it.numRetries := by
  unfold prevN
  cases hf : items.find? (·.id = it.id) with
  | none =>
    rw [List.find?_eq_none] at hf
    exact absurd (by simp) (hf it hit)
  | some i =>
    have hm := List.mem_of_find?_eq_some hf
    have hid : i.id = it.id := by simpa using List.find?_some hf
    rcases pairwise_mem_eq hpw hm hit with e | e | e
    · rw [e]
    · exact absurd hid e
    · exact absurd hid.symm e

theorem prevN_of_not_mem {items : List Item} {id : Nat} (h : ∀ it ∈ items, it.id ≠ id) : prevN items id = 0 := by
  unfold prevN
  have : items.find? (·.id = id) = none := by
    rw [List.find?_eq_none]; intro x hx; simpa using h x hx
  rw [this]

theorem prevO_of_mem {items : List Item} (hpw : items.Pairwise (fun a b => a.id ≠ b.id)) {it : Item} (hit : it ∈ items) (d : Nat) :
    prevO items it.id d = it.origRev := by
  unfold prevO
  cases hf : items.find? (·.id = it.id) with
  | none =>
    rw [List.find?_eq_none] at hf
    exact absurd (by simp) (hf it hit)
  | some i =>
    have hm := List.mem_of_find?_eq_some hf
    have hid : i.id = it.id := by simpa using List.find?_some hf
    rcases pairwise_mem_eq hpw hm hit with e | e | e
    · rw [e]
    · exact absurd hid e
    · exact absurd hid.symm e

theorem prevO_of_not_mem {items : List Item} {id : Nat} (h : ∀ it ∈ items, it.id ≠ id) (d : Nat) : prevO items id d = d := by
  unfold prevO
  have : items.find? (·.id = id) = none := by
    rw [List.find?_eq_none]; intro x hx; simpa using h x hx
  rw [this]

/-- the stored `origRev` is the given one (no item yet) or that of the item for `id` -/
theorem prevO_cases (items : List Item) (id d : Nat) : prevO items id d = d ∨ ∃ i ∈ items, i.id = id ∧ prevO items id d = i.origRev := by
  unfold prevO
  cases hf : items.find? (·.id = id) with
  | none => exact Or.inl rfl
  | some i => exact Or.inr ⟨i, List.mem_of_find?_eq_some hf, by simpa using List.find?_some hf, rfl⟩

theorem prevO_pop (items : List Item) (X id d : Nat) : prevO (items.map (popItem X)) id d = prevO items id d := by
  unfold prevO
  induction items with
  | nil => rfl
  | cons a as ih =>
    simp only [List.map_cons, List.find?_cons, popItem_id]
    by_cases h : a.id = id
    · simp [h]
    · simp only [h, decide_false]; exact ih

theorem prevN_pop (items : List Item) (X id : Nat) : prevN (items.map (popItem X)) id = prevN items id := by
  unfold prevN
  induction items with
  | nil => rfl
  | cons a as ih =>
    simp only [List.map_cons, List.find?_cons, popItem_id]
    by_cases h : a.id = id
    · simp [h]
    · simp only [h, decide_false]; exact ih

theorem single_dt (v : V) (o : RObj) (rev : Nat) :
    v.single o rev true true = (v.call ⟨"D", o.id, o.data, false⟩).add o rev rev true := by simp [V.single]
theorem single_df (v : V) (o : RObj) (rev : Nat) :
    v.single o rev true false = (v.call ⟨"D", o.id, o.data, true⟩).clear o.id := by simp [V.single]
theorem single_ut (v : V) (o : RObj) (rev : Nat) :
    v.single o rev false true = v.call ⟨"U", o.id, o.data, false⟩ := by simp [V.single]
theorem single_uf (v : V) (o : RObj) (rev : Nat) :
    v.single o rev false false = (v.call ⟨"U", o.id, o.data, true⟩).clear o.id := by simp [V.single]

@[simp] theorem single_objs (v : V) (o : RObj) (rev : Nat) (d f : Bool) : (v.single o rev d f).objs = v.objs := by
  unfold V.single; cases d <;> cases f <;> rfl
@[simp] theorem single_dels (v : V) (o : RObj) (rev : Nat) (d f : Bool) : (v.single o rev d f).dels = v.dels := by
  unfold V.single; cases d <;> cases f <;> rfl
@[simp] theorem single_tableRev (v : V) (o : RObj) (rev : Nat) (d f : Bool) : (v.single o rev d f).tableRev = v.tableRev := by
  unfold V.single; cases d <;> cases f <;> rfl
@[simp] theorem single_itRev (v : V) (o : RObj) (rev : Nat) (d f : Bool) : (v.single o rev d f).itRev = v.itRev := by
  unfold V.single; cases d <;> cases f <;> rfl
@[simp] theorem single_itDelRev (v : V) (o : RObj) (rev : Nat) (d f : Bool) : (v.single o rev d f).itDelRev = v.itDelRev := by
  unfold V.single; cases d <;> cases f <;> rfl
@[simp] theorem single_now (v : V) (o : RObj) (rev : Nat) (d f : Bool) : (v.single o rev d f).now = v.now := by
  unfold V.single; cases d <;> cases f <;> rfl
@[simp] theorem single_cfg (v : V) (o : RObj) (rev : Nat) (d f : Bool) : (v.single o rev d f).cfg = v.cfg := by
  unfold V.single; cases d <;> cases f <;> rfl
@[simp] theorem single_progressRev (v : V) (o : RObj) (rev : Nat) (d f : Bool) : (v.single o rev d f).progressRev = v.progressRev := by
  unfold V.single; cases d <;> cases f <;> rfl
theorem single_log (v : V) (o : RObj) (rev : Nat) (d f : Bool) :
    (v.single o rev d f).log = v.log ++ [⟨if d then "D" else "U", o.id, o.data, !f⟩] := by
  unfold V.single; cases d <;> cases f <;> rfl

@[simp] theorem commit_itRev (v : V) (res : Res) (sid : Nat) : (v.commit res sid).itRev = v.itRev := by
  unfold V.commit; simp only; split <;> rfl
@[simp] theorem commit_itDelRev (v : V) (res : Res) (sid : Nat) : (v.commit res sid).itDelRev = v.itDelRev := by
  unfold V.commit; simp only; split <;> rfl
@[simp] theorem commit_tableRev (v : V) (res : Res) (sid : Nat) : (v.commit res sid).tableRev = v.tableRev + 1 := by
  unfold V.commit; simp only; split <;> rfl
@[simp] theorem commit_log (v : V) (res : Res) (sid : Nat) : (v.commit res sid).log = v.log := by
  unfold V.commit; simp only; split <;> rfl
@[simp] theorem commit_now (v : V) (res : Res) (sid : Nat) : (v.commit res sid).now = v.now := by
  unfold V.commit; simp only; split <;> rfl
@[simp] theorem commit_cfg (v : V) (res : Res) (sid : Nat) : (v.commit res sid).cfg = v.cfg := by
  unfold V.commit; simp only; split <;> rfl
@[simp] theorem commit_progressRev (v : V) (res : Res) (sid : Nat) : (v.commit res sid).progressRev = v.progressRev := by
  unfold V.commit; simp only; split <;> rfl
theorem commit_objs (v : V) (res : Res) (sid : Nat) :
    (v.commit res sid).objs = (v.setObj { res.1 with kind := if res.2.2.2.2 then SKind.error else SKind.done, sid := sid }).objs := by
  unfold V.commit; simp only; split <;> rfl
theorem commit_dels (v : V) (res : Res) (sid : Nat) :
    (v.commit res sid).dels = v.dels.filter (·.1.id ≠ res.1.id) := by
  unfold V.commit; simp only; split <;> rfl

theorem mem_setObj_v (v : V) (o x : RObj) :
    x ∈ (v.setObj o).objs ↔ (x ∈ v.objs ∧ x.id ≠ o.id) ∨ x = { o with rev := v.tableRev + 1 } := by
  have := mem_setObj_objs ({ objs := v.objs, tableRev := v.tableRev } : R) o x
  exact this

@[simp] theorem setObjV_dels (v : V) (o : RObj) : (v.setObj o).dels = v.dels.filter (·.1.id ≠ o.id) := rfl
@[simp] theorem setObjV_tableRev (v : V) (o : RObj) : (v.setObj o).tableRev = v.tableRev + 1 := rfl
@[simp] theorem setObjV_itRev (v : V) (o : RObj) : (v.setObj o).itRev = v.itRev := rfl
@[simp] theorem setObjV_itDelRev (v : V) (o : RObj) : (v.setObj o).itDelRev = v.itDelRev := rfl
@[simp] theorem setObjV_items (v : V) (o : RObj) : (v.setObj o).items = v.items := rfl
@[simp] theorem setObjV_log (v : V) (o : RObj) : (v.setObj o).log = v.log := rfl
@[simp] theorem setObjV_now (v : V) (o : RObj) : (v.setObj o).now = v.now := rfl
@[simp] theorem setObjV_cfg (v : V) (o : RObj) : (v.setObj o).cfg = v.cfg := rfl
@[simp] theorem setObjV_progressRev (v : V) (o : RObj) : (v.setObj o).progressRev = v.progressRev := rfl

theorem commit_f (v : V) (res : Res) (sid : Nat) (hf : res.2.2.2.2 = true) :
    v.commit res sid = (v.setObj { res.1 with kind := .error, sid := sid }).add res.2.1 (v.tableRev + 1) res.2.2.1 false := by
  unfold V.commit; simp [hf]
theorem commit_s (v : V) (res : Res) (sid : Nat) (hf : res.2.2.2.2 = false) :
    v.commit res sid = v.setObj { res.1 with kind := .done, sid := sid } := by
  unfold V.commit; simp [hf]

/-! ## the model's primitives on views -/

@[simp] theorem v_objs (r : R) : r.v.objs = r.objs := rfl
@[simp] theorem v_dels (r : R) : r.v.dels = r.dels := rfl
@[simp] theorem v_tableRev (r : R) : r.v.tableRev = r.tableRev := rfl
@[simp] theorem v_itRev (r : R) : r.v.itRev = r.itRev := rfl
@[simp] theorem v_itDelRev (r : R) : r.v.itDelRev = r.itDelRev := rfl
@[simp] theorem v_items (r : R) : r.v.items = r.items := rfl
@[simp] theorem v_log (r : R) : r.v.log = r.log := rfl
@[simp] theorem v_now (r : R) : r.v.now = r.now := rfl
@[simp] theorem v_cfg (r : R) : r.v.cfg = r.cfg := rfl
@[simp] theorem v_progressRev (r : R) : r.v.progressRev = r.progressRev := rfl

theorem retryAdd_v (r : R) (o : RObj) (a b : Nat) (d : Bool) : (r.retryAdd o a b d).v = r.v.add o a b d := rfl

theorem retryClear_v (r : R) (id : Nat) : (r.retryClear id).v = r.v.clear id := by
  unfold R.v V.clear
  simp [retryClear_items]

theorem retryPop_v (r : R) (h : Item) (hh : r.head = some h) : r.retryPop.v = r.v.pop h.id := by
  unfold R.v V.pop
  simp [retryPop_items r h hh, popItem]

theorem setObj_v (r : R) (o : RObj) : (r.setObj o).v = r.v.setObj o := rfl

theorem processSingle_v {r : R} (hinj : r.injects = []) (o : RObj) (rev : Nat) (del : Bool) :
    (r.processSingle o rev del).v = r.v.single o rev del (r.isFailing o.id) ∧
    (r.processSingle o rev del).results = r.results ++ resOf o rev del (r.isFailing o.id) := by
  cases del with
  | false =>
    rw [processSingle_update hinj]
    unfold V.single resOf
    cases hf : r.isFailing o.id
    · simp only [Bool.false_eq_true, if_false]
      rw [retryClear_v, retryClear_results]
      exact ⟨rfl, rfl⟩
    · simp only [if_true, Bool.false_eq_true, if_false]
      exact ⟨rfl, trivial⟩
  | true =>
    rw [processSingle_delete]
    unfold V.single resOf
    cases hf : r.isFailing o.id
    · simp only [Bool.false_eq_true, if_false, if_true, List.append_nil]
      rw [retryClear_v, retryClear_results]
      exact ⟨rfl, rfl⟩
    · simp only [if_true, List.append_nil]
      exact ⟨rfl, rfl⟩

/-- one iteration of `commitStatus`, on views: the result is dropped (its object is gone or has
    changed) or its status is written to the unchanged object -/
theorem commitOne_v {r : R} {res : Res} {rs : List Res} (h : InvL r (res :: rs)) :
    (r.commitOne res = r ∧ ∀ cur ∈ r.objs, cur.id = res.1.id → cur.rev ≠ res.2.2.1) ∨
    (∃ cur ∈ r.objs, cur.id = res.1.id ∧ cur.rev = res.2.2.1 ∧ (r.commitOne res).v = r.v.commit res r.nextSid) := by
  obtain ⟨obj, orig, rev, sid, failed⟩ := res
  unfold R.commitOne
  simp only
  cases hg : r.get obj.id with
  | none =>
    simp only
    rw [get_eq_none_iff] at hg
    exact Or.inl ⟨trivial, fun cur hcur hcid => absurd hcid (hg cur hcur)⟩
  | some cur =>
    simp only
    rw [get_eq_some_iff h.tinv] at hg
    obtain ⟨hcur, hcid⟩ := hg
    by_cases hrev : cur.rev = rev
    · simp only [hrev, if_true]
      right
      refine ⟨cur, hcur, hcid, hrev, ?_⟩
      cases failed with
      | false => simp only [Bool.false_eq_true, if_false]; rfl
      | true => simp only [if_true]; rfl
    · simp only [hrev, if_false]
      obtain ⟨_, _, hlive⟩ := h.resOK _ (List.mem_cons_self ..)
      have hk : ¬ (cur.kind = .pending ∧ cur.sid = sid) := by
        rintro ⟨hp, _⟩
        rcases hlive cur hcur hcid with a | ⟨_, a | a⟩
        · exact hrev a.1
        · rw [hp] at a; cases a
        · rw [hp] at a; cases a
      simp only [hk, if_false]
      refine Or.inl ⟨trivial, fun x hx hxid => ?_⟩
      have : x = cur := h.tinv.obj_eq hx hcur (by omega)
      rw [this]; exact hrev

/-! ## induction principles over the loops of a round -/

/-- induction over `commitStatus` -/
theorem commit_ind {Q : V → List Res → Prop}
    (hdrop : ∀ (r : R) (res : Res) (rs : List Res), InvL r (res :: rs) →
      (∀ cur ∈ r.objs, cur.id = res.1.id → cur.rev ≠ res.2.2.1) → Q r.v (res :: rs) → Q r.v rs)
    (hwrite : ∀ (r r' : R) (res : Res) (rs : List Res) (cur : RObj), InvL r (res :: rs) → cur ∈ r.objs → cur.id = res.1.id →
      cur.rev = res.2.2.1 → r'.v = r.v.commit res r.nextSid → InvL r' rs → Q r.v (res :: rs) → Q r'.v rs)
    (rs : List Res) {r : R} (h : InvL r rs) (hq : Q r.v rs) : Q (rs.foldl R.commitOne r).v [] := by
  induction rs generalizing r with
  | nil => exact hq
  | cons x xs ih =>
    rw [List.foldl_cons]
    refine ih h.commitOne ?_
    rcases commitOne_v h with ⟨e, hne⟩ | ⟨cur, hcur, hcid, hrev, e⟩
    · rw [e]; exact hdrop r x xs h hne hq
    · exact hwrite r _ x xs cur h hcur hcid hrev e h.commitOne hq

theorem commitStatus_v (r : R) : r.commitStatus.v = (r.results.foldl R.commitOne r).v := rfl

/-- induction over `processRetries` -/
theorem retries_ind {Q : V → List Res → Prop}
    (hstep : ∀ (r r' : R) (h : Item), InvL r r.results → CaughtUp r → r.head = some h → h.retryAt ≤ r.now →
      r.numReconciled < r.cfg.roundSize →
      r'.v = (r.v.pop h.id).single h.obj h.rev h.delete (r.isFailing h.obj.id) →
      r'.results = r.results ++ resOf h.obj h.rev h.delete (r.isFailing h.obj.id) → InvL r' r'.results →
      Q r.v r.results → Q r'.v r'.results)
    (fuel : Nat) {r : R} (h : InvL r r.results) (hc : r.numReconciled < r.cfg.roundSize → CaughtUp r)
    (hq : Q r.v r.results) : Q (r.processRetries fuel).v (r.processRetries fuel).results := by
  induction fuel generalizing r with
  | zero => exact hq
  | succ n ih =>
    unfold R.processRetries
    split
    · exact hq
    · rename_i hlt
      have hcu := hc (by omega)
      split
      · exact hq
      · rename_i it0 hh
        split
        · exact hq
        · rename_i hdue
          have hinj : r.retryPop.injects = [] := by rw [retryPop_injects]; exact h.noinj
          obtain ⟨hfr, hnum⟩ := frameT_processSingle hinj it0.obj it0.rev it0.delete
          have hfr' := (frameT_retryPop r).trans hfr
          have hI : InvL (r.retryPop.processSingle it0.obj it0.rev it0.delete) (r.retryPop.processSingle it0.obj it0.rev it0.delete).results := by
            cases hdel : it0.delete with
            | false => exact h.retry_update hcu it0 hh hdel
            | true =>
              refine InvL.cast_results (A := r.results) ?_ (h.retry_delete hcu it0 hh hdel)
              rw [processSingle_delete]; split <;> simp
          obtain ⟨hv, hres⟩ := processSingle_v hinj it0.obj it0.rev it0.delete
          rw [retryPop_v r it0 hh, isFailing_retryPop] at hv
          rw [isFailing_retryPop, retryPop_results] at hres
          have hq' := hstep r { (r.retryPop.processSingle it0.obj it0.rev it0.delete) with
              numReconciled := (r.retryPop.processSingle it0.obj it0.rev it0.delete).numReconciled + 1 } it0 h hcu hh (by omega) (by omega)
            hv hres (hI.congr rfl rfl rfl rfl rfl rfl rfl rfl rfl) hq
          exact ih (r := { (r.retryPop.processSingle it0.obj it0.rev it0.delete) with
              numReconciled := (r.retryPop.processSingle it0.obj it0.rev it0.delete).numReconciled + 1 })
            (hI.congr rfl rfl rfl rfl rfl rfl rfl rfl rfl) (fun _ => (hfr'.caughtUp hcu).congr rfl rfl rfl rfl) hq'

/-- induction over `consume` (the loop over the change stream) -/
theorem consume_ind {Q : V → List Res → List Change → Nat → Prop}
    (hskip : ∀ (r : R) (c : Change) (cs : List Change) (last : Nat), InvL r r.results → ChOK r r.results (c :: cs) →
      c.deleted = false → ¬ needs c.obj.kind → Q r.v r.results (c :: cs) last →
      Q { r.v with itRev := c.rev } r.results cs c.rev)
    (hupd : ∀ (r r' : R) (c : Change) (cs : List Change) (last : Nat), InvL r r.results → ChOK r r.results (c :: cs) →
      c.deleted = false → needs c.obj.kind →
      r'.v = (({ r.v with itRev := c.rev } : V).clear c.obj.id).single c.obj c.rev false (r.isFailing c.obj.id) →
      r'.results = r.results ++ resOf c.obj c.rev false (r.isFailing c.obj.id) → InvL r' r'.results → ChOK r' r'.results cs →
      Q r.v r.results (c :: cs) last → Q r'.v r'.results cs c.rev)
    (hdel : ∀ (r r' : R) (c : Change) (cs : List Change) (last : Nat), InvL r r.results → ChOK r r.results (c :: cs) →
      c.deleted = true →
      r'.v = (({ r.v with itDelRev := c.rev } : V).clear c.obj.id).single c.obj c.rev true (r.isFailing c.obj.id) →
      r'.results = r.results → InvL r' r'.results → ChOK r' r'.results cs →
      Q r.v r.results (c :: cs) last → Q r'.v r'.results cs c.rev)
    (cs : List Change) {r : R} (last : Nat) (h : InvL r r.results) (hch : ChOK r r.results cs) (hq : Q r.v r.results cs last) :
    Q (r.consume cs last).1.v (r.consume cs last).1.results (r.consume cs last).2.1 (r.consume cs last).2.2 := by
  induction cs generalizing r last with
  | nil => rw [consume_nil]; exact hq
  | cons c cs ih =>
    unfold R.consume
    simp only
    split
    · rename_i hskp
      have hc : c.deleted = false := by simpa using hskp.1
      have hnn : ¬ needs c.obj.kind := by simpa [needs] using hskp.2
      simp only [hc, Bool.false_eq_true, if_false]
      obtain ⟨ho, hrev, hgt⟩ := hch.upd c (List.mem_cons_self ..) hc
      have h' : InvL { r with itRev := c.rev } r.results := by
        refine h.step_skip c.obj ho ?_ rfl rfl rfl hrev rfl rfl rfl rfl rfl
        intro x hx hxn hxgt
        rcases hch.lt_upd hc x hx hxgt with a | a
        · rw [a] at hxn; exact absurd hxn hnn
        · omega
      have hch' : ChOK { r with itRev := c.rev } r.results cs :=
        hch.tail_upd hc rfl rfl rfl rfl (fun res hres => Or.inl hres)
      exact ih c.rev (r := { r with itRev := c.rev }) h' hch' (hskip r c cs last h hch hc hnn hq)
    · rename_i hproc
      have hstep : ∃ r1, r1 = ((if c.deleted = true then { r with itDelRev := c.rev } else { r with itRev := c.rev } : R).retryClear c.obj.id).processSingle c.obj c.rev c.deleted ∧
          InvL r1 r1.results ∧ ChOK r1 r1.results cs ∧ Q r1.v r1.results cs c.rev := by
        refine ⟨_, rfl, ?_⟩
        cases hc : c.deleted with
        | true =>
          simp only [if_true]
          obtain ⟨a, b, _, _⟩ := h.consume_del hch hc
          have hinj : (R.retryClear { r with itDelRev := c.rev } c.obj.id).injects = [] := by rw [retryClear_injects]; exact h.noinj
          obtain ⟨hv, hres⟩ := processSingle_v hinj c.obj c.rev true
          have hfail : (R.retryClear { r with itDelRev := c.rev } c.obj.id).isFailing c.obj.id = r.isFailing c.obj.id := by
            unfold R.isFailing; rw [retryClear_failing]
          rw [retryClear_v, hfail] at hv
          rw [hfail, retryClear_results] at hres
          refine ⟨a, b, hdel r _ c cs last h hch hc hv ?_ a b hq⟩
          rw [hres]; simp [resOf]
        | false =>
          have hn : needs c.obj.kind := by
            rw [hc] at hproc
            simp only [Bool.not_false, true_and, Bool.not_eq_eq_eq_not, Bool.not_true, decide_eq_false_iff_not] at hproc
            exact Classical.not_not.1 hproc
          simp only [Bool.false_eq_true, if_false]
          obtain ⟨a, b, _, _⟩ := h.consume_upd hch hc hn
          have hinj : (R.retryClear { r with itRev := c.rev } c.obj.id).injects = [] := by rw [retryClear_injects]; exact h.noinj
          obtain ⟨hv, hres⟩ := processSingle_v hinj c.obj c.rev false
          have hfail : (R.retryClear { r with itRev := c.rev } c.obj.id).isFailing c.obj.id = r.isFailing c.obj.id := by
            unfold R.isFailing; rw [retryClear_failing]
          rw [retryClear_v, hfail] at hv
          rw [hfail, retryClear_results] at hres
          exact ⟨a, b, hupd r _ c cs last h hch hc hn hv hres a b hq⟩
      obtain ⟨r1, hr1, hI, hC, hQ⟩ := hstep
      rw [← hr1]
      split
      · exact hQ
      · exact ih c.rev (r := { r1 with numReconciled := r1.numReconciled + 1 })
          (hI.congr rfl rfl rfl rfl rfl rfl rfl rfl rfl) ⟨hC.upd, hC.del, hC.sorted, hC.covO, hC.covD, hC.below⟩ hQ

/-- the state after the first status commit of a round's tail -/
def tail4 (r3 : R) : R := r3.commitStatus
/-- … after the due retries were processed (here the retry low-watermark is read) -/
def tail5 (r3 : R) : R := (tail4 r3).processRetries ((tail4 r3).items.length + 1)
/-- … after the second status commit -/
def tail6 (r3 : R) : R := (tail5 r3).commitStatus

theorem roundTail_eq (r3 : R) (last : Nat) : roundTail r3 last =
    { tail6 r3 with numReconciled := 0,
                    progressRev := if last > (tail6 r3).progressRev then last else (tail6 r3).progressRev,
                    progressLW := (tail5 r3).lowWatermark } := rfl

/-- induction over the tail of a round: status commit, due retries, status commit -/
theorem tail_ind {Q : V → List Res → Prop}
    (hdrop : ∀ (r : R) (res : Res) (rs : List Res), InvL r (res :: rs) →
      (∀ cur ∈ r.objs, cur.id = res.1.id → cur.rev ≠ res.2.2.1) → Q r.v (res :: rs) → Q r.v rs)
    (hwrite : ∀ (r r' : R) (res : Res) (rs : List Res) (cur : RObj), InvL r (res :: rs) → cur ∈ r.objs → cur.id = res.1.id →
      cur.rev = res.2.2.1 → r'.v = r.v.commit res r.nextSid → InvL r' rs → Q r.v (res :: rs) → Q r'.v rs)
    (hretry : ∀ (r r' : R) (h : Item), InvL r r.results → CaughtUp r → r.head = some h → h.retryAt ≤ r.now →
      r.numReconciled < r.cfg.roundSize →
      r'.v = (r.v.pop h.id).single h.obj h.rev h.delete (r.isFailing h.obj.id) →
      r'.results = r.results ++ resOf h.obj h.rev h.delete (r.isFailing h.obj.id) → InvL r' r'.results →
      Q r.v r.results → Q r'.v r'.results)
    {r3 : R} (hI3 : InvL r3 r3.results) (hcu3 : r3.numReconciled < r3.cfg.roundSize → CaughtUp r3) (hq : Q r3.v r3.results) :
    InvL (tail4 r3) [] ∧ (tail4 r3).results = [] ∧ Q (tail4 r3).v [] ∧
    InvL (tail5 r3) (tail5 r3).results ∧ Q (tail5 r3).v (tail5 r3).results ∧
    InvL (tail6 r3) [] ∧ Q (tail6 r3).v [] ∧
    ((tail4 r3).numReconciled < (tail4 r3).cfg.roundSize → CaughtUp (tail4 r3)) := by
  have hI4 := hI3.commitStatus
  have hQ4 : Q (tail4 r3).v [] := by
    unfold tail4; rw [commitStatus_v]; exact commit_ind hdrop hwrite r3.results hI3 hq
  obtain ⟨r4', hR4, hr4⟩ := commitStatus_rel r3
  have hres4 := commitStatus_results r3
  have hcu4 : (tail4 r3).numReconciled < (tail4 r3).cfg.roundSize → CaughtUp (tail4 r3) := by
    unfold tail4
    intro hlt
    rw [hr4] at hlt ⊢
    simp only at hlt
    rw [hR4.numReconciled, hR4.cfg] at hlt
    exact (hR4.caughtUp (hcu3 hlt)).congr rfl rfl rfl rfl
  have hI4' : InvL (tail4 r3) (tail4 r3).results := by unfold tail4; rw [hres4]; exact hI4
  have hQ4' : Q (tail4 r3).v (tail4 r3).results := by
    have : (tail4 r3).results = [] := hres4
    rw [this]; exact hQ4
  obtain ⟨hI5, _⟩ := hI4'.processRetries ((tail4 r3).items.length + 1) hcu4
  have hQ5 : Q (tail5 r3).v (tail5 r3).results := retries_ind hretry _ hI4' hcu4 hQ4'
  have hI6 := hI5.commitStatus
  have hQ6 : Q (tail6 r3).v [] := by
    unfold tail6; rw [commitStatus_v]; exact commit_ind hdrop hwrite _ hI5 hQ5
  exact ⟨hI4, hres4, hQ4, hI5, hQ5, hI6, hQ6, hcu4⟩

/-- the state of a round after its change stream was consumed -/
def round3 (r : R) : R :=
  { (r.nextChanges.1.consume r.nextChanges.2 0).1 with
      pending := if r.nextChanges.2.isEmpty ∧ (r.nextChanges.1.consume r.nextChanges.2 0).1.pending.isNone then none else
        if ((r.nextChanges.1.consume r.nextChanges.2 0).2.1.isEmpty ∧
            (r.nextChanges.1.consume r.nextChanges.2 0).1.numReconciled < (r.nextChanges.1.consume r.nextChanges.2 0).1.cfg.roundSize) then none
        else some (r.nextChanges.1.consume r.nextChanges.2 0).2.1 }
/-- the part of the change stream the round left for the next one -/
def roundRest (r : R) : List Change := (r.nextChanges.1.consume r.nextChanges.2 0).2.1
/-- the revision of the last change the round consumed (0: none) -/
def roundLast (r : R) : Nat := (r.nextChanges.1.consume r.nextChanges.2 0).2.2

theorem round_eq3 (r : R) : r.round = roundTail (round3 r) (roundLast r) := rfl

theorem nextChanges_v (r : R) : r.nextChanges.1.v = r.v := by
  rcases nextChanges_fst r with e | e <;> rw [e] <;> rfl

/-- induction over the first half of a round -/
theorem round_ind {K : V → List Res → List Change → Nat → Prop}
    (hskip : ∀ (r : R) (c : Change) (cs : List Change) (last : Nat), InvL r r.results → ChOK r r.results (c :: cs) →
      c.deleted = false → ¬ needs c.obj.kind → K r.v r.results (c :: cs) last →
      K { r.v with itRev := c.rev } r.results cs c.rev)
    (hupd : ∀ (r r' : R) (c : Change) (cs : List Change) (last : Nat), InvL r r.results → ChOK r r.results (c :: cs) →
      c.deleted = false → needs c.obj.kind →
      r'.v = (({ r.v with itRev := c.rev } : V).clear c.obj.id).single c.obj c.rev false (r.isFailing c.obj.id) →
      r'.results = r.results ++ resOf c.obj c.rev false (r.isFailing c.obj.id) → InvL r' r'.results → ChOK r' r'.results cs →
      K r.v r.results (c :: cs) last → K r'.v r'.results cs c.rev)
    (hdel : ∀ (r r' : R) (c : Change) (cs : List Change) (last : Nat), InvL r r.results → ChOK r r.results (c :: cs) →
      c.deleted = true →
      r'.v = (({ r.v with itDelRev := c.rev } : V).clear c.obj.id).single c.obj c.rev true (r.isFailing c.obj.id) →
      r'.results = r.results → InvL r' r'.results → ChOK r' r'.results cs →
      K r.v r.results (c :: cs) last → K r'.v r'.results cs c.rev)
    {r : R} (h : RInv r) (h0 : K r.v [] r.nextChanges.2 0) :
    InvL (round3 r) (round3 r).results ∧ ((round3 r).numReconciled < (round3 r).cfg.roundSize → CaughtUp (round3 r)) ∧
    K (round3 r).v (round3 r).results (roundRest r) (roundLast r) := by
  unfold round3 roundRest roundLast
  have hnc : InvL r.nextChanges.1 r.nextChanges.1.results ∧ r.nextChanges.1.results = [] := by
    rcases nextChanges_fst r with e | e <;> rw [e]
    · exact ⟨InvL.cast_results h.res h.inv, h.res⟩
    · exact ⟨InvL.cast_results h.res (h.inv.set_refreshedAt _ (Nat.le_refl _)), h.res⟩
  have hch := chOK_nextChanges h.inv.tinv h.sync
  have hv := nextChanges_v r
  generalize r.nextChanges = nc at hnc hch hv h0 ⊢
  obtain ⟨hI1, hres1⟩ := hnc
  rw [← hres1] at hch
  have h0' : K nc.1.v nc.1.results nc.2 0 := by rw [hv, hres1]; exact h0
  obtain ⟨hI2, hC2, hF2, hfull⟩ := hI1.consume nc.2 0 hch
  have hK := consume_ind hskip hupd hdel nc.2 0 hI1 hch h0'
  generalize nc.1.consume nc.2 0 = co at hI2 hC2 hF2 hfull hK ⊢
  refine ⟨hI2.congr rfl rfl rfl rfl rfl rfl rfl rfl rfl, ?_, hK⟩
  intro hlt
  have hr := hfull hlt
  refine ⟨fun o ho _ => ?_, fun d hd => ?_⟩
  · rcases hC2.covO o ho with a | ⟨c, hc, _⟩
    · exact a
    · rw [hr] at hc; cases hc
  · rcases hC2.covD d hd with a | ⟨c, hc, _⟩
    · exact a
    · rw [hr] at hc; cases hc

end Sdb.Rec
