import SdbModel.Lemmas.ReconcilerInject

/-!
  Lemmas.ReconcilerInjectStep — preservation of the bookkeeping invariant `JInv`
  (writes may land during Updates) by the individual steps of a reconciliation
  round, stated over the fields of the state the step produces.  The change
  processed may be STALE: the object was rewritten, deleted or re-created by a
  write that landed during an earlier Update of the same round.
-/
namespace Sdb.Rec

theorem TInv.move {r r' : R} (h : TInv r) (h1 : r'.objs = r.objs) (h2 : r'.dels = r.dels) (h3 : r'.tableRev = r.tableRev)
    (h4 : r'.itRev ≤ r.tableRev) (h5 : r'.itDelRev ≤ r.tableRev) (h6 : r'.refreshedAt = r.refreshedAt) : TInv r' := by
  obtain ⟨a, b, c, d, e, f, g, i⟩ := h
  constructor <;> simp only [h1, h2, h3, h6] <;> assumption

/-- the iterator passes an object that needs no processing (`v` its revision) -/
theorem JInv.step_skip {r r' : R} {rs : List Res} (h : JInv r rs) (v : Nat) (hv : v ≤ r.tableRev)
    (hlt : ∀ x ∈ r.objs, needs x.kind → x.rev > r.itRev → x.rev > v)
    (h1 : r'.objs = r.objs) (h2 : r'.dels = r.dels) (h3 : r'.tableRev = r.tableRev)
    (h4 : r'.itRev = v) (h5 : r'.itDelRev = r.itDelRev) (h6 : r'.refreshedAt = r.refreshedAt)
    (h7 : r'.items = r.items) (h8 : r'.log = r.log) (h9 : r'.nextSid = r.nextSid) : JInv r' rs := by
  have hst : ∀ X, Stale r.objs r.dels r.itRev r.itDelRev X → Stale r.objs r.dels v r.itDelRev X := by
    rintro X (⟨x, hx, b1, b2, b3⟩ | b)
    · exact Or.inl ⟨x, hx, b1, hlt x hx b3 b2, b3⟩
    · exact Or.inr b
  refine ⟨h.tinv.move h1 h2 h3 (by omega) (by rw [h5]; exact h.tinv.itd_le) h6, ?_, ?_, ?_, ?_, ?_, ?_⟩
  · rw [h7]; exact h.items_pw
  · rw [h1, h7, h8, h4]
    intro x hx
    obtain ⟨a, b, c⟩ := h.objOK x hx
    refine ⟨a, b, fun hn => ?_⟩
    rcases c hn with c | c
    · exact Or.inl (hlt x hx hn c)
    · exact Or.inr c
  · rw [h2, h7, h8, h5]; exact h.delOK
  · rw [h1, h2, h7, h4, h5, h3, h9]
    intro it hit
    obtain ⟨a, b, c, d⟩ := h.itemOK it hit
    refine ⟨a, ?_, fun hq => ?_, d⟩
    · rcases b with b | b
      · exact Or.inl (hst _ b)
      · exact Or.inr b
    · rcases c hq with c | c
      · exact Or.inl (hst _ c)
      · exact Or.inr c
  · rw [h1, h7, h8, h3, h9]; exact h.resOK
  · rw [h1, h9]; exact h.sidO

/-- the incremental loop processes a change of a live object: Update is called
    with the version `obj` of the round's snapshot, the result is remembered for
    `commitStatus`.  The current object either is `obj` or was written after the
    snapshot (still to be processed, and if it carries the same pending id it has
    the same data: only a foreign field changed). -/
theorem JInv.step_update {r r' : R} {rs : List Res} (h : JInv r rs) (obj : RObj) (f : Bool)
    (hn : needs obj.kind) (hgt : obj.rev > r.itRev) (hle : obj.rev ≤ r.tableRev) (hsid : obj.sid < r.nextSid)
    (hcur : ∀ cur ∈ r.objs, cur.id = obj.id → cur = obj ∨
      (obj.rev < cur.rev ∧ needs cur.kind ∧ (cur.kind = .pending → cur.sid = obj.sid → cur.data = obj.data)))
    (hdel : ∀ d ∈ r.dels, d.1.id = obj.id → d.2 > r.itDelRev)
    (hrs : ∀ res ∈ rs, res.1.id ≠ obj.id)
    (hlt : ∀ x ∈ r.objs, needs x.kind → x.rev > r.itRev → x = obj ∨ x.rev > obj.rev)
    (h1 : r'.objs = r.objs) (h2 : r'.dels = r.dels) (h3 : r'.tableRev = r.tableRev)
    (h4 : r'.itRev = obj.rev) (h5 : r'.itDelRev = r.itDelRev) (h6 : r'.refreshedAt = r.refreshedAt)
    (h7 : r'.items = r.items.filter (·.id ≠ obj.id)) (h8 : r'.log = r.log ++ [⟨"U", obj.id, obj.data, !f⟩])
    (h9 : r'.nextSid = r.nextSid) : JInv r' (rs ++ [(obj, obj, obj.rev, obj.sid, f)]) := by
  have hkd : ∀ k, needs k → k ≠ SKind.done ∧ k ≠ SKind.error := by
    intro k hk; rcases hk with e | e <;> simp [e]
  have hst : ∀ X, X ≠ obj.id → Stale r.objs r.dels r.itRev r.itDelRev X → Stale r.objs r.dels obj.rev r.itDelRev X := by
    rintro X hX (⟨x, hx, b1, b2, b3⟩ | b)
    · rcases hlt x hx b3 b2 with e | e
      · subst e; exact absurd b1 hX.symm
      · exact Or.inl ⟨x, hx, b1, e, b3⟩
    · exact Or.inr b
  have hself : (obj, obj, obj.rev, obj.sid, f) ∈ rs ++ [(obj, obj, obj.rev, obj.sid, f)] :=
    List.mem_append_right _ (List.mem_singleton.2 rfl)
  refine ⟨h.tinv.move h1 h2 h3 (by omega) (by rw [h5]; exact h.tinv.itd_le) h6, ?_, ?_, ?_, ?_, ?_, ?_⟩
  · rw [h7]; exact h.items_pw.filter _
  · rw [h1, h7, h8, h4]
    intro x hx
    by_cases hid : x.id = obj.id
    · have hxn : needs x.kind := by
        rcases hcur x hx hid with e | e
        · rw [e]; exact hn
        · exact e.2.1
      refine ⟨fun e => absurd e (hkd _ hxn).1, fun e => absurd e (hkd _ hxn).2, fun _ => ?_⟩
      rcases hcur x hx hid with e | e
      · exact Or.inr ⟨_, hself, by rw [e], by rw [e]⟩
      · exact Or.inl e.1
    · obtain ⟨a, b, c⟩ := h.objOK x hx
      refine ⟨fun e => ?_, fun e => ?_, fun e => ?_⟩
      · obtain ⟨a1, a2⟩ := a e
        refine ⟨?_, fun it hit => a2 it (List.mem_filter.1 hit).1⟩
        rw [lastCall_append_other _ _ _ (by simp only; omega)]; exact a1
      · rcases b e with ⟨it, hit, b1, b2⟩ | b
        · exact Or.inl ⟨it, List.mem_filter.2 ⟨hit, by simp; omega⟩, b1, b2⟩
        · exact Or.inr (b.append _)
      · rcases c e with c | c
        · rcases hlt x hx e c with e' | e'
          · rw [e'] at hid; exact absurd rfl hid
          · exact Or.inl e'
        · exact Or.inr (c.append _)
  · rw [h2, h7, h8, h5]
    intro d hd
    by_cases hid : d.1.id = obj.id
    · exact Or.inl (hdel d hd hid)
    · rcases h.delOK d hd with a | ⟨it, hit, b1, b2⟩ | ⟨⟨c, c1, c2⟩, c3⟩
      · exact Or.inl a
      · exact Or.inr (Or.inl ⟨it, List.mem_filter.2 ⟨hit, by simp; omega⟩, b1, b2⟩)
      · refine Or.inr (Or.inr ⟨⟨c, ?_, c2⟩, fun it hit => c3 it (List.mem_filter.1 hit).1⟩)
        rw [lastCall_append_other _ _ _ (by simp only; omega)]; exact c1
  · rw [h1, h2, h7, h4, h5, h3, h9]
    intro it hit
    obtain ⟨hit, hid⟩ := List.mem_filter.1 hit
    simp only [ne_eq, decide_not, Bool.not_eq_eq_eq_not, Bool.not_true, decide_eq_false_iff_not] at hid
    obtain ⟨a, b, c, d⟩ := h.itemOK it hit
    refine ⟨a, ?_, fun hq => ?_, d⟩
    · rcases b with b | b
      · exact Or.inl (hst _ hid b)
      · exact Or.inr b
    · rcases c hq with c | ⟨c1, c2, res, hres, c3⟩
      · exact Or.inl (hst _ hid c)
      · exact Or.inr ⟨c1, c2, res, List.mem_append_left _ hres, c3⟩
  · rw [h1, h7, h8, h3, h9]
    intro res hres
    rcases List.mem_append.1 hres with hres' | hres'
    · obtain ⟨a1, a2, a3, a4, a5⟩ := h.resOK res hres'
      have hid := hrs res hres'
      refine ⟨a1, a2, a3, a4, fun cur hcur hcid hlive => ?_⟩
      obtain ⟨b1, b2, b3, b4⟩ := a5 cur hcur hcid hlive
      refine ⟨b1, b2, ?_, fun it hit hi => b4 it (List.mem_filter.1 hit).1 hi⟩
      rw [lastCall_append_other _ _ _ (by simp only; omega)]; exact b3
    · simp only [List.mem_singleton] at hres'
      subst hres'
      refine ⟨rfl, rfl, hle, hsid, fun cur hcm hcid hlive => ?_⟩
      have hitems : ∀ it ∈ r.items.filter (·.id ≠ obj.id), it.id = obj.id → it.inQueue = false ∧ f = true := by
        intro it hit hi
        have := (List.mem_filter.1 hit).2
        simp at this
        exact absurd hi this
      rcases hcur cur hcm hcid with e | ⟨e1, e2, e3⟩
      · subst e
        exact ⟨rfl, fun _ => rfl, lastCall_append_self _ ⟨"U", cur.id, cur.data, !f⟩, hitems⟩
      · rcases hlive with e | ⟨e4, e5⟩
        · simp only at e; omega
        · exact ⟨e3 e4 e5, fun e => by simp only at e; omega, lastCall_append_self _ ⟨"U", obj.id, obj.data, !f⟩, hitems⟩
  · rw [h1, h9]; exact h.sidO

/-- a Delete is called for the object id `X` (from the change stream, `v` the
    deletion's revision, or from the retry queue, `v` the unchanged position).
    The deletion may be stale: `X` may have been re-created meanwhile. -/
theorem JInv.step_delete {r r' : R} {rs : List Res} (h : JInv r rs) (X : Nat) (f : Bool) (v : Nat) (c : Call)
    (tail : List Item) (_hv1 : r.itDelRev ≤ v) (hvt : v ≤ r.tableRev)
    (hlt : ∀ x ∈ r.dels, x.2 > r.itDelRev → x.1.id = X ∨ x.2 > v)
    (hlive : ∀ cur ∈ r.objs, cur.id = X → needs cur.kind)
    (hrs : ∀ res ∈ rs, res.1.id = X → ∀ cur ∈ r.objs, cur.id = X → ¬ ResLive res cur)
    (hc : c.id = X ∧ c.op = "D" ∧ c.ok = !f)
    (ht : ∀ it ∈ tail, it.id = X ∧ it.obj.id = X ∧ it.delete = true ∧ it.inQueue = true)
    (htp : tail.Pairwise (fun a b => a.id ≠ b.id)) (htf : f = true → tail ≠ []) (htn : f = false → tail = [])
    (hjust : f = true → Stale r.objs r.dels r.itRev v X ∨ ∃ d ∈ r.dels, d.1.id = X)
    (h1 : r'.objs = r.objs) (h2 : r'.dels = r.dels) (h3 : r'.tableRev = r.tableRev)
    (h4 : r'.itRev = r.itRev) (h5 : r'.itDelRev = v) (h6 : r'.refreshedAt = r.refreshedAt)
    (h7 : r'.items = r.items.filter (·.id ≠ X) ++ tail) (h8 : r'.log = r.log ++ [c])
    (h9 : r'.nextSid = r.nextSid) : JInv r' rs := by
  have hkd : ∀ k, needs k → k ≠ SKind.done ∧ k ≠ SKind.error := by
    intro k hk; rcases hk with e | e <;> simp [e]
  have hmem : ∀ it : Item, it.id ≠ X → (it ∈ r.items.filter (·.id ≠ X) ++ tail ↔ it ∈ r.items) := by
    intro it hid
    simp only [List.mem_append, List.mem_filter]
    constructor
    · rintro (⟨a, _⟩ | a)
      · exact a
      · exact absurd (ht it a).1 hid
    · intro a; exact Or.inl ⟨a, by simpa using hid⟩
  have hst : ∀ Y, Y ≠ X → Stale r.objs r.dels r.itRev r.itDelRev Y → Stale r.objs r.dels r.itRev v Y := by
    rintro Y hY (b | ⟨x, hx, b1, b2⟩)
    · exact Or.inl b
    · rcases hlt x hx b2 with e | e
      · exact absurd (b1.symm.trans e) hY
      · exact Or.inr ⟨x, hx, b1, e⟩
  refine ⟨h.tinv.move h1 h2 h3 (by rw [h4]; exact h.tinv.it_le) (by omega) h6, ?_, ?_, ?_, ?_, ?_, ?_⟩
  · rw [h7, List.pairwise_append]
    refine ⟨h.items_pw.filter _, htp, fun a ha b hb => ?_⟩
    have := (List.mem_filter.1 ha).2
    simp only [ne_eq, decide_not, Bool.not_eq_eq_eq_not, Bool.not_true, decide_eq_false_iff_not] at this
    rw [(ht b hb).1]; exact this
  · rw [h1, h7, h8, h4]
    intro x hx
    obtain ⟨a, b, c'⟩ := h.objOK x hx
    by_cases hid : x.id = X
    · have hxn := hlive x hx hid
      exact ⟨fun e => absurd e (hkd _ hxn).1, fun e => absurd e (hkd _ hxn).2, c'⟩
    · refine ⟨fun e => ?_, fun e => ?_, c'⟩
      · obtain ⟨a1, a2⟩ := a e
        refine ⟨?_, fun it hit => ?_⟩
        · rw [lastCall_append_other _ _ _ (by omega)]; exact a1
        · by_cases hi : it.id = X
          · omega
          · exact a2 it ((hmem it hi).1 hit)
      · rcases b e with ⟨it, hit, b1, b2⟩ | b
        · exact Or.inl ⟨it, (hmem it (by omega)).2 hit, b1, b2⟩
        · exact Or.inr b
  · rw [h2, h7, h8, h5]
    intro x hx
    by_cases hid : x.1.id = X
    · cases f with
      | true =>
        obtain ⟨it, tl, htl⟩ := List.exists_cons_of_ne_nil (htf rfl)
        have hit : it ∈ tail := by rw [htl]; exact List.mem_cons_self ..
        exact Or.inr (Or.inl ⟨it, List.mem_append_right _ hit, by rw [(ht it hit).1, hid], (ht it hit).2.2⟩)
      | false =>
        refine Or.inr (Or.inr ⟨⟨c, ?_, hc.2.1, by simpa using hc.2.2⟩, fun it hit => ?_⟩)
        · rw [hid, ← hc.1]; exact lastCall_append_self _ _
        · rw [htn rfl, List.append_nil] at hit
          rw [hid]
          simpa using (List.mem_filter.1 hit).2
    · rcases h.delOK x hx with a | ⟨it, hit, b1, b2⟩ | ⟨⟨c', c1, c2⟩, c3⟩
      · rcases hlt x hx a with e | e
        · exact absurd e hid
        · exact Or.inl e
      · exact Or.inr (Or.inl ⟨it, (hmem it (by omega)).2 hit, b1, b2⟩)
      · refine Or.inr (Or.inr ⟨⟨c', ?_, c2⟩, fun it hit => ?_⟩)
        · rw [lastCall_append_other _ _ _ (by omega)]; exact c1
        · by_cases hi : it.id = X
          · omega
          · exact c3 it ((hmem it hi).1 hit)
  · rw [h1, h2, h7, h4, h5, h3, h9]
    intro it hit
    by_cases hi : it.id = X
    · rcases List.mem_append.1 hit with hit' | hit'
      · have := (List.mem_filter.1 hit').2
        simp only [ne_eq, decide_not, Bool.not_eq_eq_eq_not, Bool.not_true, decide_eq_false_iff_not] at this
        exact absurd hi this
      · obtain ⟨t1, t2, t3, t4⟩ := ht it hit'
        have hf : f = true := by
          cases f with
          | true => rfl
          | false => rw [htn rfl] at hit'; cases hit'
        refine ⟨by omega, ?_, fun hq => ?_, fun hd => ?_⟩
        · rcases hjust hf with a | a
          · exact Or.inl (by rw [hi]; exact a)
          · exact Or.inr (Or.inl ⟨t3, by rw [hi]; exact a⟩)
        · rw [t4] at hq; cases hq
        · rw [t3] at hd; cases hd
    · obtain ⟨a, b, c', d⟩ := h.itemOK it ((hmem it hi).1 hit)
      refine ⟨a, ?_, fun hq => ?_, d⟩
      · rcases b with b | b
        · exact Or.inl (hst _ hi b)
        · exact Or.inr b
      · rcases c' hq with c' | c'
        · exact Or.inl (hst _ hi c')
        · exact Or.inr c'
  · rw [h1, h7, h8, h3, h9]
    intro res hres
    obtain ⟨a1, a2, a3, a4, a5⟩ := h.resOK res hres
    refine ⟨a1, a2, a3, a4, fun cur hcur hcid hlive' => ?_⟩
    by_cases hid : res.1.id = X
    · exact absurd hlive' (hrs res hres hid cur hcur (by omega))
    · obtain ⟨b1, b2, b3, b4⟩ := a5 cur hcur hcid hlive'
      refine ⟨b1, b2, ?_, fun it hit hi => b4 it ((hmem it (by omega)).1 hit) hi⟩
      rw [lastCall_append_other _ _ _ (by omega)]; exact b3
  · rw [h1, h9]; exact h.sidO

/-- a due retry of an Update is processed: Update is called with the queued
    object, the result is remembered for `commitStatus`; on failure the item
    stays in the map, out of the time queue.  The object may have changed since
    the retry was queued (then the result will be dropped). -/
theorem JInv.step_retry_update {r r' : R} {rs : List Res} (h : JInv r rs) (it0 : Item) (f : Bool)
    (hit0 : it0 ∈ r.items) (hq0 : it0.inQueue = true) (hdel0 : it0.delete = false)
    (hm1 : ∀ it ∈ r'.items, (it ∈ r.items ∧ it.id ≠ it0.id) ∨ (f = true ∧ it = { it0 with inQueue := false }))
    (hm2 : ∀ it ∈ r.items, it.id ≠ it0.id → it ∈ r'.items)
    (hpw : r'.items.Pairwise (fun a b => a.id ≠ b.id))
    (h1 : r'.objs = r.objs) (h2 : r'.dels = r.dels) (h3 : r'.tableRev = r.tableRev)
    (h4 : r'.itRev = r.itRev) (h5 : r'.itDelRev = r.itDelRev) (h6 : r'.refreshedAt = r.refreshedAt)
    (h8 : r'.log = r.log ++ [⟨"U", it0.obj.id, it0.obj.data, !f⟩])
    (h9 : r'.nextSid = r.nextSid) : JInv r' (rs ++ [(it0.obj, it0.obj, it0.rev, it0.obj.sid, f)]) := by
  obtain ⟨hobj, hjust, _, h4th⟩ := h.itemOK it0 hit0
  obtain ⟨hrevle, hsid0, hcurs⟩ := h4th hdel0
  have huniq : ∀ it ∈ r.items, it.id = it0.id → it = it0 := by
    intro it hit hid
    rcases pairwise_mem_eq h.items_pw hit hit0 with e | e | e
    · exact e
    · exact absurd hid e
    · exact absurd hid.symm e
  -- no older result for this object still applies
  have hnores : ∀ res ∈ rs, res.1.id = it0.id → ∀ cur ∈ r.objs, cur.id = it0.id → ¬ ResLive res cur := by
    intro res hres hid cur hcur hcid hlive
    have := ((h.resOK res hres).2.2.2.2 cur hcur (by omega) hlive).2.2.2 it0 hit0 hid.symm
    rw [hq0] at this; cases this.1
  have hself : (it0.obj, it0.obj, it0.rev, it0.obj.sid, f) ∈ rs ++ [(it0.obj, it0.obj, it0.rev, it0.obj.sid, f)] :=
    List.mem_append_right _ (List.mem_singleton.2 rfl)
  refine ⟨h.tinv.congr h1 h2 h3 h4 h5 h6, hpw, ?_, ?_, ?_, ?_, ?_⟩
  · rw [h1, h8, h4]
    intro x hx
    obtain ⟨a, b, c⟩ := h.objOK x hx
    by_cases hid : x.id = it0.id
    · refine ⟨fun e => absurd hid.symm ((a e).2 it0 hit0), fun e => ?_, fun e => ?_⟩
      · right
        rcases b e with ⟨it, hit, b1, b2, b3, b4⟩ | b
        · have := huniq it hit (by omega)
          subst this
          exact ⟨_, hself, by simp only; omega, by simp only; omega⟩
        · exact b.append _
      · rcases c e with c | c
        · exact Or.inl c
        · exact Or.inr (c.append _)
    · refine ⟨fun e => ?_, fun e => ?_, fun e => ?_⟩
      · obtain ⟨a1, a2⟩ := a e
        refine ⟨?_, fun it hit => ?_⟩
        · rw [lastCall_append_other _ _ _ (by simp only; omega)]; exact a1
        · rcases hm1 it hit with ⟨m, _⟩ | ⟨_, m⟩
          · exact a2 it m
          · rw [m]; simp only; omega
      · rcases b e with ⟨it, hit, b1, b2⟩ | b
        · exact Or.inl ⟨it, hm2 it hit (by omega), b1, b2⟩
        · exact Or.inr (b.append _)
      · rcases c e with c | c
        · exact Or.inl c
        · exact Or.inr (c.append _)
  · rw [h2, h8, h5]
    intro d hd
    by_cases hid : d.1.id = it0.id
    · rcases h.delOK d hd with a | ⟨it, hit, b1, b2, _⟩ | ⟨_, c3⟩
      · exact Or.inl a
      · have := huniq it hit (by omega)
        subst this
        rw [hdel0] at b2; cases b2
      · exact absurd hid.symm (c3 it0 hit0)
    · rcases h.delOK d hd with a | ⟨it, hit, b1, b2⟩ | ⟨⟨c, c1, c2⟩, c3⟩
      · exact Or.inl a
      · exact Or.inr (Or.inl ⟨it, hm2 it hit (by omega), b1, b2⟩)
      · refine Or.inr (Or.inr ⟨⟨c, ?_, c2⟩, fun it hit => ?_⟩)
        · rw [lastCall_append_other _ _ _ (by simp only; omega)]; exact c1
        · rcases hm1 it hit with ⟨m, _⟩ | ⟨_, m⟩
          · exact c3 it m
          · rw [m]; simp only; omega
  · rw [h1, h2, h4, h5, h3, h9]
    intro it hit
    rcases hm1 it hit with ⟨m, hid⟩ | ⟨hf, m⟩
    · obtain ⟨a, b, c, d⟩ := h.itemOK it m
      refine ⟨a, b, fun hq => ?_, d⟩
      rcases c hq with c | ⟨c1, c2, res, hres, c3⟩
      · exact Or.inl c
      · exact Or.inr ⟨c1, c2, res, List.mem_append_left _ hres, c3⟩
    · subst m
      refine ⟨hobj, hjust, fun _ => ?_, h4th⟩
      rcases hjust with a | a | a
      · exact Or.inl a
      · rw [hdel0] at a; cases a.1
      · exact Or.inr ⟨hdel0, a.2, _, hself, hobj, rfl, hf⟩
  · rw [h1, h8, h3, h9]
    intro res hres
    rcases List.mem_append.1 hres with hres' | hres'
    · obtain ⟨a1, a2, a3, a4, a5⟩ := h.resOK res hres'
      refine ⟨a1, a2, a3, a4, fun cur hcur hcid hlive => ?_⟩
      by_cases hid : res.1.id = it0.id
      · exact absurd hlive (hnores res hres' hid cur hcur (by omega))
      · obtain ⟨b1, b2, b3, b4⟩ := a5 cur hcur hcid hlive
        refine ⟨b1, b2, ?_, fun it hit hi => ?_⟩
        · rw [lastCall_append_other _ _ _ (by simp only; omega)]; exact b3
        · rcases hm1 it hit with ⟨m, _⟩ | ⟨_, m⟩
          · exact b4 it m hi
          · rw [m] at hi; simp only at hi; omega
    · simp only [List.mem_singleton] at hres'
      subst hres'
      refine ⟨rfl, rfl, hrevle, hsid0, fun cur hcur hcid hlive => ?_⟩
      simp only at hcid hlive
      have hitems : ∀ it ∈ r'.items, it.id = it0.obj.id → it.inQueue = false ∧ f = true := by
        intro it hit hi
        rcases hm1 it hit with ⟨_, m⟩ | ⟨hf, m⟩
        · omega
        · rw [m]; exact ⟨rfl, hf⟩
      rcases hcurs cur hcur (by omega) with ⟨e1, e2, e3, e4⟩ | ⟨e1, e2⟩
      · exact ⟨e3, fun _ => e4, lastCall_append_self _ ⟨"U", it0.obj.id, it0.obj.data, !f⟩, hitems⟩
      · exfalso
        rcases hlive with e | ⟨e3, e4⟩
        · simp only at e; omega
        · exact e2 e3 e4
  · rw [h1, h9]; exact h.sidO

/-- a result that does not apply to the current object any more is dropped -/
theorem JInv.drop_res {r : R} {res : Res} {rs : List Res} (h : JInv r (res :: rs))
    (hne : ∀ cur ∈ r.objs, cur.id = res.1.id → ¬ ResLive res cur) : JInv r rs := by
  have hhas : ∀ x ∈ r.objs, HasRes (res :: rs) x → HasRes rs x := by
    rintro x hx ⟨res', hr, e1, e2⟩
    rcases List.mem_cons.1 hr with rfl | hr
    · exact absurd (Or.inl e2.symm) (hne x hx e1.symm)
    · exact ⟨res', hr, e1, e2⟩
  refine ⟨h.tinv, h.items_pw, ?_, h.delOK, ?_, fun res' hr => h.resOK res' (List.mem_cons_of_mem _ hr), h.sidO⟩
  · intro x hx
    obtain ⟨a, b, c⟩ := h.objOK x hx
    refine ⟨a, fun e => ?_, fun e => ?_⟩
    · rcases b e with b | b
      · exact Or.inl b
      · exact Or.inr (hhas x hx b)
    · rcases c e with c | c
      · exact Or.inl c
      · exact Or.inr (hhas x hx c)
  · intro it hit
    obtain ⟨a, b, c, d⟩ := h.itemOK it hit
    refine ⟨a, b, fun hq => ?_, d⟩
    rcases c hq with c | ⟨c1, ⟨x, hx, x1, x2, x3⟩, res', hr, e1, e2, e3⟩
    · exact Or.inl c
    · refine Or.inr ⟨c1, ⟨x, hx, x1, x2, x3⟩, res', ?_, e1, e2, e3⟩
      rcases List.mem_cons.1 hr with rfl | hr
      · exact absurd (Or.inl (by omega)) (hne x hx (by omega))
      · exact hr

/-- the status of the version that was reconciled is written back: Done, or
    Error together with a fresh retry item.  `base` is the object the status is
    written onto: the clone passed to Update when the revision is unchanged, the
    CURRENT object when only a foreign field changed. -/
theorem JInv.step_commit {r r' : R} {res : Res} {rs : List Res} (h : JInv r (res :: rs)) (cur base : RObj)
    (hcur : cur ∈ r.objs) (hcid : cur.id = res.1.id) (hlive : ResLive res cur)
    (hbase : base.id = cur.id ∧ base.data = cur.data ∧ base.other = cur.other ∧ base.sid < r.nextSid) (itn : Item)
    (hitn : itn.id = base.id ∧ itn.obj = base ∧ itn.rev = r.tableRev + 1 ∧ itn.delete = false ∧ itn.inQueue = true)
    (h1 : r'.objs = (r.setObj { base with kind := if res.2.2.2.2 then .error else .done, sid := r.nextSid }).objs)
    (h2 : r'.dels = (r.setObj { base with kind := if res.2.2.2.2 then .error else .done, sid := r.nextSid }).dels)
    (h3 : r'.tableRev = r.tableRev + 1)
    (h4 : r'.itRev = r.itRev) (h5 : r'.itDelRev = r.itDelRev) (h6 : r'.refreshedAt = r.refreshedAt)
    (h7 : r'.items = if res.2.2.2.2 then r.items.filter (·.id ≠ base.id) ++ [itn] else r.items)
    (h8 : r'.log = r.log) (h9 : r'.nextSid = r.nextSid + 1) : JInv r' rs := by
  obtain ⟨obj, orig, rev, sid0, f⟩ := res
  simp only at hcid hitn h1 h2 h7
  obtain ⟨_, _, hrevle, _, hlv⟩ := h.resOK _ (List.mem_cons_self ..)
  simp only at hrevle hlv
  obtain ⟨hdata, _, hlast, hitems⟩ := hlv cur hcur hcid hlive
  obtain ⟨hbid, hbdata, hbother, hbsid⟩ := hbase
  have hX : base.id = obj.id := by omega
  generalize hod : ({ base with kind := if f then SKind.error else SKind.done, sid := r.nextSid } : RObj) = o' at h1 h2
  have ho'id : o'.id = obj.id := by rw [← hod]; exact hX
  have ho'data : o'.data = obj.data := by rw [← hod]; simp only; omega
  have ho'kind : o'.kind = if f then SKind.error else SKind.done := by rw [← hod]
  have hmemo : ∀ it : Item, it.id ≠ obj.id → (it ∈ r'.items ↔ it ∈ r.items) := by
    intro it hid
    rw [h7]
    split
    · simp only [List.mem_append, List.mem_filter, List.mem_singleton]
      constructor
      · rintro (⟨a, _⟩ | a)
        · exact a
        · rw [a, hitn.1] at hid; omega
      · intro a; exact Or.inl ⟨a, by simp; omega⟩
    · rfl
  have hmemx : ∀ it ∈ r'.items, it.id = obj.id → f = true ∧ it = itn := by
    intro it hit hid
    rw [h7] at hit
    split at hit
    · rename_i hf
      simp only [List.mem_append, List.mem_filter, List.mem_singleton] at hit
      rcases hit with ⟨_, a⟩ | a
      · simp at a; omega
      · exact ⟨hf, a⟩
    · exact absurd (hitems it hit hid).2 (by assumption)
  have hhas : ∀ x, x.id ≠ obj.id → HasRes ((obj, orig, rev, sid0, f) :: rs) x → HasRes rs x := by
    rintro x hx ⟨res', hr, e1, e2⟩
    rcases List.mem_cons.1 hr with rfl | hr
    · exact absurd e1.symm hx
    · exact ⟨res', hr, e1, e2⟩
  have hnew : ({ o' with rev := r.tableRev + 1 } : RObj) ∈ (r.setObj o').objs := (mem_setObj_objs ..).2 (Or.inr rfl)
  refine ⟨?_, ?_, ?_, ?_, ?_, ?_, ?_⟩
  · exact (h.tinv.setObj o').congr h1 h2 h3 h4 h5 h6
  · rw [h7]
    split
    · rw [List.pairwise_append]
      refine ⟨h.items_pw.filter _, by simp, fun a ha b hb => ?_⟩
      have := (List.mem_filter.1 ha).2
      simp only [List.mem_singleton] at hb
      rw [hb, hitn.1]; simpa using this
    · exact h.items_pw
  · rw [h1, h8, h4]
    intro x hx
    rw [mem_setObj_objs] at hx
    rcases hx with ⟨hx, hid⟩ | rfl
    · rw [ho'id] at hid
      obtain ⟨a, b, c⟩ := h.objOK x hx
      refine ⟨fun e => ?_, fun e => ?_, fun e => ?_⟩
      · obtain ⟨a1, a2⟩ := a e
        refine ⟨a1, fun it hit => ?_⟩
        by_cases hi : it.id = obj.id
        · omega
        · exact a2 it ((hmemo it hi).1 hit)
      · rcases b e with ⟨it, hit, b1, b2⟩ | b
        · exact Or.inl ⟨it, (hmemo it (by omega)).2 hit, b1, b2⟩
        · exact Or.inr (hhas x hid b)
      · rcases c e with c | c
        · exact Or.inl c
        · exact Or.inr (hhas x hid c)
    · cases f with
      | false =>
        refine ⟨fun _ => ⟨?_, fun it hit hi => ?_⟩, fun e => ?_, fun e => ?_⟩
        · show lastCall r.log o'.id = some ⟨"U", o'.id, o'.data, true⟩
          rw [ho'id, ho'data]; simpa using hlast
        · have hi' : it.id = obj.id := by
            have : it.id = o'.id := hi
            rw [ho'id] at this; exact this
          have := (hmemx it hit hi').1; cases this
        · have e' : o'.kind = .error := e
          rw [ho'kind] at e'; simp at e'
        · have e' : needs o'.kind := e
          rw [ho'kind] at e'; simp [needs] at e'
      | true =>
        refine ⟨fun e => ?_, fun _ => Or.inl ⟨itn, ?_, ?_, hitn.2.2.2.1, hitn.2.2.1, hitn.2.2.2.2⟩, fun e => ?_⟩
        · have e' : o'.kind = .done := e
          rw [ho'kind] at e'; simp at e'
        · rw [h7]; simp
        · show itn.id = o'.id
          rw [ho'id]; omega
        · have e' : needs o'.kind := e
          rw [ho'kind] at e'; simp [needs] at e'
  · rw [h2, h8, h5]
    intro d hd
    simp only [setObj_dels, List.mem_filter] at hd
    have hid : obj.id ≠ d.1.id := by rw [← hcid]; exact h.tinv.disj cur hcur d hd.1
    rcases h.delOK d hd.1 with a | ⟨it, hit, b1, b2⟩ | ⟨c, c3⟩
    · exact Or.inl a
    · exact Or.inr (Or.inl ⟨it, (hmemo it (by omega)).2 hit, b1, b2⟩)
    · refine Or.inr (Or.inr ⟨c, fun it hit => ?_⟩)
      by_cases hi : it.id = obj.id
      · omega
      · exact c3 it ((hmemo it (by omega)).1 hit)
  · rw [h1, h2, h4, h5, h3, h9]
    intro it hit
    by_cases hi : it.id = obj.id
    · obtain ⟨hf, hin⟩ := hmemx it hit hi
      subst hf
      rw [hin]
      rw [hin] at hi
      have herr : ErrAt (r.setObj o').objs itn :=
        ⟨_, hnew, by show o'.id = itn.id; rw [ho'id]; omega, by show o'.kind = _; rw [ho'kind]; rfl, by show r.tableRev + 1 = itn.rev; omega⟩
      refine ⟨by rw [hitn.2.1]; omega, Or.inr (Or.inr ⟨hitn.2.2.2.1, herr⟩), fun hq => ?_, fun _ => ⟨by omega, by rw [hitn.2.1]; omega, fun x hx hxid => ?_⟩⟩
      · rw [hitn.2.2.2.2] at hq; cases hq
      · rcases (mem_setObj_objs ..).1 hx with ⟨_, hne⟩ | rfl
        · rw [ho'id] at hne; omega
        · left
          refine ⟨by show o'.kind = _; rw [ho'kind]; rfl, by show r.tableRev + 1 = itn.rev; omega, ?_, ?_⟩
          · show o'.data = itn.obj.data
            rw [hitn.2.1, ← hod]
          · show o'.other = itn.obj.other
            rw [hitn.2.1, ← hod]
    · have := (h.itemOK it ((hmemo it hi).1 hit)).setObj_other (o := o') (n' := r.nextSid + 1) (by omega) (Nat.le_succ _)
      obtain ⟨a, b, c, d⟩ := this
      refine ⟨a, b, fun hq => ?_, d⟩
      rcases c hq with c | ⟨c1, c2, res', hr, e1, e2, e3⟩
      · exact Or.inl c
      · refine Or.inr ⟨c1, c2, res', ?_, e1, e2, e3⟩
        rcases List.mem_cons.1 hr with rfl | hr
        · simp only at e1; omega
        · exact hr
  · rw [h1, h8, h3, h9]
    intro res' hr
    obtain ⟨a1, a2, a3, a4, a5⟩ := h.resOK res' (List.mem_cons_of_mem _ hr)
    refine ⟨a1, a2, by omega, by omega, fun x hx hxid hlx => ?_⟩
    rw [mem_setObj_objs] at hx
    rcases hx with ⟨hx, hid⟩ | rfl
    · rw [ho'id] at hid
      obtain ⟨b1, b2, b3, b4⟩ := a5 x hx hxid hlx
      exact ⟨b1, b2, b3, fun it hit hi => b4 it ((hmemo it (by omega)).1 hit) hi⟩
    · exfalso
      rcases hlx with e | ⟨e, _⟩
      · simp only at e; omega
      · have e' : o'.kind = .pending := e
        rw [ho'kind] at e'
        cases f <;> simp at e'
  · rw [h1, h9]
    intro x hx
    rcases (mem_setObj_objs ..).1 hx with ⟨hx, _⟩ | rfl
    · have := h.sidO x hx; omega
    · show o'.sid < r.nextSid + 1
      rw [← hod]; simp

end Sdb.Rec
