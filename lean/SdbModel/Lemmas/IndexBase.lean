import SdbModel.Lemmas.Table
import SdbModel.Props.C18
/-!
  Base lemmas for C04 (all indexes agree with the table contents):
  * folds of `OMap.insert` / `OMap.erase` over key lists (the loops of `partIndexTxn.reindex`),
  * what `modify` / `delete` do to the secondary-index fields of a table (`ModIdx`, `DelIdx`),
  * the light primary-index invariant `PInv` (sorted, every object under its own id).
  Core Lean only.
-/
namespace Sdb.Tbl
open OMap

/-! ### folds of insert / erase -/

section folds
variable {α : Type}

theorem sorted_foldl_insert (ks : List Key) (f : Key → Key) (v : α) (m : OMap α) (hs : Sorted m) :
    Sorted (ks.foldl (fun m k => m.insert (f k) v) m) := by
  induction ks generalizing m with
  | nil => exact hs
  | cons k ks ih => exact ih _ (sorted_insert m hs _ _)

theorem get_foldl_insert (ks : List Key) (f : Key → Key) (v : α) (m : OMap α) (c : Key) :
    get (ks.foldl (fun m k => m.insert (f k) v) m) c = if c ∈ ks.map f then some v else get m c := by
  induction ks generalizing m with
  | nil => simp
  | cons k ks ih =>
    rw [List.foldl_cons, ih, get_insert]
    simp only [List.map_cons, List.mem_cons]
    by_cases h1 : c ∈ ks.map f
    · simp [h1]
    · by_cases h2 : c = f k <;> simp [h1, h2]

theorem sorted_foldl_erase (ks : List Key) (f : Key → Key) (p : Key → Bool) (m : OMap α) (hs : Sorted m) :
    Sorted (ks.foldl (fun m k => if p k then m else m.erase (f k)) m) := by
  induction ks generalizing m with
  | nil => exact hs
  | cons k ks ih =>
    rw [List.foldl_cons]
    split
    · exact ih _ hs
    · exact ih _ (sorted_erase m hs _)

theorem get_foldl_erase (ks : List Key) (f : Key → Key) (p : Key → Bool) (m : OMap α) (hs : Sorted m) (c : Key) :
    get (ks.foldl (fun m k => if p k then m else m.erase (f k)) m) c =
      if c ∈ (ks.filter (fun k => !p k)).map f then none else get m c := by
  induction ks generalizing m with
  | nil => simp
  | cons k ks ih =>
    rw [List.foldl_cons]
    cases hp : p k
    · simp only [Bool.false_eq_true, ↓reduceIte]
      rw [ih _ (sorted_erase m hs _), get_erase m hs]
      simp only [List.filter_cons, hp, Bool.not_false, if_true, List.map_cons, List.mem_cons]
      by_cases h1 : c ∈ (ks.filter (fun k => !p k)).map f
      · simp [h1]
      · by_cases h2 : c = f k <;> simp [h1, h2]
    · rw [if_pos rfl, ih _ hs]
      rw [List.filter_cons]
      rw [hp]; rfl

end folds

/-! ### the index fields after `reindexAll`, `modify`, `delete` -/

@[simp] theorem reindexAll_tagIdx (t : TableS) (old new : Option Obj) (id : Key) :
    (reindexAll t old new id).tagIdx = reindexNonUnique t.tagIdx id old new (·.tags) := by
  unfold reindexAll; simp only; split <;> rfl

theorem reindexAll_uIdx (t : TableS) (old new : Option Obj) (id : Key) :
    (reindexAll t old new id).uIdx =
      if t.full then reindexUnique t.uIdx old new (fun o => [o.ukey]) else t.uIdx := by
  unfold reindexAll; simp only; split <;> rfl

theorem reindexAll_lpm (t : TableS) (old new : Option Obj) (id : Key) :
    (reindexAll t old new id).lpm =
      if t.full then reindexLpm false t.lpm id old new (·.pfxs) else t.lpm := by
  unfold reindexAll; simp only; split <;> rfl

theorem reindexAll_ulpm (t : TableS) (old new : Option Obj) (id : Key) :
    (reindexAll t old new id).ulpm =
      if t.full then reindexLpm true t.ulpm id old new (·.upKey) else t.ulpm := by
  unfold reindexAll; simp only; split <;> rfl

/-- the secondary indexes after a successful `modify` -/
structure ModIdx (t : TableS) (o : Obj) (m : Bool) (t' : TableS) : Prop where
  tagIdx : t'.tagIdx = reindexNonUnique t.tagIdx o.id (t.primary.get o.id) (some (newObj t o m)) (·.tags)
  uIdx : t'.uIdx = if t.full then reindexUnique t.uIdx (t.primary.get o.id) (some (newObj t o m)) (fun o => [o.ukey])
      else t.uIdx
  lpm : t'.lpm = if t.full then reindexLpm false t.lpm o.id (t.primary.get o.id) (some (newObj t o m)) (·.pfxs)
      else t.lpm
  ulpm : t'.ulpm = if t.full then reindexLpm true t.ulpm o.id (t.primary.get o.id) (some (newObj t o m)) (·.upKey)
      else t.ulpm

theorem modify_ok_idx (t : TableS) (g : Nat) (o : Obj) (m : Bool) (h : t.locked = true)
    (hok : GuardOk g (t.primary.get o.id)) : ModIdx t o m (modify t g o m).1 := by
  have h1 : ¬ (g > 0 ∧ (t.primary.get o.id).isNone = true) := by
    rcases hok with h0 | ⟨oo, ho, _⟩
    · omega
    · simp [ho]
  have h2 : ¬ (g > 0 ∧ ((t.primary.get o.id).map (·.rev)) ≠ some g) := by
    rcases hok with h0 | ⟨oo, ho, hr⟩
    · omega
    · simp [ho, hr]
  unfold modify
  simp only [h, Bool.not_true, Bool.false_eq_true, if_false, h1, h2]
  cases hold : t.primary.get o.id with
  | some oo =>
    cases m <;> constructor <;>
      simp [newObj, hold, reindexAll_uIdx, reindexAll_lpm, reindexAll_ulpm]
  | none =>
    cases hg : t.grave.get o.id <;> cases m <;> constructor <;>
      simp [newObj, hold, reindexAll_uIdx, reindexAll_lpm, reindexAll_ulpm]

/-- the secondary indexes after a successful `delete` -/
structure DelIdx (t : TableS) (id : Key) (old : Obj) (t' : TableS) : Prop where
  tagIdx : t'.tagIdx = reindexNonUnique t.tagIdx id (some old) none (·.tags)
  uIdx : t'.uIdx = if t.full then reindexUnique t.uIdx (some old) none (fun o => [o.ukey]) else t.uIdx
  lpm : t'.lpm = if t.full then reindexLpm false t.lpm id (some old) none (·.pfxs) else t.lpm
  ulpm : t'.ulpm = if t.full then reindexLpm true t.ulpm id (some old) none (·.upKey) else t.ulpm

theorem delete_ok_idx (t : TableS) (g : Nat) (id : Key) (h : t.locked = true)
    (old : Obj) (hs : t.primary.get id = some old) (hg : g = 0 ∨ old.rev = g) :
    DelIdx t id old (delete t g id).1 := by
  have h1 : ¬ (g > 0 ∧ old.rev ≠ g) := by omega
  unfold delete
  simp only [h, Bool.not_true, Bool.false_eq_true, if_false, hs, h1]
  by_cases ht : t.trackers = []
  · constructor <;> simp [ht, reindexAll_uIdx, reindexAll_lpm, reindexAll_ulpm]
  · constructor <;> simp [ht, reindexAll_uIdx, reindexAll_lpm, reindexAll_ulpm]

/-! ### the primary index as a map from ids to objects -/

/-- the primary index is sorted and stores every object under its own id -/
structure POk (primary : OMap Obj) : Prop where
  sorted : Sorted primary
  idOk : ∀ k o, primary.get k = some o → o.id = k

theorem POk.nil : POk [] := ⟨sorted_nil, fun k o h => by simp at h⟩

theorem POk.insert {primary : OMap Obj} (h : POk primary) (n : Obj) : POk (primary.insert n.id n) := by
  refine ⟨sorted_insert _ h.sorted _ _, ?_⟩
  intro k o hk
  rw [get_insert] at hk
  split at hk
  · rename_i e; simp only [Option.some.injEq] at hk; subst hk; exact e.symm
  · exact h.idOk k o hk

theorem POk.erase {primary : OMap Obj} (h : POk primary) (id : Key) : POk (primary.erase id) := by
  refine ⟨sorted_erase _ h.sorted _, ?_⟩
  intro k o hk
  rw [get_erase _ h.sorted] at hk
  split at hk
  · simp at hk
  · exact h.idOk k o hk

theorem POk.mem {primary : OMap Obj} (h : POk primary) (k : Key) (o : Obj) :
    (k, o) ∈ primary ↔ primary.get k = some o := mem_iff_get _ h.sorted k o

theorem TInv.pOk {t : TableS} (inv : TInv t) : POk t.primary := ⟨inv.sortedP, inv.idOk⟩

end Sdb.Tbl
