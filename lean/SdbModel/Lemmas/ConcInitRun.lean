import SdbModel.Lemmas.ConcInitEff

/-!
  ConcInitRun — lifting facts about single micro steps (with their effect `Eff`,
  the simulation invariant and the channel invariant `CI` at hand) to scheduler
  steps `Conc.step`.  Core Lean only.
-/
namespace Sdb.Conc

/-- what is available at every micro step of a run of thread `tid` -/
structure MicroCtx (cs : List Bool) (tid : Nat) (a b : State × Thread) (c : Bool) : Prop where
  sim : Sim (install a.1 tid a.2) cs
  ci : CI (install a.1 tid a.2) cs (some tid)
  ci' : CI (install b.1 tid b.2) cs (some tid)
  lt : tid < a.1.threads.length
  threads : b.1.threads = a.1.threads
  flag : cs[tid]? = some c
  step : mstep a.1 tid a.2 = some b
  eff : Eff a.1 b.1 a.2 b.2 c
  frame : EffFrame a.2 b.2 c

/-- an invariant `J` of the micro steps of one run holds after the scheduler step -/
theorem step_with2 (st : State) (cs : List Bool) (tid : Nat) (hsim : Sim st cs) (hCI : CI st cs none)
    (J : State × Thread → Prop)
    (hJ : ∀ a b c, MicroCtx cs tid a b c → J a → J b)
    (h0 : ∀ th, st.threads[tid]? = some th → J (st, th)) :
    (step st tid).1 = st ∨ ∃ th st' th', st.threads[tid]? = some th ∧ th.done = false ∧ J (st', th') ∧
      (step st tid).1 = install st' tid th' ∧ st'.threads = st.threads := by
  rcases step_cases2 st tid with he | ⟨th, st', th', hth, hd, hstar, he, _⟩
  · exact Or.inl he
  · right
    have htid : tid < st.threads.length := lt_of_getElem?_some _ _ _ hth
    have ha : RunInv tid cs (st, th) :=
      ⟨by rw [install_self st tid th hth]; exact hsim, htid, fun hd' => by simp [hd] at hd'⟩
    have hci0 : CI (install st tid th) cs (some tid) := by
      rw [install_self st tid th hth]; exact CI_run_start st cs tid hCI
    have key := MStar.invariant (tid := tid)
      (fun x => RunInv tid cs x ∧ CI (install x.1 tid x.2) cs (some tid) ∧ J x)
      (fun a b hab hs => by
        obtain ⟨hr, hc, hj⟩ := hab
        have hr' := (RunInv_mstep tid cs a b hr hs).1
        have hc' := CI_mstep a.1 cs tid a.2 b.1 b.2 hr.1 hr.2.1 hc hs
        obtain ⟨c, hcf, heff, hfr⟩ := mstep_eff a.1 cs tid a.2 b.1 b.2 hr.2.1 hc hs
        exact ⟨hr', hc', hJ a b c ⟨hr.1, hc, hc', hr.2.1, mstep_threads a.1 tid a.2 b.1 b.2 hs, hcf, hs, heff, hfr⟩ hj⟩)
      hstar ⟨ha, hci0, h0 th hth⟩
    exact ⟨th, st', th', hth, hd, key.2.2, he, mstar_threads hstar⟩

/-- a state predicate preserved by every micro step is preserved by scheduler steps -/
theorem step_preserves (st : State) (cs : List Bool) (tid : Nat) (hsim : Sim st cs) (hCI : CI st cs none)
    (K : State → Prop)
    (hK : ∀ a b c, MicroCtx cs tid a b c → K (install a.1 tid a.2) → K (install b.1 tid b.2))
    (h0 : K st) : K (step st tid).1 := by
  rcases step_with2 st cs tid hsim hCI (fun x => K (install x.1 tid x.2)) hK
      (fun th hth => by show K (install st tid th); rw [install_self st tid th hth]; exact h0) with
    he | ⟨th, st', th', _, _, hj, he, _⟩
  · rw [he]; exact h0
  · rw [he]; exact hj

/-- for a committing writer past its store the user's writes are past as well -/
theorem written_of_stored (th : Thread) (L : List Nat) (c : Bool) (p : Pos2) (h : strip2 th.prog = code2 L c p)
    (hc : c = true) (hs : Micro.act .storeRoot ∉ th.prog) : Micro.userWrites ∉ th.prog := by
  obtain ⟨t1, t2, _, _⟩ := tracked_of_pos th L c p h
  intro hu
  apply hs
  apply t2.2
  have := t1.1 hu
  subst hc
  cases p <;> simp_all [uwIn, srIn]

end Sdb.Conc
