import SdbModel.Lemmas.ReconcilerProgressReach

/-!
  Lemmas.ReconcilerProgressIdle — a retry item can only disappear or change
  together with a call on the target for its object (`Tr`); hence, once the loop
  is idle at a time later than every retry time, every queued retry has run.
-/
namespace Sdb.Rec

/-- inside a round that began in `v0`: the log grew by `L`; every item of `v0` is still there or
    a call for its object is in `L`; every result waiting for its commit has its call in `L` -/
def TM (v0 v : V) (rs : List Res) : Prop :=
  ∃ L, v.log = v0.log ++ L ∧ (∀ it ∈ v0.items, it ∈ v.items ∨ ∃ c ∈ L, c.id = it.id) ∧ (∀ res ∈ rs, ∃ c ∈ L, c.id = res.1.id)

theorem TM.refl (v : V) : TM v v [] := ⟨[], by simp, fun it hit => Or.inl hit, fun res hr => by cases hr⟩

theorem TM.congr {v0 v v' : V} {rs : List Res} (h : TM v0 v rs) (h1 : v'.log = v.log) (h2 : v'.items = v.items) : TM v0 v' rs := by
  obtain ⟨L, a, b, c⟩ := h
  exact ⟨L, by rw [h1]; exact a, by rw [h2]; exact b, c⟩

/-- an operation for `o` is attempted: its call is logged; only items for `o.id` change -/
theorem TM.attempt {v0 v v' : V} {rs : List Res} (h : TM v0 v rs) (o : RObj) (rev : Nat) (d f : Bool)
    (hlog : v'.log = v.log ++ [⟨if d then "D" else "U", o.id, o.data, !f⟩])
    (hitems : ∀ it ∈ v.items, it.id ≠ o.id → it ∈ v'.items) : TM v0 v' (rs ++ resOf o rev d f) := by
  obtain ⟨L, a, b, c⟩ := h
  refine ⟨L ++ [⟨if d then "D" else "U", o.id, o.data, !f⟩], by rw [hlog, a, List.append_assoc], fun it hit => ?_, fun res hr => ?_⟩
  · rcases b it hit with hm | ⟨c', hc', e⟩
    · by_cases hid : it.id = o.id
      · exact Or.inr ⟨_, List.mem_append_right _ (List.mem_singleton.2 rfl), hid.symm⟩
      · exact Or.inl (hitems it hm hid)
    · exact Or.inr ⟨c', List.mem_append_left _ hc', e⟩
  · rcases List.mem_append.1 hr with hr | hr
    · obtain ⟨c', hc', e⟩ := c res hr
      exact ⟨c', List.mem_append_left _ hc', e⟩
    · unfold resOf at hr
      cases d
      · simp only [Bool.false_eq_true, if_false, List.mem_singleton] at hr
        exact ⟨_, List.mem_append_right _ (List.mem_singleton.2 rfl), by rw [hr]⟩
      · simp at hr

theorem mem_clear_single_other {v : V} {i : Item} {X : Nat} (hi : i ∈ v.items) (hne : i.id ≠ X) (o : RObj) (ho : o.id = X) (rev : Nat) (d f : Bool) :
    i ∈ ((v.clear X).single o rev d f).items := by
  have hp : i ∈ (v.clear X).items := (mem_clear_items ..).2 ⟨hi, hne⟩
  cases d <;> cases f
  · rw [single_uf]; simp only [clear_items, call_items, List.mem_filter] at hp ⊢; exact ⟨hp, by simp; omega⟩
  · rw [single_ut]; exact hp
  · rw [single_df]; simp only [clear_items, call_items, List.mem_filter] at hp ⊢; exact ⟨hp, by simp; omega⟩
  · rw [single_dt]; exact (mem_add_items ..).2 (Or.inl ⟨hp, by omega⟩)

theorem tm_skip (v0 : V) (r : R) (c : Change) (cs : List Change) (_ : Nat) (_ : InvL r r.results) (_ : ChOK r r.results (c :: cs))
    (_ : c.deleted = false) (_ : ¬ needs c.obj.kind) (hk : TM v0 r.v r.results) :
    TM v0 { r.v with itRev := c.rev } r.results := hk.congr rfl rfl

theorem tm_upd (v0 : V) (r r' : R) (c : Change) (cs : List Change) (_ : Nat) (_ : InvL r r.results) (_ : ChOK r r.results (c :: cs))
    (_ : c.deleted = false) (_ : needs c.obj.kind)
    (hv : r'.v = (({ r.v with itRev := c.rev } : V).clear c.obj.id).single c.obj c.rev false (r.isFailing c.obj.id))
    (hres : r'.results = r.results ++ resOf c.obj c.rev false (r.isFailing c.obj.id)) (_ : InvL r' r'.results) (_ : ChOK r' r'.results cs)
    (hk : TM v0 r.v r.results) : TM v0 r'.v r'.results := by
  rw [hv, hres]
  refine hk.attempt c.obj c.rev false _ ?_ ?_
  · rw [single_log]; rfl
  · intro it hit hne
    exact mem_clear_single_other (v := { r.v with itRev := c.rev }) hit hne c.obj rfl c.rev _ _

theorem tm_del (v0 : V) (r r' : R) (c : Change) (cs : List Change) (_ : Nat) (_ : InvL r r.results) (_ : ChOK r r.results (c :: cs))
    (_ : c.deleted = true)
    (hv : r'.v = (({ r.v with itDelRev := c.rev } : V).clear c.obj.id).single c.obj c.rev true (r.isFailing c.obj.id))
    (hres : r'.results = r.results) (_ : InvL r' r'.results) (_ : ChOK r' r'.results cs)
    (hk : TM v0 r.v r.results) : TM v0 r'.v r'.results := by
  rw [hv, hres]
  have := hk.attempt (v' := (({ r.v with itDelRev := c.rev } : V).clear c.obj.id).single c.obj c.rev true (r.isFailing c.obj.id))
    c.obj c.rev true (r.isFailing c.obj.id) (by rw [single_log]; rfl)
    (fun it hit hne => mem_clear_single_other (v := { r.v with itDelRev := c.rev }) hit hne c.obj rfl c.rev _ _)
  simpa [resOf] using this

theorem tm_retry (v0 : V) (r r' : R) (h : Item) (hI : InvL r r.results) (_ : CaughtUp r) (hh : r.head = some h) (_ : h.retryAt ≤ r.now)
    (_ : r.numReconciled < r.cfg.roundSize)
    (hv : r'.v = (r.v.pop h.id).single h.obj h.rev h.delete (r.isFailing h.obj.id))
    (hres : r'.results = r.results ++ resOf h.obj h.rev h.delete (r.isFailing h.obj.id)) (_ : InvL r' r'.results)
    (hq : TM v0 r.v r.results) : TM v0 r'.v r'.results := by
  obtain ⟨hit0, _, _⟩ := head_spec hh
  have hobj := (hI.itemOK h hit0).1
  rw [hv, hres]
  refine hq.attempt h.obj h.rev h.delete _ ?_ ?_
  · rw [single_log]; rfl
  · intro it hit hne
    exact mem_single_other hit (by omega) h.obj hobj h.rev _ _

theorem tm_drop (v0 : V) (r : R) (res : Res) (rs : List Res) (_ : InvL r (res :: rs))
    (_ : ∀ cur ∈ r.objs, cur.id = res.1.id → cur.rev ≠ res.2.2.1) (hq : TM v0 r.v (res :: rs)) : TM v0 r.v rs := by
  obtain ⟨L, a, b, c⟩ := hq
  exact ⟨L, a, b, fun x hx => c x (List.mem_cons_of_mem _ hx)⟩

theorem tm_write (v0 : V) (r r' : R) (res : Res) (rs : List Res) (cur : RObj) (hI : InvL r (res :: rs))
    (_ : cur ∈ r.objs) (_ : cur.id = res.1.id) (_ : cur.rev = res.2.2.1) (hv : r'.v = r.v.commit res r.nextSid) (_ : InvL r' rs)
    (hq : TM v0 r.v (res :: rs)) : TM v0 r'.v rs := by
  obtain ⟨L, a, b, c⟩ := hq
  obtain ⟨horig, _, _⟩ := hI.resOK res (List.mem_cons_self ..)
  rw [hv]
  refine ⟨L, by rw [commit_log]; exact a, fun it hit => ?_, fun x hx => c x (List.mem_cons_of_mem _ hx)⟩
  rcases b it hit with hm | hc
  · cases hf : res.2.2.2.2 with
    | false => rw [commit_s _ _ _ hf]; exact Or.inl hm
    | true =>
      rw [commit_f _ _ _ hf]
      by_cases hid : it.id = res.2.1.id
      · obtain ⟨c', hc', e⟩ := c res (List.mem_cons_self ..)
        exact Or.inr ⟨c', hc', by omega⟩
      · exact Or.inl ((mem_add_items ..).2 (Or.inl ⟨hm, hid⟩))
  · exact Or.inr hc

/-- between rounds: the log grew by `L`; every retry item of `r` is still there, unchanged, or a
    call for its object is in `L` -/
def Tr (r r' : R) : Prop := ∃ L, r'.log = r.log ++ L ∧ ∀ it ∈ r.items, it ∈ r'.items ∨ ∃ c ∈ L, c.id = it.id

theorem Tr.refl (r : R) : Tr r r := ⟨[], by simp, fun it hit => Or.inl hit⟩

theorem Tr.trans {a b c : R} (h1 : Tr a b) (h2 : Tr b c) : Tr a c := by
  obtain ⟨L1, e1, f1⟩ := h1
  obtain ⟨L2, e2, f2⟩ := h2
  refine ⟨L1 ++ L2, by rw [e2, e1, List.append_assoc], fun it hit => ?_⟩
  rcases f1 it hit with hm | ⟨c', hc', e⟩
  · rcases f2 it hm with hm' | ⟨c', hc', e⟩
    · exact Or.inl hm'
    · exact Or.inr ⟨c', List.mem_append_right _ hc', e⟩
  · exact Or.inr ⟨c', List.mem_append_left _ hc', e⟩

theorem Tr.of_eq {r r' : R} (h1 : r'.log = r.log) (h2 : r'.items = r.items) : Tr r r' :=
  ⟨[], by simp [h1], fun it hit => Or.inl (by rw [h2]; exact hit)⟩

/-- one round -/
theorem Tr.round {r : R} (hr : RInv r) : Tr r r.round := by
  have h0 : (fun v rs (_ : List Change) (_ : Nat) => TM r.v v rs) r.v [] r.nextChanges.2 0 := TM.refl r.v
  obtain ⟨hI3, hcu3, hK⟩ := round_ind (K := fun v rs _ _ => TM r.v v rs) (tm_skip r.v) (tm_upd r.v) (tm_del r.v) hr h0
  obtain ⟨_, _, _, _, _, _, hQ6, _⟩ := tail_ind (Q := TM r.v) (tm_drop r.v) (tm_write r.v) (tm_retry r.v) hI3 hcu3 hK
  obtain ⟨L, a, b, _⟩ := hQ6
  exact ⟨L, a, b⟩

theorem Tr.quiesce {r : R} (hr : RInv r) (fuel : Nat) : Tr r (r.quiesce fuel) := by
  induction fuel generalizing r with
  | zero => exact Tr.refl r
  | succ n ih =>
    unfold R.quiesce
    simp only
    obtain ⟨e1, _, _, _, _, e2, _, _⟩ := fireTimer_frame2 r
    have h1 : Tr r r.fireTimer := Tr.of_eq e2 e1
    split
    · exact h1.trans ((Tr.round hr.fireTimer).trans (ih hr.fireTimer.round))
    · exact h1

theorem Tr.advance {r : R} (hr : RInv r) (ms fuel : Nat) : Tr r (r.advance ms fuel) := by
  induction fuel generalizing r ms with
  | zero => exact Tr.of_eq rfl rfl
  | succ n ih =>
    unfold R.advance
    simp only
    split
    · rename_i t _
      split
      · have h1 : Tr r { r with now := max t r.now } := Tr.of_eq rfl rfl
        exact h1.trans ((Tr.quiesce (hr.setNow _) 64).trans (ih ((hr.setNow _).quiesce 64) _))
      · exact Tr.of_eq rfl rfl
    · exact Tr.of_eq rfl rfl

/-! ## time and configuration along `quiesce` / `advance` -/

theorem WInv.round_frame {r : R} (h : WInv r) : r.round.now = r.now ∧ r.round.cfg = r.cfg := by
  obtain ⟨_, e1, e2, _⟩ := h.q.round h.rinv (fun _ => pAdd_bound r)
  exact ⟨e1, e2⟩

theorem WInv.quiesce_frame {r : R} (h : WInv r) (fuel : Nat) : (r.quiesce fuel).now = r.now ∧ (r.quiesce fuel).cfg = r.cfg := by
  induction fuel generalizing r with
  | zero => exact ⟨rfl, rfl⟩
  | succ n ih =>
    unfold R.quiesce
    simp only
    obtain ⟨_, _, _, e1, e2⟩ := fireTimer_frame r
    split
    · obtain ⟨a, b⟩ := ih h.fireTimer.round
      obtain ⟨c, d⟩ := h.fireTimer.round_frame
      exact ⟨by rw [a, c, e1], by rw [b, d, e2]⟩
    · exact ⟨e1, e2⟩

theorem WInv.advance_frame {r : R} (h : WInv r) (ms fuel : Nat) :
    (r.advance ms fuel).now = r.now + ms ∧ (r.advance ms fuel).cfg = r.cfg := by
  induction fuel generalizing r ms with
  | zero => exact ⟨rfl, rfl⟩
  | succ n ih =>
    unfold R.advance
    simp only
    split
    · rename_i t _
      split
      · rename_i hle
        have h1 := h.setNow (max t r.now) (by omega)
        obtain ⟨a, b⟩ := h1.quiesce_frame 64
        obtain ⟨c, d⟩ := ih (h1.quiesce 64) (r.now + ms - (R.quiesce { r with now := max t r.now } 64).now)
        refine ⟨?_, by rw [d, b]⟩
        rw [c, a]
        simp only
        omega
      · exact ⟨rfl, rfl⟩
    · exact ⟨rfl, rfl⟩

/-- in an idle state no retry is due -/
theorem WInv.idle_not_due {r : R} (h : WInv r) (hidle : r.triggered = false) : ∀ it ∈ r.items, r.now < it.retryAt := by
  obtain ⟨_, _, hnf, harm⟩ := not_triggered hidle
  intro it hit
  rcases h.q.timer it hit (h.rinv.items_queued it hit) with a | ⟨u, a, b⟩
  · exact absurd a hnf
  · have := harm u a
    omega

/-- **every queued retry runs within the maximal backoff (plus one wake-up of the loop)**: let
    more than `maxB` pass from a state satisfying the invariant; if the loop is idle at the end,
    then for every retry item that was queued a call for its object was made meanwhile -/
theorem retried_within_max {r : R} (h : WInv r) (ms fuel : Nat) (hms : r.cfg.maxB < ms)
    (hidle : (r.advance ms fuel).triggered = false) :
    ∃ L, (r.advance ms fuel).log = r.log ++ L ∧ ∀ it ∈ r.items, ∃ c ∈ L, c.id = it.id := by
  obtain ⟨L, e, f⟩ := Tr.advance h.rinv ms fuel
  refine ⟨L, e, fun it hit => ?_⟩
  rcases f it hit with hm | hc
  · have h1 := (h.advance ms fuel).idle_not_due hidle it hm
    have h2 := h.q.times it hit
    rw [(h.advance_frame ms fuel).1] at h1
    omega
  · exact hc

end Sdb.Rec
