import SdbModel.Lemmas.ConcInitInv

/-!
  ConcInitUpd — re-establishing the invariant `CI` after a micro step of thread
  `tid`: all clauses about the OTHER threads follow from three inclusions (new
  root channels / closed channels / private channels of `tid` come from old root
  channels, old private channels of `tid`, or are newly allocated) and a frame
  condition on `Loc`; what remains are the clauses about the root, the closed
  list and thread `tid` itself.  Core Lean only.
-/
namespace Sdb.Conc

theorem install_get (st : State) (tid j : Nat) (th : Thread) (htid : tid < st.threads.length) :
    (install st tid th).threads[j]? = if j = tid then some th else st.threads[j]? := by
  simp only [install]; exact getElem?_set_thread _ _ _ _ htid

theorem CI_update (st st' : State) (cs : List Bool) (tid : Nat) (th th' : Thread) (c : Bool)
    (hCI : CI (install st tid th) cs (some tid)) (htid : tid < st.threads.length) (hc : cs[tid]? = some c)
    (hthreads : st'.threads = st.threads) (hnc : st.nextChan ≤ st'.nextChan)
    (hlen : st.root.length ≤ st'.root.length)
    (i1 : ∀ w, rootChan st'.root w → rootChan st.root w ∨ priv th c w ∨ (st.nextChan ≤ w ∧ w < st'.nextChan))
    (i2 : ∀ w, w ∈ st'.closed → w ∈ st.closed ∨ priv th c w)
    (i3 : ∀ w, priv th' c w → rootChan st.root w ∨ priv th c w ∨ (st.nextChan ≤ w ∧ w < st'.nextChan))
    (d1 : ∀ w, rootChan st'.root w → w ∉ st'.closed)
    (d2 : ∀ w, priv th' c w → w ∉ st'.closed)
    (d3 : ∀ w, priv th' c w → ¬ rootChan st'.root w)
    (hRI : ∀ x y, x < st'.root.length → y < st'.root.length → x ≠ y →
      ∀ w, chansOf (getT st'.root x) w → chansOf (getT st'.root y) w → False)
    (hRW : ∀ x, x < st'.root.length → (getT st'.root x).initWatch ≠ 0 →
      (getT st'.root x).watch ≠ (getT st'.root x).initWatch)
    (hIP : ∀ x, x < st'.root.length → ((getT st'.root x).initPending = true ↔ (getT st'.root x).initWatch ≠ 0))
    (hRV : ∀ x, x < st'.root.length → (getT st'.root x).rev = (getT st'.root x).cnt)
    (hFI : FI th' c)
    (hCOnew : ∀ w, w ∈ st'.closed → w ∉ st.closed → c = true ∧ Micro.act .storeRoot ∉ th'.prog ∧
      ((Micro.act .notify ∉ th'.prog ∧ w ∈ th'.toNotify) ∨ (Micro.act .closeInit ∉ th'.prog ∧ w ∈ th'.initToClose)))
    (hCOold : c = true → Micro.act .storeRoot ∉ th.prog → Micro.act .storeRoot ∉ th'.prog ∧
      (Micro.act .notify ∉ th.prog → Micro.act .notify ∉ th'.prog) ∧
      (Micro.act .closeInit ∉ th.prog → Micro.act .closeInit ∉ th'.prog) ∧
      th'.toNotify = th.toNotify ∧ th'.initToClose = th.initToClose)
    (hown : ThreadOK st'.root st'.nextChan th' c)
    (hframe : ∀ j thj cj p, j ≠ tid → st.threads[j]? = some thj → cs[j]? = some cj →
      strip2 thj.prog = code2 (lockList thj) cj p → Loc st.root st.nextChan thj cj p →
      Loc st'.root st'.nextChan thj cj p) :
    CI (install st' tid th') cs (some tid) := by
  have htid' : tid < st'.threads.length := by rw [hthreads]; exact htid
  have hown_old : (install st tid th).threads[tid]? = some th := by rw [install_get _ _ _ _ htid]; simp
  -- looking up a thread in the new state
  have look : ∀ j thj, (install st' tid th').threads[j]? = some thj →
      (j = tid ∧ thj = th') ∨ (j ≠ tid ∧ (install st tid th).threads[j]? = some thj ∧ st.threads[j]? = some thj) := by
    intro j thj hj
    rw [install_get _ _ _ _ htid'] at hj
    by_cases hjt : j = tid
    · rw [if_pos hjt] at hj; simp only [Option.some.injEq] at hj; exact Or.inl ⟨hjt, hj.symm⟩
    · rw [if_neg hjt, hthreads] at hj
      exact Or.inr ⟨hjt, by rw [install_get _ _ _ _ htid, if_neg hjt]; exact hj, hj⟩
  -- a private channel of another thread is old and belongs to nothing else
  have other : ∀ j thj cj w, j ≠ tid → (install st tid th).threads[j]? = some thj → cs[j]? = some cj → priv thj cj w →
      w < st.nextChan ∧ w ∉ st.closed ∧ ¬ rootChan st.root w ∧ ¬ priv th c w := by
    intro j thj cj w hj hthj hcj hp
    exact ⟨hCI.bP j thj cj w hthj hcj hp, hCI.PC j thj cj w hthj hcj hp, hCI.PR j thj cj w hthj hcj hp,
      fun hp' => hCI.PP j tid thj th cj c w hj hthj hown_old hcj hc hp hp'⟩
  constructor
  · have := hCI.len
    simp only [install, List.length_set] at this ⊢
    rw [hthreads]; exact this
  · have := hCI.nc; simp only [install] at this ⊢; omega
  · intro w hw
    show w < st'.nextChan
    rcases i1 w hw with h | h | h
    · have := hCI.bR w h; simp only [install] at this; omega
    · have := hCI.bP tid th c w hown_old hc h; simp only [install] at this; omega
    · exact h.2
  · intro w hw
    show w < st'.nextChan
    rcases i2 w hw with h | h
    · have := hCI.bC w h; simp only [install] at this; omega
    · have := hCI.bP tid th c w hown_old hc h; simp only [install] at this; omega
  · intro j thj cj w hj hcj hp
    show w < st'.nextChan
    rcases look j thj hj with ⟨rfl, rfl⟩ | ⟨hjt, hold, _⟩
    · rw [hc] at hcj; simp only [Option.some.injEq] at hcj; subst hcj
      rcases i3 w hp with h | h | h
      · have := hCI.bR w h; simp only [install] at this; omega
      · have := hCI.bP j th c w hown_old hc h; simp only [install] at this; omega
      · exact h.2
    · have := (other j thj cj w hjt hold hcj hp).1; omega
  · exact d1
  · intro j thj cj w hj hcj hp
    show w ∉ st'.closed
    rcases look j thj hj with ⟨rfl, rfl⟩ | ⟨hjt, hold, _⟩
    · rw [hc] at hcj; simp only [Option.some.injEq] at hcj; subst hcj
      exact d2 w hp
    · obtain ⟨_, o2, _, o4⟩ := other j thj cj w hjt hold hcj hp
      intro hm
      rcases i2 w hm with h | h
      · exact o2 h
      · exact o4 h
  · intro j thj cj w hj hcj hp
    show ¬ rootChan st'.root w
    rcases look j thj hj with ⟨rfl, rfl⟩ | ⟨hjt, hold, _⟩
    · rw [hc] at hcj; simp only [Option.some.injEq] at hcj; subst hcj
      exact d3 w hp
    · obtain ⟨o1, _, o3, o4⟩ := other j thj cj w hjt hold hcj hp
      intro hm
      rcases i1 w hm with h | h | h
      · exact o3 h
      · exact o4 h
      · omega
  · intro j j' thj thj' cj cj' w hne hj hj' hcj hcj' hp hp'
    rcases look j thj hj with ⟨rfl, rfl⟩ | ⟨hjt, hold, _⟩
    · rcases look j' thj' hj' with ⟨rfl, rfl⟩ | ⟨hjt', hold', _⟩
      · exact hne rfl
      · rw [hc] at hcj; simp only [Option.some.injEq] at hcj; subst hcj
        obtain ⟨o1, _, o3, o4⟩ := other j' thj' cj' w hjt' hold' hcj' hp'
        rcases i3 w hp with h | h | h
        · exact o3 h
        · exact o4 h
        · omega
    · rcases look j' thj' hj' with ⟨rfl, rfl⟩ | ⟨hjt', hold', _⟩
      · rw [hc] at hcj'; simp only [Option.some.injEq] at hcj'; subst hcj'
        obtain ⟨o1, _, o3, o4⟩ := other j thj cj w hjt hold hcj hp
        rcases i3 w hp' with h | h | h
        · exact o3 h
        · exact o4 h
        · omega
      · exact hCI.PP j j' thj thj' cj cj' w hne hold hold' hcj hcj' hp hp'
  · exact hRI
  · exact hRW
  · intro j thj cj hj hcj
    rcases look j thj hj with ⟨rfl, rfl⟩ | ⟨hjt, hold, _⟩
    · rw [hc] at hcj; simp only [Option.some.injEq] at hcj; subst hcj
      exact hFI
    · exact hCI.FIc j thj cj hold hcj
  · exact hIP
  · exact hRV
  · intro w hw
    show ∃ (j : Nat) (thj : Thread), (install st' tid th').threads[j]? = some thj ∧ _
    by_cases hwo : w ∈ st.closed
    · obtain ⟨j, thj, hj, hcj, hsr, hor⟩ := hCI.CO w hwo
      by_cases hjt : j = tid
      · subst hjt
        rw [hown_old] at hj; simp only [Option.some.injEq] at hj; subst hj
        have hct : c = true := by rw [hc] at hcj; simpa using hcj
        obtain ⟨g1, g2, g3, g4, g5⟩ := hCOold hct hsr
        refine ⟨j, th', by rw [install_get _ _ _ _ htid']; simp, hcj, g1, ?_⟩
        rcases hor with ⟨a, b⟩ | ⟨a, b⟩
        · exact Or.inl ⟨g2 a, by rw [g4]; exact b⟩
        · exact Or.inr ⟨g3 a, by rw [g5]; exact b⟩
      · refine ⟨j, thj, ?_, hcj, hsr, hor⟩
        rw [install_get _ _ _ _ htid', if_neg hjt, hthreads]
        rw [install_get _ _ _ _ htid, if_neg hjt] at hj
        exact hj
    · obtain ⟨g1, g2, g3⟩ := hCOnew w hw hwo
      exact ⟨tid, th', by rw [install_get _ _ _ _ htid']; simp, by rw [hc, g1], g2, g3⟩
  · intro j thj hj
    rcases look j thj hj with ⟨rfl, rfl⟩ | ⟨hjt, hold, hst⟩
    · exact ⟨c, hc, hown⟩
    · obtain ⟨cj, hcj, hb, hadj, p, hp, hl⟩ := hCI.TH j thj hold
      refine ⟨cj, hcj, fun x hx => Nat.lt_of_lt_of_le (hb x hx) hlen, hadj, p, hp, ?_⟩
      exact hframe j thj cj p hjt hst hcj hp hl
  · intro j thj hj hne
    rcases look j thj hj with ⟨rfl, rfl⟩ | ⟨hjt, hold, _⟩
    · exact absurd rfl hne
    · exact hCI.RS j thj hold hne

/-- a micro step that leaves root, closed list and allocator alone and does not
    add private channels -/
theorem CI_quiet (st st' : State) (cs : List Bool) (tid : Nat) (th th' : Thread) (c : Bool)
    (hCI : CI (install st tid th) cs (some tid)) (htid : tid < st.threads.length) (hc : cs[tid]? = some c)
    (hthreads : st'.threads = st.threads) (hroot : st'.root = st.root) (hclosed : st'.closed = st.closed)
    (hnc : st'.nextChan = st.nextChan)
    (hpriv : ∀ w, priv th' c w → priv th c w)
    (hFI : FI th' c)
    (hCOold : c = true → Micro.act .storeRoot ∉ th.prog → Micro.act .storeRoot ∉ th'.prog ∧
      (Micro.act .notify ∉ th.prog → Micro.act .notify ∉ th'.prog) ∧
      (Micro.act .closeInit ∉ th.prog → Micro.act .closeInit ∉ th'.prog) ∧
      th'.toNotify = th.toNotify ∧ th'.initToClose = th.initToClose)
    (hown : ThreadOK st.root st.nextChan th' c) :
    CI (install st' tid th') cs (some tid) := by
  have hown_old : (install st tid th).threads[tid]? = some th := by rw [install_get _ _ _ _ htid]; simp
  refine CI_update st st' cs tid th th' c hCI htid hc hthreads (by rw [hnc]; exact Nat.le_refl _)
    (by rw [hroot]; exact Nat.le_refl _) ?_ ?_ ?_ ?_ ?_ ?_ ?_ ?_ ?_ ?_ hFI ?_ hCOold (by rw [hroot, hnc]; exact hown) ?_
  · intro w hw; rw [hroot] at hw; exact Or.inl hw
  · intro w hw; rw [hclosed] at hw; exact Or.inl hw
  · intro w hw; exact Or.inr (Or.inl (hpriv w hw))
  · intro w hw; rw [hroot] at hw; rw [hclosed]; exact hCI.RC w hw
  · intro w hw; rw [hclosed]; exact hCI.PC tid th c w hown_old hc (hpriv w hw)
  · intro w hw; rw [hroot]; exact hCI.PR tid th c w hown_old hc (hpriv w hw)
  · rw [hroot]; exact hCI.RI
  · rw [hroot]; exact hCI.RW
  · rw [hroot]; exact hCI.IP
  · rw [hroot]; exact hCI.RV
  · intro w hw hn; rw [hclosed] at hw; exact absurd hw hn
  · intro j thj cj p _ _ _ _ hl; rw [hroot, hnc]; exact hl

end Sdb.Conc
