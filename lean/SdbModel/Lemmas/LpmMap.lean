import SdbModel.Lemmas.LpmDelete

/-! The LPM trie as a finite map: uniqueness of keys, map laws for `lookupExact`, operation sequences.
    Core Lean only. -/
namespace Sdb.Lpm
variable {α : Type}

theorem wf_allKeys_canon : ∀ (t : Trie α), WF t → AllKeys Canon t := by
  intro t
  induction t with
  | nil => intro _; trivial
  | node d p v c0 c1 ih0 ih1 => intro h; exact ⟨h.1, ih0 h.2.2.2.2.1, ih1 h.2.2.2.2.2⟩

/-- every stored key is canonical -/
theorem mem_canon {t : Trie α} (h : WF t) {d : List Nat} {p : Nat} {v : α} (hm : (d, p, v) ∈ preorder t) :
    Canon d p :=
  AllKeys.mem t (wf_allKeys_canon t h) d p v hm

theorem pairwise_key_unique : ∀ (l : List (List Nat × Nat × α)), l.Pairwise entryLt →
    ∀ a ∈ l, ∀ b ∈ l, a.1 = b.1 → a.2.1 = b.2.1 → a = b := by
  intro l
  induction l with
  | nil => intro _ a ha; simp at ha
  | cons x xs ih =>
    intro hp a ha b hb h1 h2
    rw [List.pairwise_cons] at hp
    have hirr : ∀ c ∈ xs, ¬ (x.1 = c.1 ∧ x.2.1 = c.2.1) := by
      intro c hc ⟨k1, k2⟩
      have := hp.1 c hc
      unfold entryLt at this
      rw [k1, k2] at this
      exact keyLt_irrefl _ _ this
    rcases List.mem_cons.mp ha with ha' | ha' <;> rcases List.mem_cons.mp hb with hb' | hb'
    · rw [ha', hb']
    · subst ha'; exact absurd ⟨h1, h2⟩ (hirr b hb')
    · subst hb'; exact absurd ⟨h1.symm, h2.symm⟩ (hirr a ha')
    · exact ih hp.2 a ha' b hb' h1 h2

/-- a key is stored at most once -/
theorem key_unique {t : Trie α} (h : WF t) {d : List Nat} {p : Nat} {v v' : α}
    (h1 : (d, p, v) ∈ preorder t) (h2 : (d, p, v') ∈ preorder t) : v = v' := by
  have := pairwise_key_unique _ (preorder_sorted t h) _ h1 _ h2 rfl rfl
  simpa using this

theorem filter_neKey_length (data : List Nat) (plen : Nat) :
    ∀ (l : List (List Nat × Nat × α)), l.Pairwise entryLt → (∃ v, (data, plen, v) ∈ l) →
      (l.filter (neKey data plen)).length + 1 = l.length := by
  intro l
  induction l with
  | nil => intro _ ⟨v, h⟩; simp at h
  | cons x xs ih =>
    intro hp ⟨v, hm⟩
    rw [List.pairwise_cons] at hp
    by_cases hx : x.1 = data ∧ x.2.1 = plen
    · have : xs.filter (neKey data plen) = xs := by
        apply filter_neKey_self
        intro e he ⟨k1, k2⟩
        have := hp.1 e he
        unfold entryLt at this
        rw [hx.1, hx.2, k1, k2] at this
        exact keyLt_irrefl _ _ this
      simp [neKey, hx, this]
    · have hm' : (data, plen, v) ∈ xs := by
        rcases List.mem_cons.mp hm with h | h
        · exact absurd ⟨by rw [← h], by rw [← h]⟩ hx
        · exact h
      have := ih hp.2 ⟨v, hm'⟩
      simp [neKey, hx]
      omega

theorem mem_filter_neKey (data : List Nat) (plen : Nat) (l : List (List Nat × Nat × α))
    (d' : List Nat) (p' : Nat) (v' : α) :
    (d', p', v') ∈ l.filter (neKey data plen) ↔ (d', p', v') ∈ l ∧ ¬ (d' = data ∧ p' = plen) := by
  simp only [List.mem_filter, neKey, Bool.not_eq_true', decide_eq_false_iff_not]

/-- two lookups agree as soon as they are characterised by the same membership -/
theorem option_ext_mem {a b : Option α} (h : ∀ v, a = some v ↔ b = some v) : a = b := by
  cases a with
  | none =>
    cases b with
    | none => rfl
    | some y => exact absurd ((h y).mpr rfl) (by simp)
  | some x => exact ((h x).mp rfl).symm

/-- `lookupExact` from the root is membership in the entry list -/
theorem lookupExact_root (t : Trie α) (hwf : WF t) (d : List Nat) (p : Nat) (hq : Canon d p) (v : α) :
    lookupExact d p t 0 = some v ↔ (d, p, v) ∈ preorder t :=
  lookupExact_iff d p hq t 0 hwf (pre_zero _ _ _) v

theorem insert_root_wf (t : Trie α) (hwf : WF t) (d : List Nat) (p : Nat) (hq : Canon d p) (v : α) :
    WF (insert d p v t 0).1 :=
  insert_wf d p v hq t 0 hwf (pre_zero _ _ _)

theorem lookupExact_insert_same (t : Trie α) (hwf : WF t) (d : List Nat) (p : Nat) (hq : Canon d p) (v : α) :
    lookupExact d p (insert d p v t 0).1 0 = some v := by
  rw [lookupExact_root _ (insert_root_wf t hwf d p hq v) d p hq,
    insert_mem d p v hq t 0 hwf (pre_zero _ _ _)]
  exact Or.inl ⟨rfl, rfl, rfl⟩

theorem lookupExact_insert_other (t : Trie α) (hwf : WF t) (d : List Nat) (p : Nat) (hq : Canon d p) (v : α)
    (d' : List Nat) (p' : Nat) (hq' : Canon d' p') (hne : ¬ (d' = d ∧ p' = p)) :
    lookupExact d' p' (insert d p v t 0).1 0 = lookupExact d' p' t 0 := by
  apply option_ext_mem
  intro v'
  rw [lookupExact_root _ (insert_root_wf t hwf d p hq v) d' p' hq', lookupExact_root _ hwf d' p' hq',
    insert_mem d p v hq t 0 hwf (pre_zero _ _ _)]
  constructor
  · rintro (⟨h1, h2, _⟩ | ⟨_, h⟩)
    · exact absurd ⟨h1, h2⟩ hne
    · exact h
  · intro h; exact Or.inr ⟨hne, h⟩

theorem lookupExact_delete_same (t : Trie α) (hwf : WF t) (d : List Nat) (p : Nat) (hq : Canon d p)
    (t' : Trie α) (v : α) (h : deleteRoot d p t = some (t', v)) : lookupExact d p t' 0 = none := by
  obtain ⟨_, hwf', hpre⟩ := deleteRoot_some d p hq t hwf t' v h
  cases hl : lookupExact d p t' 0 with
  | none => rfl
  | some x =>
    rw [lookupExact_root _ hwf' d p hq, hpre, mem_filter_neKey] at hl
    exact absurd ⟨rfl, rfl⟩ hl.2

theorem lookupExact_delete_other (t : Trie α) (hwf : WF t) (d : List Nat) (p : Nat) (hq : Canon d p)
    (t' : Trie α) (v : α) (h : deleteRoot d p t = some (t', v))
    (d' : List Nat) (p' : Nat) (hq' : Canon d' p') (hne : ¬ (d' = d ∧ p' = p)) :
    lookupExact d' p' t' 0 = lookupExact d' p' t 0 := by
  obtain ⟨_, hwf', hpre⟩ := deleteRoot_some d p hq t hwf t' v h
  apply option_ext_mem
  intro v'
  rw [lookupExact_root _ hwf' d' p' hq', lookupExact_root _ hwf d' p' hq', hpre, mem_filter_neKey]
  exact ⟨fun h => h.1, fun h => ⟨h, hne⟩⟩

theorem delete_length (t : Trie α) (hwf : WF t) (d : List Nat) (p : Nat) (hq : Canon d p)
    (t' : Trie α) (v : α) (h : deleteRoot d p t = some (t', v)) :
    (preorder t').length + 1 = (preorder t).length := by
  obtain ⟨hl, _, hpre⟩ := deleteRoot_some d p hq t hwf t' v h
  rw [hpre]
  exact filter_neKey_length d p _ (preorder_sorted t hwf) ⟨v, (lookupExact_root t hwf d p hq v).mp hl⟩

/-! ### operation sequences -/

/-- the mutating operations of a write transaction -/
inductive Op (α : Type) where
  | ins (d : List Nat) (p : Nat) (v : α)
  | del (d : List Nat) (p : Nat)

/-- the key of the operation is an `EncodeLPMKey` result -/
def Op.Canonical : Op α → Prop
  | .ins d p _ => Canon d p
  | .del d p => Canon d p

/-- one operation on (root, size), as `Txn.Insert` / `Txn.Delete` do it -/
def step (st : Trie α × Nat) : Op α → Trie α × Nat
  | .ins d p v => ((insert d p v st.1 0).1, st.2 + (insert d p v st.1 0).2)
  | .del d p =>
    match deleteRoot d p st.1 with
    | some (t', _) => (t', st.2 - 1)
    | none => st

def runFrom (st : Trie α × Nat) (ops : List (Op α)) : Trie α × Nat := ops.foldl step st

/-- the reference: a partial function from keys to values -/
abbrev RefMap (α : Type) := List Nat × Nat → Option α

def refStep (m : RefMap α) : Op α → RefMap α
  | .ins d p v => fun k => if k = (d, p) then some v else m k
  | .del d p => fun k => if k = (d, p) then none else m k

def refRunFrom (m : RefMap α) (ops : List (Op α)) : RefMap α := ops.foldl refStep m

/-- the trie state `st` represents the map `m` -/
def Refines (st : Trie α × Nat) (m : RefMap α) : Prop :=
  WF st.1 ∧ st.2 = (preorder st.1).length ∧ ∀ d p, Canon d p → lookupExact d p st.1 0 = m (d, p)

theorem refines_empty : Refines ((.nil, 0) : Trie α × Nat) (fun _ => none) :=
  ⟨trivial, rfl, fun _ _ _ => rfl⟩

theorem step_refines (st : Trie α × Nat) (m : RefMap α) (h : Refines st m) (op : Op α) (hop : op.Canonical) :
    Refines (step st op) (refStep m op) := by
  obtain ⟨hwf, hsz, hm⟩ := h
  cases op with
  | ins d p v =>
    refine ⟨insert_root_wf _ hwf d p hop v, ?_, ?_⟩
    · simp only [step]
      rw [insert_length, hsz]
    · intro d' p' hq'
      simp only [step, refStep]
      by_cases hk : d' = d ∧ p' = p
      · obtain ⟨rfl, rfl⟩ := hk
        rw [lookupExact_insert_same _ hwf _ _ hop]; simp
      · rw [lookupExact_insert_other _ hwf _ _ hop _ _ _ hq' hk, hm d' p' hq']
        have : (d', p') ≠ (d, p) := by
          intro h; injection h with h1 h2; exact hk ⟨h1, h2⟩
        simp [this]
  | del d p =>
    simp only [step]
    cases hd : deleteRoot d p st.1 with
    | none =>
      refine ⟨hwf, hsz, ?_⟩
      intro d' p' hq'
      simp only [refStep]
      by_cases hk : d' = d ∧ p' = p
      · obtain ⟨rfl, rfl⟩ := hk
        rw [(deleteRoot_none _ _ hop _ hwf).mp hd]; simp
      · have : (d', p') ≠ (d, p) := by
          intro h; injection h with h1 h2; exact hk ⟨h1, h2⟩
        rw [hm d' p' hq']; simp [this]
    | some r =>
      obtain ⟨t', v⟩ := r
      obtain ⟨_, hwf', _⟩ := deleteRoot_some d p hop _ hwf t' v hd
      refine ⟨hwf', ?_, ?_⟩
      · have := delete_length _ hwf d p hop t' v hd
        simp only; omega
      · intro d' p' hq'
        simp only [refStep]
        by_cases hk : d' = d ∧ p' = p
        · obtain ⟨rfl, rfl⟩ := hk
          rw [lookupExact_delete_same _ hwf _ _ hop t' v hd]; simp
        · have : (d', p') ≠ (d, p) := by
            intro h; injection h with h1 h2; exact hk ⟨h1, h2⟩
          rw [lookupExact_delete_other _ hwf _ _ hop t' v hd _ _ hq' hk, hm d' p' hq']; simp [this]

theorem runFrom_refines (ops : List (Op α)) : ∀ (st : Trie α × Nat) (m : RefMap α), Refines st m →
    (∀ op ∈ ops, op.Canonical) → Refines (runFrom st ops) (refRunFrom m ops) := by
  induction ops with
  | nil => intro st m h _; exact h
  | cons op ops ih =>
    intro st m h hc
    exact ih (step st op) (refStep m op) (step_refines st m h op (hc op (by simp)))
      (fun o ho => hc o (by simp [ho]))

/-- strictly sorted lists with the same members are equal -/
theorem pairwise_ext {β : Type} (R : β → β → Prop) (hasym : ∀ a b, R a b → ¬ R b a) :
    ∀ (l1 l2 : List β), l1.Pairwise R → l2.Pairwise R → (∀ x, x ∈ l1 ↔ x ∈ l2) → l1 = l2 := by
  intro l1
  induction l1 with
  | nil =>
    intro l2 _ _ h
    cases l2 with
    | nil => rfl
    | cons b bs => exact absurd ((h b).mpr (by simp)) (by simp)
  | cons a as ih =>
    intro l2 h1 h2 h
    cases l2 with
    | nil => exact absurd ((h a).mp (by simp)) (by simp)
    | cons b bs =>
      rw [List.pairwise_cons] at h1 h2
      have hab : a = b := by
        apply Classical.byContradiction
        intro hne
        have ha : a ∈ bs := by
          rcases List.mem_cons.mp ((h a).mp (by simp)) with h' | h'
          · exact absurd h' hne
          · exact h'
        have hb : b ∈ as := by
          rcases List.mem_cons.mp ((h b).mpr (by simp)) with h' | h'
          · exact absurd h'.symm hne
          · exact h'
        exact hasym _ _ (h1.1 b hb) (h2.1 a ha)
      subst hab
      congr 1
      apply ih bs h1.2 h2.2
      intro x
      constructor
      · intro hx
        rcases List.mem_cons.mp ((h x).mp (List.mem_cons_of_mem _ hx)) with h' | h'
        · subst h'; exact absurd (h1.1 x hx) (fun hr => hasym _ _ hr hr)
        · exact h'
      · intro hx
        rcases List.mem_cons.mp ((h x).mpr (List.mem_cons_of_mem _ hx)) with h' | h'
        · subst h'; exact absurd (h2.1 x hx) (fun hr => hasym _ _ hr hr)
        · exact h'

/-- the iteration of a well-formed trie is a function of the map it represents -/
theorem preorder_determined (t1 t2 : Trie α) (h1 : WF t1) (h2 : WF t2)
    (h : ∀ d p, Canon d p → lookupExact d p t1 0 = lookupExact d p t2 0) : preorder t1 = preorder t2 := by
  apply pairwise_ext entryLt (fun a b hab hba => keyLt_asymm hab hba) _ _ (preorder_sorted t1 h1) (preorder_sorted t2 h2)
  intro ⟨d, p, v⟩
  constructor
  · intro hm
    have hc := mem_canon h1 hm
    rw [← lookupExact_root t2 h2 d p hc, ← h d p hc, lookupExact_root t1 h1 d p hc]
    exact hm
  · intro hm
    have hc := mem_canon h2 hm
    rw [← lookupExact_root t1 h1 d p hc, h d p hc, lookupExact_root t2 h2 d p hc]
    exact hm

end Sdb.Lpm
