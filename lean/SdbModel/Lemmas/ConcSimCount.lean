import SdbModel.Lemmas.ConcSim

/-!
  ConcSimCount — the ghost counter `commits` of `Model.Serial` is the number of
  committing transactions on the table that have passed their store step, and
  that number can be counted on the threads of `Model.Conc`.  Core Lean only.
-/
namespace Sdb.Serial

/-- phases after the store / abort point -/
def pastStore : Phase → Bool
  | .stored => true
  | .done => true
  | _ => false

/-- transaction `t` is a committing transaction on table `x` past its commit point -/
def committedOn (x : Nat) (t : Txn) : Bool :=
  t.commit && decide (x ∈ t.tabs) && pastStore t.phase

theorem countP_set_same {α : Type} (p : α → Bool) : ∀ (l : List α) (i : Nat) (a b : α),
    l[i]? = some a → p b = p a → (l.set i b).countP p = l.countP p := by
  intro l
  induction l with
  | nil => intro i a b h; simp at h
  | cons c l ih =>
    intro i a b h hp
    cases i with
    | zero =>
      simp only [List.getElem?_cons_zero, Option.some.injEq] at h; subst h
      simp [List.countP_cons, hp]
    | succ i =>
      simp only [List.getElem?_cons_succ] at h
      simp [List.countP_cons, ih i a b h hp]

theorem countP_set_gain {α : Type} (p : α → Bool) : ∀ (l : List α) (i : Nat) (a b : α),
    l[i]? = some a → p a = false → p b = true → (l.set i b).countP p = l.countP p + 1 := by
  intro l
  induction l with
  | nil => intro i a b h; simp at h
  | cons c l ih =>
    intro i a b h hpa hpb
    cases i with
    | zero =>
      simp only [List.getElem?_cons_zero, Option.some.injEq] at h; subst h
      simp [hpa, hpb]
    | succ i =>
      simp only [List.getElem?_cons_succ] at h
      simp only [List.set_cons_succ, List.countP_cons, ih i a b h hpa hpb]
      omega

/-- `commits x` counts the committed transactions on `x` -/
theorem commits_eq_count (s : State) (h : Reachable s) (x : Nat) :
    s.commits x = s.txns.countP (committedOn x) := by
  induction h with
  | init => rfl
  | step s s' hr hst ih =>
    cases hst with
    | acquire i t k tb hi hp hk hfree =>
      show s.commits x = (setTxn s.txns i _).countP _
      unfold setTxn
      rw [countP_set_same _ _ _ t _ hi (by simp [committedOn, pastStore, hp]), ih]
    | load i t hi hp =>
      show s.commits x = (setTxn s.txns i _).countP _
      unfold setTxn
      rw [countP_set_same _ _ _ t _ hi (by simp [committedOn, pastStore, hp]), ih]
    | store i t hi hp hc =>
      show (if x ∈ t.tabs then s.commits x + 1 else s.commits x) = (setTxn s.txns i _).countP _
      unfold setTxn
      by_cases hx : x ∈ t.tabs
      · rw [if_pos hx, countP_set_gain _ _ _ t _ hi (by simp [committedOn, pastStore, hp]) (by simp [committedOn, pastStore, hc, hx]), ih]
      · rw [if_neg hx, countP_set_same _ _ _ t _ hi (by simp [committedOn, hx]), ih]
    | abort i t hi hp hc =>
      show s.commits x = (setTxn s.txns i _).countP _
      unfold setTxn
      rw [countP_set_same _ _ _ t _ hi (by simp [committedOn, hc]), ih]
    | release i t tb hi hp hk =>
      show s.commits x = (setTxn s.txns i _).countP _
      unfold setTxn
      rw [countP_set_same _ _ _ t _ hi (by simp [committedOn]), ih]
    | finish i t hi hp hk =>
      show s.commits x = (setTxn s.txns i _).countP _
      unfold setTxn
      rw [countP_set_same _ _ _ t _ hi (by simp [committedOn, pastStore, hp]), ih]
    | spawn t ha hp hr =>
      show s.commits x = (s.txns ++ [t]).countP _
      rw [List.countP_append, ih]
      simp [committedOn, pastStore, hp]

end Sdb.Serial

namespace Sdb.Conc
open Sdb.Serial (Txn Phase committedOn pastStore)

/-- number of COMMITTING writers (spawned with `commit = true`, flags `cs`) on
    table `x` whose `storeRoot` has been executed (it is no longer in the program) -/
def committedWriters (st : State) (cs : List Bool) (x : Nat) : Nat :=
  (st.threads.zip cs).countP fun p => p.2 && p.1.tables.contains x && !p.1.prog.contains (Micro.act .storeRoot)

theorem mem_map_acquire (L : List Nat) : Micro.act Act.storeRoot ∉ L.map Micro.acquire := by simp
theorem mem_map_release (L : List Nat) : Micro.act Act.storeRoot ∉ L.map Micro.release := by simp

/-- for a related thread / transaction pair the two "committed on `x`" predicates agree -/
theorem committed_pointwise (root : List TableV) (mu : Option Nat) (n tid : Nat) (th : Thread) (t : Txn)
    (hT : TRel root mu n tid th t) (x : Nat) :
    (t.commit && th.tables.contains x && !th.prog.contains (Micro.act .storeRoot)) = committedOn x t := by
  obtain ⟨htabs, hb, p, hp, hcs, hl⟩ := hT
  have hxt : decide (x ∈ t.tabs) = th.tables.contains x := by
    rw [htabs, List.contains_eq_mem]
    exact decide_eq_decide.2 (mem_lockList th x)
  unfold committedOn
  rw [hxt]
  cases hc : t.commit with
  | false => simp
  | true =>
    cases hx : th.tables.contains x with
    | false => simp
    | true =>
      simp only [Bool.and_self, Bool.true_and]
      have hxm : x ∈ th.tables := by simpa using hx
      have hmem : (Micro.act Act.storeRoot ∈ th.prog) ↔ (Micro.act Act.storeRoot ∈ code (lockList th) true p) := by
        rw [← hc, ← hp, mem_strip _ _ (by rfl)]
      rw [List.contains_eq_mem]
      cases p with
      | acq k =>
        have : Micro.act Act.storeRoot ∈ th.prog := hmem.2 (by simp [code, cEnd])
        simp [this, hl.1, pastStore]
      | clR =>
        have : Micro.act Act.storeRoot ∈ th.prog := hmem.2 (by simp [code, cEnd])
        simp [this, hl.1, pastStore]
      | clE =>
        have : Micro.act Act.storeRoot ∈ th.prog := hmem.2 (by simp [code, cEnd])
        simp [this, hl.1, pastStore]
      | uw =>
        have : Micro.act Act.storeRoot ∈ th.prog := hmem.2 (by simp [code, cEnd])
        simp [this, hl.1, pastStore]
      | aR =>
        have : Micro.act Act.storeRoot ∈ th.prog := hmem.2 (by simp [code])
        simp [this, hl.1, pastStore]
      | lc =>
        have : Micro.act Act.storeRoot ∈ th.prog := hmem.2 (by simp [code])
        simp [this, hl.1, pastStore]
      | mg =>
        have : Micro.act Act.storeRoot ∈ th.prog := hmem.2 (by simp [code])
        simp [this, hl.1, pastStore]
      | ci =>
        have : Micro.act Act.storeRoot ∈ th.prog := hmem.2 (by simp [code])
        simp [this, hl.1, pastStore]
      | sr =>
        have : Micro.act Act.storeRoot ∈ th.prog := hmem.2 (by simp [code])
        simp [this, hl.1, pastStore]
      | rR =>
        have : Micro.act Act.storeRoot ∉ th.prog := fun h => by simpa [code] using hmem.1 h
        simp [this, hl.1, pastStore]
      | rel k =>
        have : Micro.act Act.storeRoot ∉ th.prog := fun h => by
          have h' := hmem.1 h
          simp only [code, List.mem_map] at h'
          obtain ⟨_, _, h''⟩ := h'
          simp at h''
        obtain ⟨_, _, hph, _⟩ := hl
        cases hd : th.done <;> simp [this, hph, hd, pastStore]
      | gA => simp [hl.1] at hxm
      | gL => simp [hl.1] at hxm
      | gP => simp [hl.1] at hxm
      | gS => simp [hl.1] at hxm
      | gR => simp [hl.1] at hxm
      | gE => simp [hl.1] at hxm
      | dA => simp [hl.1] at hxm
      | dL => simp [hl.1] at hxm
      | dR => simp [hl.1] at hxm

theorem countP_pointwise {α β : Type} (p : α → Bool) (q : β → Bool) : ∀ (l₁ : List α) (l₂ : List β),
    l₁.length = l₂.length → (∀ (i : Nat) a b, l₁[i]? = some a → l₂[i]? = some b → p a = q b) →
    l₁.countP p = l₂.countP q := by
  intro l₁
  induction l₁ with
  | nil => intro l₂ hlen _; cases l₂ with
    | nil => rfl
    | cons _ _ => simp at hlen
  | cons a l₁ ih =>
    intro l₂ hlen h
    cases l₂ with
    | nil => simp at hlen
    | cons b l₂ =>
      have h0 : p a = q b := h 0 a b rfl rfl
      have ht := ih l₂ (by simpa using hlen) (fun i a' b' ha hb => h (i + 1) a' b' (by simpa using ha) (by simpa using hb))
      simp only [List.countP_cons, h0, ht]

/-- **no lost update, on `Model.Conc`**: in a state related to a reachable state
    of `Model.Serial` the committed counter of a table is the number of committing
    writers on it that have executed their `storeRoot` -/
theorem cnt_eq_committedWriters (st : State) (cs : List Bool) (h : Sim st cs) (x : Nat) (hx : x < st.root.length) :
    (getT st.root x).cnt = committedWriters st cs x := by
  obtain ⟨s, hs, hR, hcs⟩ := h
  rw [hR.root x hx, (Serial.inv_reachable s hs).serial x, Serial.commits_eq_count s hs x]
  unfold committedWriters
  symm
  apply countP_pointwise
  · rw [List.length_zip, ← hcs, List.length_map, hR.len]; simp
  · intro i a t ha ht
    obtain ⟨th, c⟩ := a
    rw [List.getElem?_zip_eq_some] at ha
    obtain ⟨hth, hc⟩ := ha
    obtain ⟨t', ht', hT⟩ := hR.thr i th hth
    rw [ht] at ht'; simp only [Option.some.injEq] at ht'; subst ht'
    have hct : c = t.commit := by
      rw [← hcs, List.getElem?_map, ht] at hc
      simpa using hc.symm
    simp only [hct]
    exact committed_pointwise _ _ _ _ th t hT x

end Sdb.Conc
