import SdbModel.Lemmas.ConcInitRun

/-!
  ConcInitOrder — the order of `storeRoot`, `notify`, the unlock loop and
  `closeInit` of a committing writer, expressed by what is still ahead in its
  program (read off the position invariant of `CI`).  Core Lean only.
-/
namespace Sdb.Conc

/-- the order of the channel actions of a COMMITTING writer, by what is still
    ahead in its program -/
structure CommitOrder (th : Thread) : Prop where
  notify_after_store : Micro.act .notify ∉ th.prog → Micro.act .storeRoot ∉ th.prog
  closeInit_after_notify : Micro.act .closeInit ∉ th.prog → Micro.act .notify ∉ th.prog
  closeInit_after_unlock : Micro.act .closeInit ∉ th.prog → ∀ x, Micro.release x ∉ th.prog
  store_after_writes : Micro.act .storeRoot ∉ th.prog → Micro.userWrites ∉ th.prog
  locked_until_notified : Micro.act .storeRoot ∉ th.prog → Micro.act .notify ∈ th.prog →
    ∀ x ∈ th.tables, Micro.release x ∈ th.prog ∧ Micro.acquire x ∉ th.prog
  locked_at_store : Micro.userWrites ∉ th.prog → Micro.act .storeRoot ∈ th.prog →
    ∀ x ∈ th.tables, Micro.release x ∈ th.prog ∧ Micro.acquire x ∉ th.prog

theorem commitOrder_of_pos (root : List TableV) (nc : Nat) (th : Thread) (p : Pos2)
    (hp : strip2 th.prog = code2 (lockList th) true p) (hl : Loc root nc th true p) : CommitOrder th := by
  have m1 : ∀ m, relevant2 m = true → (m ∈ th.prog ↔ m ∈ code2 (lockList th) true p) := by
    intro m hm; rw [← hp, mem_strip2 _ _ hm]
  have hsr := m1 (.act .storeRoot) rfl
  have hnt := m1 (.act .notify) rfl
  have hcl := m1 (.act .closeInit) rfl
  have huw := m1 .userWrites rfl
  have hrel := fun x => m1 (.release x) rfl
  have hacq := fun x => m1 (.acquire x) rfl
  have hmem := fun x => (mem_lockList th x)
  constructor
  · rw [hsr, hnt]
    cases p <;> simp_all [-List.map_drop, code2, cEnd2, csTail, relTail, Loc]
  · rw [hcl, hnt]
    cases p <;> simp_all [-List.map_drop, code2, cEnd2, csTail, relTail, Loc]
  · rw [hcl]; intro h x; rw [hrel x]; revert h
    cases p <;> simp_all [-List.map_drop, code2, cEnd2, csTail, relTail, Loc]
  · rw [hsr, huw]
    cases p <;> simp_all [-List.map_drop, code2, cEnd2, csTail, relTail, Loc]
  · rw [hsr, hnt]; intro h1 h2 x hx; rw [hrel x, hacq x]; rw [← hmem x] at hx; revert h1 h2
    cases p <;> simp_all [-List.map_drop, code2, cEnd2, csTail, relTail, Loc]
  · rw [hsr, huw]; intro h1 h2 x hx; rw [hrel x, hacq x]; rw [← hmem x] at hx; revert h1 h2
    cases p <;> simp_all [-List.map_drop, code2, cEnd2, csTail, relTail, Loc]

theorem commitOrder (st : State) (cs : List Bool) (run : Option Nat) (h : CI st cs run) (j : Nat) (T : Thread)
    (hT : st.threads[j]? = some T) (hc : cs[j]? = some true) : CommitOrder T := by
  obtain ⟨c, hc', _, _, p, hp, hl⟩ := h.TH j T hT
  rw [hc] at hc'; simp only [Option.some.injEq] at hc'; subst hc'
  exact commitOrder_of_pos _ _ T p hp hl

end Sdb.Conc
