import SdbModel.Lemmas.ArtInv

/-! Root-only-watch mode of Model.Art: trees carry no per-node channel, so Get
    and Prefix hand out the root watch. -/
set_option linter.unusedSimpArgs false
namespace Sdb.ArtW
open Sdb.Art

/-! ## root-only-watch mode: no per-node channels -/

def AllZ (n : Node) : Prop := ∀ c, c ≠ 0 → cnt c n = 0
def AllZK (k : Kids) : Prop := ∀ c, c ≠ 0 → cntK c k = 0

theorem AllZ.inner {kind : Nat} {p : List Nat} {lf : Option LeafD} {kids : Kids} {w t : Nat}
    (h : AllZ (.inner kind p lf kids w t)) : w = 0 ∧ AllZK kids := by
  constructor
  · rcases Nat.eq_zero_or_pos w with h0 | h0
    · exact h0
    · have := h w (by omega)
      simp [cnt] at this
  · intro c hc
    have := h c hc
    simp only [cnt] at this; omega

theorem AllZK.cons {a : Nat} {n : Node} {r : Kids} (h : AllZK (.cons a n r)) : AllZ n ∧ AllZK r := by
  constructor
  · intro c hc; have := h c hc; simp only [cntK] at this; omega
  · intro c hc; have := h c hc; simp only [cntK] at this; omega

theorem fresh_ro (st : St) (h : st.rootOnly = true) : st.fresh.1 = st := by
  unfold St.fresh; simp [h]

theorem freshIf_zero (st : St) : (st.freshIf 0).1 = st := by
  unfold St.freshIf; simp

theorem record_ro (st : St) (w : Nat) : (st.record w).rootOnly = st.rootOnly := (record_le st w).ro

theorem cloneNode_ro (st : St) (n : Node) (h : st.rootOnly = true) : (cloneNode st n).1.nextW = st.nextW := by
  unfold cloneNode
  split
  · rfl
  · cases n <;> (simp only; rw [fresh_ro _ ((record_ro st _).trans h), record_nextW])

theorem cloneLeafD_ro (st : St) (d : LeafD) (h : st.rootOnly = true) : (cloneLeafD st d).1.nextW = st.nextW := by
  unfold cloneLeafD
  split
  · rfl
  · simp only; rw [fresh_ro _ ((record_ro st _).trans h), record_nextW]

theorem newLeafD_ro (st : St) (full : List Nat) (v : Nat) (h : st.rootOnly = true) :
    (newLeafD st full v).1.nextW = st.nextW := by
  unfold newLeafD; simp only; rw [fresh_ro _ h]

theorem insAt_ro (P : ArtParams) (st : St) (n : Node) (key full : List Nat) (val : Nat)
    (mod : Option (Nat → Nat → Nat)) (h : st.rootOnly = true) : (insAt P st n key full val mod).st.nextW = st.nextW := by
  have hc := cloneNode_ro st n h
  have hcr : (cloneNode st n).1.rootOnly = true := (cloneNode_le st n).ro.trans h
  unfold insAt
  simp only
  split
  · split
    · exact hc
    · rename_i d _ _ _ _; show (cloneLeafD (cloneNode st n).1 d).1.nextW = _; rw [cloneLeafD_ro _ _ hcr, hc]
    · show (newLeafD (cloneNode st n).1 full val).1.nextW = _; rw [newLeafD_ro _ _ _ hcr, hc]
  · cases n with
    | leaf p d =>
      show ((newLeafD st full val).1.fresh.1).nextW = _
      rw [fresh_ro _ ((newLeafD_le st full val).ro.trans h), newLeafD_ro _ _ _ h]
    | inner k p lf kids w t =>
      show ((newLeafD (cloneNode st (.inner k p lf kids w t)).1 full val).1.fresh.1).nextW = _
      rw [fresh_ro _ ((newLeafD_le _ full val).ro.trans hcr), newLeafD_ro _ _ _ hcr, hc]

mutual
theorem insNode_ro (P : ArtParams) (st : St) (h : st.rootOnly = true) : (n : Node) → (key full : List Nat) → (val : Nat) →
    (mod : Option (Nat → Nat → Nat)) → AllZ n → (insNode P st n key full val mod).st.nextW = st.nextW
  | .leaf p d, key, full, val, mod, _ => by
    unfold insNode; exact insAt_ro P st _ key full val mod h
  | .inner kind pfx lf kids w t, key, full, val, mod, hz => by
    obtain ⟨hw, hzk⟩ := hz.inner
    unfold insNode
    split
    · simp only
      split
      · rename_i r kids' hk
        have hle := insKids_le P st kids _ _ full val mod r kids' hk
        have h1 := insKids_ro P st h kids _ _ full val mod r kids' hzk hk
        show (cloneNode r.st _).1.nextW = _
        rw [cloneNode_ro _ _ (hle.ro.trans h), h1]
      · split
        · show (((newLeafD st full val).1.record w).freshIf w).1.nextW = _
          rw [hw, freshIf_zero, record_nextW, newLeafD_ro _ _ _ h]
        · show (cloneNode (newLeafD st full val).1 _).1.nextW = _
          rw [cloneNode_ro _ _ ((newLeafD_le st full val).ro.trans h), newLeafD_ro _ _ _ h]
    · exact insAt_ro P st _ key full val mod h
theorem insKids_ro (P : ArtParams) (st : St) (h : st.rootOnly = true) : (kids : Kids) → (b : Nat) → (key full : List Nat) →
    (val : Nat) → (mod : Option (Nat → Nat → Nat)) → (r : InsRes) → (kids' : Kids) → AllZK kids →
    insKids P st kids b key full val mod = some (r, kids') → r.st.nextW = st.nextW
  | .nil, b, key, full, val, mod, r, kids', _, hh => by simp [insKids] at hh
  | .cons a n rest, b, key, full, val, mod, r, kids', hz, hh => by
    obtain ⟨hzn, hzr⟩ := hz.cons
    unfold insKids at hh
    split at hh
    · simp only [Option.some.injEq, Prod.mk.injEq] at hh
      rw [← hh.1]; exact insNode_ro P st h n key full val mod hzn
    · split at hh
      · split at hh
        · rename_i r' rest' hk
          simp only [Option.some.injEq, Prod.mk.injEq] at hh
          rw [← hh.1]; exact insKids_ro P st h rest b key full val mod r' rest' hzr hk
        · simp at hh
      · simp at hh
end

theorem removeChild_ro (P : ArtParams) (st : St) (kind : Nat) (pfx : List Nat) (lf : Option LeafD) (kids : Kids)
    (t b : Nat) (h : st.rootOnly = true) : (removeChild P st kind pfx lf kids 0 t b).1.nextW = st.nextW := by
  unfold removeChild
  simp only
  split
  · split <;> exact record_nextW _ _
  · split
    · show ((st.freshIf 0).1.record 0).nextW = _
      rw [record_nextW, freshIf_zero]
    · exact cloneNode_ro _ _ h

theorem delAt_ro (st : St) (n : Node) (h : st.rootOnly = true) (st' : St) (hd : delSt (delAt st n) = some st') :
    st'.nextW = st.nextW := by
  unfold delAt at hd
  split at hd
  · simp [delSt] at hd
  · cases n with
    | leaf p d =>
      simp only [delSt, Option.some.injEq] at hd
      rw [← hd, record_nextW, record_nextW]
    | inner kind pfx lf kids w t =>
      simp only at hd
      split at hd
      · split at hd
        · simp only [delSt, Option.some.injEq] at hd
          rw [← hd, record_nextW, record_nextW]
        · simp [delSt] at hd
      · split at hd
        · simp only [delSt, Option.some.injEq] at hd
          rw [← hd, cloneNode_ro _ _ ((record_ro _ _).trans h), record_nextW]
        · simp only [delSt, Option.some.injEq] at hd
          rw [← hd, record_nextW, record_nextW]

mutual
theorem delNode_ro (P : ArtParams) (st : St) (h : st.rootOnly = true) : (n : Node) → (key : List Nat) → (st' : St) →
    AllZ n → delSt (delNode P st n key) = some st' → st'.nextW = st.nextW
  | .leaf p d, key, st', _, hd => delAt_ro st _ h st' (delNode_leaf_inv P st p d key st' hd).2
  | .inner kind pfx lf kids w t, key, st', hz, hd => by
    obtain ⟨hw, hzk⟩ := hz.inner
    subst hw
    obtain ⟨_, hd⟩ := delNode_inner_inv P st kind pfx lf kids 0 t key st' hd
    rcases hd with ⟨_, hd⟩ | ⟨b, r, _, ⟨st1, n1, old, kids', hdk, he⟩ | ⟨st1, old, kids', hdk, he⟩⟩
    · exact delAt_ro st _ h st' hd
    · have hle := delKids_le P st kids b _ _ kids' st1 hdk rfl
      rw [he, cloneNode_ro _ _ (hle.ro.trans h)]
      exact delKids_ro P st h kids b _ _ kids' st1 hzk hdk rfl
    · have hle := delKids_le P st kids b _ _ kids' st1 hdk rfl
      rw [he, removeChild_ro P st1 kind pfx lf kids t b (hle.ro.trans h)]
      exact delKids_ro P st h kids b _ _ kids' st1 hzk hdk rfl
theorem delKids_ro (P : ArtParams) (st : St) (h : st.rootOnly = true) : (kids : Kids) → (b : Nat) → (key : List Nat) →
    (r : DelRes) → (kids' : Kids) → (st' : St) → AllZK kids → delKids P st kids b key = some (r, kids') →
    delSt r = some st' → st'.nextW = st.nextW
  | .nil, b, key, r, kids', st', _, hh, _ => by simp [delKids] at hh
  | .cons a n rest, b, key, r, kids', st', hz, hh, hr => by
    obtain ⟨hzn, hzr⟩ := hz.cons
    rcases delKids_inv P st a n rest b key r kids' hh with ⟨_, he⟩ | ⟨_, rest', hk⟩
    · rw [he] at hr; exact delNode_ro P st h n key st' hzn hr
    · exact delKids_ro P st h rest b key r rest' st' hzr hk hr
end

theorem Tr.allZ {st st' : St} {c o n : Nat} (h : Tr st st' c o n) (hnw : st'.nextW = st.nextW) (ho : o = 0) : n = 0 := by
  unfold Tr frsh at h
  have : ¬ (st.nextW ≤ c ∧ c < st'.nextW) := by omega
  rw [if_neg this] at h
  omega

/-- root-only mode: the transaction's tree has no per-node channel -/
def ROInv (x : Txn) : Prop := x.st.rootOnly = true ∧ ∀ c, c ≠ 0 → cntR c x.root = 0
def ROTree (t : Tree) : Prop := t.rootOnly = true → ∀ c, c ≠ 0 → cntR c t.root = 0

theorem ROInv.insert {x : Txn} (P : ArtParams) (h : ROInv x) (k : List Nat) (v : Nat) (m : Option (Nat → Nat → Nat)) :
    ROInv (x.insert P k v m).1 := by
  refine ⟨(later_insert P x k v m).ro.trans h.1, ?_⟩
  intro c hc
  unfold Txn.insert
  cases hr : x.root with
  | none =>
    simp only [cntR, cnt]
    have := Tr.newLeafD x.st k v c hc
    exact this.allZ (newLeafD_ro _ _ _ h.1) rfl
  | some r =>
    simp only [cntR]
    have hz : AllZ r := fun c hc => by have := h.2 c hc; rw [hr] at this; exact this
    exact (insNode_tr P x.st c hc r k k v m).allZ (insNode_ro P x.st h.1 r k k v m hz) (hz c hc)

theorem ROInv.delete {x : Txn} (P : ArtParams) (h : ROInv x) (k : List Nat) : ROInv (x.delete P k).1 := by
  refine ⟨(later_delete P x k).ro.trans h.1, ?_⟩
  intro c hc
  unfold Txn.delete
  cases hr : x.root with
  | none => simp [cntR, hr]
  | some r =>
    simp only
    have hz : AllZ r := fun c hc => by have := h.2 c hc; rw [hr] at this; exact this
    cases hd : delNode P x.st r k with
    | notFound => simp only [hr, cntR]; exact hz c hc
    | replaced st n old =>
      simp only [cntR]
      have hds : delSt (delNode P x.st r k) = some st := by rw [hd]; rfl
      have := delNode_tr P x.st c hc r k st hds
      rw [hd] at this
      exact this.allZ (delNode_ro P x.st h.1 r k st hz hds) (hz c hc)
    | removed st old => simp [cntR]

theorem ROInv.run {x : Txn} (P : ArtParams) (h : ROInv x) (ops : List Op) : ROInv (run P x ops) := by
  induction ops generalizing x with
  | nil => exact h
  | cons o ops ih =>
    apply ih
    cases o with
    | insert k v m => exact h.insert P k v m
    | delete k => exact h.delete P k
    | bump => exact h

theorem Reach.roTree {P : ArtParams} {t : Tree} (h : Reach P t) : ROTree t := by
  induction h with
  | new wd ro => intro _ c _; simp [newTree, cntR]
  | commit t wd wd' ops _ ih =>
    intro hro
    have hro' : t.rootOnly = true := by
      have := (later_run P (t.txn wd) ops).ro
      simp only [Txn.commit, Txn.bump] at hro
      rw [this] at hro; exact hro
    have hx : ROInv (t.txn wd) := ⟨hro', ih hro'⟩
    exact (hx.run P ops).2
  | clone t wd ops _ ih =>
    intro hro
    have hro' : t.rootOnly = true := by
      have := (later_run P (t.txn wd) ops).ro
      simp only [Txn.clone, Txn.bump] at hro
      rw [this] at hro; exact hro
    have hx : ROInv (t.txn wd) := ⟨hro', ih hro'⟩
    exact (hx.run P ops).2

/-- in root-only mode Get and Prefix hand out the root watch -/
theorem ro_get_is_root (root : Option Node) (w : Nat) (hz : ∀ c, c ≠ 0 → cntR c root = 0) (k : List Nat) :
    (getRoot root w k).2 = w ∧ (prefixRoot root w k).2 = w := by
  cases root with
  | none => exact ⟨rfl, rfl⟩
  | some r =>
    constructor
    · rcases searchNode_mem r w k with h | ⟨h0, h1⟩
      · exact h
      · have := hz _ h0; simp only [cntR] at this; omega
    · rcases prefixNode_mem r w k with h | ⟨h0, h1⟩
      · exact h
      · have := hz _ h0; simp only [cntR] at this; omega


/-! ## channels of an open transaction -/

/-- channels handed out by Get / Prefix on an OPEN transaction (after any calls)
    are not closed either -/
theorem TreeInv.in_txn_open {wd : World} {t : Tree} (h : TreeInv wd t) (P : ArtParams) (ops : List Op) (k : List Nat) :
    ((getRoot (run P (t.txn wd) ops).root (run P (t.txn wd) ops).rootWatch k).2 ≠ 0 →
      (getRoot (run P (t.txn wd) ops).root (run P (t.txn wd) ops).rootWatch k).2 ∉ wd.closed) ∧
    ((prefixRoot (run P (t.txn wd) ops).root (run P (t.txn wd) ops).rootWatch k).2 ≠ 0 →
      (prefixRoot (run P (t.txn wd) ops).root (run P (t.txn wd) ops).rootWatch k).2 ∉ wd.closed) := by
  have hw := h.txn.run P ops
  have hl := later_run P (t.txn wd) ops
  have hrw : (run P (t.txn wd) ops).rootWatch = t.rootWatch := hl.rw
  generalize run P (t.txn wd) ops = x at hw hrw
  have key : ∀ c, c ≠ 0 → (c = x.rootWatch ∨ 1 ≤ cntR c x.root) → c ∉ wd.closed := by
    intro c hc0 hc hcl
    rcases hc with hc | hc
    · rw [hc, hrw] at hc0 hcl; exact h.rw_nc hc0 hcl
    · have := hw.av_nt c (List.mem_cons_of_mem _ hcl) hc0; omega
  constructor
  · intro h0
    apply key _ h0
    unfold getRoot
    cases hr : x.root with
    | none => left; rfl
    | some r =>
      rcases searchNode_mem r x.rootWatch k with he | ⟨_, h1⟩
      · left; exact he
      · right; exact h1
  · intro h0
    apply key _ h0
    unfold prefixRoot
    cases hr : x.root with
    | none => left; rfl
    | some r =>
      rcases prefixNode_mem r x.rootWatch k with he | ⟨_, h1⟩
      · left; exact he
      · right; exact h1


end Sdb.ArtW
