import SdbModel.Lemmas.TableWatchReach
/-!
  Lemmas for the C06 glue, part 6: keep-or-close.  The channel a query was given on a
  committed index is, after the Commit (+ Notify) of any transaction, either closed or
  still the channel the same query is given on the new tree.  With the glue theorem
  this extends "a changed result closes the channel" from the state directly before
  the committing transaction to every retained snapshot, any number of transactions
  later.  (Built on the frame lemmas of C12: `run_keeps`, `txn_step_pframe`.)
  Core Lean only.
-/
namespace Sdb.TW
open Sdb.Art Sdb.Tbl Sdb.ArtW

/-- several calls: a Prefix channel found in the tree the transaction was opened on is, after the
    calls, recorded or still the one found in the current tree (the `prefix` twin of `run_keeps`) -/
theorem run_pkeeps {B : Nat} (P : ArtParams) (root0 : Option Node) (q : List Nat) (ops : List ArtW.Op) :
    ∀ x : Txn, MInv B x →
      (∀ c, ppwR root0 q = some c → c < B → c ∈ x.st.pending ∨ ppwR x.root q = some c) →
      (∀ c, ppwR root0 q = some c → c < B → c ∈ (ArtW.run P x ops).st.pending ∨ ppwR (ArtW.run P x ops).root q = some c) := by
  induction ops with
  | nil => intro x _ hk; exact hk
  | cons o ops ih =>
    intro x h hk
    rw [ArtW.run_cons]
    apply ih (ArtW.step P x o) (h.step P o)
    intro c hc0 hcB
    rcases hk c hc0 hcB with hx | hx
    · exact Or.inl ((later_step P x o).sub _ hx)
    · rcases txn_step_pframe P h q o c hx with hy | hy | hy
      · omega
      · exact Or.inl hy
      · exact Or.inr hy

section tree
variable {wd : World} {t : Tree}

/-- what Commit + Notify of `x` (a run on `t.txn wd`) leave behind -/
theorem commit_notify_facts (aops : List ArtW.Op) :
    let x := ArtW.run AP (t.txn wd) aops
    (x.commit wd).2.1.root = x.root ∧
    (x.commit wd).2.1.rootWatch = (if x.dirty then x.st.nextW else t.rootWatch) ∧
    (∀ c, c ∈ x.st.pending → c ∈ ((x.commit wd).1.notify (x.commit wd).2.2).2.closed) ∧
    (x.dirty = true → t.rootWatch ≠ 0 → t.rootWatch ∈ ((x.commit wd).1.notify (x.commit wd).2.2).2.closed) ∧
    (x.dirty = false → x.root = t.root) := by
  intro x
  obtain ⟨f1, f2, f3, _, _⟩ := commit_facts x wd
  have hl : Later (t.txn wd) x := later_run AP _ aops
  have hrw : x.rootWatch = t.rootWatch := hl.rw
  refine ⟨f2, ?_, ?_, ?_, ?_⟩
  · rw [f3, hrw]
  · intro c hc
    rw [notify_closed]
    right; left
    rw [f1]; exact hc
  · intro hd h0
    rw [notify_closed]
    right; right
    rw [f1]
    exact ⟨hd, by show x.rootWatch ≠ 0; rw [hrw]; exact h0, by show t.rootWatch = x.rootWatch; rw [hrw]⟩
  · intro hd
    have : anyChange AP (t.txn wd) aops = false := by
      have := run_dirty AP (t.txn wd) aops
      rw [hd] at this
      cases h : anyChange AP (t.txn wd) aops with
      | false => rfl
      | true => rw [h] at this; simp at this
    exact (run_unchanged AP (t.txn wd) aops this).1

theorem keep_or_close_get (hinv : ArtW.TreeInv wd t) (hst : ArtW.TreeWF t) (hrw : t.rootWatch ≠ 0)
    (aops : List ArtW.Op) (k : Key) :
    let x := ArtW.run AP (t.txn wd) aops
    (getRoot t.root t.rootWatch k).2 ∈ ((x.commit wd).1.notify (x.commit wd).2.2).2.closed ∨
    (getRoot (x.commit wd).2.1.root (x.commit wd).2.1.rootWatch k).2 = (getRoot t.root t.rootWatch k).2 := by
  intro x
  obtain ⟨g1, g2, g3, g4, g5⟩ := commit_notify_facts (wd := wd) (t := t) aops
  have hlt := hinv.get_lt k (getRoot_ne_zero _ _ hrw k)
  rw [getRoot_eq_pwR] at hlt
  rw [getRoot_eq_pwR, getRoot_eq_pwR, g1]
  cases hp : pwR t.root k with
  | none =>
    simp only [Option.getD_none]
    cases hd : x.dirty with
    | true => left; exact g4 hd hrw
    | false =>
      right
      rw [g5 hd, hp, g2]
      simp [x, hd]
  | some c =>
    rw [hp] at hlt
    simp only [Option.getD_some] at hlt ⊢
    cases hr : t.root with
    | none => rw [hr] at hp; simp [pwR] at hp
    | some r =>
      have hm := MInv.txn hst wd r hr
      rcases run_keeps (B := wd.nextW) AP t.root k aops (t.txn wd) hm (fun c hc _ => Or.inr hc) c hp hlt with h | h
      · left; exact g3 c h
      · right; rw [h]; rfl

theorem keep_or_close_prefix (hinv : ArtW.TreeInv wd t) (hst : ArtW.TreeWF t) (hrw : t.rootWatch ≠ 0)
    (aops : List ArtW.Op) (q : Key) :
    let x := ArtW.run AP (t.txn wd) aops
    (prefixRoot t.root t.rootWatch q).2 ∈ ((x.commit wd).1.notify (x.commit wd).2.2).2.closed ∨
    (prefixRoot (x.commit wd).2.1.root (x.commit wd).2.1.rootWatch q).2 = (prefixRoot t.root t.rootWatch q).2 := by
  intro x
  obtain ⟨g1, g2, g3, g4, g5⟩ := commit_notify_facts (wd := wd) (t := t) aops
  have hlt := hinv.prefix_lt q (prefixRoot_ne_zero _ _ hrw q)
  rw [prefixRoot_eq_ppwR] at hlt
  rw [prefixRoot_eq_ppwR, prefixRoot_eq_ppwR, g1]
  cases hp : ppwR t.root q with
  | none =>
    simp only [Option.getD_none]
    cases hd : x.dirty with
    | true => left; exact g4 hd hrw
    | false =>
      right
      rw [g5 hd, hp, g2]
      simp [x, hd]
  | some c =>
    rw [hp] at hlt
    simp only [Option.getD_some] at hlt ⊢
    cases hr : t.root with
    | none => rw [hr] at hp; simp [ppwR] at hp
    | some r =>
      have hm := MInv.txn hst wd r hr
      rcases run_pkeeps (B := wd.nextW) AP t.root q aops (t.txn wd) hm (fun c hc _ => Or.inr hc) c hp hlt with h | h
      · left; exact g3 c h
      · right; rw [h]; rfl

theorem keep_or_close_root (hrw : t.rootWatch ≠ 0) (aops : List ArtW.Op) :
    let x := ArtW.run AP (t.txn wd) aops
    t.rootWatch ∈ ((x.commit wd).1.notify (x.commit wd).2.2).2.closed ∨ (x.commit wd).2.1.rootWatch = t.rootWatch := by
  intro x
  obtain ⟨_, g2, _, g4, _⟩ := commit_notify_facts (wd := wd) (t := t) aops
  cases hd : x.dirty with
  | true => left; exact g4 hd hrw
  | false => right; rw [g2]; simp [x, hd]

end tree

/-- **keep-or-close for one index**: after the commit of a tracked transaction the channel of a query is
    closed, or the query is given the same channel on the new committed tree -/
theorem CIdx.keep_or_close {c : CIdx} {m0 m : OMap Obj} {w : WIdx} (h : CInv c m0) (ht : Track c.wd w m0 m)
    (hw : w.tree = c.tree) (u : Bool) (kind : QKind) (key : Key) :
    partChan u (Tree.view c.tree) kind key ∈ (c.commit w).wd.closed ∨
    partChan u (Tree.view (c.commit w).tree) kind key = partChan u (Tree.view c.tree) kind key := by
  unfold CIdx.commit
  cases hx : w.txn with
  | none => right; rfl
  | some x =>
    simp only
    obtain ⟨aops, hrun, _⟩ := ht.some_run x hx
    rw [hw] at hrun
    subst hrun
    unfold partChan Tree.view
    cases kind <;> cases u <;> simp only [Bool.false_eq_true, if_false, if_true] <;>
      first
      | exact keep_or_close_get h.inv h.stamps h.rw0 aops _
      | exact keep_or_close_prefix h.inv h.stamps h.rw0 aops _
      | exact keep_or_close_root h.rw0 aops

theorem LIdx.keep_or_close (l : LIdx) (w : LW) : l.ch ∈ (l.commit w).wd.closed ∨ (l.commit w).ch = l.ch := by
  unfold LIdx.commit
  split
  · left; simp
  · right; rfl

end Sdb.TW
