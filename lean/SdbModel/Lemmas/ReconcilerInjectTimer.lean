import SdbModel.Lemmas.ReconcilerInjectRound

/-!
  Lemmas.ReconcilerInjectTimer — the retry timer invariant `QInv` through a round
  in which user writes land during Updates, and the invariant `JWInv` of all
  states reachable with such writes (bookkeeping `JRInv` + timer `QInv`).
-/
namespace Sdb.Rec

theorem QInv.landAll {P : Nat → Prop} {r : R} (h : QInv P r) (acts : List (Nat × Inject)) : QInv P (r.landAll acts) := by
  have hW := frameW_landAll acts r
  exact h.congr hW.items hW.timer hW.now

theorem ncf_landAll (r : R) (acts : List (Nat × Inject)) : NCF r (r.landAll acts) := by
  have hW := frameW_landAll acts r
  exact ⟨hW.now, hW.cfg, hW.failing⟩

theorem QInv.preUpdate {P : Nat → Prop} {r : R} (h : QInv P r) (obj : RObj) (rev : Nat) : QInv P (r.preUpdate obj rev) := by
  unfold R.preUpdate
  dsimp only
  split
  · exact h.congr rfl rfl rfl
  · apply QInv.retryClear; exact h.congr rfl rfl rfl

theorem ncf_preUpdate (r : R) (obj : RObj) (rev : Nat) : NCF r (r.preUpdate obj rev) := by
  obtain ⟨_, _, _, _, _, _, _, _, _, _, p11, p12, p13, _⟩ := preUpdate_facts r obj rev
  exact ⟨p12, p11, p13⟩

/-- `processSingle`, whatever is queued in `injects` -/
theorem QInv.processSingleJ {P : Nat → Prop} {r : R} (h : QInv P r) (hp : r.failing ≠ [] → PAdd P r)
    (obj : RObj) (rev : Nat) (del : Bool) (hnq : del = true → ∀ it ∈ r.items, it.id = obj.id → it.inQueue = false) :
    QInv P (r.processSingle obj rev del) ∧ NCF r (r.processSingle obj rev del) ∧
    ∀ res ∈ (r.processSingle obj rev del).results, res ∈ r.results ∨ (res.2.2.2.2 = true → r.failing ≠ []) := by
  cases del with
  | false =>
    rw [processSingle_update_land]
    refine ⟨(h.preUpdate obj rev).landAll _, (ncf_preUpdate r obj rev).trans (ncf_landAll _ _), fun res hres => ?_⟩
    rw [(frameW_landAll _ _).results, (preUpdate_facts r obj rev).2.2.2.2.2.2.2.2.1] at hres
    rcases List.mem_append.1 hres with a | a
    · exact Or.inl a
    · simp only [List.mem_singleton] at a
      rw [a]
      exact Or.inr (fun hf => failing_ne_nil hf)
  | true =>
    rw [processSingle_delete]
    split
    · rename_i hf
      refine ⟨?_, ⟨rfl, rfl, rfl⟩, fun res hres => Or.inl hres⟩
      apply QInv.retryAdd
      · exact h.congr rfl rfl rfl
      · exact (hp (failing_ne_nil hf)).congr rfl rfl
      · exact hnq rfl
    · refine ⟨by apply QInv.retryClear; exact h.congr rfl rfl rfl, ⟨by simp, by simp, by simp⟩, fun res hres => ?_⟩
      rw [retryClear_results] at hres
      exact Or.inl hres

theorem QInv.commitOneJ {P : Nat → Prop} {r : R} (h : QInv P r) (res : Res) {rs : List Res} (hI : JInv r (res :: rs))
    (hp : res.2.2.2.2 = true → PAdd P r) : QInv P (r.commitOne res) := by
  obtain ⟨obj, orig, rev, sid, failed⟩ := res
  obtain ⟨horig, _, _, _, hlive⟩ := hI.resOK _ (List.mem_cons_self ..)
  simp only at horig hlive
  subst horig
  unfold R.commitOne
  simp only
  split
  · exact h
  · rename_i cur hg
    rw [get_eq_some_iff hI.tinv] at hg
    split
    · rename_i hrev
      split
      · rename_i hf
        apply QInv.retryAdd
        · exact h.congr rfl rfl rfl
        · exact (hp hf).congr rfl rfl
        · intro it hit hid
          exact ((hlive cur hg.1 hg.2 (Or.inl hrev)).2.2.2 it hit hid).1
      · exact h.congr rfl rfl rfl
    · rename_i hrev
      split
      · rename_i hk
        split
        · rename_i hf
          apply QInv.retryAdd
          · exact h.congr rfl rfl rfl
          · exact (hp hf).congr rfl rfl
          · intro it hit hid
            exact ((hlive cur hg.1 hg.2 (Or.inr hk)).2.2.2 it hit (by have := hg.2; omega)).1
        · exact h.congr rfl rfl rfl
      · exact h

theorem QInv.foldl_commitOneJ {P : Nat → Prop} (rs : List Res) {r : R} (h : QInv P r) (hI : JInv r rs)
    (hp : ∀ res ∈ rs, res.2.2.2.2 = true → PAdd P r) : QInv P (rs.foldl R.commitOne r) := by
  induction rs generalizing r with
  | nil => exact h
  | cons x xs ih =>
    refine ih (h.commitOneJ x hI (hp x (List.mem_cons_self ..))) hI.commitOne (fun res hres hf => ?_)
    have hrel := commitRel_commitOne r x
    exact (hp res (List.mem_cons_of_mem _ hres) hf).congr hrel.now hrel.cfg

theorem QInv.commitStatusJ {P : Nat → Prop} {r : R} (h : QInv P r) (hI : JInv r r.results)
    (hp : ∀ res ∈ r.results, res.2.2.2.2 = true → PAdd P r) : QInv P r.commitStatus :=
  (h.foldl_commitOneJ r.results hI hp).congr rfl rfl rfl

/-- `QInv` inside a round (writes may land) -/
structure QRJ (P : Nat → Prop) (r : R) : Prop where
  q : QInv P r
  hp : r.failing ≠ [] → PAdd P r
  hres : ∀ res ∈ r.results, res.2.2.2.2 = true → r.failing ≠ []

theorem QRJ.congr {P : Nat → Prop} {r r' : R} (h : QRJ P r) (h1 : r'.items = r.items) (h2 : r'.timer = r.timer)
    (h4 : r'.failing = r.failing) (h5 : r'.now = r.now) (h6 : r'.cfg = r.cfg)
    (h7 : r'.results = r.results) : QRJ P r' := by
  refine ⟨h.q.congr h1 h2 h5, ?_, ?_⟩
  · rw [h4]; exact fun e => (h.hp e).congr h5 h6
  · rw [h4, h7]; exact h.hres

theorem QRJ.processSingle {P : Nat → Prop} {r : R} (h : QRJ P r) (obj : RObj) (rev : Nat) (del : Bool)
    (hnq : del = true → ∀ it ∈ r.items, it.id = obj.id → it.inQueue = false) :
    QRJ P (r.processSingle obj rev del) ∧ NCF r (r.processSingle obj rev del) := by
  obtain ⟨hq, hn, hres⟩ := h.q.processSingleJ h.hp obj rev del hnq
  refine ⟨⟨hq, ?_, ?_⟩, hn⟩
  · rw [hn.2.2]; exact fun e => (h.hp e).congr hn.1 hn.2.1
  · rw [hn.2.2]
    intro res hr hfl
    rcases hres res hr with a | a
    · exact h.hres res a hfl
    · exact a hfl

theorem QRJ.retryClear {P : Nat → Prop} {r : R} (h : QRJ P r) (id : Nat) : QRJ P (r.retryClear id) := by
  refine ⟨h.q.retryClear id, ?_, ?_⟩
  · rw [retryClear_failing]; exact fun e => (h.hp e).congr (by simp) (by simp)
  · rw [retryClear_failing, retryClear_results]; exact h.hres

theorem QRJ.retryPop {P : Nat → Prop} {r : R} (h : QRJ P r) : QRJ P r.retryPop := by
  refine ⟨h.q.retryPop, ?_, ?_⟩
  · rw [retryPop_failing]; exact fun e => (h.hp e).congr (by simp) (by simp)
  · rw [retryPop_failing, retryPop_results]; exact h.hres

theorem QRJ.consume {P : Nat → Prop} (cs : List Change) {r : R} (last : Nat) (h : QRJ P r) :
    QRJ P (r.consume cs last).1 ∧ NCF r (r.consume cs last).1 := by
  induction cs generalizing r last with
  | nil => rw [consume_nil]; exact ⟨h, NCF.refl r⟩
  | cons c cs ih =>
    unfold R.consume
    simp only
    have h1 : QRJ P (if c.deleted = true then { r with itDelRev := c.rev } else { r with itRev := c.rev }) := by
      cases c.deleted
      · exact h.congr rfl rfl rfl rfl rfl rfl
      · exact h.congr rfl rfl rfl rfl rfl rfl
    have n1 : NCF r (if c.deleted = true then { r with itDelRev := c.rev } else { r with itRev := c.rev }) := by
      cases c.deleted <;> exact ⟨rfl, rfl, rfl⟩
    generalize (if c.deleted = true then ({ r with itDelRev := c.rev } : R) else { r with itRev := c.rev }) = r1 at h1 n1 ⊢
    split
    · exact ⟨(ih _ h1).1, n1.trans (ih _ h1).2⟩
    · obtain ⟨h2, n2'⟩ := (h1.retryClear c.obj.id).processSingle c.obj c.rev c.deleted (by
        intro _ it hit hid
        rw [retryClear_items] at hit
        have := (List.mem_filter.1 hit).2
        simp at this; exact absurd hid this)
      have n2 : NCF r1 ((r1.retryClear c.obj.id).processSingle c.obj c.rev c.deleted) :=
        (frameT_retryClear r1 c.obj.id).ncf.trans n2'
      generalize (r1.retryClear c.obj.id).processSingle c.obj c.rev c.deleted = r2 at h2 n2 ⊢
      have n3 : NCF r2 { r2 with numReconciled := r2.numReconciled + 1 } := ⟨rfl, rfl, rfl⟩
      split
      · exact ⟨h2.congr rfl rfl rfl rfl rfl rfl, (n1.trans n2).trans n3⟩
      · have := ih c.rev (h2.congr (r' := { r2 with numReconciled := r2.numReconciled + 1 }) rfl rfl rfl rfl rfl rfl)
        exact ⟨this.1, ((n1.trans n2).trans n3).trans this.2⟩

theorem QRJ.processRetries {P : Nat → Prop} (fuel : Nat) {r : R} (h : QRJ P r) :
    QRJ P (r.processRetries fuel) ∧ NCF r (r.processRetries fuel) := by
  induction fuel generalizing r with
  | zero => exact ⟨h, NCF.refl r⟩
  | succ n ih =>
    unfold R.processRetries
    split
    · exact ⟨h, NCF.refl r⟩
    · split
      · exact ⟨h, NCF.refl r⟩
      · rename_i it0 hh0
        split
        · exact ⟨h, NCF.refl r⟩
        · obtain ⟨h2, n2'⟩ := h.retryPop.processSingle it0.obj it0.rev it0.delete (by
            intro _ it hit hid
            rw [retryPop_items r it0 hh0] at hit
            simp only [List.mem_map] at hit
            obtain ⟨i, hi, rfl⟩ := hit
            have ho := h.q.objid it0 (head_spec hh0).1
            split
            · rfl
            · rename_i hne
              rw [if_neg hne] at hid
              exact absurd (hid.trans ho) hne)
          have n2 : NCF r (r.retryPop.processSingle it0.obj it0.rev it0.delete) :=
            (frameT_retryPop r).ncf.trans n2'
          dsimp only
          generalize r.retryPop.processSingle it0.obj it0.rev it0.delete = r2 at h2 n2 ⊢
          have n3 : NCF r2 { r2 with numReconciled := r2.numReconciled + 1 } := ⟨rfl, rfl, rfl⟩
          have := ih (h2.congr (r' := { r2 with numReconciled := r2.numReconciled + 1 }) rfl rfl rfl rfl rfl rfl)
          exact ⟨this.1, (n2.trans n3).trans this.2⟩

theorem QRJ.commitStatus {P : Nat → Prop} {r : R} (h : QRJ P r) (hI : JInv r r.results) : QRJ P r.commitStatus ∧ NCF r r.commitStatus := by
  obtain ⟨r', hrel, he⟩ := commitStatus_rel r
  have hf : r.commitStatus.failing = r.failing := by rw [he]; exact hrel.failing
  have hn : r.commitStatus.now = r.now := by rw [he]; exact hrel.now
  have hc : r.commitStatus.cfg = r.cfg := by rw [he]; exact hrel.cfg
  refine ⟨⟨h.q.commitStatusJ hI (fun res hr hf => h.hp (h.hres res hr hf)), ?_, ?_⟩, hn, hc, hf⟩
  · rw [hf]; exact fun e => (h.hp e).congr hn hc
  · intro res hr; rw [commitStatus_results] at hr; cases hr

theorem roundTail_qJ {P : Nat → Prop} {r3 : R} (last : Nat) (hI3 : JInv r3 r3.results) (hs : r3.tailSafe) (h3 : QRJ P r3) :
    QInv P (roundTail r3 last) ∧ NCF r3 (roundTail r3 last) := by
  unfold roundTail
  unfold R.tailSafe at hs
  dsimp only
  have hI4 := hI3.commitStatus
  obtain ⟨h4, n4⟩ := h3.commitStatus hI3
  have hres4 := commitStatus_results r3
  generalize r3.commitStatus = r4 at hI4 hres4 h4 n4 hs ⊢
  rw [← hres4] at hI4
  obtain ⟨hI5, _⟩ := hI4.processRetries (r4.items.length + 1) hs
  obtain ⟨h5, n5⟩ := h4.processRetries (r4.items.length + 1)
  generalize r4.processRetries (r4.items.length + 1) = r5 at hI5 h5 n5 ⊢
  obtain ⟨h6, n6⟩ := h5.commitStatus hI5
  generalize r5.commitStatus = r6 at h6 n6 ⊢
  have n := (n4.trans n5).trans n6
  exact ⟨h6.q.congr rfl rfl rfl, n⟩

/-- one round preserves `QInv`, whatever writes land during its Updates -/
theorem QInv.roundJ {P : Nat → Prop} {r : R} (h : QInv P r) (hr : JRInv r) (hs : r.roundSafe)
    (hp : r.failing ≠ [] → PAdd P r) : QInv P r.round ∧ r.round.now = r.now ∧ r.round.cfg = r.cfg ∧ r.round.failing = r.failing := by
  unfold R.roundSafe at hs
  have h0 : QRJ P r := ⟨h, hp, by rw [hr.res]; simp⟩
  have h1 : QRJ P r.nextChanges.1 := by
    rcases nextChanges_fst r with e | e <;> rw [e]
    · exact h0
    · exact h0.congr rfl rfl rfl rfl rfl rfl
  have n1 : NCF r r.nextChanges.1 := by
    rcases nextChanges_fst r with e | e <;> rw [e] <;> exact ⟨rfl, rfl, rfl⟩
  have hnc : JInv r.nextChanges.1 r.nextChanges.1.results ∧ r.nextChanges.1.results = [] := by
    rcases nextChanges_fst r with e | e <;> rw [e]
    · exact ⟨JInv.cast_results hr.res hr.inv, hr.res⟩
    · exact ⟨JInv.cast_results hr.res (hr.inv.set_refreshedAt _ (Nat.le_refl _)), hr.res⟩
  have hch0 := chOK_nextChanges hr.inv.tinv hr.sync
  rw [round_eq']
  generalize r.nextChanges = nc at h1 n1 hnc hch0 hs ⊢
  obtain ⟨hI1, hres1⟩ := hnc
  have hch : JChOK nc.1.tableRev nc.1 nc.1.results nc.2 := by
    rw [hres1]; exact JChOK.ofChOK hch0 hI1.tinv hI1.sidO
  obtain ⟨hs1, hs2⟩ := hs
  obtain ⟨hI2, _, _, _⟩ := hI1.consume nc.2 0 hch hs1
  obtain ⟨h2, n2⟩ := h1.consume nc.2 0
  generalize nc.1.consume nc.2 0 = co at h2 n2 hI2 hs2 ⊢
  generalize (if nc.2.isEmpty ∧ co.1.pending.isNone then none else
      if (co.2.1.isEmpty ∧ co.1.numReconciled < co.1.cfg.roundSize) then none else some co.2.1 : Option (List Change)) = pend at hs2 ⊢
  have h3 : QRJ P { co.1 with pending := pend } := h2.congr rfl rfl rfl rfl rfl rfl
  have n3 : NCF co.1 { co.1 with pending := pend } := ⟨rfl, rfl, rfl⟩
  have hI3 : JInv { co.1 with pending := pend } ({ co.1 with pending := pend } : R).results :=
    hI2.congr rfl rfl rfl rfl rfl rfl rfl rfl rfl
  obtain ⟨hq, n4⟩ := roundTail_qJ co.2.2 hI3 hs2 h3
  have n := ((n1.trans n2).trans n3).trans n4
  exact ⟨hq, n.1, n.2.1, n.2.2⟩

/-! ## the invariant of all states reachable with writes during Updates -/

theorem JRInv.congr {r r' : R} (h : JRInv r) (h1 : r'.objs = r.objs) (h2 : r'.dels = r.dels) (h3 : r'.tableRev = r.tableRev)
    (h4 : r'.itRev = r.itRev) (h5 : r'.itDelRev = r.itDelRev) (h6 : r'.refreshedAt = r.refreshedAt)
    (h7 : r'.items = r.items) (h8 : r'.log = r.log) (h9 : r'.nextSid = r.nextSid)
    (h10 : r'.results = r.results) (h11 : r'.numReconciled = r.numReconciled) (h12 : r'.pending = r.pending) : JRInv r' := by
  refine ⟨h.inv.congr h1 h2 h3 h4 h5 h6 h7 h8 h9, h10.trans h.res, h11.trans h.num, ?_⟩
  unfold Sync
  rw [h1, h2, h4, h5, h6, h12]
  exact h.sync

theorem JRInv.fireTimer {r : R} (h : JRInv r) : JRInv r.fireTimer := by
  unfold R.fireTimer
  split
  · split
    · exact h.congr rfl rfl rfl rfl rfl rfl rfl rfl rfl rfl rfl rfl
    · exact h
  · exact h

theorem JRInv.setNow {r : R} (h : JRInv r) (t : Nat) : JRInv { r with now := t } :=
  h.congr rfl rfl rfl rfl rfl rfl rfl rfl rfl rfl rfl rfl

theorem JRInv.setFailing {r : R} (h : JRInv r) (l : List Nat) : JRInv { r with failing := l } :=
  h.congr rfl rfl rfl rfl rfl rfl rfl rfl rfl rfl rfl rfl

/-- queueing a write for a later Update touches nothing the invariant speaks about -/
theorem JRInv.setInjects {r : R} (h : JRInv r) (l : List (Nat × Inject)) : JRInv { r with injects := l } :=
  h.congr rfl rfl rfl rfl rfl rfl rfl rfl rfl rfl rfl rfl

theorem JRInv.init (c : Cfg) : JRInv { cfg := c } := by
  refine ⟨⟨⟨by simp, by simp, by simp, by simp, by simp, Nat.le_refl _, Nat.le_refl _, Nat.le_refl _⟩, by simp, by simp, by simp, by simp, by simp, by simp⟩, rfl, rfl, ?_⟩
  intro _
  exact ⟨by simp, by simp⟩

theorem JRInv.userPut {r : R} (h : JRInv r) (id data : Nat) : JRInv (r.userPut id data) := by
  have hI := h.inv.userPut id data
  obtain ⟨other, he⟩ := userPut_eq r id data
  rw [he] at hI ⊢
  refine ⟨hI, h.res, h.num, ?_⟩
  intro hp
  obtain ⟨s1, s2⟩ := h.sync hp
  have := h.inv.tinv.ref_le
  refine ⟨fun o ho => ?_, fun d hd => ?_⟩
  · rcases (mem_setObj_objs ..).1 ho with ⟨ho, _⟩ | rfl
    · exact s1 o ho
    · right; show r.refreshedAt < r.tableRev + 1; omega
  · exact s2 d (List.mem_filter.1 hd).1

theorem JRInv.delObj {r : R} (h : JRInv r) (id : Nat) : JRInv (r.delObj id) := by
  have hI := h.inv.delObj id
  cases hg : r.get id with
  | none => rw [delObj_of_none hg]; exact h
  | some o =>
    rw [delObj_of_get hg] at hI ⊢
    refine ⟨hI, h.res, h.num, ?_⟩
    intro hp
    obtain ⟨s1, s2⟩ := h.sync hp
    have := h.inv.tinv.ref_le
    refine ⟨fun o ho => s1 o (List.mem_filter.1 ho).1, fun d hd => ?_⟩
    rcases List.mem_append.1 hd with hd | hd
    · exact s2 d hd
    · simp only [List.mem_singleton] at hd
      right; rw [hd]; show r.refreshedAt < r.tableRev + 1; omega

theorem JRInv.touch {r : R} (h : JRInv r) (id : Nat) (hne : ∀ o, r.get id = some o → o.kind ≠ .error) : JRInv (r.touch id) := by
  have hI := h.inv.touch id hne
  unfold R.touch at hI ⊢
  cases hg : r.get id with
  | none => exact h
  | some o =>
    rw [hg] at hI
    simp only at hI ⊢
    refine ⟨hI, h.res, h.num, ?_⟩
    intro hp
    obtain ⟨s1, s2⟩ := h.sync hp
    have := h.inv.tinv.ref_le
    refine ⟨fun x hx => ?_, fun d hd => ?_⟩
    · rcases (mem_setObj_objs ..).1 hx with ⟨hx, _⟩ | rfl
      · exact s1 x hx
      · right; show r.refreshedAt < r.tableRev + 1; omega
    · exact s2 d (List.mem_filter.1 hd).1

/-- the invariant of all between-round states reachable with writes landing during
    Updates: bookkeeping (`JRInv`), the timer is armed for the head of the time
    queue, every retry is due within the maximal backoff -/
structure JWInv (r : R) : Prop where
  rinv : JRInv r
  q : QInv (fun t => t ≤ r.now + r.cfg.maxB) r

theorem JWInv.init (c : Cfg) : JWInv { cfg := c } :=
  ⟨JRInv.init c, ⟨fun h hh => (by simp [R.head, R.queue] at hh), fun _ => Or.inl rfl, fun it hit => (by cases hit), List.Pairwise.nil, fun it hit => (by cases hit)⟩⟩

theorem JWInv.fireTimer {r : R} (h : JWInv r) : JWInv r.fireTimer := by
  obtain ⟨_, _, _, e1, e2⟩ := fireTimer_frame r
  refine ⟨h.rinv.fireTimer, ?_⟩
  rw [e1, e2]; exact h.q.fireTimer

theorem JWInv.round {r : R} (h : JWInv r) (hs : r.roundSafe) : JWInv r.round := by
  obtain ⟨hq, e1, e2, _⟩ := h.q.roundJ h.rinv hs (fun _ => pAdd_bound r)
  refine ⟨h.rinv.round hs, ?_⟩
  rw [e1, e2]; exact hq

theorem JWInv.setNow {r : R} (h : JWInv r) (t : Nat) (ht : r.now ≤ t) : JWInv { r with now := t } :=
  ⟨h.rinv.setNow t, (h.q.mono (fun u hu => by simp only at hu ⊢; omega)).setNow t ht⟩

theorem JWInv.setFailing {r : R} (h : JWInv r) (l : List Nat) : JWInv { r with failing := l } :=
  ⟨h.rinv.setFailing l, h.q.congr rfl rfl rfl⟩

theorem JWInv.setInjects {r : R} (h : JWInv r) (l : List (Nat × Inject)) : JWInv { r with injects := l } :=
  ⟨h.rinv.setInjects l, h.q.congr rfl rfl rfl⟩

theorem JWInv.userPut {r : R} (h : JWInv r) (id data : Nat) : JWInv (r.userPut id data) :=
  ⟨h.rinv.userPut id data, h.q.congr rfl rfl rfl⟩

theorem JWInv.delObj {r : R} (h : JWInv r) (id : Nat) : JWInv (r.delObj id) := by
  obtain ⟨e1, e2, e3, e4, _⟩ := delObj_frame r id
  refine ⟨h.rinv.delObj id, ?_⟩
  rw [e3, e4]; exact h.q.congr e1 e2 e3

theorem JWInv.touch {r : R} (h : JWInv r) (id : Nat) (hne : ∀ o, r.get id = some o → o.kind ≠ .error) : JWInv (r.touch id) := by
  obtain ⟨e1, e2, e3, e4, _⟩ := touch_frame r id
  refine ⟨h.rinv.touch id hne, ?_⟩
  rw [e3, e4]; exact h.q.congr e1 e2 e3

/-! ## rounds without queued foreign status writes are safe -/

def Inject.isTouch : Inject → Bool
  | .touch _ => true
  | _ => false

/-- no foreign status write (`touch`) is queued -/
def NoTouch (l : List (Nat × Inject)) : Prop := ∀ a ∈ l, a.2.isTouch = false

instance (l : List (Nat × Inject)) : Decidable (NoTouch l) := by unfold NoTouch; infer_instance

theorem injSafe_of_noTouch (acts : List (Nat × Inject)) (r : R) (h : NoTouch acts) : InjSafe r acts := by
  induction acts generalizing r with
  | nil => trivial
  | cons a as ih =>
    refine ⟨fun id e => ?_, ih _ (fun b hb => h b (List.mem_cons_of_mem _ hb))⟩
    have := h a (List.mem_cons_self ..)
    rw [e] at this; cases this

/-- the queue of writes only shrinks -/
def InjSub (r r' : R) : Prop := ∀ a ∈ r'.injects, a ∈ r.injects

theorem InjSub.refl (r : R) : InjSub r r := fun _ h => h
theorem InjSub.trans {a b c : R} (h1 : InjSub a b) (h2 : InjSub b c) : InjSub a c := fun x hx => h1 x (h2 x hx)
theorem InjSub.of_eq {r r' : R} (h : r'.injects = r.injects) : InjSub r r' := fun _ ha => h ▸ ha
theorem InjSub.noTouch {r r' : R} (h : InjSub r r') (hn : NoTouch r.injects) : NoTouch r'.injects := fun a ha => hn a (h a ha)

theorem processSingle_injSub (r : R) (obj : RObj) (rev : Nat) (del : Bool) : InjSub r (r.processSingle obj rev del) := by
  cases del with
  | false =>
    rw [processSingle_update_land]
    intro a ha
    rw [(frameW_landAll _ _).injects, (preUpdate_facts r obj rev).2.2.2.2.2.2.2.2.2.2.2.2.2.2.1] at ha
    exact (List.mem_filter.1 ha).1
  | true =>
    rw [processSingle_delete]
    split
    · exact InjSub.of_eq rfl
    · exact InjSub.of_eq (by simp)

theorem updSafe_of_noTouch (r : R) (obj : RObj) (h : NoTouch r.injects) : r.updSafe obj :=
  injSafe_of_noTouch _ _ (fun a ha => h a (List.mem_filter.1 ha).1)

theorem consume_safe_of_noTouch (cs : List Change) (r : R) (last : Nat) (h : NoTouch r.injects) :
    r.consumeSafe cs ∧ InjSub r (r.consume cs last).1 := by
  induction cs generalizing r last with
  | nil => exact ⟨trivial, InjSub.refl r⟩
  | cons c cs ih =>
    unfold R.consumeSafe R.consume
    simp only
    have e1 : (if c.deleted = true then ({ r with itDelRev := c.rev } : R) else { r with itRev := c.rev }).injects = r.injects := by
      cases c.deleted <;> rfl
    generalize (if c.deleted = true then ({ r with itDelRev := c.rev } : R) else { r with itRev := c.rev }) = r1 at e1 ⊢
    have h1 : NoTouch r1.injects := by rw [e1]; exact h
    split
    · obtain ⟨a, b⟩ := ih r1 c.rev h1
      exact ⟨a, (InjSub.of_eq e1).trans b⟩
    · have h2 : NoTouch (r1.retryClear c.obj.id).injects := by rw [retryClear_injects]; exact h1
      have s3 := processSingle_injSub (r1.retryClear c.obj.id) c.obj c.rev c.deleted
      have hsub : InjSub r ((r1.retryClear c.obj.id).processSingle c.obj c.rev c.deleted) :=
        ((InjSub.of_eq e1).trans (InjSub.of_eq (by simp))).trans s3
      generalize (r1.retryClear c.obj.id).processSingle c.obj c.rev c.deleted = r3 at s3 hsub ⊢
      have h4 : NoTouch ({ r3 with numReconciled := r3.numReconciled + 1 } : R).injects := s3.noTouch h2
      split
      · exact ⟨⟨fun _ => updSafe_of_noTouch _ _ h2, trivial⟩, hsub⟩
      · obtain ⟨a, b⟩ := ih { r3 with numReconciled := r3.numReconciled + 1 } c.rev h4
        exact ⟨⟨fun _ => updSafe_of_noTouch _ _ h2, a⟩, hsub.trans b⟩

theorem processRetries_injSub (fuel : Nat) (r : R) : InjSub r (r.processRetries fuel) := by
  induction fuel generalizing r with
  | zero => exact InjSub.refl r
  | succ n ih =>
    unfold R.processRetries
    split
    · exact InjSub.refl r
    · split
      · exact InjSub.refl r
      · rename_i it0 hh
        split
        · exact InjSub.refl r
        · have s3 := processSingle_injSub r.retryPop it0.obj it0.rev it0.delete
          have hsub : InjSub r (r.retryPop.processSingle it0.obj it0.rev it0.delete) := (InjSub.of_eq (by simp)).trans s3
          dsimp only
          generalize r.retryPop.processSingle it0.obj it0.rev it0.delete = r3 at hsub ⊢
          exact hsub.trans ((InjSub.of_eq rfl).trans (ih { r3 with numReconciled := r3.numReconciled + 1 }))

theorem retries_safe_of_noTouch (fuel : Nat) (r : R) (h : NoTouch r.injects) : r.retriesSafe fuel := by
  induction fuel generalizing r with
  | zero => trivial
  | succ n ih =>
    unfold R.retriesSafe
    split
    · trivial
    · split
      · trivial
      · rename_i it0 hh
        simp only
        split
        · trivial
        · have h2 : NoTouch r.retryPop.injects := by rw [retryPop_injects]; exact h
          have s3 := processSingle_injSub r.retryPop it0.obj it0.rev it0.delete
          generalize r.retryPop.processSingle it0.obj it0.rev it0.delete = r3 at s3 ⊢
          have h4 : NoTouch ({ r3 with numReconciled := r3.numReconciled + 1 } : R).injects := s3.noTouch h2
          exact ⟨fun _ => updSafe_of_noTouch _ _ h2, ih { r3 with numReconciled := r3.numReconciled + 1 } h4⟩

/-- a round with no foreign status write queued satisfies the hypothesis, and queues none -/
theorem round_safe_of_noTouch (r : R) (h : NoTouch r.injects) : r.roundSafe ∧ InjSub r r.round := by
  rw [round_eq']
  unfold R.roundSafe R.tailSafe roundTail
  have e0 : r.nextChanges.1.injects = r.injects := by
    rcases nextChanges_fst r with e | e <;> rw [e]
  generalize r.nextChanges = nc at e0 ⊢
  have h1 : NoTouch nc.1.injects := by rw [e0]; exact h
  obtain ⟨a1, b1⟩ := consume_safe_of_noTouch nc.2 nc.1 0 h1
  generalize nc.1.consume nc.2 0 = co at b1 ⊢
  generalize (if nc.2.isEmpty ∧ co.1.pending.isNone then none else
      if (co.2.1.isEmpty ∧ co.1.numReconciled < co.1.cfg.roundSize) then none else some co.2.1 : Option (List Change)) = pend
  have b3 : InjSub co.1 ({ co.1 with pending := pend } : R).commitStatus := InjSub.of_eq (commitStatus_injects _)
  generalize ({ co.1 with pending := pend } : R).commitStatus = r4 at b3 ⊢
  have h4 : NoTouch r4.injects := (b1.trans b3).noTouch h1
  have a5 := retries_safe_of_noTouch (r4.items.length + 1) r4 h4
  have b5 := processRetries_injSub (r4.items.length + 1) r4
  refine ⟨⟨a1, a5⟩, ?_⟩
  dsimp only
  generalize r4.processRetries (r4.items.length + 1) = r5 at b5 ⊢
  have b6 : InjSub r5 r5.commitStatus := InjSub.of_eq (commitStatus_injects _)
  exact (InjSub.of_eq e0).trans (((b1.trans b3).trans b5).trans b6)

theorem JWInv.quiesce {r : R} (h : JWInv r) (hn : NoTouch r.injects) (fuel : Nat) :
    JWInv (r.quiesce fuel) ∧ NoTouch (r.quiesce fuel).injects := by
  induction fuel generalizing r with
  | zero => exact ⟨h, hn⟩
  | succ n ih =>
    unfold R.quiesce
    simp only
    have hn1 : NoTouch r.fireTimer.injects := by rw [(fireTimer_frame r).1]; exact hn
    split
    · obtain ⟨a, b⟩ := round_safe_of_noTouch r.fireTimer hn1
      exact ih (h.fireTimer.round a) (b.noTouch hn1)
    · exact ⟨h.fireTimer, hn1⟩

theorem JWInv.advance {r : R} (h : JWInv r) (hn : NoTouch r.injects) (ms fuel : Nat) :
    JWInv (r.advance ms fuel) ∧ NoTouch (r.advance ms fuel).injects := by
  induction fuel generalizing r ms with
  | zero => exact ⟨h.setNow _ (by omega), hn⟩
  | succ n ih =>
    unfold R.advance
    simp only
    split
    · split
      · obtain ⟨a, b⟩ := (h.setNow (max _ r.now) (by omega)).quiesce hn 64
        exact ih a b _
      · exact ⟨h.setNow _ (by omega), hn⟩
    · exact ⟨h.setNow _ (by omega), hn⟩

/-! ## relation to the invariant `WInv` of the runs without writes during Updates -/

/-- where every retry item is in the time queue and nothing is queued to land,
    `JWInv` is `WInv`: the existing convergence theorems apply -/
theorem JWInv.toWInv {r : R} (h : JWInv r) (hinj : r.injects = []) (hq : ∀ it ∈ r.items, it.inQueue = true) : WInv r := by
  refine ⟨⟨⟨h.rinv.inv.tinv, hinj, h.rinv.inv.items_pw, h.rinv.inv.objOK, h.rinv.inv.delOK, ?_, by simp⟩, h.rinv.res, h.rinv.num, h.rinv.sync⟩, h.q⟩
  intro it hit
  obtain ⟨a, b, _, _⟩ := h.rinv.inv.itemOK it hit
  refine ⟨a, b, fun e => ?_⟩
  rw [hq it hit] at e; cases e

/-- in an idle state every retry item is in the time queue -/
theorem JRInv.idle_items_queued {r : R} (h : JRInv r) (hidle : r.triggered = false) : ∀ it ∈ r.items, it.inQueue = true := by
  obtain ⟨hp, href, _, _⟩ := not_triggered hidle
  obtain ⟨s1, s2⟩ := h.sync hp
  intro it hit
  cases hq : it.inQueue with
  | true => rfl
  | false =>
    exfalso
    rcases (h.inv.itemOK it hit).2.2.1 hq with (⟨o, ho, _, h1, _⟩ | ⟨d, hd, _, h1⟩) | ⟨_, _, res, hres, _⟩
    · rcases s1 o ho with a | a
      · omega
      · have := h.inv.tinv.objs_le o ho; omega
    · rcases s2 d hd with a | a
      · omega
      · have := h.inv.tinv.dels_le d hd; omega
    · cases hres

theorem JWInv.toWInv_of_idle {r : R} (h : JWInv r) (hinj : r.injects = []) (hidle : r.triggered = false) : WInv r :=
  h.toWInv hinj (h.rinv.idle_items_queued hidle)

/-! ## running the loop with foreign status writes queued -/

/-- the hypothesis `roundSafe` for every round `quiesce` runs (mirrors `R.quiesce`) -/
def R.quiesceSafe (r : R) : (fuel : Nat) → Prop
  | 0 => True
  | fuel + 1 =>
    let r := r.fireTimer
    if r.triggered then r.roundSafe ∧ R.quiesceSafe r.round fuel else True

/-- … and for every round `advance` runs (mirrors `R.advance`) -/
def R.advanceSafe (r : R) (ms : Nat) : (fuel : Nat) → Prop
  | 0 => True
  | fuel + 1 =>
    let target := r.now + ms
    match r.timer with
    | .armed t =>
      if t ≤ target then
        R.quiesceSafe ({ r with now := max t r.now }) 64 ∧
        (let r := ({ r with now := max t r.now }).quiesce 64
         R.advanceSafe r (target - r.now) fuel)
      else True
    | _ => True

theorem JWInv.quiesceS {r : R} (h : JWInv r) (fuel : Nat) (hs : r.quiesceSafe fuel) : JWInv (r.quiesce fuel) := by
  induction fuel generalizing r with
  | zero => exact h
  | succ n ih =>
    unfold R.quiesceSafe at hs
    unfold R.quiesce
    simp only at hs ⊢
    split
    · rename_i htr
      rw [if_pos htr] at hs
      exact ih (h.fireTimer.round hs.1) hs.2
    · exact h.fireTimer

theorem JWInv.advanceS {r : R} (h : JWInv r) (ms fuel : Nat) (hs : r.advanceSafe ms fuel) : JWInv (r.advance ms fuel) := by
  induction fuel generalizing r ms with
  | zero => exact h.setNow _ (by omega)
  | succ n ih =>
    unfold R.advanceSafe at hs
    unfold R.advance
    simp only at hs ⊢
    split
    · rename_i t htm
      split
      · rename_i hle
        split at hs
        · rename_i t' htm'
          have ht : t' = t := by rw [htm] at htm'; cases htm'; rfl
          subst ht
          rw [if_pos hle] at hs
          exact ih ((h.setNow (max t' r.now) (by omega)).quiesceS 64 hs.1) _ hs.2
        · rename_i hna
          exact absurd htm (hna t)
      · exact h.setNow _ (by omega)
    · exact h.setNow _ (by omega)

theorem quiesceSafe_of_noTouch (fuel : Nat) (r : R) (hn : NoTouch r.injects) : r.quiesceSafe fuel := by
  induction fuel generalizing r with
  | zero => trivial
  | succ n ih =>
    unfold R.quiesceSafe
    simp only
    have hn1 : NoTouch r.fireTimer.injects := by rw [(fireTimer_frame r).1]; exact hn
    split
    · obtain ⟨a, b⟩ := round_safe_of_noTouch r.fireTimer hn1
      exact ⟨a, ih _ (b.noTouch hn1)⟩
    · trivial

theorem advanceSafe_of_noTouch (fuel : Nat) (r : R) (ms : Nat) (hn : NoTouch r.injects) (h : JWInv r) : r.advanceSafe ms fuel := by
  induction fuel generalizing r ms with
  | zero => trivial
  | succ n ih =>
    unfold R.advanceSafe
    simp only
    split
    · rename_i t htm
      split
      · have h0 : JWInv { r with now := max t r.now } := h.setNow _ (by omega)
        obtain ⟨a, b⟩ := h0.quiesce hn 64
        exact ⟨quiesceSafe_of_noTouch 64 _ hn, ih _ _ b a⟩
      · trivial
    · trivial

theorem noTouch_nil {l : List (Nat × Inject)} (h : l = []) : NoTouch l := by
  rw [h]; intro a ha; cases ha

theorem round_injects_nil (x : R) (hx : x.injects = []) : x.round.injects = [] := by
  refine List.eq_nil_iff_forall_not_mem.2 (fun b hb => ?_)
  have := (round_safe_of_noTouch x (noTouch_nil hx)).2 b hb
  rw [hx] at this; cases this

theorem quiesce_injects_nil (n : Nat) (x : R) (hx : x.injects = []) : (x.quiesce n).injects = [] := by
  induction n generalizing x with
  | zero => exact hx
  | succ n ihn =>
    unfold R.quiesce
    simp only
    have h1 : x.fireTimer.injects = [] := by rw [(fireTimer_frame x).1]; exact hx
    split
    · exact ihn _ (round_injects_nil _ h1)
    · exact h1

theorem advance_injects_nil (n : Nat) (x : R) (m : Nat) (hx : x.injects = []) : (x.advance m n).injects = [] := by
  induction n generalizing x m with
  | zero => exact hx
  | succ n ihn =>
    unfold R.advance
    simp only
    split
    · split
      · exact ihn _ _ (quiesce_injects_nil 64 _ hx)
      · exact hx
    · exact hx

end Sdb.Rec
