import SdbModel.Lemmas.LpmBits

/-! Canonical LPM keys (the data part of `EncodeLPMKey`), `maskData`.  Core Lean only. -/
namespace Sdb.Lpm

/-- `(d, p)` is the decoded form of an `EncodeLPMKey` result: exactly the bytes needed
    for `p` bits, and every bit from position `p` on is zero -/
structure Canon (d : List Nat) (p : Nat) : Prop where
  len : d.length = (p + 7) / 8
  bytes : ∀ b ∈ d, b < 256
  zeros : ∀ i, p ≤ i → getBitAt d i = 0

theorem Canon.le_len {d : List Nat} {p : Nat} (h : Canon d p) : p ≤ 8 * d.length := by
  have := h.len; omega

/-- a canonical key is determined by its prefix length and its first `p` bits -/
theorem canon_ext (a b : List Nat) (p : Nat) (ha : Canon a p) (hb : Canon b p) (h : Agree a b p) : a = b := by
  have hall : ∀ j, getBitAt a j = getBitAt b j := by
    intro j
    by_cases hj : j < p
    · exact h j hj
    · rw [ha.zeros j (by omega), hb.zeros j (by omega)]
  apply List.ext_getElem (by rw [ha.len, hb.len])
  intro i h1 h2
  apply byte_ext _ _ (ha.bytes _ (List.getElem_mem h1)) (hb.bytes _ (List.getElem_mem h2))
  intro j hj
  have := hall (8 * i + j)
  rw [getBitAt_mul_add _ _ _ hj, getBitAt_mul_add _ _ _ hj] at this
  simpa [List.getD_eq_getElem?_getD, List.getElem?_eq_getElem h1, List.getElem?_eq_getElem h2] using this


/-! ### `maskData` -/

theorem lpmMask_bit : ∀ r < 8, ∀ j < 8, (lpmMask r).testBit (7 - j) = decide (j < r) := by decide

theorem bbit_land_mask (y r j : Nat) (hr : r < 8) (hj : j < 8) :
    bbit (Nat.land y (lpmMask r)) j = if j < r then bbit y j else 0 := by
  change bbit (y &&& lpmMask r) j = _
  unfold bbit
  rw [← Nat.toNat_testBit (y &&& lpmMask r), ← Nat.toNat_testBit y, Nat.testBit_and, lpmMask_bit r hr j hj]
  by_cases h : j < r <;> simp [h]

theorem land_lt_256 (y m : Nat) (hy : y < 256) : Nat.land y m < 256 :=
  Nat.lt_of_le_of_lt Nat.and_le_left hy

theorem take_drop_suffix (l : List Nat) (n : Nat) :
    List.take ((l ++ be 2 n).length - 2) (l ++ be 2 n) = l := by
  simp

theorem maskData_eq (data : List Nat) (plen : Nat) (h : (plen + 7) / 8 ≤ data.length) :
    maskData data plen =
      if 0 < (plen + 7) / 8 ∧ plen % 8 ≠ 0 then
        data.take ((plen + 7) / 8 - 1) ++ [Nat.land (data.getD ((plen + 7) / 8 - 1) 0) (lpmMask (plen % 8))]
      else data.take ((plen + 7) / 8) := by
  unfold maskData encodeLPM
  simp only [gt_iff_lt, show ¬ data.length < (plen + 7) / 8 by omega, if_false]
  split <;> rename_i hc
  · rw [take_drop_suffix, List.take_take, Nat.min_eq_left (by omega)]
    congr 3
    simp only [List.getD_eq_getElem?_getD]
    rw [List.getElem?_take_of_lt (by omega)]
  · rw [take_drop_suffix]

theorem getBitAt_oob (l : List Nat) (j : Nat) (h : l.length ≤ j / 8) : getBitAt l j = 0 := by
  unfold getBitAt
  rw [List.getD_eq_getElem?_getD, List.getElem?_eq_none h]
  simp

theorem getBitAt_take (l : List Nat) (n j : Nat) (h : j / 8 < n) : getBitAt (l.take n) j = getBitAt l j := by
  unfold getBitAt
  simp only [List.getD_eq_getElem?_getD]
  rw [List.getElem?_take_of_lt h]

theorem getBitAt_maskData (data : List Nat) (plen j : Nat) (h : (plen + 7) / 8 ≤ data.length) :
    getBitAt (maskData data plen) j = if j < plen then getBitAt data j else 0 := by
  rw [maskData_eq data plen h]
  split <;> rename_i hc
  · -- partial last byte
    rcases Nat.lt_trichotomy (j / 8) ((plen + 7) / 8 - 1) with hlt | heq | hgt
    · rw [if_pos (by omega), getBitAt_append_left _ _ _ (by simp; omega), getBitAt_take _ _ _ hlt]
    · obtain ⟨i, r, hr, rfl⟩ : ∃ i r, r < 8 ∧ j = 8 * i + r := ⟨j / 8, j % 8, by omega, by omega⟩
      have hi : i = (plen + 7) / 8 - 1 := by omega
      rw [getBitAt_mul_add _ _ _ hr, getBitAt_mul_add _ _ _ hr]
      have : (List.take ((plen + 7) / 8 - 1) data ++
          [Nat.land (data.getD ((plen + 7) / 8 - 1) 0) (lpmMask (plen % 8))]).getD i 0 =
          Nat.land (data.getD ((plen + 7) / 8 - 1) 0) (lpmMask (plen % 8)) := by
        rw [List.getD_eq_getElem?_getD, List.getElem?_append_right (by simp; omega)]
        simp [hi, Nat.min_eq_left (show (plen + 7) / 8 - 1 ≤ data.length by omega)]
      rw [this, bbit_land_mask _ _ _ (by omega) hr, hi]
      by_cases hlt : r < plen % 8
      · rw [if_pos hlt, if_pos (by omega)]
      · rw [if_neg hlt, if_neg (by omega)]
    · rw [if_neg (by omega), getBitAt_oob _ _ (by simp; omega)]
  · by_cases hj : j / 8 < (plen + 7) / 8
    · rw [if_pos (by omega), getBitAt_take _ _ _ hj]
    · rw [if_neg (by omega), getBitAt_oob _ _ (by simp; omega)]

theorem canon_maskData (data : List Nat) (plen : Nat) (hb : ∀ b ∈ data, b < 256)
    (h : (plen + 7) / 8 ≤ data.length) : Canon (maskData data plen) plen := by
  refine ⟨?_, ?_, ?_⟩
  · rw [maskData_eq data plen h]
    split
    · simp; omega
    · simp; omega
  · rw [maskData_eq data plen h]
    intro b hb'
    split at hb'
    · rcases List.mem_append.mp hb' with h' | h'
      · exact hb b (List.mem_of_mem_take h')
      · simp only [List.mem_singleton] at h'
        rw [h']
        exact land_lt_256 _ _ (getD_lt_256 data hb _)
    · exact hb b (List.mem_of_mem_take hb')
  · intro i hi
    rw [getBitAt_maskData data plen i h, if_neg (by omega)]

theorem agree_maskData (data : List Nat) (plen : Nat) (h : (plen + 7) / 8 ≤ data.length) :
    Agree (maskData data plen) data plen := by
  intro j hj
  rw [getBitAt_maskData data plen j h, if_pos hj]

/-- masking a canonical key with its own prefix length changes nothing -/
theorem maskData_canon (d : List Nat) (p : Nat) (h : Canon d p) : maskData d p = d :=
  canon_ext _ _ p (canon_maskData d p h.bytes (by rw [h.len]; omega)) h (agree_maskData d p (by rw [h.len]; omega))

end Sdb.Lpm
