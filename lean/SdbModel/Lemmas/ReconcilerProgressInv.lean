import SdbModel.Lemmas.ReconcilerProgress

/-!
  Lemmas.ReconcilerProgressInv — the run invariants of C16 on views: what every
  retry item stores (`IOK`: revisions, pacing, the failed call it stands for),
  positivity / disjointness of revisions (`XTab`), and the progress tracker's
  revision (`XProg`: everything up to `progressRev` has been passed by the
  iterator).  Preservation by the atomic steps of a round.
-/
namespace Sdb.Rec

/-- what a retry item stores -/
structure IOK (v : V) (it : Item) : Prop where
  opos : 0 < it.origRev
  ole : it.origRev ≤ it.rev
  rle : it.rev ≤ v.tableRev
  delrev : it.delete = true → it.origRev = it.rev
  updrev : it.delete = false → it.origRev < it.rev
  rq : it.inRevQueue = true
  npos : 1 ≤ it.numRetries
  pace1 : backoff v.cfg.minB v.cfg.maxB it.numRetries ≤ it.retryAt
  pace2 : it.retryAt ≤ v.now + backoff v.cfg.minB v.cfg.maxB it.numRetries
  call : lastCall v.log it.id = some ⟨if it.delete then "D" else "U", it.id, it.obj.data, false⟩
  data : it.delete = false → ∀ o ∈ v.objs, o.id = it.id → o.rev = it.rev → o.data = it.obj.data
  deld : it.delete = true → ∀ d ∈ v.dels, d.1.id = it.id → d.2 ≤ v.itDelRev → d = (it.obj, it.rev)

/-- revisions are positive; live objects and retained deletions never share one -/
structure XTab (v : V) : Prop where
  opos : ∀ o ∈ v.objs, 0 < o.rev
  dpos : ∀ d ∈ v.dels, 0 < d.2
  disj : ∀ o ∈ v.objs, ∀ d ∈ v.dels, o.rev ≠ d.2
  top : 0 < v.tableRev → (∃ o ∈ v.objs, o.rev = v.tableRev) ∨ (∃ d ∈ v.dels, d.2 = v.tableRev)

/-- the progress tracker's revision: everything up to it has been passed by the iterator -/
structure XProg (v : V) : Prop where
  le : v.progressRev ≤ v.tableRev
  obj : ∀ o ∈ v.objs, o.rev ≤ v.progressRev → o.rev ≤ v.itRev
  del : ∀ d ∈ v.dels, d.2 ≤ v.progressRev → d.2 ≤ v.itDelRev

/-- the results waiting for a status commit -/
structure XRes (rs : List Res) : Prop where
  same : ∀ res ∈ rs, res.2.1 = res.1
  pos : ∀ res ∈ rs, 0 < res.2.2.1

structure XL (v : V) (rs : List Res) : Prop where
  items : ∀ it ∈ v.items, IOK v it
  tab : XTab v
  prog : XProg v
  res : XRes rs

/-! ## congruence / monotonicity -/

theorem IOK.mono {v v' : V} {it : Item} (h : IOK v it) (h1 : v.tableRev ≤ v'.tableRev) (h2 : v'.cfg = v.cfg) (h3 : v.now ≤ v'.now)
    (h4 : lastCall v'.log it.id = lastCall v.log it.id)
    (h5 : it.delete = false → ∀ o ∈ v'.objs, o.id = it.id → o.rev = it.rev → o ∈ v.objs)
    (h6 : it.delete = true → ∀ d ∈ v'.dels, d.1.id = it.id → d.2 ≤ v'.itDelRev → d ∈ v.dels ∧ d.2 ≤ v.itDelRev) : IOK v' it := by
  refine ⟨h.opos, h.ole, Nat.le_trans h.rle h1, h.delrev, h.updrev, h.rq, h.npos, ?_, ?_, ?_, ?_,
    fun hd d hdm hid hle => h.deld hd d (h6 hd d hdm hid hle).1 hid (h6 hd d hdm hid hle).2⟩
  · rw [h2]; exact h.pace1
  · rw [h2]; have := h.pace2; omega
  · rw [h4]; exact h.call
  · intro hd o ho hid hrev
    exact h.data hd o (h5 hd o ho hid hrev) hid hrev

theorem IOK.pop {v : V} {it : Item} (h : IOK v it) (X : Nat) : IOK v (popItem X it) := by
  refine ⟨?_, ?_, ?_, ?_, ?_, ?_, ?_, ?_, ?_, ?_, ?_, ?_⟩ <;> simp only [popItem_origRev, popItem_rev, popItem_delete, popItem_inRevQueue, popItem_numRetries, popItem_retryAt, popItem_id, popItem_obj]
  · exact h.opos
  · exact h.ole
  · exact h.rle
  · exact h.delrev
  · exact h.updrev
  · exact h.rq
  · exact h.npos
  · exact h.pace1
  · exact h.pace2
  · exact h.call
  · exact h.data
  · exact h.deld

/-- the item `retries.Add` stores is well-formed -/
theorem IOK.ofAdd {v : V} (o : RObj) (rev origRev : Nat) (del : Bool) (n : Nat) (h0 : 0 < origRev) (h1 : origRev ≤ rev) (h2 : rev ≤ v.tableRev)
    (h3 : del = true → origRev = rev) (h4 : del = false → origRev < rev)
    (h5 : lastCall v.log o.id = some ⟨if del then "D" else "U", o.id, o.data, false⟩)
    (h6 : del = false → ∀ x ∈ v.objs, x.id = o.id → x.rev = rev → x.data = o.data)
    (h7 : del = true → ∀ d ∈ v.dels, d.1.id = o.id → d.2 ≤ v.itDelRev → d = (o, rev)) :
    IOK v (mkItem v.now v.cfg o rev origRev del (n + 1)) := by
  refine ⟨h0, h1, h2, h3, h4, rfl, by simp [mkItem], ?_, ?_, h5, h6, h7⟩
  · simp only [mkItem]; omega
  · simp only [mkItem]; omega

theorem XTab.congr {v v' : V} (h : XTab v) (h1 : v'.objs = v.objs) (h2 : v'.dels = v.dels) (h3 : v'.tableRev = v.tableRev) : XTab v' := by
  obtain ⟨a, b, c, d⟩ := h
  constructor <;> simp only [h1, h2, h3] <;> assumption

theorem XProg.mono {v v' : V} (h : XProg v) (h1 : v'.objs = v.objs) (h2 : v'.dels = v.dels) (h3 : v'.tableRev = v.tableRev)
    (h4 : v.itRev ≤ v'.itRev) (h5 : v.itDelRev ≤ v'.itDelRev) (h6 : v'.progressRev = v.progressRev) : XProg v' := by
  refine ⟨by rw [h6, h3]; exact h.le, ?_, ?_⟩
  · rw [h1, h6]; intro o ho hle; have := h.obj o ho hle; omega
  · rw [h2, h6]; intro d hd hle; have := h.del d hd hle; omega

theorem XTab.setObj {v : V} (h : XTab v) (o : RObj) (hd : ∀ d ∈ v.dels, d.2 ≤ v.tableRev) : XTab (v.setObj o) := by
  refine ⟨?_, ?_, ?_, fun _ => Or.inl ⟨_, (mem_setObj_v ..).2 (Or.inr rfl), rfl⟩⟩
  · intro x hx
    rcases (mem_setObj_v ..).1 hx with ⟨hx, _⟩ | rfl
    · exact h.opos x hx
    · simp
  · intro d hd'
    simp only [setObjV_dels, List.mem_filter] at hd'
    exact h.dpos d hd'.1
  · intro x hx d hd'
    simp only [setObjV_dels, List.mem_filter] at hd'
    rcases (mem_setObj_v ..).1 hx with ⟨hx, _⟩ | rfl
    · exact h.disj x hx d hd'.1
    · have := hd d hd'.1; simp only; omega

theorem XProg.setObj {v : V} (h : XProg v) (o : RObj) : XProg (v.setObj o) := by
  have := h.le
  refine ⟨by simp only [setObjV_progressRev, setObjV_tableRev]; omega, ?_, ?_⟩
  · intro x hx hle
    simp only [setObjV_progressRev, setObjV_itRev] at hle ⊢
    rcases (mem_setObj_v ..).1 hx with ⟨hx, _⟩ | rfl
    · exact h.obj x hx hle
    · simp only at hle; omega
  · intro d hd hle
    simp only [setObjV_dels, List.mem_filter] at hd
    exact h.del d hd.1 hle

theorem XRes.nil : XRes [] := ⟨by simp, by simp⟩

theorem XRes.tail {res : Res} {rs : List Res} (h : XRes (res :: rs)) : XRes rs :=
  ⟨fun r hr => h.same r (List.mem_cons_of_mem _ hr), fun r hr => h.pos r (List.mem_cons_of_mem _ hr)⟩

theorem XRes.append {rs : List Res} (h : XRes rs) (o : RObj) (rev : Nat) (del f : Bool) (hp : 0 < rev) : XRes (rs ++ resOf o rev del f) := by
  unfold resOf
  cases del
  · simp only [Bool.false_eq_true, if_false]
    refine ⟨fun r hr => ?_, fun r hr => ?_⟩ <;> rcases List.mem_append.1 hr with a | a
    · exact h.same r a
    · simp only [List.mem_singleton] at a; rw [a]
    · exact h.pos r a
    · simp only [List.mem_singleton] at a; rw [a]; exact hp
  · simpa using h

/-! ## the steps of a round -/

theorem IOK.call_other {v : V} {it : Item} (h : IOK v it) (c : Call) (hne : c.id ≠ it.id) : IOK (v.call c) it :=
  h.mono (Nat.le_refl _) rfl (Nat.le_refl _) (lastCall_append_other _ _ _ hne) (fun _ _ ho _ _ => ho) (fun _ _ hd _ hle => ⟨hd, hle⟩)

/-- the iterator moves on -/
theorem XL.setIt {v : V} {rs : List Res} (h : XL v rs) (a : Nat) (ha : v.itRev ≤ a) :
    XL { v with itRev := a } rs :=
  ⟨fun it hit => (h.items it hit).mono (Nat.le_refl _) rfl (Nat.le_refl _) rfl (fun _ _ ho _ _ => ho) (fun _ _ hd _ hle => ⟨hd, hle⟩),
   h.tab.congr rfl rfl rfl, h.prog.mono rfl rfl rfl ha (Nat.le_refl _) rfl, h.res⟩

/-- the delete iterator moves on, past no deletion an item stands for -/
theorem XL.setItDel {v : V} {rs : List Res} (h : XL v rs) (b : Nat) (hb : v.itDelRev ≤ b)
    (hlt : ∀ it ∈ v.items, it.delete = true → ∀ d ∈ v.dels, d.1.id = it.id → d.2 ≤ b → d.2 ≤ v.itDelRev) :
    XL { v with itDelRev := b } rs :=
  ⟨fun it hit => (h.items it hit).mono (Nat.le_refl _) rfl (Nat.le_refl _) rfl (fun _ _ ho _ _ => ho)
      (fun hd d hdm hid hle => ⟨hdm, hlt it hit hd d hdm hid hle⟩),
   h.tab.congr rfl rfl rfl, h.prog.mono rfl rfl rfl (Nat.le_refl _) hb rfl, h.res⟩

/-- a call for an object no item stands for is logged -/
theorem XL.call_noitem {v : V} {rs : List Res} (h : XL v rs) (c : Call) (hno : ∀ it ∈ v.items, it.id ≠ c.id) : XL (v.call c) rs :=
  ⟨fun it hit => (h.items it hit).call_other c (fun e => hno it hit e.symm), h.tab.congr rfl rfl rfl,
   h.prog.mono rfl rfl rfl (Nat.le_refl _) (Nat.le_refl _) rfl, h.res⟩

/-- items are dropped and a call for the dropped id is logged -/
theorem XL.call_clear {v : V} {rs : List Res} (h : XL v rs) (c : Call) : XL ((v.clear c.id).call c) rs := by
  refine ⟨fun it hit => ?_, h.tab.congr rfl rfl rfl, h.prog.mono rfl rfl rfl (Nat.le_refl _) (Nat.le_refl _) rfl, h.res⟩
  simp only [call_items, clear_items, List.mem_filter] at hit
  have hne : c.id ≠ it.id := by have := hit.2; simp at this; omega
  exact (h.items it hit.1).mono (Nat.le_refl _) rfl (Nat.le_refl _) (lastCall_append_other _ _ _ hne) (fun _ _ ho _ _ => ho) (fun _ _ hd _ hle => ⟨hd, hle⟩)

theorem XL.clear {v : V} {rs : List Res} (h : XL v rs) (id : Nat) : XL (v.clear id) rs := by
  refine ⟨fun it hit => ?_, h.tab.congr rfl rfl rfl, h.prog.mono rfl rfl rfl (Nat.le_refl _) (Nat.le_refl _) rfl, h.res⟩
  simp only [clear_items, List.mem_filter] at hit
  exact (h.items it hit.1).mono (Nat.le_refl _) rfl (Nat.le_refl _) rfl (fun _ _ ho _ _ => ho) (fun _ _ hd _ hle => ⟨hd, hle⟩)

theorem XL.setRes {v : V} {rs rs' : List Res} (h : XL v rs) (h' : XRes rs') : XL v rs' := ⟨h.items, h.tab, h.prog, h'⟩

theorem clear_clear (v : V) (id : Nat) : (v.clear id).clear id = v.clear id := by
  unfold V.clear; simp only [List.filter_filter]; simp

theorem call_clear_comm (v : V) (c : Call) (id : Nat) : (v.call c).clear id = (v.clear id).call c := rfl

/-- a failed Delete is queued (again): the item for `o.id` is replaced -/
theorem XL.call_add_del {v : V} {rs : List Res} (h : XL v rs) (o : RObj) (rev : Nat) (hp : 0 < rev) (hle : rev ≤ v.tableRev)
    (hdd : ∀ d ∈ v.dels, d.1.id = o.id → d.2 ≤ v.itDelRev → d = (o, rev))
    (hpo : prevO v.items o.id rev = rev) :
    XL ((v.call ⟨"D", o.id, o.data, false⟩).add o rev rev true) rs := by
  refine ⟨fun it hit => ?_, h.tab.congr rfl rfl rfl, h.prog.mono rfl rfl rfl (Nat.le_refl _) (Nat.le_refl _) rfl, h.res⟩
  rcases (mem_add_items ..).1 hit with ⟨hm, hne⟩ | rfl
  · simp only [call_items] at hm
    exact ((h.items it hm).call_other _ (by simp only; omega)).mono (Nat.le_refl _) rfl (Nat.le_refl _) rfl (fun _ _ ho _ _ => ho) (fun _ _ hd _ hle => ⟨hd, hle⟩)
  · have hpo' : prevO (v.call ⟨"D", o.id, o.data, false⟩).items o.id rev = rev := hpo
    rw [hpo']
    refine IOK.ofAdd (v := (v.call ⟨"D", o.id, o.data, false⟩).add o rev rev true) o rev rev true _ hp (Nat.le_refl _) hle (fun _ => rfl) (fun e => by cases e) ?_ (fun e => by cases e) (fun _ => hdd)
    simp only [add_log, call_log, if_true]
    exact lastCall_append_self _ ⟨"D", o.id, o.data, false⟩

/-- `consume` processes a changed live object -/
theorem XL.updStep {v : V} {rs : List Res} (h : XL v rs) (o : RObj) (rev : Nat) (f : Bool) (ho : o ∈ v.objs) (hrev : rev = o.rev)
    (hgt : v.itRev ≤ rev) :
    XL ((({ v with itRev := rev } : V).clear o.id).single o rev false f) (rs ++ resOf o rev false f) := by
  have h1 : XL ({ v with itRev := rev } : V) rs := h.setIt rev hgt
  have hres : XRes (rs ++ resOf o rev false f) := h.res.append o rev false f (by rw [hrev]; exact h.tab.opos o ho)
  cases f with
  | true =>
    rw [single_ut]
    exact (h1.call_clear ⟨"U", o.id, o.data, false⟩).setRes hres
  | false =>
    rw [single_uf, call_clear_comm, clear_clear]
    exact (h1.call_clear ⟨"U", o.id, o.data, true⟩).setRes hres

/-- `consume` processes a deletion -/
theorem XL.delStep {v : V} {rs : List Res} (h : XL v rs) (o : RObj) (rev : Nat) (f : Bool) (hd : (o, rev) ∈ v.dels)
    (hle : rev ≤ v.tableRev) (hgt : v.itDelRev ≤ rev)
    (hlt : ∀ x ∈ v.dels, x.2 > v.itDelRev → x = (o, rev) ∨ x.2 > rev)
    (hdp : ∀ d ∈ v.dels, d.1.id = o.id → d = (o, rev)) :
    XL ((({ v with itDelRev := rev } : V).clear o.id).single o rev true f) rs := by
  have e : ({ v with itDelRev := rev } : V).clear o.id = { v.clear o.id with itDelRev := rev } := rfl
  have hno : ∀ it ∈ (v.clear o.id).items, it.id ≠ o.id := by
    intro it hit
    simp only [clear_items, List.mem_filter] at hit
    simpa using hit.2
  have h2 : XL ({ v.clear o.id with itDelRev := rev } : V) rs := by
    refine (h.clear o.id).setItDel rev hgt (fun it hit _ d hdm hid hle' => ?_)
    have hne := hno it hit
    by_cases hgt' : d.2 > v.itDelRev
    · rcases hlt d hdm hgt' with e' | e'
      · rw [e'] at hid; exact absurd hid.symm hne
      · omega
    · exact Nat.le_of_not_gt hgt'
  rw [e]
  cases f with
  | true =>
    rw [single_dt]
    exact h2.call_add_del o rev (h.tab.dpos _ hd) hle (fun d hdm hid _ => hdp d hdm hid) (prevO_of_not_mem hno rev)
  | false =>
    rw [single_df, call_clear_comm]
    have : ({ v.clear o.id with itDelRev := rev } : V).clear o.id = { v.clear o.id with itDelRev := rev } := by
      simp [V.clear, List.filter_filter]
    rw [this]
    exact h2.call_noitem ⟨"D", o.id, o.data, true⟩ hno

theorem XL.pop {v : V} {rs : List Res} (h : XL v rs) (X : Nat) : XL (v.pop X) rs := by
  refine ⟨fun it hit => ?_, h.tab.congr rfl rfl rfl, h.prog.mono rfl rfl rfl (Nat.le_refl _) (Nat.le_refl _) rfl, h.res⟩
  simp only [pop_items, List.mem_map] at hit
  obtain ⟨i, hi, rfl⟩ := hit
  exact ((h.items i hi).pop X).mono (Nat.le_refl _) rfl (Nat.le_refl _) rfl (fun _ _ ho _ _ => ho) (fun _ _ hd _ hle => ⟨hd, hle⟩)

/-- a due retry is processed -/
theorem XL.retryStep {v : V} {rs : List Res} (h : XL v rs) (hpw : v.items.Pairwise (fun a b => a.id ≠ b.id)) (it0 : Item) (f : Bool)
    (hit0 : it0 ∈ v.items) (hobj : it0.obj.id = it0.id) :
    XL ((v.pop it0.id).single it0.obj it0.rev it0.delete f) (rs ++ resOf it0.obj it0.rev it0.delete f) := by
  have hI0 := h.items it0 hit0
  have hrp : 0 < it0.rev := Nat.lt_of_lt_of_le hI0.opos hI0.ole
  have hres : ∀ d g, XRes (rs ++ resOf it0.obj it0.rev d g) := fun d g => h.res.append _ _ d g hrp
  have hp := h.pop it0.id
  cases hdel : it0.delete with
  | true =>
    cases f with
    | true =>
      rw [single_dt]
      refine (hp.call_add_del it0.obj it0.rev hrp hI0.rle (fun d hdm hid hle => hI0.deld hdel d hdm (by omega) hle) ?_).setRes (hres _ _)
      simp only [pop_items]
      rw [prevO_pop, hobj, prevO_of_mem hpw hit0, hI0.delrev hdel]
    | false =>
      rw [single_df, call_clear_comm]
      exact (hp.call_clear ⟨"D", it0.obj.id, it0.obj.data, true⟩).setRes (hres _ _)
  | false =>
    cases f with
    | false =>
      rw [single_uf, call_clear_comm]
      exact (hp.call_clear ⟨"U", it0.obj.id, it0.obj.data, true⟩).setRes (hres _ _)
    | true =>
      rw [single_ut]
      refine ⟨fun it hit => ?_, hp.tab.congr rfl rfl rfl, hp.prog.mono rfl rfl rfl (Nat.le_refl _) (Nat.le_refl _) rfl, hres _ _⟩
      simp only [call_items] at hit
      have hI := hp.items it hit
      simp only [pop_items, List.mem_map] at hit
      obtain ⟨i, hi, rfl⟩ := hit
      by_cases hid : i.id = it0.id
      · have hi0 : i = it0 := by
          rcases pairwise_mem_eq hpw hi hit0 with e | e | e
          · exact e
          · exact absurd hid e
          · exact absurd hid.symm e
        subst hi0
        refine ⟨hI.opos, hI.ole, hI.rle, hI.delrev, hI.updrev, hI.rq, hI.npos, hI.pace1, hI.pace2, ?_, hI.data, hI.deld⟩
        simp only [popItem_id, popItem_delete, popItem_obj, call_log, hdel]
        rw [← hobj]
        exact lastCall_append_self _ ⟨"U", i.obj.id, i.obj.data, false⟩
      · exact hI.call_other _ (by simp only [popItem_id]; omega)

/-- a stale result is dropped -/
theorem XL.drop {v : V} {res : Res} {rs : List Res} (h : XL v (res :: rs)) : XL v rs := h.setRes h.res.tail

/-- a status is committed -/
theorem XL.commitStep {v : V} {res : Res} {rs : List Res} (h : XL v (res :: rs)) (sid : Nat)
    (hdl : ∀ d ∈ v.dels, d.2 ≤ v.tableRev) (hrl : res.2.2.1 ≤ v.tableRev)
    (hlast : res.2.2.2.2 = true → lastCall v.log res.1.id = some ⟨"U", res.1.id, res.1.data, false⟩) :
    XL (v.commit res sid) rs := by
  have hsame := h.res.same res (List.mem_cons_self ..)
  have hpos := h.res.pos res (List.mem_cons_self ..)
  cases hf : res.2.2.2.2 with
  | false =>
    rw [commit_s _ _ _ hf]
    refine ⟨fun it hit => ?_, h.tab.setObj _ hdl, h.prog.setObj _, h.res.tail⟩
    simp only [setObjV_items] at hit
    have hI := h.items it hit
    refine hI.mono (by simp) rfl (Nat.le_refl _) rfl (fun _ o ho _ hrev => ?_) (fun _ d hd _ hle => ⟨(List.mem_filter.1 hd).1, hle⟩)
    rcases (mem_setObj_v ..).1 ho with ⟨ho, _⟩ | rfl
    · exact ho
    · have := hI.rle; simp only at hrev; omega
  | true =>
    rw [commit_f _ _ _ hf]
    refine ⟨fun it hit => ?_, (h.tab.setObj _ hdl).congr rfl rfl rfl, (h.prog.setObj _).mono rfl rfl rfl (Nat.le_refl _) (Nat.le_refl _) rfl, h.res.tail⟩
    rcases (mem_add_items ..).1 hit with ⟨hm, hne⟩ | rfl
    · simp only [setObjV_items] at hm
      have hI := h.items it hm
      refine hI.mono (by simp) rfl (Nat.le_refl _) rfl (fun _ o ho _ hrev => ?_) (fun _ d hd _ hle => ⟨(List.mem_filter.1 hd).1, hle⟩)
      simp only [add_objs] at ho
      rcases (mem_setObj_v ..).1 ho with ⟨ho, _⟩ | rfl
      · exact ho
      · have := hI.rle; simp only at hrev; omega
    · have hq : 0 < prevO (v.setObj { res.1 with kind := .error, sid := sid }).items res.2.1.id res.2.2.1 ∧
          prevO (v.setObj { res.1 with kind := .error, sid := sid }).items res.2.1.id res.2.2.1 ≤ v.tableRev := by
        rcases prevO_cases (v.setObj { res.1 with kind := .error, sid := sid }).items res.2.1.id res.2.2.1 with e | ⟨i, hi, _, e⟩
        · rw [e]; exact ⟨hpos, hrl⟩
        · rw [e]
          have hi' := h.items i hi
          exact ⟨hi'.opos, Nat.le_trans hi'.ole hi'.rle⟩
      refine IOK.ofAdd (v := (v.setObj { res.1 with kind := .error, sid := sid }).add res.2.1 (v.tableRev + 1) res.2.2.1 false)
        res.2.1 (v.tableRev + 1) _ false _ hq.1 (by omega) (by simp) (fun e => by cases e) (fun _ => by omega) ?_ ?_ (fun e => by cases e)
      · simp only [add_log, setObjV_log, Bool.false_eq_true, if_false]
        rw [hsame]; exact hlast hf
      · intro _ x hx hxid _
        simp only [add_objs] at hx
        rcases (mem_setObj_v ..).1 hx with ⟨_, hne⟩ | rfl
        · rw [hsame] at hxid; exact absurd hxid hne
        · rw [hsame]

/-! ## the revision of the last change a round consumed -/

/-- while the change stream `cs` is consumed: it is in revision order, and everything up to
    the revision `last` of the last change consumed has been passed by the iterator -/
structure CL (v : V) (cs : List Change) (last : Nat) : Prop where
  sorted : cs.Pairwise (fun a b => a.rev < b.rev)
  gt : ∀ c ∈ cs, last < c.rev
  obj : ∀ o ∈ v.objs, o.rev ≤ last → o.rev ≤ v.itRev
  del : ∀ d ∈ v.dels, d.2 ≤ last → d.2 ≤ v.itDelRev
  le : last ≤ v.tableRev
  itR : v.itRev ≤ max last v.progressRev
  itD : v.itDelRev ≤ max last v.progressRev

/-- in the tail of a round: everything up to `L` has been passed by the iterator -/
structure TL (L : Nat) (v : V) : Prop where
  obj : ∀ o ∈ v.objs, o.rev ≤ L → o.rev ≤ v.itRev
  del : ∀ d ∈ v.dels, d.2 ≤ L → d.2 ≤ v.itDelRev
  le : L ≤ v.tableRev
  itR : v.itRev ≤ max L v.progressRev
  itD : v.itDelRev ≤ max L v.progressRev

theorem CL.toTL {v : V} {cs : List Change} {last : Nat} (h : CL v cs last) : TL last v := ⟨h.obj, h.del, h.le, h.itR, h.itD⟩

theorem TL.congr {L : Nat} {v v' : V} (h : TL L v) (h1 : v'.objs = v.objs) (h2 : v'.dels = v.dels) (h3 : v'.tableRev = v.tableRev)
    (h4 : v'.itRev = v.itRev) (h5 : v'.itDelRev = v.itDelRev) (h6 : v'.progressRev = v.progressRev) : TL L v' := by
  obtain ⟨a, b, c, d, e⟩ := h
  constructor <;> simp only [h1, h2, h3, h4, h5, h6] <;> assumption

theorem TL.commit {L : Nat} {v : V} (h : TL L v) (res : Res) (sid : Nat) : TL L (v.commit res sid) := by
  have := h.le
  refine ⟨?_, ?_, by simp only [commit_tableRev]; omega, by simpa using h.itR, by simpa using h.itD⟩
  · intro o ho hle
    rw [commit_objs] at ho
    simp only [commit_itRev]
    rcases (mem_setObj_v ..).1 ho with ⟨ho, _⟩ | rfl
    · exact h.obj o ho hle
    · simp only at hle; omega
  · intro d hd hle
    rw [commit_dels, List.mem_filter] at hd
    simp only [commit_itDelRev]
    exact h.del d hd.1 hle

/-- a live-object change is passed -/
theorem CL.stepUpd {r : R} {rs : List Res} {c : Change} {cs : List Change} {last : Nat} {v' : V} (h : CL r.v (c :: cs) last)
    (hch : ChOK r rs (c :: cs)) (ht : TInv r) (hc : c.deleted = false)
    (h1 : v'.objs = r.objs) (h2 : v'.dels = r.dels) (h3 : v'.tableRev = r.tableRev) (h4 : v'.itRev = c.rev)
    (h5 : v'.itDelRev = r.itDelRev) (h6 : v'.progressRev = r.progressRev) : CL v' cs c.rev := by
  have hs := List.pairwise_cons.1 h.sorted
  obtain ⟨ho, hrev, _⟩ := hch.upd c (List.mem_cons_self ..) hc
  have hgt := h.gt c (List.mem_cons_self ..)
  have hD := h.itD
  simp only [v_itDelRev, v_progressRev] at hD
  refine ⟨hs.2, hs.1, ?_, ?_, ?_, by rw [h4]; omega, by rw [h5, h6]; omega⟩
  · rw [h1, h4]; intro o _ hle; exact hle
  · rw [h2, h5]
    intro d hd hle
    rcases hch.covD d hd with a | ⟨c', hc', hd', rfl⟩
    · exact a
    · rcases List.mem_cons.1 hc' with rfl | hc'
      · rw [hc] at hd'; cases hd'
      · have := hs.1 c' hc'; simp only at hle; omega
  · rw [h3, hrev]; exact ht.objs_le _ ho

/-- a deletion is passed -/
theorem CL.stepDel {r : R} {rs : List Res} {c : Change} {cs : List Change} {last : Nat} {v' : V} (h : CL r.v (c :: cs) last)
    (hch : ChOK r rs (c :: cs)) (ht : TInv r) (hc : c.deleted = true)
    (h1 : v'.objs = r.objs) (h2 : v'.dels = r.dels) (h3 : v'.tableRev = r.tableRev) (h4 : v'.itRev = r.itRev)
    (h5 : v'.itDelRev = c.rev) (h6 : v'.progressRev = r.progressRev) : CL v' cs c.rev := by
  have hs := List.pairwise_cons.1 h.sorted
  obtain ⟨hd, _⟩ := hch.del c (List.mem_cons_self ..) hc
  have hgt := h.gt c (List.mem_cons_self ..)
  have hR := h.itR
  simp only [v_itRev, v_progressRev] at hR
  refine ⟨hs.2, hs.1, ?_, ?_, ?_, by rw [h4, h6]; omega, by rw [h5]; omega⟩
  · rw [h1, h4]
    intro o ho hle
    rcases hch.covO o ho with a | ⟨c', hc', hd', rfl⟩
    · exact a
    · rcases List.mem_cons.1 hc' with rfl | hc'
      · rw [hc] at hd'; cases hd'
      · have := hs.1 c' hc'
        have := (hch.upd c' (List.mem_cons_of_mem _ hc') hd').2.1
        omega
  · rw [h2, h5]; intro d _ hle; exact hle
  · rw [h3]; exact ht.dels_le _ hd

/-! ## the change stream is in revision order -/

theorem sorted_mergeCh (a b : List Change) (ha : a.Pairwise (fun x y => x.rev < y.rev)) (hb : b.Pairwise (fun x y => x.rev < y.rev))
    (hab : ∀ x ∈ a, ∀ y ∈ b, x.rev ≠ y.rev) : (mergeCh a b).Pairwise (fun x y => x.rev < y.rev) := by
  fun_induction mergeCh a b with
  | case1 r => exact hb
  | case2 l h => exact ha
  | case3 l ls r rs hle ih =>
    rw [List.pairwise_cons] at ha
    have hb' := List.pairwise_cons.1 hb
    rw [List.pairwise_cons]
    refine ⟨fun z hz => ?_, ih ha.2 hb (fun x hx y hy => hab x (List.mem_cons_of_mem _ hx) y hy)⟩
    rcases (mem_mergeCh' ..).1 hz with hz | hz
    · exact ha.1 z hz
    · have hne := hab l (List.mem_cons_self ..) r (List.mem_cons_self ..)
      rcases List.mem_cons.1 hz with rfl | hz
      · omega
      · have := hb'.1 z hz; omega
  | case4 l ls r rs hle ih =>
    rw [List.pairwise_cons] at hb
    have ha' := List.pairwise_cons.1 ha
    rw [List.pairwise_cons]
    refine ⟨fun z hz => ?_, ih ha hb.2 (fun x hx y hy => hab x hx y (List.mem_cons_of_mem _ hy))⟩
    rcases (mem_mergeCh' ..).1 hz with hz | hz
    · rcases List.mem_cons.1 hz with rfl | hz
      · omega
      · have := ha'.1 z hz; omega
    · exact hb.1 z hz

/-- `Next` hands the round its changes in (global) revision order, all revisions positive -/
theorem nextChanges_sorted {r : R} (ht : TInv r) (hx : XTab r.v) :
    r.nextChanges.2.Pairwise (fun a b => a.rev < b.rev) ∧ ∀ c ∈ r.nextChanges.2, 0 < c.rev := by
  unfold R.nextChanges
  split
  · simp
  · simp only
    have hU : ∀ x : Change, x ∈ ((r.objs.filter (·.rev > r.itRev)).map fun o => ({ obj := o, rev := o.rev, deleted := false } : Change)).foldr insertCh [] →
        ∃ o ∈ r.objs, x.rev = o.rev := by
      intro x hx
      rw [mem_foldr_insertCh', List.mem_map] at hx
      obtain ⟨o, ho, rfl⟩ := hx
      exact ⟨o, (List.mem_filter.1 ho).1, rfl⟩
    have hD : ∀ x : Change, x ∈ ((r.dels.filter (·.2 > r.itDelRev)).map fun (o, dr) => ({ obj := o, rev := dr, deleted := true } : Change)).foldr insertCh [] →
        ∃ d ∈ r.dels, x.rev = d.2 := by
      intro x hx
      rw [mem_foldr_insertCh', List.mem_map] at hx
      obtain ⟨d, hd, rfl⟩ := hx
      exact ⟨d, (List.mem_filter.1 hd).1, rfl⟩
    refine ⟨sorted_mergeCh _ _ ?_ ?_ ?_, ?_⟩
    · refine sorted_foldr_insertCh _ ?_
      rw [List.pairwise_map]
      exact (ht.dels_pw.filter _).imp (fun h => h.2)
    · refine sorted_foldr_insertCh _ ?_
      rw [List.pairwise_map]
      exact (ht.objs_pw.filter _).imp (fun h => h.2)
    · intro x hxm y hy
      obtain ⟨d, hd, e1⟩ := hD x hxm
      obtain ⟨o, ho, e2⟩ := hU y hy
      rw [e1, e2]; exact fun e => hx.disj o ho d hd e.symm
    · intro c hc
      rcases (mem_mergeCh' ..).1 hc with hc | hc
      · obtain ⟨d, hd, e1⟩ := hD c hc
        rw [e1]; exact hx.dpos d hd
      · obtain ⟨o, ho, e2⟩ := hU c hc
        rw [e2]; exact hx.opos o ho

end Sdb.Rec
