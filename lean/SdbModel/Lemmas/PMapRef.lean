import SdbModel.Model.PMap
import SdbModel.Lemmas.ArtRefine

/-!
  Lemmas for C17, part 1: more facts about the reference ordered map of C11
  (strictly `cmpL`-ascending association lists with `sinsert` / `sdelete` /
  `look`): extensionality through `look`, commutation of insertions, folds of
  insertions (`FromMap`, unmarshalling, `Union`) and of deletions
  (`Difference`), and the key lists of such maps (`part.Set`).  Core Lean only.
-/
namespace Sdb.Art
open Sdb.PMap (KV)

/-! ### extensionality through `look` -/

theorem sorted_look_ext (l₁ l₂ : List KV) (h₁ : Sorted l₁) (h₂ : Sorted l₂)
    (h : ∀ k, look l₁ k = look l₂ k) : l₁ = l₂ := by
  apply sorted_ext l₁ l₂ h₁ h₂
  intro e
  obtain ⟨k, v⟩ := e
  rw [mem_iff_look l₁ h₁, mem_iff_look l₂ h₂, h k]

theorem sorted_nil : Sorted [] := by simp [Sorted]

theorem sorted_single (e : KV) : Sorted [e] := by simp [Sorted]

/-! ### insertions commute / override -/

theorem sinsert_comm (l : List KV) (h : Sorted l) (k k' : List Nat) (v v' : Nat) (hne : k ≠ k') :
    sinsert (sinsert l k v) k' v' = sinsert (sinsert l k' v') k v := by
  apply sorted_look_ext
  · exact sinsert_sorted _ (sinsert_sorted _ h _ _) _ _
  · exact sinsert_sorted _ (sinsert_sorted _ h _ _) _ _
  · intro q
    simp only [look_sinsert]
    by_cases h1 : q = k
    · have h2 : q ≠ k' := by rw [h1]; exact hne
      simp [h1, hne]
    · by_cases h2 : q = k'
      · simp [h2, Ne.symm hne]
      · simp [h1, h2]

theorem sinsert_override (l : List KV) (h : Sorted l) (k : List Nat) (v v' : Nat) :
    sinsert (sinsert l k v) k v' = sinsert l k v' := by
  apply sorted_look_ext
  · exact sinsert_sorted _ (sinsert_sorted _ h _ _) _ _
  · exact sinsert_sorted _ h _ _
  · intro q
    simp only [look_sinsert]
    by_cases h1 : q = k <;> simp [h1]

theorem sinsert_nil (k : List Nat) (v : Nat) : sinsert [] k v = [(k, v)] := rfl

theorem sdelete_nil (k : List Nat) : sdelete [] k = [] := rfl

theorem sdelete_single (a : List Nat) (w : Nat) (k : List Nat) :
    sdelete [(a, w)] k = if a = k then [] else [(a, w)] := by
  unfold sdelete
  by_cases h : a = k <;> simp [h]

/-- deleting what was just inserted into a map without the key gives the map back -/
theorem sdelete_sinsert (l : List KV) (h : Sorted l) (k : List Nat) (v : Nat) (hk : look l k = none) :
    sdelete (sinsert l k v) k = l := by
  apply sorted_look_ext _ _ (sdelete_sorted _ (sinsert_sorted _ h _ _) _) h
  intro q
  rw [look_sdelete, look_sinsert]
  by_cases h1 : q = k <;> simp [h1, hk]

/-! ### folds of insertions: `FromMap`, unmarshalling -/

/-- the reference `FromMap` / decode loop: insert the pairs from left to right -/
def sinsertAll (l : List KV) (es : List KV) : List KV := es.foldl (fun l e => sinsert l e.1 e.2) l

@[simp] theorem sinsertAll_nil (l : List KV) : sinsertAll l [] = l := rfl

@[simp] theorem sinsertAll_cons (l : List KV) (e : KV) (es : List KV) :
    sinsertAll l (e :: es) = sinsertAll (sinsert l e.1 e.2) es := rfl

theorem sinsertAll_append (l : List KV) (es fs : List KV) :
    sinsertAll l (es ++ fs) = sinsertAll (sinsertAll l es) fs := by
  simp [sinsertAll, List.foldl_append]

theorem sinsertAll_sorted (l : List KV) (h : Sorted l) (es : List KV) : Sorted (sinsertAll l es) := by
  induction es generalizing l with
  | nil => exact h
  | cons e es ih => exact ih _ (sinsert_sorted _ h _ _)

/-- the last binding of a key in the argument list wins, keys not in it keep their old value -/
theorem look_sinsertAll (l : List KV) (es : List KV) (k : List Nat) :
    look (sinsertAll l es) k = match look es.reverse k with | some v => some v | none => look l k := by
  induction es generalizing l with
  | nil => simp
  | cons e es ih =>
    obtain ⟨a, w⟩ := e
    rw [sinsertAll_cons, ih, List.reverse_cons, look_append, look_sinsert]
    cases look es.reverse k with
    | some v => rfl
    | none =>
      simp only [look_cons, look_nil]
      by_cases h : a = k
      · simp [h]
      · simp [h, Ne.symm h]

/-- pairwise distinct keys -/
def KeysNodup (es : List KV) : Prop := (es.map (·.1)).Nodup

theorem keysNodup_of_sorted (l : List KV) (h : Sorted l) : KeysNodup l := by
  unfold KeysNodup
  unfold Sorted at h
  rw [List.Nodup, List.pairwise_map]
  apply List.Pairwise.imp _ h
  intro a b hab e
  unfold KLt at hab
  rw [e] at hab
  exact cmpL_lt_irrefl _ hab

/-- with pairwise distinct keys `look` finds exactly the members, whatever the order -/
theorem mem_iff_look_nodup (l : List KV) (h : KeysNodup l) (k : List Nat) (v : Nat) :
    (k, v) ∈ l ↔ look l k = some v := by
  constructor
  · intro hm
    induction l with
    | nil => simp at hm
    | cons x r ih =>
      obtain ⟨a, w⟩ := x
      unfold KeysNodup at h
      rw [List.map_cons, List.nodup_cons] at h
      rw [look_cons]
      simp only [List.mem_cons, Prod.mk.injEq] at hm
      rcases hm with hm | hm
      · simp [hm.1, hm.2]
      · have : a ≠ k := by
          intro e; apply h.1; rw [e]; exact List.mem_map.mpr ⟨(k, v), hm, rfl⟩
        simp [this, ih h.2 hm]
  · exact look_some_mem l k v

theorem keysNodup_reverse (l : List KV) (h : KeysNodup l) : KeysNodup l.reverse := by
  unfold KeysNodup at h ⊢
  rw [List.map_reverse]
  unfold List.Nodup at h ⊢
  rw [List.pairwise_reverse]
  exact h.imp (fun hab => Ne.symm hab)

theorem keysNodup_perm (l l' : List KV) (hp : l.Perm l') (h : KeysNodup l) : KeysNodup l' := by
  unfold KeysNodup at h ⊢
  exact (hp.map _).nodup_iff.mp h

/-- for a duplicate-free argument `look` of the fold does not depend on the order -/
theorem look_sinsertAll_nodup (l : List KV) (es : List KV) (hd : KeysNodup es) (k : List Nat) :
    look (sinsertAll l es) k = match look es k with | some v => some v | none => look l k := by
  rw [look_sinsertAll]
  have : look es.reverse k = look es k := by
    cases h : look es k with
    | some v =>
      rw [← mem_iff_look_nodup _ (keysNodup_reverse _ hd)]
      rw [← mem_iff_look_nodup _ hd] at h
      simpa using h
    | none =>
      rw [look_eq_none_iff] at h ⊢
      intro e he; exact h e (by simpa using he)
  rw [this]

/-- **`FromMap` does not depend on the iteration order of the Go map** -/
theorem sinsertAll_perm (l : List KV) (h : Sorted l) (es es' : List KV) (hd : KeysNodup es) (hp : es.Perm es') :
    sinsertAll l es = sinsertAll l es' := by
  apply sorted_look_ext _ _ (sinsertAll_sorted _ h _) (sinsertAll_sorted _ h _)
  intro k
  have hd' := keysNodup_perm _ _ hp hd
  rw [look_sinsertAll_nodup l es hd, look_sinsertAll_nodup l es' hd']
  have : look es k = look es' k := by
    cases h1 : look es' k with
    | some v =>
      rw [← mem_iff_look_nodup _ hd'] at h1
      rw [← mem_iff_look_nodup _ hd]; exact hp.mem_iff.mpr h1
    | none =>
      rw [look_eq_none_iff] at h1 ⊢
      intro e he; exact h1 e (hp.mem_iff.mp he)
  rw [this]

/-- membership in the fold, for a duplicate-free argument -/
theorem mem_sinsertAll (l : List KV) (h : Sorted l) (es : List KV) (hd : KeysNodup es) (e : KV) :
    e ∈ sinsertAll l es ↔ e ∈ es ∨ (e.1 ∉ es.map (·.1) ∧ e ∈ l) := by
  obtain ⟨k, v⟩ := e
  rw [mem_iff_look _ (sinsertAll_sorted _ h _), look_sinsertAll_nodup l es hd, mem_iff_look_nodup es hd,
    mem_iff_look l h]
  cases h1 : look es k with
  | some w =>
    simp only [Option.some.injEq]
    constructor
    · exact Or.inl
    · rintro (h2 | ⟨h2, _⟩)
      · exact h2
      · exfalso; apply h2
        exact List.mem_map.mpr ⟨(k, w), look_some_mem _ _ _ h1, rfl⟩
  | none =>
    rw [look_eq_none_iff] at h1
    simp only [reduceCtorEq, false_or, List.mem_map, not_exists, not_and]
    constructor
    · intro h2; exact ⟨fun x hx => h1 x hx, h2⟩
    · exact fun h2 => h2.2

/-- decoding the ordered entry list of a map gives the map back -/
theorem sinsertAll_self (l : List KV) (h : Sorted l) : sinsertAll [] l = l := by
  apply sorted_look_ext _ _ (sinsertAll_sorted _ sorted_nil _) h
  intro k
  rw [look_sinsertAll_nodup [] l (keysNodup_of_sorted l h)]
  cases look l k <;> rfl

/-- re-inserting entries the map already has changes nothing -/
theorem sinsertAll_absorb (l : List KV) (h : Sorted l) (es : List KV) (hsub : ∀ e ∈ es, e ∈ l) :
    sinsertAll l es = l := by
  apply sorted_look_ext _ _ (sinsertAll_sorted _ h _) h
  intro k
  rw [look_sinsertAll]
  cases h1 : look es.reverse k with
  | none => rfl
  | some v =>
    have := look_some_mem _ _ _ h1
    have := hsub (k, v) (by simpa using this)
    exact ((mem_iff_look l h k v).mp this).symm

theorem length_sinsertAll_ge (l : List KV) (h : Sorted l) (es : List KV) : l.length ≤ (sinsertAll l es).length := by
  induction es generalizing l with
  | nil => exact Nat.le_refl _
  | cons e es ih =>
    have h1 := ih _ (sinsert_sorted l h e.1 e.2)
    have h2 := length_sinsert l h e.1 e.2
    rw [sinsertAll_cons]
    split at h2 <;> omega

/-- a list with two different keys has at least two entries -/
theorem two_le_length_of_keys (l : List KV) (k k' : List Nat) (hne : k ≠ k')
    (h1 : k ∈ l.map (·.1)) (h2 : k' ∈ l.map (·.1)) : 2 ≤ l.length := by
  match l, h1, h2 with
  | [], h1, _ => simp at h1
  | [e], h1, h2 =>
    simp only [List.map_cons, List.map_nil, List.mem_singleton] at h1 h2
    exact absurd (h1.trans h2.symm) hne
  | _ :: _ :: _, _, _ => simp

/-! ### folds of deletions: `Difference` -/

def sdeleteAll (l : List KV) (ks : List (List Nat)) : List KV := ks.foldl sdelete l

theorem sdeleteAll_eq_filter (l : List KV) (ks : List (List Nat)) :
    sdeleteAll l ks = l.filter (fun e => decide (e.1 ∉ ks)) := by
  induction ks generalizing l with
  | nil => exact (List.filter_eq_self.mpr (by simp)).symm
  | cons k ks ih =>
    unfold sdeleteAll at ih ⊢
    rw [List.foldl_cons, ih]
    unfold sdelete
    rw [List.filter_filter]
    apply List.filter_congr
    intro e _
    by_cases h1 : e.1 = k <;> simp [h1]

/-! ### key lists (`part.Set`) -/

/-- strictly ascending keys -/
def KSorted (ks : List (List Nat)) : Prop := ks.Pairwise (fun a b => cmpL a b = .lt)

theorem ksorted_keys (l : List KV) (h : Sorted l) : KSorted (l.map (·.1)) := by
  unfold KSorted
  rw [List.pairwise_map]
  exact h

theorem map_fst_pair (l : List (List Nat)) : (l.map (fun k => ((k, 0) : KV))).map (·.1) = l := by
  induction l with
  | nil => rfl
  | cons a r ih => simp only [List.map_cons, ih]

/-- two strictly ascending key lists with the same members are equal -/
theorem ksorted_ext (l₁ l₂ : List (List Nat)) (h₁ : KSorted l₁) (h₂ : KSorted l₂)
    (h : ∀ k, k ∈ l₁ ↔ k ∈ l₂) : l₁ = l₂ := by
  rw [← map_fst_pair l₁, ← map_fst_pair l₂]
  congr 1
  apply sorted_ext
  · unfold Sorted; rw [List.pairwise_map]; exact h₁
  · unfold Sorted; rw [List.pairwise_map]; exact h₂
  · intro e
    simp only [List.mem_map]
    constructor
    · rintro ⟨k, hk, rfl⟩; exact ⟨k, (h k).mp hk, rfl⟩
    · rintro ⟨k, hk, rfl⟩; exact ⟨k, (h k).mpr hk, rfl⟩

theorem mem_keys_iff_look (l : List KV) (k : List Nat) : k ∈ l.map (·.1) ↔ (look l k).isSome = true := by
  cases h : look l k with
  | none =>
    rw [look_eq_none_iff] at h
    simp only [Option.isSome_none, Bool.false_eq_true, iff_false, List.mem_map, not_exists, not_and]
    exact fun e he => h e he
  | some v =>
    simp only [Option.isSome_some, iff_true]
    exact List.mem_map.mpr ⟨(k, v), look_some_mem _ _ _ h, rfl⟩

theorem keys_sinsert (l : List KV) (k : List Nat) (v : Nat) (q : List Nat) :
    q ∈ (sinsert l k v).map (·.1) ↔ q = k ∨ q ∈ l.map (·.1) := by
  rw [mem_keys_iff_look, mem_keys_iff_look, look_sinsert]
  by_cases h : q = k <;> simp [h]

theorem keys_sdelete (l : List KV) (k : List Nat) :
    (sdelete l k).map (·.1) = (l.map (·.1)).filter (fun q => decide (q ≠ k)) := by
  unfold sdelete
  rw [List.filter_map]
  rfl

theorem keys_sinsertAll (l : List KV) (es : List KV) (q : List Nat) :
    q ∈ (sinsertAll l es).map (·.1) ↔ q ∈ es.map (·.1) ∨ q ∈ l.map (·.1) := by
  induction es generalizing l with
  | nil => simp
  | cons e es ih =>
    rw [sinsertAll_cons, ih, keys_sinsert]
    simp only [List.map_cons, List.mem_cons]
    constructor
    · rintro (h | h | h)
      · exact Or.inl (Or.inr h)
      · exact Or.inl (Or.inl h)
      · exact Or.inr h
    · rintro ((h | h) | h)
      · exact Or.inr (Or.inl h)
      · exact Or.inl h
      · exact Or.inr (Or.inr h)

theorem keys_sdeleteAll (l : List KV) (ks : List (List Nat)) :
    (sdeleteAll l ks).map (·.1) = (l.map (·.1)).filter (fun q => decide (q ∉ ks)) := by
  rw [sdeleteAll_eq_filter, List.filter_map]
  rfl

end Sdb.Art
