import SdbModel.Lemmas.ChgTableInv

/-! Change iterators (`mergeChanges`, `ChangeIter.refresh`) over `Model.Table`: ordering of the
    delivered sequence, the consumer's view and the `Synced` relation between a view, the two
    cursors of an iterator and a table.  Helper lemmas for C07 / C08. -/
namespace Sdb.Chg
open Sdb.Tbl Sdb.Tbl.OMap OMap

/-! ### mergeChanges (dualIterator) -/

/-- strictly ascending revisions -/
def AscRev (l : List Change) : Prop := l.Pairwise (fun a b => a.rev < b.rev)

theorem mergeChanges_perm (l r : List Change) : (mergeChanges l r).Perm (l ++ r) := by
  fun_induction mergeChanges l r with
  | case1 r => simp
  | case2 l _ => simp
  | case3 a ls b rs h ih =>
    exact List.Perm.cons _ ih
  | case4 a ls b rs h ih =>
    refine (List.Perm.cons _ ih).trans ?_
    simp only [List.cons_append]
    exact (List.perm_middle (a := b) (l₁ := a :: ls) (l₂ := rs)).symm

theorem mem_mergeChanges (l r : List Change) (c : Change) : c ∈ mergeChanges l r ↔ c ∈ l ∨ c ∈ r := by
  rw [(mergeChanges_perm l r).mem_iff, List.mem_append]

theorem mergeChanges_asc (l r : List Change) (hl : AscRev l) (hr : AscRev r)
    (hd : ∀ a ∈ l, ∀ b ∈ r, a.rev ≠ b.rev) : AscRev (mergeChanges l r) := by
  fun_induction mergeChanges l r with
  | case1 r => exact hr
  | case2 l _ => exact hl
  | case3 a ls b rs h ih =>
    have hl' := List.pairwise_cons.mp hl
    have hr' := List.pairwise_cons.mp hr
    refine List.pairwise_cons.mpr ⟨?_, ih hl'.2 hr (fun x hx y hy => hd x (List.mem_cons_of_mem _ hx) y hy)⟩
    intro c hc
    rcases (mem_mergeChanges _ _ c).mp hc with hc | hc
    · exact hl'.1 c hc
    · have hne := hd a (List.mem_cons_self ..) b (List.mem_cons_self ..)
      have hab : a.rev < b.rev := by omega
      simp only [List.mem_cons] at hc
      rcases hc with e | hc
      · rw [e]; exact hab
      · have := hr'.1 c hc; omega
  | case4 a ls b rs h ih =>
    have hl' := List.pairwise_cons.mp hl
    have hr' := List.pairwise_cons.mp hr
    refine List.pairwise_cons.mpr ⟨?_, ih hl hr'.2 (fun x hx y hy => hd x hx y (List.mem_cons_of_mem _ hy))⟩
    intro c hc
    have hba : b.rev < a.rev := by omega
    rcases (mem_mergeChanges _ _ c).mp hc with hc | hc
    · simp only [List.mem_cons] at hc
      rcases hc with e | hc
      · rw [e]; exact hba
      · have := hl'.1 c hc; omega
    · exact hr'.1 c hc

/-! ### the two halves of `changeIterator.refresh` -/

/-- `LowerBound(ByRevision(r+1))` on the revision index -/
def updatesFrom (t : TableS) (r : Nat) : List Change :=
  (t.revIdx.lowerBound (revKey (r + 1))).map fun (_, o) => ({ obj := o, rev := o.rev, deleted := false } : Change)

/-- `deleteTracker.deleted(txn, d+1)` on the graveyard revision index -/
def deletesFrom (t : TableS) (d : Nat) : List Change :=
  (t.graveRev.lowerBound (revKey (d + 1))).map fun (_, o) => ({ obj := o, rev := o.rev, deleted := true } : Change)

/-- the sequence `refresh` installs, as a function of the committed table and the two cursors -/
def pendingOf (t : TableS) (r d : Nat) : List Change := mergeChanges (deletesFrom t d) (updatesFrom t r)

/-- a snapshot that is not older than the iterator: the sequence is installed -/
theorem refresh_pending (it : ChangeIter) (committed current : List TableS) (h : it.stale committed = false) :
    (it.refresh committed current true).pending =
      some (pendingOf (committed.getD it.table default) it.revision it.deleteRevision) := by
  unfold ChangeIter.refresh
  simp only [h, Bool.false_eq_true, if_false]
  rfl

/-- a snapshot older than the iterator (its creating transaction is not in it): nothing is installed -/
theorem refresh_stale (it : ChangeIter) (committed current : List TableS) (b : Bool) (h : it.stale committed = true) :
    (it.refresh committed current b).pending = none := by
  unfold ChangeIter.refresh
  simp only [h, if_true]

/-- whatever `refresh` installs is the sequence of the committed table at the two cursors -/
theorem refresh_pending_some (it : ChangeIter) (committed current : List TableS) (ps : List Change)
    (h : (it.refresh committed current true).pending = some ps) :
    ps = pendingOf (committed.getD it.table default) it.revision it.deleteRevision ∧ it.stale committed = false := by
  cases hs : it.stale committed with
  | true => rw [refresh_stale it committed current true hs] at h; cases h
  | false =>
    rw [refresh_pending it committed current hs] at h
    exact ⟨(Option.some.inj h).symm, rfl⟩

theorem refresh_fields (it : ChangeIter) (committed current : List TableS) (b : Bool) :
    let it' := it.refresh committed current b
    it'.table = it.table ∧ it'.revision = it.revision ∧ it'.deleteRevision = it.deleteRevision ∧
    it'.tracker = it.tracker ∧ it'.closed = it.closed ∧
    it'.watchGen = some (committed.getD it.table default).gen ∧ it'.base = it.base := by
  unfold ChangeIter.refresh
  simp only
  split <;> exact ⟨rfl, rfl, rfl, rfl, rfl, rfl, rfl⟩

theorem stale_iff (it : ChangeIter) (committed : List TableS) :
    it.stale committed = true ↔ (committed.getD it.table default).rev < it.base := by
  simp [ChangeIter.stale]

private theorem mem_lb_rev (m : OMap Obj) (bound : Nat)
    (hK : ∀ k o, (k, o) ∈ m → k = revKey o.rev ∧ o.rev ≤ bound) (hb : bound + 1 < 2 ^ 64)
    (r : Nat) (hr : r + 1 < 2 ^ 64) (k : Key) (o : Obj) :
    (k, o) ∈ m.lowerBound (revKey (r + 1)) ↔ (k, o) ∈ m ∧ r < o.rev := by
  rw [mem_lowerBound]
  constructor
  · rintro ⟨hm, hc⟩
    refine ⟨hm, ?_⟩
    obtain ⟨hk, hle⟩ := hK k o hm
    simp only at hc
    rw [hk, Ne, revKey_lt_iff _ _ (by omega) hr] at hc
    omega
  · rintro ⟨hm, hlt⟩
    refine ⟨hm, ?_⟩
    obtain ⟨hk, hle⟩ := hK k o hm
    simp only
    rw [hk, Ne, revKey_lt_iff _ _ (by omega) hr]
    omega

theorem mem_updatesFrom {t : TableS} (h : TInv t) (r : Nat) (hr : r + 1 < 2 ^ 64) (c : Change) :
    c ∈ updatesFrom t r ↔ c.deleted = false ∧ c.rev = c.obj.rev ∧ (revKey c.obj.rev, c.obj) ∈ t.revIdx ∧ r < c.rev := by
  unfold updatesFrom
  simp only [List.mem_map, Prod.exists]
  constructor
  · rintro ⟨k, o, hm, e⟩
    rw [mem_lb_rev _ t.rev h.rK h.bound r hr] at hm
    subst e
    have := (h.rK k o hm.1).1
    exact ⟨rfl, rfl, this ▸ hm.1, hm.2⟩
  · rintro ⟨h1, h2, h3, h4⟩
    refine ⟨revKey c.obj.rev, c.obj, ?_, ?_⟩
    · rw [mem_lb_rev _ t.rev h.rK h.bound r hr]; exact ⟨h3, by omega⟩
    · cases c; simp_all

theorem mem_deletesFrom {t : TableS} (h : TInv t) (d : Nat) (hd : d + 1 < 2 ^ 64) (c : Change) :
    c ∈ deletesFrom t d ↔ c.deleted = true ∧ c.rev = c.obj.rev ∧ (revKey c.obj.rev, c.obj) ∈ t.graveRev ∧ d < c.rev := by
  unfold deletesFrom
  simp only [List.mem_map, Prod.exists]
  constructor
  · rintro ⟨k, o, hm, e⟩
    rw [mem_lb_rev _ t.rev h.grK h.bound d hd] at hm
    subst e
    have := (h.grK k o hm.1).1
    exact ⟨rfl, rfl, this ▸ hm.1, hm.2⟩
  · rintro ⟨h1, h2, h3, h4⟩
    refine ⟨revKey c.obj.rev, c.obj, ?_, ?_⟩
    · rw [mem_lb_rev _ t.rev h.grK h.bound d hd]; exact ⟨h3, by omega⟩
    · cases c; simp_all

private theorem asc_of_sorted (m : OMap Obj) (bound : Nat) (hS : Sorted m)
    (hK : ∀ k o, (k, o) ∈ m → k = revKey o.rev ∧ o.rev ≤ bound) (hb : bound + 1 < 2 ^ 64) (b : Bool) :
    AscRev (m.map fun (_, o) => ({ obj := o, rev := o.rev, deleted := b } : Change)) := by
  unfold AscRev
  rw [List.pairwise_map]
  refine List.Pairwise.imp_of_mem ?_ hS
  rintro ⟨k1, o1⟩ ⟨k2, o2⟩ h1 h2 hlt
  obtain ⟨e1, l1⟩ := hK _ _ h1
  obtain ⟨e2, l2⟩ := hK _ _ h2
  simp only at hlt ⊢
  rw [e1, e2, revKey_lt_iff _ _ (by omega) (by omega)] at hlt
  exact hlt

theorem updatesFrom_asc {t : TableS} (h : TInv t) (r : Nat) : AscRev (updatesFrom t r) :=
  asc_of_sorted _ t.rev (sorted_lowerBound h.rS _)
    (fun k o hm => h.rK k o ((mem_lowerBound _ _ _).mp hm).1) h.bound false

theorem deletesFrom_asc {t : TableS} (h : TInv t) (d : Nat) : AscRev (deletesFrom t d) :=
  asc_of_sorted _ t.rev (sorted_lowerBound h.grS _)
    (fun k o hm => h.grK k o ((mem_lowerBound _ _ _).mp hm).1) h.bound true

theorem mem_pendingOf {t : TableS} (h : TInv t) (r d : Nat) (hr : r + 1 < 2 ^ 64) (hd : d + 1 < 2 ^ 64) (c : Change) :
    c ∈ pendingOf t r d ↔ c.rev = c.obj.rev ∧
      ((c.deleted = false ∧ (revKey c.obj.rev, c.obj) ∈ t.revIdx ∧ r < c.rev) ∨
       (c.deleted = true ∧ (revKey c.obj.rev, c.obj) ∈ t.graveRev ∧ d < c.rev)) := by
  unfold pendingOf
  rw [mem_mergeChanges, mem_updatesFrom h r hr, mem_deletesFrom h d hd]
  constructor
  · rintro (⟨a, b, c, d⟩ | ⟨a, b, c, d⟩)
    · exact ⟨b, Or.inr ⟨a, c, d⟩⟩
    · exact ⟨b, Or.inl ⟨a, c, d⟩⟩
  · rintro ⟨b, (⟨a, c, d⟩ | ⟨a, c, d⟩)⟩
    · exact Or.inr ⟨a, b, c, d⟩
    · exact Or.inl ⟨a, b, c, d⟩

/-- the sequence handed out by `refresh` is strictly ascending in revision -/
theorem pendingOf_asc {t : TableS} (h : TInv t) (r d : Nat) : AscRev (pendingOf t r d) := by
  refine mergeChanges_asc _ _ (deletesFrom_asc h d) (updatesFrom_asc h r) ?_
  intro a ha b hb e
  unfold deletesFrom at ha
  unfold updatesFrom at hb
  simp only [List.mem_map, Prod.exists] at ha hb
  obtain ⟨k1, o1, m1, e1⟩ := ha
  obtain ⟨k2, o2, m2, e2⟩ := hb
  have m1' := ((mem_lowerBound _ _ _).mp m1).1
  have m2' := ((mem_lowerBound _ _ _).mp m2).1
  subst e1; subst e2
  simp only at e
  have a1 := (h.grK _ _ m1').1
  have a2 := (h.rK _ _ m2').1
  rw [e] at a1
  rw [a1] at m1'; rw [a2] at m2'
  exact h.rdisj _ _ _ m1' m2'

theorem AscRev.nodup {l : List Change} (h : AscRev l) : l.Nodup := by
  refine List.Pairwise.imp ?_ h
  intro a b hab e; subst e; omega

theorem AscRev.ext {l₁ l₂ : List Change} (h1 : AscRev l₁) (h2 : AscRev l₂) (h : ∀ c, c ∈ l₁ ↔ c ∈ l₂) : l₁ = l₂ := by
  refine List.Perm.eq_of_pairwise ?_ h1 h2 ((List.perm_ext_iff_of_nodup h1.nodup h2.nodup).mpr h)
  intro a b _ _ hab hba; omega

/-! ### the consumer's view -/

/-- what a consumer builds from the delivered changes: a partial map from primary keys to objects -/
abbrev View := Key → Option Obj

/-- an update sets the object, a delete removes it -/
def applyChange (M : View) (c : Change) : View :=
  fun id => if id = c.obj.id then (if c.deleted then none else some c.obj) else M id

def replay (M : View) (cs : List Change) : View := cs.foldl applyChange M

/-- the cursors after a change has been consumed (`it.revision = rev` / `it.deleteRevision = rev`) -/
def advR (r : Nat) (c : Change) : Nat := if c.deleted then r else c.rev
def advD (d : Nat) (c : Change) : Nat := if c.deleted then c.rev else d

/-- The consumer's view `M` with cursors `(r, d)` is in step with table `t`:
    every live object up to revision `r` is in the view as it is in the table, and every key of
    the view that is not live in `t` is still in the graveyard of `t` with a revision above `d`
    (the deletion is still to be delivered: C08's retention, seen from the consumer). -/
structure Synced (M : View) (r d : Nat) (t : TableS) : Prop where
  upto : ∀ o, (o.id, o) ∈ t.primary → o.rev ≤ r → M o.id = some o
  stale : ∀ id, M id ≠ none → (∃ o, (id, o) ∈ t.primary) ∨ (∃ g, (id, g) ∈ t.grave ∧ d < g.rev)

/-- consuming the first pending change keeps the view in step -/
theorem Synced.step {t : TableS} (h : TInv t) {M : View} {r d : Nat} (hs : Synced M r d t)
    (hr : r + 1 < 2 ^ 64) (hd : d + 1 < 2 ^ 64) (c : Change) (hc : c ∈ pendingOf t r d)
    (hmin : ∀ c' ∈ pendingOf t r d, c.rev ≤ c'.rev) :
    Synced (applyChange M c) (advR r c) (advD d c) t := by
  obtain ⟨hcr, hcase⟩ := (mem_pendingOf h r d hr hd c).mp hc
  rcases hcase with ⟨hdel, hcm, hlt⟩ | ⟨hdel, hcm, hlt⟩
  · -- an update
    have hcp : (c.obj.id, c.obj) ∈ t.primary := (h.pr c.obj).mpr hcm
    simp only [advR, advD, hdel, Bool.false_eq_true, if_false]
    constructor
    · intro o ho hle
      unfold applyChange
      by_cases hid : o.id = c.obj.id
      · rw [if_pos hid, hdel]
        rw [hid] at ho
        simp [h.pS.unique ho hcp]
      · rw [if_neg hid]
        by_cases hor : o.rev ≤ r
        · exact hs.upto o ho hor
        · exfalso
          have hom := (h.pr o).mp ho
          have hin : ({ obj := o, rev := o.rev, deleted := false } : Change) ∈ pendingOf t r d :=
            (mem_pendingOf h r d hr hd _).mpr ⟨rfl, Or.inl ⟨rfl, hom, by simp only; omega⟩⟩
          have := hmin _ hin
          simp only at this
          have e : o.rev = c.obj.rev := by omega
          rw [e] at hom
          exact hid (by rw [h.rS.unique hom hcm])
    · intro id hne
      unfold applyChange at hne
      by_cases hid : id = c.obj.id
      · exact Or.inl ⟨c.obj, hid ▸ hcp⟩
      · rw [if_neg hid] at hne
        exact hs.stale id hne
  · -- a delete
    have hcg : (c.obj.id, c.obj) ∈ t.grave := (h.gg c.obj).mpr hcm
    simp only [advR, advD, hdel, if_true]
    constructor
    · intro o ho hle
      unfold applyChange
      have hid : o.id ≠ c.obj.id := fun e => h.disj _ _ _ hcg (e ▸ ho)
      rw [if_neg hid]
      exact hs.upto o ho hle
    · intro id hne
      unfold applyChange at hne
      by_cases hid : id = c.obj.id
      · rw [if_pos hid, hdel] at hne; simp at hne
      · rw [if_neg hid] at hne
        rcases hs.stale id hne with hl | ⟨g, hg, hgd⟩
        · exact Or.inl hl
        · refine Or.inr ⟨g, hg, ?_⟩
          have hgid := h.gK _ _ hg
          have hgm : (revKey g.rev, g) ∈ t.graveRev := (h.gg g).mp (hgid ▸ hg)
          have hin : ({ obj := g, rev := g.rev, deleted := true } : Change) ∈ pendingOf t r d :=
            (mem_pendingOf h r d hr hd _).mpr ⟨rfl, Or.inr ⟨rfl, hgm, hgd⟩⟩
          have := hmin _ hin
          simp only at this
          by_cases e : g.rev = c.obj.rev
          · exfalso
            rw [e] at hgm
            exact hid (by rw [hgid, h.grS.unique hgm hcm])
          · omega

/-- fully caught up: the view IS the table (objects and revisions) -/
theorem Synced.final {t : TableS} (h : TInv t) {M : View} {r d : Nat} (hs : Synced M r d t)
    (hr : ∀ k o, (k, o) ∈ t.primary → o.rev ≤ r) (hd : ∀ k g, (k, g) ∈ t.grave → g.rev ≤ d) :
    ∀ id, M id = t.primary.get id := by
  intro id
  cases hg : t.primary.get id with
  | some o =>
    have hm := (get_eq_some_iff h.pS _ _).mp hg
    have hid := h.pK _ _ hm
    rw [hid] at hm ⊢
    exact hs.upto o hm (hr _ _ hm)
  | none =>
    cases hM : M id with
    | none => rfl
    | some x =>
      exfalso
      rcases hs.stale id (by rw [hM]; simp) with ⟨o, ho⟩ | ⟨g, hg', hlt⟩
      · exact (get_eq_none_iff h.pS _).mp hg o ho
      · have := hd _ _ hg'; omega

theorem pendingOf_rev_le {t : TableS} (h : TInv t) (r d : Nat) (hr : r + 1 < 2 ^ 64) (hd : d + 1 < 2 ^ 64)
    (c : Change) (hc : c ∈ pendingOf t r d) : c.rev ≤ t.rev := by
  obtain ⟨hcr, hcase⟩ := (mem_pendingOf h r d hr hd c).mp hc
  rcases hcase with ⟨_, hcm, _⟩ | ⟨_, hcm, _⟩
  · have := (h.rK _ _ hcm).2; omega
  · have := (h.grK _ _ hcm).2; omega

/-- after the head of the sequence has been consumed, a refresh on the same snapshot yields exactly
    the tail: nothing is lost, nothing is delivered twice -/
theorem pendingOf_tail {t : TableS} (h : TInv t) (r d : Nat) (hr : r + 1 < 2 ^ 64) (hd : d + 1 < 2 ^ 64)
    (c : Change) (rest : List Change) (hp : pendingOf t r d = c :: rest) :
    pendingOf t (advR r c) (advD d c) = rest := by
  have hasc := pendingOf_asc h r d
  rw [hp] at hasc
  have hc : c ∈ pendingOf t r d := by rw [hp]; exact List.mem_cons_self ..
  have hcle := pendingOf_rev_le h r d hr hd c hc
  have hb := h.bound
  have hr' : advR r c + 1 < 2 ^ 64 := by unfold advR; split <;> omega
  have hd' : advD d c + 1 < 2 ^ 64 := by unfold advD; split <;> omega
  have hhead := (List.pairwise_cons.mp hasc).1
  refine AscRev.ext (pendingOf_asc h _ _) (List.pairwise_cons.mp hasc).2 fun c' => ?_
  -- membership in the tail = membership in the whole, strictly above the head
  have htail : c' ∈ rest ↔ c' ∈ pendingOf t r d ∧ c' ≠ c := by
    rw [hp, List.mem_cons]
    constructor
    · intro hm
      refine ⟨Or.inr hm, fun e => ?_⟩
      have := hhead c' hm; rw [e] at this; omega
    · rintro ⟨e | hm, hne⟩
      · exact absurd e hne
      · exact hm
  have hgt : c' ∈ pendingOf t r d → c' ≠ c → c.rev < c'.rev := by
    intro hm hne
    exact hhead c' ((htail.mpr ⟨hm, hne⟩))
  rw [htail, mem_pendingOf h _ _ hr' hd', mem_pendingOf h r d hr hd]
  obtain ⟨hcr, hcase⟩ := (mem_pendingOf h r d hr hd c).mp hc
  constructor
  · rintro ⟨e, hc'⟩
    rcases hc' with ⟨a, b, hlt⟩ | ⟨a, b, hlt⟩
    · have hne : c' ≠ c := by
        intro e'; subst e'
        unfold advR at hlt; rw [a] at hlt; simp at hlt
      refine ⟨⟨e, Or.inl ⟨a, b, ?_⟩⟩, hne⟩
      unfold advR at hlt
      split at hlt
      · exact hlt
      · rcases hcase with ⟨_, _, h1⟩ | ⟨h2, _, _⟩
        · omega
        · simp_all
    · have hne : c' ≠ c := by
        intro e'; subst e'
        unfold advD at hlt; rw [a] at hlt; simp at hlt
      refine ⟨⟨e, Or.inr ⟨a, b, ?_⟩⟩, hne⟩
      unfold advD at hlt
      split at hlt
      · rcases hcase with ⟨h2, _, _⟩ | ⟨_, _, h1⟩
        · simp_all
        · omega
      · exact hlt
  · rintro ⟨⟨e, hc'⟩, hne⟩
    have hlt' := hgt ((mem_pendingOf h r d hr hd c').mpr ⟨e, hc'⟩) hne
    refine ⟨e, ?_⟩
    rcases hc' with ⟨a, b, hlt⟩ | ⟨a, b, hlt⟩
    · refine Or.inl ⟨a, b, ?_⟩
      unfold advR; split <;> omega
    · refine Or.inr ⟨a, b, ?_⟩
      unfold advD; split <;> omega

/-- the cursors after a list of changes has been consumed -/
def cursors (r d : Nat) (cs : List Change) : Nat × Nat :=
  cs.foldl (fun p c => (advR p.1 c, advD p.2 c)) (r, d)

/-- **partial consumption**: after any prefix of the sequence has been consumed the view is in step
    with the same snapshot at the advanced cursors, and a refresh at the advanced cursors yields
    exactly the unconsumed suffix -/
theorem Synced.consume_prefix {t : TableS} (h : TInv t) (pre post : List Change) :
    ∀ {M : View} {r d : Nat}, Synced M r d t → r + 1 < 2 ^ 64 → d + 1 < 2 ^ 64 →
      pendingOf t r d = pre ++ post →
      Synced (replay M pre) (cursors r d pre).1 (cursors r d pre).2 t ∧
      pendingOf t (cursors r d pre).1 (cursors r d pre).2 = post ∧
      (cursors r d pre).1 + 1 < 2 ^ 64 ∧ (cursors r d pre).2 + 1 < 2 ^ 64 := by
  induction pre with
  | nil => intro M r d hs hr hd hp; exact ⟨hs, hp, hr, hd⟩
  | cons c pre ih =>
    intro M r d hs hr hd hp
    have hc : c ∈ pendingOf t r d := by rw [hp]; exact List.mem_cons_self ..
    have hasc := pendingOf_asc h r d
    have hmin : ∀ c' ∈ pendingOf t r d, c.rev ≤ c'.rev := by
      intro c' hc'
      rw [hp] at hc' hasc
      simp only [List.cons_append, List.mem_cons] at hc'
      rcases hc' with e | hm
      · rw [e]; exact Nat.le_refl _
      · exact Nat.le_of_lt ((List.pairwise_cons.mp hasc).1 c' hm)
    have hcle := pendingOf_rev_le h r d hr hd c hc
    have hb := h.bound
    have hr' : advR r c + 1 < 2 ^ 64 := by unfold advR; split <;> omega
    have hd' : advD d c + 1 < 2 ^ 64 := by unfold advD; split <;> omega
    have := ih (hs.step h hr hd c hc hmin) hr' hd' (pendingOf_tail h r d hr hd c (pre ++ post) hp)
    simpa [replay, cursors] using this

theorem cursors_nil (r d : Nat) : cursors r d [] = (r, d) := rfl

/-- **completeness + convergence** on one snapshot: replaying the whole sequence of a refresh onto a
    view that is in step yields exactly the live objects (with their revisions) of that snapshot -/
theorem Synced.replay_all {t : TableS} (h : TInv t) {M : View} {r d : Nat} (hs : Synced M r d t)
    (hr : r + 1 < 2 ^ 64) (hd : d + 1 < 2 ^ 64) :
    ∀ id, replay M (pendingOf t r d) id = t.primary.get id := by
  obtain ⟨hs', hp', hr', hd'⟩ := hs.consume_prefix h (pendingOf t r d) [] hr hd (by simp)
  refine hs'.final h ?_ ?_
  · intro k o ho
    have hk := h.pK _ _ ho
    have hom := (h.pr o).mp (hk ▸ ho)
    by_cases hle : o.rev ≤ (cursors r d (pendingOf t r d)).1
    · exact hle
    · exfalso
      have : ({ obj := o, rev := o.rev, deleted := false } : Change) ∈
          pendingOf t (cursors r d (pendingOf t r d)).1 (cursors r d (pendingOf t r d)).2 :=
        (mem_pendingOf h _ _ hr' hd' _).mpr ⟨rfl, Or.inl ⟨rfl, hom, by simp only; omega⟩⟩
      rw [hp'] at this; simp at this
  · intro k g hg
    have hk := h.gK _ _ hg
    have hgm := (h.gg g).mp (hk ▸ hg)
    by_cases hle : g.rev ≤ (cursors r d (pendingOf t r d)).2
    · exact hle
    · exfalso
      have : ({ obj := g, rev := g.rev, deleted := true } : Change) ∈
          pendingOf t (cursors r d (pendingOf t r d)).1 (cursors r d (pendingOf t r d)).2 :=
        (mem_pendingOf h _ _ hr' hd' _).mpr ⟨rfl, Or.inr ⟨rfl, hgm, by simp only; omega⟩⟩
      rw [hp'] at this; simp at this

/-! ### the view stays in step while the table moves on (C08's retention, consumer side) -/

theorem Synced.congr {t t' : TableS} {M : View} {r d : Nat} (hs : Synced M r d t)
    (h2 : t'.primary = t.primary) (h4 : t'.grave = t.grave) : Synced M r d t' := by
  obtain ⟨a, b⟩ := hs
  constructor <;> simp only [h2, h4] <;> assumption

theorem Synced.modify {t : TableS} (h : TInv t) {M : View} {r d : Nat} (hs : Synced M r d t)
    (hr : r ≤ t.rev) (g : Nat) (o : Obj) (m : Bool) : Synced M r d (modify t g o m).1 := by
  rcases modify_mem h g o m with e | ⟨_, hrev, _, hp, hg, _⟩
  · rw [e]; exact hs
  · constructor
    · intro x hx hle
      rcases (hp _ _).mp hx with ⟨_, e⟩ | ⟨_, hx⟩
      · rw [e, modNew_rev] at hle; omega
      · exact hs.upto x hx hle
    · intro id hne
      by_cases hid : id = o.id
      · exact Or.inl ⟨modNew t o m, (hp _ _).mpr (Or.inl ⟨hid, rfl⟩)⟩
      · rcases hs.stale id hne with ⟨x, hx⟩ | ⟨x, hx, hlt⟩
        · exact Or.inl ⟨x, (hp _ _).mpr (Or.inr ⟨hid, hx⟩)⟩
        · exact Or.inr ⟨x, (hg _ _).mpr ⟨hx, fun _ => hid⟩, hlt⟩

theorem Synced.delete {t : TableS} (h : TInv t) {M : View} {r d : Nat} (hs : Synced M r d t)
    (hd : d ≤ t.rev) (htr : t.trackers ≠ []) (g : Nat) (id : Key) : Synced M r d (delete t g id).1 := by
  rcases delete_mem h g id with e | ⟨old, hold, _, hrev, _, hp, hg, _⟩
  · rw [e]; exact hs
  · have hne : t.trackers.isEmpty = false := by cases hh : t.trackers <;> simp_all
    constructor
    · intro x hx hle
      exact hs.upto x ((hp _ _).mp hx).2 hle
    · intro k hk
      by_cases hid : k = id
      · refine Or.inr ⟨_, (hg _ _).mpr (Or.inl ⟨hne, hid, rfl⟩), ?_⟩
        simp only; omega
      · rcases hs.stale k hk with ⟨x, hx⟩ | ⟨x, hx, hlt⟩
        · exact Or.inl ⟨x, (hp _ _).mpr ⟨hid, hx⟩⟩
        · exact Or.inr ⟨x, (hg _ _).mpr (Or.inr ⟨fun _ => hid, hx⟩), hlt⟩

theorem Synced.gcTable {t : TableS} (h : TInv t) {M : View} {r d : Nat} (hs : Synced M r d t)
    (ks : List Key) (hks : ∀ k ∈ ks, ∃ ρ, k = revKey ρ ∧ ρ ≤ d) :
    Synced M r d (gcTable t ks) := by
  obtain ⟨_, f2, _⟩ := gcTable_fields t ks
  obtain ⟨_, m2⟩ := gcTable_mem h ks
  constructor
  · intro x hx hle
    rw [f2] at hx
    exact hs.upto x hx hle
  · intro k hk
    rcases hs.stale k hk with ⟨x, hx⟩ | ⟨x, hx, hlt⟩
    · exact Or.inl ⟨x, by rw [f2]; exact hx⟩
    · refine Or.inr ⟨x, (m2 _ _).mpr ⟨hx, fun hin => ?_⟩, hlt⟩
      obtain ⟨ρ, e, hle⟩ := hks _ hin
      have hxid := h.gK _ _ hx
      have hxr := (h.grK _ _ ((h.gg x).mp (hxid ▸ hx))).2
      have hb := h.bound
      have := revKey_inj _ _ (by omega) (by omega) e
      omega
end Sdb.Chg
