import SdbModel.Lemmas.Serial

/-! The lock order `Model.Conc` derives from a requested table list — de-duplicate,
    then sort by sequence number — is strictly ascending and has the same members,
    whatever order and duplicates the caller used.  This discharges the
    `Ascending` premise of `Serial.Step.spawn` for the threads of `Model.Conc`. -/
namespace Sdb.Conc
open Sdb.Serial

theorem mem_insertSorted (x y : Nat) (l : List Nat) : y ∈ insertSorted x l ↔ y = x ∨ y ∈ l := by
  induction l with
  | nil => simp [insertSorted]
  | cons z zs ih =>
    unfold insertSorted
    split
    · simp
    · simp only [List.mem_cons, ih]
      constructor
      · rintro (h | h | h)
        · exact Or.inr (Or.inl h)
        · exact Or.inl h
        · exact Or.inr (Or.inr h)
      · rintro (h | h | h)
        · exact Or.inr (Or.inl h)
        · exact Or.inl h
        · exact Or.inr (Or.inr h)

theorem mem_sortNat (y : Nat) (l : List Nat) : y ∈ sortNat l ↔ y ∈ l := by
  induction l with
  | nil => simp [sortNat]
  | cons x xs ih =>
    have : sortNat (x :: xs) = insertSorted x (sortNat xs) := rfl
    rw [this, mem_insertSorted, ih]; simp

theorem mem_dedup (y : Nat) (l : List Nat) : y ∈ dedup l ↔ y ∈ l := by
  induction l with
  | nil => simp [dedup]
  | cons x xs ih =>
    simp only [dedup, List.mem_cons, List.mem_filter, ih]
    constructor
    · rintro (h | ⟨h, _⟩)
      · exact Or.inl h
      · exact Or.inr h
    · rintro (h | h)
      · exact Or.inl h
      · by_cases hyx : y = x
        · exact Or.inl hyx
        · exact Or.inr ⟨h, by simpa using hyx⟩

theorem nodup_dedup (l : List Nat) : (dedup l).Nodup := by
  induction l with
  | nil => simp [dedup]
  | cons x xs ih =>
    simp only [dedup, List.nodup_cons, List.mem_filter]
    refine ⟨by simp, ?_⟩
    exact List.Pairwise.filter _ ih

/-- lower bound of an ascending list -/
theorem ascending_head_lt (a : Nat) (l : List Nat) (h : Ascending (a :: l)) : ∀ y ∈ l, a < y := by
  have := ascending_drop_gt (a :: l) h 0 a (by simp)
  simpa using this

theorem ascending_cons (a : Nat) (l : List Nat) (hl : Ascending l) (h : ∀ y ∈ l, a < y) : Ascending (a :: l) := by
  cases l with
  | nil => trivial
  | cons b r => exact ⟨h b (by simp), hl⟩

theorem insertSorted_ascending (x : Nat) (l : List Nat) (hl : Ascending l) (hx : x ∉ l) :
    Ascending (insertSorted x l) := by
  induction l with
  | nil => trivial
  | cons z zs ih =>
    unfold insertSorted
    have hz := ascending_head_lt z zs hl
    split
    · rename_i hle
      have hne : x ≠ z := fun e => hx (by simp [e])
      apply ascending_cons _ _ hl
      intro y hy
      simp only [List.mem_cons] at hy
      rcases hy with rfl | hy
      · omega
      · have := hz y hy; omega
    · rename_i hnle
      apply ascending_cons
      · exact ih hl.tail (fun h => hx (List.mem_cons_of_mem _ h))
      · intro y hy
        rw [mem_insertSorted] at hy
        rcases hy with rfl | hy
        · omega
        · exact hz y hy

theorem sortNat_ascending (l : List Nat) (h : l.Nodup) : Ascending (sortNat l) := by
  induction l with
  | nil => trivial
  | cons x xs ih =>
    have e : sortNat (x :: xs) = insertSorted x (sortNat xs) := rfl
    rw [e]
    simp only [List.nodup_cons] at h
    exact insertSorted_ascending x _ (ih h.2) (by rw [mem_sortNat]; exact h.1)

/-- the acquisition order of a writer: ascending, duplicate-free, same members -/
theorem lockOrder_ascending (tabs : List Nat) :
    Ascending (sortNat (dedup tabs)) ∧ ∀ y, y ∈ sortNat (dedup tabs) ↔ y ∈ tabs :=
  ⟨sortNat_ascending _ (nodup_dedup tabs), fun y => by rw [mem_sortNat, mem_dedup]⟩

end Sdb.Conc
