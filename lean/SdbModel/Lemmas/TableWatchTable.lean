import SdbModel.Lemmas.TableWatchCommit
import SdbModel.Lemmas.IndexBase
/-!
  Lemmas for the C06 glue, part 4: ONE table.  Every write operation of
  Model.Table (`modify`, `delete`, `deleteAll`) changes each part-index map exactly as
  the tree operations of Model.TableWatch (`modifyOps`, `deleteOps`, `deleteAllOps`),
  read through `IOp.onMap`, change it; hence the tracking invariant of every index
  is preserved along any sequence of table operations (`TTrack.run`).
  Core Lean only.
-/
namespace Sdb.TW
open Sdb.Art Sdb.Tbl Sdb.ArtW

/-- the index map of Model.Table behind each part index -/
def imap (t : TableS) : PIx → OMap Obj
  | .id => t.primary
  | .u => t.uIdx
  | .tags => t.tagIdx

def SortedAll (t : TableS) : Prop := ∀ i, OMap.Sorted (imap t i)

/-! ### folds of index operations on a map -/

theorem onMap_sorted (m : OMap Obj) (hs : OMap.Sorted m) (op : IOp) : OMap.Sorted (op.onMap m) := by
  cases op with
  | ins k o => exact OMap.sorted_insert m hs k o
  | del k => exact OMap.sorted_erase m hs k
  | _ => exact hs

theorem foldl_onMap_sorted (ops : List IOp) (m : OMap Obj) (hs : OMap.Sorted m) : OMap.Sorted (ops.foldl IOp.onMap m) := by
  induction ops generalizing m with
  | nil => exact hs
  | cons op ops ih => exact ih _ (onMap_sorted m hs op)

theorem foldl_ins (f : Key → Key) (n : Obj) (ks : List Key) (m : OMap Obj) :
    (ks.map fun k => IOp.ins (f k) n).foldl IOp.onMap m = ks.foldl (fun m k => OMap.insert m (f k) n) m := by
  rw [List.foldl_map]; rfl

theorem foldl_del (f : Key → Key) (p : Key → Bool) (ks : List Key) (m : OMap Obj) :
    ((ks.filter fun k => !p k).map fun k => IOp.del (f k)).foldl IOp.onMap m =
      ks.foldl (fun m k => if p k then m else OMap.erase m (f k)) m := by
  induction ks generalizing m with
  | nil => rfl
  | cons k ks ih =>
    rw [List.filter_cons, List.foldl_cons]
    cases hp : p k
    · simp only [Bool.not_false, if_true, List.map_cons, List.foldl_cons, Bool.false_eq_true, if_false]
      rw [ih]; rfl
    · simp only [Bool.not_true, Bool.false_eq_true, if_false, if_true]
      rw [ih]

/-- `partIndexTxn.reindex` on the map: the loops of Model.Table's `reindexUnique` / `reindexNonUnique` -/
theorem reindexOps_onMap (f : Key → Key) (oldKeys newKeys : List Key) (n : Obj) (m : OMap Obj) :
    (reindexOps f oldKeys newKeys n).foldl IOp.onMap m =
      oldKeys.foldl (fun m k => if newKeys.contains k then m else OMap.erase m (f k))
        (newKeys.foldl (fun m k => OMap.insert m (f k) n) m) := by
  unfold reindexOps
  rw [List.foldl_append, foldl_ins, foldl_del f (fun k => newKeys.contains k)]

theorem erase_insert_absent (m : OMap Obj) (hs : OMap.Sorted m) (k : Key) (o : Obj) (h : OMap.get m k = none) :
    OMap.erase (OMap.insert m k o) k = m := by
  have h1 := OMap.sorted_insert m hs k o
  apply omap_ext _ _ (OMap.sorted_erase _ h1 k) hs
  intro k2
  rw [OMap.get_erase _ h1, OMap.get_insert]
  by_cases hk : k2 = k
  · subst hk; simp [h]
  · simp [hk]

theorem insert_insert_old (m : OMap Obj) (hs : OMap.Sorted m) (k : Key) (o old : Obj) (h : OMap.get m k = some old) :
    OMap.insert (OMap.insert m k o) k old = m := by
  have h1 := OMap.sorted_insert m hs k o
  apply omap_ext _ _ (OMap.sorted_insert _ h1 k old) hs
  intro k2
  rw [OMap.get_insert, OMap.get_insert]
  by_cases hk : k2 = k
  · subst hk; simp [h]
  · simp [hk]

theorem insert_erase_old (m : OMap Obj) (hs : OMap.Sorted m) (k : Key) (old : Obj) (h : OMap.get m k = some old) :
    OMap.insert (OMap.erase m k) k old = m := by
  have h1 := OMap.sorted_erase m hs k
  apply omap_ext _ _ (OMap.sorted_insert _ h1 k old) hs
  intro k2
  rw [OMap.get_insert, OMap.get_erase _ hs]
  by_cases hk : k2 = k
  · subst hk; simp [h]
  · simp [hk]

theorem newObjOf_eq (t : TableS) (o : Obj) (mg : Bool) : newObjOf t o mg = Tbl.newObj t o mg := rfl

@[simp] theorem newObjOf_tags (t : TableS) (o : Obj) (mg : Bool) : (newObjOf t o mg).tags = o.tags := by
  unfold newObjOf; split <;> rfl

/-! ### the write operations of Model.Table as index operations -/

theorem modify_imap (t : TableS) (g : Nat) (o : Obj) (mg : Bool) (hs : SortedAll t) (i : PIx) :
    imap (Tbl.modify t g o mg).1 i = ((modifyOps t g o mg).get i).foldl IOp.onMap (imap t i) := by
  rcases modify_cases t g o mg with ⟨hl, he⟩ | ⟨hl, hg, hn, he⟩ | ⟨hl, hg, oo, ho, hr, he⟩ | ⟨hl, hok, t', he, hm⟩
  · rw [he]
    have : modifyOps t g o mg = {} := by unfold modifyOps; simp [hl]
    rw [this]; cases i <;> rfl
  · rw [he]
    have : modifyOps t g o mg = { id := [.open, .ins o.id (newObjOf t o mg), .del o.id] } := by
      unfold modifyOps; simp [hl, hn, hg]
    rw [this]
    cases i with
    | id =>
      show t.primary = OMap.erase (OMap.insert t.primary o.id _) o.id
      exact (erase_insert_absent _ (hs .id) _ _ hn).symm
    | u => rfl
    | tags => rfl
  · rw [he]
    have : modifyOps t g o mg = { id := [.open, .ins o.id (newObjOf t o mg), .ins o.id oo] } := by
      unfold modifyOps; simp [hl, ho, hg, hr]
    rw [this]
    cases i with
    | id =>
      show t.primary = OMap.insert (OMap.insert t.primary o.id _) o.id oo
      exact (insert_insert_old _ (hs .id) _ _ _ ho).symm
    | u => rfl
    | tags => rfl
  · have hidx := modify_ok_idx t g o mg hl hok
    rw [he] at hidx ⊢
    simp only at hidx ⊢
    cases hold : t.primary.get o.id with
    | none =>
      have hg0 : ¬ g > 0 := by
        rcases hok with h0 | ⟨oo, ho, _⟩
        · omega
        · rw [hold] at ho; exact absurd ho (by simp)
      have hops : modifyOps t g o mg =
          { id := [.open, .ins o.id (newObjOf t o mg)]
            tags := .open :: reindexOps (P.composite o.id) [] (newObjOf t o mg).tags (newObjOf t o mg)
            u := if t.full then .open :: reindexOps (fun k => k) [] [(newObjOf t o mg).ukey] (newObjOf t o mg) else []
            lpm := t.full } := by
        unfold modifyOps; simp [hl, hold, hg0]
      rw [hops]
      cases i with
      | id => show t'.primary = _; rw [hm.primary]; rfl
      | u =>
        show t'.uIdx = _
        rw [hidx.uIdx, hold]
        cases t.full
        · rfl
        · simp only [if_true, TOps.get, List.foldl_cons, IOp.onMap, reindexOps_onMap]
          unfold reindexUnique; rfl
      | tags =>
        show t'.tagIdx = _
        rw [hidx.tagIdx, hold]
        simp only [TOps.get, List.foldl_cons, IOp.onMap, reindexOps_onMap]
        unfold reindexNonUnique; rfl
    | some oo =>
      have hg1 : ¬ (g > 0 ∧ oo.rev ≠ g) := by
        rcases hok with h0 | ⟨oo', ho, hr⟩
        · omega
        · rw [hold] at ho; cases ho; omega
      have hops : modifyOps t g o mg =
          { id := [.open, .ins o.id (newObjOf t o mg)]
            tags := .open :: reindexOps (P.composite o.id) oo.tags (newObjOf t o mg).tags (newObjOf t o mg)
            u := if t.full then .open :: reindexOps (fun k => k) [oo.ukey] [(newObjOf t o mg).ukey] (newObjOf t o mg) else []
            lpm := t.full } := by
        unfold modifyOps; simp [hl, hold, hg1]
      rw [hops]
      cases i with
      | id => show t'.primary = _; rw [hm.primary]; rfl
      | u =>
        show t'.uIdx = _
        rw [hidx.uIdx, hold]
        cases t.full
        · rfl
        · simp only [if_true, TOps.get, List.foldl_cons, IOp.onMap, reindexOps_onMap]
          unfold reindexUnique; rfl
      | tags =>
        show t'.tagIdx = _
        rw [hidx.tagIdx, hold]
        simp only [TOps.get, List.foldl_cons, IOp.onMap, reindexOps_onMap]
        unfold reindexNonUnique; rfl

theorem delete_imap (t : TableS) (g : Nat) (id : Key) (hs : SortedAll t) (i : PIx) :
    imap (Tbl.delete t g id).1 i = ((deleteOps t g id).get i).foldl IOp.onMap (imap t i) := by
  rcases delete_cases t g id with ⟨hl, he⟩ | ⟨hl, hn, he⟩ | ⟨hl, hg, old, ho, hr, he⟩ | ⟨hl, old, ho, hg, t', he, hd⟩
  · rw [he]
    have : deleteOps t g id = {} := by unfold deleteOps; simp [hl]
    rw [this]; cases i <;> rfl
  · rw [he]
    have : deleteOps t g id = { id := [.open, .del id] } := by unfold deleteOps; simp [hl, hn]
    rw [this]
    cases i with
    | id =>
      show t.primary = OMap.erase t.primary id
      exact (OMap.erase_absent _ (hs .id) _ hn).symm
    | u => rfl
    | tags => rfl
  · rw [he]
    have : deleteOps t g id = { id := [.open, .del id, .ins id old] } := by
      unfold deleteOps; simp [hl, ho, hg, hr]
    rw [this]
    cases i with
    | id =>
      show t.primary = OMap.insert (OMap.erase t.primary id) id old
      exact (insert_erase_old _ (hs .id) _ _ ho).symm
    | u => rfl
    | tags => rfl
  · have hidx := delete_ok_idx t g id hl old ho hg
    rw [he] at hidx ⊢
    simp only at hidx ⊢
    have hg1 : ¬ (g > 0 ∧ old.rev ≠ g) := by omega
    have hops : deleteOps t g id =
        { id := [.open, .del id]
          tags := .open :: reindexOps (P.composite id) old.tags [] old
          u := if t.full then .open :: reindexOps (fun k => k) [old.ukey] [] old else []
          lpm := t.full } := by
      unfold deleteOps; simp [hl, ho, hg1]
    rw [hops]
    cases i with
    | id => show t'.primary = _; rw [hd.primary]; rfl
    | u =>
      show t'.uIdx = _
      rw [hidx.uIdx]
      cases t.full
      · rfl
      · simp only [if_true, TOps.get, List.foldl_cons, IOp.onMap, reindexOps_onMap]
        unfold reindexUnique; rfl
    | tags =>
      show t'.tagIdx = _
      rw [hidx.tagIdx]
      simp only [TOps.get, List.foldl_cons, IOp.onMap, reindexOps_onMap]
      unfold reindexNonUnique; rfl

theorem modify_sortedAll (t : TableS) (g : Nat) (o : Obj) (mg : Bool) (hs : SortedAll t) :
    SortedAll (Tbl.modify t g o mg).1 := by
  intro i; rw [modify_imap t g o mg hs i]; exact foldl_onMap_sorted _ _ (hs i)

theorem delete_sortedAll (t : TableS) (g : Nat) (id : Key) (hs : SortedAll t) : SortedAll (Tbl.delete t g id).1 := by
  intro i; rw [delete_imap t g id hs i]; exact foldl_onMap_sorted _ _ (hs i)

theorem TOps.get_append (a b : TOps) (i : PIx) : (a.append b).get i = a.get i ++ b.get i := by
  cases i <;> rfl

/-- the loop of `DeleteAll` -/
theorem delFold_imap (l : List (Key × Obj)) (t : TableS) (a : TOps) (hs : SortedAll t) (i : PIx) (m0 : OMap Obj)
    (ha : (a.get i).foldl IOp.onMap m0 = imap t i) :
    ((l.foldl (fun (acc : TableS × TOps) (e : Key × Obj) =>
        ((Tbl.delete acc.1 0 e.1).1, acc.2.append (deleteOps acc.1 0 e.1))) (t, a)).2.get i).foldl IOp.onMap m0 =
      imap (delFold l t) i := by
  induction l generalizing t a with
  | nil => exact ha
  | cons e l ih =>
    rw [List.foldl_cons, delFold_cons]
    apply ih _ _ (delete_sortedAll t 0 e.1 hs)
    rw [TOps.get_append, List.foldl_append, ha, delete_imap t 0 e.1 hs i]

theorem deleteAll_imap (t : TableS) (hs : SortedAll t) (i : PIx) :
    imap (Tbl.deleteAll t).1 i = ((deleteAllOps t).get i).foldl IOp.onMap (imap t i) := by
  rw [deleteAll_eq]
  unfold deleteAllOps
  cases hl : t.locked with
  | false => simp only [Bool.not_false, if_true, Bool.false_eq_true, if_false]; cases i <;> rfl
  | true =>
    simp only [Bool.not_true, Bool.false_eq_true, if_false, if_true]
    symm
    apply delFold_imap t.primary t _ hs i
    cases i <;> rfl

theorem readOps_onMap (ix : Idx) (k : QKind) (i : PIx) (m : OMap Obj) : ((readOps ix k).get i).foldl IOp.onMap m = m := by
  unfold readOps partReadOps
  cases ix <;> cases i <;> cases k <;> rfl

/-- every table operation changes each part-index map as its tree operations say -/
theorem onTable_imap (t : TableS) (op : TOp) (hs : SortedAll t) (i : PIx) :
    imap (op.onTable t) i = ((op.ops t).get i).foldl IOp.onMap (imap t i) := by
  cases op with
  | modify g o mg => exact modify_imap t g o mg hs i
  | delete g id => exact delete_imap t g id hs i
  | deleteAll => exact deleteAll_imap t hs i
  | read ix k => exact (readOps_onMap ix k i _).symm

/-! ### the transaction on one table -/

/-- the tracking invariant of all three part indexes of a table inside a write transaction opened
    on the committed table `c` whose Model.Table state was `t0` -/
structure TTrack (c : CTab) (t0 : TableS) (s : TableS × WTab) : Prop where
  idx : ∀ i, Track (c.part.get i).wd (s.2.part.get i) (imap t0 i) (imap s.1 i)
  tree : ∀ i, (s.2.part.get i).tree = (c.part.get i).tree
  locked : s.2.locked = true

theorem TTrack.sortedAll {c : CTab} {t0 : TableS} {s : TableS × WTab} (h : TTrack c t0 s) : SortedAll s.1 :=
  fun i => (h.idx i).sorted

theorem TTrack.step {c : CTab} {t0 : TableS} {s : TableS × WTab} (h : TTrack c t0 s) (op : TOp) :
    TTrack c t0 (stepT c s op) := by
  refine ⟨?_, ?_, h.locked⟩
  · intro i
    show Track _ ((s.2.applyOps c (op.ops s.1)).part.get i) _ (imap (op.onTable s.1) i)
    rw [onTable_imap s.1 op h.sortedAll i]
    unfold WTab.applyOps
    simp only [Tri.get_tab]
    exact (h.idx i).run _
  · intro i
    show ((s.2.applyOps c (op.ops s.1)).part.get i).tree = _
    unfold WTab.applyOps
    simp only [Tri.get_tab]
    rw [run_tree]; exact h.tree i

theorem TTrack.run {c : CTab} {t0 : TableS} {s : TableS × WTab} (h : TTrack c t0 s) (ops : List TOp) :
    TTrack c t0 (runT c s ops) := by
  induction ops generalizing s with
  | nil => exact h
  | cons op ops ih => exact ih (h.step op)

end Sdb.TW
