import SdbModel.Lemmas.ArtWF

/-!
  Lemmas for C11, part 2: `insAt` / `insNode` / `insKids` preserve the
  invariant and act on `entries` as an insertion of one binding.  Core Lean only.
-/
namespace Sdb.Art

/-! ### commonPrefix -/

theorem commonPrefix_nil_right (a : List Nat) : commonPrefix a [] = [] := by
  cases a <;> rfl

theorem commonPrefix_left (a b : List Nat) : a = commonPrefix a b ++ a.drop (commonPrefix a b).length := by
  induction a generalizing b with
  | nil => rfl
  | cons x xs ih =>
    cases b with
    | nil => rfl
    | cons y ys =>
      simp only [commonPrefix]
      split
      · simp only [List.cons_append, List.length_cons, List.drop_succ_cons]
        rw [← ih ys]
      · rfl

theorem commonPrefix_right (a b : List Nat) : b = commonPrefix a b ++ b.drop (commonPrefix a b).length := by
  induction a generalizing b with
  | nil => cases b <;> rfl
  | cons x xs ih =>
    cases b with
    | nil => rfl
    | cons y ys =>
      simp only [commonPrefix]
      split
      · rename_i h
        simp only [List.cons_append, List.length_cons, List.drop_succ_cons]
        rw [← ih ys, h]
      · rfl

theorem commonPrefix_ne (a b : List Nat) (x y : Nat) (t s : List Nat)
    (ha : a.drop (commonPrefix a b).length = x :: t) (hb : b.drop (commonPrefix a b).length = y :: s) : x ≠ y := by
  induction a generalizing b with
  | nil => simp [commonPrefix] at ha
  | cons x' xs ih =>
    cases b with
    | nil => simp [commonPrefix] at hb
    | cons y' ys =>
      simp only [commonPrefix] at ha hb
      split at ha
      · rename_i h
        simp only [h, if_true, List.length_cons, List.drop_succ_cons] at ha hb
        exact ih ys ha hb
      · rename_i h
        simp only [h, if_false, List.length_nil, List.drop_zero, List.cons.injEq] at ha hb
        rw [← ha.1, ← hb.1]; exact h

theorem commonPrefix_self (a : List Nat) : commonPrefix a a = a := by
  induction a with
  | nil => rfl
  | cons x xs ih => simp [commonPrefix, ih]

theorem commonPrefix_append (p t : List Nat) : commonPrefix (p ++ t) p = p := by
  induction p with
  | nil => cases t <;> rfl
  | cons x xs ih => simp [commonPrefix, ih]

/-- the value `Insert`/`Modify` stores: `mod old new` if there was an old value -/
def mergedVal (mod : Option (Nat → Nat → Nat)) (old : Option Nat) (val : Nat) : Nat :=
  match old, mod with
  | some o, some f => f o val
  | _, _ => val

/-- what an insertion into the subtree `n` (path `acc`, remaining key `key`,
    `full = acc ++ key`) must deliver -/
structure InsOK (acc : List Nat) (n : Node) (key full : List Nat) (val : Nat)
    (mod : Option (Nat → Nat → Nat)) (r : InsRes) : Prop where
  wf : WFNode acc r.node
  pfx : r.node.pfx = commonPrefix key n.pfx
  old : r.old = look (entries n) full
  nv : r.newVal = mergedVal mod r.old val
  mem : ∀ e, e ∈ entries r.node ↔ e = (full, r.newVal) ∨ (e.1 ≠ full ∧ e ∈ entries n)

theorem insAt_exact (P : ArtParams) (st : St) (acc : List Nat) (n : Node) (key full : List Nat) (val : Nat)
    (mod : Option (Nat → Nat → Nat)) (hwf : WFNode acc n) (hfull : full = acc ++ key) (hk : key = n.pfx) :
    InsOK acc n key full val mod (insAt P st n key full val mod) := by
  have hc : commonPrefix key n.pfx = n.pfx := by rw [hk, commonPrefix_self]
  unfold insAt
  simp only [hc]
  rw [if_pos ⟨by rw [hk], by rw [hk]⟩]
  cases n with
  | leaf p d =>
    obtain ⟨st', w, e⟩ := cloneNode_leaf st p d
    simp only [e]
    simp only [Node.pfx] at hk hc
    simp only [WFNode] at hwf
    have hkey : d.key = full := by rw [hwf, hfull, hk]
    refine ⟨by simpa [WFNode] using hwf, by simp [Node.pfx, hc], by simp [entries, look_cons, hkey], ?_, ?_⟩
    · cases mod <;> simp [mergedVal]
    · intro e; simp only [entries, List.mem_singleton, hkey]
      constructor
      · exact Or.inl
      · rintro (h | ⟨h1, h2⟩)
        · exact h
        · rw [h2] at h1; exact absurd rfl h1
  | inner k p lf kids w t =>
    obtain ⟨st', w', t', e⟩ := cloneNode_inner st k p lf kids w t
    simp only [e]
    simp only [Node.pfx] at hk hc
    simp only [WFNode] at hwf
    obtain ⟨hlf, hkids⟩ := hwf
    have hnone := lookK_none_short (acc ++ p) kids hkids
    have hfp : full = acc ++ p := by rw [hfull, hk]
    rw [← hfp] at hnone
    have hne := (look_eq_none_iff _ _).mp hnone
    cases lf with
    | some d =>
      obtain ⟨st'', w'', e'⟩ := cloneLeafD_eq st' d
      simp only [e']
      have hkey : d.key = full := by rw [hlf d rfl, hfp]
      refine ⟨?_, by simp [Node.pfx, hc], ?_, ?_, ?_⟩
      · simp only [WFNode]; exact ⟨by intro d' hd'; simp at hd'; rw [← hd']; simpa [hfp] using hkey, hkids⟩
      · simp [entries, look_cons, hkey]
      · cases mod <;> simp [mergedVal]
      · intro e
        simp only [entries, List.cons_append, List.nil_append, List.mem_cons, hkey]
        constructor
        · rintro (h | h)
          · exact Or.inl h
          · exact Or.inr ⟨hne e h, Or.inr h⟩
        · rintro (h | ⟨h1, h2 | h2⟩)
          · exact Or.inl h
          · rw [h2] at h1; exact absurd rfl h1
          · exact Or.inr h2
    | none =>
      obtain ⟨st'', w'', e'⟩ := newLeafD_eq st' full val
      simp only [e']
      refine ⟨?_, by simp [Node.pfx, hc], ?_, ?_, ?_⟩
      · simp only [WFNode]; exact ⟨by intro d' hd'; simp at hd'; rw [← hd']; exact hfp, hkids⟩
      · simp [entries, hnone]
      · cases mod <;> simp [mergedVal]
      · intro e
        simp only [entries, List.cons_append, List.nil_append, List.mem_cons]
        constructor
        · rintro (h | h)
          · exact Or.inl h
          · exact Or.inr ⟨hne e h, h⟩
        · rintro (h | ⟨_, h2⟩)
          · exact Or.inl h
          · exact Or.inr h2

theorem partial_absent (acc : List Nat) (n : Node) (key : List Nat) (hwf : WFNode acc n) (hne : key ≠ n.pfx)
    (hin : n.isLeaf = false → hasPrefix key n.pfx = false) : look (entries n) (acc ++ key) = none := by
  cases n with
  | leaf p d =>
    simp only [WFNode] at hwf
    simp only [Node.pfx] at hne
    simp [entries, look_cons, hwf, Ne.symm hne]
  | inner k p lf kids w t =>
    exact lookN_none acc _ hwf key (hasPrefix_false_ne key p (hin rfl))

theorem insAt_cond (key p : List Nat) :
    (key.length = (commonPrefix key p).length ∧ key.length = p.length) ↔ key = p := by
  constructor
  · rintro ⟨h1, h2⟩
    have e1 := commonPrefix_left key p
    have e2 := commonPrefix_right key p
    have l1 := congrArg List.length e1
    have l2 := congrArg List.length e2
    simp only [List.length_append] at l1 l2
    have d1 : (key.drop (commonPrefix key p).length) = [] := List.eq_nil_of_length_eq_zero (by omega)
    have d2 : (p.drop (commonPrefix key p).length) = [] := List.eq_nil_of_length_eq_zero (by omega)
    rw [d1, List.append_nil] at e1
    rw [d2, List.append_nil] at e2
    rw [e1]; exact e2.symm
  · intro h; subst h; simp [commonPrefix_self]

/-- the node built by the "partial match" branch of `insAt` -/
def forkNode (k4 : Nat) (common : List Nat) (this : Node) (key : List Nat) (d : LeafD) (w tx : Nat) : Node :=
  match this.pfx, key with
  | [], _ => Node.inner k4 common this.getLeaf (.cons (key.headD 0) (.leaf key d) .nil) w tx
  | tb :: _, [] => Node.inner k4 common (some d) (.cons tb this .nil) w tx
  | tb :: _, kb :: _ =>
    if tb < kb then Node.inner k4 common none (.cons tb this (.cons kb (.leaf key d) .nil)) w tx
    else Node.inner k4 common none (.cons kb (.leaf key d) (.cons tb this .nil)) w tx

theorem insAt_partial_eq (P : ArtParams) (st : St) (n : Node) (key full : List Nat) (val : Nat)
    (mod : Option (Nat → Nat → Nat)) (hne : key ≠ n.pfx) :
    ∃ (st' : St) (n0 : Node) (dw w tx wt : Nat),
      insAt P st n key full val mod =
        { st := st',
          node := forkNode (P.caps.headD 4) (commonPrefix key n.pfx)
            (n0.setPfx (n.pfx.drop (commonPrefix key n.pfx).length))
            (key.drop (commonPrefix key n.pfx).length) { key := full, val := val, watch := dw } w tx,
          old := none, newVal := val, watch := wt } ∧
      n0.pfx = n.pfx ∧ entries n0 = entries n ∧ n0.isLeaf = n.isLeaf ∧ (∀ acc, WFNode acc n → WFNode acc n0) ∧
      (n0 = n ∨ ∃ k p lf kids w t w' t', n = .inner k p lf kids w t ∧ n0 = .inner k p lf kids w' t') := by
  unfold insAt
  rw [if_neg (by rw [insAt_cond]; exact hne)]
  cases n with
  | leaf p d =>
    exact ⟨_, .leaf p d, _, _, _, _, rfl, rfl, rfl, rfl, fun _ h => h, Or.inl rfl⟩
  | inner k p lf kids w t =>
    obtain ⟨st', w', t', e⟩ := cloneNode_inner st k p lf kids w t
    simp only [e]
    exact ⟨_, .inner k p lf kids w' t', _, _, _, _, rfl, rfl, by simp [entries], rfl,
      fun _ h => by simpa [WFNode] using h, Or.inr ⟨_, _, _, _, _, _, _, _, rfl, rfl⟩⟩

theorem leaf_of_isLeaf (n : Node) (h : n.isLeaf = true) : ∃ p d, n = .leaf p d := by
  cases n with
  | leaf p d => exact ⟨p, d, rfl⟩
  | inner => simp [Node.isLeaf] at h

theorem forkNode_ok (k4 : Nat) (acc c : List Nat) (this : Node) (a' : List Nat) (d : LeafD) (w tx : Nat)
    (hwf : WFNode (acc ++ c) this) (hd : d.key = acc ++ c ++ a')
    (hnil : this.pfx = [] → this.isLeaf = true ∧ a' ≠ [])
    (hdiff : ∀ x t y s, a' = x :: t → this.pfx = y :: s → x ≠ y) :
    WFNode acc (forkNode k4 c this a' d w tx) ∧ (forkNode k4 c this a' d w tx).pfx = c ∧
    ∀ e, e ∈ entries (forkNode k4 c this a' d w tx) ↔ e = (d.key, d.val) ∨ e ∈ entries this := by
  unfold forkNode
  cases hb : this.pfx with
  | nil =>
    obtain ⟨hl, ha⟩ := hnil hb
    obtain ⟨p0, d0, rfl⟩ := leaf_of_isLeaf this hl
    simp only [Node.pfx] at hb
    subst hb
    cases a' with
    | nil => exact absurd rfl ha
    | cons x t =>
      simp only [WFNode, List.append_nil] at hwf
      refine ⟨?_, rfl, ?_⟩
      · simp only [WFNode, WFKids, Node.getLeaf, Option.some.injEq, List.headD_cons, Node.pfx, Kids.keys]
        exact ⟨by intro d' h; rw [← h]; exact hwf, ⟨t, rfl⟩, hd, by simp, trivial⟩
      · intro e
        simp only [entries, entriesK, Node.getLeaf, List.mem_append, List.mem_singleton, List.append_nil]
        exact Or.comm
  | cons y s =>
    cases a' with
    | nil =>
      refine ⟨?_, rfl, ?_⟩
      · simp only [WFNode, WFKids, Option.some.injEq, Kids.keys]
        exact ⟨by intro d' h; rw [← h]; simpa using hd, ⟨s, hb⟩, hwf, by simp, trivial⟩
      · intro e
        simp only [entries, entriesK, List.mem_append, List.mem_singleton, List.append_nil]
    | cons x t =>
      have hxy := hdiff x t y s rfl hb
      simp only
      split
      · rename_i hlt
        refine ⟨?_, rfl, ?_⟩
        · simp only [WFNode, WFKids, Kids.keys, Node.pfx]
          refine ⟨by intro d' h; simp at h, ⟨s, hb⟩, hwf, ?_, ⟨t, rfl⟩, hd, by simp, trivial⟩
          intro c' hc'; simp at hc'; omega
        · intro e
          simp only [entries, entriesK, List.mem_append, List.mem_singleton, List.append_nil, List.nil_append]
          exact Or.comm
      · rename_i hlt
        refine ⟨?_, rfl, ?_⟩
        · simp only [WFNode, WFKids, Kids.keys, Node.pfx]
          refine ⟨by intro d' h; simp at h, ⟨t, rfl⟩, hd, ?_, ⟨s, hb⟩, hwf, by simp, trivial⟩
          intro c' hc'; simp at hc'; omega
        · intro e
          simp only [entries, entriesK, List.mem_append, List.mem_singleton, List.append_nil, List.nil_append]

theorem insAt_partial (P : ArtParams) (st : St) (acc : List Nat) (n : Node) (key full : List Nat) (val : Nat)
    (mod : Option (Nat → Nat → Nat)) (hwf : WFNode acc n) (hfull : full = acc ++ key) (hne : key ≠ n.pfx)
    (hin : n.isLeaf = false → hasPrefix key n.pfx = false) :
    InsOK acc n key full val mod (insAt P st n key full val mod) := by
  have habs := partial_absent acc n key hwf hne hin
  rw [← hfull] at habs
  have hno := (look_eq_none_iff _ _).mp habs
  obtain ⟨st', n0, dw, w, tx, wt, heq, hp0, he0, hl0, hwf0, _⟩ := insAt_partial_eq P st n key full val mod hne
  rw [heq]
  have e1 := commonPrefix_left key n.pfx
  have e2 := commonPrefix_right key n.pfx
  have hdiff := commonPrefix_ne key n.pfx
  obtain ⟨c, hc⟩ : ∃ c, commonPrefix key n.pfx = c := ⟨_, rfl⟩
  rw [hc] at e1 e2 hdiff ⊢
  have hwf1 : WFNode (acc ++ c) (n0.setPfx (n.pfx.drop c.length)) :=
    WFNode_setPfx acc (acc ++ c) _ n0 (by rw [hp0, List.append_assoc, ← e2]) (hwf0 acc hwf)
  have hfork := forkNode_ok (P.caps.headD 4) acc c (n0.setPfx (n.pfx.drop c.length)) (key.drop c.length)
    { key := full, val := val, watch := dw } w tx hwf1
    (by simp only [hfull, List.append_assoc]; rw [← e1]) ?_ ?_
  · obtain ⟨h1, h2, h3⟩ := hfork
    refine ⟨h1, h2.trans hc.symm, habs.symm, by cases mod <;> rfl, ?_⟩
    intro e
    rw [h3, entries_setPfx, he0]
    constructor
    · rintro (h | h)
      · exact Or.inl h
      · exact Or.inr ⟨hno e h, h⟩
    · rintro (h | ⟨_, h⟩)
      · exact Or.inl h
      · exact Or.inr h
  · intro hnil
    rw [Node.pfx_setPfx] at hnil
    rw [hnil, List.append_nil] at e2
    have hleaf : n.isLeaf = true := by
      cases hl : n.isLeaf with
      | true => rfl
      | false =>
        have := hin hl
        rw [e1, e2, hasPrefix_append_self] at this
        exact Bool.noConfusion this
    refine ⟨?_, ?_⟩
    · cases n0 with
      | leaf => rfl
      | inner => rw [← hl0] at hleaf; simp [Node.isLeaf] at hleaf
    · intro ha
      rw [ha, List.append_nil] at e1
      exact hne (e1.trans e2.symm)
  · intro x t y s ha hb
    rw [Node.pfx_setPfx] at hb
    exact hdiff x y t s ha hb

/-! ### Kids.insert -/

theorem mem_entriesK_insert (b : Nat) (child : Node) (e : List Nat × Nat) : (kids : Kids) →
    (e ∈ entriesK (kids.insert b child) ↔ e ∈ entries child ∨ e ∈ entriesK kids)
  | .nil => by simp [Kids.insert, entriesK]
  | .cons c m r => by
    have ih := mem_entriesK_insert b child e r
    simp only [Kids.insert]
    split
    · simp [entriesK]
    · simp only [entriesK, List.mem_append, ih]
      constructor
      · rintro (h | h | h)
        · exact Or.inr (Or.inl h)
        · exact Or.inl h
        · exact Or.inr (Or.inr h)
      · rintro (h | h | h)
        · exact Or.inr (Or.inl h)
        · exact Or.inl h
        · exact Or.inr (Or.inr h)

theorem mem_keys_insert (b : Nat) (child : Node) (c : Nat) : (kids : Kids) →
    (c ∈ (kids.insert b child).keys ↔ c = b ∨ c ∈ kids.keys)
  | .nil => by simp [Kids.insert, Kids.keys]
  | .cons c' m r => by
    have ih := mem_keys_insert b child c r
    simp only [Kids.insert]
    split
    · simp [Kids.keys]
    · simp only [Kids.keys, List.mem_cons, ih]
      constructor
      · rintro (h | h | h)
        · exact Or.inr (Or.inl h)
        · exact Or.inl h
        · exact Or.inr (Or.inr h)
      · rintro (h | h | h)
        · exact Or.inr (Or.inl h)
        · exact Or.inl h
        · exact Or.inr (Or.inr h)

theorem WFKids_insert (acc : List Nat) (b : Nat) (child : Node) (hp : ∃ t, child.pfx = b :: t)
    (hc : WFNode acc child) : (kids : Kids) → WFKids acc kids → b ∉ kids.keys →
    WFKids acc (kids.insert b child)
  | .nil, _, _ => by simp only [Kids.insert, WFKids, Kids.keys]; exact ⟨hp, hc, by simp, trivial⟩
  | .cons c m r, h, hb => by
    simp only [WFKids] at h
    obtain ⟨h1, h2, h3, h4⟩ := h
    simp only [Kids.keys, List.mem_cons, not_or] at hb
    simp only [Kids.insert]
    split
    · rename_i hlt
      simp only [WFKids, Kids.keys]
      refine ⟨hp, hc, ?_, h1, h2, h3, h4⟩
      intro x hx
      simp only [List.mem_cons] at hx
      rcases hx with hx | hx
      · omega
      · have := h3 x hx; omega
    · rename_i hlt
      simp only [WFKids]
      refine ⟨h1, h2, ?_, WFKids_insert acc b child hp hc r h4 hb.2⟩
      intro x hx
      rw [mem_keys_insert] at hx
      rcases hx with hx | hx
      · have := hb.1; omega
      · exact h3 x hx

theorem insKids_none_notin (P : ArtParams) (acc : List Nat) (b : Nat) (key full : List Nat) (val : Nat)
    (mod : Option (Nat → Nat → Nat)) : (kids : Kids) → (st : St) → WFKids acc kids →
    insKids P st kids b key full val mod = none → b ∉ kids.keys
  | .nil, _, _, _ => by simp [Kids.keys]
  | .cons c m r, st, h, hn => by
    simp only [WFKids] at h
    obtain ⟨_, _, h3, h4⟩ := h
    unfold insKids at hn
    split at hn
    · simp at hn
    · rename_i hcb
      simp only [Kids.keys, List.mem_cons, not_or]
      refine ⟨fun e => hcb e.symm, ?_⟩
      split at hn
      · split at hn
        · simp at hn
        · rename_i hnone
          exact insKids_none_notin P acc b key full val mod r st h4 hnone
      · intro hb; have := h3 b hb; omega

/-- shape of the key when `insNode` descends below an inner node -/
theorem descend_key (key pfx : List Nat) (h : key ≠ [] ∧ hasPrefix key pfx = true ∧ key.length ≠ pfx.length) :
    ∃ b rest, key.drop pfx.length = b :: rest ∧ key = pfx ++ b :: rest := by
  have hk := hasPrefix_true_eq key pfx h.2.1
  cases hd : key.drop pfx.length with
  | nil =>
    rw [hd, List.append_nil] at hk
    exact absurd (congrArg List.length hk) h.2.2
  | cons b rest => rw [hd] at hk; exact ⟨b, rest, rfl, hk⟩

theorem inner_ok (acc pfx : List Nat) (lf : Option LeafD) (kids kids' : Kids) (b : Nat) (rest full : List Nat)
    (val : Nat) (mod : Option (Nat → Nat → Nat)) (kind w t kind' w' t' : Nat) (st' : St) (old : Option Nat)
    (newVal watch : Nat)
    (hlf : ∀ d, lf = some d → d.key = acc ++ pfx) (hk' : WFKids (acc ++ pfx) kids')
    (hfull : full = acc ++ pfx ++ b :: rest) (hold : old = look (entriesK kids) full)
    (hnv : newVal = mergedVal mod old val)
    (hmem : ∀ e, e ∈ entriesK kids' ↔ e = (full, newVal) ∨ (e.1 ≠ full ∧ e ∈ entriesK kids)) :
    InsOK acc (.inner kind pfx lf kids w t) (pfx ++ b :: rest) full val mod
      { st := st', node := .inner kind' pfx lf kids' w' t', old := old, newVal := newVal, watch := watch } := by
  have hl := lf_ne acc pfx lf hlf b rest
  rw [← hfull] at hl
  refine ⟨?_, ?_, ?_, hnv, ?_⟩
  · simp only [WFNode]; exact ⟨hlf, hk'⟩
  · simp only [Node.pfx]; rw [commonPrefix_append]
  · rw [entries_inner, look_append_of_none _ _ _ ((look_eq_none_iff _ _).mpr hl)]
    exact hold
  · intro e
    simp only [entries_inner, List.mem_append, hmem]
    constructor
    · rintro (h | h | ⟨h1, h2⟩)
      · exact Or.inr ⟨hl e h, Or.inl h⟩
      · exact Or.inl h
      · exact Or.inr ⟨h1, Or.inr h2⟩
    · rintro (h | ⟨h1, h2 | h2⟩)
      · exact Or.inr (Or.inl h)
      · exact Or.inl h2
      · exact Or.inr (Or.inr ⟨h1, h2⟩)

mutual
theorem insNode_ok (P : ArtParams) (acc : List Nat) : (n : Node) → ∀ (st : St) (key full : List Nat) (val : Nat)
    (mod : Option (Nat → Nat → Nat)), WFNode acc n → full = acc ++ key →
    InsOK acc n key full val mod (insNode P st n key full val mod)
  | .leaf p d => by
    intro st key full val mod hwf hfull
    unfold insNode
    by_cases hk : key = p
    · exact insAt_exact P st acc _ key full val mod hwf hfull hk
    · exact insAt_partial P st acc _ key full val mod hwf hfull hk (by simp [Node.isLeaf])
  | .inner kind pfx lf kids w t => by
    intro st key full val mod hwf hfull
    unfold insNode
    split
    · rename_i hcond
      obtain ⟨b, rest, hd, hkey⟩ := descend_key key pfx hcond
      simp only [hd, List.headD_cons]
      simp only [WFNode] at hwf
      obtain ⟨hlf, hkids⟩ := hwf
      have hfull' : full = acc ++ pfx ++ b :: rest := by rw [hfull, hkey, List.append_assoc]
      rw [hkey]
      split
      · rename_i r kids' hins
        obtain ⟨h1, _, h3, h4, h5⟩ := insKids_ok P (acc ++ pfx) kids st b (b :: rest) rest full val mod r kids'
          hkids rfl hfull' hins
        obtain ⟨st', w', t', e⟩ := cloneNode_inner r.st kind pfx lf kids' w t
        simp only [e]
        exact inner_ok acc pfx lf kids kids' b rest full val mod kind w t kind w' t' st' r.old r.newVal r.watch
          hlf h1 hfull' h3 h4 h5
      · rename_i hins
        have hnotin := insKids_none_notin P (acc ++ pfx) b (b :: rest) full val mod kids st hkids hins
        obtain ⟨st1, w1, e1⟩ := newLeafD_eq st full val
        simp only [e1]
        have hnone : look (entriesK kids) full = none := by
          rw [hfull']; exact lookK_none (acc ++ pfx) kids hkids b rest hnotin
        have hk' : WFKids (acc ++ pfx)
            (Kids.insert b (Node.leaf (b :: rest) { key := full, val := val, watch := w1 }) kids) :=
          WFKids_insert (acc ++ pfx) b _ ⟨rest, rfl⟩ (by simp only [WFNode]; exact hfull') kids hkids hnotin
        have hmem : ∀ e, e ∈ entriesK (Kids.insert b (Node.leaf (b :: rest) { key := full, val := val, watch := w1 }) kids)
            ↔ e = (full, val) ∨ (e.1 ≠ full ∧ e ∈ entriesK kids) := by
          intro e
          rw [mem_entriesK_insert]
          simp only [entries, List.mem_singleton]
          constructor
          · rintro (h | h)
            · exact Or.inl h
            · exact Or.inr ⟨(look_eq_none_iff _ _).mp hnone e h, h⟩
          · rintro (h | ⟨_, h⟩)
            · exact Or.inl h
            · exact Or.inr h
        split
        · exact inner_ok acc pfx lf kids _ b rest full val mod kind w t _ _ _ _ none val _
            hlf hk' hfull' hnone.symm (by cases mod <;> rfl) hmem
        · obtain ⟨st', w', t', e⟩ := cloneNode_inner st1 kind pfx lf
            (Kids.insert b (Node.leaf (b :: rest) { key := full, val := val, watch := w1 }) kids) w t
          simp only [e]
          exact inner_ok acc pfx lf kids _ b rest full val mod kind w t _ _ _ _ none val _
            hlf hk' hfull' hnone.symm (by cases mod <;> rfl) hmem
    · rename_i hcond
      by_cases hk : key = pfx
      · exact insAt_exact P st acc _ key full val mod hwf hfull hk
      · refine insAt_partial P st acc _ key full val mod hwf hfull hk ?_
        intro _
        cases hp : hasPrefix key pfx with
        | false => exact hp
        | true =>
          exfalso
          apply hcond
          have hk' := hasPrefix_true_eq key pfx hp
          refine ⟨?_, hp, ?_⟩
          · intro e; subst e; cases pfx with
            | nil => exact hk rfl
            | cons => simp at hp
          · intro hl
            have : key.drop pfx.length = [] := List.eq_nil_of_length_eq_zero (by simp; omega)
            rw [this, List.append_nil] at hk'
            exact hk hk'
theorem insKids_ok (P : ArtParams) (acc : List Nat) : (kids : Kids) → ∀ (st : St) (b : Nat) (key rest full : List Nat)
    (val : Nat) (mod : Option (Nat → Nat → Nat)) (r : InsRes) (kids' : Kids),
    WFKids acc kids → key = b :: rest → full = acc ++ key →
    insKids P st kids b key full val mod = some (r, kids') →
    WFKids acc kids' ∧ kids'.keys = kids.keys ∧ r.old = look (entriesK kids) full ∧
    r.newVal = mergedVal mod r.old val ∧
    (∀ e, e ∈ entriesK kids' ↔ e = (full, r.newVal) ∨ (e.1 ≠ full ∧ e ∈ entriesK kids))
  | .nil => by
    intro st b key rest full val mod r kids' _ _ _ h
    simp [insKids] at h
  | .cons c n rs => by
    intro st b key rest full val mod r kids' hwf hkey hfull h
    simp only [WFKids] at hwf
    obtain ⟨⟨tl, hpf⟩, hn, hlt, hrs⟩ := hwf
    unfold insKids at h
    split at h
    · rename_i hcb
      subst hcb
      simp only [Option.some.injEq, Prod.mk.injEq] at h
      obtain ⟨hr, hk'⟩ := h
      have hok := insNode_ok P acc n st key full val mod hn hfull
      subst hr
      subst hk'
      have hrs0 : look (entriesK rs) full = none := by
        rw [hfull, hkey]; apply lookK_none acc rs hrs
        intro hc; exact Nat.lt_irrefl _ (hlt _ hc)
      have hrsne := (look_eq_none_iff _ _).mp hrs0
      refine ⟨?_, rfl, ?_, hok.nv, ?_⟩
      · simp only [WFKids]
        refine ⟨?_, hok.wf, hlt, hrs⟩
        rw [hok.pfx, hkey, hpf]
        simp [commonPrefix]
      · simp only [entriesK]
        rw [look_append_of_none_right _ _ _ hrs0]; exact hok.old
      · intro e
        simp only [entriesK, List.mem_append, hok.mem]
        constructor
        · rintro ((h | ⟨h1, h2⟩) | h)
          · exact Or.inl h
          · exact Or.inr ⟨h1, Or.inl h2⟩
          · exact Or.inr ⟨hrsne e h, Or.inr h⟩
        · rintro (h | ⟨h1, h2 | h2⟩)
          · exact Or.inl (Or.inl h)
          · exact Or.inl (Or.inr ⟨h1, h2⟩)
          · exact Or.inr h2
    · rename_i hcb
      split at h
      · split at h
        · rename_i r' rest' hins
          simp only [Option.some.injEq, Prod.mk.injEq] at h
          obtain ⟨hr, hk'⟩ := h
          subst hr; subst hk'
          obtain ⟨h1, h2, h3, h4, h5⟩ := insKids_ok P acc rs st b key rest full val mod r' rest' hrs hkey hfull hins
          have hn0 : look (entries n) full = none := by
            rw [hfull]
            apply lookN_none acc n hn
            intro t' e; rw [hkey, hpf] at e
            simp only [List.cons_append, List.cons.injEq] at e
            exact hcb e.1.symm
          have hnne := (look_eq_none_iff _ _).mp hn0
          refine ⟨?_, by simp [Kids.keys, h2], ?_, h4, ?_⟩
          · simp only [WFKids]
            exact ⟨⟨tl, hpf⟩, hn, by rw [h2]; exact hlt, h1⟩
          · simp only [entriesK]
            rw [look_append_of_none _ _ _ hn0]; exact h3
          · intro e
            simp only [entriesK, List.mem_append, h5]
            constructor
            · rintro (h | h | ⟨h, h'⟩)
              · exact Or.inr ⟨hnne e h, Or.inl h⟩
              · exact Or.inl h
              · exact Or.inr ⟨h, Or.inr h'⟩
            · rintro (h | ⟨h1, h2 | h2⟩)
              · exact Or.inr (Or.inl h)
              · exact Or.inl h2
              · exact Or.inr (Or.inr ⟨h1, h2⟩)
        · simp at h
      · simp at h
end

end Sdb.Art
