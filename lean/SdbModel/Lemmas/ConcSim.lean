import SdbModel.Lemmas.ConcSimStep

/-!
  ConcSim — the simulation of `Model.Conc` by `Model.Serial`, for all schedules.

  `Reach P n st cs`: `st` is reachable from `initState n` by spawning writers
  (on registered tables), registrations, rejected registrations and scheduler
  steps `Conc.step`; `cs` records, per thread, the `commit` argument it was
  spawned with (`false` for registration threads).  For every protocol `P` with
  `P.simShape` (in particular `Gen.protocol`) every such state is related by `R`
  to a `Serial.Reachable` state whose transactions carry exactly those commit flags.
  Core Lean only.
-/
namespace Sdb.Conc
open Sdb.Serial (Txn Phase setTxn)

/-- reachable states of `Model.Conc`, with the commit flag each thread was spawned with -/
inductive Reach (P : Protocol) (n : Nat) : State → List Bool → Prop where
  | init : Reach P n (initState n) []
  | writer (st : State) (cs : List Bool) (tabs : List Nat) (commit : Bool) (markInit regInit : List Nat) :
      Reach P n st cs → (∀ x ∈ tabs, x < st.root.length ∧ x < st.lockOwner.length) →
      Reach P n (spawnWriter P st tabs commit markInit regInit) (cs ++ [commit])
  | register (st : State) (cs : List Bool) : Reach P n st cs → Reach P n (spawnRegister P st) (cs ++ [false])
  | registerDup (st : State) (cs : List Bool) : Reach P n st cs → Reach P n (spawnRegisterDup P st) (cs ++ [false])
  | step (st : State) (cs : List Bool) (tid : Nat) : Reach P n st cs → Reach P n (step st tid).1 cs

/-- related to some reachable state of `Model.Serial` with commit flags `cs` -/
def Sim (st : State) (cs : List Bool) : Prop :=
  ∃ s, Serial.Reachable s ∧ R st s ∧ s.txns.map (·.commit) = cs

theorem getD_replicate_none (k i : Nat) : (List.replicate k (none : Option Nat)).getD i none = none := by
  rw [List.getD_eq_getElem?_getD, List.getElem?_replicate]
  split <;> rfl

theorem R_init (n : Nat) : R (initState n) {} := by
  constructor
  · rfl
  · intro i hi
    simp only [initState, List.length_map, List.length_range] at hi
    show (getT ((List.range n).map _) i).cnt = 0
    rw [getT_map_range _ _ i hi]
  · intro i _; rfl
  · intro i
    exact getD_replicate_none 64 i
  · intro tid th h; simp [initState] at h
  · intro j h; simp [initState] at h

/-- a new thread appears together with its transaction -/
theorem R_spawn (st : State) (s : Serial.State) (thn : Thread) (tn : Txn) (hR : R st s)
    (hT : TRel st.root st.rootMu st.lockOwner.length st.threads.length thn tn) :
    R { st with threads := st.threads ++ [thn] } { s with txns := s.txns ++ [tn] } := by
  constructor
  · simp [hR.len]
  · exact hR.root
  · exact hR.rootHi
  · exact hR.owner
  · intro tid th h
    simp only at h ⊢
    by_cases hlt : tid < st.threads.length
    · rw [List.getElem?_append_left hlt] at h
      obtain ⟨t, ht, hrel⟩ := hR.thr tid th h
      exact ⟨t, by rw [List.getElem?_append_left (by rw [hR.len]; exact hlt)]; exact ht, hrel⟩
    · have hlen := lt_of_getElem?_some _ _ _ h
      simp only [List.length_append, List.length_singleton] at hlen
      have he : tid = st.threads.length := by omega
      subst he
      simp only [List.getElem?_concat_length, Option.some.injEq] at h
      subst h
      refine ⟨tn, ?_, hT⟩
      rw [← hR.len]; simp
  · intro j hj
    have := hR.muLt j hj
    simp; omega

theorem lockList_nil (th : Thread) (h : th.tables = []) : lockList th = [] := by
  simp [lockList, h, dedup, sortNat]

theorem Sim_init (n : Nat) : Sim (initState n) [] := ⟨{}, .init, R_init n, rfl⟩

theorem Sim_writer (P : Protocol) (hP : P.simShape = true) (st : State) (cs : List Bool) (tabs : List Nat)
    (commit : Bool) (markInit regInit : List Nat) (h : Sim st cs)
    (hb : ∀ x ∈ tabs, x < st.root.length ∧ x < st.lockOwner.length) :
    Sim (spawnWriter P st tabs commit markInit regInit) (cs ++ [commit]) := by
  obtain ⟨s, hs, hR, hcs⟩ := h
  let tn : Txn := { tabs := sortNat (dedup tabs), commit := commit }
  refine ⟨{ s with txns := s.txns ++ [tn] },
    .step _ _ hs (Serial.Step.spawn s tn (lockOrder_ascending tabs).1 rfl rfl), ?_, by simp [hcs, tn]⟩
  refine R_spawn st s _ tn hR ⟨rfl, ?_, .acq 0, strip_writerProg P hP tabs commit, ?_, rfl, Nat.zero_le _⟩
  · intro x hx
    exact hb x ((lockOrder_ascending tabs).2 x |>.1 hx)
  · constructor
    · intro hmu; have := hR.muLt _ hmu; omega
    · intro hf; simp [inCS] at hf

theorem Sim_register (P : Protocol) (hP : P.simShape = true) (st : State) (cs : List Bool) (h : Sim st cs) :
    Sim (spawnRegister P st) (cs ++ [false]) := by
  obtain ⟨s, hs, hR, hcs⟩ := h
  let tn : Txn := { tabs := [], commit := false }
  refine ⟨{ s with txns := s.txns ++ [tn] }, .step _ _ hs (Serial.Step.spawn s tn trivial rfl rfl), ?_,
    by simp [hcs, tn]⟩
  refine R_spawn st s _ tn hR ⟨rfl, ?_, .gA, strip_registerProg P hP false, ?_, rfl, rfl⟩
  · intro x hx; simp [lockList, dedup, sortNat] at hx
  · constructor
    · intro hmu; have := hR.muLt _ hmu; omega
    · intro hf; simp [inCS] at hf

theorem Sim_registerDup (P : Protocol) (hP : P.simShape = true) (st : State) (cs : List Bool) (h : Sim st cs) :
    Sim (spawnRegisterDup P st) (cs ++ [false]) := by
  obtain ⟨s, hs, hR, hcs⟩ := h
  let tn : Txn := { tabs := [], commit := false }
  refine ⟨{ s with txns := s.txns ++ [tn] }, .step _ _ hs (Serial.Step.spawn s tn trivial rfl rfl), ?_,
    by simp [hcs, tn]⟩
  refine R_spawn st s _ tn hR ⟨rfl, ?_, .dA, strip_registerDupProg P hP false, ?_, rfl, rfl⟩
  · intro x hx; simp [lockList, dedup, sortNat] at hx
  · constructor
    · intro hmu; have := hR.muLt _ hmu; omega
    · intro hf; simp [inCS] at hf

/-! ### scheduler steps -/

/-- what is carried along the micro steps of one run of thread `tid` -/
def RunInv (tid : Nat) (cs : List Bool) (a : State × Thread) : Prop :=
  Sim (install a.1 tid a.2) cs ∧ tid < a.1.threads.length ∧ (a.2.done = true → a.2.prog = [])

theorem RunInv_mstep (tid : Nat) (cs : List Bool) (a b : State × Thread) (ha : RunInv tid cs a)
    (h : mstep a.1 tid a.2 = some b) : RunInv tid cs b ∧ Effect a.1 b.1 tid a.2 b.2 := by
  obtain ⟨⟨s, hs, hR, hcs⟩, hlt, hdp⟩ := ha
  cases hd : a.2.done with
  | true =>
    have hp := hdp hd
    simp [mstep, hp, hd] at h
  | false =>
    obtain ⟨⟨s', hs', hc', hR'⟩, heff, hdp'⟩ := mstep_sim a.1 tid a.2 s b.1 b.2 hs hR hlt hd h
    refine ⟨⟨⟨s', hs', hR', by rw [hc', hcs]⟩, ?_, hdp'⟩, heff⟩
    rw [mstep_threads a.1 tid a.2 b.1 b.2 h]; exact hlt

theorem RunInv_mstar (tid : Nat) (cs : List Bool) {a b : State × Thread} (h : MStar tid a b)
    (ha : RunInv tid cs a) : RunInv tid cs b :=
  MStar.invariant (RunInv tid cs) (fun a b ha h => (RunInv_mstep tid cs a b ha h).1) h ha

theorem install_self (st : State) (tid : Nat) (th : Thread) (h : st.threads[tid]? = some th) :
    install st tid th = st := by
  cases st
  simp only [install] at h ⊢
  rw [set_self _ _ _ h]

theorem Sim_step (st : State) (cs : List Bool) (tid : Nat) (h : Sim st cs) : Sim (step st tid).1 cs := by
  rcases step_cases st tid with he | ⟨th, st', th', hth, hd, hstar, he⟩
  · rw [he]; exact h
  · rw [he]
    have ha : RunInv tid cs (st, th) :=
      ⟨by rw [install_self st tid th hth]; exact h, lt_of_getElem?_some _ _ _ hth, fun hd' => by simp [hd] at hd'⟩
    exact (RunInv_mstar tid cs hstar ha).1

/-- **the simulation**: every reachable state of `Model.Conc` (protocol `P` of the
    shape `simShape`, any number of threads, tables and any schedule) is related
    to a reachable state of `Model.Serial` -/
theorem reach_sim (P : Protocol) (hP : P.simShape = true) (n : Nat) (st : State) (cs : List Bool)
    (h : Reach P n st cs) : Sim st cs := by
  induction h with
  | init => exact Sim_init n
  | writer st cs tabs commit mi ri _ hb ih => exact Sim_writer P hP st cs tabs commit mi ri ih hb
  | register st cs _ ih => exact Sim_register P hP st cs ih
  | registerDup st cs _ ih => exact Sim_registerDup P hP st cs ih
  | step st cs tid _ ih => exact Sim_step st cs tid ih

end Sdb.Conc
