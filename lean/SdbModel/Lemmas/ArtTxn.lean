import SdbModel.Lemmas.ArtWatch

/-! Transaction-level facts about the radix tree model (Model.Art): operation
    sequences, the stamp invariant of committed trees and open transactions,
    and what `Txn.notify` closes. -/
namespace Sdb.ArtW
open Sdb.Art

/-! ## operations of a transaction -/

/-- the calls a client can make on an open `part.Txn` (reads that freeze the
    tree - Prefix, LowerBound, Iterator, All - are `bump`) -/
inductive Op where
  | insert (key : List Nat) (val : Nat) (mod : Option (Nat → Nat → Nat))
  | delete (key : List Nat)
  | bump

def step (P : ArtParams) (x : Txn) : Op → Txn
  | .insert k v m => (x.insert P k v m).1
  | .delete k => (x.delete P k).1
  | .bump => x.bump

def run (P : ArtParams) (x : Txn) (ops : List Op) : Txn := ops.foldl (step P) x

@[simp] theorem run_nil (P : ArtParams) (x : Txn) : run P x [] = x := rfl
@[simp] theorem run_cons (P : ArtParams) (x : Txn) (o : Op) (ops : List Op) :
    run P x (o :: ops) = run P (step P x o) ops := rfl
theorem run_append (P : ArtParams) (x : Txn) (a b : List Op) : run P x (a ++ b) = run P (run P x a) b := by
  simp [run, List.foldl_append]

/-! ## the stamp invariant -/

/-- committed tree: every stamp is below the id the next transaction will take -/
def TreeWF (t : Tree) : Prop := ∀ r, t.root = some r → Stamps (· < t.nextTxnID) r
/-- open transaction: no stamp exceeds the transaction's id -/
def TxnWF (x : Txn) : Prop := ∀ r, x.root = some r → Stamps (· ≤ x.st.txnID) r
/-- no node is owned by the transaction (all stamps, including the 0 of leaves,
    differ from its id): the state right after `Tree.Txn()`, and after every
    `bump` (Clone, Prefix, LowerBound, Iterator, All) -/
def TxnFresh (x : Txn) : Prop := ∀ r, x.root = some r → Stamps (· ≠ x.st.txnID) r

theorem TreeWF.txn {t : Tree} (h : TreeWF t) (wd : World) : TxnWF (t.txn wd) ∧ TxnFresh (t.txn wd) := by
  constructor
  · intro r hr
    exact Stamps.mono (fun x hx => Nat.le_of_lt hx) r (h r hr)
  · intro r hr
    exact Stamps.mono (fun x hx => Nat.ne_of_lt hx) r (h r hr)

theorem TxnWF.insert {x : Txn} (P : ArtParams) (h : TxnWF x) (k : List Nat) (v : Nat) (m : Option (Nat → Nat → Nat)) :
    TxnWF (x.insert P k v m).1 := by
  unfold Txn.insert
  split
  · intro r hr
    simp only [Option.some.injEq] at hr
    rw [← hr]; simp [Stamps]
  · rename_i r0 hr0
    intro r hr
    simp only [Option.some.injEq] at hr
    rw [← hr]
    have hle := insNode_le P x.st r0 k k v m
    show Stamps (· ≤ (insNode P x.st r0 k k v m).st.txnID) _
    rw [hle.id]
    exact insNode_stamps (p := (· ≤ x.st.txnID)) P x.st (Nat.le_refl _) (Nat.zero_le _) r0 k k v m (h r0 hr0)

theorem TxnWF.delete {x : Txn} (P : ArtParams) (h : TxnWF x) (k : List Nat) : TxnWF (x.delete P k).1 := by
  unfold Txn.delete
  split
  · exact h
  · rename_i r0 hr0
    split
    · exact h
    · rename_i st n old hd
      intro r hr
      simp only [Option.some.injEq] at hr
      rw [← hr]
      have hle := delNode_le P x.st r0 k st (by rw [hd]; rfl)
      show Stamps (· ≤ st.txnID) _
      rw [hle.id]
      exact delNode_stamps (p := (· ≤ x.st.txnID)) P x.st (Nat.le_refl _) r0 k (h r0 hr0) st n old hd
    · intro r hr; simp at hr

theorem TxnWF.bump {x : Txn} (h : TxnWF x) : TxnWF x.bump ∧ TxnFresh x.bump := by
  constructor
  · intro r hr
    exact Stamps.mono (fun y hy => Nat.le_succ_of_le hy) r (h r hr)
  · intro r hr
    exact Stamps.mono (fun y (hy : y ≤ x.st.txnID) => by simp only [Txn.bump]; omega) r (h r hr)

theorem TxnWF.step {x : Txn} (P : ArtParams) (h : TxnWF x) (o : Op) : TxnWF (step P x o) := by
  cases o with
  | insert k v m => exact h.insert P k v m
  | delete k => exact h.delete P k
  | bump => exact h.bump.1

theorem TxnWF.run {x : Txn} (P : ArtParams) (h : TxnWF x) (ops : List Op) : TxnWF (run P x ops) := by
  induction ops generalizing x with
  | nil => exact h
  | cons o ops ih => exact ih (h.step P o)

theorem TxnWF.commit {x : Txn} (h : TxnWF x) (wd : World) : TreeWF (x.commit wd).2.1 := by
  intro r hr
  exact Stamps.mono (fun y (hy : y ≤ x.st.txnID) => by simp only [Txn.commit, Txn.bump]; omega) r (h r hr)

theorem TxnWF.clone {x : Txn} (h : TxnWF x) : TreeWF x.clone.2 := by
  intro r hr
  exact Stamps.mono (fun y (hy : y ≤ x.st.txnID) => by simp only [Txn.clone, Txn.bump]; omega) r (h r hr)

/-- the trees a client can ever hold: a new tree, or the result of Commit /
    Clone of a transaction opened on such a tree after any sequence of calls -/
inductive Reach (P : ArtParams) : Tree → Prop where
  | new (wd : World) (ro : Bool) : Reach P (newTree wd ro).2
  | commit (t : Tree) (wd wd' : World) (ops : List Op) : Reach P t → Reach P ((run P (t.txn wd) ops).commit wd').2.1
  | clone (t : Tree) (wd : World) (ops : List Op) : Reach P t → Reach P (run P (t.txn wd) ops).clone.2

theorem Reach.wf {P : ArtParams} {t : Tree} (h : Reach P t) : TreeWF t := by
  induction h with
  | new wd ro => intro r hr; simp [newTree] at hr
  | commit t wd wd' ops _ ih => exact ((ih.txn wd).1.run P ops).commit wd'
  | clone t wd ops _ ih => exact ((ih.txn wd).1.run P ops).clone




/-! ## what Notify closes -/

theorem mem_foldl_add (cl init : List Nat) (c : Nat) :
    c ∈ cl.foldl (fun acc w => if w ∈ acc then acc else w :: acc) init ↔ c ∈ init ∨ c ∈ cl := by
  induction cl generalizing init with
  | nil => simp
  | cons a as ih =>
    simp only [List.foldl_cons, List.mem_cons]
    rw [ih]
    by_cases ha : a ∈ init
    · simp only [ha, if_true]
      constructor
      · rintro (h | h)
        · exact Or.inl h
        · exact Or.inr (Or.inr h)
      · rintro (h | h | h)
        · exact Or.inl h
        · exact Or.inl (h ▸ ha)
        · exact Or.inr h
    · simp only [ha, if_false, List.mem_cons]
      constructor
      · rintro ((h | h) | h)
        · exact Or.inr (Or.inl h)
        · exact Or.inl h
        · exact Or.inr (Or.inr h)
      · rintro (h | h | h)
        · exact Or.inl (Or.inr h)
        · exact Or.inl (Or.inl h)
        · exact Or.inr h

/-- Notify closes exactly: what was closed before, the transaction's recorded
    channels, and - iff the transaction is dirty - the (non-nil) old root watch -/
theorem notify_closed (x : Txn) (wd : World) (c : Nat) :
    c ∈ (x.notify wd).2.closed ↔
      c ∈ wd.closed ∨ c ∈ x.st.pending ∨ (x.dirty = true ∧ x.rootWatch ≠ 0 ∧ c = x.rootWatch) := by
  unfold Txn.notify
  simp only [mem_foldl_add, List.mem_append]
  by_cases hd : x.dirty = true ∧ x.rootWatch ≠ 0
  · simp only [hd, and_self, if_true, List.mem_singleton, ne_eq, not_false_eq_true, true_and]
  · simp only [hd, if_false, List.not_mem_nil, or_false]
    constructor
    · rintro (h | h)
      · exact Or.inl h
      · exact Or.inr (Or.inl h)
    · rintro (h | h | ⟨h1, h2, _⟩)
      · exact Or.inl h
      · exact Or.inr h
      · exact absurd ⟨h1, h2⟩ hd

/-- `x'` is a later state of the open transaction `x` (before Notify) -/
structure Later (x x' : Txn) : Prop where
  sub : ∀ c ∈ x.st.pending, c ∈ x'.st.pending
  nw : x.st.nextW ≤ x'.st.nextW
  ro : x'.st.rootOnly = x.st.rootOnly
  dirty : x.dirty = true → x'.dirty = true
  rw : x'.rootWatch = x.rootWatch

theorem Later.refl (x : Txn) : Later x x := ⟨fun _ h => h, Nat.le_refl _, rfl, id, rfl⟩
theorem Later.trans {a b c : Txn} (h1 : Later a b) (h2 : Later b c) : Later a c :=
  ⟨fun c hc => h2.sub c (h1.sub c hc), Nat.le_trans h1.nw h2.nw, h2.ro.trans h1.ro, fun h => h2.dirty (h1.dirty h), h2.rw.trans h1.rw⟩

theorem later_insert (P : ArtParams) (x : Txn) (k : List Nat) (v : Nat) (m : Option (Nat → Nat → Nat)) :
    Later x (x.insert P k v m).1 := by
  unfold Txn.insert
  split
  · exact ⟨(newLeafD_le x.st k v).sub, (newLeafD_le x.st k v).nw, (newLeafD_le x.st k v).ro, fun _ => rfl, rfl⟩
  · exact ⟨(insNode_le ..).sub, (insNode_le ..).nw, (insNode_le ..).ro, fun _ => rfl, rfl⟩

theorem later_delete (P : ArtParams) (x : Txn) (k : List Nat) : Later x (x.delete P k).1 := by
  unfold Txn.delete
  split
  · exact Later.refl _
  · rename_i r0 _
    split
    · exact Later.refl _
    · rename_i st n old hd
      exact ⟨(delNode_le P x.st r0 k st (by rw [hd]; rfl)).sub, (delNode_le P x.st r0 k st (by rw [hd]; rfl)).nw, (delNode_le P x.st r0 k st (by rw [hd]; rfl)).ro, fun _ => rfl, rfl⟩
    · rename_i st old hd
      exact ⟨(delNode_le P x.st r0 k st (by rw [hd]; rfl)).sub, (delNode_le P x.st r0 k st (by rw [hd]; rfl)).nw, (delNode_le P x.st r0 k st (by rw [hd]; rfl)).ro, fun _ => rfl, rfl⟩

theorem later_bump (x : Txn) : Later x x.bump :=
  ⟨fun _ h => h, Nat.le_refl _, rfl, id, rfl⟩

theorem later_step (P : ArtParams) (x : Txn) (o : Op) : Later x (step P x o) := by
  cases o with
  | insert k v m => exact later_insert P x k v m
  | delete k => exact later_delete P x k
  | bump => exact later_bump x

theorem later_run (P : ArtParams) (x : Txn) (ops : List Op) : Later x (run P x ops) := by
  induction ops generalizing x with
  | nil => exact Later.refl _
  | cons o ops ih => exact (later_step P x o).trans (ih _)

theorem later_commit (x : Txn) (wd : World) : Later x (x.commit wd).1 := later_bump x
theorem later_clone (x : Txn) : Later x x.clone.1 := later_bump x

/-- a channel that is recorded, or is the root watch of a dirty transaction,
    is closed by the Notify of any later state of that transaction -/
theorem closed_of_later {x x' : Txn} (h : Later x x') (wd : World) (c : Nat) (hc0 : c ≠ 0) (hd : x.dirty = true)
    (hc : c = x.rootWatch ∨ c ∈ x.st.pending) : c ∈ (x'.notify wd).2.closed := by
  rw [notify_closed]
  rcases hc with hc | hc
  · right; right
    exact ⟨h.dirty hd, by rw [h.rw, ← hc]; exact hc0, by rw [h.rw]; exact hc⟩
  · right; left; exact h.sub _ hc

/-! ## the path-closure lemmas at the Txn level -/

theorem insert_dirty (P : ArtParams) (x : Txn) (k : List Nat) (v : Nat) (m : Option (Nat → Nat → Nat)) :
    (x.insert P k v m).1.dirty = true := by
  unfold Txn.insert; split <;> rfl

theorem delete_absent (P : ArtParams) (x : Txn) (k : List Nat) (h : (x.delete P k).2 = none) :
    (x.delete P k).1 = x := by
  unfold Txn.delete at h ⊢
  cases hr : x.root with
  | none => rfl
  | some r =>
    simp only [hr] at h ⊢
    cases hd : delNode P x.st r k with
    | notFound => rfl
    | replaced st n old => simp [hd] at h
    | removed st old => simp [hd] at h

theorem delete_present (P : ArtParams) (x : Txn) (k : List Nat) (h : (x.delete P k).2 ≠ none) :
    ∃ r st', x.root = some r ∧ delSt (delNode P x.st r k) = some st' ∧ (x.delete P k).1.st = st' ∧
      (x.delete P k).1.dirty = true := by
  unfold Txn.delete at h ⊢
  cases hr : x.root with
  | none => simp [hr] at h
  | some r =>
    simp only [hr] at h ⊢
    cases hd : delNode P x.st r k with
    | notFound => simp [hd] at h
    | replaced st n old => exact ⟨r, st, rfl, by rw [hd]; rfl, rfl, rfl⟩
    | removed st old => exact ⟨r, st, rfl, by rw [hd]; rfl, rfl, rfl⟩

theorem txn_insert_closes_get (P : ArtParams) (x : Txn) (k : List Nat) (v : Nat) (m : Option (Nat → Nat → Nat))
    (hf : TxnFresh x) :
    (getRoot x.root x.rootWatch k).2 = x.rootWatch ∨
    (getRoot x.root x.rootWatch k).2 ∈ (x.insert P k v m).1.st.pending := by
  unfold getRoot Txn.insert
  split
  · left; rfl
  · rename_i r hr
    exact insNode_closes P x.st r k k v m x.rootWatch (hf r hr)

theorem txn_insert_closes_prefix (P : ArtParams) (x : Txn) (k : List Nat) (v : Nat) (m : Option (Nat → Nat → Nat))
    (q : List Nat) (hf : TxnFresh x) (hkq : hasPrefix k q = true) :
    (prefixRoot x.root x.rootWatch q).2 = x.rootWatch ∨
    (prefixRoot x.root x.rootWatch q).2 ∈ (x.insert P k v m).1.st.pending := by
  unfold prefixRoot Txn.insert
  split
  · left; rfl
  · rename_i r hr
    exact insNode_closes_prefix P x.st r k k v m x.rootWatch q (hf r hr) hkq

theorem txn_delete_closes_get (P : ArtParams) (x : Txn) (k : List Nat) (hf : TxnFresh x)
    (h : (x.delete P k).2 ≠ none) :
    (getRoot x.root x.rootWatch k).2 = x.rootWatch ∨
    (getRoot x.root x.rootWatch k).2 ∈ (x.delete P k).1.st.pending := by
  obtain ⟨r, st', hr, hd, hst, _⟩ := delete_present P x k h
  rw [hst]
  unfold getRoot
  rw [hr]
  exact delNode_closes P x.st r k x.rootWatch st' (hf r hr) hd

theorem txn_delete_closes_prefix (P : ArtParams) (x : Txn) (k : List Nat) (q : List Nat) (hf : TxnFresh x)
    (hkq : hasPrefix k q = true) (h : (x.delete P k).2 ≠ none) :
    (prefixRoot x.root x.rootWatch q).2 = x.rootWatch ∨
    (prefixRoot x.root x.rootWatch q).2 ∈ (x.delete P k).1.st.pending := by
  obtain ⟨r, st', hr, hd, hst, _⟩ := delete_present P x k h
  rw [hst]
  unfold prefixRoot
  rw [hr]
  exact delNode_closes_prefix P x.st r k x.rootWatch q st' (hf r hr) hkq hd





/-! ## dirty = "some call changed the tree" -/

/-- does the call change the tree?  Insert/Modify always do; Delete only when the key is present -/
def changes (P : ArtParams) (x : Txn) : Op → Bool
  | .insert _ _ _ => true
  | .delete k => (x.delete P k).2.isSome
  | .bump => false

/-- did any call of the sequence change the tree -/
def anyChange (P : ArtParams) (x : Txn) : List Op → Bool
  | [] => false
  | o :: ops => changes P x o || anyChange P (step P x o) ops

theorem step_dirty (P : ArtParams) (x : Txn) (o : Op) : (step P x o).dirty = (x.dirty || changes P x o) := by
  cases o with
  | insert k v m => simp [step, changes, insert_dirty]
  | delete k =>
    simp only [step, changes]
    cases h : (x.delete P k).2 with
    | none => rw [delete_absent P x k h]; simp
    | some old =>
      obtain ⟨_, _, _, _, _, hd⟩ := delete_present P x k (by rw [h]; simp)
      simp [hd]
  | bump => simp [step, changes, Txn.bump]

theorem run_dirty (P : ArtParams) (x : Txn) (ops : List Op) :
    (run P x ops).dirty = (x.dirty || anyChange P x ops) := by
  induction ops generalizing x with
  | nil => simp [anyChange]
  | cons o ops ih => rw [run_cons, ih, step_dirty, anyChange, Bool.or_assoc]

/-- a call that does not change the tree leaves the root, the root watch and the recorded channels alone -/
theorem step_unchanged (P : ArtParams) (x : Txn) (o : Op) (h : changes P x o = false) :
    (step P x o).root = x.root ∧ (step P x o).rootWatch = x.rootWatch ∧ (step P x o).st.pending = x.st.pending := by
  cases o with
  | insert k v m => simp [changes] at h
  | delete k =>
    simp only [changes] at h
    have : (x.delete P k).2 = none := by
      cases h' : (x.delete P k).2 with
      | none => rfl
      | some _ => rw [h'] at h; simp at h
    simp only [step]; rw [delete_absent P x k this]; exact ⟨rfl, rfl, rfl⟩
  | bump => exact ⟨rfl, rfl, rfl⟩

theorem run_unchanged (P : ArtParams) (x : Txn) (ops : List Op) (h : anyChange P x ops = false) :
    (run P x ops).root = x.root ∧ (run P x ops).rootWatch = x.rootWatch ∧ (run P x ops).st.pending = x.st.pending := by
  induction ops generalizing x with
  | nil => exact ⟨rfl, rfl, rfl⟩
  | cons o ops ih =>
    simp only [anyChange, Bool.or_eq_false_iff] at h
    obtain ⟨h1, h2, h3⟩ := step_unchanged P x o h.1
    obtain ⟨g1, g2, g3⟩ := ih (step P x o) h.2
    rw [run_cons]
    exact ⟨g1.trans h1, g2.trans h2, g3.trans h3⟩

/-! ## sessions: who touches `World.closed` -/

/-- events of a session on one open transaction -/
inductive Ev where
  | op (o : Op)
  | commit
  | notify

structure Sess where
  wd : World
  x : Txn

def Sess.step (P : ArtParams) (s : Sess) : Ev → Sess
  | .op o => { s with x := ArtW.step P s.x o }
  | .commit => { wd := (s.x.commit s.wd).2.2, x := (s.x.commit s.wd).1 }
  | .notify => { wd := (s.x.notify s.wd).2, x := (s.x.notify s.wd).1 }

def Sess.run (P : ArtParams) (s : Sess) (evs : List Ev) : Sess := evs.foldl (Sess.step P) s

theorem commit_closed (x : Txn) (wd : World) : (x.commit wd).2.2.closed = wd.closed := by
  unfold Txn.commit
  simp only
  split <;> rfl

theorem Sess.closed_unchanged (P : ArtParams) (s : Sess) (evs : List Ev) (h : ∀ e ∈ evs, e ≠ Ev.notify) :
    (s.run P evs).wd.closed = s.wd.closed := by
  induction evs generalizing s with
  | nil => rfl
  | cons e evs ih =>
    have h1 := ih (s.step P e) (fun e' he' => h e' (List.mem_cons_of_mem _ he'))
    show ((s.step P e).run P evs).wd.closed = _
    rw [h1]
    cases e with
    | op o => rfl
    | commit => exact commit_closed _ _
    | notify => exact absurd rfl (h _ List.mem_cons_self)


end Sdb.ArtW
