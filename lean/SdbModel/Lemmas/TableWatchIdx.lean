import SdbModel.Lemmas.TableWatchRef
import SdbModel.Lemmas.ArtInv
/-!
  Lemmas for the C06 glue, part 2: ONE index inside a write transaction.

  `Track wd w m0 m`: the index `w` of a transaction opened on a committed tree
  whose index map was `m0`, after tree operations that took the index map to `m`:
  * the part transaction is `ArtW.run` of a list of calls on `tree.txn wd` (the form
    the C12 theorems talk about), with no calls while no transaction was created;
  * every key whose entry differs between `m0` and `m` was `touched` by one of the
    calls (an insert of it, or a delete of it while present);
  * the transaction's tree refines `m` (C11: same keys, value = revision) and is
    well-formed.
  Core Lean only.
-/
namespace Sdb.TW
open Sdb.Art Sdb.Tbl Sdb.ArtW

/-- an index operation on the index map of Model.Table -/
def IOp.onMap (m : OMap Obj) : IOp → OMap Obj
  | .ins k o => OMap.insert m k o
  | .del k => OMap.erase m k
  | _ => m

/-- the calls an index operation makes on the part transaction -/
def IOp.aop : IOp → List ArtW.Op
  | .open => []
  | .ins k o => [.insert k o.rev none]
  | .del k => [.delete k]
  | .bump => [.bump]

theorem onTxn_eq (x : Txn) (op : IOp) : op.onTxn x = ArtW.run AP x op.aop := by
  cases op <;> rfl

theorem touched_append (P : ArtParams) (k : List Nat) (a b : List ArtW.Op) (x : Txn) :
    touched P x k (a ++ b) = (touched P x k a || touched P (ArtW.run P x a) k b) := by
  induction a generalizing x with
  | nil => simp [touched, ArtW.run]
  | cons o a ih =>
    simp only [List.cons_append, touched, ArtW.run_cons, ih, Bool.or_assoc]

theorem touchedP_append (P : ArtParams) (q : List Nat) (a b : List ArtW.Op) (x : Txn) :
    touchedP P x q (a ++ b) = (touchedP P x q a || touchedP P (ArtW.run P x a) q b) := by
  induction a generalizing x with
  | nil => simp [touchedP, ArtW.run]
  | cons o a ih =>
    simp only [List.cons_append, touchedP, ArtW.run_cons, ih, Bool.or_assoc]

/-- a call that touches `k` touches every prefix of `k` -/
theorem touched_touchedP (P : ArtParams) (k q : List Nat) (hq : hasPrefix k q = true) (ops : List ArtW.Op) (x : Txn)
    (h : touched P x k ops = true) : touchedP P x q ops = true := by
  induction ops generalizing x with
  | nil => simp [touched] at h
  | cons o ops ih =>
    simp only [touched, Bool.or_eq_true] at h
    simp only [touchedP, Bool.or_eq_true]
    rcases h with h | h
    · left
      cases o with
      | insert k' v m =>
        simp only [touchedBy, beq_iff_eq] at h
        subst h
        simpa [touchedByP] using hq
      | delete k' =>
        simp only [touchedBy, Bool.and_eq_true, beq_iff_eq] at h
        obtain ⟨rfl, h2⟩ := h
        simp [touchedByP, hq, h2]
      | bump => simp [touchedBy] at h
    · right; exact ih _ h

/-- a transaction with a touched key changed the tree -/
theorem touched_any (P : ArtParams) (k : List Nat) (ops : List ArtW.Op) (x : Txn) (h : touched P x k ops = true) :
    anyChange P x ops = true := touched_anyChange P k ops x h

/-! ### refinement of the single calls -/

theorem txnWF_of_tree {t : Tree} (h : Art.TreeWF t) (wd : World) : Art.TxnWF (t.txn wd) := h

theorem txnWF_bump {x : Txn} (h : Art.TxnWF x) : Art.TxnWF x.bump := h

theorem treeWF_commit {x : Txn} (h : Art.TxnWF x) (wd : World) : Art.TreeWF (x.commit wd).2.1 := by
  unfold Txn.commit
  split <;> exact h

/-- the sortedness of the index map follows from the refinement -/
theorem sorted_of_ref {x : Txn} {m : OMap Obj} (wf : Art.TxnWF x) (ent : allRoot x.root = rmap m) : OMap.Sorted m := by
  rw [← rmap_sorted, ← ent]
  exact allRoot_sorted x.root wf.1

theorem insert_ref {x : Txn} {m : OMap Obj} (wf : Art.TxnWF x) (ent : allRoot x.root = rmap m) (k : Key) (o : Obj) :
    Art.TxnWF (x.insert AP k o.rev none).1 ∧ allRoot (x.insert AP k o.rev none).1.root = rmap (OMap.insert m k o) := by
  obtain ⟨h1, _, h3, h4⟩ := Txn_insert_spec AP x k o.rev none wf
  refine ⟨h1, ?_⟩
  rw [h4, h3, rmap_insert, ent]
  unfold mergedVal
  split
  · rename_i h; exact absurd h (by simp)
  · rfl

theorem delete_ref {x : Txn} {m : OMap Obj} (wf : Art.TxnWF x) (ent : allRoot x.root = rmap m) (k : Key) :
    Art.TxnWF (x.delete AP k).1 ∧ allRoot (x.delete AP k).1.root = rmap (OMap.erase m k) ∧
    (x.delete AP k).2 = (OMap.get m k).map (·.rev) := by
  have hs := sorted_of_ref wf ent
  obtain ⟨h1, h2, h3, _⟩ := Txn_delete_spec AP x k wf
  refine ⟨h1, ?_, ?_⟩
  · rw [h3, rmap_erase m hs, ent]
  · rw [h2, ent, look_rmap m hs]

/-! ### the tracking invariant -/

structure Track (wd : World) (w : WIdx) (m0 m : OMap Obj) : Prop where
  ex : ∃ aops : List ArtW.Op,
        w.cur wd = ArtW.run AP (w.tree.txn wd) aops ∧
        (w.txn = none → aops = []) ∧
        (∀ k, OMap.get m k ≠ OMap.get m0 k → touched AP (w.tree.txn wd) k aops = true)
  wf : Art.TxnWF (w.cur wd)
  ent : allRoot (w.cur wd).root = rmap m

theorem Track.sorted {wd : World} {w : WIdx} {m0 m : OMap Obj} (h : Track wd w m0 m) : OMap.Sorted m :=
  sorted_of_ref h.wf h.ent

/-- a transaction is opened on a committed index -/
theorem Track.init (wd : World) (t : Tree) (m0 : OMap Obj) (hwf : Art.TreeWF t) (hent : allRoot t.root = rmap m0) :
    Track wd { tree := t } m0 m0 :=
  { ex := ⟨[], rfl, fun _ => rfl, fun k hk => absurd rfl hk⟩
    wf := txnWF_of_tree hwf wd
    ent := hent }

theorem cur_apply (wd : World) (w : WIdx) (op : IOp) (h : ¬ (op = .bump ∧ w.txn = none)) :
    (w.apply wd op).tree = w.tree ∧ (w.apply wd op).txn = some (op.onTxn (w.cur wd)) ∧
    (w.apply wd op).cur wd = op.onTxn (w.cur wd) := by
  unfold WIdx.apply
  cases op <;> cases ht : w.txn <;> simp_all [WIdx.cur]

theorem apply_bump_none (wd : World) (w : WIdx) (h : w.txn = none) : w.apply wd .bump = w := by
  unfold WIdx.apply; simp [h]

theorem Track.apply {wd : World} {w : WIdx} {m0 m : OMap Obj} (h : Track wd w m0 m) (op : IOp) :
    Track wd (w.apply wd op) m0 (op.onMap m) := by
  by_cases hb : op = .bump ∧ w.txn = none
  · obtain ⟨rfl, hn⟩ := hb
    rw [apply_bump_none wd w hn]
    exact h
  · obtain ⟨htree, htxn, hcur⟩ := cur_apply wd w op hb
    obtain ⟨aops, hrun, _, htouch⟩ := h.ex
    have hs := h.sorted
    have hcur' : (w.apply wd op).cur wd = ArtW.run AP (w.tree.txn wd) (aops ++ op.aop) := by
      rw [hcur, onTxn_eq, hrun, ArtW.run_append]
    cases op with
    | «open» =>
      refine ⟨⟨aops ++ [], ?_, ?_, ?_⟩, ?_, ?_⟩
      · rw [htree]; exact hcur'
      · intro hn; rw [htxn] at hn; exact absurd hn (by simp)
      · intro k hk; rw [htree, List.append_nil]; exact htouch k hk
      · rw [hcur]; exact h.wf
      · rw [hcur]; exact h.ent
    | bump =>
      refine ⟨⟨aops ++ [.bump], ?_, ?_, ?_⟩, ?_, ?_⟩
      · rw [htree]; exact hcur'
      · intro hn; rw [htxn] at hn; exact absurd hn (by simp)
      · intro k hk
        rw [htree, touched_append, htouch k hk]; rfl
      · rw [hcur]; exact txnWF_bump h.wf
      · rw [hcur]; exact h.ent
    | ins k' o =>
      obtain ⟨hwf', hent'⟩ := insert_ref h.wf h.ent k' o
      refine ⟨⟨aops ++ [.insert k' o.rev none], ?_, ?_, ?_⟩, ?_, ?_⟩
      · rw [htree]; exact hcur'
      · intro hn; rw [htxn] at hn; exact absurd hn (by simp)
      · intro k hk
        rw [htree, touched_append]
        by_cases hkk : k = k'
        · subst hkk
          simp [touched, touchedBy]
        · have : OMap.get (IOp.onMap m (.ins k' o)) k = OMap.get m k := OMap.get_insert_other m k' k o hkk
          rw [this] at hk
          rw [htouch k hk]; rfl
      · rw [hcur]; exact hwf'
      · rw [hcur]; exact hent'
    | del k' =>
      obtain ⟨hwf', hent', hold⟩ := delete_ref h.wf h.ent k'
      refine ⟨⟨aops ++ [.delete k'], ?_, ?_, ?_⟩, ?_, ?_⟩
      · rw [htree]; exact hcur'
      · intro hn; rw [htxn] at hn; exact absurd hn (by simp)
      · intro k hk
        rw [htree, touched_append]
        by_cases hkk : k = k'
        · subst hkk
          cases hg : OMap.get m k with
          | none =>
            have : IOp.onMap m (.del k) = m := OMap.erase_absent m hs k hg
            rw [this] at hk
            rw [htouch k hk]; rfl
          | some oo =>
            have hpres : ((w.cur wd).delete AP k).2.isSome = true := by rw [hold, hg]; rfl
            rw [← hrun]
            simp [touched, touchedBy, hpres]
        · have : OMap.get (IOp.onMap m (.del k')) k = OMap.get m k := OMap.get_erase_other m hs k' k hkk
          rw [this] at hk
          rw [htouch k hk]; rfl
      · rw [hcur]; exact hwf'
      · rw [hcur]; exact hent'

theorem Track.run {wd : World} {w : WIdx} {m0 m : OMap Obj} (h : Track wd w m0 m) (ops : List IOp) :
    Track wd (w.run wd ops) m0 (ops.foldl IOp.onMap m) := by
  induction ops generalizing w m with
  | nil => exact h
  | cons op ops ih => exact ih (h.apply op)

theorem run_tree (wd : World) (w : WIdx) (ops : List IOp) : (w.run wd ops).tree = w.tree := by
  induction ops generalizing w with
  | nil => rfl
  | cons op ops ih =>
    show (WIdx.run wd (w.apply wd op) ops).tree = w.tree
    rw [ih]
    unfold WIdx.apply
    split <;> rfl

end Sdb.TW
