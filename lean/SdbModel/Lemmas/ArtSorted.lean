import SdbModel.Lemmas.ArtWF

/-!
  Lemmas for C11, part 3: the reference ordered map (a strictly `cmpL`-sorted
  association list with `sinsert` / `sdelete`), sortedness of `entries` of a
  well-formed tree, and extensionality of sorted lists.  Core Lean only.
-/
namespace Sdb.Art

/-! ### the byte order is a strict order -/

theorem cmpL_lt_irrefl (a : List Nat) : cmpL a a ≠ .lt := by rw [cmpL_refl]; decide

theorem cmpL_lt_asymm (a b : List Nat) (h : cmpL a b = .lt) : cmpL b a = .gt := by
  rw [cmpL_swap a b, h]; rfl

theorem cmpL_gt_lt (a b : List Nat) (h : cmpL a b = .gt) : cmpL b a = .lt := by
  rw [cmpL_swap a b, h]; rfl

theorem cmpL_lt_trans (a b c : List Nat) (h1 : cmpL a b = .lt) (h2 : cmpL b c = .lt) : cmpL a c = .lt := by
  induction a generalizing b c with
  | nil =>
    cases c with
    | nil => cases b <;> simp at h1 h2
    | cons => rfl
  | cons x xs ih =>
    cases b with
    | nil => simp at h1
    | cons y ys =>
      cases c with
      | nil => simp at h2
      | cons z zs =>
        rw [cmpL_cons_cons] at h1 h2 ⊢
        by_cases hxy : x < y
        · by_cases hyz : y < z
          · have : x < z := by omega
            simp [this]
          · by_cases hzy : z < y
            · simp [hyz, hzy] at h2
            · have : x < z := by omega
              simp [this]
        · by_cases hyx : y < x
          · simp [hxy, hyx] at h1
          · simp only [hxy, hyx, if_false] at h1
            have hxy' : x = y := by omega
            subst hxy'
            by_cases hyz : x < z
            · simp [hyz]
            · by_cases hzy : z < x
              · simp [hyz, hzy] at h2
              · simp only [hyz, hzy, if_false] at h2 ⊢
                exact ih ys zs h1 h2

theorem cmpL_prefix_lt (x : List Nat) (c : Nat) (t : List Nat) : cmpL x (x ++ c :: t) = .lt := by
  have := cmpL_append_left x [] (c :: t)
  simpa using this

/-! ### sorted association lists -/

/-- strictly ascending keys -/
def KLt (a b : List Nat × Nat) : Prop := cmpL a.1 b.1 = .lt

def Sorted (l : List (List Nat × Nat)) : Prop := l.Pairwise KLt

theorem sorted_ext (l₁ l₂ : List (List Nat × Nat)) (h₁ : Sorted l₁) (h₂ : Sorted l₂)
    (h : ∀ e, e ∈ l₁ ↔ e ∈ l₂) : l₁ = l₂ := by
  induction l₁ generalizing l₂ with
  | nil =>
    cases l₂ with
    | nil => rfl
    | cons b r => have := (h b).mpr (by simp); simp at this
  | cons a r ih =>
    cases l₂ with
    | nil => have := (h a).mp (by simp); simp at this
    | cons b r' =>
      unfold Sorted at h₁ h₂
      rw [List.pairwise_cons] at h₁ h₂
      have hab : a = b := by
        have h1 := (h a).mp (by simp)
        have h2 := (h b).mpr (by simp)
        simp only [List.mem_cons] at h1 h2
        rcases h1 with h1 | h1
        · exact h1
        · rcases h2 with h2 | h2
          · exact h2.symm
          · have l1 : cmpL b.1 a.1 = .lt := h₂.1 a h1
            have l2 : cmpL a.1 b.1 = .lt := h₁.1 b h2
            rw [cmpL_lt_asymm _ _ l2] at l1
            exact Ordering.noConfusion l1
      subst hab
      congr 1
      apply ih r' h₁.2 h₂.2
      intro e
      constructor
      · intro he
        have := (h e).mp (List.mem_cons_of_mem _ he)
        simp only [List.mem_cons] at this
        rcases this with this | this
        · subst this; exact absurd (h₁.1 e he) (cmpL_lt_irrefl _)
        · exact this
      · intro he
        have := (h e).mpr (List.mem_cons_of_mem _ he)
        simp only [List.mem_cons] at this
        rcases this with this | this
        · subst this; exact absurd (h₂.1 e he) (cmpL_lt_irrefl _)
        · exact this

/-- on a sorted list `look` finds exactly the members -/
theorem mem_iff_look (l : List (List Nat × Nat)) (h : Sorted l) (k : List Nat) (v : Nat) :
    (k, v) ∈ l ↔ look l k = some v := by
  constructor
  · intro hm
    induction l with
    | nil => simp at hm
    | cons x r ih =>
      obtain ⟨a, w⟩ := x
      unfold Sorted at h
      rw [List.pairwise_cons] at h
      rw [look_cons]
      simp only [List.mem_cons, Prod.mk.injEq] at hm
      rcases hm with hm | hm
      · simp [hm.1, hm.2]
      · have hlt : cmpL a k = .lt := h.1 (k, v) hm
        have : a ≠ k := by intro e; rw [e] at hlt; exact cmpL_lt_irrefl _ hlt
        simp [this, ih h.2 hm]
  · exact look_some_mem l k v

/-! ### the reference operations -/

/-- insert or replace in a sorted association list -/
def sinsert : List (List Nat × Nat) → List Nat → Nat → List (List Nat × Nat)
  | [], k, v => [(k, v)]
  | (a, x) :: r, k, v =>
    match cmpL k a with
    | .lt => (k, v) :: (a, x) :: r
    | .eq => (k, v) :: r
    | .gt => (a, x) :: sinsert r k v

/-- delete a key -/
def sdelete (l : List (List Nat × Nat)) (k : List Nat) : List (List Nat × Nat) :=
  l.filter (fun e => decide (e.1 ≠ k))

theorem mem_sinsert (l : List (List Nat × Nat)) (h : Sorted l) (k : List Nat) (v : Nat) (e : List Nat × Nat) :
    e ∈ sinsert l k v ↔ e = (k, v) ∨ (e.1 ≠ k ∧ e ∈ l) := by
  induction l with
  | nil => simp [sinsert]
  | cons x r ih =>
    obtain ⟨a, w⟩ := x
    unfold Sorted at h
    rw [List.pairwise_cons] at h
    simp only [sinsert]
    cases hc : cmpL k a with
    | lt =>
      simp only [List.mem_cons]
      constructor
      · rintro (h1 | h1 | h1)
        · exact Or.inl h1
        · refine Or.inr ⟨?_, Or.inl h1⟩
          rw [h1]; intro e'; simp only at e'; rw [e'] at hc; exact cmpL_lt_irrefl _ hc
        · refine Or.inr ⟨?_, Or.inr h1⟩
          intro e'
          have := cmpL_lt_trans _ _ _ hc (h.1 e h1)
          rw [e'] at this; exact cmpL_lt_irrefl _ this
      · rintro (h1 | ⟨_, h1⟩)
        · exact Or.inl h1
        · exact Or.inr h1
    | eq =>
      have hka : k = a := (cmpL_eq_iff k a).mp hc
      subst hka
      simp only [List.mem_cons]
      constructor
      · rintro (h1 | h1)
        · exact Or.inl h1
        · refine Or.inr ⟨?_, Or.inr h1⟩
          intro e'
          have := h.1 e h1
          unfold KLt at this
          rw [e'] at this; exact cmpL_lt_irrefl _ this
      · rintro (h1 | ⟨h0, h1 | h1⟩)
        · exact Or.inl h1
        · rw [h1] at h0; exact absurd rfl h0
        · exact Or.inr h1
    | gt =>
      simp only [List.mem_cons, ih h.2]
      have hak : a ≠ k := by intro e'; rw [e', cmpL_refl] at hc; exact Ordering.noConfusion hc
      constructor
      · rintro (h1 | h1 | ⟨h0, h1⟩)
        · exact Or.inr ⟨by rw [h1]; exact hak, Or.inl h1⟩
        · exact Or.inl h1
        · exact Or.inr ⟨h0, Or.inr h1⟩
      · rintro (h1 | ⟨h0, h1 | h1⟩)
        · exact Or.inr (Or.inl h1)
        · exact Or.inl h1
        · exact Or.inr (Or.inr ⟨h0, h1⟩)

theorem sinsert_sorted (l : List (List Nat × Nat)) (h : Sorted l) (k : List Nat) (v : Nat) :
    Sorted (sinsert l k v) := by
  induction l with
  | nil => simp [sinsert, Sorted]
  | cons x r ih =>
    obtain ⟨a, w⟩ := x
    have h' := h
    unfold Sorted at h
    rw [List.pairwise_cons] at h
    simp only [sinsert]
    cases hc : cmpL k a with
    | lt =>
      unfold Sorted
      rw [List.pairwise_cons]
      refine ⟨?_, h'⟩
      intro e he
      simp only [List.mem_cons] at he
      rcases he with he | he
      · rw [he]; exact hc
      · exact cmpL_lt_trans _ _ _ hc (h.1 e he)
    | eq =>
      have hka : k = a := (cmpL_eq_iff k a).mp hc
      subst hka
      unfold Sorted
      rw [List.pairwise_cons]
      exact ⟨h.1, h.2⟩
    | gt =>
      unfold Sorted
      rw [List.pairwise_cons]
      refine ⟨?_, ih h.2⟩
      intro e he
      rw [mem_sinsert r h.2] at he
      rcases he with he | ⟨_, he⟩
      · rw [he]; exact cmpL_gt_lt _ _ hc
      · exact h.1 e he

theorem sdelete_sorted (l : List (List Nat × Nat)) (h : Sorted l) (k : List Nat) : Sorted (sdelete l k) :=
  List.Pairwise.filter _ h

theorem mem_sdelete (l : List (List Nat × Nat)) (k : List Nat) (e : List Nat × Nat) :
    e ∈ sdelete l k ↔ e.1 ≠ k ∧ e ∈ l := by
  simp [sdelete, and_comm]

theorem look_sinsert (l : List (List Nat × Nat)) (k : List Nat) (v : Nat) (k' : List Nat) :
    look (sinsert l k v) k' = if k' = k then some v else look l k' := by
  induction l with
  | nil => simp [sinsert, look_cons, eq_comm]
  | cons x r ih =>
    obtain ⟨a, w⟩ := x
    simp only [sinsert]
    cases hc : cmpL k a with
    | lt => simp only [look_cons]; by_cases h : k = k' <;> simp [h, eq_comm]
    | eq =>
      have hka : k = a := (cmpL_eq_iff k a).mp hc
      subst hka
      simp only [look_cons]; by_cases h : k = k' <;> simp [h, eq_comm]
    | gt =>
      have hak : a ≠ k := by intro e'; rw [e', cmpL_refl] at hc; exact Ordering.noConfusion hc
      simp only [look_cons, ih]
      by_cases h : a = k'
      · have : k' ≠ k := by rw [← h]; exact hak
        simp [h, this]
      · simp [h]

theorem look_sdelete (l : List (List Nat × Nat)) (k k' : List Nat) :
    look (sdelete l k) k' = if k' = k then none else look l k' := by
  induction l with
  | nil => simp [sdelete]
  | cons x r ih =>
    obtain ⟨a, w⟩ := x
    unfold sdelete at ih ⊢
    simp only [List.filter_cons]
    by_cases h : a = k
    · subst h
      simp only [ne_eq, not_true_eq_false, decide_false, Bool.false_eq_true, if_false, ih, look_cons]
      by_cases h' : k' = a
      · simp [h']
      · simp [h', Ne.symm h']
    · simp only [ne_eq, h, not_false_eq_true, decide_true, if_true, look_cons, ih]
      by_cases h' : a = k'
      · have : k' ≠ k := by rw [← h']; exact h
        simp [h', this]
      · simp [h']

theorem look_none_of_lt_head (a : List Nat) (w : Nat) (r : List (List Nat × Nat)) (h : Sorted ((a, w) :: r))
    (k : List Nat) (hc : cmpL k a = .lt) : look ((a, w) :: r) k = none := by
  unfold Sorted at h
  rw [List.pairwise_cons] at h
  rw [look_eq_none_iff]
  intro e he e'
  simp only [List.mem_cons] at he
  rcases he with he | he
  · rw [he] at e'; simp only at e'; rw [e'] at hc; exact cmpL_lt_irrefl _ hc
  · have := cmpL_lt_trans _ _ _ hc (h.1 e he)
    rw [e'] at this; exact cmpL_lt_irrefl _ this

theorem look_tail_none (a : List Nat) (w : Nat) (r : List (List Nat × Nat)) (h : Sorted ((a, w) :: r)) :
    look r a = none := by
  unfold Sorted at h
  rw [List.pairwise_cons] at h
  rw [look_eq_none_iff]
  intro e he e'
  have := h.1 e he
  unfold KLt at this
  rw [e'] at this; exact cmpL_lt_irrefl _ this

theorem length_sinsert (l : List (List Nat × Nat)) (h : Sorted l) (k : List Nat) (v : Nat) :
    (sinsert l k v).length = if (look l k).isNone then l.length + 1 else l.length := by
  induction l with
  | nil => simp [sinsert]
  | cons x r ih =>
    obtain ⟨a, w⟩ := x
    have h' := h
    unfold Sorted at h
    rw [List.pairwise_cons] at h
    simp only [sinsert]
    cases hc : cmpL k a with
    | lt => simp [look_none_of_lt_head a w r h' k hc]
    | eq =>
      have hka : k = a := (cmpL_eq_iff k a).mp hc
      subst hka
      simp [look_cons]
    | gt =>
      have hak : a ≠ k := by intro e'; rw [e', cmpL_refl] at hc; exact Ordering.noConfusion hc
      simp only [List.length_cons, ih h.2, look_cons, hak, if_false]
      split <;> rfl

theorem sdelete_of_look_none (l : List (List Nat × Nat)) (k : List Nat) (h : look l k = none) : sdelete l k = l := by
  unfold sdelete
  rw [List.filter_eq_self]
  intro e he
  simpa using (look_eq_none_iff l k).mp h e he

theorem length_sdelete (l : List (List Nat × Nat)) (h : Sorted l) (k : List Nat) :
    (sdelete l k).length = if (look l k).isSome then l.length - 1 else l.length := by
  induction l with
  | nil => simp [sdelete]
  | cons x r ih =>
    obtain ⟨a, w⟩ := x
    have h' := h
    unfold Sorted at h
    rw [List.pairwise_cons] at h
    by_cases hak : a = k
    · subst hak
      have : sdelete ((a, w) :: r) a = sdelete r a := by simp [sdelete]
      rw [this, sdelete_of_look_none r a (look_tail_none a w r h')]
      simp [look_cons]
    · have : sdelete ((a, w) :: r) k = (a, w) :: sdelete r k := by simp [sdelete, hak]
      rw [this, List.length_cons, ih h.2, look_cons, if_neg hak]
      cases hl : look r k with
      | none => simp
      | some v =>
        have := look_some_mem r k v hl
        have : 0 < r.length := List.length_pos_of_mem this
        simp; omega

/-! ### E2: the entries of a well-formed tree are strictly ascending -/

theorem keys_lt_of_kids (acc : List Nat) (n : Node) (b : Nat) (tl : List Nat) (hp : n.pfx = b :: tl)
    (hn : WFNode acc n) (r : Kids) (hr : WFKids acc r) (hlt : ∀ c ∈ r.keys, b < c) :
    ∀ a ∈ entries n, ∀ e ∈ entriesK r, KLt a e := by
  intro a ha e he
  obtain ⟨t1, h1⟩ := entries_pfx acc n hn a ha
  obtain ⟨c, hc, t2, h2⟩ := entriesK_pfx acc r hr e he
  unfold KLt
  rw [h1, h2, hp]
  simp only [List.append_assoc, List.cons_append]
  exact cmpL_diff_lt acc b c _ _ (hlt c hc)

mutual
theorem entries_sorted (acc : List Nat) : (n : Node) → WFNode acc n → Sorted (entries n)
  | .leaf p d, _ => by simp [entries, Sorted]
  | .inner k p lf kids w t, h => by
    simp only [WFNode] at h
    obtain ⟨hlf, hk⟩ := h
    rw [entries_inner]
    unfold Sorted
    rw [List.pairwise_append]
    refine ⟨?_, entriesK_sorted (acc ++ p) kids hk, ?_⟩
    · cases lf <;> simp [lfList]
    · intro a ha e he
      cases lf with
      | none => simp [lfList] at ha
      | some d =>
        simp only [lfList, List.mem_singleton] at ha
        obtain ⟨c, _, t2, h2⟩ := entriesK_pfx (acc ++ p) kids hk e he
        unfold KLt
        rw [ha, h2, hlf d rfl]
        exact cmpL_prefix_lt _ _ _
theorem entriesK_sorted (acc : List Nat) : (kids : Kids) → WFKids acc kids → Sorted (entriesK kids)
  | .nil, _ => by simp [entriesK, Sorted]
  | .cons b n r, h => by
    simp only [WFKids] at h
    obtain ⟨⟨tl, hp⟩, hn, hlt, hr⟩ := h
    simp only [entriesK]
    unfold Sorted
    rw [List.pairwise_append]
    exact ⟨entries_sorted acc n hn, entriesK_sorted acc r hr, keys_lt_of_kids acc n b tl hp hn r hr hlt⟩
end

end Sdb.Art
