import SdbModel.Model.Table
import SdbModel.Lemmas.Enc

/-!
  Ordered-map laws for `Sdb.Tbl.OMap` (association lists kept sorted by `cmpL`).
  `cmpL` is shown to be a strict total order on byte lists; under the sortedness
  invariant `OMap.Sorted` (keys strictly ascending) `get / insert / erase` obey the
  usual finite-map laws, and `prefixQ` / `lowerBound` are order-preserving filters.
  Core Lean only.
-/
namespace Sdb

/-! ### `cmpL` is a strict total order -/

theorem cmpL_gt_iff_lt (a b : List Nat) : cmpL a b = .gt ↔ cmpL b a = .lt := by
  rw [cmpL_swap a b]
  cases cmpL a b <;> simp [Ordering.swap]

theorem cmpL_lt_iff_gt (a b : List Nat) : cmpL a b = .lt ↔ cmpL b a = .gt := by
  rw [cmpL_swap a b]
  cases cmpL a b <;> simp [Ordering.swap]

theorem cmpL_lt_irrefl (a : List Nat) : cmpL a a ≠ .lt := by
  rw [cmpL_refl]; simp

theorem cmpL_lt_asymm (a b : List Nat) (h : cmpL a b = .lt) : cmpL b a ≠ .lt := by
  rw [cmpL_swap a b, h]; simp [Ordering.swap]

theorem cmpL_lt_trans (a b c : List Nat) (h1 : cmpL a b = .lt) (h2 : cmpL b c = .lt) : cmpL a c = .lt := by
  induction a generalizing b c with
  | nil =>
    cases c with
    | nil => cases b <;> simp_all
    | cons _ _ => rfl
  | cons x xs ih =>
    cases b with
    | nil => simp at h1
    | cons y ys =>
      cases c with
      | nil => simp at h2
      | cons z zs =>
        rw [cmpL_cons_cons] at h1 h2 ⊢
        by_cases hxy : x < y
        · by_cases hyz : y < z
          · have : x < z := by omega
            simp [this]
          · by_cases hzy : z < y
            · simp [hyz, hzy] at h2
            · have : x < z := by omega
              simp [this]
        · by_cases hyx : y < x
          · simp [hxy, hyx] at h1
          · simp only [hxy, hyx, if_false] at h1
            have hxy' : x = y := by omega
            subst hxy'
            by_cases hyz : x < z
            · simp [hyz]
            · by_cases hzy : z < x
              · simp [hyz, hzy] at h2
              · simp only [hyz, hzy, if_false] at h2 ⊢
                exact ih ys zs h1 h2

theorem cmpL_ne_of_lt (a b : List Nat) (h : cmpL a b = .lt) : a ≠ b := by
  intro e; subst e; exact cmpL_lt_irrefl a h

/-- trichotomy -/
theorem cmpL_total (a b : List Nat) : cmpL a b = .lt ∨ a = b ∨ cmpL b a = .lt := by
  cases h : cmpL a b with
  | lt => exact Or.inl rfl
  | eq => exact Or.inr (Or.inl ((cmpL_eq_iff a b).mp h))
  | gt => exact Or.inr (Or.inr ((cmpL_gt_iff_lt a b).mp h))

namespace Tbl.OMap
variable {α : Type}

/-- keys strictly ascending w.r.t. `cmpL` -/
def Sorted (m : OMap α) : Prop := m.Pairwise fun a b => cmpL a.1 b.1 = .lt

theorem sorted_nil : Sorted ([] : OMap α) := List.Pairwise.nil

theorem sorted_cons {k : Key} {v : α} {r : OMap α} :
    Sorted ((k, v) :: r) ↔ (∀ e ∈ r, cmpL k e.1 = .lt) ∧ Sorted r := by
  unfold Sorted; exact List.pairwise_cons

theorem Sorted.tail {e : Key × α} {r : OMap α} (h : Sorted (e :: r)) : Sorted r :=
  (List.pairwise_cons.mp h).2

/-! #### get -/

@[simp] theorem get_nil (k : Key) : get ([] : OMap α) k = none := rfl

theorem get_cons (k' : Key) (v : α) (r : OMap α) (k : Key) :
    get ((k', v) :: r) k = match cmpL k' k with
      | .eq => some v
      | .lt => get r k
      | .gt => none := rfl

/-- all keys above `k`: `k` is absent -/
theorem get_none_of_all_gt (m : OMap α) (k : Key) (h : ∀ e ∈ m, cmpL k e.1 = .lt) : get m k = none := by
  cases m with
  | nil => rfl
  | cons e r =>
    obtain ⟨k', v⟩ := e
    have := h (k', v) (List.mem_cons_self ..)
    rw [get_cons, (cmpL_lt_iff_gt k k').mp this]

theorem get_some_mem (m : OMap α) (k : Key) (v : α) (h : get m k = some v) : (k, v) ∈ m := by
  induction m with
  | nil => simp at h
  | cons e r ih =>
    obtain ⟨k', v'⟩ := e
    rw [get_cons] at h
    split at h
    · rename_i hc
      have := (cmpL_eq_iff k' k).mp hc
      simp only [Option.some.injEq] at h
      subst this; subst h
      exact List.mem_cons_self ..
    · exact List.mem_cons_of_mem _ (ih h)
    · simp at h

theorem mem_get_some (m : OMap α) (hs : Sorted m) (k : Key) (v : α) (h : (k, v) ∈ m) : get m k = some v := by
  induction m with
  | nil => simp at h
  | cons e r ih =>
    obtain ⟨k', v'⟩ := e
    have ⟨hall, hr⟩ := sorted_cons.mp hs
    rw [get_cons]
    rcases List.mem_cons.mp h with h | h
    · simp only [Prod.mk.injEq] at h
      obtain ⟨h1, h2⟩ := h
      subst h1; subst h2
      rw [cmpL_refl]
    · have := hall _ h
      simp only at this
      rw [this]
      exact ih hr h

/-- **membership characterisation** -/
theorem mem_iff_get (m : OMap α) (hs : Sorted m) (k : Key) (v : α) : (k, v) ∈ m ↔ get m k = some v :=
  ⟨mem_get_some m hs k v, get_some_mem m k v⟩

theorem get_none_iff (m : OMap α) (hs : Sorted m) (k : Key) : get m k = none ↔ ∀ v, (k, v) ∉ m := by
  constructor
  · intro h v hv
    rw [mem_get_some m hs k v hv] at h; simp at h
  · intro h
    cases hg : get m k with
    | none => rfl
    | some v => exact absurd (get_some_mem m k v hg) (h v)

/-- a key occurs at most once in a sorted map -/
theorem sorted_unique (m : OMap α) (hs : Sorted m) (k : Key) (v w : α) (h1 : (k, v) ∈ m) (h2 : (k, w) ∈ m) : v = w := by
  have a := mem_get_some m hs k v h1
  have b := mem_get_some m hs k w h2
  rw [a] at b; simpa using b

/-- extensionality: sorted maps with the same lookups are equal -/
theorem ext_get (m n : OMap α) (hm : Sorted m) (hn : Sorted n) (h : ∀ k, get m k = get n k) : m = n := by
  induction m generalizing n with
  | nil =>
    cases n with
    | nil => rfl
    | cons e r =>
      obtain ⟨k, v⟩ := e
      have := h k
      rw [get_cons, cmpL_refl] at this
      simp at this
  | cons e r ih =>
    obtain ⟨k, v⟩ := e
    cases n with
    | nil =>
      have := h k
      rw [get_cons, cmpL_refl] at this
      simp at this
    | cons e' r' =>
      obtain ⟨k', v'⟩ := e'
      have ⟨ha, hr⟩ := sorted_cons.mp hm
      have ⟨ha', hr'⟩ := sorted_cons.mp hn
      have hk : k = k' := by
        rcases cmpL_total k k' with hlt | heq | hgt
        · -- k < k': k absent from n
          have h1 := h k
          rw [get_cons, cmpL_refl, get_cons, (cmpL_lt_iff_gt k k').mp hlt] at h1
          simp at h1
        · exact heq
        · have h1 := h k'
          rw [get_cons, (cmpL_lt_iff_gt k' k).mp hgt, get_cons, cmpL_refl] at h1
          simp at h1
      subst hk
      have hv : v = v' := by
        have h1 := h k
        rw [get_cons, cmpL_refl, get_cons, cmpL_refl] at h1
        simpa using h1
      subst hv
      congr 1
      apply ih r' hr hr'
      intro x
      have h1 := h x
      rw [get_cons, get_cons] at h1
      cases hc : cmpL k x with
      | lt => rw [hc] at h1; exact h1
      | eq =>
        have := (cmpL_eq_iff k x).mp hc
        subst this
        rw [get_none_of_all_gt r k ha, get_none_of_all_gt r' k ha']
      | gt =>
        have hx : cmpL x k = .lt := (cmpL_gt_iff_lt k x).mp hc
        rw [get_none_of_all_gt r x (fun e he => cmpL_lt_trans _ _ _ hx (ha e he)),
            get_none_of_all_gt r' x (fun e he => cmpL_lt_trans _ _ _ hx (ha' e he))]

/-! #### insert -/

/-- **get after insert, same key** (no sortedness needed) -/
theorem get_insert_self (m : OMap α) (k : Key) (v : α) : get (insert m k v) k = some v := by
  induction m with
  | nil => simp [insert, get_cons, cmpL_refl]
  | cons e r ih =>
    obtain ⟨k', v'⟩ := e
    unfold insert
    split
    · rw [get_cons, cmpL_refl]
    · rename_i hc; rw [get_cons, hc]; exact ih
    · rw [get_cons, cmpL_refl]

/-- **get after insert, other key** (no sortedness needed) -/
theorem get_insert_other (m : OMap α) (k k2 : Key) (v : α) (hne : k2 ≠ k) : get (insert m k v) k2 = get m k2 := by
  have hne' : cmpL k k2 ≠ .eq := fun h => hne ((cmpL_eq_iff k k2).mp h).symm
  induction m with
  | nil =>
    simp only [insert, get_cons, get_nil]
    cases hc : cmpL k k2 <;> simp_all
  | cons e r ih =>
    obtain ⟨k', v'⟩ := e
    unfold insert
    split
    · rename_i hc
      have := (cmpL_eq_iff k' k).mp hc
      subst this
      rw [get_cons, get_cons]
      cases hc2 : cmpL k' k2 <;> simp_all
    · rw [get_cons, get_cons (k' := k')]
      cases hc2 : cmpL k' k2 <;> simp [ih]
    · rename_i hc
      have hkk' : cmpL k k' = .lt := (cmpL_gt_iff_lt k' k).mp hc
      rw [get_cons]
      cases hc2 : cmpL k k2 with
      | eq => exact absurd hc2 hne'
      | lt => rfl
      | gt =>
        have : cmpL k2 k' = .lt := cmpL_lt_trans _ _ _ ((cmpL_gt_iff_lt k k2).mp hc2) hkk'
        simp only
        rw [get_cons, (cmpL_lt_iff_gt k2 k').mp this]

theorem get_insert (m : OMap α) (k k2 : Key) (v : α) :
    get (insert m k v) k2 = if k2 = k then some v else get m k2 := by
  by_cases h : k2 = k
  · subst h; simp [get_insert_self]
  · simp [h, get_insert_other m k k2 v h]

theorem mem_insert_imp (m : OMap α) (k : Key) (v : α) (e : Key × α) (h : e ∈ insert m k v) :
    e = (k, v) ∨ e ∈ m := by
  induction m with
  | nil => simp [insert] at h; exact Or.inl h
  | cons e' r ih =>
    obtain ⟨k', v'⟩ := e'
    unfold insert at h
    split at h
    · rcases List.mem_cons.mp h with h | h
      · exact Or.inl h
      · exact Or.inr (List.mem_cons_of_mem _ h)
    · rcases List.mem_cons.mp h with h | h
      · exact Or.inr (h ▸ List.mem_cons_self ..)
      · rcases ih h with h | h
        · exact Or.inl h
        · exact Or.inr (List.mem_cons_of_mem _ h)
    · rcases List.mem_cons.mp h with h | h
      · exact Or.inl h
      · exact Or.inr h

/-- **sortedness is preserved by insert** -/
theorem sorted_insert (m : OMap α) (hs : Sorted m) (k : Key) (v : α) : Sorted (insert m k v) := by
  induction m with
  | nil => exact sorted_cons.mpr ⟨by simp, sorted_nil⟩
  | cons e r ih =>
    obtain ⟨k', v'⟩ := e
    have ⟨ha, hr⟩ := sorted_cons.mp hs
    unfold insert
    split
    · rename_i hc
      have := (cmpL_eq_iff k' k).mp hc
      subst this
      exact sorted_cons.mpr ⟨ha, hr⟩
    · rename_i hc
      refine sorted_cons.mpr ⟨?_, ih hr⟩
      intro e he
      rcases mem_insert_imp r k v e he with h | h
      · subst h; exact hc
      · exact ha e h
    · rename_i hc
      have hkk' : cmpL k k' = .lt := (cmpL_gt_iff_lt k' k).mp hc
      refine sorted_cons.mpr ⟨?_, hs⟩
      intro e he
      rcases List.mem_cons.mp he with h | h
      · subst h; exact hkk'
      · exact cmpL_lt_trans _ _ _ hkk' (ha e h)

/-- membership after insert (sorted maps) -/
theorem mem_insert_iff (m : OMap α) (hs : Sorted m) (k : Key) (v : α) (k2 : Key) (w : α) :
    (k2, w) ∈ insert m k v ↔ (k2 = k ∧ w = v) ∨ (k2 ≠ k ∧ (k2, w) ∈ m) := by
  rw [mem_iff_get _ (sorted_insert m hs k v), get_insert, mem_iff_get m hs]
  by_cases h : k2 = k
  · simp [h]; exact eq_comm
  · simp [h]

/-! #### erase -/

theorem mem_erase_imp (m : OMap α) (k : Key) (e : Key × α) (h : e ∈ erase m k) : e ∈ m := by
  induction m with
  | nil => simp [erase] at h
  | cons e' r ih =>
    obtain ⟨k', v'⟩ := e'
    unfold erase at h
    split at h
    · exact List.mem_cons_of_mem _ h
    · rcases List.mem_cons.mp h with h | h
      · exact h ▸ List.mem_cons_self ..
      · exact List.mem_cons_of_mem _ (ih h)
    · exact h

/-- **sortedness is preserved by erase** -/
theorem sorted_erase (m : OMap α) (hs : Sorted m) (k : Key) : Sorted (erase m k) := by
  induction m with
  | nil => exact sorted_nil
  | cons e r ih =>
    obtain ⟨k', v'⟩ := e
    have ⟨ha, hr⟩ := sorted_cons.mp hs
    unfold erase
    split
    · exact hr
    · exact sorted_cons.mpr ⟨fun e he => ha e (mem_erase_imp r k e he), ih hr⟩
    · exact hs

/-- **get after erase, same key** -/
theorem get_erase_self (m : OMap α) (hs : Sorted m) (k : Key) : get (erase m k) k = none := by
  induction m with
  | nil => rfl
  | cons e r ih =>
    obtain ⟨k', v'⟩ := e
    have ⟨ha, hr⟩ := sorted_cons.mp hs
    unfold erase
    split
    · rename_i hc
      have := (cmpL_eq_iff k' k).mp hc
      subst this
      exact get_none_of_all_gt r k' ha
    · rename_i hc; rw [get_cons, hc]; exact ih hr
    · rename_i hc; rw [get_cons, hc]

/-- **get after erase, other key** -/
theorem get_erase_other (m : OMap α) (hs : Sorted m) (k k2 : Key) (hne : k2 ≠ k) : get (erase m k) k2 = get m k2 := by
  induction m with
  | nil => rfl
  | cons e r ih =>
    obtain ⟨k', v'⟩ := e
    have ⟨ha, hr⟩ := sorted_cons.mp hs
    unfold erase
    split
    · rename_i hc
      have := (cmpL_eq_iff k' k).mp hc
      subst this
      rw [get_cons]
      cases hc2 : cmpL k' k2 with
      | eq => exact absurd ((cmpL_eq_iff k' k2).mp hc2).symm hne
      | lt => rfl
      | gt =>
        have hx : cmpL k2 k' = .lt := (cmpL_gt_iff_lt k' k2).mp hc2
        exact get_none_of_all_gt r k2 (fun e he => cmpL_lt_trans _ _ _ hx (ha e he))
    · rw [get_cons, get_cons (k' := k')]
      cases hc2 : cmpL k' k2 <;> simp [ih hr]
    · rfl

theorem get_erase (m : OMap α) (hs : Sorted m) (k k2 : Key) :
    get (erase m k) k2 = if k2 = k then none else get m k2 := by
  by_cases h : k2 = k
  · subst h; simp [get_erase_self m hs]
  · simp [h, get_erase_other m hs k k2 h]

/-- erasing an absent key is the identity -/
theorem erase_absent (m : OMap α) (hs : Sorted m) (k : Key) (h : get m k = none) : erase m k = m := by
  apply ext_get _ _ (sorted_erase m hs k) hs
  intro x
  rw [get_erase m hs]
  by_cases hx : x = k
  · subst hx; simp [h]
  · simp [hx]

/-- membership after erase (sorted maps) -/
theorem mem_erase_iff (m : OMap α) (hs : Sorted m) (k : Key) (k2 : Key) (w : α) :
    (k2, w) ∈ erase m k ↔ k2 ≠ k ∧ (k2, w) ∈ m := by
  rw [mem_iff_get _ (sorted_erase m hs k), get_erase m hs, mem_iff_get m hs]
  by_cases h : k2 = k <;> simp [h]

/-! #### sizes -/

theorem length_insert (m : OMap α) (k : Key) (v : α) :
    (insert m k v).length = if (get m k).isSome then m.length else m.length + 1 := by
  induction m with
  | nil => simp [insert]
  | cons e r ih =>
    obtain ⟨k', v'⟩ := e
    unfold insert
    rw [get_cons]
    split <;> simp_all
    split <;> simp


theorem erase_cons (k' : Key) (v' : α) (r : OMap α) (k : Key) :
    erase ((k', v') :: r) k = match cmpL k' k with
      | .eq => r
      | .lt => (k', v') :: erase r k
      | .gt => (k', v') :: r := rfl

theorem length_erase (m : OMap α) (k : Key) :
    (erase m k).length = if (get m k).isSome then m.length - 1 else m.length := by
  induction m with
  | nil => simp [erase]
  | cons e r ih =>
    obtain ⟨k', v'⟩ := e
    rw [erase_cons, get_cons]
    cases hc : cmpL k' k
    · simp only [List.length_cons, ih]
      split
      · rename_i h
        have : r.length ≠ 0 := by
          intro h0
          have : r = [] := List.eq_nil_of_length_eq_zero h0
          subst this; simp at h
        omega
      · rfl
    · simp
    · simp

/-! #### the filters `prefixQ` and `lowerBound` -/

theorem sorted_filter (m : OMap α) (hs : Sorted m) (p : Key × α → Bool) : Sorted (m.filter p) :=
  List.Pairwise.filter p hs

/-- `prefixQ` is the sub-list of entries whose key has the prefix, in the same order -/
theorem prefixQ_sublist (m : OMap α) (p : Key) : List.Sublist (prefixQ m p) m := List.filter_sublist

theorem sorted_prefixQ (m : OMap α) (hs : Sorted m) (p : Key) : Sorted (prefixQ m p) := sorted_filter m hs _

theorem mem_prefixQ (m : OMap α) (p : Key) (k : Key) (v : α) :
    (k, v) ∈ prefixQ m p ↔ (k, v) ∈ m ∧ p <+: k := by
  unfold prefixQ
  rw [List.mem_filter]
  simp only [hasPrefix_iff]

/-- `lowerBound` is the sub-list of entries whose key is not below the bound, in the same order -/
theorem lowerBound_sublist (m : OMap α) (k : Key) : List.Sublist (lowerBound m k) m := List.filter_sublist

theorem sorted_lowerBound (m : OMap α) (hs : Sorted m) (k : Key) : Sorted (lowerBound m k) := sorted_filter m hs _

theorem mem_lowerBound (m : OMap α) (b : Key) (k : Key) (v : α) :
    (k, v) ∈ lowerBound m b ↔ (k, v) ∈ m ∧ cmpL k b ≠ .lt := by
  unfold lowerBound
  rw [List.mem_filter]
  simp

/-- on a sorted map `lowerBound` is a suffix: once a key is ≥ the bound all later ones are -/
theorem lowerBound_eq_dropWhile (m : OMap α) (hs : Sorted m) (b : Key) :
    lowerBound m b = m.dropWhile fun e => cmpL e.1 b == .lt := by
  induction m with
  | nil => rfl
  | cons e r ih =>
    obtain ⟨k, v⟩ := e
    have ⟨ha, hr⟩ := sorted_cons.mp hs
    unfold lowerBound at ih ⊢
    rw [List.filter_cons, List.dropWhile_cons]
    by_cases hc : cmpL k b = .lt
    · simp only [hc, bne_self_eq_false, Bool.false_eq_true, if_false, beq_self_eq_true, if_true]
      exact ih hr
    · have h1 : (cmpL k b != .lt) = true := by simp [hc]
      have h2 : (cmpL k b == .lt) = false := by simp [hc]
      simp only [h1, h2, if_true, Bool.false_eq_true, if_false]
      congr 1
      rw [List.filter_eq_self]
      intro e he
      have hke := ha e he
      have : cmpL e.1 b ≠ .lt := fun hx => hc (cmpL_lt_trans _ _ _ hke hx)
      simp [this]

end Tbl.OMap
end Sdb
