import SdbModel.Lemmas.ConcSimRel

/-!
  ConcSimStep — every micro step of `Model.Conc` is matched by zero or one step
  of `Model.Serial`, preserving the abstraction relation `R`; and its effect on
  the shared state is one of five kinds (`Effect`).  Core Lean only.
-/
namespace Sdb.Conc
open Sdb.Serial (Txn Phase setTxn)

/-- what a micro step of thread `tid` (record `th` before, `th'` after) does to
    the committed root and the table mutexes -/
inductive Effect (st st' : State) (tid : Nat) (th th' : Thread) : Prop where
  | quiet : st'.root = st.root → st'.lockOwner = st.lockOwner → Effect st st' tid th th'
  | acquire (tb : Nat) : st'.root = st.root → st.lockOwner.getD tb none = none →
      st'.lockOwner = st.lockOwner.set tb (some tid) → Effect st st' tid th th'
  | release (tb : Nat) : st'.root = st.root → st.lockOwner.getD tb none = some tid →
      st'.lockOwner = st.lockOwner.set tb none → Effect st st' tid th th'
  | commit : st'.lockOwner = st.lockOwner → st'.root.length = st.root.length →
      Micro.act .storeRoot ∈ th.prog → Micro.act .storeRoot ∉ th'.prog →
      (∀ x, x < st.root.length →
        (x ∈ th.tables → st.lockOwner.getD x none = some tid ∧ (getT st'.root x).cnt = (getT st.root x).cnt + 1) ∧
        (x ∉ th.tables → getT st'.root x = getT st.root x)) → Effect st st' tid th th'
  | register : st'.lockOwner = st.lockOwner → th.tables = [] →
      Micro.act .storeRoot ∈ th.prog → Micro.act .storeRoot ∉ th'.prog →
      (∃ v : TableV, st'.root = st.root ++ [v] ∧ v.cnt = 0) → Effect st st' tid th th'

/-- the conclusion of the simulation of one micro step -/
def StepOK (s : Serial.State) (st st' : State) (tid : Nat) (th th' : Thread) : Prop :=
  (∃ s', Serial.Reachable s' ∧ s'.txns.map (·.commit) = s.txns.map (·.commit) ∧ R (install st' tid th') s') ∧
  Effect st st' tid th th' ∧
  (th'.done = true → th'.prog = [])

theorem map_commit_setTxn (l : List Txn) (i : Nat) (t t' : Txn) (h : l[i]? = some t) (hc : t'.commit = t.commit) :
    (setTxn l i t').map (·.commit) = l.map (·.commit) := by
  unfold setTxn
  rw [List.map_set]
  apply set_self
  rw [List.getElem?_map, h, hc]; rfl

theorem mem_lockList (th : Thread) (x : Nat) : x ∈ lockList th ↔ x ∈ th.tables :=
  (lockOrder_ascending th.tables).2 x

/-- an effectful micro step that is still in the program is in the stripped program -/
theorem mem_strip (m : Micro) (l : List Micro) (h : relevant m = true) : m ∈ strip l ↔ m ∈ l := by
  simp [strip, h]

/-! ### the lock loop -/

theorem sim_acquire (st : State) (tid : Nat) (th : Thread) (s : Serial.State) (t : Txn) (rest : List Micro)
    (k tb : Nat) (hs : Serial.Reachable s) (hR : R (install st tid th) s) (htid : tid < st.threads.length)
    (hd : th.done = false) (ht : s.txns[tid]? = some t) (htabs : t.tabs = lockList th)
    (hb : ∀ x ∈ lockList th, x < st.root.length ∧ x < st.lockOwner.length)
    (hprog : th.prog = .acquire tb :: rest) (hk : (lockList th)[k]? = some tb)
    (hstrip : strip rest = code (lockList th) t.commit (.acq (k + 1)))
    (hcs : st.rootMu = some tid ↔ inCS (.acq k) = true) (hl : Local st.root th t (.acq k))
    (st' : State) (th' : Thread) (h : mstep st tid th = some (st', th')) : StepOK s st st' tid th th' := by
  simp only [mstep, hprog] at h
  split at h
  · simp at h
  · rename_i hfree
    simp only [Option.some.injEq, Prod.mk.injEq] at h
    obtain ⟨rfl, rfl⟩ := h
    have hfree' : st.lockOwner.getD tb none = none := by
      cases ho : st.lockOwner.getD tb none with
      | none => rfl
      | some v => rw [ho] at hfree; simp at hfree
    have hown : s.owner tb = none := by rw [← hR.owner tb]; exact hfree'
    have hklt : k < (lockList th).length := lt_of_getElem?_some _ _ _ hk
    have htbl : tb < st.lockOwner.length := (hb tb (List.mem_of_getElem? hk)).2
    refine ⟨⟨_, .step _ _ hs (Serial.Step.acquire s tid t k tb ht hl.1 (by rw [htabs]; exact hk) hown),
      map_commit_setTxn _ _ _ _ ht rfl, ?_⟩,
      .acquire tb rfl hfree' rfl, fun hd' => by simp [hd] at hd'⟩
    refine R_update st _ s _ tid th _ t _ hR htid rfl ht rfl hR.root hR.rootHi ?_ (by simp) (Nat.le_refl _)
      (fun _ _ => Iff.rfl) (Or.inl rfl) ?_
    · intro i
      show (st.lockOwner.set tb (some tid)).getD i none = if i = tb then some tid else s.owner i
      rw [getD_set_opt]
      by_cases hi : i = tb
      · simp [hi, htbl]
      · simp only [hi, false_and, if_false]; exact hR.owner i
    · refine ⟨htabs, ?_, .acq (k + 1), hstrip, hcs, rfl, hklt⟩
      intro x hx
      exact ⟨(hb x hx).1, by simpa using (hb x hx).2⟩

/-! ### WriteTxn after the lock loop: load the root, copy it -/

theorem sim_loadRoot (st : State) (tid : Nat) (th : Thread) (s : Serial.State) (t : Txn) (rest : List Micro)
    (k : Nat) (hs : Serial.Reachable s) (hR : R (install st tid th) s) (htid : tid < st.threads.length)
    (hd : th.done = false) (ht : s.txns[tid]? = some t) (htabs : t.tabs = lockList th)
    (hb : ∀ x ∈ lockList th, x < st.root.length ∧ x < st.lockOwner.length)
    (hprog : th.prog = .act .loadRoot :: rest) (hk : (lockList th)[k]? = none)
    (hstrip : strip rest = code (lockList th) t.commit .clR)
    (hcs : st.rootMu = some tid ↔ inCS (.acq k) = true) (hl : Local st.root th t (.acq k))
    (st' : State) (th' : Thread) (h : mstep st tid th = some (st', th')) : StepOK s st st' tid th th' := by
  simp only [mstep, hprog, doAct, Option.some.injEq, Prod.mk.injEq] at h
  obtain ⟨rfl, rfl⟩ := h
  have hkl : k = t.tabs.length := by
    rw [List.getElem?_eq_none_iff] at hk
    have := hl.2
    rw [htabs]; omega
  refine ⟨⟨_, .step _ _ hs (Serial.Step.load s tid t ht (by rw [← hkl]; exact hl.1)),
      map_commit_setTxn _ _ _ _ ht rfl, ?_⟩,
    .quiet rfl rfl, fun hd' => by simp [hd] at hd'⟩
  refine R_update st _ s _ tid th _ t _ hR htid rfl ht rfl hR.root hR.rootHi hR.owner rfl (Nat.le_refl _)
    (fun _ _ => Iff.rfl) (Or.inl rfl) ?_
  refine ⟨htabs, hb, .clR, hstrip, hcs, rfl, ?_⟩
  intro x hx
  exact ⟨(hb x hx).1, hR.root x (hb x hx).1⟩

theorem sim_cloneRoot (st : State) (tid : Nat) (th : Thread) (s : Serial.State) (t : Txn) (rest : List Micro)
    (hs : Serial.Reachable s) (hR : R (install st tid th) s) (htid : tid < st.threads.length)
    (hd : th.done = false) (ht : s.txns[tid]? = some t) (htabs : t.tabs = lockList th)
    (hb : ∀ x ∈ lockList th, x < st.root.length ∧ x < st.lockOwner.length)
    (hprog : th.prog = .act .cloneRoot :: rest)
    (hstrip : strip rest = code (lockList th) t.commit .clE)
    (hcs : st.rootMu = some tid ↔ inCS .clR = true) (hl : Local st.root th t .clR)
    (st' : State) (th' : Thread) (h : mstep st tid th = some (st', th')) : StepOK s st st' tid th th' := by
  simp only [mstep, hprog, doAct, Option.some.injEq, Prod.mk.injEq] at h
  obtain ⟨rfl, rfl⟩ := h
  refine ⟨⟨s, hs, rfl, ?_⟩, .quiet rfl rfl, fun hd' => by simp [hd] at hd'⟩
  refine R_update_same st _ s tid th _ t hR htid rfl ht hR.root hR.rootHi hR.owner rfl (Nat.le_refl _)
    (fun _ _ => Iff.rfl) (Or.inl rfl) ?_
  exact ⟨htabs, hb, .clE, hstrip, hcs, hl.1, hl.2, hl.2⟩

theorem sim_cloneEntries (st : State) (tid : Nat) (th : Thread) (s : Serial.State) (t : Txn) (rest : List Micro)
    (hs : Serial.Reachable s) (hR : R (install st tid th) s) (htid : tid < st.threads.length)
    (hd : th.done = false) (ht : s.txns[tid]? = some t) (htabs : t.tabs = lockList th)
    (hb : ∀ x ∈ lockList th, x < st.root.length ∧ x < st.lockOwner.length)
    (hprog : th.prog = .act .cloneEntries :: rest)
    (hstrip : strip rest = code (lockList th) t.commit .uw)
    (hcs : st.rootMu = some tid ↔ inCS .clE = true) (hl : Local st.root th t .clE)
    (st' : State) (th' : Thread) (h : mstep st tid th = some (st', th')) : StepOK s st st' tid th th' := by
  simp only [mstep, hprog, doAct, Option.some.injEq, Prod.mk.injEq] at h
  obtain ⟨rfl, rfl⟩ := h
  refine ⟨⟨s, hs, rfl, ?_⟩, .quiet rfl rfl, fun hd' => by simp [hd] at hd'⟩
  refine R_update_same st _ s tid th _ t hR htid rfl ht hR.root hR.rootHi hR.owner rfl (Nat.le_refl _)
    (fun _ _ => Iff.rfl) (Or.inl rfl) ?_
  exact ⟨htabs, hb, .uw, hstrip, hcs, hl.1, hl.2.1, rfl, hl.2.2⟩

/-! ### the user's writes (and, for an aborting writer, the abort point) -/

theorem count_dedup_of_mem (l : List Nat) (x : Nat) (h : x ∈ l) : (dedup l).count x = 1 :=
  by rw [List.Nodup.count (nodup_dedup l), if_pos ((mem_dedup x l).2 h)]

theorem sim_userWrites (st : State) (tid : Nat) (th : Thread) (s : Serial.State) (t : Txn) (rest : List Micro)
    (hs : Serial.Reachable s) (hR : R (install st tid th) s) (htid : tid < st.threads.length)
    (hd : th.done = false) (ht : s.txns[tid]? = some t) (htabs : t.tabs = lockList th)
    (hb : ∀ x ∈ lockList th, x < st.root.length ∧ x < st.lockOwner.length)
    (hprog : th.prog = .userWrites :: rest)
    (hstrip : strip rest = code (lockList th) t.commit (afterWrites t.commit))
    (hcs : st.rootMu = some tid ↔ inCS .uw = true) (hl : Local st.root th t .uw)
    (st' : State) (th' : Thread) (h : mstep st tid th = some (st', th')) : StepOK s st st' tid th th' := by
  simp only [mstep, hprog, Option.some.injEq] at h
  obtain ⟨e1, e2, e3, e4, e5, e6, e7, e8, e9, e10, e11, e12, e13⟩ := doUserWrites_spec st { th with prog := rest }
  rw [h] at e1 e2 e3 e4 e5 e6 e7 e8 e9 e10 e11 e12 e13
  simp only at e1 e2 e3 e4 e5 e6 e7 e8 e9 e10 e11 e12 e13
  obtain ⟨hph, hold, hlk, hho⟩ := hl
  have hL : lockList th' = lockList th := by simp only [lockList, e8]
  have hdn : th'.done = false := by rw [e13]; exact hd
  have hholds : Holds (lockList th) th'.entries t.old 1 := by
    intro x hx
    obtain ⟨hx1, hx2⟩ := hho x hx
    refine ⟨by rw [e5]; exact hx1, ?_⟩
    rw [e6 x hx1, hlk, count_dedup_of_mem _ _ ((mem_lockList th x).1 hx), hx2]
  have hroot : ∀ i, i < st'.root.length → (getT st'.root i).cnt = s.root i := by
    intro i hi; rw [e1] at hi ⊢; exact hR.root i hi
  have hrootHi : ∀ i, st'.root.length ≤ i → s.root i = 0 := by
    intro i hi; rw [e1] at hi; exact hR.rootHi i hi
  have howner : ∀ i, st'.lockOwner.getD i none = s.owner i := by
    intro i; rw [e2]; exact hR.owner i
  have hb' : ∀ x ∈ lockList th', x < st'.root.length ∧ x < st'.lockOwner.length := by
    rw [hL, e1, e2]; exact hb
  have hcs' : st'.rootMu = some tid ↔ False := by rw [e3, hcs]; simp [inCS]
  refine ⟨?_, .quiet e1 e2, fun hd' => by simp [hdn] at hd'⟩
  cases hc : t.commit with
  | true =>
    rw [hc] at hstrip
    refine ⟨s, hs, rfl, ?_⟩
    refine R_update_same st st' s tid th th' t hR htid e4 ht hroot hrootHi howner (by rw [e2]) (by rw [e1]; exact Nat.le_refl _)
      (fun _ _ => by rw [e3]) (Or.inl e1) ?_
    refine ⟨by rw [hL]; exact htabs, hb', .aR, by rw [hL, e7, hc]; exact hstrip, by rw [hcs']; simp [inCS], ?_⟩
    exact ⟨hph, by rw [hL, e12]; exact hold, hc, by rw [e9, e8]; exact hlk, by rw [hL]; exact hholds⟩
  | false =>
    rw [hc] at hstrip
    have hrel0 : t.released = 0 := (Serial.inv_reachable s hs).rel0 tid t ht (Or.inl hph)
    refine ⟨_, .step _ _ hs (Serial.Step.abort s tid t ht hph hc),
      map_commit_setTxn _ _ _ _ ht rfl, ?_⟩
    refine R_update st st' s _ tid th th' t _ hR htid e4 ht rfl hroot hrootHi howner (by rw [e2])
      (by rw [e1]; exact Nat.le_refl _) (fun _ _ => by rw [e3]) (Or.inl e1) ?_
    refine ⟨by rw [hL]; exact htabs, hb', .rel 0, by rw [hL, e7]; simp only [hc]; exact hstrip,
      by rw [hcs']; simp [inCS], ?_⟩
    exact ⟨Nat.zero_le _, hrel0, by simp [hdn], fun hd' => by simp [hdn] at hd'⟩

/-! ### the root mutex -/

theorem sim_acquireRoot (st : State) (tid : Nat) (th : Thread) (s : Serial.State) (t : Txn) (rest : List Micro)
    (p' : Pos) (hs : Serial.Reachable s) (hR : R (install st tid th) s) (htid : tid < st.threads.length)
    (hd : th.done = false) (ht : s.txns[tid]? = some t) (htabs : t.tabs = lockList th)
    (hb : ∀ x ∈ lockList th, x < st.root.length ∧ x < st.lockOwner.length)
    (hprog : th.prog = .acquireRoot :: rest)
    (hstrip : strip rest = code (lockList th) t.commit p') (hp' : inCS p' = true)
    (hl' : Local st.root { th with prog := rest } t p')
    (st' : State) (th' : Thread) (h : mstep st tid th = some (st', th')) : StepOK s st st' tid th th' := by
  simp only [mstep, hprog] at h
  split at h
  · simp at h
  · rename_i hfree
    simp only [Option.some.injEq, Prod.mk.injEq] at h
    obtain ⟨rfl, rfl⟩ := h
    have hnone : st.rootMu = none := by
      cases hm : st.rootMu with
      | none => rfl
      | some v => rw [hm] at hfree; simp at hfree
    refine ⟨⟨s, hs, rfl, ?_⟩, .quiet rfl rfl, fun hd' => by simp [hd] at hd'⟩
    refine R_update_same st _ s tid th _ t hR htid rfl ht hR.root hR.rootHi hR.owner rfl (Nat.le_refl _)
      ?_ (Or.inl rfl) ?_
    · intro j hj
      show some tid = some j ↔ st.rootMu = some j
      rw [hnone]
      constructor
      · intro e; simp only [Option.some.injEq] at e; exact absurd e.symm hj
      · intro e; simp at e
    · exact ⟨htabs, hb, p', hstrip, by simp [hp'], hl'⟩

theorem sim_releaseRoot (st : State) (tid : Nat) (th : Thread) (s : Serial.State) (t : Txn) (rest : List Micro)
    (p p' : Pos) (hs : Serial.Reachable s) (hR : R (install st tid th) s) (htid : tid < st.threads.length)
    (hd : th.done = false) (ht : s.txns[tid]? = some t) (htabs : t.tabs = lockList th)
    (hb : ∀ x ∈ lockList th, x < st.root.length ∧ x < st.lockOwner.length)
    (hprog : th.prog = .releaseRoot :: rest)
    (hstrip : strip rest = code (lockList th) t.commit p')
    (hcs : st.rootMu = some tid ↔ inCS p = true) (hp : inCS p = true) (hp' : inCS p' = false)
    (hl' : Local st.root { th with prog := rest } t p')
    (st' : State) (th' : Thread) (h : mstep st tid th = some (st', th')) : StepOK s st st' tid th th' := by
  simp only [mstep, hprog, Option.some.injEq, Prod.mk.injEq] at h
  obtain ⟨rfl, rfl⟩ := h
  have hmu : st.rootMu = some tid := hcs.2 hp
  refine ⟨⟨s, hs, rfl, ?_⟩, .quiet rfl rfl, fun hd' => by simp [hd] at hd'⟩
  refine R_update_same st _ s tid th _ t hR htid rfl ht hR.root hR.rootHi hR.owner rfl (Nat.le_refl _)
    ?_ (Or.inl rfl) ?_
  · intro j hj
    show none = some j ↔ st.rootMu = some j
    rw [hmu]
    constructor
    · intro e; simp at e
    · intro e; simp only [Option.some.injEq] at e; exact absurd e.symm hj
  · exact ⟨htabs, hb, p', hstrip, by simp [hp'], hl'⟩

/-- `loadCurrentRoot` inside the critical section -/
theorem sim_loadCurrentRoot (st : State) (tid : Nat) (th : Thread) (s : Serial.State) (t : Txn) (rest : List Micro)
    (p p' : Pos) (hs : Serial.Reachable s) (hR : R (install st tid th) s) (htid : tid < st.threads.length)
    (hd : th.done = false) (ht : s.txns[tid]? = some t) (htabs : t.tabs = lockList th)
    (hb : ∀ x ∈ lockList th, x < st.root.length ∧ x < st.lockOwner.length)
    (hprog : th.prog = .act .loadCurrentRoot :: rest)
    (hstrip : strip rest = code (lockList th) t.commit p')
    (hcs : st.rootMu = some tid ↔ inCS p = true) (hpp : inCS p' = inCS p)
    (hl' : Local st.root { th with prog := rest, curRoot := st.root } t p')
    (st' : State) (th' : Thread) (h : mstep st tid th = some (st', th')) : StepOK s st st' tid th th' := by
  simp only [mstep, hprog, doAct, Option.some.injEq, Prod.mk.injEq] at h
  obtain ⟨rfl, rfl⟩ := h
  refine ⟨⟨s, hs, rfl, ?_⟩, .quiet rfl rfl, fun hd' => by simp [hd] at hd'⟩
  refine R_update_same st _ s tid th _ t hR htid rfl ht hR.root hR.rootHi hR.owner rfl (Nat.le_refl _)
    (fun _ _ => Iff.rfl) (Or.inl rfl) ?_
  exact ⟨htabs, hb, p', hstrip, by rw [hpp]; exact hcs, hl'⟩

/-! ### building the new root -/

theorem getT_map_range (n : Nat) (f : Nat → TableV) (x : Nat) (hx : x < n) :
    getT ((List.range n).map f) x = f x := by
  simp [getT, hx]

theorem getT_mapIdx (l : List TableV) (f : Nat → TableV → TableV) (x : Nat) (hx : x < l.length) :
    getT (l.mapIdx f) x = f x (getT l x) := by
  simp [getT, hx]

theorem getT_append_left (l : List TableV) (v : TableV) (x : Nat) (hx : x < l.length) :
    getT (l ++ [v]) x = getT l x := by
  simp [getT, List.getElem?_append_left hx]

theorem getT_append_length (l : List TableV) (v : TableV) : getT (l ++ [v]) l.length = v := by
  simp [getT]

theorem sim_mergeUnlocked (st : State) (tid : Nat) (th : Thread) (s : Serial.State) (t : Txn) (rest : List Micro)
    (hs : Serial.Reachable s) (hR : R (install st tid th) s) (htid : tid < st.threads.length)
    (hd : th.done = false) (ht : s.txns[tid]? = some t) (htabs : t.tabs = lockList th)
    (hb : ∀ x ∈ lockList th, x < st.root.length ∧ x < st.lockOwner.length)
    (hprog : th.prog = .act .mergeUnlocked :: rest)
    (hstrip : strip rest = code (lockList th) t.commit .ci)
    (hcs : st.rootMu = some tid ↔ inCS .mg = true) (hl : Local st.root th t .mg)
    (st' : State) (th' : Thread) (h : mstep st tid th = some (st', th')) : StepOK s st st' tid th th' := by
  simp only [mstep, hprog, doAct, Option.some.injEq, Prod.mk.injEq] at h
  obtain ⟨rfl, rfl⟩ := h
  obtain ⟨hph, hold, hc, hlk, hho, hcur⟩ := hl
  refine ⟨⟨s, hs, rfl, ?_⟩, .quiet rfl rfl, fun hd' => by simp [hd] at hd'⟩
  refine R_update_same st _ s tid th _ t hR htid rfl ht hR.root hR.rootHi hR.owner rfl (Nat.le_refl _)
    (fun _ _ => Iff.rfl) (Or.inl rfl) ?_
  refine ⟨htabs, hb, .ci, hstrip, hcs, hph, hold, hc, hlk, by simp [hcur], ?_⟩
  intro x hx
  show (x ∈ lockList th → (getT ((List.range th.curRoot.length).map _) x).cnt = _) ∧
    (x ∉ lockList th → getT ((List.range th.curRoot.length).map _) x = _)
  rw [getT_map_range _ _ x (by rw [hcur]; exact hx)]
  constructor
  · intro hxl
    obtain ⟨h1, h2⟩ := hho x hxl
    have hmem : th.locked.contains x = true := by
      rw [hlk]; simp only [List.contains_iff_mem]; exact (mem_dedup x _).2 ((mem_lockList th x).1 hxl)
    simp only [hmem, h1, and_self, if_true]; exact h2
  · intro hxl
    have hmem : x ∉ th.locked := by
      rw [hlk]
      intro hm; exact hxl ((mem_lockList th x).2 ((mem_dedup x _).1 hm))
    simp [hmem, hcur]

theorem sim_collectInit (st : State) (tid : Nat) (th : Thread) (s : Serial.State) (t : Txn) (rest : List Micro)
    (hs : Serial.Reachable s) (hR : R (install st tid th) s) (htid : tid < st.threads.length)
    (hd : th.done = false) (ht : s.txns[tid]? = some t) (htabs : t.tabs = lockList th)
    (hb : ∀ x ∈ lockList th, x < st.root.length ∧ x < st.lockOwner.length)
    (hprog : th.prog = .act .collectInit :: rest)
    (hstrip : strip rest = code (lockList th) t.commit .sr)
    (hcs : st.rootMu = some tid ↔ inCS .ci = true) (hl : Local st.root th t .ci)
    (st' : State) (th' : Thread) (h : mstep st tid th = some (st', th')) : StepOK s st st' tid th th' := by
  simp only [mstep, hprog, doAct, Option.some.injEq, Prod.mk.injEq] at h
  obtain ⟨rfl, rfl⟩ := h
  obtain ⟨hph, hold, hc, hlk, hlen, hnr⟩ := hl
  refine ⟨⟨s, hs, rfl, ?_⟩, .quiet rfl rfl, fun hd' => by simp [hd] at hd'⟩
  refine R_update_same st _ s tid th _ t hR htid rfl ht hR.root hR.rootHi hR.owner rfl (Nat.le_refl _)
    (fun _ _ => Iff.rfl) (Or.inl rfl) ?_
  refine ⟨htabs, hb, .sr, hstrip, hcs, hph, hold, hc, hlk, by simp [hlen], ?_⟩
  intro x hx
  show (x ∈ lockList th → (getT (th.newRoot.mapIdx _) x).cnt = _) ∧
    (x ∉ lockList th → getT (th.newRoot.mapIdx _) x = _)
  rw [getT_mapIdx _ _ x (by rw [hlen]; exact hx)]
  obtain ⟨g1, g2⟩ := hnr x hx
  constructor
  · intro hxl
    split
    · exact g1 hxl
    · exact g1 hxl
  · intro hxl
    have hmem : x ∉ th.locked := by
      rw [hlk]
      intro hm; exact hxl ((mem_lockList th x).2 ((mem_dedup x _).1 hm))
    simp [hmem, g2 hxl]

theorem sim_storeRoot (st : State) (tid : Nat) (th : Thread) (s : Serial.State) (t : Txn) (rest : List Micro)
    (hs : Serial.Reachable s) (hR : R (install st tid th) s) (htid : tid < st.threads.length)
    (hd : th.done = false) (ht : s.txns[tid]? = some t) (htabs : t.tabs = lockList th)
    (hb : ∀ x ∈ lockList th, x < st.root.length ∧ x < st.lockOwner.length)
    (hprog : th.prog = .act .storeRoot :: rest)
    (hstrip : strip rest = code (lockList th) t.commit .rR)
    (hcs : st.rootMu = some tid ↔ inCS .sr = true) (hl : Local st.root th t .sr)
    (st' : State) (th' : Thread) (h : mstep st tid th = some (st', th')) : StepOK s st st' tid th th' := by
  simp only [mstep, hprog, doAct, Option.some.injEq, Prod.mk.injEq] at h
  obtain ⟨rfl, rfl⟩ := h
  obtain ⟨hph, hold, hc, hlk, hlen, hnr⟩ := hl
  have inv := Serial.inv_reachable s hs
  have hrel0 : t.released = 0 := inv.rel0 tid t ht (Or.inl hph)
  have hmu : st.rootMu = some tid := hcs.2 rfl
  refine ⟨⟨_, .step _ _ hs (Serial.Step.store s tid t ht hph hc),
      map_commit_setTxn _ _ _ _ ht rfl, ?_⟩, ?_, fun hd' => by simp [hd] at hd'⟩
  · refine R_update st _ s _ tid th _ t _ hR htid rfl ht rfl ?_ ?_ hR.owner rfl (by simp [hlen])
      (fun _ _ => Iff.rfl) (Or.inr hmu) ?_
    · intro i hi
      show (getT th.newRoot i).cnt = if i ∈ t.tabs then t.old i + 1 else s.root i
      have hi' : i < st.root.length := by rw [← hlen]; exact hi
      obtain ⟨g1, g2⟩ := hnr i hi'
      rw [htabs]
      by_cases hil : i ∈ lockList th
      · rw [if_pos hil]; exact g1 hil
      · rw [if_neg hil, g2 hil]; exact hR.root i hi'
    · intro i hi
      show (if i ∈ t.tabs then t.old i + 1 else s.root i) = 0
      have hi' : st.root.length ≤ i := by rw [← hlen]; exact hi
      have hil : i ∉ t.tabs := by
        rw [htabs]; intro hm; have := (hb i hm).1; omega
      rw [if_neg hil]; exact hR.rootHi i hi'
    · refine ⟨htabs, ?_, .rR, hstrip, hcs, rfl, hrel0, hc⟩
      intro x hx
      exact ⟨by show x < th.newRoot.length; rw [hlen]; exact (hb x hx).1, (hb x hx).2⟩
  · refine .commit rfl hlen (by rw [hprog]; simp) ?_ ?_
    · show Micro.act Act.storeRoot ∉ rest
      rw [← mem_strip _ _ (by rfl), hstrip]
      simp [code]
    · intro x hx
      obtain ⟨g1, g2⟩ := hnr x hx
      constructor
      · intro hxt
        have hxl : x ∈ lockList th := (mem_lockList th x).2 hxt
        have hheld : x ∈ Serial.held t := by simp only [Serial.held, hph]; rw [htabs]; exact hxl
        have ho := inv.heldOwner tid t x ht hheld
        have hsee := inv.sees tid t ht hph x (by rw [htabs]; exact hxl)
        refine ⟨by rw [← ho]; exact hR.owner x, ?_⟩
        show (getT th.newRoot x).cnt = (getT st.root x).cnt + 1
        rw [g1 hxl, hsee]
        have := hR.root x hx
        simp only [install] at this
        rw [this]
      · intro hxt
        exact g2 (fun hm => hxt ((mem_lockList th x).1 hm))

/-! ### registerTable -/

theorem sim_appendTable (st : State) (tid : Nat) (th : Thread) (s : Serial.State) (t : Txn) (rest : List Micro)
    (hs : Serial.Reachable s) (hR : R (install st tid th) s) (htid : tid < st.threads.length)
    (hd : th.done = false) (ht : s.txns[tid]? = some t) (htabs : t.tabs = lockList th)
    (hb : ∀ x ∈ lockList th, x < st.root.length ∧ x < st.lockOwner.length)
    (hprog : th.prog = .act .appendTable :: rest)
    (hstrip : strip rest = code (lockList th) t.commit .gS)
    (hcs : st.rootMu = some tid ↔ inCS .gP = true) (hl : Local st.root th t .gP)
    (st' : State) (th' : Thread) (h : mstep st tid th = some (st', th')) : StepOK s st st' tid th th' := by
  simp only [mstep, hprog, doAct, Option.some.injEq, Prod.mk.injEq] at h
  obtain ⟨rfl, rfl⟩ := h
  obtain ⟨htb, hph, hcur⟩ := hl
  refine ⟨⟨s, hs, rfl, ?_⟩, .quiet rfl rfl, fun hd' => by simp [hd] at hd'⟩
  refine R_update_same st _ s tid th _ t hR htid rfl ht hR.root hR.rootHi hR.owner rfl (Nat.le_refl _)
    (fun _ _ => Iff.rfl) (Or.inl rfl) ?_
  exact ⟨htabs, hb, .gS, hstrip, hcs, htb, hph, { watch := st.nextChan }, by simp only [hcur], rfl⟩

theorem sim_storeRootReg (st : State) (tid : Nat) (th : Thread) (s : Serial.State) (t : Txn) (rest : List Micro)
    (hs : Serial.Reachable s) (hR : R (install st tid th) s) (htid : tid < st.threads.length)
    (hd : th.done = false) (ht : s.txns[tid]? = some t) (htabs : t.tabs = lockList th)
    (hb : ∀ x ∈ lockList th, x < st.root.length ∧ x < st.lockOwner.length)
    (hprog : th.prog = .act .storeRoot :: rest)
    (hstrip : strip rest = code (lockList th) t.commit .gR)
    (hcs : st.rootMu = some tid ↔ inCS .gS = true) (hl : Local st.root th t .gS)
    (st' : State) (th' : Thread) (h : mstep st tid th = some (st', th')) : StepOK s st st' tid th th' := by
  simp only [mstep, hprog, doAct, Option.some.injEq, Prod.mk.injEq] at h
  obtain ⟨rfl, rfl⟩ := h
  obtain ⟨htb, hph, v, hnew, hv⟩ := hl
  have hmu : st.rootMu = some tid := hcs.2 rfl
  have hnot : Micro.act Act.storeRoot ∉ rest := by
    rw [← mem_strip _ _ (by rfl), hstrip]
    simp [code]
  refine ⟨⟨s, hs, rfl, ?_⟩, .register rfl htb (by rw [hprog]; simp) hnot ⟨v, hnew, hv⟩,
    fun hd' => by simp [hd] at hd'⟩
  refine R_update_same st _ s tid th _ t hR htid rfl ht ?_ ?_ hR.owner rfl (by simp [hnew])
    (fun _ _ => Iff.rfl) (Or.inr hmu) ?_
  · intro i hi
    show (getT th.newRoot i).cnt = s.root i
    rw [hnew] at hi ⊢
    simp only [List.length_append, List.length_singleton] at hi
    by_cases hil : i < st.root.length
    · rw [getT_append_left _ _ _ hil]; exact hR.root i hil
    · have : i = st.root.length := by omega
      subst this
      rw [getT_append_length, hv]; exact (hR.rootHi _ (Nat.le_refl _)).symm
  · intro i hi
    have : st.root.length ≤ i := by
      have : th.newRoot.length ≤ i := hi
      rw [hnew] at this; simp at this; omega
    exact hR.rootHi i this
  · refine ⟨htabs, ?_, .gR, hstrip, hcs, htb, hph⟩
    intro x hx
    refine ⟨?_, (hb x hx).2⟩
    show x < th.newRoot.length
    rw [hnew]; simp; have := (hb x hx).1; omega

/-! ### the unlock loop and the end of the program -/

theorem sim_release (st : State) (tid : Nat) (th : Thread) (s : Serial.State) (t : Txn) (rest : List Micro)
    (k tb : Nat) (hs : Serial.Reachable s) (hR : R (install st tid th) s) (htid : tid < st.threads.length)
    (hd : th.done = false) (ht : s.txns[tid]? = some t) (htabs : t.tabs = lockList th)
    (hb : ∀ x ∈ lockList th, x < st.root.length ∧ x < st.lockOwner.length)
    (hprog : th.prog = .release tb :: rest) (hk : (lockList th)[k]? = some tb)
    (hstrip : strip rest = code (lockList th) t.commit (.rel (k + 1)))
    (hcs : st.rootMu = some tid ↔ inCS (.rel k) = true) (hl : Local st.root th t (.rel k))
    (st' : State) (th' : Thread) (h : mstep st tid th = some (st', th')) : StepOK s st st' tid th th' := by
  simp only [mstep, hprog, Option.some.injEq, Prod.mk.injEq] at h
  obtain ⟨rfl, rfl⟩ := h
  obtain ⟨hkl, hrel, hph, _⟩ := hl
  rw [hd] at hph
  simp only [Bool.false_eq_true, if_false] at hph
  have inv := Serial.inv_reachable s hs
  have hk' : t.tabs[t.released]? = some tb := by rw [htabs, hrel]; exact hk
  have hheld : tb ∈ Serial.held t := by
    simp only [Serial.held, hph]; rw [Serial.mem_drop_iff _ _ _ hk']; left; rfl
  have ho : s.owner tb = some tid := inv.heldOwner tid t tb ht hheld
  have hklt : k < (lockList th).length := lt_of_getElem?_some _ _ _ hk
  have htbl : tb < st.lockOwner.length := (hb tb (List.mem_of_getElem? hk)).2
  refine ⟨⟨_, .step _ _ hs (Serial.Step.release s tid t tb ht hph hk'),
      map_commit_setTxn _ _ _ _ ht rfl, ?_⟩,
    .release tb rfl (by rw [← ho]; exact hR.owner tb) rfl, fun hd' => by simp [hd] at hd'⟩
  refine R_update st _ s _ tid th _ t _ hR htid rfl ht rfl hR.root hR.rootHi ?_ (by simp) (Nat.le_refl _)
    (fun _ _ => Iff.rfl) (Or.inl rfl) ?_
  · intro i
    show (st.lockOwner.set tb none).getD i none = if i = tb then none else s.owner i
    rw [getD_set_opt]
    by_cases hi : i = tb
    · simp [hi, htbl]
    · simp only [hi, false_and, if_false]; exact hR.owner i
  · refine ⟨htabs, ?_, .rel (k + 1), hstrip, hcs, hklt, by show t.released + 1 = k + 1; rw [hrel], ?_⟩
    · intro x hx
      exact ⟨(hb x hx).1, by simpa using (hb x hx).2⟩
    · refine ⟨?_, fun hd' => by simp [hd] at hd'⟩
      show t.phase = if th.done = true then Phase.done else Phase.stored
      rw [hd]; simp [hph]

/-- the end of a writer's program: `done` is set, the transaction finishes -/
theorem sim_finish (st : State) (tid : Nat) (th : Thread) (s : Serial.State) (t : Txn)
    (k : Nat) (hs : Serial.Reachable s) (hR : R (install st tid th) s) (htid : tid < st.threads.length)
    (hd : th.done = false) (ht : s.txns[tid]? = some t) (htabs : t.tabs = lockList th)
    (hb : ∀ x ∈ lockList th, x < st.root.length ∧ x < st.lockOwner.length)
    (hprog : th.prog = []) (hk : (lockList th)[k]? = none)
    (hcs : st.rootMu = some tid ↔ inCS (.rel k) = true) (hl : Local st.root th t (.rel k))
    (st' : State) (th' : Thread) (h : mstep st tid th = some (st', th')) : StepOK s st st' tid th th' := by
  simp only [mstep, hprog, hd, Bool.false_eq_true, if_false, Option.some.injEq, Prod.mk.injEq] at h
  obtain ⟨rfl, rfl⟩ := h
  obtain ⟨hkl, hrel, hph, _⟩ := hl
  rw [hd] at hph
  simp only [Bool.false_eq_true, if_false] at hph
  have hke : t.released = t.tabs.length := by
    rw [List.getElem?_eq_none_iff] at hk
    rw [htabs, hrel]; omega
  refine ⟨⟨_, .step _ _ hs (Serial.Step.finish s tid t ht hph hke),
      map_commit_setTxn _ _ _ _ ht rfl, ?_⟩, .quiet rfl rfl, fun _ => rfl⟩
  refine R_update st _ s _ tid th _ t _ hR htid rfl ht rfl hR.root hR.rootHi hR.owner rfl (Nat.le_refl _)
    (fun _ _ => Iff.rfl) (Or.inl rfl) ?_
  refine ⟨htabs, hb, .rel k, ?_, hcs, hkl, hrel, rfl, fun _ => rfl⟩
  rw [code_next]
  simp only [next]
  rw [show (lockList { th with prog := [], done := true })[k]? = none from hk]
  rfl

/-- the end of a registration thread's program -/
theorem sim_finishReg (st : State) (tid : Nat) (th : Thread) (s : Serial.State) (t : Txn)
    (hs : Serial.Reachable s) (hR : R (install st tid th) s) (htid : tid < st.threads.length)
    (hd : th.done = false) (ht : s.txns[tid]? = some t) (htabs : t.tabs = lockList th)
    (hb : ∀ x ∈ lockList th, x < st.root.length ∧ x < st.lockOwner.length)
    (hprog : th.prog = [])
    (hcs : st.rootMu = some tid ↔ inCS .gE = true) (hl : Local st.root th t .gE)
    (st' : State) (th' : Thread) (h : mstep st tid th = some (st', th')) : StepOK s st st' tid th th' := by
  simp only [mstep, hprog, hd, Bool.false_eq_true, if_false, Option.some.injEq, Prod.mk.injEq] at h
  obtain ⟨rfl, rfl⟩ := h
  refine ⟨⟨s, hs, rfl, ?_⟩, .quiet rfl rfl, fun _ => rfl⟩
  refine R_update_same st _ s tid th _ t hR htid rfl ht hR.root hR.rootHi hR.owner rfl (Nat.le_refl _)
    (fun _ _ => Iff.rfl) (Or.inl rfl) ?_
  refine ⟨htabs, hb, .gE, ?_, hcs, hl⟩
  rfl

/-! ### micro steps without an effect on the abstraction -/

theorem doAct_irrelevant (st : State) (th : Thread) (a : Act) (h : relevantAct a = false) :
    (doAct st th a).1.root = st.root ∧ (doAct st th a).1.lockOwner = st.lockOwner ∧
    (doAct st th a).1.rootMu = st.rootMu ∧ (doAct st th a).1.threads = st.threads ∧
    (doAct st th a).2.prog = th.prog ∧ (doAct st th a).2.tables = th.tables ∧
    (doAct st th a).2.done = th.done ∧ (doAct st th a).2.locked = th.locked ∧
    (doAct st th a).2.oldRoot = th.oldRoot ∧ (doAct st th a).2.entries = th.entries ∧
    (doAct st th a).2.curRoot = th.curRoot ∧ (doAct st th a).2.newRoot = th.newRoot := by
  cases a <;> first | (simp [relevantAct] at h; done) | exact ⟨rfl, rfl, rfl, rfl, rfl, rfl, rfl, rfl, rfl, rfl, rfl, rfl⟩

theorem sim_irrelevant (st : State) (tid : Nat) (th : Thread) (s : Serial.State) (t : Txn) (m : Micro)
    (rest : List Micro) (hs : Serial.Reachable s) (hR : R (install st tid th) s) (htid : tid < st.threads.length)
    (hd : th.done = false) (ht : s.txns[tid]? = some t)
    (hT : TRel st.root st.rootMu st.lockOwner.length tid th t)
    (hprog : th.prog = m :: rest) (hm : relevant m = false)
    (st' : State) (th' : Thread) (h : mstep st tid th = some (st', th')) : StepOK s st st' tid th th' := by
  have key : st'.root = st.root ∧ st'.lockOwner = st.lockOwner ∧ st'.rootMu = st.rootMu ∧
      st'.threads = st.threads ∧ th'.prog = rest ∧ th'.tables = th.tables ∧ th'.done = th.done ∧
      th'.locked = th.locked ∧ th'.oldRoot = th.oldRoot ∧ th'.entries = th.entries ∧
      th'.curRoot = th.curRoot ∧ th'.newRoot = th.newRoot := by
    cases m with
    | park l =>
      simp only [mstep, hprog, Option.some.injEq, Prod.mk.injEq] at h
      obtain ⟨rfl, rfl⟩ := h
      exact ⟨rfl, rfl, rfl, rfl, rfl, rfl, rfl, rfl, rfl, rfl, rfl, rfl⟩
    | act a =>
      simp only [mstep, hprog, Option.some.injEq] at h
      have := doAct_irrelevant st { th with prog := rest } a hm
      rw [h] at this
      exact this
    | acquire _ => simp [relevant] at hm
    | release _ => simp [relevant] at hm
    | acquireRoot => simp [relevant] at hm
    | releaseRoot => simp [relevant] at hm
    | userWrites => simp [relevant] at hm
  obtain ⟨e1, e2, e3, e4, e5, e6, e7, e8, e9, e10, e11, e12⟩ := key
  have hstrip : strip th'.prog = strip th.prog := by
    rw [e5, hprog, strip_cons, hm]; simp
  have hT' := TRel_congr _ _ _ _ th th' t hT hstrip e6 e7 e8 e9 e10 e11 e12 (fun hn => by rw [hprog] at hn; simp at hn)
  refine ⟨⟨s, hs, rfl, ?_⟩, .quiet e1 e2, fun hd' => by rw [e7, hd] at hd'; simp at hd'⟩
  refine R_update_same st st' s tid th th' t hR htid e4 ht ?_ ?_ ?_ (by rw [e2]) (by rw [e1]; exact Nat.le_refl _)
    (fun _ _ => by rw [e3]) (Or.inl e1) (by rw [e1, e2, e3]; exact hT')
  · intro i hi; rw [e1] at hi ⊢; exact hR.root i hi
  · intro i hi; rw [e1] at hi; exact hR.rootHi i hi
  · intro i; rw [e2]; exact hR.owner i

/-! ### every micro step -/

/-- **simulation of one micro step**: from related states, a micro step of thread
    `tid` (not finished) leads to related states, `Model.Serial` taking zero or
    one step; its effect on root and mutexes is one of the five `Effect`s -/
theorem mstep_sim (st : State) (tid : Nat) (th : Thread) (s : Serial.State) (st' : State) (th' : Thread)
    (hs : Serial.Reachable s) (hR : R (install st tid th) s) (htid : tid < st.threads.length)
    (hd : th.done = false) (h : mstep st tid th = some (st', th')) : StepOK s st st' tid th th' := by
  obtain ⟨t, ht, hT⟩ := R_own st s tid th hR htid
  obtain ⟨htabs, hb, p, hp, hcs, hl⟩ := hT
  cases hprog : th.prog with
  | nil =>
    rw [hprog] at hp
    have hn := nil_code _ _ _ (show [] = code _ _ _ from hp)
    cases p with
    | rel k =>
      simp only [next] at hn
      cases hk : (lockList th)[k]? with
      | some tb => rw [hk] at hn; simp at hn
      | none => exact sim_finish st tid th s t k hs hR htid hd ht htabs hb hprog hk hcs hl st' th' h
    | gE => exact sim_finishReg st tid th s t hs hR htid hd ht htabs hb hprog hcs hl st' th' h
    | acq k =>
      simp only [next] at hn
      cases hk : (lockList th)[k]? with
      | some tb => rw [hk] at hn; simp at hn
      | none => rw [hk] at hn; simp at hn
    | _ => simp [next] at hn
  | cons m rest =>
    rw [hprog] at hp
    rcases pop_code _ _ p m rest hp with ⟨hm, _⟩ | ⟨hm, p', hn, hstrip⟩
    · exact sim_irrelevant st tid th s t m rest hs hR htid hd ht ⟨htabs, hb, p, by rw [hprog]; exact hp, hcs, hl⟩
        hprog hm st' th' h
    · cases p with
      | acq k =>
        simp only [next] at hn
        cases hk : (lockList th)[k]? with
        | some tb =>
          rw [hk] at hn
          simp only [Option.some.injEq, Prod.mk.injEq] at hn
          obtain ⟨rfl, rfl⟩ := hn
          exact sim_acquire st tid th s t rest k tb hs hR htid hd ht htabs hb hprog hk hstrip hcs hl st' th' h
        | none =>
          rw [hk] at hn
          simp only [Option.some.injEq, Prod.mk.injEq] at hn
          obtain ⟨rfl, rfl⟩ := hn
          exact sim_loadRoot st tid th s t rest k hs hR htid hd ht htabs hb hprog hk hstrip hcs hl st' th' h
      | clR =>
        simp only [next, Option.some.injEq, Prod.mk.injEq] at hn
        obtain ⟨rfl, rfl⟩ := hn
        exact sim_cloneRoot st tid th s t rest hs hR htid hd ht htabs hb hprog hstrip hcs hl st' th' h
      | clE =>
        simp only [next, Option.some.injEq, Prod.mk.injEq] at hn
        obtain ⟨rfl, rfl⟩ := hn
        exact sim_cloneEntries st tid th s t rest hs hR htid hd ht htabs hb hprog hstrip hcs hl st' th' h
      | uw =>
        simp only [next, Option.some.injEq, Prod.mk.injEq] at hn
        obtain ⟨rfl, rfl⟩ := hn
        exact sim_userWrites st tid th s t rest hs hR htid hd ht htabs hb hprog hstrip hcs hl st' th' h
      | aR =>
        simp only [next, Option.some.injEq, Prod.mk.injEq] at hn
        obtain ⟨rfl, rfl⟩ := hn
        exact sim_acquireRoot st tid th s t rest .lc hs hR htid hd ht htabs hb hprog hstrip rfl hl st' th' h
      | lc =>
        simp only [next, Option.some.injEq, Prod.mk.injEq] at hn
        obtain ⟨rfl, rfl⟩ := hn
        exact sim_loadCurrentRoot st tid th s t rest .lc .mg hs hR htid hd ht htabs hb hprog hstrip hcs rfl
          ⟨hl.1, hl.2.1, hl.2.2.1, hl.2.2.2.1, hl.2.2.2.2, rfl⟩ st' th' h
      | mg =>
        simp only [next, Option.some.injEq, Prod.mk.injEq] at hn
        obtain ⟨rfl, rfl⟩ := hn
        exact sim_mergeUnlocked st tid th s t rest hs hR htid hd ht htabs hb hprog hstrip hcs hl st' th' h
      | ci =>
        simp only [next, Option.some.injEq, Prod.mk.injEq] at hn
        obtain ⟨rfl, rfl⟩ := hn
        exact sim_collectInit st tid th s t rest hs hR htid hd ht htabs hb hprog hstrip hcs hl st' th' h
      | sr =>
        simp only [next, Option.some.injEq, Prod.mk.injEq] at hn
        obtain ⟨rfl, rfl⟩ := hn
        exact sim_storeRoot st tid th s t rest hs hR htid hd ht htabs hb hprog hstrip hcs hl st' th' h
      | rR =>
        simp only [next, Option.some.injEq, Prod.mk.injEq] at hn
        obtain ⟨rfl, rfl⟩ := hn
        refine sim_releaseRoot st tid th s t rest .rR (.rel 0) hs hR htid hd ht htabs hb hprog hstrip hcs rfl rfl
          ⟨Nat.zero_le _, hl.2.1, ?_, fun hd' => by simp [hd] at hd'⟩ st' th' h
        show t.phase = if th.done = true then Phase.done else Phase.stored
        rw [hd]; simp [hl.1]
      | rel k =>
        simp only [next] at hn
        cases hk : (lockList th)[k]? with
        | some tb =>
          rw [hk] at hn
          simp only [Option.some.injEq, Prod.mk.injEq] at hn
          obtain ⟨rfl, rfl⟩ := hn
          exact sim_release st tid th s t rest k tb hs hR htid hd ht htabs hb hprog hk hstrip hcs hl st' th' h
        | none => rw [hk] at hn; simp at hn
      | gA =>
        simp only [next, Option.some.injEq, Prod.mk.injEq] at hn
        obtain ⟨rfl, rfl⟩ := hn
        exact sim_acquireRoot st tid th s t rest .gL hs hR htid hd ht htabs hb hprog hstrip rfl hl st' th' h
      | gL =>
        simp only [next, Option.some.injEq, Prod.mk.injEq] at hn
        obtain ⟨rfl, rfl⟩ := hn
        exact sim_loadCurrentRoot st tid th s t rest .gL .gP hs hR htid hd ht htabs hb hprog hstrip hcs rfl
          ⟨hl.1, hl.2, rfl⟩ st' th' h
      | gP =>
        simp only [next, Option.some.injEq, Prod.mk.injEq] at hn
        obtain ⟨rfl, rfl⟩ := hn
        exact sim_appendTable st tid th s t rest hs hR htid hd ht htabs hb hprog hstrip hcs hl st' th' h
      | gS =>
        simp only [next, Option.some.injEq, Prod.mk.injEq] at hn
        obtain ⟨rfl, rfl⟩ := hn
        exact sim_storeRootReg st tid th s t rest hs hR htid hd ht htabs hb hprog hstrip hcs hl st' th' h
      | gR =>
        simp only [next, Option.some.injEq, Prod.mk.injEq] at hn
        obtain ⟨rfl, rfl⟩ := hn
        exact sim_releaseRoot st tid th s t rest .gR .gE hs hR htid hd ht htabs hb hprog hstrip hcs rfl rfl
          hl st' th' h
      | gE => simp [next] at hn
      | dA =>
        simp only [next, Option.some.injEq, Prod.mk.injEq] at hn
        obtain ⟨rfl, rfl⟩ := hn
        exact sim_acquireRoot st tid th s t rest .dL hs hR htid hd ht htabs hb hprog hstrip rfl hl st' th' h
      | dL =>
        simp only [next, Option.some.injEq, Prod.mk.injEq] at hn
        obtain ⟨rfl, rfl⟩ := hn
        exact sim_loadCurrentRoot st tid th s t rest .dL .dR hs hR htid hd ht htabs hb hprog hstrip hcs rfl
          hl st' th' h
      | dR =>
        simp only [next, Option.some.injEq, Prod.mk.injEq] at hn
        obtain ⟨rfl, rfl⟩ := hn
        exact sim_releaseRoot st tid th s t rest .dR .gE hs hR htid hd ht htabs hb hprog hstrip hcs rfl rfl
          hl st' th' h

end Sdb.Conc
