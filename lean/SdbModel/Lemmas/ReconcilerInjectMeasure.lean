import SdbModel.Lemmas.ReconcilerInjectTimer

/-!
  Lemmas.ReconcilerInjectMeasure — once nothing fails and nothing is queued to
  land during Updates any more, every triggered round strictly decreases the
  measure `Mz` of `Lemmas.ReconcilerMeasure`, from ANY state satisfying the
  weaker invariant `JRInv` (retry items outside the time queue may be left over
  from writes that landed during earlier Updates); so the loop goes idle, and an
  idle state satisfies the invariant `RInv` of the runs without such writes.
-/
namespace Sdb.Rec

/-- one iteration of `commitStatus` (success) -/
theorem m1_commitOneJ {r : R} {res : Res} {rs : List Res} (hI : JInv r (res :: rs)) (hfl : res.2.2.2.2 = false) (k : Nat) :
    M1 (r.commitOne res) k ≤ M1 r (k + 1) := by
  obtain ⟨obj, orig, rev, sid, failed⟩ := res
  simp only at hfl
  subst hfl
  unfold R.commitOne
  simp only
  split
  · unfold M1; omega
  · rename_i cur hg
    rw [get_eq_some_iff hI.tinv] at hg
    split
    · simp only [Bool.false_eq_true, if_false]
      exact m1_commit_core hI.tinv { obj with kind := .done, sid := r.nextSid } cur hg.1 hg.2 (by simp [needs]) rfl rfl rfl rfl rfl k
    · split
      · simp only [Bool.false_eq_true, if_false]
        exact m1_commit_core hI.tinv { cur with kind := .done, sid := r.nextSid } cur hg.1 rfl (by simp [needs]) rfl rfl rfl rfl rfl k
      · unfold M1; omega

theorem m1_foldl_commitOneJ (rs : List Res) {r : R} (hI : JInv r rs) (hfl : ∀ res ∈ rs, res.2.2.2.2 = false) :
    M1 (rs.foldl R.commitOne r) 0 ≤ M1 r rs.length := by
  induction rs generalizing r with
  | nil => exact Nat.le_refl _
  | cons x xs ih =>
    have h1 := ih hI.commitOne (fun res hres => hfl res (List.mem_cons_of_mem _ hres))
    have h2 := m1_commitOneJ hI (hfl x (List.mem_cons_self ..)) xs.length
    simp only [List.foldl_cons, List.length_cons]
    omega

theorem m1_commitStatusJ {r : R} (hI : JInv r r.results) (hfl : ∀ res ∈ r.results, res.2.2.2.2 = false) :
    M1r r.commitStatus ≤ M1r r := by
  have := m1_foldl_commitOneJ r.results hI hfl
  unfold M1r
  exact this

theorem consume_upd_facts {r : R} (hinj : r.injects = []) (c : Change) :
    let r' := (R.retryClear { r with itRev := c.rev } c.obj.id).processSingle c.obj c.rev false
    r'.objs = r.objs ∧ r'.dels = r.dels ∧ r'.itRev = c.rev ∧ r'.itDelRev = r.itDelRev ∧
    r'.results = r.results ++ [(c.obj, c.obj, c.rev, c.obj.sid, r.isFailing c.obj.id)] ∧
    r'.failing = r.failing ∧ r'.injects = [] ∧ r'.cfg = r.cfg ∧ r'.numReconciled = r.numReconciled := by
  intro r'
  have hinj' : (R.retryClear { r with itRev := c.rev } c.obj.id).injects = [] := by rw [retryClear_injects]; exact hinj
  have hr' : r' = (R.retryClear { r with itRev := c.rev } c.obj.id).processSingle c.obj c.rev false := rfl
  rw [processSingle_update hinj'] at hr'
  have hfail : (R.retryClear { r with itRev := c.rev } c.obj.id).isFailing c.obj.id = r.isFailing c.obj.id := by
    unfold R.isFailing; rw [retryClear_failing]
  rw [hfail] at hr'
  rw [hr']
  cases r.isFailing c.obj.id
  · simp [hinj]
  · simp [hinj]

theorem consume_del_facts (r : R) (c : Change) :
    let r' := (R.retryClear { r with itDelRev := c.rev } c.obj.id).processSingle c.obj c.rev true
    r'.objs = r.objs ∧ r'.dels = r.dels ∧ r'.itRev = r.itRev ∧ r'.itDelRev = c.rev ∧
    r'.results = r.results ∧
    r'.failing = r.failing ∧ r'.injects = r.injects ∧ r'.cfg = r.cfg ∧ r'.numReconciled = r.numReconciled := by
  intro r'
  have hr' : r' = (R.retryClear { r with itDelRev := c.rev } c.obj.id).processSingle c.obj c.rev true := rfl
  rw [processSingle_delete] at hr'
  rw [hr']
  split <;> simp

/-- the loop over the (exact) change stream never increases the measure and decreases it when there is a change -/
theorem m1_consumeJ (cs : List Change) {r : R} (last : Nat) (hch : ChOK r r.results cs)
    (hf : r.failing = []) (hinj : r.injects = []) (hfl : ∀ res ∈ r.results, res.2.2.2.2 = false) :
    M1r (r.consume cs last).1 ≤ M1r r ∧ (cs ≠ [] → M1r (r.consume cs last).1 + 1 ≤ M1r r) ∧
    (∀ res ∈ (r.consume cs last).1.results, res.2.2.2.2 = false) := by
  induction cs generalizing r last with
  | nil => rw [consume_nil]; exact ⟨Nat.le_refl _, fun e => absurd rfl e, hfl⟩
  | cons c cs ih =>
    unfold R.consume
    simp only
    split
    · -- skipped
      rename_i hskip
      have hc : c.deleted = false := by simpa using hskip.1
      have hnn : ¬ needs c.obj.kind := by simpa [needs] using hskip.2
      simp only [hc, Bool.false_eq_true, if_false]
      obtain ⟨ho, hrev, hgt⟩ := hch.upd c (List.mem_cons_self ..) hc
      have hch' : ChOK { r with itRev := c.rev } r.results cs :=
        hch.tail_upd hc rfl rfl rfl rfl (fun res hres => Or.inl hres)
      obtain ⟨a, _, c'⟩ := ih c.rev (r := { r with itRev := c.rev }) hch' hf hinj hfl
      have hm := m1_skip (r := r) c ho hnn hrev hgt
      exact ⟨by omega, fun _ => by omega, c'⟩
    · rename_i hproc
      have hstep : ∃ r1, r1 = ((if c.deleted = true then { r with itDelRev := c.rev } else { r with itRev := c.rev } : R).retryClear c.obj.id).processSingle c.obj c.rev c.deleted ∧
          ChOK r1 r1.results cs ∧ r1.failing = [] ∧ r1.injects = [] ∧ (∀ res ∈ r1.results, res.2.2.2.2 = false) ∧
          M1r r1 + 1 ≤ M1r r := by
        refine ⟨_, rfl, ?_⟩
        cases hc : c.deleted with
        | true =>
          simp only [if_true]
          obtain ⟨f1, f2, f3, f4, f5, f6, f7, f8, f9⟩ := consume_del_facts r c
          obtain ⟨hd, hgt⟩ := hch.del c (List.mem_cons_self ..) hc
          refine ⟨?_, f6.trans hf, f7.trans hinj, ?_, m1_consume_del hf c hd hgt⟩
          · rw [f5]; exact hch.tail_del hc f1 f2 f3 f4
          · exact results_ok_processSingle (by rw [retryClear_failing]; exact hf) (by rw [retryClear_injects]; exact hinj)
              (by rw [retryClear_results]; exact hfl) _ _ _
        | false =>
          have hn : needs c.obj.kind := by
            rw [hc] at hproc
            simp only [Bool.not_false, true_and, Bool.not_eq_eq_eq_not, Bool.not_true, decide_eq_false_iff_not] at hproc
            exact Classical.not_not.1 hproc
          simp only [Bool.false_eq_true, if_false]
          obtain ⟨f1, f2, f3, f4, f5, f6, f7, f8, f9⟩ := consume_upd_facts hinj c
          obtain ⟨ho, hrev, hgt⟩ := hch.upd c (List.mem_cons_self ..) hc
          refine ⟨?_, f6.trans hf, f7, ?_, m1_consume_upd hf hinj c ho hn hrev hgt⟩
          · refine hch.tail_upd hc f1 f2 f3 f4 ?_
            rw [f5]
            intro res hres
            rcases List.mem_append.1 hres with a | a
            · exact Or.inl a
            · simp only [List.mem_singleton] at a
              rw [a]; exact Or.inr rfl
          · exact results_ok_processSingle (by rw [retryClear_failing]; exact hf) (by rw [retryClear_injects]; exact hinj)
              (by rw [retryClear_results]; exact hfl) _ _ _
      obtain ⟨r1, hr1, hC, hF, hJ, hFl, hM⟩ := hstep
      rw [← hr1]
      have e1 : M1r { r1 with numReconciled := r1.numReconciled + 1 } = M1r r1 := rfl
      split
      · dsimp only
        exact ⟨by omega, fun _ => by omega, hFl⟩
      · obtain ⟨a, _, c'⟩ := ih c.rev (r := { r1 with numReconciled := r1.numReconciled + 1 })
          ⟨hC.upd, hC.del, hC.sorted, hC.covO, hC.covD, hC.below⟩ hF hJ hFl
        exact ⟨by omega, fun _ => by omega, c'⟩

theorem retry_step_facts {r : R} (hf : r.failing = []) (hinj : r.injects = []) (it0 : Item) (hh : r.head = some it0)
    (hobjs : ∀ it ∈ r.items, it.obj.id = it.id) :
    let ps := r.retryPop.processSingle it0.obj it0.rev it0.delete
    ps.failing = [] ∧ ps.injects = [] ∧ (∀ it ∈ ps.items, it.obj.id = it.id) ∧ ps.cfg = r.cfg ∧
    ps.numReconciled = r.numReconciled ∧ ps.now = r.now := by
  intro ps
  have hfail : r.retryPop.isFailing it0.obj.id = false := isFailing_of_nil (by rw [retryPop_failing]; exact hf) _
  have hinj' : r.retryPop.injects = [] := by rw [retryPop_injects]; exact hinj
  have hpop : ∀ it ∈ r.retryPop.items, it.obj.id = it.id := by
    intro it hit
    rw [retryPop_items r it0 hh] at hit
    simp only [List.mem_map] at hit
    obtain ⟨i, hi, rfl⟩ := hit
    have := hobjs i hi
    split <;> exact this
  have hps : ps = r.retryPop.processSingle it0.obj it0.rev it0.delete := rfl
  cases hd : it0.delete with
  | true =>
    rw [hd, processSingle_delete, hfail] at hps
    simp only [Bool.false_eq_true, if_false] at hps
    rw [hps]
    refine ⟨by simp [hf], by simp [hinj], fun it hit => ?_, by simp, by simp, by simp⟩
    rw [retryClear_items] at hit
    exact hpop it (List.mem_filter.1 hit).1
  | false =>
    rw [hd, processSingle_update hinj', hfail] at hps
    simp only [Bool.false_eq_true, if_false] at hps
    rw [hps]
    refine ⟨by simp [hf], by simp [hinj], fun it hit => ?_, by simp, by simp, by simp⟩
    rw [retryClear_items] at hit
    exact hpop it (List.mem_filter.1 hit).1

theorem m1_processRetriesJ (fuel : Nat) {r : R} (hobjs : ∀ it ∈ r.items, it.obj.id = it.id) (hf : r.failing = [])
    (hinj : r.injects = []) (hfl : ∀ res ∈ r.results, res.2.2.2.2 = false) :
    M1r (r.processRetries fuel) ≤ M1r r ∧
    (1 ≤ fuel → r.numReconciled < r.cfg.roundSize → (∃ h0, r.head = some h0 ∧ h0.retryAt ≤ r.now) →
      M1r (r.processRetries fuel) + 1 ≤ M1r r) ∧
    (∀ res ∈ (r.processRetries fuel).results, res.2.2.2.2 = false) := by
  induction fuel generalizing r with
  | zero => exact ⟨Nat.le_refl _, fun e => (by omega), hfl⟩
  | succ n ih =>
    unfold R.processRetries
    split
    · rename_i hge
      exact ⟨Nat.le_refl _, fun _ hlt => (by omega), hfl⟩
    · rename_i hlt
      split
      · rename_i hnone
        exact ⟨Nat.le_refl _, fun _ _ ⟨h0, e, _⟩ => (by rw [hnone] at e; cases e), hfl⟩
      · rename_i it0 hh
        split
        · rename_i hnd
          refine ⟨Nat.le_refl _, fun _ _ ⟨h0, e, hle⟩ => ?_, hfl⟩
          rw [hh] at e; cases e; omega
        · obtain ⟨g1, g2, g3, _, _, _⟩ := retry_step_facts hf hinj it0 hh hobjs
          have hm := m1_retry hf hinj it0 hh (hobjs it0 (head_spec hh).1)
          have hfl' := results_ok_processSingle (r := r.retryPop) (by rw [retryPop_failing]; exact hf)
            (by rw [retryPop_injects]; exact hinj) (by rw [retryPop_results]; exact hfl) it0.obj it0.rev it0.delete
          dsimp only
          generalize r.retryPop.processSingle it0.obj it0.rev it0.delete = ps at g1 g2 g3 hm hfl' ⊢
          obtain ⟨a, _, c⟩ := ih (r := { ps with numReconciled := ps.numReconciled + 1 }) g3 g1 g2 hfl'
          have e1 : M1r { ps with numReconciled := ps.numReconciled + 1 } = M1r ps := rfl
          exact ⟨by omega, fun _ _ _ => (by omega), c⟩

/-- the tail of a round never increases the measure; it decreases it when a retry is due and the round is not full -/
theorem m1_roundTailJ {r3 : R} (last : Nat) (hI3 : JInv r3 r3.results) (hf : r3.failing = []) (hinj : r3.injects = [])
    (hfl : ∀ res ∈ r3.results, res.2.2.2.2 = false) :
    M1 (roundTail r3 last) 0 ≤ M1r r3 ∧
    (r3.results = [] → r3.numReconciled < r3.cfg.roundSize → (∃ h0, r3.head = some h0 ∧ h0.retryAt ≤ r3.now) →
      M1 (roundTail r3 last) 0 + 1 ≤ M1r r3) := by
  have hobjs3 : ∀ it ∈ r3.items, it.obj.id = it.id := fun it hit => (hI3.itemOK it hit).1
  have hstrict : r3.results = [] → r3.numReconciled < r3.cfg.roundSize → (∃ h0, r3.head = some h0 ∧ h0.retryAt ≤ r3.now) →
      M1r ((r3.commitStatus).processRetries (r3.commitStatus.items.length + 1)) + 1 ≤ M1r r3 := by
    intro hres hlt hdue
    rw [commitStatus_of_nil hres]
    exact (m1_processRetriesJ (r3.items.length + 1) hobjs3 hf hinj hfl).2.1 (by omega) hlt hdue
  unfold roundTail
  dsimp only
  have hI4 := hI3.commitStatus
  have hm4 := m1_commitStatusJ hI3 hfl
  have hF4 := commitStatus_frameRJ r3
  have hinj4 : r3.commitStatus.injects = [] := (commitStatus_injects r3).trans hinj
  have hres4 := commitStatus_results r3
  generalize r3.commitStatus = r4 at hI4 hF4 hres4 hm4 hstrict hinj4 ⊢
  have hf4 : r4.failing = [] := hF4.failing.trans hf
  have hobjs4 : ∀ it ∈ r4.items, it.obj.id = it.id := fun it hit => (hI4.itemOK it hit).1
  rw [← hres4] at hI4
  have hs4 : r4.retriesSafe (r4.items.length + 1) := retries_safe_of_noTouch _ r4 (noTouch_nil hinj4)
  obtain ⟨hI5, _⟩ := hI4.processRetries (r4.items.length + 1) hs4
  obtain ⟨hm5, _, hfl5⟩ := m1_processRetriesJ (r4.items.length + 1) hobjs4 hf4 hinj4 (by rw [hres4]; simp)
  generalize r4.processRetries (r4.items.length + 1) = r5 at hI5 hm5 hfl5 hstrict ⊢
  have hm6 := m1_commitStatusJ hI5 hfl5
  have hres6 := commitStatus_results r5
  generalize r5.commitStatus = r6 at hm6 hres6 ⊢
  have e6 : M1r r6 = M1 r6 0 := by unfold M1r; rw [hres6]; rfl
  refine ⟨?_, fun a b c => ?_⟩
  · show M1 r6 0 ≤ M1r r3
    omega
  · show M1 r6 0 + 1 ≤ M1r r3
    have := hstrict a b c
    omega

/-- **once nothing fails and nothing is queued to land, every triggered round strictly
    decreases the measure** — from any state of the weaker invariant -/
theorem mz_roundJ {P : Nat → Prop} {r : R} (hr : JRInv r) (hq : QInv P r) (hf : r.failing = []) (hinj : r.injects = [])
    (hrs : 1 ≤ r.cfg.roundSize) (htr : r.triggered = true) : Mz r.round < Mz r := by
  have hM0 : M1r r = M1 r 0 := by unfold M1r; rw [hr.res]; rfl
  -- Next
  have hnc : JInv r.nextChanges.1 r.nextChanges.1.results ∧ r.nextChanges.1.results = [] ∧ M1r r.nextChanges.1 = M1 r 0 ∧
      r.nextChanges.1.failing = [] ∧ r.nextChanges.1.numReconciled = 0 ∧ r.nextChanges.1.cfg = r.cfg ∧
      r.nextChanges.1.items = r.items ∧ r.nextChanges.1.now = r.now ∧ r.nextChanges.1.tableRev = r.tableRev ∧
      r.nextChanges.1.injects = [] := by
    rcases nextChanges_fst r with e | e <;> rw [e]
    · exact ⟨JInv.cast_results hr.res hr.inv, hr.res, hM0, hf, hr.num, rfl, rfl, rfl, rfl, hinj⟩
    · exact ⟨JInv.cast_results hr.res (hr.inv.set_refreshedAt _ (Nat.le_refl _)), hr.res, hM0, hf, hr.num, rfl, rfl, rfl, rfl, hinj⟩
  have hch := chOK_nextChanges hr.inv.tinv hr.sync
  have hspec := nextChanges_spec r
  rw [round_eq']
  generalize r.nextChanges = nc at hnc hch hspec ⊢
  obtain ⟨nr, ch⟩ := nc
  simp only at hnc hch hspec ⊢
  obtain ⟨hI1, hres1, hM1, hf1, hnum1, hcfg1, hitems1, hnow1, htr1, hinj1⟩ := hnc
  have hjch : JChOK nr.tableRev nr nr.results ch := by
    rw [hres1]; exact JChOK.ofChOK hch hI1.tinv hI1.sidO
  rw [← hres1] at hch
  cases ch with
  | cons c cs =>
    -- a change is consumed: the measure drops
    obtain ⟨hs1, hsub⟩ := consume_safe_of_noTouch (c :: cs) nr 0 (noTouch_nil hinj1)
    obtain ⟨hI2, _, hF2, _⟩ := hI1.consume (c :: cs) 0 hjch hs1
    obtain ⟨_, hm2, hfl2⟩ := m1_consumeJ (c :: cs) 0 hch hf1 hinj1 (by rw [hres1]; simp)
    have hm2 := hm2 (by simp)
    have hinj2 : (nr.consume (c :: cs) 0).1.injects = [] :=
      List.eq_nil_iff_forall_not_mem.2 (fun a ha => by have := hsub a ha; rw [hinj1] at this; cases this)
    generalize nr.consume (c :: cs) 0 = co at hI2 hF2 hm2 hfl2 hinj2 ⊢
    generalize (if (c :: cs).isEmpty ∧ co.1.pending.isNone then none else
        if (co.2.1.isEmpty ∧ co.1.numReconciled < co.1.cfg.roundSize) then none else some co.2.1 : Option (List Change)) = pend
    have hI3 : JInv { co.1 with pending := pend } ({ co.1 with pending := pend } : R).results :=
      hI2.congr rfl rfl rfl rfl rfl rfl rfl rfl rfl
    have hf3 : ({ co.1 with pending := pend } : R).failing = [] := hF2.failing.trans hf1
    have hinj3 : ({ co.1 with pending := pend } : R).injects = [] := hinj2
    have hfl3 : ∀ res ∈ ({ co.1 with pending := pend } : R).results, res.2.2.2.2 = false := hfl2
    have e3 : M1r ({ co.1 with pending := pend } : R) = M1r co.1 := rfl
    generalize ({ co.1 with pending := pend } : R) = r3 at hI3 hf3 hinj3 hfl3 e3 ⊢
    have hm3 := (m1_roundTailJ co.2.2 hI3 hf3 hinj3 hfl3).1
    have := mz_le (roundTail r3 co.2.2)
    have : 3 * M1 r 0 ≤ Mz r := by unfold Mz; omega
    omega
  | nil =>
    simp only [consume_nil]
    have hlt : nr.numReconciled < nr.cfg.roundSize := by rw [hnum1, hcfg1]; omega
    have hp : (if ([] : List Change).isEmpty = true ∧ nr.pending.isNone = true then none
        else if ([] : List Change).isEmpty = true ∧ nr.numReconciled < nr.cfg.roundSize then none else some [] : Option (List Change)) = none := by
      simp [hlt]
    rw [hp]
    have hI3 : JInv { nr with pending := none } ({ nr with pending := none } : R).results :=
      hI1.congr rfl rfl rfl rfl rfl rfl rfl rfl rfl
    have hf3 : ({ nr with pending := none } : R).failing = [] := hf1
    have hinj3 : ({ nr with pending := none } : R).injects = [] := hinj1
    have hres3 : ({ nr with pending := none } : R).results = [] := hres1
    have hhead3 : ({ nr with pending := none } : R).head = r.head := by unfold R.head R.queue; rw [show ({ nr with pending := none } : R).items = r.items from hitems1]
    have e3 : M1r ({ nr with pending := none } : R) = M1 r 0 := hM1
    have hnow3 : ({ nr with pending := none } : R).now = r.now := hnow1
    have hlt3 : ({ nr with pending := none } : R).numReconciled < ({ nr with pending := none } : R).cfg.roundSize := hlt
    have hpend3 : ({ nr with pending := none } : R).pending = none := rfl
    have href3 : ({ nr with pending := none } : R).refreshedAt = nr.refreshedAt ∧ ({ nr with pending := none } : R).tableRev = r.tableRev := ⟨rfl, htr1⟩
    generalize ({ nr with pending := none } : R) = r3 at hI3 hf3 hinj3 hres3 hhead3 e3 hnow3 hlt3 hpend3 href3 ⊢
    have hMz : 3 * M1 r 0 ≤ Mz r := by unfold Mz; omega
    by_cases hdue : ∃ h0, r.head = some h0 ∧ h0.retryAt ≤ r.now
    · -- a retry is due: it is processed
      have hm3 := (m1_roundTailJ 0 hI3 hf3 hinj3 (by rw [hres3]; simp)).2 hres3 hlt3 (by rw [hhead3, hnow3]; exact hdue)
      have := mz_le (roundTail r3 0)
      omega
    · -- nothing to do: the round only refreshes the iterator
      have hdue3 : ¬ ∃ h0, r3.head = some h0 ∧ h0.retryAt ≤ r3.now := by rw [hhead3, hnow3]; exact hdue
      have hrt : roundTail r3 0 = { r3 with numReconciled := 0, progressRev := if 0 > r3.progressRev then 0 else r3.progressRev, progressLW := r3.lowWatermark } := by
        unfold roundTail
        simp only [commitStatus_of_nil hres3, processRetries_of_not_due _ hdue3]
      rw [hrt]
      -- the trigger was not the timer
      have hnt : ¬ (r.pending.isNone ∧ r.refreshedAt = r.tableRev) := by
        rintro ⟨a, b⟩
        apply hdue
        unfold R.triggered at htr
        have hpn : r.pending.isSome = false := by cases hpp : r.pending <;> simp_all
        rw [hpn] at htr
        simp only [Bool.false_or, Bool.or_eq_true, bne_iff_ne, ne_eq, b, not_true_eq_false, false_or] at htr
        cases hh : r.head with
        | none =>
          rcases hq.tmNone hh with t | t <;> rw [t] at htr <;> simp at htr
        | some h0 =>
          refine ⟨h0, rfl, ?_⟩
          rcases hq.tmSome h0 hh with t | t
          · rw [t] at htr; simpa using htr
          · exact t.2
      rcases hspec with ⟨a, b, _⟩ | ⟨_, e⟩
      · exact absurd ⟨a, b⟩ hnt
      · have hrr : r3.refreshedAt = r3.tableRev := by rw [href3.1, href3.2, e]
        have : Mz r = 3 * M1 r 0 + (if r.pending.isSome then 1 else 0) + (if r.refreshedAt = r.tableRev then 0 else 1) := rfl
        have hde : 1 ≤ (if r.pending.isSome then 1 else 0) + (if r.refreshedAt = r.tableRev then 0 else 1) := by
          by_cases hp1 : r.pending.isSome
          · simp [hp1]
          · have : r.pending.isNone := by cases hpp : r.pending <;> simp_all
            have : ¬ r.refreshedAt = r.tableRev := fun e => hnt ⟨this, e⟩
            simp [this]
        have e4 : Mz ({ r3 with numReconciled := 0, progressRev := if 0 > r3.progressRev then 0 else r3.progressRev, progressLW := r3.lowWatermark } : R) = Mz r3 := rfl
        rw [e4]
        have e5 : Mz r3 = 3 * M1 r3 0 := by
          unfold Mz
          rw [hpend3, if_pos hrr]
          simp
        have e6 : M1 r3 0 = M1r r3 := by unfold M1r; rw [hres3]; rfl
        rw [e5, e6, e3]
        omega

/-! ## the loop goes idle and has converged -/

theorem JRInv.toRInv {r : R} (h : JRInv r) (hinj : r.injects = []) (hq : ∀ it ∈ r.items, it.inQueue = true) : RInv r := by
  refine ⟨⟨h.inv.tinv, hinj, h.inv.items_pw, h.inv.objOK, h.inv.delOK, ?_, by simp⟩, h.res, h.num, h.sync⟩
  intro it hit
  obtain ⟨a, b, _, _⟩ := h.inv.itemOK it hit
  refine ⟨a, b, fun e => ?_⟩
  rw [hq it hit] at e; cases e

/-- the invariant once failures and writes during Updates have stopped: no retry is due later than `B` -/
structure JSInv (B : Nat) (r : R) : Prop where
  rinv : JRInv r
  q : QInv (fun t => t ≤ B) r
  nofail : r.failing = []
  noinj : r.injects = []

theorem JWInv.toJSInv {r : R} (h : JWInv r) (hf : r.failing = []) (hinj : r.injects = []) : JSInv (r.now + r.cfg.maxB) r :=
  ⟨h.rinv, h.q, hf, hinj⟩

theorem JSInv.fireTimer {B : Nat} {r : R} (h : JSInv B r) : JSInv B r.fireTimer ∧ r.fireTimer.now = r.now := by
  obtain ⟨e, _, e0, e1, _⟩ := fireTimer_frame r
  exact ⟨⟨h.rinv.fireTimer, h.q.fireTimer, e0.trans h.nofail, e.trans h.noinj⟩, e1⟩

theorem JSInv.round {B : Nat} {r : R} (h : JSInv B r) : JSInv B r.round ∧ r.round.now = r.now ∧ r.round.cfg = r.cfg := by
  have hs := (round_safe_of_noTouch r (noTouch_nil h.noinj)).1
  obtain ⟨hq, e1, e2, e3⟩ := h.q.roundJ h.rinv hs (fun e => absurd h.nofail e)
  exact ⟨⟨h.rinv.round hs, hq, e3.trans h.nofail, round_injects_nil r h.noinj⟩, e1, e2⟩

theorem JSInv.setNow {B : Nat} {r : R} (h : JSInv B r) (t : Nat) (ht : r.now ≤ t) : JSInv B { r with now := t } :=
  ⟨h.rinv.setNow t, h.q.setNow t ht, h.nofail, h.noinj⟩

theorem JSInv.quiesce {B : Nat} {r : R} (h : JSInv B r) (fuel : Nat) :
    JSInv B (r.quiesce fuel) ∧ (r.quiesce fuel).now = r.now ∧ (r.quiesce fuel).cfg = r.cfg := by
  induction fuel generalizing r with
  | zero => exact ⟨h, rfl, rfl⟩
  | succ n ih =>
    unfold R.quiesce
    simp only
    obtain ⟨h1, e1⟩ := h.fireTimer
    have hcfg1 : r.fireTimer.cfg = r.cfg := (fireTimer_frame r).2.2.2.2
    split
    · obtain ⟨h2, e2, c2⟩ := h1.round
      obtain ⟨h3, e3, c3⟩ := ih h2
      exact ⟨h3, by rw [e3, e2, e1], by rw [c3, c2, hcfg1]⟩
    · exact ⟨h1, e1, hcfg1⟩

/-- **the loop goes idle**: once nothing fails and nothing is queued to land,
    `quiesce` with fuel beyond the measure ends in an idle state -/
theorem JSInv.quiesce_idle {B : Nat} {r : R} (h : JSInv B r) (hrs : 1 ≤ r.cfg.roundSize) (fuel : Nat) (hfuel : Mz r < fuel) :
    (r.quiesce fuel).triggered = false := by
  induction fuel generalizing r with
  | zero => omega
  | succ n ih =>
    unfold R.quiesce
    simp only
    obtain ⟨h1, _⟩ := h.fireTimer
    have hcfg1 : r.fireTimer.cfg = r.cfg := (fireTimer_frame r).2.2.2.2
    have hm1 := fireTimer_mz r
    split
    · rename_i htr
      have hlt := mz_roundJ h1.rinv h1.q h1.nofail h1.noinj (by rw [hcfg1]; exact hrs) htr
      obtain ⟨h2, _, c2⟩ := h1.round
      exact ih h2 (by rw [c2, hcfg1]; exact hrs) (by omega)
    · rename_i htr
      simpa using htr

/-- an idle state in which every retry time lies in the past has converged -/
theorem JSInv.idle_converged {B : Nat} {r : R} (h : JSInv B r) (hB : B < r.now) (hidle : r.triggered = false) :
    (∀ o ∈ r.objs, o.kind = .done ∧ lastCall r.log o.id = some ⟨"U", o.id, o.data, true⟩) ∧
    (∀ d ∈ r.dels, ∃ c, lastCall r.log d.1.id = some c ∧ c.op = "D" ∧ c.ok = true) ∧
    r.items = [] ∧ r.lowWatermark = 0 :=
  Sdb.Rec.idle_converged (h.rinv.toRInv h.noinj (h.rinv.idle_items_queued hidle)) h.q hB hidle

end Sdb.Rec
