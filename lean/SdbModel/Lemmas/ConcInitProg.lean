import SdbModel.Lemmas.ConcSimProg

/-!
  ConcInitProg — program positions of the threads of `Model.Conc` INCLUDING the
  channel actions `notify` and `closeInit`.

  `ConcSimProg.strip` removes `notify` / `closeInit` because they do not touch what
  the simulation by `Model.Serial` talks about.  For the watch-channel and
  initializer properties they are the actions of interest, so this file repeats
  the position analysis with a finer filter `strip2` (only parks, hooks,
  `dedupTables`, `commitIndexes`, `returnToPool` are dropped) and a finer shape
  predicate `Protocol.initShape`: it fixes where `collectInit`, `notify`,
  `closeInit` sit relative to `storeRoot` / `unlockRoot` / `unlockTables` and asks
  that `registerTable` stores the root immediately after choosing the watch
  channel of the new table (no hook in between: `adjActs`).  It holds of
  `Gen.protocol` by `decide` and tolerates additional hooks anywhere else.
  Core Lean only.
-/
namespace Sdb.Conc

def relevantAct2 : Act → Bool
  | .hook _ | .dedupTables | .commitIndexes | .returnToPool => false
  | _ => true

def relevant2 : Micro → Bool
  | .park _ => false
  | .act a => relevantAct2 a
  | _ => true

def strip2 (l : List Micro) : List Micro := l.filter relevant2

/-- every `appendTable` is immediately followed by `storeRoot` -/
def adjActs : List Act → Bool
  | [] => true
  | a :: rest => (a != .appendTable || rest.head? == some .storeRoot) && adjActs rest

/-- the same on micro programs -/
def adjOK : List Micro → Bool
  | [] => true
  | m :: rest => (m != .act .appendTable || rest.head? == some (.act .storeRoot)) && adjOK rest

/-- the order of ALL effectful steps of the four protocol functions -/
def Protocol.initShape (P : Protocol) : Bool :=
  P.simShape &&
  (P.writeTxn.filter relevantAct2 == [.lockTables, .loadRoot, .cloneRoot, .cloneEntries]) &&
  (P.commit.filter relevantAct2 ==
    [.lockRoot, .loadCurrentRoot, .mergeUnlocked, .collectInit, .storeRoot, .unlockRoot, .notify, .unlockTables,
     .closeInit]) &&
  (P.abort.filter relevantAct2 == [.unlockTables]) &&
  (P.register.filter relevantAct2 == [.lockRoot, .loadCurrentRoot, .appendTable, .storeRoot, .unlockRoot]) &&
  adjActs P.register

theorem initShape_gen : Gen.protocol.initShape = true := by decide

theorem initShape_simShape (P : Protocol) (h : P.initShape = true) : P.simShape = true := by
  simp only [Protocol.initShape, Bool.and_eq_true] at h
  exact h.1.1.1.1.1

inductive Pos2 where
  | acq (k : Nat) | clR | clE | uw | aR | lc | mg | ci | sr | rR | nt | rel (k : Nat) | fin
  | gA | gL | gP | gS | gR | gE
  | dA | dL | dR
  deriving Repr, DecidableEq

/-- the unlock loop from table `k` on, then (commit) the closing of the init channels -/
def relTail (L : List Nat) (c : Bool) (k : Nat) : List Micro :=
  (L.drop k).map .release ++ (if c then [.act .closeInit] else [])

def afterWrites2 (c : Bool) : Pos2 := if c then .aR else .rel 0

def csTail (L : List Nat) (c : Bool) : List Micro :=
  .act .storeRoot :: .releaseRoot :: .act .notify :: relTail L c 0

def cEnd2 (L : List Nat) (c : Bool) : List Micro :=
  if c then .acquireRoot :: .act .loadCurrentRoot :: .act .mergeUnlocked :: .act .collectInit :: csTail L c
  else relTail L c 0

def code2 (L : List Nat) (c : Bool) : Pos2 → List Micro
  | .acq k => (L.drop k).map .acquire ++ (.act .loadRoot :: .act .cloneRoot :: .act .cloneEntries :: .userWrites :: cEnd2 L c)
  | .clR => .act .cloneRoot :: .act .cloneEntries :: .userWrites :: cEnd2 L c
  | .clE => .act .cloneEntries :: .userWrites :: cEnd2 L c
  | .uw => .userWrites :: cEnd2 L c
  | .aR => .acquireRoot :: .act .loadCurrentRoot :: .act .mergeUnlocked :: .act .collectInit :: csTail L c
  | .lc => .act .loadCurrentRoot :: .act .mergeUnlocked :: .act .collectInit :: csTail L c
  | .mg => .act .mergeUnlocked :: .act .collectInit :: csTail L c
  | .ci => .act .collectInit :: csTail L c
  | .sr => csTail L c
  | .rR => .releaseRoot :: .act .notify :: relTail L c 0
  | .nt => .act .notify :: relTail L c 0
  | .rel k => relTail L c k
  | .fin => []
  | .gA => [.acquireRoot, .act .loadCurrentRoot, .act .appendTable, .act .storeRoot, .releaseRoot]
  | .gL => [.act .loadCurrentRoot, .act .appendTable, .act .storeRoot, .releaseRoot]
  | .gP => [.act .appendTable, .act .storeRoot, .releaseRoot]
  | .gS => [.act .storeRoot, .releaseRoot]
  | .gR => [.releaseRoot]
  | .gE => []
  | .dA => [.acquireRoot, .act .loadCurrentRoot, .releaseRoot]
  | .dL => [.act .loadCurrentRoot, .releaseRoot]
  | .dR => [.releaseRoot]

theorem cEnd2_eq (L : List Nat) (c : Bool) : cEnd2 L c = code2 L c (afterWrites2 c) := by
  cases c <;> rfl

def next2 (L : List Nat) (c : Bool) : Pos2 → Option (Micro × Pos2)
  | .acq k => match L[k]? with
    | some tb => some (.acquire tb, .acq (k + 1))
    | none => some (.act .loadRoot, .clR)
  | .clR => some (.act .cloneRoot, .clE)
  | .clE => some (.act .cloneEntries, .uw)
  | .uw => some (.userWrites, afterWrites2 c)
  | .aR => some (.acquireRoot, .lc)
  | .lc => some (.act .loadCurrentRoot, .mg)
  | .mg => some (.act .mergeUnlocked, .ci)
  | .ci => some (.act .collectInit, .sr)
  | .sr => some (.act .storeRoot, .rR)
  | .rR => some (.releaseRoot, .nt)
  | .nt => some (.act .notify, .rel 0)
  | .rel k => match L[k]? with
    | some tb => some (.release tb, .rel (k + 1))
    | none => if c then some (.act .closeInit, .fin) else none
  | .fin => none
  | .gA => some (.acquireRoot, .gL)
  | .gL => some (.act .loadCurrentRoot, .gP)
  | .gP => some (.act .appendTable, .gS)
  | .gS => some (.act .storeRoot, .gR)
  | .gR => some (.releaseRoot, .gE)
  | .gE => none
  | .dA => some (.acquireRoot, .dL)
  | .dL => some (.act .loadCurrentRoot, .dR)
  | .dR => some (.releaseRoot, .gE)

theorem code2_next (L : List Nat) (c : Bool) (p : Pos2) :
    code2 L c p = match next2 L c p with
      | none => []
      | some (m, p') => m :: code2 L c p' := by
  cases p with
  | acq k =>
    simp only [next2]
    cases h : L[k]? with
    | some tb => simp only [code2, drop_of_getElem? L k tb h, List.map_cons, List.cons_append]
    | none => simp only [code2, drop_of_getElem?_none L k h, List.map_nil, List.nil_append]
  | rel k =>
    simp only [next2]
    cases h : L[k]? with
    | some tb => simp only [code2, relTail, drop_of_getElem? L k tb h, List.map_cons, List.cons_append]
    | none =>
      cases c <;> simp [code2, relTail, drop_of_getElem?_none L k h]
  | uw => show Micro.userWrites :: cEnd2 L c = Micro.userWrites :: code2 L c (afterWrites2 c); rw [cEnd2_eq]
  | _ => rfl

theorem strip2_cons (m : Micro) (rest : List Micro) :
    strip2 (m :: rest) = if relevant2 m then m :: strip2 rest else strip2 rest := by
  simp only [strip2, List.filter_cons]

theorem pop_code2 (L : List Nat) (c : Bool) (p : Pos2) (m : Micro) (rest : List Micro)
    (h : strip2 (m :: rest) = code2 L c p) :
    (relevant2 m = false ∧ strip2 rest = code2 L c p) ∨
    (relevant2 m = true ∧ ∃ p', next2 L c p = some (m, p') ∧ strip2 rest = code2 L c p') := by
  rw [strip2_cons] at h
  cases hr : relevant2 m with
  | false => left; rw [hr] at h; exact ⟨rfl, by simpa using h⟩
  | true =>
    right; rw [hr] at h
    simp only [if_true] at h
    rw [code2_next] at h
    cases hn : next2 L c p with
    | none => rw [hn] at h; simp at h
    | some mp =>
      obtain ⟨m', p'⟩ := mp
      rw [hn] at h
      simp only [List.cons.injEq] at h
      exact ⟨rfl, p', by rw [h.1], h.2⟩

theorem nil_code2 (L : List Nat) (c : Bool) (p : Pos2) (h : [] = code2 L c p) : next2 L c p = none := by
  rw [code2_next] at h
  cases hn : next2 L c p with
  | none => rfl
  | some mp => rw [hn] at h; simp at h

theorem mem_strip2 (m : Micro) (l : List Micro) (h : relevant2 m = true) : m ∈ strip2 l ↔ m ∈ l := by
  simp [strip2, h]

/-! ### the stripped programs of the threads `Model.Conc` spawns -/

theorem strip2_append (a b : List Micro) : strip2 (a ++ b) = strip2 a ++ strip2 b := by
  simp [strip2]

theorem strip2_expand_irrelevant (P : Protocol) (T : List Nat) (a : Act) (h : relevantAct2 a = false) :
    strip2 (expand P T a) = [] := by
  cases a <;> simp_all [relevantAct2, expand, strip2, relevant2]

theorem strip2_flatMap_expand (P : Protocol) (T : List Nat) (l : List Act) :
    strip2 (l.flatMap (expand P T)) = (l.filter relevantAct2).flatMap (fun a => strip2 (expand P T a)) := by
  induction l with
  | nil => rfl
  | cons a l ih =>
    rw [List.flatMap_cons, strip2_append, ih, List.filter_cons]
    cases h : relevantAct2 a with
    | false => simp [strip2_expand_irrelevant P T a h]
    | true => simp

theorem strip2_expand_lock (P : Protocol) (T : List Nat) :
    strip2 (expand P T .lockTables) = (if P.lockSortsBySeq then sortNat T else T).map .acquire := by
  simp only [expand]
  generalize (if P.lockSortsBySeq = true then sortNat T else T) = order
  induction order with
  | nil => rfl
  | cons t r ih =>
    rw [List.flatMap_cons, strip2_append, ih]
    rfl

theorem strip2_expand_unlock (P : Protocol) (T : List Nat) :
    strip2 (expand P T .unlockTables) = (if P.lockSortsBySeq then sortNat T else T).map .release := by
  simp only [expand]
  generalize (if P.lockSortsBySeq = true then sortNat T else T) = order
  induction order with
  | nil => rfl
  | cons t r ih =>
    rw [List.flatMap_cons, strip2_append, ih]
    rfl

theorem initShape_parts (P : Protocol) (hP : P.initShape = true) :
    P.lockSortsBySeq = true ∧ P.writeTxn.contains .dedupTables = true ∧
    P.writeTxn.filter relevantAct2 = [.lockTables, .loadRoot, .cloneRoot, .cloneEntries] ∧
    P.commit.filter relevantAct2 =
      [.lockRoot, .loadCurrentRoot, .mergeUnlocked, .collectInit, .storeRoot, .unlockRoot, .notify, .unlockTables,
       .closeInit] ∧
    P.abort.filter relevantAct2 = [.unlockTables] ∧
    P.register.filter relevantAct2 = [.lockRoot, .loadCurrentRoot, .appendTable, .storeRoot, .unlockRoot] ∧
    adjActs P.register = true := by
  have hs := initShape_simShape P hP
  simp only [Protocol.simShape, Bool.and_eq_true, beq_iff_eq] at hs
  simp only [Protocol.initShape, Bool.and_eq_true, beq_iff_eq] at hP
  exact ⟨hs.1.1.1.1.1, hs.1.1.1.1.2, hP.1.1.1.1.2, hP.1.1.1.2, hP.1.1.2, hP.1.2, hP.2⟩

theorem strip2_writerProg (P : Protocol) (hP : P.initShape = true) (tabs : List Nat) (c : Bool) :
    strip2 (writerProg P tabs c) = code2 (sortNat (dedup tabs)) c (.acq 0) := by
  obtain ⟨h1, h2, h3, h4, h5, _, _⟩ := initShape_parts P hP
  unfold writerProg
  simp only [h2, if_true]
  rw [strip2_append, strip2_append, strip2_append, strip2_flatMap_expand, strip2_flatMap_expand, h3]
  cases c with
  | true =>
    simp only [if_true, h4, List.flatMap_cons, List.flatMap_nil, strip2_expand_lock, strip2_expand_unlock, h1]
    simp only [expand, List.append_nil, code2, cEnd2, csTail, relTail, List.drop_zero, if_true, List.append_assoc]
    rfl
  | false =>
    simp only [Bool.false_eq_true, if_false, h5, List.flatMap_cons, List.flatMap_nil, strip2_expand_lock,
      strip2_expand_unlock, h1, if_true]
    simp only [expand, List.append_nil, code2, cEnd2, relTail, List.drop_zero, Bool.false_eq_true, if_false,
      List.append_assoc]
    rfl

theorem strip2_registerProg (P : Protocol) (hP : P.initShape = true) (c : Bool) :
    strip2 (registerProg P) = code2 [] c .gA := by
  obtain ⟨_, _, _, _, _, h6, _⟩ := initShape_parts P hP
  unfold registerProg
  rw [strip2_append, strip2_flatMap_expand, h6]
  rfl

theorem filter2_takeWhile_ne (l : List Act) (c : Act) (hc : relevantAct2 c = true) :
    (l.takeWhile (· ≠ c)).filter relevantAct2 = (l.filter relevantAct2).takeWhile (· ≠ c) := by
  induction l with
  | nil => rfl
  | cons a l ih =>
    by_cases hac : a = c
    · subst hac; simp [hc]
    · cases hr : relevantAct2 a with
      | true => simpa [hac, hr] using ih
      | false => simpa [hac, hr] using ih

theorem strip2_registerDupProg (P : Protocol) (hP : P.initShape = true) (c : Bool) :
    strip2 (registerDupProg P) = code2 [] c .dA := by
  obtain ⟨_, _, _, _, _, h6, _⟩ := initShape_parts P hP
  have hmem : Act.unlockRoot ∈ P.register := by
    have : Act.unlockRoot ∈ P.register.filter relevantAct2 := by rw [h6]; simp
    exact (List.mem_filter.1 this).1
  unfold registerDupProg
  have hcont : P.register.contains Act.unlockRoot = true := by simpa using hmem
  simp only [hcont, if_true]
  rw [strip2_append, strip2_flatMap_expand, List.filter_append, filter2_takeWhile_ne _ _ (by rfl), h6]
  rfl

/-! ### `appendTable` is immediately followed by `storeRoot` -/

theorem adjOK_tail (m : Micro) (rest : List Micro) (h : adjOK (m :: rest) = true) : adjOK rest = true := by
  simp only [adjOK, Bool.and_eq_true] at h
  exact h.2

theorem adjOK_head (rest : List Micro) (h : adjOK (.act .appendTable :: rest) = true) :
    rest.head? = some (.act .storeRoot) := by
  simp only [adjOK, Bool.and_eq_true, Bool.or_eq_true, bne_iff_ne, ne_eq, not_true_eq_false, false_or,
    beq_iff_eq] at h
  exact h.1

theorem adjOK_of_no_append (l : List Micro) (h : Micro.act .appendTable ∉ l) : adjOK l = true := by
  induction l with
  | nil => rfl
  | cons m rest ih =>
    simp only [List.mem_cons, not_or] at h
    simp only [adjOK, Bool.and_eq_true, Bool.or_eq_true, bne_iff_ne, ne_eq]
    exact ⟨Or.inl (fun e => h.1 e.symm), ih h.2⟩

theorem adjOK_append_of_no (a b : List Micro) (ha : Micro.act .appendTable ∉ a) (hb : adjOK b = true) :
    adjOK (a ++ b) = true := by
  induction a with
  | nil => exact hb
  | cons m rest ih =>
    simp only [List.mem_cons, not_or] at ha
    simp only [List.cons_append, adjOK, Bool.and_eq_true, Bool.or_eq_true, bne_iff_ne, ne_eq]
    exact ⟨Or.inl (fun e => ha.1 e.symm), ih ha.2⟩

theorem appendTable_mem_expand (P : Protocol) (T : List Nat) (a : Act)
    (h : Micro.act .appendTable ∈ expand P T a) : a = .appendTable := by
  cases a <;> simp_all [expand]

theorem appendTable_mem_flatMap (P : Protocol) (T : List Nat) (l : List Act)
    (h : Micro.act .appendTable ∈ l.flatMap (expand P T)) : Act.appendTable ∈ l := by
  simp only [List.mem_flatMap] at h
  obtain ⟨a, ha, hm⟩ := h
  rw [← appendTable_mem_expand P T a hm]; exact ha

theorem adjOK_flatMap (P : Protocol) (T : List Nat) (l : List Act) (h : adjActs l = true) :
    adjOK (l.flatMap (expand P T)) = true := by
  induction l with
  | nil => rfl
  | cons a rest ih =>
    simp only [adjActs, Bool.and_eq_true, Bool.or_eq_true, bne_iff_ne, ne_eq, beq_iff_eq] at h
    rw [List.flatMap_cons]
    by_cases ha : a = .appendTable
    · subst ha
      have hh : rest.head? = some .storeRoot := by
        rcases h.1 with h' | h'
        · exact absurd rfl h'
        · exact h'
      cases rest with
      | nil => simp at hh
      | cons b r =>
        simp only [List.head?_cons, Option.some.injEq] at hh
        subst hh
        have := ih h.2
        simp only [List.flatMap_cons] at this ⊢
        simp only [expand, List.cons_append, List.nil_append] at this ⊢
        simp only [adjOK, Bool.and_eq_true, Bool.or_eq_true, bne_iff_ne, ne_eq, beq_iff_eq]
        simp only [adjOK, Bool.and_eq_true, Bool.or_eq_true, bne_iff_ne, ne_eq, beq_iff_eq] at this
        exact ⟨Or.inr rfl, this⟩
    · apply adjOK_append_of_no _ _ _ (ih h.2)
      intro hm
      exact ha (appendTable_mem_expand P T a hm)

theorem not_mem_of_filter2 (l : List Act) (r : List Act) (h : l.filter relevantAct2 = r) (hr : Act.appendTable ∉ r) :
    Act.appendTable ∉ l := by
  intro hm
  apply hr
  rw [← h]
  exact List.mem_filter.2 ⟨hm, rfl⟩

theorem adjOK_writerProg (P : Protocol) (hP : P.initShape = true) (tabs : List Nat) (c : Bool) :
    adjOK (writerProg P tabs c) = true := by
  obtain ⟨_, _, h3, h4, h5, _, _⟩ := initShape_parts P hP
  apply adjOK_of_no_append
  have n3 := not_mem_of_filter2 _ _ h3 (by simp)
  have n4 := not_mem_of_filter2 _ _ h4 (by simp)
  have n5 := not_mem_of_filter2 _ _ h5 (by simp)
  unfold writerProg
  simp only [List.mem_append, List.mem_cons, reduceCtorEq, List.not_mem_nil, or_false, false_or,
    not_or]
  refine ⟨fun hm => n3 (appendTable_mem_flatMap _ _ _ hm), ?_⟩
  cases c with
  | true => exact fun hm => n4 (appendTable_mem_flatMap _ _ _ hm)
  | false => exact fun hm => n5 (appendTable_mem_flatMap _ _ _ hm)

theorem adjOK_registerProg (P : Protocol) (hP : P.initShape = true) : adjOK (registerProg P) = true := by
  obtain ⟨_, _, _, _, _, _, h7⟩ := initShape_parts P hP
  unfold registerProg
  exact adjOK_append_of_no _ _ (by simp) (adjOK_flatMap P [] _ h7)

theorem of_mem_takeWhile {α : Type} (p : α → Bool) : ∀ (l : List α) (x : α), x ∈ l.takeWhile p → p x = true := by
  intro l
  induction l with
  | nil => intro x h; simp at h
  | cons a l ih =>
    intro x h
    rw [List.takeWhile_cons] at h
    split at h
    · rename_i hp
      simp only [List.mem_cons] at h
      rcases h with rfl | h
      · exact hp
      · exact ih x h
    · simp at h

theorem adjOK_registerDupProg (P : Protocol) (_hP : P.initShape = true) : adjOK (registerDupProg P) = true := by
  apply adjOK_of_no_append
  unfold registerDupProg
  simp only [List.mem_append, List.mem_cons, reduceCtorEq, List.not_mem_nil, or_false, false_or]
  intro hm
  have := appendTable_mem_flatMap _ _ _ hm
  simp only [List.mem_append] at this
  rcases this with h | h
  · have := of_mem_takeWhile _ _ _ h
    simp at this
  · split at h <;> simp at h

end Sdb.Conc
