import SdbModel.Lemmas.ArtInsert
import SdbModel.Lemmas.ArtDelete

/-!
  Lemmas for C11, part 7: the SHAPE invariant of the adaptive radix tree —
  every inner node carries a leaf or at least two children (no useless nodes:
  path compression is maximal), and its kind is the size class of its number
  of children (4: ≤ 4, 16: 5..16, 48: 17..48, 256: ≥ 49).  Preserved by
  `insNode` (promotion) and `delNode` (demotion, merge with the single child)
  for the node-size constants of the implementation.  Core Lean only.
-/
namespace Sdb.Art

/-- kind ↔ size class, as maintained by promote / demote -/
def KindOK (kind size : Nat) : Prop :=
  (kind = 4 ∧ size ≤ 4) ∨ (kind = 16 ∧ 5 ≤ size ∧ size ≤ 16) ∨ (kind = 48 ∧ 17 ≤ size ∧ size ≤ 48) ∨
  (kind = 256 ∧ 49 ≤ size)

mutual
def ShapeN : Node → Prop
  | .leaf _ _ => True
  | .inner kind _ lf kids _ _ => KindOK kind kids.size ∧ (lf.isSome = true ∨ 2 ≤ kids.size) ∧ ShapeK kids
def ShapeK : Kids → Prop
  | .nil => True
  | .cons _ n r => ShapeN n ∧ ShapeK r
end

theorem ShapeN_setPfx (p : List Nat) (n : Node) : ShapeN (n.setPfx p) ↔ ShapeN n := by
  cases n <;> simp [Node.setPfx, ShapeN]

theorem cloneNode_shape (st : St) (n : Node) : ShapeN (cloneNode st n).2 ↔ ShapeN n := by
  cases n with
  | leaf p d => obtain ⟨st', w, e⟩ := cloneNode_leaf st p d; rw [e]; simp [ShapeN]
  | inner k p lf kids w t => obtain ⟨st', w', t', e⟩ := cloneNode_inner st k p lf kids w t; rw [e]; simp [ShapeN]

theorem size_insert (b : Nat) (child : Node) : (kids : Kids) → (kids.insert b child).size = kids.size + 1
  | .nil => rfl
  | .cons c m r => by
    simp only [Kids.insert]
    split
    · rfl
    · simp [Kids.size, size_insert b child r]

theorem ShapeK_insert (b : Nat) (child : Node) (hc : ShapeN child) : (kids : Kids) → ShapeK kids →
    ShapeK (kids.insert b child)
  | .nil, _ => by simp [Kids.insert, ShapeK, hc]
  | .cons c m r, h => by
    simp only [ShapeK] at h
    simp only [Kids.insert]
    split
    · simp only [ShapeK]; exact ⟨hc, h.1, h.2⟩
    · simp only [ShapeK]; exact ⟨h.1, ShapeK_insert b child hc r h.2⟩

theorem ShapeK_erase (b : Nat) : (kids : Kids) → ShapeK kids → ShapeK (kids.erase b)
  | .nil, _ => by simp [Kids.erase, ShapeK]
  | .cons c m r, h => by
    simp only [ShapeK] at h
    simp only [Kids.erase]
    split
    · exact h.2
    · simp only [ShapeK]; exact ⟨h.1, ShapeK_erase b r h.2⟩

/-! ### insertion -/

theorem forkNode_shape (c : List Nat) (this : Node) (a' : List Nat) (d : LeafD) (w tx : Nat)
    (hs : ShapeN this) (hnil : this.pfx = [] → this.isLeaf = true) :
    ShapeN (forkNode 4 c this a' d w tx) := by
  unfold forkNode
  cases hb : this.pfx with
  | nil =>
    obtain ⟨p0, d0, rfl⟩ := leaf_of_isLeaf this (hnil hb)
    simp [ShapeN, ShapeK, KindOK, Kids.size, Node.getLeaf]
  | cons y s =>
    cases a' with
    | nil => simp [ShapeN, ShapeK, KindOK, Kids.size, hs]
    | cons x t =>
      simp only
      split <;> simp [ShapeN, ShapeK, KindOK, Kids.size, hs]

theorem insAt_shape (P : ArtParams) (hP : P = defaultParams) (st : St) (n : Node) (key full : List Nat) (val : Nat)
    (mod : Option (Nat → Nat → Nat)) (hs : ShapeN n)
    (hin : n.isLeaf = false → key ≠ n.pfx → hasPrefix key n.pfx = false) :
    ShapeN (insAt P st n key full val mod).node := by
  by_cases hk : key = n.pfx
  · have hc : commonPrefix key n.pfx = n.pfx := by rw [hk, commonPrefix_self]
    unfold insAt
    simp only [hc]
    rw [if_pos ⟨by rw [hk], by rw [hk]⟩]
    cases n with
    | leaf p d =>
      obtain ⟨st', w, e⟩ := cloneNode_leaf st p d
      simp only [e, ShapeN]
    | inner k p lf kids w t =>
      obtain ⟨st', w', t', e⟩ := cloneNode_inner st k p lf kids w t
      simp only [e]
      simp only [ShapeN] at hs
      cases lf with
      | some d =>
        obtain ⟨st'', w'', e'⟩ := cloneLeafD_eq st' d
        simp only [e', ShapeN]
        exact ⟨hs.1, Or.inl rfl, hs.2.2⟩
      | none =>
        obtain ⟨st'', w'', e'⟩ := newLeafD_eq st' full val
        simp only [e', ShapeN]
        exact ⟨hs.1, Or.inl rfl, hs.2.2⟩
  · obtain ⟨st', n0, dw, w, tx, wt, heq, hp0, _, hl0, _, hsame⟩ := insAt_partial_eq P st n key full val mod hk
    have hs0 : ShapeN n0 := by
      rcases hsame with rfl | ⟨k, p, lf, kids, w1, t1, w2, t2, rfl, rfl⟩
      · exact hs
      · simpa [ShapeN] using hs
    rw [heq]
    subst hP
    show ShapeN (forkNode 4 _ _ _ _ _ _)
    apply forkNode_shape _ _ _ _ _ _ ((ShapeN_setPfx _ _).mpr hs0)
    intro hnil
    rw [Node.pfx_setPfx] at hnil
    have e1 := commonPrefix_left key n.pfx
    have e2 := commonPrefix_right key n.pfx
    rw [hnil, List.append_nil] at e2
    cases hl : n.isLeaf with
    | true =>
      cases n0 with
      | leaf => rfl
      | inner => rw [hl] at hl0; simp [Node.isLeaf] at hl0
    | false =>
      have := hin hl hk
      have hpre : commonPrefix key n.pfx <+: key := ⟨_, e1.symm⟩
      rw [← e2] at hpre
      rw [(hasPrefix_iff _ _).mpr hpre] at this
      exact Bool.noConfusion this

theorem not_descend_hin (key pfx : List Nat)
    (hcond : ¬(key ≠ [] ∧ hasPrefix key pfx = true ∧ key.length ≠ pfx.length)) (hk : key ≠ pfx) :
    hasPrefix key pfx = false := by
  cases hp : hasPrefix key pfx with
  | false => rfl
  | true =>
    exfalso
    apply hcond
    have hk' := hasPrefix_true_eq key pfx hp
    refine ⟨?_, hp, ?_⟩
    · intro e; subst e; cases pfx with
      | nil => exact hk rfl
      | cons => simp at hp
    · intro hl
      have : key.drop pfx.length = [] := List.eq_nil_of_length_eq_zero (by simp; omega)
      rw [this, List.append_nil] at hk'
      exact hk hk'

theorem kindOK_grow (P : ArtParams) (hP : P = defaultParams) (kind size : Nat) (h : KindOK kind size) :
    (size + 1 > kind → KindOK (nextKind P kind) (size + 1)) ∧ (¬ size + 1 > kind → KindOK kind (size + 1)) := by
  subst hP
  unfold KindOK at *
  rcases h with ⟨rfl, h⟩ | ⟨rfl, h⟩ | ⟨rfl, h⟩ | ⟨rfl, h⟩
  · have : nextKind defaultParams 4 = 16 := by decide
    rw [this]; constructor <;> intro _ <;> omega
  · have : nextKind defaultParams 16 = 48 := by decide
    rw [this]; constructor <;> intro _ <;> omega
  · have : nextKind defaultParams 48 = 256 := by decide
    rw [this]; constructor <;> intro _ <;> omega
  · have : nextKind defaultParams 256 = 256 := by decide
    rw [this]; constructor <;> intro _ <;> omega

mutual
theorem insNode_shape (P : ArtParams) (hP : P = defaultParams) : (n : Node) → ∀ (st : St) (key full : List Nat)
    (val : Nat) (mod : Option (Nat → Nat → Nat)), ShapeN n → ShapeN (insNode P st n key full val mod).node
  | .leaf p d => by
    intro st key full val mod hs
    unfold insNode
    exact insAt_shape P hP st _ key full val mod hs (by simp [Node.isLeaf])
  | .inner kind pfx lf kids w t => by
    intro st key full val mod hs
    unfold insNode
    split
    · simp only [ShapeN] at hs
      obtain ⟨hk, hc, hkids⟩ := hs
      simp only
      cases hins : insKids P st kids ((key.drop pfx.length).headD 0) (key.drop pfx.length) full val mod with
      | some x =>
        obtain ⟨r, kids'⟩ := x
        obtain ⟨h1, h2⟩ := insKids_shape P hP kids st _ _ full val mod r kids' hkids hins
        simp only
        rw [cloneNode_shape]
        simp only [ShapeN, h2]
        exact ⟨hk, hc, h1⟩
      | none =>
        simp only
        have hg := kindOK_grow P hP kind kids.size hk
        split
        · rename_i hgt
          simp only [ShapeN, size_insert]
          exact ⟨hg.1 hgt, hc.elim Or.inl (fun h => Or.inr (by omega)), ShapeK_insert _ _ (by simp [ShapeN]) kids hkids⟩
        · rename_i hgt
          rw [cloneNode_shape]
          simp only [ShapeN, size_insert]
          exact ⟨hg.2 hgt, hc.elim Or.inl (fun h => Or.inr (by omega)), ShapeK_insert _ _ (by simp [ShapeN]) kids hkids⟩
    · rename_i hcond
      exact insAt_shape P hP st _ key full val mod hs (fun _ hk => not_descend_hin key pfx hcond hk)
theorem insKids_shape (P : ArtParams) (hP : P = defaultParams) : (kids : Kids) → ∀ (st : St) (b : Nat)
    (key full : List Nat) (val : Nat) (mod : Option (Nat → Nat → Nat)) (r : InsRes) (kids' : Kids),
    ShapeK kids → insKids P st kids b key full val mod = some (r, kids') →
    ShapeK kids' ∧ kids'.size = kids.size
  | .nil => by
    intro st b key full val mod r kids' _ h
    simp [insKids] at h
  | .cons c n rs => by
    intro st b key full val mod r kids' hs h
    simp only [ShapeK] at hs
    unfold insKids at h
    split at h
    · simp only [Option.some.injEq, Prod.mk.injEq] at h
      obtain ⟨hr, hk'⟩ := h
      subst hr; subst hk'
      simp only [ShapeK, Kids.size]
      exact ⟨⟨insNode_shape P hP n st key full val mod hs.1, hs.2⟩, trivial⟩
    · split at h
      · split at h
        · rename_i r' rest' hins
          simp only [Option.some.injEq, Prod.mk.injEq] at h
          obtain ⟨hr, hk'⟩ := h
          subst hr; subst hk'
          obtain ⟨h1, h2⟩ := insKids_shape P hP rs st b key full val mod r' rest' hs.2 hins
          simp only [ShapeK, Kids.size, h2]
          exact ⟨⟨hs.1, h1⟩, trivial⟩
        · simp at h
      · simp at h
end

/-! ### deletion -/

def DelShape : DelRes → Prop
  | .replaced _ n' _ => ShapeN n'
  | _ => True

def DelKShape (kids : Kids) (b : Nat) : Option (DelRes × Kids) → Prop
  | some (.replaced _ _ _, kids') => ShapeK kids' ∧ kids'.size = kids.size
  | some (.removed _ _, _) => (kids.erase b).size + 1 = kids.size
  | _ => True

theorem mergeUp_shape (pfx : List Nat) (child : Node) (h : ShapeN child) : ShapeN (mergeUp pfx child) := by
  unfold mergeUp; exact (ShapeN_setPfx _ _).mpr h

theorem delAt_shape (st : St) (n : Node) (hs : ShapeN n) : DelShape (delAt st n) := by
  cases n with
  | leaf p d => simp [delAt, Node.getLeaf, DelShape]
  | inner kind pfx lf kids w t =>
    simp only [ShapeN] at hs
    obtain ⟨hk, hc, hkids⟩ := hs
    cases lf with
    | none => simp [delAt, Node.getLeaf, DelShape]
    | some d =>
      simp only [delAt, Node.getLeaf]
      split
      · rename_i hs1
        obtain ⟨c, child, rfl⟩ := kids_size_one kids hs1
        simp only [Kids.first, DelShape]
        simp only [ShapeK] at hkids
        exact mergeUp_shape pfx child hkids.1
      · split
        · rename_i h1 h2
          simp only [DelShape]
          rw [cloneNode_shape]
          simp only [ShapeN]
          exact ⟨hk, Or.inr (by omega), hkids⟩
        · simp [DelShape]

theorem kindOK_shrink (P : ArtParams) (hP : P = defaultParams) (kind size : Nat) (h : KindOK kind size) :
    ((P.demoteAt.any fun (k, thr) => k = kind ∧ size ≤ thr) = true → KindOK (prevKind P kind) (size - 1)) ∧
    (¬ (P.demoteAt.any fun (k, thr) => k = kind ∧ size ≤ thr) = true → KindOK kind (size - 1)) := by
  subst hP
  unfold KindOK at *
  rcases h with ⟨rfl, h⟩ | ⟨rfl, h⟩ | ⟨rfl, h⟩ | ⟨rfl, h⟩
  · have : prevKind defaultParams 4 = 4 := by decide
    rw [this]; simp [defaultParams]; omega
  · have : prevKind defaultParams 16 = 4 := by decide
    rw [this]; simp [defaultParams]; omega
  · have : prevKind defaultParams 48 = 16 := by decide
    rw [this]; simp [defaultParams]; omega
  · have : prevKind defaultParams 256 = 48 := by decide
    rw [this]; simp [defaultParams]; omega

theorem removeChild_shape (P : ArtParams) (hP : P = defaultParams) (st : St) (kind : Nat) (pfx : List Nat)
    (lf : Option LeafD) (kids : Kids) (w t b : Nat) (hk : KindOK kind kids.size)
    (hc : lf.isSome = true ∨ 2 ≤ kids.size) (hkids : ShapeK kids) (hsz : (kids.erase b).size + 1 = kids.size) :
    ShapeN (removeChild P st kind pfx lf kids w t b).2 := by
  have he := ShapeK_erase b kids hkids
  have hsh := kindOK_shrink P hP kind kids.size hk
  have hsz' : (kids.erase b).size = kids.size - 1 := by omega
  unfold removeChild
  simp only
  split
  · rename_i hcnd
    cases hke : kids.erase b with
    | nil => rw [hke] at hsz; simp [Kids.size] at hsz; omega
    | cons c child rest =>
      rw [hke] at he
      simp only [ShapeK] at he
      simp only [Kids.first]
      exact mergeUp_shape pfx child he.1
  · rename_i hcnd
    have hc' : lf.isSome = true ∨ 2 ≤ (kids.erase b).size := by
      rcases hc with h | h
      · exact Or.inl h
      · cases hl : lf.isSome with
        | true => exact Or.inl rfl
        | false =>
          have : lf.isNone = true := by cases lf <;> simp_all
          have : kids.size ≠ 2 := fun e => hcnd ⟨e, this⟩
          exact Or.inr (by omega)
    split
    · rename_i hd
      simp only [ShapeN, hsz']
      exact ⟨hsh.1 hd, by rw [← hsz']; exact hc', he⟩
    · rename_i hd
      rw [cloneNode_shape]
      simp only [ShapeN, hsz']
      exact ⟨hsh.2 hd, by rw [← hsz']; exact hc', he⟩

mutual
theorem delNode_shape (P : ArtParams) (hP : P = defaultParams) : (n : Node) → ∀ (st : St) (key : List Nat),
    ShapeN n → DelShape (delNode P st n key)
  | .leaf p d => by
    intro st key hs
    rw [delNode_leaf]
    split
    · split
      · exact delAt_shape st _ hs
      · trivial
    · trivial
  | .inner kind pfx lf kids w t => by
    intro st key hs
    rw [delNode_inner]
    split
    · split
      · exact delAt_shape st _ hs
      · rename_i b r hd
        simp only [ShapeN] at hs
        obtain ⟨hk, hc, hkids⟩ := hs
        have ih := delKids_shape P hP kids st b (key.drop pfx.length) hkids
        cases hdk : delKids P st kids b (key.drop pfx.length) with
        | none => trivial
        | some x =>
          obtain ⟨res, kids'⟩ := x
          rw [hdk] at ih
          cases res with
          | notFound => trivial
          | replaced st' n' old =>
            simp only [DelKShape] at ih
            simp only [DelShape]
            rw [cloneNode_shape]
            simp only [ShapeN, ih.2]
            exact ⟨hk, hc, ih.1⟩
          | removed st' old =>
            simp only [DelKShape] at ih
            simp only [DelShape]
            exact removeChild_shape P hP st' kind pfx lf kids w t b hk hc hkids ih
    · trivial
theorem delKids_shape (P : ArtParams) (hP : P = defaultParams) : (kids : Kids) → ∀ (st : St) (b : Nat)
    (key : List Nat), ShapeK kids → DelKShape kids b (delKids P st kids b key)
  | .nil => by
    intro st b key _
    simp [delKids, DelKShape]
  | .cons c n rs => by
    intro st b key hs
    simp only [ShapeK] at hs
    unfold delKids
    by_cases hcb : c = b
    · subst hcb
      simp only [if_true]
      have ih := delNode_shape P hP n st key hs.1
      cases hdn : delNode P st n key with
      | notFound => simp [DelKShape]
      | replaced st' n' old =>
        rw [hdn] at ih
        simp only [DelShape] at ih
        simp only [DelKShape, ShapeK, Kids.size]
        exact ⟨⟨ih, hs.2⟩, trivial⟩
      | removed st' old =>
        simp [DelKShape, Kids.erase, Kids.size]
    · simp only [hcb, if_false]
      by_cases hlt : c < b
      · simp only [hlt, if_true]
        have ih := delKids_shape P hP rs st b key hs.2
        cases hdk : delKids P st rs b key with
        | none => simp [DelKShape]
        | some x =>
          obtain ⟨res, rest'⟩ := x
          rw [hdk] at ih
          cases res with
          | notFound => simp [DelKShape]
          | replaced st' n' old =>
            simp only [DelKShape] at ih
            simp only [DelKShape, ShapeK, Kids.size, ih.2]
            exact ⟨⟨hs.1, ih.1⟩, trivial⟩
          | removed st' old =>
            simp only [DelKShape] at ih
            simp only [DelKShape, Kids.erase, hcb, if_false, Kids.size]
            omega
      · simp [hlt, DelKShape]
end

/-! ### consequences and the root level -/

theorem shape_nonempty : (n : Node) → ShapeN n → entries n ≠ []
  | .leaf p d, _ => by simp [entries]
  | .inner k p lf kids w t, h => by
    simp only [ShapeN] at h
    rw [entries_inner]
    cases lf with
    | some d => simp [lfList]
    | none =>
      obtain ⟨_, hc, hk⟩ := h
      simp only [Option.isSome_none, Bool.false_eq_true, false_or] at hc
      cases kids with
      | nil => simp [Kids.size] at hc
      | cons c m r =>
        simp only [ShapeK] at hk
        have := shape_nonempty m hk.1
        simp [lfList, entriesK, this]

def RootShape : Option Node → Prop
  | none => True
  | some r => ShapeN r

theorem Txn_insert_shape (P : ArtParams) (hP : P = defaultParams) (x : Txn) (k : List Nat) (v : Nat)
    (mod : Option (Nat → Nat → Nat)) (h : RootShape x.root) : RootShape (x.insert P k v mod).1.root := by
  unfold Txn.insert
  cases hroot : x.root with
  | none => simp [RootShape, ShapeN]
  | some r =>
    rw [hroot] at h
    exact insNode_shape P hP r x.st k k v mod h

theorem Txn_delete_shape (P : ArtParams) (hP : P = defaultParams) (x : Txn) (k : List Nat)
    (h : RootShape x.root) : RootShape (x.delete P k).1.root := by
  unfold Txn.delete
  cases hroot : x.root with
  | none => simpa [hroot] using h
  | some r =>
    rw [hroot] at h
    have := delNode_shape P hP r x.st k h
    simp only
    cases hdel : delNode P x.st r k with
    | notFound => simp only [hroot]; exact h
    | replaced st' n' old => rw [hdel] at this; exact this
    | removed st' old => simp only; trivial

theorem root_none_iff_empty (root : Option Node) (h : RootShape root) : root = none ↔ allRoot root = [] := by
  cases root with
  | none => simp [allRoot]
  | some r => simp [allRoot, shape_nonempty r h]

end Sdb.Art
