import SdbModel.Lemmas.ReconcilerInjectMeasure

/-!
  Lemmas.ReconcilerInjectDec — the hypothesis `R.roundSafe` (no queued foreign
  status write lands on an Error object) is decidable: it can be checked on
  concrete runs.
-/
namespace Sdb.Rec

def touchOK (r : R) : Inject → Bool
  | .touch id => (match r.get id with | some o => o.kind != .error | none => true)
  | _ => true

theorem touchOK_iff (r : R) (a : Inject) :
    touchOK r a = true ↔ ∀ id, a = .touch id → ∀ o, r.get id = some o → o.kind ≠ .error := by
  cases a with
  | put id data => simp [touchOK]
  | del id => simp [touchOK]
  | touch id =>
    simp only [touchOK]
    constructor
    · intro h id' e o ho
      cases e
      rw [ho] at h
      simpa using h
    · intro h
      cases hg : r.get id with
      | none => rfl
      | some o => simpa using h id rfl o hg

theorem injSafe_cons (r : R) (a : Nat × Inject) (as : List (Nat × Inject)) :
    InjSafe r (a :: as) ↔ touchOK r a.2 = true ∧ InjSafe (r.applyInject a.2) as := by
  rw [touchOK_iff]; exact Iff.rfl

instance injSafeDec : (acts : List (Nat × Inject)) → (r : R) → Decidable (InjSafe r acts)
  | [], _ => isTrue trivial
  | a :: as, r =>
    have := injSafeDec as (r.applyInject a.2)
    decidable_of_iff _ (injSafe_cons r a as).symm

instance (r : R) (obj : RObj) : Decidable (r.updSafe obj) := by unfold R.updSafe; infer_instance

theorem consumeSafe_cons (r : R) (c : Change) (cs : List Change) :
    r.consumeSafe (c :: cs) ↔
      (if !c.deleted ∧ !(c.obj.kind = .pending ∨ c.obj.kind = .refreshing) then
        (if c.deleted then ({ r with itDelRev := c.rev } : R) else { r with itRev := c.rev }).consumeSafe cs
      else
        (c.deleted = false → ((if c.deleted then ({ r with itDelRev := c.rev } : R) else { r with itRev := c.rev }).retryClear c.obj.id).updSafe c.obj) ∧
        (if ({ (((if c.deleted then ({ r with itDelRev := c.rev } : R) else { r with itRev := c.rev }).retryClear c.obj.id).processSingle c.obj c.rev c.deleted) with
                numReconciled := (((if c.deleted then ({ r with itDelRev := c.rev } : R) else { r with itRev := c.rev }).retryClear c.obj.id).processSingle c.obj c.rev c.deleted).numReconciled + 1 } : R).numReconciled ≥
              ({ (((if c.deleted then ({ r with itDelRev := c.rev } : R) else { r with itRev := c.rev }).retryClear c.obj.id).processSingle c.obj c.rev c.deleted) with
                numReconciled := (((if c.deleted then ({ r with itDelRev := c.rev } : R) else { r with itRev := c.rev }).retryClear c.obj.id).processSingle c.obj c.rev c.deleted).numReconciled + 1 } : R).cfg.roundSize
          then True
          else ({ (((if c.deleted then ({ r with itDelRev := c.rev } : R) else { r with itRev := c.rev }).retryClear c.obj.id).processSingle c.obj c.rev c.deleted) with
                numReconciled := (((if c.deleted then ({ r with itDelRev := c.rev } : R) else { r with itRev := c.rev }).retryClear c.obj.id).processSingle c.obj c.rev c.deleted).numReconciled + 1 } : R).consumeSafe cs)) := Iff.rfl

instance consumeSafeDec : (cs : List Change) → (r : R) → Decidable (r.consumeSafe cs)
  | [], _ => isTrue trivial
  | c :: cs, r =>
    have : ∀ x : R, Decidable (x.consumeSafe cs) := consumeSafeDec cs
    decidable_of_iff _ (consumeSafe_cons r c cs).symm

def optProp {α : Type} (o : Option α) (P : α → Prop) : Prop :=
  match o with
  | none => True
  | some h => P h

instance optPropDec {α : Type} (P : α → Prop) [∀ a, Decidable (P a)] : (o : Option α) → Decidable (optProp o P)
  | none => isTrue trivial
  | some h => (inferInstance : Decidable (P h))

theorem retriesSafe_succ (r : R) (fuel : Nat) :
    r.retriesSafe (fuel + 1) ↔
      (if r.numReconciled ≥ r.cfg.roundSize then True else
        optProp r.head (fun h =>
          if h.retryAt > r.now then True else
          (h.delete = false → r.retryPop.updSafe h.obj) ∧
          R.retriesSafe { (r.retryPop.processSingle h.obj h.rev h.delete) with
            numReconciled := (r.retryPop.processSingle h.obj h.rev h.delete).numReconciled + 1 } fuel)) := by
  conv => lhs; unfold R.retriesSafe
  split
  · exact Iff.rfl
  · unfold optProp
    cases r.head with
    | none => exact Iff.rfl
    | some h => exact Iff.rfl

instance retriesSafeDec : (fuel : Nat) → (r : R) → Decidable (r.retriesSafe fuel)
  | 0, _ => isTrue trivial
  | fuel + 1, r =>
    have : ∀ x : R, Decidable (x.retriesSafe fuel) := retriesSafeDec fuel
    decidable_of_iff _ (retriesSafe_succ r fuel).symm

instance (r : R) : Decidable r.tailSafe := by unfold R.tailSafe; infer_instance
instance (r : R) : Decidable r.roundSafe := by unfold R.roundSafe; infer_instance

end Sdb.Rec
