import SdbModel.Lemmas.TableWatchCore
/-!
  Lemmas for the C06 glue, part 8: the two-table database.  The table-suite driver
  keeps Model.Table's `DB` and Model.TableWatch's `DB` side by side and routes every
  operation to the table concerned (`Driver/TableSuite.lean`: `stepCore` + `twStep`).
  `PDB.step` is that product step for the operations that matter to the index trees
  (begin, an operation through the open transaction, commit, abort, a `side`
  transaction on a table the open one does not hold); everything else the driver does
  to Model.Table's database (change iterators, initializers, collector, …) is a
  `DBCore` step.  In every reachable product state both tables are `TW.Reach` pairs,
  so the per-table glue theorems apply to them.
  Core Lean only.
-/
namespace Sdb.TW
open Sdb.Art Sdb.Tbl Sdb.ArtW

structure PDB where
  db : Tbl.DB
  tw : TW.DB

inductive POp where
  | beginW (lm la : Bool)
  | op (ti : Nat) (o : TOp)
  | commit
  | abort
  | side (ti : Nat) (o : Obj)

/-- the `side` transaction as the driver computes it on Model.Table's database -/
def sideDB (db : Tbl.DB) (ti : Nat) (o : Obj) : Tbl.DB :=
  let db1 := ({ db with wtxn := none }).beginW (ti == 0) (ti == 1)
  match db1.wtxn with
  | some es1 =>
    let r := Tbl.modify (es1.getD ti default) 0 o false
    let db2 := ({ db1 with wtxn := some (es1.set ti r.1) }).commit
    { db2 with wtxn := db.wtxn, oldRoot := db.oldRoot }
  | none => db

def PDB.step (p : PDB) : POp → PDB
  | .beginW lm la => if p.db.wtxn.isSome then p else { db := p.db.beginW lm la, tw := p.tw.beginW lm la }
  | .op ti o =>
    match p.db.wtxn with
    | none => p
    | some es =>
      { db := { p.db with wtxn := some (es.set ti (o.onTable (es.getD ti default))) }
        tw := p.tw.write ti (o.ops (es.getD ti default)) }
  | .commit =>
    match p.db.wtxn with
    | none => p
    | some _ => { db := p.db.commit, tw := p.tw.commit }
  | .abort => { db := p.db.abort, tw := p.tw.abort }
  | .side ti o =>
    match p.db.wtxn with
    | none => p
    | some es =>
      if (es.getD ti default).locked || !(ti < 2) then p else
      { db := sideDB p.db ti o
        tw := p.tw.side ti (modifyOps { p.db.root.getD ti default with locked := true } 0 o false) }

/-! ### one table inside an open transaction -/

/-- the entry of a table in the open transaction: not held (nothing happens to it), or the product run
    of some list of operations (Model.Table's entry up to the non-core fields) -/
def TxnRel (t : TableS) (c : CTab) (e : TableS) (w : WTab) : Prop :=
  (e.locked = false ∧ w.locked = false) ∨
  (∃ ops, Core (runT c (beginT t c) ops).1 e ∧ w = (runT c (beginT t c) ops).2)

theorem onTable_locked (t : TableS) (op : TOp) : (op.onTable t).locked = t.locked := by
  cases op with
  | modify g o mg => exact modify_locked t g o mg
  | delete g id => exact delete_locked t g id
  | deleteAll => exact deleteAll_locked t
  | read ix k => rfl

theorem runT_fst_locked (c : CTab) (s : TableS × WTab) (ops : List TOp) : (runT c s ops).1.locked = s.1.locked := by
  induction ops generalizing s with
  | nil => rfl
  | cons op ops ih =>
    rw [show runT c s (op :: ops) = runT c (stepT c s op) ops from rfl, ih]
    exact onTable_locked s.1 op

theorem runT_append (c : CTab) (s : TableS × WTab) (a b : List TOp) : runT c s (a ++ b) = runT c (runT c s a) b := by
  unfold runT; rw [List.foldl_append]

theorem TxnRel.step {t : TableS} {c : CTab} {e : TableS} {w : WTab} (h : TxnRel t c e w) (o : TOp) :
    TxnRel t c (o.onTable e) (w.applyOps c (o.ops e)) := by
  rcases h with ⟨h1, h2⟩ | ⟨ops, hc, hw⟩
  · left; exact ⟨by rw [onTable_locked]; exact h1, h2⟩
  · right
    refine ⟨ops ++ [o], ?_, ?_⟩
    · rw [runT_append]; exact onTable_core hc o
    · rw [runT_append, hw, ops_core hc o]; rfl

theorem TxnRel.begin (t : TableS) (c : CTab) (lk : Bool) :
    TxnRel t c { t with locked := lk, revDirty := false } (c.begin lk) := by
  cases lk with
  | false => left; exact ⟨rfl, rfl⟩
  | true => right; exact ⟨[], ⟨rfl, rfl, rfl, rfl, rfl, rfl, rfl, rfl⟩, rfl⟩

theorem TxnRel.core {t : TableS} {c : CTab} {e e' : TableS} {w : WTab} (h : TxnRel t c e w) (hc : Core e e') :
    TxnRel t c e' w := by
  rcases h with ⟨h1, h2⟩ | ⟨ops, hc', hw⟩
  · left; exact ⟨by rw [hc.locked]; exact h1, h2⟩
  · right; exact ⟨ops, hc'.trans hc, hw⟩

theorem commit_unlocked (c : CTab) (w : WTab) (h : w.locked = false) : c.commit w = c := by
  unfold CTab.commit; simp [h]

theorem abort_unlocked (c : CTab) (w : WTab) (h : w.locked = false) : c.abort w = c := by
  unfold CTab.abort; simp [h]

/-- Commit publishes a held table's entry (lock and bookkeeping fields reset: `e'`) and leaves a table that
    is not held as it is: in both cases the new pair is reachable -/
theorem TxnRel.commit {t : TableS} {c : CTab} {e : TableS} {w : WTab} (hr : Reach t c) (h : TxnRel t c e w)
    (e' : TableS) (hi : ∀ i, imap e' i = imap e i) (hl : e'.lpm = e.lpm) (hu : e'.ulpm = e.ulpm) :
    Reach (if e.locked then e' else t) (c.commit w) := by
  rcases h with ⟨h1, h2⟩ | ⟨ops, hc, hw⟩
  · rw [h1, commit_unlocked c w h2]; exact hr
  · have hlk : e.locked = true := by rw [hc.locked, runT_fst_locked]; rfl
    rw [hlk, hw]
    simp only [if_true]
    exact Reach.frame _ _ _ (Reach.commit t c ops hr) (fun i => (hi i).trans (hc.imap i)) (hl.trans hc.lpm)
      (hu.trans hc.ulpm)

theorem TxnRel.abort {t : TableS} {c : CTab} {e : TableS} {w : WTab} (hr : Reach t c) (h : TxnRel t c e w) :
    Reach t (c.abort w) := by
  rcases h with ⟨_, h2⟩ | ⟨ops, _, hw⟩
  · rw [abort_unlocked c w h2]; exact hr
  · rw [hw]; exact Reach.abort t c ops hr

theorem TxnRel.unlocked {t : TableS} {c : CTab} {e : TableS} {w : WTab} (h : TxnRel t c e w) (hl : e.locked = false)
    (t' : TableS) (c' : CTab) : TxnRel t' c' e w := by
  rcases h with ⟨h1, h2⟩ | ⟨ops, hc, _⟩
  · left; exact ⟨h1, h2⟩
  · have : e.locked = true := by rw [hc.locked, runT_fst_locked]; rfl
    rw [hl] at this; exact absurd this (by simp)

/-! ### the invariant of the product database -/

/-- both tables are reachable pairs; an open transaction holds, per table, a `TxnRel` entry -/
def PInv (p : PDB) : Prop :=
  ∃ tm ta cm ca, p.db.root = [tm, ta] ∧ p.tw.root = [cm, ca] ∧ Reach tm cm ∧ Reach ta ca ∧
    ((p.db.wtxn = none ∧ p.tw.wtxn = none) ∨
     ∃ em ea wm wa, p.db.wtxn = some [em, ea] ∧ p.tw.wtxn = some [wm, wa] ∧ TxnRel tm cm em wm ∧ TxnRel ta ca ea wa)

theorem PInv.init : PInv { db := Tbl.newDB, tw := {} } :=
  ⟨_, _, _, _, rfl, rfl, Reach.init true, Reach.init false, Or.inl ⟨rfl, rfl⟩⟩

theorem PInv.beginW {p : PDB} (h : PInv p) (lm la : Bool) : PInv (p.step (.beginW lm la)) := by
  obtain ⟨tm, ta, cm, ca, hT, hW, rm, ra, htx⟩ := h
  simp only [PDB.step]
  split
  · exact ⟨tm, ta, cm, ca, hT, hW, rm, ra, htx⟩
  · refine ⟨tm, ta, cm, ca, ?_, ?_, rm, ra, Or.inr ⟨_, _, _, _, ?_, ?_, TxnRel.begin tm cm lm, TxnRel.begin ta ca la⟩⟩
    · simp [Tbl.DB.beginW, hT]
    · simp [TW.DB.beginW, hW]
    · simp [Tbl.DB.beginW, hT]
    · simp [TW.DB.beginW, hW]

theorem PInv.op {p : PDB} (h : PInv p) (ti : Nat) (o : TOp) : PInv (p.step (.op ti o)) := by
  obtain ⟨tm, ta, cm, ca, hT, hW, rm, ra, htx⟩ := h
  simp only [PDB.step]
  rcases htx with ⟨h1, h2⟩ | ⟨em, ea, wm, wa, h1, h2, xm, xa⟩
  · simp only [h1]
    exact ⟨tm, ta, cm, ca, hT, hW, rm, ra, Or.inl ⟨h1, h2⟩⟩
  · simp only [h1]
    refine ⟨tm, ta, cm, ca, hT, ?_, rm, ra, ?_⟩
    · simp [TW.DB.write, h2, hW]
    · match ti with
      | 0 =>
        refine Or.inr ⟨o.onTable em, ea, wm.applyOps cm (o.ops em), wa, ?_, ?_, xm.step o, xa⟩
        · simp
        · simp [TW.DB.write, h2, TW.DB.tab, hW]
      | 1 =>
        refine Or.inr ⟨em, o.onTable ea, wm, wa.applyOps ca (o.ops ea), ?_, ?_, xm, xa.step o⟩
        · simp
        · simp [TW.DB.write, h2, TW.DB.tab, hW]
      | n + 2 =>
        refine Or.inr ⟨em, ea, wm, wa, ?_, ?_, xm, xa⟩
        · simp
        · simp [TW.DB.write, h2]

/-- what Model.Table's `DB.commit` publishes for a held table -/
def commitE (e : TableS) : TableS :=
  { e with locked := false, revDirty := false, init := (match e.init with | some [] => none | i => i),
           gen := if e.revDirty then e.gen + 1 else e.gen }

theorem PInv.commit {p : PDB} (h : PInv p) : PInv (p.step .commit) := by
  obtain ⟨tm, ta, cm, ca, hT, hW, rm, ra, htx⟩ := h
  simp only [PDB.step]
  rcases htx with ⟨h1, h2⟩ | ⟨em, ea, wm, wa, h1, h2, xm, xa⟩
  · simp only [h1]
    exact ⟨tm, ta, cm, ca, hT, hW, rm, ra, Or.inl ⟨h1, h2⟩⟩
  · simp only [h1]
    refine ⟨if em.locked then commitE em else tm, if ea.locked then commitE ea else ta, cm.commit wm, ca.commit wa,
      ?_, ?_, ?_, ?_, Or.inl ⟨?_, ?_⟩⟩
    · simp only [Tbl.DB.commit, h1, hT, List.zip_cons_cons, List.zip_nil_right, List.map_cons, List.map_nil]
      rfl
    · simp only [TW.DB.commit, h2, hW, List.zip_cons_cons, List.zip_nil_right, List.map_cons, List.map_nil]
    · exact xm.commit rm (commitE em) (fun i => by cases i <;> rfl) rfl rfl
    · exact xa.commit ra (commitE ea) (fun i => by cases i <;> rfl) rfl rfl
    · simp [Tbl.DB.commit, h1]
    · simp [TW.DB.commit, h2]

theorem PInv.abort {p : PDB} (h : PInv p) : PInv (p.step .abort) := by
  obtain ⟨tm, ta, cm, ca, hT, hW, rm, ra, htx⟩ := h
  simp only [PDB.step]
  rcases htx with ⟨h1, h2⟩ | ⟨em, ea, wm, wa, h1, h2, xm, xa⟩
  · refine ⟨tm, ta, cm, ca, hT, ?_, rm, ra, Or.inl ⟨rfl, ?_⟩⟩
    · simp [TW.DB.abort, h2, hW]
    · simp [TW.DB.abort, h2]
  · refine ⟨tm, ta, _, _, hT, ?_, xm.abort rm, xa.abort ra, Or.inl ⟨rfl, ?_⟩⟩
    · simp only [TW.DB.abort, h2, hW, List.zip_cons_cons, List.zip_nil_right, List.map_cons, List.map_nil]
    · simp [TW.DB.abort, h2]

/-- the pair a `side` transaction (one Insert, committed) leaves behind is reachable -/
theorem side_reach (t : TableS) (c : CTab) (hr : Reach t c) (o : Obj) :
    Reach (commitE (Tbl.modify { t with locked := true, revDirty := false } 0 o false).1)
      (c.commit ((c.begin true).applyOps c (modifyOps { t with locked := true } 0 o false))) := by
  have h1 := Reach.commit t c [.modify 0 o false] hr
  have hc : Core { t with locked := true } { t with locked := true, revDirty := false } :=
    ⟨rfl, rfl, rfl, rfl, rfl, rfl, rfl, rfl⟩
  have hm := modify_core hc 0 o false
  refine Reach.frame _ _ _ h1 ?_ ?_ ?_
  · intro i
    have : imap (commitE (Tbl.modify { t with locked := true, revDirty := false } 0 o false).1) i =
        imap (Tbl.modify { t with locked := true, revDirty := false } 0 o false).1 i := by cases i <;> rfl
    rw [this]; exact hm.imap i
  · exact hm.lpm
  · exact hm.ulpm

theorem sideDB_zero (db : Tbl.DB) (tm ta : TableS) (hT : db.root = [tm, ta]) (o : Obj) :
    (sideDB db 0 o).root = [commitE (Tbl.modify { tm with locked := true, revDirty := false } 0 o false).1, ta] ∧
    (sideDB db 0 o).wtxn = db.wtxn := by
  have hl : (Tbl.modify { tm with locked := true, revDirty := false } 0 o false).1.locked = true := by
    rw [modify_locked]
  unfold sideDB
  simp only [Tbl.DB.beginW, hT, List.mapIdx_cons, List.mapIdx_nil, beq_self_eq_true, if_true]
  simp [Tbl.DB.commit, hl, commitE] <;> rfl

theorem sideDB_one (db : Tbl.DB) (tm ta : TableS) (hT : db.root = [tm, ta]) (o : Obj) :
    (sideDB db 1 o).root = [tm, commitE (Tbl.modify { ta with locked := true, revDirty := false } 0 o false).1] ∧
    (sideDB db 1 o).wtxn = db.wtxn := by
  have hl : (Tbl.modify { ta with locked := true, revDirty := false } 0 o false).1.locked = true := by
    rw [modify_locked]
  unfold sideDB
  simp only [Tbl.DB.beginW, hT, List.mapIdx_cons, List.mapIdx_nil]
  simp [Tbl.DB.commit, hl, commitE] <;> rfl

theorem PInv.side {p : PDB} (h : PInv p) (ti : Nat) (o : Obj) : PInv (p.step (.side ti o)) := by
  obtain ⟨tm, ta, cm, ca, hT, hW, rm, ra, htx⟩ := h
  simp only [PDB.step]
  rcases htx with ⟨h1, h2⟩ | ⟨em, ea, wm, wa, h1, h2, xm, xa⟩
  · simp only [h1]
    exact ⟨tm, ta, cm, ca, hT, hW, rm, ra, Or.inl ⟨h1, h2⟩⟩
  · simp only [h1]
    split
    · exact ⟨tm, ta, cm, ca, hT, hW, rm, ra, Or.inr ⟨em, ea, wm, wa, h1, h2, xm, xa⟩⟩
    · rename_i hcond
      simp only [Bool.or_eq_true, Bool.not_eq_true', decide_eq_false_iff_not, not_or, Bool.not_eq_true,
        Decidable.not_not] at hcond
      obtain ⟨hlk, hlt⟩ := hcond
      match ti, hlt, hlk with
      | 0, _, hlk =>
        have hem : em.locked = false := by simpa using hlk
        obtain ⟨e1, e2⟩ := sideDB_zero p.db tm ta hT o
        refine ⟨_, ta, _, ca, e1, ?_, side_reach tm cm rm o, ra,
          Or.inr ⟨em, ea, wm, wa, e2.trans h1, ?_, xm.unlocked hem _ _, xa⟩⟩
        · simp [TW.DB.side, TW.DB.tab, hW, hT]
        · simp [TW.DB.side, h2]
      | 1, _, hlk =>
        have hea : ea.locked = false := by simpa using hlk
        obtain ⟨e1, e2⟩ := sideDB_one p.db tm ta hT o
        refine ⟨tm, _, cm, _, e1, ?_, rm, side_reach ta ca ra o,
          Or.inr ⟨em, ea, wm, wa, e2.trans h1, ?_, xm, xa.unlocked hea _ _⟩⟩
        · simp [TW.DB.side, TW.DB.tab, hW, hT]
        · simp [TW.DB.side, h2]
      | n + 2, hlt, _ => omega

theorem PInv.step {p : PDB} (h : PInv p) (op : POp) : PInv (p.step op) := by
  cases op with
  | beginW lm la => exact h.beginW lm la
  | op ti o => exact h.op ti o
  | commit => exact h.commit
  | abort => exact h.abort
  | side ti o => exact h.side ti o

/-- a step of Model.Table's database that leaves the core fields of every table (committed and inside the
    open transaction) alone: change iterators, trackers, initializers, the collector, … -/
def DBCore (db db' : Tbl.DB) : Prop :=
  (∃ tm ta tm' ta', db.root = [tm, ta] ∧ db'.root = [tm', ta'] ∧ Core tm tm' ∧ Core ta ta') ∧
  ((db.wtxn = none ∧ db'.wtxn = none) ∨
   ∃ em ea em' ea', db.wtxn = some [em, ea] ∧ db'.wtxn = some [em', ea'] ∧ Core em em' ∧ Core ea ea')

theorem runT_core (c : CTab) (ops : List TOp) (s s' : TableS × WTab) (h1 : Core s.1 s'.1) (h2 : s'.2 = s.2) :
    Core (runT c s ops).1 (runT c s' ops).1 ∧ (runT c s' ops).2 = (runT c s ops).2 := by
  induction ops generalizing s s' with
  | nil => exact ⟨h1, h2⟩
  | cons op ops ih =>
    apply ih (stepT c s op) (stepT c s' op)
    · exact onTable_core h1 op
    · show s'.2.applyOps c (op.ops s'.1) = s.2.applyOps c (op.ops s.1)
      rw [h2, ops_core h1 op]

/-- the committed table a transaction was opened on may be replaced by a core-equal one -/
theorem TxnRel.root_core {t t' : TableS} {c : CTab} {e : TableS} {w : WTab} (h : TxnRel t c e w) (hc : Core t t') :
    TxnRel t' c e w := by
  rcases h with ⟨h1, h2⟩ | ⟨ops, hcc, hw⟩
  · left; exact ⟨h1, h2⟩
  · right
    have hb : Core (beginT t c).1 (beginT t' c).1 :=
      ⟨rfl, hc.full, hc.rev, hc.primary, hc.uIdx, hc.tagIdx, hc.lpm, hc.ulpm⟩
    obtain ⟨r1, r2⟩ := runT_core c ops (beginT t c) (beginT t' c) hb rfl
    exact ⟨ops, r1.symm.trans hcc, hw.trans r2.symm⟩

theorem PInv.frame {p : PDB} (h : PInv p) (db' : Tbl.DB) (hc : DBCore p.db db') : PInv { db := db', tw := p.tw } := by
  obtain ⟨tm, ta, cm, ca, hT, hW, rm, ra, htx⟩ := h
  obtain ⟨⟨tm0, ta0, tm', ta', hT0, hT', cmm, caa⟩, hx⟩ := hc
  rw [hT] at hT0
  simp only [List.cons.injEq, and_true] at hT0
  obtain ⟨rfl, rfl⟩ := hT0
  refine ⟨tm', ta', cm, ca, hT', hW, rm.core cmm, ra.core caa, ?_⟩
  rcases htx with ⟨h1, h2⟩ | ⟨em, ea, wm, wa, h1, h2, xm, xa⟩
  · rcases hx with ⟨_, g2⟩ | ⟨em0, ea0, em', ea', g1, _⟩
    · exact Or.inl ⟨g2, h2⟩
    · rw [h1] at g1; exact absurd g1 (by simp)
  · rcases hx with ⟨g1, _⟩ | ⟨em0, ea0, em', ea', g1, g2, cem, cea⟩
    · rw [h1] at g1; exact absurd g1 (by simp)
    · rw [h1] at g1
      simp only [Option.some.injEq, List.cons.injEq, and_true] at g1
      obtain ⟨rfl, rfl⟩ := g1
      exact Or.inr ⟨em', ea', wm, wa, g2, h2, (xm.core cem).root_core cmm, (xa.core cea).root_core caa⟩

/-- product states reachable from the fresh database -/
inductive PReach : PDB → Prop where
  | init : PReach { db := Tbl.newDB, tw := {} }
  | step (p : PDB) (op : POp) : PReach p → PReach (p.step op)
  | frame (p : PDB) (db' : Tbl.DB) : PReach p → DBCore p.db db' → PReach { db := db', tw := p.tw }

theorem PReach.inv {p : PDB} (h : PReach p) : PInv p := by
  induction h with
  | init => exact PInv.init
  | step p op _ ih => exact ih.step op
  | frame p db' _ hc ih => exact ih.frame db' hc

end Sdb.TW
