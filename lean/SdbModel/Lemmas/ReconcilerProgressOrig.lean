import SdbModel.Lemmas.ReconcilerProgressPace
import SdbModel.Lemmas.ReconcilerProgressIdle

/-!
  Lemmas.ReconcilerProgressOrig — with `origRev` kept over the retries of an item
  (`retries.Add`), every Update item carries the object version whose Update
  failed FIRST: `it.obj` is Pending / Refreshing and `it.origRev = it.obj.rev`
  (valid backoff configuration).
-/
namespace Sdb.Rec

/-- every Update item stores the version of its object that failed first, and `origRev` is the
    revision of that version -/
def OI (r : R) : Prop := ∀ it ∈ r.items, it.delete = false → it.origRev = it.obj.rev ∧ needs it.obj.kind ∧ it.obj.id = it.id

theorem OI.round {r : R} (h : OI r) (hp : PInv r) (hpos : PosB r.cfg) : OI r.round := by
  obtain ⟨_, b⟩ := round_items_calls hp.w.rinv hpos
  intro it' hit' hd
  rcases b it' hit' with c | ⟨_, _, _, c4, c5⟩ | ⟨it, hit, _, d1, _, _, _, d5, d6, d7, _⟩
  · exact h it' c hd
  · rcases c5 with ⟨e, _⟩ | ⟨_, _, e2, _, e4⟩
    · rw [hd] at e; cases e
    · exact ⟨e4, e2, c4.symm⟩
  · obtain ⟨a1, a2, a3⟩ := h it hit (by rw [← d6]; exact hd)
    exact ⟨by rw [d5, d7]; exact a1, by rw [d7]; exact a2, by rw [d7, a3]; exact d1⟩

theorem OI.congr {r r' : R} (h : OI r) (e : r'.items = r.items) : OI r' := by unfold OI; rw [e]; exact h

theorem OI.quiesce {r : R} (h : OI r) (hp : PInv r) (hpos : PosB r.cfg) (fuel : Nat) : OI (r.quiesce fuel) := by
  induction fuel generalizing r with
  | zero => exact h
  | succ n ih =>
    unfold R.quiesce
    simp only
    obtain ⟨e1, _⟩ := fireTimer_frame2 r
    obtain ⟨_, _, _, _, e2⟩ := fireTimer_frame r
    have h1 : OI r.fireTimer := h.congr e1
    have hpos1 : PosB r.fireTimer.cfg := by rw [e2]; exact hpos
    split
    · refine ih (h1.round hp.fireTimer hpos1) hp.fireTimer.round ?_
      rw [hp.fireTimer.w.round_frame.2]; exact hpos1
    · exact h1

theorem OI.advance {r : R} (h : OI r) (hp : PInv r) (hpos : PosB r.cfg) (ms fuel : Nat) : OI (r.advance ms fuel) := by
  induction fuel generalizing r ms with
  | zero => exact h.congr rfl
  | succ n ih =>
    unfold R.advance
    simp only
    split
    · rename_i t _
      split
      · have hp1 := hp.setNow (max t r.now) (by omega)
        have h1 : OI ({ r with now := max t r.now } : R) := h.congr rfl
        refine ih (h1.quiesce hp1 hpos 64) (hp1.quiesce 64) ?_ _
        rw [(hp1.w.quiesce_frame 64).2]; exact hpos
      · exact h.congr rfl
    · exact h.congr rfl

end Sdb.Rec
