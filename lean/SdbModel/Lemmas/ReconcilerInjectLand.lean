import SdbModel.Lemmas.ReconcilerInjectStep

/-!
  Lemmas.ReconcilerInjectLand — the writes that land while an Update runs
  (`R.applyInject`, folded over the injects queued for the object): what they
  leave alone, that they commute with the reconciler's own bookkeeping, that
  they preserve `JInv`, and `processSingle` rewritten as "bookkeeping first,
  then the writes land".
-/
namespace Sdb.Rec

/-- all the writes `acts` land, in order -/
def R.landAll (r : R) (acts : List (Nat × Inject)) : R := acts.foldl (fun (r : R) (a : Nat × Inject) => r.applyInject a.2) r

@[simp] theorem landAll_nil (r : R) : r.landAll [] = r := rfl
@[simp] theorem landAll_cons (r : R) (a : Nat × Inject) (as : List (Nat × Inject)) :
    r.landAll (a :: as) = (r.applyInject a.2).landAll as := rfl

/-- no foreign status write in `acts` lands on an object that is in Error state
    at that moment (known finding K4: such a write loses the retry) -/
def InjSafe (r : R) : List (Nat × Inject) → Prop
  | [] => True
  | a :: as => (∀ id, a.2 = .touch id → ∀ o, r.get id = some o → o.kind ≠ .error) ∧ InjSafe (r.applyInject a.2) as

/-- what a landing write leaves alone -/
structure FrameW (r r' : R) : Prop where
  items : r'.items = r.items
  timer : r'.timer = r.timer
  log : r'.log = r.log
  itRev : r'.itRev = r.itRev
  itDelRev : r'.itDelRev = r.itDelRev
  refreshedAt : r'.refreshedAt = r.refreshedAt
  pending : r'.pending = r.pending
  cfg : r'.cfg = r.cfg
  now : r'.now = r.now
  failing : r'.failing = r.failing
  injects : r'.injects = r.injects
  results : r'.results = r.results
  numReconciled : r'.numReconciled = r.numReconciled
  tieSeen : r'.tieSeen = r.tieSeen
  progressRev : r'.progressRev = r.progressRev
  progressLW : r'.progressLW = r.progressLW

theorem FrameW.refl (r : R) : FrameW r r := by constructor <;> rfl

theorem FrameW.trans {a b c : R} (h1 : FrameW a b) (h2 : FrameW b c) : FrameW a c := by
  constructor
  · exact h2.items.trans h1.items
  · exact h2.timer.trans h1.timer
  · exact h2.log.trans h1.log
  · exact h2.itRev.trans h1.itRev
  · exact h2.itDelRev.trans h1.itDelRev
  · exact h2.refreshedAt.trans h1.refreshedAt
  · exact h2.pending.trans h1.pending
  · exact h2.cfg.trans h1.cfg
  · exact h2.now.trans h1.now
  · exact h2.failing.trans h1.failing
  · exact h2.injects.trans h1.injects
  · exact h2.results.trans h1.results
  · exact h2.numReconciled.trans h1.numReconciled
  · exact h2.tieSeen.trans h1.tieSeen
  · exact h2.progressRev.trans h1.progressRev
  · exact h2.progressLW.trans h1.progressLW

theorem frameW_applyInject (r : R) (a : Inject) : FrameW r (r.applyInject a) := by
  cases a with
  | put id data => constructor <;> rfl
  | del id => simp only [R.applyInject, R.delObj]; split <;> constructor <;> rfl
  | touch id => simp only [R.applyInject, R.touch]; split <;> constructor <;> rfl

theorem frameW_landAll (acts : List (Nat × Inject)) (r : R) : FrameW r (r.landAll acts) := by
  induction acts generalizing r with
  | nil => exact FrameW.refl r
  | cons a as ih => exact (frameW_applyInject r a.2).trans (ih _)

/-- the table only grows: whatever is new was written after `r.tableRev` -/
structure Grow (r r' : R) : Prop where
  tableRev : r.tableRev ≤ r'.tableRev
  nextSid : r.nextSid ≤ r'.nextSid
  objs : ∀ o ∈ r'.objs, o ∈ r.objs ∨ o.rev > r.tableRev
  dels : ∀ d ∈ r'.dels, d ∈ r.dels ∨ d.2 > r.tableRev

theorem Grow.refl (r : R) : Grow r r := ⟨Nat.le_refl _, Nat.le_refl _, fun _ h => Or.inl h, fun _ h => Or.inl h⟩

theorem Grow.of_eq {r r' : R} (h1 : r'.objs = r.objs) (h2 : r'.dels = r.dels) (h3 : r'.tableRev = r.tableRev)
    (h4 : r'.nextSid = r.nextSid) : Grow r r' :=
  ⟨by omega, by omega, fun o ho => Or.inl (h1 ▸ ho), fun d hd => Or.inl (h2 ▸ hd)⟩

theorem Grow.trans {a b c : R} (h1 : Grow a b) (h2 : Grow b c) : Grow a c := by
  refine ⟨Nat.le_trans h1.tableRev h2.tableRev, Nat.le_trans h1.nextSid h2.nextSid, fun o ho => ?_, fun d hd => ?_⟩
  · rcases h2.objs o ho with a | a
    · exact h1.objs o a
    · exact Or.inr (by have := h1.tableRev; omega)
  · rcases h2.dels d hd with a | a
    · exact h1.dels d a
    · exact Or.inr (by have := h1.tableRev; omega)

theorem grow_setObj (r : R) (o : RObj) (n : Nat) (hn : r.nextSid ≤ n) : Grow r { (r.setObj o) with nextSid := n } := by
  refine ⟨by simp, hn, fun x hx => ?_, fun d hd => ?_⟩
  · rcases (mem_setObj_objs r o x).1 hx with ⟨hx, _⟩ | rfl
    · exact Or.inl hx
    · exact Or.inr (by simp)
  · exact Or.inl (List.mem_filter.1 hd).1

theorem grow_applyInject (r : R) (a : Inject) : Grow r (r.applyInject a) := by
  cases a with
  | put id data =>
    obtain ⟨other, he⟩ := userPut_eq r id data
    show Grow r (r.userPut id data)
    rw [he]; exact grow_setObj r _ _ (Nat.le_succ _)
  | del id =>
    show Grow r (r.delObj id)
    cases hg : r.get id with
    | none => rw [delObj_of_none hg]; exact Grow.refl r
    | some o =>
      rw [delObj_of_get hg]
      refine ⟨by simp, Nat.le_refl _, fun x hx => Or.inl (List.mem_filter.1 hx).1, fun d hd => ?_⟩
      rcases List.mem_append.1 hd with hd | hd
      · exact Or.inl hd
      · simp only [List.mem_singleton] at hd
        rw [hd]; exact Or.inr (by simp)
  | touch id =>
    show Grow r (r.touch id)
    unfold R.touch
    split
    · exact grow_setObj r _ _ (Nat.le_refl _)
    · exact Grow.refl r

theorem grow_landAll (acts : List (Nat × Inject)) (r : R) : Grow r (r.landAll acts) := by
  induction acts generalizing r with
  | nil => exact Grow.refl r
  | cons a as ih => exact (grow_applyInject r a.2).trans (ih _)

/-! ## `JInv` is preserved by the landing writes -/

theorem JInv.applyInject {r : R} {rs : List Res} (h : JInv r rs) (a : Inject)
    (hs : ∀ id, a = .touch id → ∀ o, r.get id = some o → o.kind ≠ .error) : JInv (r.applyInject a) rs := by
  cases a with
  | put id data => exact h.userPut id data
  | del id => exact h.delObj id
  | touch id => exact h.touch id (hs id rfl)

theorem JInv.landAll (acts : List (Nat × Inject)) {r : R} {rs : List Res} (h : JInv r rs) (hs : InjSafe r acts) :
    JInv (r.landAll acts) rs := by
  induction acts generalizing r with
  | nil => exact h
  | cons a as ih => exact ih (h.applyInject a.2 hs.1) hs.2

/-! ## the writes commute with the reconciler's bookkeeping -/

/-- the state `b` with the table (objects, graveyard, revision, next status id) of `t` -/
def R.tbl (t b : R) : R := { b with objs := t.objs, tableRev := t.tableRev, dels := t.dels, nextSid := t.nextSid }

theorem tbl_self (r : R) : R.tbl r r = r := rfl

theorem tbl_get (t b : R) (id : Nat) : (R.tbl t b).get id = t.get id := rfl

theorem tbl_applyInject (t b : R) (a : Inject) : (R.tbl t b).applyInject a = R.tbl (t.applyInject a) b := by
  cases a with
  | put id data => rfl
  | del id =>
    show (R.tbl t b).delObj id = R.tbl (t.delObj id) b
    cases hg : t.get id with
    | none =>
      have hg' : (R.tbl t b).get id = none := hg
      rw [delObj_of_none hg, delObj_of_none hg']
    | some o =>
      have hg' : (R.tbl t b).get id = some o := hg
      rw [delObj_of_get hg, delObj_of_get hg']
      rfl
  | touch id =>
    show (R.tbl t b).touch id = R.tbl (t.touch id) b
    unfold R.touch
    rw [tbl_get]
    cases t.get id with
    | none => rfl
    | some o => rfl

theorem tbl_landAll (acts : List (Nat × Inject)) (t b : R) : (R.tbl t b).landAll acts = R.tbl (t.landAll acts) b := by
  induction acts generalizing t with
  | nil => rfl
  | cons a as ih => rw [landAll_cons, tbl_applyInject, ih, landAll_cons]

theorem tbl_retryClear (t b : R) (id : Nat) : (R.tbl t b).retryClear id = R.tbl t (b.retryClear id) := by
  unfold R.retryClear
  show (match b.items.find? (·.id = id) with | none => R.tbl t b | some it => _) = _
  cases b.items.find? (·.id = id) with
  | none => rfl
  | some it => rfl

theorem injSafe_tbl (acts : List (Nat × Inject)) (t b : R) : InjSafe (R.tbl t b) acts ↔ InjSafe t acts := by
  induction acts generalizing t with
  | nil => exact Iff.rfl
  | cons a as ih =>
    unfold InjSafe
    rw [tbl_applyInject, ih]
    exact Iff.rfl

/-- a state with the same table evolves in the same way -/
theorem landAll_of_tbl (r b : R) (h1 : b.objs = r.objs) (h2 : b.tableRev = r.tableRev) (h3 : b.dels = r.dels)
    (h4 : b.nextSid = r.nextSid) (acts : List (Nat × Inject)) : b.landAll acts = R.tbl (r.landAll acts) b := by
  have : b = R.tbl r b := by
    cases b; simp only [R.tbl] at *; simp [h1, h2, h3, h4]
  rw [this, tbl_landAll]
  rfl

theorem injSafe_of_tbl (r b : R) (h1 : b.objs = r.objs) (h2 : b.tableRev = r.tableRev) (h3 : b.dels = r.dels)
    (h4 : b.nextSid = r.nextSid) (acts : List (Nat × Inject)) : InjSafe b acts ↔ InjSafe r acts := by
  have : b = R.tbl r b := by
    cases b; simp only [R.tbl] at *; simp [h1, h2, h3, h4]
  rw [this, injSafe_tbl]

/-- the state in which the writes of an Update land, with the reconciler's
    bookkeeping of this call (log entry, remembered result, cleared retry) done first -/
def R.preUpdate (r : R) (obj : RObj) (rev : Nat) : R :=
  let r0 : R := { r with log := r.log ++ [({ op := "U", id := obj.id, data := obj.data, ok := !r.isFailing obj.id } : Call)],
                         injects := r.injects.filter (fun (a : Nat × Inject) => a.1 ≠ obj.id),
                         results := r.results ++ [(obj, obj, rev, obj.sid, r.isFailing obj.id)] }
  if r.isFailing obj.id then r0 else r0.retryClear obj.id

theorem processSingle_update_raw (r : R) (obj : RObj) (rev : Nat) :
    r.processSingle obj rev false =
      (let r0 : R := { r with log := r.log ++ [({ op := "U", id := obj.id, data := obj.data, ok := !r.isFailing obj.id } : Call)],
                              injects := r.injects.filter (fun (a : Nat × Inject) => a.1 ≠ obj.id) }
       let L := r0.landAll (r.injects.filter (fun (a : Nat × Inject) => a.1 = obj.id))
       let r2 : R := { L with results := L.results ++ [(obj, obj, rev, obj.sid, r.isFailing obj.id)] }
       if r.isFailing obj.id then r2 else r2.retryClear obj.id) := by
  unfold R.processSingle
  simp only [Bool.false_eq_true, if_false]
  rfl

theorem land_bookkeeping (r0 : R) (acts : List (Nat × Inject)) (x : Res) (id : Nat) (f : Bool) :
    (if f then ({ r0.landAll acts with results := (r0.landAll acts).results ++ [x] } : R)
      else R.retryClear { r0.landAll acts with results := (r0.landAll acts).results ++ [x] } id) =
    (if f then ({ r0 with results := r0.results ++ [x] } : R)
      else R.retryClear { r0 with results := r0.results ++ [x] } id).landAll acts := by
  have e0 := landAll_of_tbl r0 r0 rfl rfl rfl rfl acts
  cases f with
  | true =>
    simp only [if_true]
    rw [landAll_of_tbl r0 { r0 with results := r0.results ++ [x] } rfl rfl rfl rfl acts]
    conv => lhs; rw [e0]
    rfl
  | false =>
    simp only [Bool.false_eq_true, if_false]
    rw [landAll_of_tbl r0 (R.retryClear { r0 with results := r0.results ++ [x] } id) (by simp) (by simp) (by simp) (by simp) acts,
      ← tbl_retryClear]
    conv => lhs; rw [e0]
    rfl

/-- `processSingle` for an Update: bookkeeping first, then the writes queued for the object land -/
theorem processSingle_update_land (r : R) (obj : RObj) (rev : Nat) :
    r.processSingle obj rev false = (r.preUpdate obj rev).landAll (r.injects.filter (fun (a : Nat × Inject) => a.1 = obj.id)) := by
  rw [processSingle_update_raw]
  exact land_bookkeeping _ _ _ _ _

end Sdb.Rec
