import SdbModel.Lemmas.ConcSimMicro
import SdbModel.Generated.Protocol

/-!
  ConcSimProg — program positions of the threads of `Model.Conc`.

  The simulation only cares about the micro steps that touch the state the
  abstraction talks about (mutexes, root, the private copies).  `strip` removes
  every park and every action without such an effect (`dedupTables`,
  `commitIndexes`, `notify`, `closeInit`, `returnToPool`); the shape predicate
  `Protocol.simShape` says what the stripped WriteTxn / Commit / Abort /
  registerTable sequences are — it holds of `Gen.protocol` by `decide` and keeps
  holding when hooks (or any of the removed actions) are added, moved or
  deleted.  Under it the stripped program of every thread is `code L c (.acq 0)`
  resp. `code [] c .gA`, and the stripped REMAINING program of a running thread
  is `code L c p` for a position `p : Pos`.  Core Lean only.
-/
namespace Sdb.Conc

def relevantAct : Act → Bool
  | .hook _ | .dedupTables | .commitIndexes | .notify | .closeInit | .returnToPool => false
  | _ => true

def relevant : Micro → Bool
  | .park _ => false
  | .act a => relevantAct a
  | _ => true

def strip (l : List Micro) : List Micro := l.filter relevant

/-- the order of the effectful steps of the four protocol functions -/
def Protocol.simShape (P : Protocol) : Bool :=
  P.lockSortsBySeq && P.writeTxn.contains .dedupTables &&
  (P.writeTxn.filter relevantAct == [.lockTables, .loadRoot, .cloneRoot, .cloneEntries]) &&
  (P.commit.filter relevantAct ==
    [.lockRoot, .loadCurrentRoot, .mergeUnlocked, .collectInit, .storeRoot, .unlockRoot, .unlockTables]) &&
  (P.abort.filter relevantAct == [.unlockTables]) &&
  (P.register.filter relevantAct == [.lockRoot, .loadCurrentRoot, .appendTable, .storeRoot, .unlockRoot])

theorem simShape_gen : Gen.protocol.simShape = true := by decide

/-- program positions: `acq k` = `k` tables locked (`acq L.length` = about to load
    the root), … `rel k` = `k` tables released; `gA … gE` the registration thread,
    `dA dL dR` a registration rejected for its duplicate name -/
inductive Pos where
  | acq (k : Nat) | clR | clE | uw | aR | lc | mg | ci | sr | rR | rel (k : Nat)
  | gA | gL | gP | gS | gR | gE
  | dA | dL | dR
  deriving Repr, DecidableEq

/-- what follows the user's writes: the commit critical section and the unlock
    loop, or (abort) the unlock loop alone -/
def cEnd (L : List Nat) (c : Bool) : List Micro :=
  if c then [.acquireRoot, .act .loadCurrentRoot, .act .mergeUnlocked, .act .collectInit, .act .storeRoot, .releaseRoot] ++
      (L.drop 0).map .release
  else (L.drop 0).map .release

/-- stripped remaining program at a position, for lock order `L`, commit flag `c` -/
def code (L : List Nat) (c : Bool) : Pos → List Micro
  | .acq k => (L.drop k).map .acquire ++ (.act .loadRoot :: .act .cloneRoot :: .act .cloneEntries :: .userWrites :: cEnd L c)
  | .clR => .act .cloneRoot :: .act .cloneEntries :: .userWrites :: cEnd L c
  | .clE => .act .cloneEntries :: .userWrites :: cEnd L c
  | .uw => .userWrites :: cEnd L c
  | .aR => [.acquireRoot, .act .loadCurrentRoot, .act .mergeUnlocked, .act .collectInit, .act .storeRoot, .releaseRoot] ++ (L.drop 0).map .release
  | .lc => [.act .loadCurrentRoot, .act .mergeUnlocked, .act .collectInit, .act .storeRoot, .releaseRoot] ++ (L.drop 0).map .release
  | .mg => [.act .mergeUnlocked, .act .collectInit, .act .storeRoot, .releaseRoot] ++ (L.drop 0).map .release
  | .ci => [.act .collectInit, .act .storeRoot, .releaseRoot] ++ (L.drop 0).map .release
  | .sr => [.act .storeRoot, .releaseRoot] ++ (L.drop 0).map .release
  | .rR => [.releaseRoot] ++ (L.drop 0).map .release
  | .rel k => (L.drop k).map .release
  | .gA => [.acquireRoot, .act .loadCurrentRoot, .act .appendTable, .act .storeRoot, .releaseRoot]
  | .gL => [.act .loadCurrentRoot, .act .appendTable, .act .storeRoot, .releaseRoot]
  | .gP => [.act .appendTable, .act .storeRoot, .releaseRoot]
  | .gS => [.act .storeRoot, .releaseRoot]
  | .gR => [.releaseRoot]
  | .gE => []
  | .dA => [.acquireRoot, .act .loadCurrentRoot, .releaseRoot]
  | .dL => [.act .loadCurrentRoot, .releaseRoot]
  | .dR => [.releaseRoot]

/-- position after the user's writes -/
def afterWrites (c : Bool) : Pos := if c then .aR else .rel 0

theorem cEnd_eq (L : List Nat) (c : Bool) : cEnd L c = code L c (afterWrites c) := by
  cases c <;> rfl

/-! ### popping one micro step -/

theorem strip_cons (m : Micro) (rest : List Micro) :
    strip (m :: rest) = if relevant m then m :: strip rest else strip rest := by
  simp only [strip, List.filter_cons]

theorem drop_cons_inv (L : List Nat) (k a : Nat) (r : List Nat) (h : L.drop k = a :: r) :
    L[k]? = some a ∧ L.drop (k + 1) = r ∧ k < L.length := by
  have hlt : k < L.length := by
    rcases Nat.lt_or_ge k L.length with h' | h'
    · exact h'
    · rw [List.drop_eq_nil_of_le h'] at h; simp at h
  rw [List.drop_eq_getElem_cons hlt] at h
  simp only [List.cons.injEq] at h
  exact ⟨by rw [List.getElem?_eq_getElem hlt, h.1], h.2, hlt⟩

/-- the next effectful micro step at a position and the position after it -/
def next (L : List Nat) (c : Bool) : Pos → Option (Micro × Pos)
  | .acq k => match L[k]? with
    | some tb => some (.acquire tb, .acq (k + 1))
    | none => some (.act .loadRoot, .clR)
  | .clR => some (.act .cloneRoot, .clE)
  | .clE => some (.act .cloneEntries, .uw)
  | .uw => some (.userWrites, afterWrites c)
  | .aR => some (.acquireRoot, .lc)
  | .lc => some (.act .loadCurrentRoot, .mg)
  | .mg => some (.act .mergeUnlocked, .ci)
  | .ci => some (.act .collectInit, .sr)
  | .sr => some (.act .storeRoot, .rR)
  | .rR => some (.releaseRoot, .rel 0)
  | .rel k => match L[k]? with
    | some tb => some (.release tb, .rel (k + 1))
    | none => none
  | .gA => some (.acquireRoot, .gL)
  | .gL => some (.act .loadCurrentRoot, .gP)
  | .gP => some (.act .appendTable, .gS)
  | .gS => some (.act .storeRoot, .gR)
  | .gR => some (.releaseRoot, .gE)
  | .gE => none
  | .dA => some (.acquireRoot, .dL)
  | .dL => some (.act .loadCurrentRoot, .dR)
  | .dR => some (.releaseRoot, .gE)

theorem drop_of_getElem? (L : List Nat) (k a : Nat) (h : L[k]? = some a) : L.drop k = a :: L.drop (k + 1) := by
  have hlt : k < L.length := by
    rcases Nat.lt_or_ge k L.length with h' | h'
    · exact h'
    · rw [List.getElem?_eq_none h'] at h; simp at h
  rw [List.drop_eq_getElem_cons hlt]
  rw [List.getElem?_eq_getElem hlt] at h
  simp only [Option.some.injEq] at h
  rw [h]

theorem drop_of_getElem?_none (L : List Nat) (k : Nat) (h : L[k]? = none) : L.drop k = [] := by
  rw [List.getElem?_eq_none_iff] at h
  exact List.drop_eq_nil_of_le h

theorem code_next (L : List Nat) (c : Bool) (p : Pos) :
    code L c p = match next L c p with
      | none => []
      | some (m, p') => m :: code L c p' := by
  cases p with
  | acq k =>
    simp only [next]
    cases h : L[k]? with
    | some tb => simp only [code, drop_of_getElem? L k tb h, List.map_cons, List.cons_append]
    | none => simp only [code, drop_of_getElem?_none L k h, List.map_nil, List.nil_append]
  | rel k =>
    simp only [next]
    cases h : L[k]? with
    | some tb => simp only [code, drop_of_getElem? L k tb h, List.map_cons]
    | none => simp only [code, drop_of_getElem?_none L k h, List.map_nil]
  | uw => show Micro.userWrites :: cEnd L c = Micro.userWrites :: code L c (afterWrites c); rw [cEnd_eq]
  | _ => rfl

/-- popping a micro step off a program whose stripped form is `code L c p`:
    an ineffective step stays at `p`, an effectful one is `next`'s -/
theorem pop_code (L : List Nat) (c : Bool) (p : Pos) (m : Micro) (rest : List Micro)
    (h : strip (m :: rest) = code L c p) :
    (relevant m = false ∧ strip rest = code L c p) ∨
    (relevant m = true ∧ ∃ p', next L c p = some (m, p') ∧ strip rest = code L c p') := by
  rw [strip_cons] at h
  cases hr : relevant m with
  | false => left; rw [hr] at h; exact ⟨rfl, by simpa using h⟩
  | true =>
    right; rw [hr] at h
    simp only [if_true] at h
    rw [code_next] at h
    cases hn : next L c p with
    | none => rw [hn] at h; simp at h
    | some mp =>
      obtain ⟨m', p'⟩ := mp
      rw [hn] at h
      simp only [List.cons.injEq] at h
      exact ⟨rfl, p', by rw [h.1], h.2⟩

theorem nil_code (L : List Nat) (c : Bool) (p : Pos) (h : [] = code L c p) : next L c p = none := by
  rw [code_next] at h
  cases hn : next L c p with
  | none => rfl
  | some mp => rw [hn] at h; simp at h

/-! ### the stripped programs of the threads `Model.Conc` spawns -/

theorem strip_append (a b : List Micro) : strip (a ++ b) = strip a ++ strip b := by
  simp [strip]

theorem strip_expand_irrelevant (P : Protocol) (T : List Nat) (a : Act) (h : relevantAct a = false) :
    strip (expand P T a) = [] := by
  cases a <;> simp_all [relevantAct, expand, strip, relevant]

theorem strip_flatMap_expand (P : Protocol) (T : List Nat) (l : List Act) :
    strip (l.flatMap (expand P T)) = (l.filter relevantAct).flatMap (fun a => strip (expand P T a)) := by
  induction l with
  | nil => rfl
  | cons a l ih =>
    rw [List.flatMap_cons, strip_append, ih, List.filter_cons]
    cases h : relevantAct a with
    | false => simp [strip_expand_irrelevant P T a h]
    | true => simp

theorem relevant_park (l : String) : relevant (.park l) = false := rfl
theorem relevant_acquire (t : Nat) : relevant (.acquire t) = true := rfl
theorem relevant_release (t : Nat) : relevant (.release t) = true := rfl
theorem relevant_acquireRoot : relevant .acquireRoot = true := rfl
theorem relevant_releaseRoot : relevant .releaseRoot = true := rfl
theorem relevant_userWrites : relevant .userWrites = true := rfl
theorem relevant_act (a : Act) : relevant (.act a) = relevantAct a := rfl

theorem strip_expand_lock (P : Protocol) (T : List Nat) :
    strip (expand P T .lockTables) = (if P.lockSortsBySeq then sortNat T else T).map .acquire := by
  simp only [expand]
  generalize (if P.lockSortsBySeq = true then sortNat T else T) = order
  induction order with
  | nil => rfl
  | cons t r ih =>
    rw [List.flatMap_cons, strip_append, ih]
    simp only [strip_cons, relevant_park, relevant_acquire]
    rfl

theorem strip_expand_unlock (P : Protocol) (T : List Nat) :
    strip (expand P T .unlockTables) = (if P.lockSortsBySeq then sortNat T else T).map .release := by
  simp only [expand]
  generalize (if P.lockSortsBySeq = true then sortNat T else T) = order
  induction order with
  | nil => rfl
  | cons t r ih =>
    rw [List.flatMap_cons, strip_append, ih]
    simp only [strip_cons, relevant_park, relevant_release]
    rfl

theorem strip_writerProg (P : Protocol) (hP : P.simShape = true) (tabs : List Nat) (c : Bool) :
    strip (writerProg P tabs c) = code (sortNat (dedup tabs)) c (.acq 0) := by
  simp only [Protocol.simShape, Bool.and_eq_true, beq_iff_eq] at hP
  obtain ⟨⟨⟨⟨⟨h1, h2⟩, h3⟩, h4⟩, h5⟩, h6⟩ := hP
  unfold writerProg
  simp only [h2, if_true]
  rw [strip_append, strip_append, strip_append, strip_flatMap_expand, strip_flatMap_expand, h3]
  cases c with
  | true =>
    simp only [if_true, h4, List.flatMap_cons, List.flatMap_nil, strip_expand_lock, strip_expand_unlock, h1]
    simp only [expand, List.append_nil, code, cEnd, List.drop_zero, if_true, List.append_assoc]
    rfl
  | false =>
    simp only [Bool.false_eq_true, if_false, h5, List.flatMap_cons, List.flatMap_nil, strip_expand_lock,
      strip_expand_unlock, h1, if_true]
    simp only [expand, List.append_nil, code, cEnd, List.drop_zero, Bool.false_eq_true, if_false,
      List.append_assoc]
    rfl

theorem strip_registerProg (P : Protocol) (hP : P.simShape = true) (c : Bool) :
    strip (registerProg P) = code [] c .gA := by
  simp only [Protocol.simShape, Bool.and_eq_true, beq_iff_eq] at hP
  obtain ⟨⟨⟨⟨⟨h1, h2⟩, h3⟩, h4⟩, h5⟩, h6⟩ := hP
  unfold registerProg
  rw [strip_append, strip_flatMap_expand, h6]
  rfl

theorem filter_takeWhile_ne (l : List Act) (c : Act) (hc : relevantAct c = true) :
    (l.takeWhile (· ≠ c)).filter relevantAct = (l.filter relevantAct).takeWhile (· ≠ c) := by
  induction l with
  | nil => rfl
  | cons a l ih =>
    by_cases hac : a = c
    · subst hac; simp [hc]
    · cases hr : relevantAct a with
      | true => simpa [hac, hr] using ih
      | false => simpa [hac, hr] using ih

theorem strip_registerDupProg (P : Protocol) (hP : P.simShape = true) (c : Bool) :
    strip (registerDupProg P) = code [] c .dA := by
  simp only [Protocol.simShape, Bool.and_eq_true, beq_iff_eq] at hP
  obtain ⟨⟨⟨⟨⟨h1, h2⟩, h3⟩, h4⟩, h5⟩, h6⟩ := hP
  have hmem : Act.unlockRoot ∈ P.register := by
    have : Act.unlockRoot ∈ P.register.filter relevantAct := by rw [h6]; simp
    exact (List.mem_filter.1 this).1
  unfold registerDupProg
  have hcont : P.register.contains Act.unlockRoot = true := by simpa using hmem
  simp only [hcont, if_true]
  rw [strip_append, strip_flatMap_expand, List.filter_append, filter_takeWhile_ne _ _ (by rfl), h6]
  rfl

end Sdb.Conc
