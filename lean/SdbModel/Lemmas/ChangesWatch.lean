import SdbModel.Lemmas.ChangesRun

/-! Watch channels of change iterators: the generation counter `gen` of a table is bumped by every commit
    that changed its revision index; an iterator's channel (`watchGen`) reads closed as soon as the
    committed generation exceeds it.  Invariant: an idle iterator (sequence exhausted) in good standing
    whose channel is still open has seen everything. -/
namespace Sdb.Chg
open Sdb.Tbl Sdb.Tbl.OMap OMap

/-- committed entry `t` versus the entry `e` of the open write transaction: same generation, and
    untouched as long as `revDirty` is not set -/
structure WGen (t e : TableS) : Prop where
  gen : e.gen = t.gen
  clean : e.revDirty = false → e.rev = t.rev ∧ e.primary = t.primary ∧ e.grave = t.grave

/-- the iterator has seen every live object and every retained deletion of `t` -/
def CaughtUp (it : ChangeIter) (t : TableS) : Prop :=
  (∀ k o, (k, o) ∈ t.primary → o.rev ≤ it.revision) ∧ (∀ k g, (k, g) ∈ t.grave → g.rev ≤ it.deleteRevision)

structure Inv2 (s : St) : Prop where
  wgen : ∀ es, s.db.wtxn = some es → ∀ i, WGen (tbl s.db.root i) (tbl es i)
  watchLe : ∀ (ci : Nat) (it : ChangeIter) (g : Nat), s.db.iters[ci]? = some it → it.watchGen = some g →
      g ≤ (tbl s.db.root it.table).gen
  idle : ∀ (ci : Nat) (it : ChangeIter) (g : Nat), s.db.iters[ci]? = some it → it.closed = false →
      Live s it → it.watchGen = some g → it.pending = none →
      (tbl s.db.root it.table).gen ≤ g → CaughtUp it (tbl s.db.root it.table)

theorem WStep.wgen {e e' : TableS} (w : WStep e e') :
    e'.gen = e.gen ∧ (e'.revDirty = false → e'.rev = e.rev ∧ e'.primary = e.primary ∧ e'.grave = e.grave ∧ e.revDirty = false) := by
  cases w with
  | modify g o m hb =>
    rcases modify_spec e g o m with h | ⟨_, _, _, _, _, _, _, _, _, hd, hg, _⟩
    · rw [h]; exact ⟨rfl, fun h => ⟨rfl, rfl, rfl, h⟩⟩
    · exact ⟨hg, fun h => by rw [hd] at h; cases h⟩
  | delete g id hb =>
    rcases delete_spec e g id with h | ⟨_, _, _, _, _, _, _, _, _, _, _, hd, hg, _⟩
    · rw [h]; exact ⟨rfl, fun h => ⟨rfl, rfl, rfl, h⟩⟩
    · exact ⟨hg, fun h => by rw [hd] at h; cases h⟩
  | aux _ h1 h2 h3 h4 h5 h6 h7 h8 h9 => exact ⟨h8, fun h => ⟨h1, h2, h4, by rw [← h9]; exact h⟩⟩

/-- nothing pending at the cursors means the iterator has seen everything -/
theorem caughtUp_of_pending_nil {t : TableS} (h : TInv t) (it : ChangeIter)
    (hr : it.revision + 1 < 2 ^ 64) (hd : it.deleteRevision + 1 < 2 ^ 64)
    (hp : pendingOf t it.revision it.deleteRevision = []) : CaughtUp it t := by
  constructor
  · intro k o ho
    have hk := h.pK _ _ ho
    have hom := (h.pr o).mp (hk ▸ ho)
    by_cases hle : o.rev ≤ it.revision
    · exact hle
    · exfalso
      have : ({ obj := o, rev := o.rev, deleted := false } : Change) ∈ pendingOf t it.revision it.deleteRevision :=
        (mem_pendingOf h _ _ hr hd _).mpr ⟨rfl, Or.inl ⟨rfl, hom, by simp only; omega⟩⟩
      rw [hp] at this; cases this
  · intro k g hg
    have hk := h.gK _ _ hg
    have hgm := (h.gg g).mp (hk ▸ hg)
    by_cases hle : g.rev ≤ it.deleteRevision
    · exact hle
    · exfalso
      have : ({ obj := g, rev := g.rev, deleted := true } : Change) ∈ pendingOf t it.revision it.deleteRevision :=
        (mem_pendingOf h _ _ hr hd _).mpr ⟨rfl, Or.inr ⟨rfl, hgm, by simp only; omega⟩⟩
      rw [hp] at this; cases this

theorem CaughtUp.congr {it it' : ChangeIter} {t t' : TableS} (h : CaughtUp it t)
    (h1 : it'.revision = it.revision) (h2 : it'.deleteRevision = it.deleteRevision)
    (h3 : t'.primary = t.primary) (h4 : ∀ k g, (k, g) ∈ t'.grave → (k, g) ∈ t.grave) : CaughtUp it' t' := by
  constructor
  · intro k o ho; rw [h3] at ho; rw [h1]; exact h.1 k o ho
  · intro k g hg; rw [h2]; exact h.2 k g (h4 k g hg)

theorem Inv2.init : Inv2 St.init := by
  constructor
  · intro es h; cases h
  · intro ci it g h; simp [St.init, newDB] at h
  · intro ci it g h; simp [St.init, newDB] at h

theorem Inv2.beginW {s : St} (h2 : Inv2 s) (lm la : Bool) : Inv2 { s with db := s.db.beginW lm la } := by
  have hb := tbl_beginW s.db lm la
  constructor
  · intro es he i
    obtain ⟨es', he', _, _, _, a1, a2, a3, a4, a5, a6, a7, a8⟩ := hb i
    rw [he] at he'; cases he'
    exact ⟨a7, fun _ => ⟨a1, a2, a4⟩⟩
  · exact h2.watchLe
  · intro ci it g hi hc hl
    refine h2.idle ci it g hi hc ?_
    rcases hl with hl | ⟨es, he, hr, _⟩
    · exact Or.inl hl
    · obtain ⟨es', he', _, _, _, a1, a2, a3, a4, a5, a6, a7, a8⟩ := hb it.table
      rw [he] at he'; cases he'
      rw [a6] at hr
      exact Or.inl hr

theorem Inv2.abort {s : St} (h2 : Inv2 s) : Inv2 { s with db := s.db.abort } := by
  constructor
  · intro es he; cases he
  · exact h2.watchLe
  · intro ci it g hi hc hl
    refine h2.idle ci it g hi hc ?_
    rcases hl with hl | ⟨es, he, _⟩
    · exact Or.inl hl
    · cases he

theorem commitEntry_gen (e : TableS) : (commitEntry e).gen = if e.revDirty then e.gen + 1 else e.gen := rfl

theorem Inv2.commit {s : St} (h : Inv s) (h2 : Inv2 s) : Inv2 { s with db := s.db.commit } := by
  cases hw : s.db.wtxn with
  | none =>
    have : s.db.commit = s.db := by unfold DB.commit; rw [hw]
    rw [this]; exact h2
  | some es =>
    obtain ⟨hold, hlen⟩ := h.wOld es hw
    have hroot := tbl_commit s.db es hw hlen
    have hwt : s.db.commit.wtxn = none := by unfold DB.commit; rw [hw]
    have hiters : s.db.commit.iters = s.db.iters := by unfold DB.commit; rw [hw]
    have hgenle : ∀ i, (tbl s.db.root i).gen ≤ (tbl s.db.commit.root i).gen := by
      intro i
      rw [hroot]
      split
      · rw [commitEntry_gen, (h2.wgen es hw i).gen]; split <;> omega
      · exact Nat.le_refl _
    constructor
    · intro es' he; simp only at he; rw [hwt] at he; cases he
    · intro ci it g hi hg
      simp only at hi ⊢
      rw [hiters] at hi
      exact Nat.le_trans (h2.watchLe ci it g hi hg) (hgenle _)
    · intro ci it g hi hc hl hg hp hle
      have hr : it.tracker ∈ (tbl s.db.commit.root it.table).trackers := by
        rcases hl with hl | ⟨es', he, _⟩
        · exact hl
        · simp only at he; rw [hwt] at he; cases he
      simp only at hi hle ⊢
      rw [hiters] at hi
      rw [hroot] at hr hle ⊢
      have hwl := h2.watchLe ci it g hi hg
      by_cases hl : (tbl es it.table).locked
      · simp only [hl, if_true] at hr hle ⊢
        obtain ⟨wg, wc⟩ := h2.wgen es hw it.table
        rw [commitEntry_gen, wg] at hle
        by_cases hd : (tbl es it.table).revDirty
        · rw [if_pos hd] at hle; omega
        · have hd' : (tbl es it.table).revDirty = false := by simpa using hd
          rw [if_neg hd] at hle
          obtain ⟨c0, c1, c2⟩ := wc hd'
          have hr' : it.tracker ∈ (tbl es it.table).trackers := hr
          have hlive : Live s it := by
            by_cases hreg : it.tracker ∈ (tbl s.db.root it.table).trackers
            · exact Or.inl hreg
            · by_cases hb : it.base ≤ (tbl s.db.root it.table).rev
              · exact Or.inr ⟨es, hw, hr', hb⟩
              · exfalso
                have := (h.pend es hw ci it hi hc hr' hreg (by omega)).be
                omega
          have := h2.idle ci it g hi hc hlive hg hp hle
          exact this.congr rfl rfl c1 (fun k x hx => by
            have : (k, x) ∈ (tbl es it.table).grave := hx
            rw [c2] at this; exact this)
      · simp only [hl, Bool.false_eq_true, if_false] at hr hle ⊢
        exact h2.idle ci it g hi hc (Or.inl hr) hg hp hle

theorem Inv2.write {s : St} (h2 : Inv2 s) (es : List TableS) (i : Nat) (t' : TableS)
    (hw : s.db.wtxn = some es) (w : WStep (tbl es i) t') : Inv2 { s with db := setW s.db i t' } := by
  have hdb : setW s.db i t' = { s.db with wtxn := some (es.set i t') } := by unfold setW; rw [hw]
  rw [hdb]
  have hcase : ∀ j, tbl (es.set i t') j = tbl es j ∨ (i = j ∧ tbl (es.set i t') j = t') := by
    intro j
    rw [tbl_set]
    by_cases hc : i = j ∧ i < es.length
    · right; rw [if_pos hc]; exact ⟨hc.1, rfl⟩
    · left; rw [if_neg hc]
  constructor
  · intro es' he j
    simp only [Option.some.injEq] at he; subst he
    rcases hcase j with e | ⟨e1, e2⟩
    · rw [e]; exact h2.wgen es hw j
    · rw [e2]; subst e1
      obtain ⟨g1, g2⟩ := h2.wgen es hw i
      obtain ⟨w1, w2⟩ := w.wgen
      refine ⟨w1.trans g1, fun hd => ?_⟩
      obtain ⟨a0, a, b, c⟩ := w2 hd
      obtain ⟨d0, d1, d2⟩ := g2 c
      exact ⟨a0.trans d0, a.trans d1, b.trans d2⟩
  · exact h2.watchLe
  · intro ci it g hi hc hl
    refine h2.idle ci it g hi hc ?_
    rcases hl with hl | ⟨es', he, hr, hb⟩
    · exact Or.inl hl
    · simp only [Option.some.injEq] at he; subst he
      have : (tbl (es.set i t') it.table).trackers = (tbl es it.table).trackers := by
        rcases hcase it.table with e | ⟨e1, e2⟩
        · rw [e]
        · rw [e2, ← e1]; exact w.trackers
      rw [this] at hr
      exact Or.inr ⟨es, hw, hr, hb⟩

theorem Inv2.create {s : St} (h : Inv s) (h2 : Inv2 s) (ti : Nat) : Inv2 { s with db := iterCreate s.db ti } := by
  rcases iterCreate_spec s.db ti with e | ⟨es, hw, hl, it0, i1, i2, i3, i4, i5, i6, i7, i8, e⟩
  · rw [e]; exact h2
  · rw [e]
    have hlt : ti < es.length := tbl_locked_lt es ti hl
    have hold := (h.wOld es hw).1
    let id := s.db.nextTracker
    let t' : TableS := { tbl es ti with trackers := id :: (tbl es ti).trackers }
    have hcase : ∀ j, (j ≠ ti ∧ tbl (es.set ti t') j = tbl es j) ∨ (j = ti ∧ tbl (es.set ti t') j = t') := by
      intro j
      rw [tbl_set]
      by_cases hc : ti = j
      · right; rw [if_pos ⟨hc, hlt⟩]; exact ⟨hc.symm, rfl⟩
      · left; rw [if_neg (fun hh => hc hh.1)]; exact ⟨fun e => hc e.symm, rfl⟩
    have hiters : ∀ (ci : Nat) (it : ChangeIter), (s.db.iters.push it0)[ci]? = some it →
        (s.db.iters[ci]? = some it ∧ it.tracker ≠ id) ∨ (ci = s.db.iters.size ∧ it = it0) := by
      intro ci it hi
      rw [Array.getElem?_push] at hi
      split at hi
      · right; exact ⟨‹_›, by simpa using hi.symm⟩
      · left; exact ⟨hi, Nat.ne_of_lt (h.freshI ci it hi)⟩
    constructor
    · intro es' he j
      simp only [DB.setTrackerRev, Option.some.injEq] at he; subst he
      simp only [DB.setTrackerRev]
      rcases hcase j with ⟨_, e⟩ | ⟨e1, e⟩
      · rw [e]; exact h2.wgen es hw j
      · rw [e, e1]
        obtain ⟨g1, g2⟩ := h2.wgen es hw ti
        exact ⟨g1, g2⟩
    · intro ci it g hi hg
      simp only [DB.setTrackerRev] at hi ⊢
      rcases hiters ci it hi with ⟨hi', _⟩ | ⟨_, e⟩
      · exact h2.watchLe ci it g hi' hg
      · subst e
        rw [i7, hold] at hg
        simp only [Option.some.injEq] at hg
        rw [i1, ← hg]; exact Nat.le_refl _
    · intro ci it g hi hc hlv hg hp hle
      have hi' : (s.db.iters.push it0)[ci]? = some it := hi
      rcases hiters ci it hi' with ⟨hi'', n1⟩ | ⟨_, e⟩
      · refine h2.idle ci it g hi'' hc ?_ hg hp hle
        rcases hlv with hlv | ⟨es', he, hr, hb⟩
        · exact Or.inl hlv
        · simp only [DB.setTrackerRev, Option.some.injEq] at he; subst he
          refine Or.inr ⟨es, hw, ?_, hb⟩
          rcases hcase it.table with ⟨_, e⟩ | ⟨e1, e⟩
          · rw [e] at hr; exact hr
          · rw [e] at hr
            simp only [t', List.mem_cons] at hr
            rcases hr with e' | hr
            · exact absurd e' n1
            · rw [e1]; exact hr
      · exfalso
        subst e
        have hlt' := i8 hp
        rw [hold] at hlt'
        rcases hlv with hr | ⟨es', he, hr, hb⟩
        · have hr' : it.tracker ∈ (tbl s.db.root it.table).trackers := hr
          rw [i4] at hr'
          exact Nat.lt_irrefl _ (h.freshR _ _ hr')
        · have hb' : it.base ≤ (tbl s.db.root it.table).rev := hb
          rw [i6, i1] at hb'
          omega

theorem Inv2.next {s : St} (h : Inv s) (h2 : Inv2 s) (ci : Nat) (k : Int)
    (committed current : List TableS)
    (hc : committed = s.db.root ∨ (s.db.wtxn.isSome ∧ committed = s.db.oldRoot)) :
    Inv2 { db := (iterNext s.db ci committed current k).1,
           log := fun j => if j = ci then s.log ci ++ (iterNext s.db ci committed current k).2.1 else s.log j } := by
  have hcom : committed = s.db.root := by
    rcases hc with e | ⟨hw, e⟩
    · exact e
    · cases hw' : s.db.wtxn with
      | none => rw [hw'] at hw; simp at hw
      | some es => rw [e]; exact (h.wOld es hw').1
  subst hcom
  have hsame : Inv2 { db := s.db, log := fun j => if j = ci then s.log ci ++ [] else s.log j } := by
    constructor
    · exact h2.wgen
    · exact h2.watchLe
    · intro cj it g hi hcl hl
      exact h2.idle cj it g hi hcl hl
  cases h1 : s.db.iters[ci]? with
  | none =>
    have : iterNext s.db ci s.db.root current k = (s.db, [], false) := by unfold iterNext; rw [h1]
    rw [this]; exact hsame
  | some it =>
  have hsz : ci < s.db.iters.size := by
    rcases Nat.lt_or_ge ci s.db.iters.size with hlt | hge
    · exact hlt
    · rw [Array.getElem?_eq_none hge] at h1; cases h1
  rcases iterNext_spec s.db ci s.db.root current k it h1 with ⟨e, _, _⟩ | ⟨hst, e⟩ | ⟨hst, _, hn⟩
  · rw [e]; exact hsame
  · rw [e]
    obtain ⟨f1, f2, f3, f4, f5, f6, f7⟩ := refresh_fields it s.db.root current true
    have hget : ∀ (cj : Nat) (x : ChangeIter),
        (s.db.iters.set! ci (it.refresh s.db.root current true))[cj]? = some x →
        (cj = ci ∧ x = it.refresh s.db.root current true) ∨ (cj ≠ ci ∧ s.db.iters[cj]? = some x) := by
      intro cj x hx
      rw [Array.set!_eq_setIfInBounds, Array.getElem?_setIfInBounds] at hx
      by_cases e : ci = cj
      · rw [if_pos e, if_pos hsz] at hx
        left; exact ⟨e.symm, by simpa using hx.symm⟩
      · rw [if_neg e] at hx
        right; exact ⟨fun e' => e e'.symm, hx⟩
    constructor
    · exact h2.wgen
    · intro cj x g hx hg
      rcases hget cj x hx with ⟨_, e⟩ | ⟨_, hx'⟩
      · subst e
        rw [f6] at hg
        simp only [Option.some.injEq] at hg
        rw [f1, ← hg]; exact Nat.le_refl _
      · exact h2.watchLe cj x g hx' hg
    · intro cj x g hx hxc hl hg hp hle
      rcases hget cj x hx with ⟨_, e⟩ | ⟨_, hx'⟩
      · exfalso
        subst e
        have hl' : Live s it := by
          rcases hl with hl | ⟨es, he, hr, hb⟩
          · left; rw [f1, f4] at hl; exact hl
          · right; rw [f1, f4] at hr; rw [f1, f7] at hb; exact ⟨es, he, hr, hb⟩
        have := (h.reg ci it h1 (f5 ▸ hxc) hl').base
        have := (stale_iff it s.db.root).mp hst
        have e' : (s.db.root.getD it.table default) = tbl s.db.root it.table := rfl
        rw [e'] at this
        omega
      · exact h2.idle cj x g hx' hxc hl hg hp hle
  · generalize (iterNext s.db ci s.db.root current k).1 = db' at hn
    generalize (iterNext s.db ci s.db.root current k).2.1 = taken at hn
    obtain ⟨⟨rest, hpre⟩, ⟨it', hit, j1, j2, j3, j4, j5, j6, j7, j8, j9⟩, hoth, hroot, hwtxn, hold, hnt, hgd⟩ := hn
    have hT := h.rootT it.table
    have hb := hT.bound
    have hget : ∀ (cj : Nat) (x : ChangeIter), db'.iters[cj]? = some x →
        (cj = ci ∧ x = it') ∨ (cj ≠ ci ∧ s.db.iters[cj]? = some x) := by
      intro cj x hx
      rw [hit, Array.set!_eq_setIfInBounds, Array.getElem?_setIfInBounds] at hx
      by_cases e : ci = cj
      · rw [if_pos e, if_pos hsz] at hx
        left; exact ⟨e.symm, by simpa using hx.symm⟩
      · rw [if_neg e] at hx
        right; exact ⟨fun e' => e e'.symm, hx⟩
    have hliveAny : ∀ x, Live { db := db', log := fun j => if j = ci then s.log ci ++ taken else s.log j } x → Live s x := by
      intro x hl
      rcases hl with hl | ⟨es, he, hr, hbx⟩
      · left; simp only at hl; rw [hroot] at hl; exact hl
      · right; simp only at he hbx; rw [hwtxn] at he; rw [hroot] at hbx; exact ⟨es, he, hr, hbx⟩
    constructor
    · intro es he i; simp only at he ⊢; rw [hwtxn] at he; rw [hroot]; exact h2.wgen es he i
    · intro cj x g hx hg
      simp only at hx ⊢
      rw [hroot]
      rcases hget cj x hx with ⟨_, e⟩ | ⟨_, hx'⟩
      · subst e
        rw [j6] at hg
        simp only [Option.some.injEq] at hg
        rw [j1, ← hg]; exact Nat.le_refl _
      · exact h2.watchLe cj x g hx' hg
    · intro cj x g hx hxc hl hg hp hle
      have hl' := hliveAny x hl
      simp only at hx hle ⊢
      rw [hroot] at hle ⊢
      rcases hget cj x hx with ⟨_, e⟩ | ⟨_, hx'⟩
      · subst e
        have hli : Live s it := by
          rcases hl' with hl' | ⟨es, he, hr, hbx⟩
          · left; rw [j1, j2] at hl'; exact hl'
          · right; rw [j1, j2] at hr; rw [j1, j9] at hbx; exact ⟨es, he, hr, hbx⟩
        obtain ⟨rs, rr, rd, rm, _, _⟩ := h.reg ci it h1 (j3 ▸ hxc) hli
        rw [j1]
        have hall := j7 hp
        obtain ⟨hs', hp', hr', hd'⟩ := rs.consume_prefix hT taken rest (by omega) (by omega) hpre
        have hrest : rest = [] := by
          have := hpre
          rw [← hall] at this
          exact List.self_eq_append_right.mp this
        rw [hrest] at hp'
        apply caughtUp_of_pending_nil hT
        · rw [j4]; exact hr'
        · rw [j5]; exact hd'
        · rw [j4, j5]; exact hp'
      · exact h2.idle cj x g hx' hxc hl' hg hp hle

theorem Inv2.close {s : St} (h2 : Inv2 s) (ci : Nat) (hw : s.db.wtxn = none) :
    Inv2 { s with db := iterClose s.db ci } := by
  unfold iterClose
  cases h1 : s.db.iters[ci]? with
  | none => exact h2
  | some it =>
    simp only
    have hroot := tbl_close s.db.root it.table it.tracker
    have hsz : ci < s.db.iters.size := by
      rcases Nat.lt_or_ge ci s.db.iters.size with hlt | hge
      · exact hlt
      · rw [Array.getElem?_eq_none hge] at h1; cases h1
    have hget : ∀ (cj : Nat) (x : ChangeIter),
        (s.db.iters.set! ci { it with closed := true, pending := none })[cj]? = some x →
        (cj = ci ∧ x.closed = true ∧ x.watchGen = it.watchGen ∧ x.table = it.table) ∨
        (cj ≠ ci ∧ s.db.iters[cj]? = some x) := by
      intro cj x hx
      rw [Array.set!_eq_setIfInBounds, Array.getElem?_setIfInBounds] at hx
      by_cases e : ci = cj
      · rw [if_pos e, if_pos hsz] at hx
        left
        have : x = { it with closed := true, pending := none } := by simpa using hx.symm
        exact ⟨e.symm, by rw [this], by rw [this], by rw [this]⟩
      · rw [if_neg e] at hx
        right; exact ⟨fun e' => e e'.symm, hx⟩
    have hcore : ∀ i, let t' := tbl (s.db.root.mapIdx fun i t =>
          if i = it.table then { t with trackers := t.trackers.filter (· ≠ it.tracker) } else t) i
        t'.gen = (tbl s.db.root i).gen ∧ t'.primary = (tbl s.db.root i).primary ∧
        t'.grave = (tbl s.db.root i).grave ∧ ∀ id ∈ t'.trackers, id ∈ (tbl s.db.root i).trackers := by
      intro i
      simp only
      rw [hroot]
      split
      · exact ⟨rfl, rfl, rfl, fun id hid => (List.mem_filter.mp hid).1⟩
      · exact ⟨rfl, rfl, rfl, fun id hid => hid⟩
    constructor
    · intro es he; simp only at he; rw [hw] at he; cases he
    · intro cj x g hx hg
      simp only at hx ⊢
      rw [(hcore x.table).1]
      rcases hget cj x hx with ⟨_, _, e, e'⟩ | ⟨_, hx'⟩
      · rw [e'] ; rw [e] at hg; exact h2.watchLe ci it g h1 hg
      · exact h2.watchLe cj x g hx' hg
    · intro cj x g hx hxc hl hg hp hle
      have hr : x.tracker ∈ (tbl (s.db.root.mapIdx fun i t =>
          if i = it.table then { t with trackers := t.trackers.filter (· ≠ it.tracker) } else t) x.table).trackers := by
        rcases hl with hl | ⟨es, he, _⟩
        · exact hl
        · simp only at he; rw [hw] at he; cases he
      simp only at hx hle ⊢
      obtain ⟨c1, c2, c3, c4⟩ := hcore x.table
      rw [c1] at hle
      rcases hget cj x hx with ⟨_, e, _⟩ | ⟨_, hx'⟩
      · rw [e] at hxc; cases hxc
      · exact (h2.idle cj x g hx' hxc (Or.inl (c4 _ hr)) hg hp hle).congr rfl rfl c2 (fun k y hy => by rw [c3] at hy; exact hy)

theorem Inv2.gcWrite {s : St} (h : Inv s) (h2 : Inv2 s) (hw : s.db.wtxn = none) (dead dead' : List (Nat × List Key))
    (b1 b2 : Bool) :
    Inv2 { s with db := { (gcApply s.db dead) with gcDead := dead', gcPaused := b1, gcTrig := b2 } } := by
  have hroot : ∀ i, tbl (gcApply s.db dead).root i = gcTable (tbl s.db.root i) (deadKeys dead i) :=
    fun i => gcApply_getD s.db dead i
  have hf := fun i => gcTable_fields (tbl s.db.root i) (deadKeys dead i)
  have hm := fun i => gcTable_mem (h.rootT i) (deadKeys dead i)
  have hwt : (gcApply s.db dead).wtxn = none := hw
  constructor
  · intro es he; simp only at he; rw [hwt] at he; cases he
  · intro ci it g hi hg
    simp only at hi ⊢
    rw [hroot, (hf it.table).2.2.2.2.2.1]
    exact h2.watchLe ci it g hi hg
  · intro ci it g hi hc hl hg hp hle
    have hr : it.tracker ∈ (tbl (gcApply s.db dead).root it.table).trackers := by
      rcases hl with hl | ⟨es, he, _⟩
      · exact hl
      · simp only at he; rw [hwt] at he; cases he
    simp only at hi hle ⊢
    rw [hroot] at hr hle ⊢
    rw [(hf it.table).2.2.2.1] at hr
    rw [(hf it.table).2.2.2.2.2.1] at hle
    exact (h2.idle ci it g hi hc (Or.inl hr) hg hp hle).congr rfl rfl (hf it.table).2.1
      (fun k y hy => (((hm it.table).2 k y).mp hy).1)

theorem Inv2.gcScanStep {s : St} (h2 : Inv2 s) :
    Inv2 { s with db := { s.db with gcDead := gcScan s.db, gcPaused := true, gcTrig := false } } := by
  constructor
  · exact h2.wgen
  · exact h2.watchLe
  · intro ci it g hi hc hl
    exact h2.idle ci it g hi hc hl

theorem Step.inv2 {s s' : St} (st : Step s s') (h : Inv s) (h2 : Inv2 s) : Inv2 s' := by
  cases st with
  | beginW lm la _ => exact h2.beginW lm la
  | commit => exact h2.commit h
  | abort => exact h2.abort
  | write es i t' hw w => exact h2.write es i t' hw w
  | create ti => exact h2.create h ti
  | next ci k committed current hc => exact h2.next h ci k committed current hc
  | close ci hw => exact h2.close ci hw
  | gcScan => exact h2.gcScanStep
  | gcApplyPaused hw => exact h2.gcWrite h hw s.db.gcDead [] false (Tbl.gcApply s.db s.db.gcDead).gcTrig
  | gcRun hw => exact h2.gcWrite h hw (Tbl.gcScan s.db) s.db.gcDead (Tbl.gcApply s.db (Tbl.gcScan s.db)).gcPaused false

theorem Reach.inv2 {s : St} (r : Reach s) : Inv2 s := by
  induction r with
  | init => exact Inv2.init
  | step hr st ih => exact st.inv2 hr.inv ih

/-! ### `DeleteAll` is a sequence of `delete` steps -/

theorem delete_rev_le (t : TableS) (g : Nat) (id : Key) : (delete t g id).1.rev ≤ t.rev + 1 := by
  rcases delete_spec t g id with e | ⟨_, _, _, _, hrev, _⟩
  · rw [e]; omega
  · rw [hrev]; exact Nat.le_refl _

/-- a run of deletes on entry `i` of the open write transaction stays reachable -/
theorem Reach.deletes (ids : List Key) : ∀ (s : St) (es : List TableS) (i : Nat), Reach s → s.db.wtxn = some es →
    (tbl es i).rev + ids.length + 1 < 2 ^ 64 →
    Reach { s with db := setW s.db i (ids.foldl (fun t id => (delete t 0 id).1) (tbl es i)) } := by
  induction ids with
  | nil =>
    intro s es i hr hw _
    simp only [List.foldl_nil]
    exact Reach.step hr (Step.write s es i (tbl es i) hw (WStep.aux _ _ rfl rfl rfl rfl rfl rfl rfl rfl rfl))
  | cons id ids ih =>
    intro s es i hr hw hb
    simp only [List.foldl_cons, List.length_cons] at hb ⊢
    have hd := delete_rev_le (tbl es i) 0 id
    have h1 : Reach { s with db := setW s.db i (delete (tbl es i) 0 id).1 } :=
      Reach.step hr (Step.write s es i _ hw (WStep.delete _ 0 id (by omega)))
    have hdb : setW s.db i (delete (tbl es i) 0 id).1 = { s.db with wtxn := some (es.set i (delete (tbl es i) 0 id).1) } := by
      unfold setW; rw [hw]
    by_cases hi : i < es.length
    · have ht : tbl (es.set i (delete (tbl es i) 0 id).1) i = (delete (tbl es i) 0 id).1 := by
        rw [tbl_set, if_pos ⟨rfl, hi⟩]
      have := ih { s with db := setW s.db i (delete (tbl es i) 0 id).1 } (es.set i (delete (tbl es i) 0 id).1) i h1
        (by rw [hdb]) (by rw [ht]; omega)
      rw [ht] at this
      have e2 : setW (setW s.db i (delete (tbl es i) 0 id).1) i
          (ids.foldl (fun t id => (delete t 0 id).1) (delete (tbl es i) 0 id).1) =
          setW s.db i (ids.foldl (fun t id => (delete t 0 id).1) (delete (tbl es i) 0 id).1) := by
        rw [hdb]; unfold setW; rw [hw]; simp [List.set_set]
      simp only at this
      rw [e2] at this
      exact this
    · -- no such entry: every write is a no-op
      have hnop : ∀ t, setW s.db i t = { s.db with wtxn := some es } := by
        intro t; unfold setW; rw [hw]; simp [List.set_eq_of_length_le (Nat.le_of_not_lt hi)]
      rw [hnop] at h1 ⊢
      exact h1

/-- `DeleteAll` keeps the state reachable (the revision counter must have room for the deletions) -/
theorem Reach.deleteAll (s : St) (es : List TableS) (i : Nat) (hr : Reach s) (hw : s.db.wtxn = some es)
    (hb : (tbl es i).rev + (tbl es i).primary.length + 1 < 2 ^ 64) :
    Reach { s with db := setW s.db i (deleteAll (tbl es i)).1 } := by
  unfold Tbl.deleteAll
  by_cases hl : (tbl es i).locked
  · have : (!(tbl es i).locked) = false := by simp [hl]
    simp only [this, Bool.false_eq_true, if_false]
    have hfold : (tbl es i).primary.foldl (fun t (p : Key × Obj) => (delete t 0 p.1).1) (tbl es i) =
        ((tbl es i).primary.map (·.1)).foldl (fun t id => (delete t 0 id).1) (tbl es i) := by
      rw [List.foldl_map]
    have := Reach.deletes ((tbl es i).primary.map (·.1)) s es i hr hw (by simpa using hb)
    rw [← hfold] at this
    exact this
  · have : (!(tbl es i).locked) = true := by simp [hl]
    simp only [this, if_true]
    exact Reach.step hr (Step.write s es i (tbl es i) hw (WStep.aux _ _ rfl rfl rfl rfl rfl rfl rfl rfl rfl))
end Sdb.Chg
