import SdbModel.Lemmas.ArtCount
import SdbModel.Lemmas.ArtTxn
import SdbModel.Lemmas.ArtInsWatch
import SdbModel.Lemmas.ArtMulti

/-! The watch-channel invariant of Model.Art: channels in a tree are pairwise
    distinct, allocated and open; preserved by whole transactions. -/
set_option linter.unusedSimpArgs false
namespace Sdb.ArtW
open Sdb.Art

def cntR (c : Nat) : Option Node → Nat
  | none => 0
  | some r => cnt c r

/-- the watch-channel invariant of an open transaction, relative to a list `av`
    of channels that must stay out of the tree (the closed ones and the root watch) -/
structure WInv (av : List Nat) (st : St) (root : Option Node) : Prop where
  nd : ∀ c, c ≠ 0 → cntR c root ≤ 1
  lt : ∀ c, c ≠ 0 → 1 ≤ cntR c root → c < st.nextW
  np : ∀ c, c ≠ 0 → 1 ≤ cntR c root → c ∉ st.pending
  pl : ∀ c ∈ st.pending, c ≠ 0 → c < st.nextW
  av_lt : ∀ c ∈ av, c ≠ 0 → c < st.nextW
  av_nt : ∀ c ∈ av, c ≠ 0 → cntR c root = 0
  av_np : ∀ c ∈ av, c ≠ 0 → c ∉ st.pending

theorem WInv.step {av : List Nat} {st st' : St} {root root' : Option Node} (h : WInv av st root) (hle : StLe st st')
    (htr : ∀ c, c ≠ 0 → Tr st st' c (cntR c root) (cntR c root')) : WInv av st' root' := by
  have key : ∀ c, c ≠ 0 →
      (cntR c root' + (if c ∈ st'.pending ∧ c ∉ st.pending then 1 else 0) ≤
        cntR c root + (if st.nextW ≤ c ∧ c < st'.nextW then 1 else 0)) ∧
      ((if c ∈ st'.pending ∧ c ∉ st.pending then 1 else 0) ≤ cntR c root) := fun c hc => htr c hc
  have hnw := hle.nw
  refine ⟨?_, ?_, ?_, ?_, ?_, ?_, ?_⟩
  · intro c hc
    obtain ⟨k1, _⟩ := key c hc
    have h1 := h.nd c hc
    by_cases hf : st.nextW ≤ c ∧ c < st'.nextW
    · have : cntR c root = 0 := by
        rcases Nat.eq_zero_or_pos (cntR c root) with h0 | h0
        · exact h0
        · have := h.lt c hc h0; omega
      rw [if_pos hf] at k1; omega
    · rw [if_neg hf] at k1; omega
  · intro c hc h1
    obtain ⟨k1, _⟩ := key c hc
    by_cases hf : st.nextW ≤ c ∧ c < st'.nextW
    · exact hf.2
    · rw [if_neg hf] at k1
      have := h.lt c hc (by omega); omega
  · intro c hc h1 hp
    obtain ⟨k1, k2⟩ := key c hc
    by_cases hp0 : c ∈ st.pending
    · have hlt := h.pl c hp0 hc
      have hf : ¬ (st.nextW ≤ c ∧ c < st'.nextW) := by omega
      rw [if_neg hf] at k1
      exact h.np c hc (by omega) hp0
    · have hr : c ∈ st'.pending ∧ c ∉ st.pending := ⟨hp, hp0⟩
      rw [if_pos hr] at k1 k2
      have hlt := h.lt c hc k2
      have hf : ¬ (st.nextW ≤ c ∧ c < st'.nextW) := by omega
      rw [if_neg hf] at k1
      have := h.nd c hc; omega
  · intro c hp hc
    obtain ⟨_, k2⟩ := key c hc
    by_cases hp0 : c ∈ st.pending
    · have := h.pl c hp0 hc; omega
    · have hr : c ∈ st'.pending ∧ c ∉ st.pending := ⟨hp, hp0⟩
      rw [if_pos hr] at k2
      have := h.lt c hc k2; omega
  · intro c ha hc
    have := h.av_lt c ha hc; omega
  · intro c ha hc
    obtain ⟨k1, _⟩ := key c hc
    have hlt := h.av_lt c ha hc
    have hf : ¬ (st.nextW ≤ c ∧ c < st'.nextW) := by omega
    rw [if_neg hf] at k1
    have := h.av_nt c ha hc; omega
  · intro c ha hc hp
    obtain ⟨_, k2⟩ := key c hc
    have hp0 := h.av_np c ha hc
    have hr : c ∈ st'.pending ∧ c ∉ st.pending := ⟨hp, hp0⟩
    rw [if_pos hr] at k2
    have := h.av_nt c ha hc; omega

theorem WInv.insert {av : List Nat} {x : Txn} (P : ArtParams) (h : WInv av x.st x.root) (k : List Nat) (v : Nat)
    (m : Option (Nat → Nat → Nat)) : WInv av (x.insert P k v m).1.st (x.insert P k v m).1.root := by
  unfold Txn.insert
  split
  · rename_i hr
    refine h.step (newLeafD_le x.st k v) ?_
    intro c hc
    rw [hr]
    simpa only [cntR, cnt] using Tr.newLeafD x.st k v c hc
  · rename_i r hr
    refine h.step (insNode_le P x.st r k k v m) ?_
    intro c hc
    rw [hr]
    exact insNode_tr P x.st c hc r k k v m

theorem WInv.delete {av : List Nat} {x : Txn} (P : ArtParams) (h : WInv av x.st x.root) (k : List Nat) :
    WInv av (x.delete P k).1.st (x.delete P k).1.root := by
  unfold Txn.delete
  cases hr : x.root with
  | none => simpa [hr] using h
  | some r =>
    simp only
    cases hd : delNode P x.st r k with
    | notFound => simpa [hr] using h
    | replaced st n old =>
      have hds : delSt (delNode P x.st r k) = some st := by rw [hd]; rfl
      refine h.step (delNode_le P x.st r k st hds) ?_
      intro c hc
      have := delNode_tr P x.st c hc r k st hds
      rw [hd] at this
      rw [hr]; exact this
    | removed st old =>
      have hds : delSt (delNode P x.st r k) = some st := by rw [hd]; rfl
      refine h.step (delNode_le P x.st r k st hds) ?_
      intro c hc
      have := delNode_tr P x.st c hc r k st hds
      rw [hd] at this
      rw [hr]; exact this

theorem WInv.run {av : List Nat} {x : Txn} (P : ArtParams) (h : WInv av x.st x.root) (ops : List Op) :
    WInv av (run P x ops).st (run P x ops).root := by
  induction ops generalizing x with
  | nil => exact h
  | cons o ops ih =>
    apply ih
    cases o with
    | insert k v m => exact h.insert P k v m
    | delete k => exact h.delete P k
    | bump => exact ⟨h.nd, h.lt, h.np, h.pl, h.av_lt, h.av_nt, h.av_np⟩

/-- the watch-channel invariant of a committed tree in a world: the channels in
    the tree are pairwise distinct, allocated, and open; the root watch is a
    further distinct open channel; closed channels are allocated ones -/
structure TreeInv (wd : World) (t : Tree) : Prop where
  nd : ∀ c, c ≠ 0 → cntR c t.root ≤ 1
  lt : ∀ c, c ≠ 0 → 1 ≤ cntR c t.root → c < wd.nextW
  nc : ∀ c, c ≠ 0 → 1 ≤ cntR c t.root → c ∉ wd.closed
  rw_nt : t.rootWatch ≠ 0 → cntR t.rootWatch t.root = 0
  rw_lt : t.rootWatch ≠ 0 → t.rootWatch < wd.nextW
  rw_nc : t.rootWatch ≠ 0 → t.rootWatch ∉ wd.closed
  cl_lt : ∀ c ∈ wd.closed, c ≠ 0 → c < wd.nextW

theorem TreeInv.txn {wd : World} {t : Tree} (h : TreeInv wd t) :
    WInv (t.rootWatch :: wd.closed) (t.txn wd).st (t.txn wd).root := by
  refine ⟨h.nd, h.lt, ?_, ?_, ?_, ?_, ?_⟩
  · intro c _ _; simp [Tree.txn]
  · intro c hc; simp [Tree.txn] at hc
  · intro c ha hc
    simp only [List.mem_cons] at ha
    rcases ha with ha | ha
    · subst ha; exact h.rw_lt hc
    · exact h.cl_lt c ha hc
  · intro c ha hc
    simp only [List.mem_cons] at ha
    rcases ha with ha | ha
    · subst ha; exact h.rw_nt hc
    · rcases Nat.eq_zero_or_pos (cntR c t.root) with h0 | h0
      · exact h0
      · exact absurd ha (h.nc c hc h0)
  · intro c _ _; simp [Tree.txn]

theorem commit_facts (x : Txn) (wd : World) :
    (x.commit wd).1 = x.bump ∧ (x.commit wd).2.1.root = x.root ∧
    (x.commit wd).2.1.rootWatch = (if x.dirty then x.st.nextW else x.rootWatch) ∧
    (x.commit wd).2.2.closed = wd.closed ∧
    (x.commit wd).2.2.nextW = (if x.dirty then x.st.nextW + 1 else x.st.nextW) := by
  unfold Txn.commit
  cases x.dirty <;> simp [Txn.bump]

theorem notify_nextW (x : Txn) (wd : World) : (x.notify wd).2.nextW = max wd.nextW x.st.nextW := rfl

/-- **the invariant survives a whole transaction**: any calls, then Commit, then Notify -/
theorem TreeInv.commit_notify {wd : World} {t : Tree} (h : TreeInv wd t) (P : ArtParams) (ops : List Op) :
    TreeInv (((run P (t.txn wd) ops).commit wd).1.notify ((run P (t.txn wd) ops).commit wd).2.2).2
      ((run P (t.txn wd) ops).commit wd).2.1 := by
  have hw := h.txn.run P ops
  have hl := later_run P (t.txn wd) ops
  generalize run P (t.txn wd) ops = x at hw hl
  have hrw : x.rootWatch = t.rootWatch := hl.rw
  have hnw : wd.nextW ≤ x.st.nextW := hl.nw
  obtain ⟨f1, f2, f3, f4, f5⟩ := commit_facts x wd
  have hcl : ∀ c, c ∈ ((x.commit wd).1.notify (x.commit wd).2.2).2.closed ↔
      c ∈ wd.closed ∨ c ∈ x.st.pending ∨ (x.dirty = true ∧ x.rootWatch ≠ 0 ∧ c = x.rootWatch) := by
    intro c
    rw [notify_closed, f4, f1]
    rfl
  have hnx : ((x.commit wd).1.notify (x.commit wd).2.2).2.nextW = (if x.dirty then x.st.nextW + 1 else x.st.nextW) := by
    rw [notify_nextW, f5, f1]
    simp only [Txn.bump]
    split <;> omega
  have hrt : t.rootWatch ∈ t.rootWatch :: wd.closed := List.mem_cons_self
  refine ⟨?_, ?_, ?_, ?_, ?_, ?_, ?_⟩
  · rw [f2]; exact hw.nd
  · intro c hc h1
    rw [f2] at h1
    have := hw.lt c hc h1
    rw [hnx]; split <;> omega
  · intro c hc h1
    rw [f2] at h1
    rw [hcl]
    rintro (hcd | hcd | ⟨_, h0, hcd⟩)
    · have := hw.av_nt c (List.mem_cons_of_mem _ hcd) hc; omega
    · exact hw.np c hc h1 hcd
    · rw [hcd, hrw] at h1
      rw [hrw] at h0
      have := hw.av_nt _ hrt h0; omega
  · intro h0
    rw [f2]
    rw [f3] at h0 ⊢
    by_cases hd : x.dirty = true
    · simp only [hd, if_true] at h0 ⊢
      rcases Nat.eq_zero_or_pos (cntR x.st.nextW x.root) with hz | hz
      · exact hz
      · have := hw.lt _ h0 hz; omega
    · simp only [hd, if_false] at h0 ⊢
      rw [hrw] at h0 ⊢
      exact hw.av_nt _ hrt h0
  · intro h0
    rw [hnx]
    rw [f3] at h0 ⊢
    by_cases hd : x.dirty = true
    · simp only [hd, if_true]; omega
    · simp only [hd, if_false] at h0 ⊢
      rw [hrw] at h0 ⊢
      exact hw.av_lt _ hrt h0
  · intro h0
    rw [hcl]
    rw [f3] at h0 ⊢
    by_cases hd : x.dirty = true
    · simp only [hd, if_true] at h0 ⊢
      rintro (hcd | hcd | ⟨_, h0', hcd⟩)
      · have := hw.av_lt _ (List.mem_cons_of_mem _ hcd) h0; omega
      · have := hw.pl _ hcd h0; omega
      · rw [hrw] at h0' hcd
        have := hw.av_lt _ hrt h0'; omega
    · simp only [hd, if_false] at h0 ⊢
      rw [hrw] at h0 ⊢
      rintro (hcd | hcd | ⟨hd', _, _⟩)
      · exact h.rw_nc h0 hcd
      · exact hw.av_np _ hrt h0 hcd
      · exact absurd hd' (by simp)
  · intro c hcd hc
    rw [hcl] at hcd
    rw [hnx]
    have : c < x.st.nextW := by
      rcases hcd with hcd | hcd | ⟨_, h0, hcd⟩
      · exact hw.av_lt _ (List.mem_cons_of_mem _ hcd) hc
      · exact hw.pl _ hcd hc
      · rw [hcd, hrw]; rw [hrw] at h0; exact hw.av_lt _ hrt h0
    split <;> omega

/-- Notify-then-Commit (the order of `CommitAndNotify`) yields the same tree and
    the same world as Commit-then-Notify -/
theorem notify_commit_eq (x : Txn) (wd : World) :
    ((x.notify wd).1.commit (x.notify wd).2).2.1 = (x.commit wd).2.1 ∧
    ((x.notify wd).1.commit (x.notify wd).2).2.2 = ((x.commit wd).1.notify (x.commit wd).2.2).2 := by
  unfold Txn.commit Txn.notify
  cases hd : x.dirty <;> simp [Txn.bump, hd]

theorem TreeInv.notify_commit {wd : World} {t : Tree} (h : TreeInv wd t) (P : ArtParams) (ops : List Op) :
    TreeInv (((run P (t.txn wd) ops).notify wd).1.commit ((run P (t.txn wd) ops).notify wd).2).2.2
      (((run P (t.txn wd) ops).notify wd).1.commit ((run P (t.txn wd) ops).notify wd).2).2.1 := by
  obtain ⟨h1, h2⟩ := notify_commit_eq (run P (t.txn wd) ops) wd
  rw [h1, h2]
  exact h.commit_notify P ops

theorem TreeInv.new (wd : World) (ro : Bool) (hcl : ∀ c ∈ wd.closed, c ≠ 0 → c < wd.nextW) :
    TreeInv (newTree wd ro).1 (newTree wd ro).2 := by
  refine ⟨?_, ?_, ?_, ?_, ?_, ?_, ?_⟩
  · intro c _; simp [newTree, cntR]
  · intro c _ h; simp [newTree, cntR] at h
  · intro c _ h; simp [newTree, cntR] at h
  · intro _; simp [newTree, cntR]
  · intro _; simp [newTree]
  · intro h0 hc
    simp only [newTree] at h0 hc
    have := hcl _ hc h0; omega
  · intro c hc h0
    simp only [newTree] at hc ⊢
    have := hcl _ hc h0; omega

/-! ## the channels handed out are channels of the tree -/

mutual
theorem searchNode_mem : (n : Node) → (w : Nat) → (key : List Nat) →
    (searchNode n w key).2 = w ∨ ((searchNode n w key).2 ≠ 0 ∧ 1 ≤ cnt (searchNode n w key).2 n)
  | .leaf p d, w, key => by
    rcases searchNode_leaf p d w key with h | ⟨_, h0, hc⟩
    · exact Or.inl h
    · right; rw [hc]; exact ⟨h0, by simp [cnt]⟩
  | .inner kind pfx lf kids nw t, w, key => by
    by_cases hp : hasPrefix key pfx = true
    · cases hk : List.drop pfx.length key with
      | nil =>
        unfold searchNode
        simp only [Node.pfx, hp, if_true, hk, Node.getLeaf]
        cases lf with
        | none => left; rfl
        | some d =>
          by_cases h0 : d.watch = 0
          · left; simp [h0]
          · right; simp only [h0, ne_eq, not_false_eq_true, if_true, cnt, cntL_some]
            exact ⟨trivial, by omega⟩
      | cons b r =>
        have hsearch : (searchNode (.inner kind pfx lf kids nw t) w key).2
            = (searchK kids b (if nw ≠ 0 then nw else w) (b :: r)).2 := by
          unfold searchNode
          simp only [Node.pfx, hp, if_true, hk]
        rw [hsearch]
        rcases searchK_mem kids b (if nw ≠ 0 then nw else w) (b :: r) with h | ⟨h0, h1⟩
        · rw [h]
          by_cases hn : nw = 0
          · left; simp [hn]
          · right; simp only [hn, ne_eq, not_false_eq_true, if_true, cnt]
            exact ⟨trivial, by omega⟩
        · right; refine ⟨h0, ?_⟩
          simp only [cnt]; omega
    · left
      unfold searchNode
      simp [Node.pfx, hp]
theorem searchK_mem : (kids : Kids) → (b w : Nat) → (key : List Nat) →
    (searchK kids b w key).2 = w ∨ ((searchK kids b w key).2 ≠ 0 ∧ 1 ≤ cntK (searchK kids b w key).2 kids)
  | .nil, b, w, key => by simp [searchK]
  | .cons a n rest, b, w, key => by
    unfold searchK
    by_cases hab : a = b
    · simp only [hab, if_true]
      rcases searchNode_mem n w key with h | ⟨h0, h1⟩
      · exact Or.inl h
      · right; refine ⟨h0, ?_⟩; simp only [cntK]; omega
    · simp only [hab, if_false]
      by_cases hlt : a < b
      · simp only [hlt, if_true]
        rcases searchK_mem rest b w key with h | ⟨h0, h1⟩
        · exact Or.inl h
        · right; refine ⟨h0, ?_⟩; simp only [cntK]; omega
      · simp only [hlt, if_false]; left; trivial
end

mutual
theorem prefixNode_mem : (n : Node) → (w : Nat) → (q : List Nat) →
    (prefixNode n w q).2 = w ∨ ((prefixNode n w q).2 ≠ 0 ∧ 1 ≤ cnt (prefixNode n w q).2 n)
  | .leaf p d, w, q => Or.inl (prefixNode_leaf p d w q)
  | .inner kind pfx lf kids nw t, w, q => by
    have hw' : ∀ c, c = (if nw ≠ 0 then nw else w) → c = w ∨ (c ≠ 0 ∧ 1 ≤ cnt c (.inner kind pfx lf kids nw t)) := by
      intro c hc
      by_cases hn : nw = 0
      · left; simpa [hn] using hc
      · right
        have : c = nw := by simpa [hn] using hc
        rw [this]; simp only [cnt, if_true]; exact ⟨hn, by omega⟩
    rcases prefixNode_inner kind pfx lf kids nw t w q with h | h | ⟨b, r, _, _, h⟩
    · exact Or.inl h
    · exact hw' _ h
    · rw [h]
      rcases prefixK_mem kids b (if nw ≠ 0 then nw else w) (b :: r) with h | ⟨h0, h1⟩
      · exact hw' _ h
      · right; refine ⟨h0, ?_⟩; simp only [cnt]; omega
theorem prefixK_mem : (kids : Kids) → (b w : Nat) → (q : List Nat) →
    (prefixK kids b w q).2 = w ∨ ((prefixK kids b w q).2 ≠ 0 ∧ 1 ≤ cntK (prefixK kids b w q).2 kids)
  | .nil, b, w, q => by simp [prefixK]
  | .cons a n rest, b, w, q => by
    unfold prefixK
    by_cases hab : a = b
    · simp only [hab, if_true]
      rcases prefixNode_mem n w q with h | ⟨h0, h1⟩
      · exact Or.inl h
      · right; refine ⟨h0, ?_⟩; simp only [cntK]; omega
    · simp only [hab, if_false]
      by_cases hlt : a < b
      · simp only [hlt, if_true]
        rcases prefixK_mem rest b w q with h | ⟨h0, h1⟩
        · exact Or.inl h
        · right; refine ⟨h0, ?_⟩; simp only [cntK]; omega
      · simp only [hlt, if_false]; left; trivial
end

/-- no channel handed out by Get or Prefix on a tree satisfying the invariant is closed -/
theorem TreeInv.get_open {wd : World} {t : Tree} (h : TreeInv wd t) (k : List Nat)
    (h0 : (getRoot t.root t.rootWatch k).2 ≠ 0) : (getRoot t.root t.rootWatch k).2 ∉ wd.closed := by
  unfold getRoot at h0 ⊢
  cases hr : t.root with
  | none => simp only [hr] at h0 ⊢; exact h.rw_nc h0
  | some r =>
    simp only [hr] at h0 ⊢
    rcases searchNode_mem r t.rootWatch k with he | ⟨_, h1⟩
    · rw [he] at h0 ⊢; exact h.rw_nc h0
    · exact h.nc _ h0 (by rw [hr]; exact h1)

theorem TreeInv.prefix_open {wd : World} {t : Tree} (h : TreeInv wd t) (q : List Nat)
    (h0 : (prefixRoot t.root t.rootWatch q).2 ≠ 0) : (prefixRoot t.root t.rootWatch q).2 ∉ wd.closed := by
  unfold prefixRoot at h0 ⊢
  cases hr : t.root with
  | none => simp only [hr] at h0 ⊢; exact h.rw_nc h0
  | some r =>
    simp only [hr] at h0 ⊢
    rcases prefixNode_mem r t.rootWatch q with he | ⟨_, h1⟩
    · rw [he] at h0 ⊢; exact h.rw_nc h0
    · exact h.nc _ h0 (by rw [hr]; exact h1)


/-! ## linear histories -/

/-- linear histories: a tree created in a world whose closed channels are all
    allocated ones, then any number of transactions (any calls; Commit and
    Notify in either order), each opened on the latest tree in the latest world -/
inductive Hist (P : ArtParams) : World → Tree → Prop where
  | new (wd : World) (ro : Bool) (hcl : ∀ c ∈ wd.closed, c ≠ 0 → c < wd.nextW) :
      Hist P (newTree wd ro).1 (newTree wd ro).2
  | commit_notify (wd : World) (t : Tree) (ops : List Op) : Hist P wd t →
      Hist P (((run P (t.txn wd) ops).commit wd).1.notify ((run P (t.txn wd) ops).commit wd).2.2).2
        ((run P (t.txn wd) ops).commit wd).2.1
  | notify_commit (wd : World) (t : Tree) (ops : List Op) : Hist P wd t →
      Hist P (((run P (t.txn wd) ops).notify wd).1.commit ((run P (t.txn wd) ops).notify wd).2).2.2
        (((run P (t.txn wd) ops).notify wd).1.commit ((run P (t.txn wd) ops).notify wd).2).2.1

theorem Hist.inv {P : ArtParams} {wd : World} {t : Tree} (h : Hist P wd t) : TreeInv wd t := by
  induction h with
  | new wd ro hcl => exact TreeInv.new wd ro hcl
  | commit_notify wd t ops _ ih => exact ih.commit_notify P ops
  | notify_commit wd t ops _ ih => exact ih.notify_commit P ops

theorem Hist.reach {P : ArtParams} {wd : World} {t : Tree} (h : Hist P wd t) : Reach P t := by
  induction h with
  | new wd ro _ => exact Reach.new wd ro
  | commit_notify wd t ops _ ih => exact Reach.commit t wd wd ops ih
  | notify_commit wd t ops _ ih =>
    rw [(notify_commit_eq _ _).1]
    exact Reach.commit t wd wd ops ih



/-! ## InsertWatch at the Txn level -/

/-- the channel InsertWatch / ModifyWatch returns (outside root-only mode) is the
    one Get of that key hands out on the resulting tree, whatever the root watch -/
theorem txn_insert_watch_eq_get (P : ArtParams) (x : Txn) (k : List Nat) (v : Nat) (m : Option (Nat → Nat → Nat))
    (rw : Nat) (hro : x.st.rootOnly = false) (h0 : (x.insert P k v m).2.2.2 ≠ 0) :
    (getRoot (x.insert P k v m).1.root rw k).2 = (x.insert P k v m).2.2.2 := by
  unfold Txn.insert at h0 ⊢
  cases hr : x.root with
  | none =>
    simp only [hr, hro, Bool.false_eq_true, if_false] at h0 ⊢
    simp only [getRoot]
    rw [searchNode_leaf_self]
    simp [h0]
  | some r =>
    simp only [hr, hro, Bool.false_eq_true, if_false] at h0 ⊢
    simp only [getRoot]
    exact insNode_search P x.st r k k v m rw h0

theorem txn_insert_watch_pos (P : ArtParams) (x : Txn) (k : List Nat) (v : Nat) (m : Option (Nat → Nat → Nat))
    (hro : x.st.rootOnly = false) (hnw : 0 < x.st.nextW) (hid : x.st.txnID ≠ 0) :
    (x.insert P k v m).2.2.2 ≠ 0 := by
  unfold Txn.insert
  cases hr : x.root with
  | none =>
    simp only [hro, Bool.false_eq_true, if_false]
    exact newLeafD_watch_pos x.st k v hro hnw
  | some r =>
    simp only [hro, Bool.false_eq_true, if_false]
    exact insNode_watch_pos P x.st hro hnw hid r k k v m



/-! ## several calls, under the channel invariant -/

/-- the Get channel of a committed tree is recorded, or is the root watch, once
    any call of the transaction inserted, modified or deleted the key -/
theorem get_channel_recorded_multi (P : ArtParams) (t : Tree) (hwf : TreeWF t) (wd : World) (k : List Nat) (ops : List Op)
    (hlt : (getRoot t.root t.rootWatch k).2 < wd.nextW) (ht : touched P (t.txn wd) k ops = true) :
    (getRoot t.root t.rootWatch k).2 = t.rootWatch ∨
    (getRoot t.root t.rootWatch k).2 ∈ (run P (t.txn wd) ops).st.pending := by
  rw [getRoot_eq_pwR] at hlt ⊢
  cases hr : t.root with
  | none => left; simp [pwR]
  | some r =>
    have hm := MInv.txn hwf wd r hr
    cases hp : pwR (some r) k with
    | none => left; rfl
    | some c =>
      right
      rw [hr, hp] at hlt
      simp only [Option.getD_some] at hlt ⊢
      have := run_closes (B := wd.nextW) P t.root k ops (t.txn wd) hm ht (fun c hc _ => Or.inr hc) c (by rw [hr]; exact hp) hlt
      exact this

theorem TreeInv.get_lt {wd : World} {t : Tree} (h : TreeInv wd t) (k : List Nat)
    (h0 : (getRoot t.root t.rootWatch k).2 ≠ 0) : (getRoot t.root t.rootWatch k).2 < wd.nextW := by
  unfold getRoot at h0 ⊢
  cases hr : t.root with
  | none => simp only [hr] at h0 ⊢; exact h.rw_lt h0
  | some r =>
    simp only [hr] at h0 ⊢
    rcases searchNode_mem r t.rootWatch k with he | ⟨_, h1⟩
    · rw [he] at h0 ⊢; exact h.rw_lt h0
    · exact h.lt _ h0 (by rw [hr]; exact h1)



/-! ## prefix channel bound -/

theorem TreeInv.prefix_lt {wd : World} {t : Tree} (h : TreeInv wd t) (q : List Nat)
    (h0 : (prefixRoot t.root t.rootWatch q).2 ≠ 0) : (prefixRoot t.root t.rootWatch q).2 < wd.nextW := by
  unfold prefixRoot at h0 ⊢
  cases hr : t.root with
  | none => simp only [hr] at h0 ⊢; exact h.rw_lt h0
  | some r =>
    simp only [hr] at h0 ⊢
    rcases prefixNode_mem r t.rootWatch q with he | ⟨_, h1⟩
    · rw [he] at h0 ⊢; exact h.rw_lt h0
    · exact h.lt _ h0 (by rw [hr]; exact h1)


end Sdb.ArtW
