import SdbModel.Lemmas.TableWatchIdx
import SdbModel.Props.C12
/-!
  Lemmas for the C06 glue, part 3: ONE committed index (`CIdx`: tree + channel world).

  `CInv c m`: the committed tree satisfies the channel invariant of C12 in its world
  (`TreeInv`), the stamp invariant (`ArtW.TreeWF`), the shape invariant of C11
  (`Art.TreeWF`), refines the index map `m`, and its root watch is a real channel.
  Preserved by Commit (+ Notify) of a tracked transaction and by Abort; the
  must-close lemmas compose `Track` with the C12 theorems.
  Core Lean only.
-/
namespace Sdb.TW
open Sdb.Art Sdb.Tbl Sdb.ArtW

structure CInv (c : CIdx) (m : OMap Obj) : Prop where
  inv : ArtW.TreeInv c.wd c.tree
  stamps : ArtW.TreeWF c.tree
  wf : Art.TreeWF c.tree
  ent : allRoot c.tree.root = rmap m
  rw0 : c.tree.rootWatch ≠ 0
  nw : 0 < c.wd.nextW

theorem CInv.sorted {c : CIdx} {m : OMap Obj} (h : CInv c m) : OMap.Sorted m := by
  rw [← rmap_sorted, ← h.ent]
  exact allRoot_sorted c.tree.root h.wf.1

theorem CInv.new : CInv newCIdx [] := by
  have hi : ArtW.TreeInv (newTree {} false).1 (newTree {} false).2 := TreeInv.new {} false (by intro c hc; simp at hc)
  refine ⟨hi, ?_, ?_, ?_, ?_, ?_⟩
  · intro r hr; simp [newCIdx, newTree] at hr
  · exact ⟨trivial, rfl⟩
  · rfl
  · simp [newCIdx, newTree]
  · simp [newCIdx, newTree]

/-- the channel invariant only needs the allocator to be at least as far and the same closed set -/
theorem treeInv_mono {wd wd' : World} {t : Tree} (h : ArtW.TreeInv wd t) (hc : wd'.closed = wd.closed)
    (hn : wd.nextW ≤ wd'.nextW) : ArtW.TreeInv wd' t := by
  refine ⟨h.nd, ?_, ?_, h.rw_nt, ?_, ?_, ?_⟩
  · intro c h0 h1; exact Nat.lt_of_lt_of_le (h.lt c h0 h1) hn
  · intro c h0 h1; rw [hc]; exact h.nc c h0 h1
  · intro h0; exact Nat.lt_of_lt_of_le (h.rw_lt h0) hn
  · intro h0; rw [hc]; exact h.rw_nc h0
  · intro c hcl h0; rw [hc] at hcl; exact Nat.lt_of_lt_of_le (h.cl_lt c hcl h0) hn

/-- an index whose transaction was never created: the index map did not change -/
theorem Track.none_eq {wd : World} {w : WIdx} {m0 m : OMap Obj} (h : Track wd w m0 m) (hm0 : OMap.Sorted m0)
    (hn : w.txn = none) : m = m0 := by
  obtain ⟨aops, _, hnil, htouch⟩ := h.ex
  have := hnil hn
  subst this
  apply omap_ext m m0 h.sorted hm0
  intro k
  apply Classical.byContradiction
  intro hk
  have := htouch k hk
  simp [touched] at this

/-- the transaction of a tracked index, as a run of calls on the committed tree -/
theorem Track.some_run {wd : World} {w : WIdx} {m0 m : OMap Obj} (h : Track wd w m0 m) (x : Txn) (hx : w.txn = some x) :
    ∃ aops, x = ArtW.run AP (w.tree.txn wd) aops ∧
      (∀ k, OMap.get m k ≠ OMap.get m0 k → touched AP (w.tree.txn wd) k aops = true) := by
  obtain ⟨aops, hrun, _, htouch⟩ := h.ex
  refine ⟨aops, ?_, htouch⟩
  rw [← hrun]; simp [WIdx.cur, hx]

theorem CInv.commit {c : CIdx} {m0 m : OMap Obj} {w : WIdx} (h : CInv c m0) (ht : Track c.wd w m0 m)
    (hw : w.tree = c.tree) : CInv (c.commit w) m := by
  unfold CIdx.commit
  cases hx : w.txn with
  | none =>
    simp only
    rw [ht.none_eq h.sorted hx]; exact h
  | some x =>
    simp only
    obtain ⟨aops, hrun, _⟩ := ht.some_run x hx
    rw [hw] at hrun
    have hcur : w.cur c.wd = x := by simp [WIdx.cur, hx]
    have hlater : Later (c.tree.txn c.wd) x := by rw [hrun]; exact later_run AP _ aops
    have hnw : c.wd.nextW ≤ x.st.nextW := hlater.nw
    have hrw : x.rootWatch = c.tree.rootWatch := hlater.rw
    obtain ⟨_, f2, f3, _, f5⟩ := commit_facts x c.wd
    refine ⟨?_, ?_, ?_, ?_, ?_, ?_⟩
    · rw [hrun]; exact h.inv.commit_notify AP aops
    · rw [hrun]; exact ((h.stamps.txn c.wd).1.run AP aops).commit c.wd
    · have := ht.wf; rw [hcur] at this; exact treeWF_commit this c.wd
    · show allRoot (x.commit c.wd).2.1.root = rmap m
      rw [f2]; have := ht.ent; rw [hcur] at this; exact this
    · show (x.commit c.wd).2.1.rootWatch ≠ 0
      rw [f3]
      split
      · have := h.nw; omega
      · rw [hrw]; exact h.rw0
    · show 0 < ((x.commit c.wd).1.notify (x.commit c.wd).2.2).2.nextW
      rw [notify_nextW, f5]
      have := h.nw
      split <;> omega

theorem CInv.abort {c : CIdx} {m0 : OMap Obj} (h : CInv c m0) (w : WIdx) : CInv (c.abort w) m0 := by
  unfold CIdx.abort
  cases hx : w.txn with
  | none => exact h
  | some x =>
    simp only
    refine ⟨treeInv_mono h.inv rfl (Nat.le_max_left _ _), h.stamps, h.wf, h.ent, h.rw0, ?_⟩
    have := h.nw
    show 0 < max c.wd.nextW x.st.nextW
    omega

/-- Abort closes nothing -/
theorem abort_closed (c : CIdx) (w : WIdx) : (c.abort w).wd.closed = c.wd.closed := by
  unfold CIdx.abort
  split <;> rfl

/-! ### channels handed out on a committed index are real and open -/

theorem getRoot_ne_zero (root : Option Node) (rw : Nat) (h : rw ≠ 0) (k : Key) : (getRoot root rw k).2 ≠ 0 := by
  unfold getRoot
  cases root with
  | none => exact h
  | some r =>
    rcases searchNode_mem r rw k with he | ⟨h0, _⟩
    · simp only; rw [he]; exact h
    · exact h0

theorem prefixRoot_ne_zero (root : Option Node) (rw : Nat) (h : rw ≠ 0) (q : Key) : (prefixRoot root rw q).2 ≠ 0 := by
  unfold prefixRoot
  cases root with
  | none => exact h
  | some r =>
    rcases prefixNode_mem r rw q with he | ⟨h0, _⟩
    · simp only; rw [he]; exact h
    · exact h0

theorem CInv.get_open {c : CIdx} {m : OMap Obj} (h : CInv c m) (k : Key) :
    (getRoot c.tree.root c.tree.rootWatch k).2 ≠ 0 ∧ (getRoot c.tree.root c.tree.rootWatch k).2 ∉ c.wd.closed :=
  ⟨getRoot_ne_zero _ _ h.rw0 k, h.inv.get_open k (getRoot_ne_zero _ _ h.rw0 k)⟩

theorem CInv.prefix_open {c : CIdx} {m : OMap Obj} (h : CInv c m) (q : Key) :
    (prefixRoot c.tree.root c.tree.rootWatch q).2 ≠ 0 ∧ (prefixRoot c.tree.root c.tree.rootWatch q).2 ∉ c.wd.closed :=
  ⟨prefixRoot_ne_zero _ _ h.rw0 q, h.inv.prefix_open q (prefixRoot_ne_zero _ _ h.rw0 q)⟩

theorem CInv.root_open {c : CIdx} {m : OMap Obj} (h : CInv c m) :
    c.tree.rootWatch ≠ 0 ∧ c.tree.rootWatch ∉ c.wd.closed := ⟨h.rw0, h.inv.rw_nc h.rw0⟩

/-! ### must-close: Track + C12 -/

/-- a key whose entry changed: the transaction exists and one of its calls touched the key -/
theorem Track.changed {wd : World} {w : WIdx} {m0 m : OMap Obj} (h : Track wd w m0 m) (k : Key)
    (hk : OMap.get m k ≠ OMap.get m0 k) :
    ∃ x aops, w.txn = some x ∧ x = ArtW.run AP (w.tree.txn wd) aops ∧ touched AP (w.tree.txn wd) k aops = true := by
  cases hx : w.txn with
  | none =>
    obtain ⟨aops, _, hnil, htouch⟩ := h.ex
    have := hnil hx
    subst this
    have := htouch k hk
    simp [touched] at this
  | some x =>
    obtain ⟨aops, hrun, htouch⟩ := h.some_run x hx
    exact ⟨x, aops, rfl, hrun, htouch k hk⟩

/-- **Get channel**: the channel `Tree.Get k` handed out on the committed index is closed by the
    commit of a transaction that changed the entry of `k` -/
theorem commit_closes_get {c : CIdx} {m0 m : OMap Obj} {w : WIdx} (h : CInv c m0) (ht : Track c.wd w m0 m)
    (hw : w.tree = c.tree) (k : Key) (hk : OMap.get m k ≠ OMap.get m0 k) :
    (getRoot c.tree.root c.tree.rootWatch k).2 ∈ (c.commit w).wd.closed := by
  obtain ⟨x, aops, hx, hrun, htouch⟩ := ht.changed k hk
  rw [hw] at hrun htouch
  unfold CIdx.commit
  simp only [hx]
  rw [hrun]
  have hc0 := (h.get_open k).1
  exact (C12_get_channel_closed_any_calls AP c.tree h.stamps c.wd c.wd _ k aops hc0 (h.inv.get_lt k hc0) htouch).1

/-- **Prefix channel**: closed by the commit of a transaction that changed the entry of a key under the prefix -/
theorem commit_closes_prefix {c : CIdx} {m0 m : OMap Obj} {w : WIdx} (h : CInv c m0) (ht : Track c.wd w m0 m)
    (hw : w.tree = c.tree) (q k : Key) (hq : hasPrefix k q = true) (hk : OMap.get m k ≠ OMap.get m0 k) :
    (prefixRoot c.tree.root c.tree.rootWatch q).2 ∈ (c.commit w).wd.closed := by
  obtain ⟨x, aops, hx, hrun, htouch⟩ := ht.changed k hk
  rw [hw] at hrun htouch
  unfold CIdx.commit
  simp only [hx]
  rw [hrun]
  have hc0 := (h.prefix_open q).1
  exact (C12_prefix_channel_closed_any_calls AP c.tree h.stamps c.wd c.wd _ q aops hc0 (h.inv.prefix_lt q hc0)
    (touched_touchedP AP k q hq aops _ htouch)).1

/-- **root watch**: closed by the commit of a transaction that changed any entry -/
theorem commit_closes_root {c : CIdx} {m0 m : OMap Obj} {w : WIdx} (h : CInv c m0) (ht : Track c.wd w m0 m)
    (hw : w.tree = c.tree) (k : Key) (hk : OMap.get m k ≠ OMap.get m0 k) :
    c.tree.rootWatch ∈ (c.commit w).wd.closed := by
  obtain ⟨x, aops, hx, hrun, htouch⟩ := ht.changed k hk
  rw [hw] at hrun htouch
  unfold CIdx.commit
  simp only [hx]
  rw [hrun]
  exact (C12_root_watch_closed_if_changed AP c.tree c.wd c.wd _ aops h.rw0 (touched_any AP k aops _ htouch)).1

/-- a commit only adds to the closed set -/
theorem commit_closed_mono (c : CIdx) (w : WIdx) (ch : Nat) (h : ch ∈ c.wd.closed) : ch ∈ (c.commit w).wd.closed := by
  unfold CIdx.commit
  split
  · exact h
  · rename_i x _
    show ch ∈ ((x.commit c.wd).1.notify (x.commit c.wd).2.2).2.closed
    rw [notify_closed]
    left
    rw [commit_closed]; exact h

end Sdb.TW
