import SdbModel.Lemmas.ConcInitReach

/-!
  ConcInitEff — what ONE micro step does to the committed root and to the list of
  closed channels, in full (all fields of the table versions), given the
  invariant `CI`: nothing; or the `storeRoot` of a committing writer replaces the
  versions of exactly its tables by the versions it computed from the committed
  ones; or the `storeRoot` of a registration appends a table; or `notify` closes
  the watch channels of the replaced versions; or `closeInit` closes the collected
  init channels.  Core Lean only.
-/
namespace Sdb.Conc

/-- what no micro step changes in the thread record -/
structure EffFrame (th th' : Thread) (c : Bool) : Prop where
  tables : th'.tables = th.tables
  regInit : th'.regInit = th.regInit
  markInit : th'.markInit = th.markInit
  sub : ∀ m, m ∈ th'.prog → m ∈ th.prog
  written : Micro.userWrites ∉ th.prog → th'.oldRoot = th.oldRoot ∧ th'.entries = th.entries
  stored : c = true → Micro.act .storeRoot ∉ th.prog → th'.toNotify = th.toNotify ∧ th'.initToClose = th.initToClose

inductive Eff (st st' : State) (th th' : Thread) (c : Bool) : Prop where
  | quiet : st'.root = st.root → st'.closed = st.closed →
      (Micro.act .storeRoot ∈ th'.prog ↔ Micro.act .storeRoot ∈ th.prog) →
      (Micro.act .notify ∈ th'.prog ↔ Micro.act .notify ∈ th.prog) →
      (Micro.act .closeInit ∈ th'.prog ↔ Micro.act .closeInit ∈ th.prog) → Eff st st' th th' c
  | commit : c = true → st'.closed = st.closed → Micro.act .storeRoot ∈ th.prog → Micro.act .storeRoot ∉ th'.prog →
      Micro.userWrites ∉ th.prog →
      st'.root.length = st.root.length →
      (∀ x ∈ lockList th, Micro.release x ∈ th.prog ∧ Micro.acquire x ∉ th.prog) →
      (∀ x, x < st.root.length →
        (x ∈ lockList th → getT th.oldRoot x = getT st.root x ∧
          (∃ n, getT th.entries x = uwEntry (th.regInit.contains x) (th.markInit.contains x) n (getT st.root x)) ∧
          getT st'.root x = clr (getT th.entries x)) ∧
        (x ∉ lockList th → getT st'.root x = getT st.root x)) →
      th.prog.head? = some (.act .storeRoot) → Eff st st' th th' c
  | register : th.tables = [] → st'.closed = st.closed → Micro.act .storeRoot ∈ th.prog →
      Micro.act .storeRoot ∉ th'.prog → st'.root = st.root ++ [{ watch := st.nextChan }] →
      th.prog.head? = some (.act .storeRoot) → Eff st st' th th' c
  | notify : c = true → st'.root = st.root → st'.closed = st.closed ++ th.toNotify →
      Micro.act .notify ∈ th.prog → Micro.act .notify ∉ th'.prog → Micro.act .storeRoot ∉ th.prog →
      Micro.userWrites ∉ th.prog →
      th.toNotify = (dedup th.tables).map (fun x => (getT th.oldRoot x).watch) →
      (∀ x ∈ lockList th, Micro.release x ∈ th.prog ∧ Micro.acquire x ∉ th.prog) →
      (∀ x ∈ lockList th, getT st.root x = clr (getT th.entries x)) →
      th.prog.head? = some (.act .notify) → Eff st st' th th' c
  | closeInit : c = true → st'.root = st.root → st'.closed = st.closed ++ th.initToClose →
      Micro.act .closeInit ∈ th.prog → Micro.act .closeInit ∉ th'.prog → Micro.act .storeRoot ∉ th.prog →
      Micro.act .notify ∉ th.prog → Micro.userWrites ∉ th.prog →
      (∀ x, Micro.release x ∉ th.prog) →
      th.initToClose = toClose th.entries (dedup th.tables) →
      th.prog.head? = some (.act .closeInit) → Eff st st' th th' c

theorem iff_of_pop (m a : Micro) (rest : List Micro) (h : a ≠ m) : a ∈ rest ↔ a ∈ m :: rest := by
  simp only [List.mem_cons]
  constructor
  · exact Or.inr
  · rintro (e | e)
    · exact absurd e h
    · exact e

/-- a step that pops `m` (none of the three channel actions) and leaves the shared
    root and closed list alone -/
theorem Eff_pop (st st' : State) (th th' : Thread) (c : Bool) (m : Micro) (rest : List Micro)
    (hprog : th.prog = m :: rest) (hprog' : th'.prog = rest)
    (h1 : m ≠ .act .storeRoot) (h2 : m ≠ .act .notify) (h3 : m ≠ .act .closeInit)
    (hroot : st'.root = st.root) (hclosed : st'.closed = st.closed) : Eff st st' th th' c := by
  refine .quiet hroot hclosed ?_ ?_ ?_ <;> rw [hprog', hprog]
  · exact iff_of_pop m _ rest (fun e => h1 e.symm)
  · exact iff_of_pop m _ rest (fun e => h2 e.symm)
  · exact iff_of_pop m _ rest (fun e => h3 e.symm)

theorem next2_inv (L : List Nat) (c : Bool) (p p' : Pos2) (m : Micro) (h : next2 L c p = some (m, p')) :
    (m = .userWrites → p = .uw) ∧ (m = .act .loadRoot → ∃ k, p = .acq k) ∧ (m = .act .cloneRoot → p = .clR) ∧
    (m = .act .collectInit → p = .ci) ∧ (m = .act .storeRoot → p = .sr ∨ p = .gS) ∧ (m = .act .notify → p = .nt) ∧
    (m = .act .closeInit → ∃ k, p = .rel k ∧ c = true ∧ L[k]? = none) := by
  cases p with
  | acq k =>
    simp only [next2] at h
    split at h <;> simp only [Option.some.injEq, Prod.mk.injEq] at h <;> obtain ⟨rfl, _⟩ := h <;> simp
  | rel k =>
    simp only [next2] at h
    split at h
    · simp only [Option.some.injEq, Prod.mk.injEq] at h; obtain ⟨rfl, _⟩ := h; simp
    · rename_i hk
      split at h
      · rename_i hc
        simp only [Option.some.injEq, Prod.mk.injEq] at h; obtain ⟨rfl, _⟩ := h
        exact ⟨by simp, by simp, by simp, by simp, by simp, by simp, fun _ => ⟨k, rfl, hc, hk⟩⟩
      · simp at h
  | fin => simp [next2] at h
  | gE => simp [next2] at h
  | _ => simp only [next2, Option.some.injEq, Prod.mk.injEq] at h <;> obtain ⟨rfl, _⟩ := h <;> simp

theorem head_pos (th : Thread) (L : List Nat) (c : Bool) (p : Pos2) (m : Micro) (rest : List Micro)
    (hprog : th.prog = m :: rest) (hp : strip2 th.prog = code2 L c p) (hm : relevant2 m = true) :
    ∃ p', next2 L c p = some (m, p') ∧ strip2 rest = code2 L c p' := by
  rw [hprog] at hp
  rcases pop_code2 L c p m rest hp with ⟨h, _⟩ | ⟨_, p', h1, h2⟩
  · rw [hm] at h; simp at h
  · exact ⟨p', h1, h2⟩

theorem frame_pop (th : Thread) (c : Bool) (m : Micro) (rest : List Micro) (r : Option (List TableV))
    (hprog : th.prog = m :: rest) : EffFrame th { th with prog := rest, result := r } c :=
  ⟨rfl, rfl, rfl, fun x hx => by rw [hprog]; exact List.mem_cons_of_mem _ hx, fun _ => ⟨rfl, rfl⟩, fun _ _ => ⟨rfl, rfl⟩⟩

/-- a micro step pops the head of the program (or sets `done` at its end) -/
theorem mstep_prog_tail (st : State) (tid : Nat) (th : Thread) (st' : State) (th' : Thread)
    (h : mstep st tid th = some (st', th')) : th'.prog = th.prog.tail := by
  unfold mstep at h
  split at h
  · rename_i hp
    split at h
    · simp at h
    · simp only [Option.some.injEq, Prod.mk.injEq] at h; obtain ⟨_, rfl⟩ := h; simp [hp]
  · rename_i m rest hp
    cases m with
    | park l => simp only [Option.some.injEq, Prod.mk.injEq] at h; obtain ⟨_, rfl⟩ := h; simp [hp]
    | acquire t =>
      simp only at h
      split at h
      · simp at h
      · simp only [Option.some.injEq, Prod.mk.injEq] at h; obtain ⟨_, rfl⟩ := h; simp [hp]
    | release t => simp only [Option.some.injEq, Prod.mk.injEq] at h; obtain ⟨_, rfl⟩ := h; simp [hp]
    | acquireRoot =>
      simp only at h
      split at h
      · simp at h
      · simp only [Option.some.injEq, Prod.mk.injEq] at h; obtain ⟨_, rfl⟩ := h; simp [hp]
    | releaseRoot => simp only [Option.some.injEq, Prod.mk.injEq] at h; obtain ⟨_, rfl⟩ := h; simp [hp]
    | act a =>
      simp only [Option.some.injEq] at h
      have h2 := doAct_prog st { th with prog := rest } a
      rw [h] at h2
      rw [h2, hp]; rfl
    | userWrites =>
      simp only [Option.some.injEq] at h
      have h2 := (doUserWrites_spec st { th with prog := rest }).2.2.2.2.2.2.1
      rw [h] at h2
      rw [h2, hp]; rfl

/-- only the head of the program can disappear in a micro step -/
theorem mstep_only_head (st : State) (tid : Nat) (th : Thread) (st' : State) (th' : Thread)
    (h : mstep st tid th = some (st', th')) (m : Micro) (hm : m ∈ th.prog) (hm' : m ∉ th'.prog) :
    th.prog.head? = some m := by
  rw [mstep_prog_tail st tid th st' th' h] at hm'
  cases hp : th.prog with
  | nil => rw [hp] at hm; simp at hm
  | cons a rest =>
    rw [hp] at hm hm'
    simp only [List.tail_cons] at hm'
    simp only [List.mem_cons] at hm
    rcases hm with rfl | hm
    · rfl
    · exact absurd hm hm'

/-- the effect of a micro step, read off the invariant -/
theorem mstep_eff (st : State) (cs : List Bool) (tid : Nat) (th : Thread) (st' : State) (th' : Thread)
    (htid : tid < st.threads.length) (hCI : CI (install st tid th) cs (some tid))
    (h : mstep st tid th = some (st', th')) :
    ∃ c, cs[tid]? = some c ∧ Eff st st' th th' c ∧ EffFrame th th' c := by
  obtain ⟨c, hc, hb, hadj, p, hp, hl⟩ := own_thread st cs _ tid th hCI htid
  refine ⟨c, hc, ?_⟩
  cases hprog : th.prog with
  | nil =>
    simp only [mstep, hprog] at h
    split at h
    · simp at h
    · simp only [Option.some.injEq, Prod.mk.injEq] at h
      obtain ⟨rfl, rfl⟩ := h
      exact ⟨.quiet rfl rfl (by simp [hprog]) (by simp [hprog]) (by simp [hprog]),
        ⟨rfl, rfl, rfl, fun _ hm => by simp at hm, fun _ => ⟨rfl, rfl⟩, fun _ _ => ⟨rfl, rfl⟩⟩⟩
  | cons m rest =>
    cases m with
    | park l =>
      simp only [mstep, hprog, Option.some.injEq, Prod.mk.injEq] at h
      obtain ⟨rfl, rfl⟩ := h
      exact ⟨Eff_pop _ _ th _ c _ rest hprog rfl (by simp) (by simp) (by simp) rfl rfl, frame_pop th c _ rest th.result hprog⟩
    | acquire t =>
      simp only [mstep, hprog] at h
      split at h
      · simp at h
      · simp only [Option.some.injEq, Prod.mk.injEq] at h
        obtain ⟨rfl, rfl⟩ := h
        exact ⟨Eff_pop _ _ th _ c _ rest hprog rfl (by simp) (by simp) (by simp) rfl rfl, frame_pop th c _ rest th.result hprog⟩
    | release t =>
      simp only [mstep, hprog, Option.some.injEq, Prod.mk.injEq] at h
      obtain ⟨rfl, rfl⟩ := h
      exact ⟨Eff_pop _ _ th _ c _ rest hprog rfl (by simp) (by simp) (by simp) rfl rfl, frame_pop th c _ rest th.result hprog⟩
    | acquireRoot =>
      simp only [mstep, hprog] at h
      split at h
      · simp at h
      · simp only [Option.some.injEq, Prod.mk.injEq] at h
        obtain ⟨rfl, rfl⟩ := h
        exact ⟨Eff_pop _ _ th _ c _ rest hprog rfl (by simp) (by simp) (by simp) rfl rfl, frame_pop th c _ rest th.result hprog⟩
    | releaseRoot =>
      simp only [mstep, hprog, Option.some.injEq, Prod.mk.injEq] at h
      obtain ⟨rfl, rfl⟩ := h
      exact ⟨Eff_pop _ _ th _ c _ rest hprog rfl (by simp) (by simp) (by simp) rfl rfl, frame_pop th c _ rest th.result hprog⟩
    | userWrites =>
      obtain ⟨p', hn, hstrip⟩ := head_pos th _ c p _ rest hprog hp rfl
      have hpe := (next2_inv _ _ _ _ _ hn).1 rfl
      subst hpe
      obtain ⟨_, t2, _, _⟩ := tracked_of_pos th _ c _ hp
      obtain ⟨hseen, hent, hlk⟩ := hl
      have hnd : ({ th with prog := rest } : Thread).locked.Nodup := by
        show th.locked.Nodup; rw [hlk]; exact nodup_dedup _
      obtain ⟨⟨f, hf⟩, htn, hrec⟩ := doUserWrites_full st { th with prog := rest } hnd
      simp only [mstep, hprog, Option.some.injEq] at h
      rw [h] at hf hrec
      simp only at hf hrec
      have huw : Micro.userWrites ∈ th.prog := by rw [hprog]; simp
      refine ⟨Eff_pop _ _ th _ c _ rest hprog (by rw [hrec]) (by simp) (by simp) (by simp) hf.root hf.closed, ?_⟩
      refine ⟨by rw [hrec], by rw [hrec], by rw [hrec], ?_, fun hn => absurd huw hn, ?_⟩
      · intro x hx; rw [hrec] at hx; rw [hprog]; exact List.mem_cons_of_mem _ hx
      · intro hct hs
        exfalso; apply hs; apply t2.2; simp [srIn, hct]
    | act a =>
      cases a with
      | storeRoot =>
        obtain ⟨p', hn, hstrip⟩ := head_pos th _ c p _ rest hprog hp rfl
        simp only [mstep, hprog, doAct, Option.some.injEq, Prod.mk.injEq] at h
        obtain ⟨rfl, rfl⟩ := h
        obtain ⟨_, r2, _, _⟩ := tracked_of_pos { th with prog := rest } _ c _ hstrip
        have hsr : Micro.act .storeRoot ∈ th.prog := by rw [hprog]; simp
        rcases (next2_inv _ _ _ _ _ hn).2.2.2.2.1 rfl with hpe | hpe
        · subst hpe
          simp only [next2, Option.some.injEq, Prod.mk.injEq] at hn
          obtain ⟨_, rfl⟩ := hn
          obtain ⟨hct, hseen, hwr, hcur, hci, htc⟩ := hl
          obtain ⟨t1, _, _, _⟩ := tracked_of_pos th _ c _ hp
          have hsr' : Micro.act .storeRoot ∉ rest := fun hh => by have := r2.1 hh; simp [srIn] at this
          have huw : Micro.userWrites ∉ th.prog := fun hh => by have := t1.1 hh; simp [uwIn] at this
          refine ⟨.commit hct rfl hsr hsr' huw (by show th.newRoot.length = _; rw [hci.1, hcur]) ?_ ?_
            (by rw [hprog]; rfl), frame_pop th c _ rest th.result hprog⟩
          · intro x hx
            have := stable_between (lockList th) c .sr x hx
            rw [← hp, mem_strip2 _ _ (by rfl), mem_strip2 _ _ (by rfl)] at this
            exact this
          · intro x hx
            obtain ⟨g1, g2⟩ := hci.2 x (by rw [hcur]; exact hx)
            constructor
            · intro hxl
              obtain ⟨n, hn⟩ := (hwr.2.2.1 x hxl).2
              exact ⟨(hseen x hxl).2, ⟨n, by rw [← (hseen x hxl).2]; exact hn⟩, g1 hxl⟩
            · intro hxl
              show getT th.newRoot x = _
              rw [g2 hxl, hcur]
        · subst hpe
          simp only [next2, Option.some.injEq, Prod.mk.injEq] at hn
          obtain ⟨_, rfl⟩ := hn
          have hsr' : Micro.act .storeRoot ∉ rest := fun hh => by have := r2.1 hh; simp [srIn] at this
          exact ⟨.register hl.2.1 rfl hsr hsr' hl.2.2.1 (by rw [hprog]; rfl), frame_pop th c _ rest th.result hprog⟩
      | notify =>
        obtain ⟨p', hn, hstrip⟩ := head_pos th _ c p _ rest hprog hp rfl
        simp only [mstep, hprog, doAct, Option.some.injEq, Prod.mk.injEq] at h
        obtain ⟨rfl, rfl⟩ := h
        have hpe := (next2_inv _ _ _ _ _ hn).2.2.2.2.2.1 rfl
        subst hpe
        simp only [next2, Option.some.injEq, Prod.mk.injEq] at hn
        obtain ⟨_, rfl⟩ := hn
        obtain ⟨hct, hwr, hcii, hsto⟩ := hl
        obtain ⟨t1, t2, _, _⟩ := tracked_of_pos th _ c _ hp
        obtain ⟨_, _, r3, _⟩ := tracked_of_pos { th with prog := rest } _ c _ hstrip
        have hnt' : Micro.act .notify ∉ rest := fun hh => by have := r3.1 hh; simp [ntIn] at this
        have hsr : Micro.act .storeRoot ∉ th.prog := fun hh => by have := t2.1 hh; simp [srIn] at this
        have huw : Micro.userWrites ∉ th.prog := fun hh => by have := t1.1 hh; simp [uwIn] at this
        refine ⟨.notify hct rfl rfl (by rw [hprog]; simp) hnt' hsr huw hwr.2.2.2 ?_ hsto (by rw [hprog]; rfl),
          frame_pop th c _ rest th.result hprog⟩
        intro x hx
        have := stable_between (lockList th) c .nt x hx
        rw [← hp, mem_strip2 _ _ (by rfl), mem_strip2 _ _ (by rfl)] at this
        exact this
      | closeInit =>
        obtain ⟨p', hn, hstrip⟩ := head_pos th _ c p _ rest hprog hp rfl
        simp only [mstep, hprog, doAct, Option.some.injEq, Prod.mk.injEq] at h
        obtain ⟨rfl, rfl⟩ := h
        obtain ⟨k, hpe, hct, hk⟩ := (next2_inv _ _ _ _ _ hn).2.2.2.2.2.2 rfl
        subst hpe
        subst hct
        simp only [next2, hk, if_true, Option.some.injEq, Prod.mk.injEq] at hn
        obtain ⟨_, rfl⟩ := hn
        obtain ⟨hwr, hrest⟩ := hl
        obtain ⟨hcii, _⟩ := hrest rfl
        obtain ⟨t1, t2, t3, _⟩ := tracked_of_pos th _ true _ hp
        obtain ⟨_, _, _, r4⟩ := tracked_of_pos { th with prog := rest } _ true _ hstrip
        have hcl' : Micro.act .closeInit ∉ rest := fun hh => by have := r4.1 hh; simp [clIn] at this
        have hsr : Micro.act .storeRoot ∉ th.prog := fun hh => by have := t2.1 hh; simp [srIn] at this
        have hnt : Micro.act .notify ∉ th.prog := fun hh => by have := t3.1 hh; simp [ntIn] at this
        have huw : Micro.userWrites ∉ th.prog := fun hh => by have := t1.1 hh; simp [uwIn] at this
        refine ⟨.closeInit rfl rfl rfl (by rw [hprog]; simp) hcl' hsr hnt huw ?_ hcii.1 (by rw [hprog]; rfl),
          frame_pop th true _ rest th.result hprog⟩
        intro x hx
        rw [← mem_strip2 _ _ (by rfl), hp] at hx
        simp [code2, relTail, drop_of_getElem?_none _ _ hk] at hx
      | loadRoot =>
        obtain ⟨p', hn, hstrip⟩ := head_pos th _ c p _ rest hprog hp rfl
        simp only [mstep, hprog, doAct, Option.some.injEq, Prod.mk.injEq] at h
        obtain ⟨rfl, rfl⟩ := h
        obtain ⟨k, hpe⟩ := (next2_inv _ _ _ _ _ hn).2.1 rfl
        subst hpe
        have huw : Micro.userWrites ∈ th.prog := (tracked_of_pos th _ c _ hp).1.2 rfl
        exact ⟨Eff_pop _ _ th _ c _ rest hprog rfl (by simp) (by simp) (by simp) rfl rfl,
          ⟨rfl, rfl, rfl, fun x hx => by rw [hprog]; exact List.mem_cons_of_mem _ hx, fun hn => absurd huw hn,
            fun _ _ => ⟨rfl, rfl⟩⟩⟩
      | cloneRoot =>
        obtain ⟨p', hn, hstrip⟩ := head_pos th _ c p _ rest hprog hp rfl
        simp only [mstep, hprog, doAct, Option.some.injEq, Prod.mk.injEq] at h
        obtain ⟨rfl, rfl⟩ := h
        have hpe := (next2_inv _ _ _ _ _ hn).2.2.1 rfl
        subst hpe
        have huw : Micro.userWrites ∈ th.prog := (tracked_of_pos th _ c _ hp).1.2 rfl
        exact ⟨Eff_pop _ _ th _ c _ rest hprog rfl (by simp) (by simp) (by simp) rfl rfl,
          ⟨rfl, rfl, rfl, fun x hx => by rw [hprog]; exact List.mem_cons_of_mem _ hx, fun hn => absurd huw hn,
            fun _ _ => ⟨rfl, rfl⟩⟩⟩
      | collectInit =>
        obtain ⟨p', hn, hstrip⟩ := head_pos th _ c p _ rest hprog hp rfl
        simp only [mstep, hprog, doAct_collectInit, Option.some.injEq, Prod.mk.injEq] at h
        obtain ⟨rfl, rfl⟩ := h
        have hpe := (next2_inv _ _ _ _ _ hn).2.2.2.1 rfl
        subst hpe
        have hsr : Micro.act .storeRoot ∈ th.prog := (tracked_of_pos th _ c _ hp).2.1.2 rfl
        exact ⟨Eff_pop _ _ th _ c _ rest hprog rfl (by simp) (by simp) (by simp) rfl rfl,
          ⟨rfl, rfl, rfl, fun x hx => by rw [hprog]; exact List.mem_cons_of_mem _ hx, fun _ => ⟨rfl, rfl⟩,
            fun _ hn => absurd hsr hn⟩⟩
      | returnToPool =>
        simp only [mstep, hprog, doAct, Option.some.injEq, Prod.mk.injEq] at h
        obtain ⟨rfl, rfl⟩ := h
        exact ⟨Eff_pop _ _ th _ c _ rest hprog rfl (by simp) (by simp) (by simp) rfl rfl, frame_pop th c _ rest _ hprog⟩
      | mergeUnlocked =>
        simp only [mstep, hprog, doAct_mergeUnlocked, Option.some.injEq, Prod.mk.injEq] at h
        obtain ⟨rfl, rfl⟩ := h
        exact ⟨Eff_pop _ _ th _ c _ rest hprog rfl (by simp) (by simp) (by simp) rfl rfl,
          ⟨rfl, rfl, rfl, fun x hx => by rw [hprog]; exact List.mem_cons_of_mem _ hx, fun _ => ⟨rfl, rfl⟩,
            fun _ _ => ⟨rfl, rfl⟩⟩⟩
      | _ =>
        simp only [mstep, hprog, doAct, Option.some.injEq, Prod.mk.injEq] at h
        obtain ⟨rfl, rfl⟩ := h
        exact ⟨Eff_pop _ _ th _ c _ rest hprog rfl (by simp) (by simp) (by simp) rfl rfl,
          ⟨rfl, rfl, rfl, fun x hx => by rw [hprog]; exact List.mem_cons_of_mem _ hx, fun _ => ⟨rfl, rfl⟩,
            fun _ _ => ⟨rfl, rfl⟩⟩⟩

end Sdb.Conc
