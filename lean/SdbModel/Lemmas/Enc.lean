import SdbModel.Model.Enc

/-! Helper lemmas for C18 (key encodings).  Core Lean only. -/
namespace Sdb

/-- the lexicographic combination used in statements: first `a`, ties by `b` -/
def Ordering.thenO (a b : Ordering) : Ordering :=
  match a with
  | .eq => b
  | o => o

def cmpN (n m : Nat) : Ordering := if n < m then .lt else if m < n then .gt else .eq

/-! ### cmpL basics -/

@[simp] theorem cmpL_nil_nil : cmpL [] [] = .eq := rfl
@[simp] theorem cmpL_nil_cons (b bs) : cmpL [] (b :: bs) = .lt := rfl
@[simp] theorem cmpL_cons_nil (a as) : cmpL (a :: as) [] = .gt := rfl
theorem cmpL_cons_cons (a as b bs) :
    cmpL (a :: as) (b :: bs) = if a < b then .lt else if b < a then .gt else cmpL as bs := rfl

theorem cmpL_refl (l : List Nat) : cmpL l l = .eq := by
  induction l with
  | nil => rfl
  | cons a as ih => simp [cmpL_cons_cons, ih]

theorem cmpL_eq_iff (a b : List Nat) : cmpL a b = .eq ↔ a = b := by
  induction a generalizing b with
  | nil => cases b <;> simp
  | cons x xs ih =>
    cases b with
    | nil => simp
    | cons y ys =>
      rw [cmpL_cons_cons]
      by_cases h1 : x < y
      · simp [h1]; omega
      · by_cases h2 : y < x
        · simp [h1, h2]; omega
        · have : x = y := by omega
          subst this
          simp [ih]

theorem cmpL_append_left (l a b : List Nat) : cmpL (l ++ a) (l ++ b) = cmpL a b := by
  induction l with
  | nil => rfl
  | cons x xs ih => simp [cmpL_cons_cons, ih]

theorem cmpL_swap (a b : List Nat) : cmpL b a = (cmpL a b).swap := by
  induction a generalizing b with
  | nil => cases b <;> rfl
  | cons x xs ih =>
    cases b with
    | nil => rfl
    | cons y ys =>
      simp only [cmpL_cons_cons]
      by_cases h1 : x < y
      · have : ¬ y < x := by omega
        simp [h1, this]
      · by_cases h2 : y < x
        · simp [h1, h2]
        · simp [h1, h2, ih]

/-- same-length prefixes: compare them first, then the tails -/
theorem cmpL_append_same_len (A B a b : List Nat) (h : A.length = B.length) :
    cmpL (A ++ a) (B ++ b) = Ordering.thenO (cmpL A B) (cmpL a b) := by
  induction A generalizing B with
  | nil =>
    cases B with
    | nil => simp [Ordering.thenO]
    | cons _ _ => simp at h
  | cons x xs ih =>
    cases B with
    | nil => simp at h
    | cons y ys =>
      simp only [List.cons_append, cmpL_cons_cons]
      by_cases h1 : x < y
      · simp [h1, Ordering.thenO]
      · by_cases h2 : y < x
        · simp [h1, h2, Ordering.thenO]
        · simp only [h1, h2, if_false]
          exact ih ys (by simpa using h)

/-! ### hasPrefix basics -/

@[simp] theorem hasPrefix_nil (k) : hasPrefix k [] = true := by cases k <;> rfl
@[simp] theorem hasPrefix_nil_cons (b bs) : hasPrefix [] (b :: bs) = false := rfl
theorem hasPrefix_cons_cons (a as b bs) :
    hasPrefix (a :: as) (b :: bs) = (a == b && hasPrefix as bs) := rfl

theorem hasPrefix_iff (k p : List Nat) : hasPrefix k p = true ↔ p <+: k := by
  induction p generalizing k with
  | nil => simp
  | cons b bs ih =>
    cases k with
    | nil => simp
    | cons a as =>
      simp only [hasPrefix_cons_cons, Bool.and_eq_true, beq_iff_eq, ih, List.cons_prefix_cons]
      constructor
      · rintro ⟨h1, h2⟩; exact ⟨h1.symm, h2⟩
      · rintro ⟨h1, h2⟩; exact ⟨h1.symm, h2⟩

theorem hasPrefix_append_left (l k p : List Nat) : hasPrefix (l ++ k) (l ++ p) = hasPrefix k p := by
  induction l with
  | nil => rfl
  | cons x xs ih => simp [hasPrefix_cons_cons, ih]

/-! ### the escape scheme with concrete shape -/

/-- the shape the well-formedness predicate forces -/
def encB (x y b : Nat) : List Nat := if b = 0 then [1, x] else if b = 1 then [1, y] else [b]

def encXY (x y : Nat) : Key → List Nat
  | [] => []
  | b :: bs => encB x y b ++ encXY x y bs

theorem EncParams.wf_iff (P : EncParams) : P.wf = true ↔ P.WellFormed := by
  unfold EncParams.wf EncParams.WellFormed
  constructor
  · intro h
    simp only [Bool.and_eq_true, beq_iff_eq] at h
    obtain ⟨⟨h0, h1⟩, h2⟩ := h
    refine ⟨h0, h1, ?_⟩
    split at h2
    · rename_i s1 x s2 y he1 he2
      simp only [Bool.and_eq_true, beq_iff_eq, decide_eq_true_eq] at h2
      obtain ⟨⟨⟨⟨a, b⟩, c⟩, d⟩, e⟩ := h2
      exact ⟨x, y, by rw [he1, a], by rw [he2, b], c, d, e⟩
    · simp at h2
  · rintro ⟨h0, h1, x, y, hx, hy, a, b, c⟩
    simp [h0, h1, hx, hy, a, b, c]

theorem EncParams.enc_eq (P : EncParams) (h : P.WellFormed) :
    ∃ x y, 0 < x ∧ x < y ∧ y < 256 ∧ ∀ k, P.enc k = encXY x y k := by
  obtain ⟨h0, h1, x, y, hx, hy, a, b, c⟩ := h
  refine ⟨x, y, a, b, c, ?_⟩
  intro k
  induction k with
  | nil => rfl
  | cons b bs ih =>
    simp only [EncParams.enc, encXY, ih]
    congr 1
    simp [EncParams.encByte, encB, h0, h1, hx, hy]

theorem EncParams.encodedLength_eq (P : EncParams) (h : P.WellFormed) (k : Key) :
    P.encodedLength k = (P.enc k).length := by
  obtain ⟨h0, h1, x, y, hx, hy, _⟩ := h
  induction k with
  | nil => rfl
  | cons b bs ih =>
    simp only [EncParams.encodedLength, EncParams.enc, List.length_append, ih]
    congr 1
    simp only [EncParams.encByte, h0, h1, hx, hy]
    by_cases hb0 : b = 0
    · simp [hb0]
    · by_cases hb1 : b = 1
      · simp [hb1]
      · simp [hb0, hb1]

section XY
variable {x y : Nat}

theorem encB_ne_nil (b : Nat) : encB x y b ≠ [] := by
  unfold encB
  split
  · simp
  · split <;> simp

theorem encXY_cons_ne_nil (b : Nat) (bs : Key) : encXY x y (b :: bs) ≠ [] := by
  simp [encXY, encB_ne_nil]


theorem cmpL_diff_lt (pre : List Nat) (a b : Nat) (r1 r2 : List Nat) (h : a < b) :
    cmpL (pre ++ a :: r1) (pre ++ b :: r2) = .lt := by
  rw [cmpL_append_left]; simp [cmpL_cons_cons, h]

theorem cmpL_diff_gt (pre : List Nat) (a b : Nat) (r1 r2 : List Nat) (h : a < b) :
    cmpL (pre ++ b :: r1) (pre ++ a :: r2) = .gt := by
  rw [cmpL_append_left]
  have : ¬ b < a := by omega
  simp [cmpL_cons_cons, h, this]

theorem hasPrefix_diff (pre : List Nat) (a b : Nat) (r1 r2 : List Nat) (h : a ≠ b) :
    hasPrefix (pre ++ a :: r1) (pre ++ b :: r2) = false := by
  rw [hasPrefix_append_left]; simp [hasPrefix_cons_cons, h]

theorem encB_diff (hx : 0 < x) (hxy : x < y) (c d : Nat) (h : c < d) :
    ∃ pre a b ra rb, encB x y c = pre ++ a :: ra ∧ encB x y d = pre ++ b :: rb ∧ a < b := by
  unfold encB
  by_cases hc0 : c = 0
  · by_cases hd1 : d = 1
    · exact ⟨[1], x, y, [], [], by simp [hc0], by simp [hd1], hxy⟩
    · have hd0 : d ≠ 0 := by omega
      exact ⟨[], 1, d, [x], [], by simp [hc0], by simp [hd0, hd1], by omega⟩
  · by_cases hc1 : c = 1
    · have hd0 : d ≠ 0 := by omega
      have hd1 : d ≠ 1 := by omega
      exact ⟨[], 1, d, [y], [], by simp [hc1], by simp [hd0, hd1], by omega⟩
    · have hd0 : d ≠ 0 := by omega
      have hd1 : d ≠ 1 := by omega
      exact ⟨[], c, d, [], [], by simp [hc0, hc1], by simp [hd0, hd1], h⟩

/-- order preservation -/
theorem encXY_cmp (hx : 0 < x) (hxy : x < y) (a b : Key) :
    cmpL (encXY x y a) (encXY x y b) = cmpL a b := by
  induction a generalizing b with
  | nil =>
    cases b with
    | nil => rfl
    | cons d ds =>
      have := encXY_cons_ne_nil (x := x) (y := y) d ds
      cases h : encXY x y (d :: ds) with
      | nil => exact absurd h this
      | cons _ _ => simp [encXY]
  | cons c cs ih =>
    cases b with
    | nil =>
      have := encXY_cons_ne_nil (x := x) (y := y) c cs
      cases h : encXY x y (c :: cs) with
      | nil => exact absurd h this
      | cons _ _ => simp [encXY]
    | cons d ds =>
      by_cases hcd : c = d
      · subst hcd
        simp only [encXY, cmpL_append_left, cmpL_cons_cons, Nat.lt_irrefl, if_false]
        exact ih ds
      · rcases Nat.lt_or_gt_of_ne hcd with hlt | hgt
        · obtain ⟨pre, a, b, ra, rb, e1, e2, hab⟩ := encB_diff hx hxy c d hlt
          have : cmpL (c :: cs) (d :: ds) = .lt := by simp [cmpL_cons_cons, hlt]
          rw [this]
          simp only [encXY, e1, e2, List.append_assoc, List.cons_append]
          exact cmpL_diff_lt _ _ _ _ _ hab
        · obtain ⟨pre, a, b, ra, rb, e1, e2, hab⟩ := encB_diff hx hxy d c hgt
          have : cmpL (c :: cs) (d :: ds) = .gt := by
            have : ¬ c < d := by omega
            simp [cmpL_cons_cons, hgt, this]
          rw [this]
          simp only [encXY, e1, e2, List.append_assoc, List.cons_append]
          exact cmpL_diff_gt _ _ _ _ _ hab

theorem encXY_injective (hx : 0 < x) (hxy : x < y) (a b : Key) (h : encXY x y a = encXY x y b) : a = b := by
  have := encXY_cmp hx hxy a b
  rw [h, cmpL_refl] at this
  exact (cmpL_eq_iff a b).mp this.symm

/-- prefix reflection -/
theorem encXY_hasPrefix (hx : 0 < x) (hxy : x < y) (k p : Key) :
    hasPrefix (encXY x y k) (encXY x y p) = hasPrefix k p := by
  induction p generalizing k with
  | nil => simp [encXY]
  | cons d ds ih =>
    cases k with
    | nil =>
      have := encXY_cons_ne_nil (x := x) (y := y) d ds
      cases h : encXY x y (d :: ds) with
      | nil => exact absurd h this
      | cons _ _ => simp [encXY]
    | cons c cs =>
      by_cases hcd : c = d
      · subst hcd
        simp only [encXY, hasPrefix_append_left, hasPrefix_cons_cons, beq_self_eq_true, Bool.true_and]
        exact ih cs
      · have hf : hasPrefix (c :: cs) (d :: ds) = false := by
          simp [hasPrefix_cons_cons, hcd]
        rw [hf]
        rcases Nat.lt_or_gt_of_ne hcd with hlt | hgt
        · obtain ⟨pre, a, b, ra, rb, e1, e2, hab⟩ := encB_diff hx hxy c d hlt
          simp only [encXY, e1, e2, List.append_assoc, List.cons_append]
          exact hasPrefix_diff _ _ _ _ _ (by omega)
        · obtain ⟨pre, a, b, ra, rb, e1, e2, hab⟩ := encB_diff hx hxy d c hgt
          simp only [encXY, e1, e2, List.append_assoc, List.cons_append]
          exact hasPrefix_diff _ _ _ _ _ (by omega)

/-- encodings never contain the separator byte -/
theorem encXY_pos (hx : 0 < x) (hxy : x < y) (k : Key) : ∀ b ∈ encXY x y k, 0 < b := by
  induction k with
  | nil => simp [encXY]
  | cons c cs ih =>
    intro b hb
    simp only [encXY, List.mem_append] at hb
    rcases hb with hb | hb
    · unfold encB at hb
      split at hb
      · simp at hb; omega
      · split at hb
        · simp at hb; omega
        · simp at hb; omega
    · exact ih b hb

end XY

/-! ### composite-key lemmas on zero-free lists -/

def ZeroFree (l : List Nat) : Prop := ∀ b ∈ l, 0 < b

theorem ZeroFree.tail {a : Nat} {l : List Nat} (h : ZeroFree (a :: l)) : ZeroFree l :=
  fun b hb => h b (List.mem_cons_of_mem _ hb)

theorem ZeroFree.head {a : Nat} {l : List Nat} (h : ZeroFree (a :: l)) : 0 < a :=
  h a (List.mem_cons_self ..)

/-- secondary part: zero-free lists followed by the 0 separator compare like
    the lists themselves, ties decided by what follows -/
theorem cmpL_sep (u u' A A' : List Nat) (hu : ZeroFree u) (hu' : ZeroFree u') :
    cmpL (u ++ 0 :: A) (u' ++ 0 :: A') = Ordering.thenO (cmpL u u') (cmpL A A') := by
  induction u generalizing u' with
  | nil =>
    cases u' with
    | nil => simp [cmpL_cons_cons, Ordering.thenO]
    | cons c cs =>
      have := hu'.head
      simp [cmpL_cons_cons, Ordering.thenO, this]
  | cons d ds ih =>
    cases u' with
    | nil =>
      have := hu.head
      have h2 : ¬ d < 0 := by omega
      simp [cmpL_cons_cons, Ordering.thenO, this]
    | cons c cs =>
      simp only [List.cons_append, cmpL_cons_cons]
      by_cases h1 : d < c
      · simp [h1, Ordering.thenO]
      · by_cases h2 : c < d
        · simp [h1, h2, Ordering.thenO]
        · simp only [h1, h2, if_false]
          exact ih cs hu.tail hu'.tail

/-- primary part with the length suffix, for encoded lengths below 256
    (suffix high byte is 0x00, i.e. below every key byte) -/
theorem cmpL_lenSuffix (u u' : List Nat) (n n' : Nat) (hu : ZeroFree u) (hu' : ZeroFree u')
    (hn : u.length = u'.length → n = n') :
    cmpL (u ++ [0, n]) (u' ++ [0, n']) = cmpL u u' := by
  induction u generalizing u' with
  | nil =>
    cases u' with
    | nil =>
      have := hn rfl
      subst this
      simp [cmpL_cons_cons]
    | cons c cs =>
      have := hu'.head
      simp [cmpL_cons_cons, this]
  | cons d ds ih =>
    cases u' with
    | nil =>
      have := hu.head
      simp [cmpL_cons_cons, this]
    | cons c cs =>
      simp only [List.cons_append, cmpL_cons_cons]
      by_cases h1 : d < c
      · simp [h1]
      · by_cases h2 : c < d
        · simp [h1, h2]
        · simp only [h1, h2, if_false]
          exact ih cs hu.tail hu'.tail (fun h => hn (by simp [h]))

/-- first zero splits a `u ++ 0 :: A` with zero-free `u` uniquely -/
theorem sep_split_unique (u u' A A' : List Nat) (hu : ZeroFree u) (hu' : ZeroFree u')
    (h : u ++ 0 :: A = u' ++ 0 :: A') : u = u' ∧ A = A' := by
  induction u generalizing u' with
  | nil =>
    cases u' with
    | nil => simpa using h
    | cons c cs =>
      have := hu'.head
      simp at h; omega
  | cons d ds ih =>
    cases u' with
    | nil =>
      have := hu.head
      simp at h; omega
    | cons c cs =>
      simp only [List.cons_append, List.cons.injEq] at h
      obtain ⟨h1, h2⟩ := h
      obtain ⟨h3, h4⟩ := ih cs hu.tail hu'.tail h2
      exact ⟨by rw [h1, h3], h4⟩

/-! ### big-endian integers -/

@[simp] theorem be_length (w n : Nat) : (be w n).length = w := by
  induction w generalizing n with
  | zero => rfl
  | succ w ih => simp [be, ih]

theorem unbe_append (a : List Nat) (b : Nat) : unbe (a ++ [b]) = unbe a * 256 + b := by
  simp [unbe, List.foldl_append]

theorem unbe_be (w n : Nat) : unbe (be w n) = n % 256 ^ w := by
  induction w generalizing n with
  | zero => simp [be, unbe, Nat.mod_one]
  | succ w ih =>
    rw [be, unbe_append, ih, Nat.pow_succ, Nat.mul_comm (256 ^ w) 256, Nat.mod_mul]
    omega

theorem be_injective (w n m : Nat) (hn : n < 256 ^ w) (hm : m < 256 ^ w) (h : be w n = be w m) : n = m := by
  have h1 := unbe_be w n
  have h2 := unbe_be w m
  rw [h, h2, Nat.mod_eq_of_lt hm] at h1
  rw [Nat.mod_eq_of_lt hn] at h1
  exact h1.symm

theorem be_cmp (w n m : Nat) (hn : n < 256 ^ w) (hm : m < 256 ^ w) :
    cmpL (be w n) (be w m) = cmpN n m := by
  induction w generalizing n m with
  | zero =>
    simp at hn hm; subst hn; subst hm; simp [be, cmpN]
  | succ w ih =>
    rw [be, be, cmpL_append_same_len _ _ _ _ (by simp)]
    have hn' : n / 256 < 256 ^ w := by
      rw [Nat.pow_succ] at hn; exact Nat.div_lt_of_lt_mul (by rw [Nat.mul_comm]; exact hn)
    have hm' : m / 256 < 256 ^ w := by
      rw [Nat.pow_succ] at hm; exact Nat.div_lt_of_lt_mul (by rw [Nat.mul_comm]; exact hm)
    rw [ih _ _ hn' hm']
    have e1 := Nat.div_add_mod n 256
    have e2 := Nat.div_add_mod m 256
    have l1 : n % 256 < 256 := Nat.mod_lt _ (by omega)
    have l2 : m % 256 < 256 := Nat.mod_lt _ (by omega)
    simp only [cmpN, cmpL_cons_cons, cmpL_nil_nil, Ordering.thenO]
    by_cases a1 : n / 256 < m / 256
    · have : n < m := by omega
      simp [a1, this]
    · by_cases a2 : m / 256 < n / 256
      · have : ¬ n < m := by omega
        have : m < n := by omega
        simp [a1, a2, *]
      · simp only [a1, a2, if_false]
        have : n / 256 = m / 256 := by omega
        by_cases b1 : n % 256 < m % 256
        · have : n < m := by omega
          simp [b1, this]
        · by_cases b2 : m % 256 < n % 256
          · have : ¬ n < m := by omega
            have : m < n := by omega
            simp [b1, b2, *]
          · have : ¬ n < m := by omega
            have : ¬ m < n := by omega
            simp [b1, b2, *]

theorem be2_small (n : Nat) (h : n < 256) : be 2 n = [0, n] := by
  simp [be]; omega

end Sdb
